(* C14 / C05 -- the two-view machine refines the by-name store (Model/Session.v). *)
From Aelys Require Import Base.Tactics Extracted.CallCacheConsts Extracted.ReplShape Model.Session.
Local Open Scope N_scope.

(* ------------------------------------------------------------------ layouts *)

Lemma layout_eqb_eq : forall a b, layout_eqb a b = true -> a = b.
Proof.
  induction a as [|[x|] a IH]; intros [|[y|] b] H; cbn in H; try discriminate; auto.
  - apply andb_true_iff in H as [H1 H2]. apply N.eqb_eq in H1. subst. f_equal. auto.
  - f_equal. auto.
Qed.

Lemma layout_eqb_refl : forall a, layout_eqb a a = true.
Proof. induction a as [|[x|] a IH]; cbn; auto. now rewrite N.eqb_refl. Qed.

Lemma layout_eqb_neq a b : layout_eqb a b = false -> a <> b.
Proof. intros H E. subst. rewrite layout_eqb_refl in H. discriminate. Qed.

Lemma pos_of_nth : forall L n i, pos_of n L = Some i -> nth_error L i = Some (Some n).
Proof.
  induction L as [|[m|] r IH]; intros n i H; cbn in H; try discriminate.
  - destruct (n =? m) eqn:E.
    + inversion H; subst. apply N.eqb_eq in E. subst. reflexivity.
    + destruct (pos_of n r) as [j|] eqn:P; [|discriminate]. inversion H; subst. cbn. now apply IH.
  - destruct (pos_of n r) as [j|] eqn:P; [|discriminate]. inversion H; subst. cbn. now apply IH.
Qed.

Lemma pos_of_lt : forall L n i, pos_of n L = Some i -> (i < length L)%nat.
Proof. intros L n i H. apply pos_of_nth in H. apply nth_error_Some. congruence. Qed.

Lemma in_layout_pos L n : in_layout n L = true <-> exists i, pos_of n L = Some i.
Proof. unfold in_layout. destruct (pos_of n L); split; eauto; try discriminate. intros [i H]. discriminate. Qed.

Lemma in_layout_false L n : in_layout n L = false <-> pos_of n L = None.
Proof. unfold in_layout. destruct (pos_of n L); split; congruence. Qed.

(* distinct names sit in distinct slots *)
Lemma pos_of_inj : forall L n m i, pos_of n L = Some i -> pos_of m L = Some i -> n = m.
Proof.
  intros L n m i Hn Hm. apply pos_of_nth in Hn. apply pos_of_nth in Hm. congruence.
Qed.

Lemma nth_pos_of : forall L n i, nodupb L = true -> nth_error L i = Some (Some n) -> pos_of n L = Some i.
Proof.
  induction L as [|[m|] r IH]; intros n i ND H; [destruct i; discriminate| |].
  - cbn in ND. apply andb_true_iff in ND as [N1 N2]. apply negb_true_iff in N1.
    destruct i as [|i]; cbn in H.
    + inversion H; subst. cbn. now rewrite N.eqb_refl.
    + cbn. destruct (n =? m) eqn:E.
      * apply N.eqb_eq in E. subst. pose proof (IH m i N2 H) as P.
        apply in_layout_false in N1. congruence.
      * now rewrite (IH n i N2 H).
  - cbn in ND. destruct i as [|i]; cbn in H; [discriminate|]. cbn. now rewrite (IH n i ND H).
Qed.

(* ------------------------------------------------------------------ vectors *)
Lemma gnth_set_at_same : forall i x l, gnth (set_at i x l) i = x.
Proof. unfold gnth. induction i as [|i IH]; intros x [|h t]; cbn; auto. Qed.

Lemma gnth_set_at_other : forall i j x l, i <> j -> gnth (set_at i x l) j = gnth l j.
Proof.
  unfold gnth. induction i as [|i IH]; intros [|j] x [|h t] H; cbn; try congruence; auto.
  - destruct j; reflexivity.
  - rewrite IH by congruence. destruct j; reflexivity.
Qed.

Lemma length_set_at : forall i x l, (length l <= length (set_at i x l))%nat.
Proof. induction i as [|i IH]; intros x [|h t]; cbn; try lia. specialize (IH x t). lia. Qed.

Lemma gnth_load_vec m L i :
  gnth (load_vec m L) i = match nth_error L i with Some (Some n) => glookup m n | _ => VNull end.
Proof.
  unfold gnth, load_vec. revert i. induction L as [|[n|] r IH]; intros [|i]; cbn; auto.
Qed.

Lemma length_load_vec m L : length (load_vec m L) = length L.
Proof. unfold load_vec. apply map_length. Qed.

Lemma gnth_app_l (a b : list value) i : (i < length a)%nat -> gnth (a ++ b) i = gnth a i.
Proof. intro H. unfold gnth. apply app_nth1. exact H. Qed.

(* ------------------------------------------------------------------ sync_from *)
Lemma sync_from_other : forall L g m n, in_layout n L = false ->
  glookup (sync_from L g m) n = glookup m n.
Proof.
  induction L as [|[k|] r IH]; intros g m n H; cbn in *; auto.
  - unfold in_layout in H. cbn in H. destruct (n =? k) eqn:E; [discriminate|].
    assert (H' : in_layout n r = false) by (unfold in_layout; destruct (pos_of n r); [discriminate|reflexivity]).
    destruct g as [|v g']; auto. rewrite IH by exact H'. unfold glookup, sget. cbn. now rewrite E.
  - assert (H' : in_layout n r = false) by (unfold in_layout in *; cbn in H; destruct (pos_of n r); [discriminate|reflexivity]).
    destruct g as [|v g']; auto.
Qed.

Lemma sync_from_at : forall L g m n i, nodupb L = true -> pos_of n L = Some i -> (i < length g)%nat ->
  glookup (sync_from L g m) n = gnth g i.
Proof.
  induction L as [|[k|] r IH]; intros g m n i ND Hn Hi; [discriminate| |].
  - cbn in ND. apply andb_true_iff in ND as [N1 N2]. apply negb_true_iff in N1.
    destruct g as [|v g']; [cbn in Hi; lia|]. cbn in Hn. destruct (n =? k) eqn:E.
    + inversion Hn; subst i. apply N.eqb_eq in E. subst k. cbn [sync_from].
      rewrite sync_from_other by exact N1. unfold glookup, sget, gnth. cbn. now rewrite N.eqb_refl.
    + destruct (pos_of n r) as [j|] eqn:P; [|discriminate]. inversion Hn; subst i. cbn [sync_from].
      cbn in Hi. rewrite (IH g' _ n j N2 P) by lia. reflexivity.
  - cbn in ND. destruct g as [|v g']; [cbn in Hi; lia|]. cbn in Hn.
    destruct (pos_of n r) as [j|] eqn:P; [|discriminate]. inversion Hn; subst i. cbn [sync_from].
    cbn in Hi. rewrite (IH g' _ n j ND P) by lia. reflexivity.
Qed.

(* ------------------------------------------------------------------ views *)
(* what the machine reads for name n under the loaded layout *)
Definition view (st : mstate) (n : N) : value :=
  match pos_of n (cur st) with Some i => gnth (gidx st) i | None => glookup (gmap st) n end.

Definition len_ok (st : mstate) : Prop := (length (cur st) <= length (gidx st))%nat.

Definition snap_ok (st : mstate) : Prop :=
  forall L vec, snap_lookup L (snap st) = Some vec -> vec = load_vec (gmap st) L.

(* while snapshots exist the loaded vector has no writes that the by-name map does not have *)
Definition clean (st : mstate) : Prop :=
  forall n i, pos_of n (cur st) = Some i -> gnth (gidx st) i = glookup (gmap st) n.

Definition untainted (T : list N) (n : N) : Prop := memb n T = false.

(* the machine state represents the store s, except on the unspecified names T; W: the names
   written so far in this step *)
Record sim (T W : list N) (st : mstate) (s : sstate) : Prop := {
  sim_heap : m_heap st = s_heap s;
  sim_next : m_next st = s_next s;
  sim_view : forall n, untainted T n -> view st n = sget (s_store s) n;
  sim_map : forall n, untainted T n ->
            glookup (gmap st) n = sget (s_store s) n \/
            (in_layout n (cur st) = true /\ memb n W = true /\ snap st = []);
  sim_snap : snap_ok st;
  sim_clean : snap st <> [] -> clean st;
  sim_len : len_ok st;
  sim_nodup : nodupb (cur st) = true }.

Lemma sync_loaded_map st n : len_ok st -> nodupb (cur st) = true ->
  glookup (gmap (sync_loaded st)) n = view st n.
Proof.
  intros HL ND. unfold sync_loaded, view. cbn [gmap upd_views].
  destruct (pos_of n (cur st)) as [i|] eqn:P.
  - apply sync_from_at; auto. apply pos_of_lt in P. unfold len_ok in HL. lia.
  - apply sync_from_other. now apply in_layout_false.
Qed.

Lemma view_sync_loaded st n : len_ok st -> nodupb (cur st) = true -> view (sync_loaded st) n = view st n.
Proof.
  intros HL ND. unfold view at 1. cbn [cur gidx sync_loaded upd_views].
  destruct (pos_of n (cur st)) as [i|] eqn:P.
  - unfold view. now rewrite P.
  - change (glookup (gmap (sync_loaded st)) n = view st n). now apply sync_loaded_map.
Qed.

Lemma memb_cons n m W : memb n (m :: W) = (n =? m) || memb n W.
Proof. reflexivity. Qed.

Lemma memb_app n A B : memb n (A ++ B) = memb n A || memb n B.
Proof. unfold memb. apply existsb_app. Qed.

(* copy-back: the by-name map then represents the store on every specified name *)
Lemma sim_sync_loaded T W st s : sim T W st s ->
  sim T W (sync_loaded st) s /\ (forall n, untainted T n -> glookup (gmap (sync_loaded st)) n = sget (s_store s) n).
Proof.
  intros [H1 H2 HV HM HS HC HL ND].
  assert (Map : forall n, glookup (gmap (sync_loaded st)) n = view st n) by (intro n; now apply sync_loaded_map).
  assert (Same : snap st <> [] -> forall n, glookup (gmap (sync_loaded st)) n = glookup (gmap st) n).
  { intros Hne n. rewrite Map. unfold view. destruct (pos_of n (cur st)) as [i|] eqn:P; [|reflexivity].
    exact (HC Hne n i P). }
  split; [constructor|]; auto.
  - intros n Hn. rewrite view_sync_loaded by auto. now apply HV.
  - intros n Hn. left. rewrite Map. now apply HV.
  - intros L vec Hs. cbn [snap sync_loaded upd_views] in Hs.
    assert (Hne : snap st <> []) by (intro E; rewrite E in Hs; discriminate).
    rewrite (HS L vec Hs). unfold load_vec. apply map_ext. intros [n|]; [|reflexivity]. symmetry. now apply Same.
  - intros _ n i P. cbn [cur gidx sync_loaded upd_views] in *. rewrite Map. unfold view. now rewrite P.
  - intros n Hn. rewrite Map. now apply HV.
Qed.

Lemma sim_with_frames T W st s fs : sim T W st s -> sim T W (with_frames st fs) s.
Proof. intros [H1 H2 HV HM HS HC HL ND]. constructor; auto. Qed.

Definition all_clean (T : list N) (st : mstate) (s : sstate) : Prop :=
  forall n, untainted T n -> glookup (gmap st) n = sget (s_store s) n.

Lemma snap_lookup_cons L L' v r :
  snap_lookup L ((L', v) :: r) = if layout_eqb L L' then Some v else snap_lookup L r.
Proof. reflexivity. Qed.

(* loading a layout from a by-name map that represents the store *)
Lemma sim_prepare T W st s L : sim T W st s -> all_clean T st s -> nodupb L = true ->
  sim T W (prepare st L) s /\ cur (prepare st L) = L /\ all_clean T (prepare st L) s /\
  frames (prepare st L) = frames st.
Proof.
  intros S AC NL. pose proof S as [H1 H2 HV HM HS HC HL ND]. unfold prepare.
  destruct (layout_eqb L (cur st)) eqn:E.
  { apply layout_eqb_eq in E. split; [exact S|]. split; [auto|]. split; [exact AC|reflexivity]. }
  assert (Loaded : forall vec, vec = load_vec (gmap st) L -> forall sn,
            (forall L' v', snap_lookup L' sn = Some v' -> v' = load_vec (gmap st) L') ->
            sim T W (upd_views st (gmap st) vec L sn) s).
  { intros vec -> sn Hsn. constructor; cbn [m_heap m_next gmap gidx cur snap upd_views]; auto.
    - intros n Hn. unfold view. cbn [cur gidx gmap upd_views].
      destruct (pos_of n L) as [i|] eqn:P.
      + rewrite gnth_load_vec, (pos_of_nth _ _ _ P). now apply AC.
      + now apply AC.
    - intros _ n i P. cbn [cur gidx gmap upd_views] in *. rewrite gnth_load_vec, (pos_of_nth _ _ _ P). reflexivity.
    - unfold len_ok. cbn [cur gidx upd_views]. rewrite length_load_vec. lia. }
  destruct L as [|a r] eqn:EL.
  { split; [|split; [reflexivity|split; [exact AC|reflexivity]]].
    replace (@nil value) with (load_vec (gmap st) []) by reflexivity.
    apply Loaded; [reflexivity|].
    intros L' v' Hl. rewrite snap_lookup_cons in Hl. destruct (layout_eqb L' []) eqn:E2.
    - apply layout_eqb_eq in E2. subst. now inversion Hl.
    - now apply HS. }
  rewrite <- EL in *. destruct (snap_lookup L (snap st)) as [vec|] eqn:Es.
  { split; [|split; [reflexivity|split; [exact AC|reflexivity]]]. apply Loaded; [now apply HS|exact HS]. }
  split; [|split; [reflexivity|split; [exact AC|reflexivity]]]. apply Loaded; [reflexivity|].
  intros L' v' Hl. rewrite snap_lookup_cons in Hl. destruct (layout_eqb L' L) eqn:E2.
  - apply layout_eqb_eq in E2. subst. now inversion Hl.
  - now apply HS.
Qed.

(* a write through the loaded layout *)
Lemma sim_set_idx T W st s n i v : sim T W st s -> pos_of n (cur st) = Some i ->
  sim T (n :: W) (set_idx st i v) (mkS ((n, v) :: s_store s) (s_heap s) (s_next s)).
Proof.
  intros [H1 H2 HV HM HS HC HL ND] P. constructor; cbn [m_heap m_next s_heap s_next s_store]; auto.
  - intros m Hm. unfold view. cbn [cur gidx gmap set_idx upd_views]. unfold sget. cbn [lookup].
    destruct (m =? n) eqn:E.
    + apply N.eqb_eq in E. subst m. rewrite P. apply gnth_set_at_same.
    + apply N.eqb_neq in E. specialize (HV m Hm). unfold view, sget in HV.
      destruct (pos_of m (cur st)) as [j|] eqn:Pm; [|exact HV].
      rewrite gnth_set_at_other; [exact HV|]. intro Eij. subst j. apply E. eapply pos_of_inj; eauto.
  - intros m Hm. cbn [gmap cur snap set_idx upd_views]. unfold sget. cbn [lookup].
    destruct (m =? n) eqn:E.
    + apply N.eqb_eq in E. subst m. right. repeat split; auto.
      * apply in_layout_pos. eauto.
      * rewrite memb_cons, N.eqb_refl. reflexivity.
    + destruct (HM m Hm) as [Hl|(Hi & Hw & _)].
      * left. exact Hl.
      * right. repeat split; auto. rewrite memb_cons, Hw. apply orb_true_r.
  - intros L vec Hs. cbn in Hs. discriminate.
  - intros Hne. cbn in Hne. congruence.
  - unfold len_ok in *. cbn [cur gidx set_idx upd_views]. pose proof (length_set_at i v (gidx st)). lia.
Qed.

Lemma sim_alloc T W st s o : sim T W st s ->
  sim T W (mkM (gmap st) (gidx st) (cur st) (snap st) (frames st) ((m_next st, o) :: m_heap st) (N.succ (m_next st)))
          (mkS (s_store s) ((s_next s, o) :: s_heap s) (N.succ (s_next s))).
Proof.
  intros [H1 H2 HV HM HS HC HL ND]. constructor; cbn [m_heap m_next s_heap s_next s_store]; auto; congruence.
Qed.

(* writes only grow W *)
Lemma sim_weaken_W T W W' st s : (forall n, memb n W = true -> memb n W' = true) -> sim T W st s -> sim T W' st s.
Proof.
  intros Hsub [H1 H2 HV HM HS HC HL ND]. constructor; auto.
  intros n Hn. destruct (HM n Hn) as [H|(A & B & C0)]; [now left|right; auto].
Qed.

(* entering a function: afterwards its layout is loaded (unless it has none) *)
Lemma sim_switch T W st s L : sim T W st s -> nodupb L = true ->
  sim T W (switch_layout st L) s /\ (L = [] \/ cur (switch_layout st L) = L) /\
  frames (switch_layout st L) = frames st.
Proof.
  intros S NL. unfold switch_layout, CALLS_COMPARE_WITH_LOADED_LAYOUT, LAYOUT_SWITCHES_SYNC_THE_LOADED_LAYOUT. destruct L as [|a r] eqn:EL.
  { split; [exact S|]. split; [now left|reflexivity]. }
  rewrite <- EL in *. destruct (layout_eqb L (cur st)) eqn:E.
  { apply layout_eqb_eq in E. split; [exact S|]. split; [right; now rewrite E|reflexivity]. }
  destruct (sim_sync_loaded T W st s S) as [S1 AC].
  destruct (sim_prepare T W (sync_loaded st) s L S1 AC NL) as (S2 & C2 & _ & F2).
  split; [exact S2|]. split; [right; exact C2|]. now rewrite F2.
Qed.

Lemma sim_call_enter T W st s L : sim T W st s -> nodupb L = true ->
  sim T W (call_enter st L) s /\ (L = [] \/ cur (call_enter st L) = L) /\
  frames (call_enter st L) = mkFrame L false :: frames st.
Proof.
  intros S NL. destruct (sim_switch T W st s L S NL) as (S1 & C1 & F1). unfold call_enter.
  split; [now apply sim_with_frames|]. split; [exact C1|]. cbn [frames with_frames]. now rewrite F1.
Qed.

(* returning into a caller frame: afterwards the caller's layout is loaded (unless it has none) *)
Lemma sim_do_return T W st s f c rest : sim T W st s -> frames st = f :: c :: rest ->
  nodupb (f_lay c) = true ->
  sim T W (do_return st) s /\ (f_lay c = [] \/ cur (do_return st) = f_lay c) /\
  frames (do_return st) = c :: rest.
Proof.
  intros S Hf NL. unfold do_return, RETURN_SYNCS_WHEN_LEAVING. rewrite Hf.
  destruct (f_lay c) as [|a r] eqn:EL.
  { cbn [orb]. split; [now apply sim_with_frames|]. split; [now left|reflexivity]. }
  rewrite <- EL in *. destruct (layout_eqb (f_lay c) (cur st)) eqn:E; cbn [negb orb].
  { apply layout_eqb_eq in E. split; [now apply sim_with_frames|]. split; [right; now rewrite E|reflexivity]. }
  destruct (sim_sync_loaded T W st s S) as [S1 AC].
  assert (S1' : sim T W (with_frames (sync_loaded st) (c :: rest)) s) by now apply sim_with_frames.
  destruct (sim_prepare T W _ s (f_lay c) S1' AC NL) as (S2 & C2 & _ & F2).
  split; [exact S2|]. split; [right; exact C2|exact F2].
Qed.

(* ------------------------------------------------------------------ execution *)
Definition wf_code (C : code) : Prop :=
  forall fid fd, lookup fid C = Some fd -> nodupb (fd_layout fd) = true.

Definition sub (W W' : list N) : Prop := forall n, memb n W = true -> memb n W' = true.
Definition nonentry (ext : list frame) : Prop := Forall (fun f => f_entry f = false) ext.

Lemma sub_refl W : sub W W. Proof. intros n H. exact H. Qed.
Lemma sub_trans A B D : sub A B -> sub B D -> sub A D. Proof. intros H1 H2 n H. auto. Qed.
Lemma sub_cons n W : sub W (n :: W). Proof. intros m H. rewrite memb_cons, H. apply orb_true_r. Qed.

(* how a machine run corresponds to the specification's run of the same code *)
Definition corr (T : list N) (Lf : layout) (fr0 : list frame) (W0 : list N)
           (ms : mstate * list Z * status) (xs : sstate * list N * list Z * xstatus) : Prop :=
  let '(st', out, m) := ms in
  let '(s', W', out', x) := xs in
  match x with
  | XOk => m = SOk /\ out = out' /\ sim T W' st' s' /\ (Lf = [] \/ cur st' = Lf) /\ frames st' = fr0 /\ sub W0 W'
  | XErr => m = SErr /\ out = out' /\ sim T W' st' s' /\
            (exists ext, frames st' = ext ++ fr0 /\ nonentry ext) /\ sub W0 W'
  | _ => True
  end.

Lemma corr_cont T Lf fr0 W0 W1 o ms xs :
  sub W0 W1 -> corr T Lf fr0 W1 ms xs ->
  corr T Lf fr0 W0 (let '(st2, out2, m) := ms in (st2, o ++ out2, m))
                   (let '(s2, W2, out2, x) := xs in (s2, W2, o ++ out2, x)).
Proof.
  intros Hs. destruct ms as [[st2 out2] m]. destruct xs as [[[s2 W2] out2'] x]. unfold corr.
  destruct x; auto.
  - intros (A & B & D & E & F & G). split; [exact A|]. split; [congruence|]. split; [exact D|].
    split; [exact E|]. split; [exact F|]. eapply sub_trans; eauto.
  - intros (A & B & D & E & G). split; [exact A|]. split; [congruence|]. split; [exact D|].
    split; [exact E|]. eapply sub_trans; eauto.
Qed.

(* one-step unfoldings *)
Section Steps.
Variable C : code.

Lemma exec_s_nil f d T Lf arg s W : exec_s C (S f) d T Lf arg s W [] = (s, W, [], XOk).
Proof. reflexivity. Qed.
Lemma exec_m_nil f Lf arg st : exec_m C (S f) Lf arg st [] = (st, [], SOk).
Proof. reflexivity. Qed.
Lemma exec_s_0 d T Lf arg s W b : exec_s C 0 d T Lf arg s W b = (s, W, [], XFuel).
Proof. reflexivity. Qed.

Definition conts f d T Lf arg r (s1 : sstate) (W1 : list N) (out : list Z) :=
  let '(s2, W2, out2, st) := exec_s C f d T Lf arg s1 W1 r in (s2, W2, out ++ out2, st).
Definition contm f Lf arg r (st1 : mstate) (out : list Z) :=
  let '(st2, out2, s) := exec_m C f Lf arg st1 r in (st2, out ++ out2, s).

Lemma exec_s_cons f d T Lf arg s W i r :
  exec_s C (S f) d T Lf arg s W (i :: r) =
  match i with
  | ISet n v => if in_layout n Lf then conts f d T Lf arg r (mkS ((n, v) :: s_store s) (s_heap s) (s_next s)) (n :: W) [] else (s, W, [], XBad)
  | ICopy dd src => if in_layout dd Lf && in_layout src Lf then
                     if memb src T then (s, W, [], XTaint) else
                     conts f d T Lf arg r (mkS ((dd, sget (s_store s) src) :: s_store s) (s_heap s) (s_next s)) (dd :: W) []
                   else (s, W, [], XBad)
  | IAdd n k => if in_layout n Lf then
                  if memb n T then (s, W, [], XTaint) else
                  match sget (s_store s) n with
                  | VInt z => conts f d T Lf arg r (mkS ((n, VInt (z + k)) :: s_store s) (s_heap s) (s_next s)) (n :: W) []
                  | _ => (s, W, [], XErr)
                  end else (s, W, [], XBad)
  | IPrint n k => if in_layout n Lf then
                    if memb n T then (s, W, [], XTaint) else
                    conts f d T Lf arg r s W [(pval (sget (s_store s) n) + k)%Z] else (s, W, [], XBad)
  | IOut z => conts f d T Lf arg r s W [z]
  | IDef n fid => if in_layout n Lf
                  then conts f d T Lf arg r (mkS ((n, VPtr (s_next s)) :: s_store s) ((s_next s, OFn fid) :: s_heap s) (N.succ (s_next s))) (n :: W) []
                  else (s, W, [], XBad)
  | ICall c nargs a =>
      if (match c with CGlobal n => in_layout n Lf | CArg => true end)
         && (match a with Some g => in_layout g Lf | None => true end) then
        if (match c with CGlobal n => memb n T | CArg => false end)
           || (match a with Some g => memb g T | None => false end) then (s, W, [], XTaint) else
        let fv := match c with CGlobal n => sget (s_store s) n | CArg => arg end in
        let av := match a with Some g => sget (s_store s) g | None => VNull end in
        match fv with
        | VPtr p =>
            match lookup p (s_heap s) with
            | Some (OFn fid) =>
                match lookup fid C with
                | Some fd =>
                    if negb (fd_arity fd =? nargs) then (s, W, [], XErr)
                    else if MAX_FRAMES <=? d then (s, W, [], XErr)
                    else
                      let '(s1, W1, out1, st1) := exec_s C f (d + 1) T (fd_layout fd) av s W (fd_body fd) in
                      match st1 with
                      | XOk => conts f d T Lf arg r s1 W1 out1
                      | _ => (s1, W1, out1, st1)
                      end
                | None => (s, W, [], XErr)
                end
            | Some (ONat tag ar) => if negb (ar =? nargs) then (s, W, [], XErr) else conts f d T Lf arg r s W [tag]
            | None => (s, W, [], XErr)
            end
        | _ => (s, W, [], XErr)
        end
      else (s, W, [], XBad)
  | IFail => (s, W, [], XErr)
  end.
Proof. destruct i; reflexivity. Qed.

Lemma exec_m_cons f Lf arg st i r :
  exec_m C (S f) Lf arg st (i :: r) =
  match i with
  | ISet n v => match pos_of n Lf with Some i => contm f Lf arg r (set_idx st i v) [] | None => (st, [], SBad) end
  | ICopy d src => match pos_of d Lf, pos_of src Lf with
                   | Some i, Some j => contm f Lf arg r (set_idx st i (gnth (gidx st) j)) []
                   | _, _ => (st, [], SBad)
                   end
  | IAdd n k => match pos_of n Lf with
                | Some i => match gnth (gidx st) i with
                            | VInt z => contm f Lf arg r (set_idx st i (VInt (z + k))) []
                            | _ => (st, [], SErr)
                            end
                | None => (st, [], SBad)
                end
  | IPrint n k => match pos_of n Lf with
                  | Some i => contm f Lf arg r st [(pval (gnth (gidx st) i) + k)%Z]
                  | None => (st, [], SBad)
                  end
  | IOut z => contm f Lf arg r st [z]
  | IDef n fid => match pos_of n Lf with
                  | Some i =>
                      let st1 := mkM (gmap st) (gidx st) (cur st) (snap st) (frames st)
                                     ((m_next st, OFn fid) :: m_heap st) (N.succ (m_next st)) in
                      contm f Lf arg r (set_idx st1 i (VPtr (m_next st))) []
                  | None => (st, [], SBad)
                  end
  | ICall c nargs a =>
      match (match c with CGlobal n => mread st Lf n | CArg => Some arg end),
            (match a with Some g => mread st Lf g | None => Some VNull end) with
      | Some fv, Some av =>
          match fv with
          | VPtr p =>
              match lookup p (m_heap st) with
              | Some (OFn fid) =>
                  match lookup fid C with
                  | Some fd =>
                      if negb (fd_arity fd =? nargs) then (st, [], SErr)
                      else if MAX_FRAMES <=? N.of_nat (length (frames st)) then (switch_layout st (fd_layout fd), [], SErr)
                      else
                        let '(st1, out1, s1) := exec_m C f (fd_layout fd) av (call_enter st (fd_layout fd)) (fd_body fd) in
                        match s1 with
                        | SOk => contm f Lf arg r (do_return st1) out1
                        | _ => (st1, out1, s1)
                        end
                  | None => (st, [], SErr)
                  end
              | Some (ONat tag ar) => if negb (ar =? nargs) then (st, [], SErr) else contm f Lf arg r st [tag]
              | None => (st, [], SErr)
              end
          | _ => (st, [], SErr)
          end
      | _, _ => (st, [], SBad)
      end
  | IFail => (st, [], SErr)
  end.
Proof. destruct i; reflexivity. Qed.
End Steps.

Lemma corr_unspec T Lf fr0 W0 ms s W o x :
  match x with XOk | XErr => False | _ => True end -> corr T Lf fr0 W0 ms (s, W, o, x).
Proof. intro H. destruct ms as [[st' out] m]. unfold corr. destruct x; auto; contradiction. Qed.

Lemma corr_err T Lf W0 st s W : sim T W st s -> sub W0 W ->
  corr T Lf (frames st) W0 (st, [], SErr) (s, W, [], XErr).
Proof.
  intros S Hs. unfold corr. split; [reflexivity|]. split; [reflexivity|]. split; [exact S|].
  split; [exists []; split; [reflexivity|constructor]|exact Hs].
Qed.

Lemma read_ok T W st s Lf n i : sim T W st s -> cur st = Lf -> pos_of n Lf = Some i -> untainted T n ->
  gnth (gidx st) i = sget (s_store s) n.
Proof.
  intros S E P U. pose proof (sim_view T W st s S n U) as V. unfold view in V. rewrite E, P in V. exact V.
Qed.

Lemma pos_some_cur (Lf : layout) (st : mstate) n i : (Lf = [] \/ cur st = Lf) -> pos_of n Lf = Some i -> cur st = Lf.
Proof. intros [E|E] P; [subst; discriminate|exact E]. Qed.

Lemma in_layout_of_pos n L i : pos_of n L = Some i -> in_layout n L = true.
Proof. intro P. unfold in_layout. now rewrite P. Qed.
Lemma in_layout_of_none n L : pos_of n L = None -> in_layout n L = false.
Proof. intro P. unfold in_layout. now rewrite P. Qed.

Definition frames_ok (fs : list frame) : Prop := forall f, In f fs -> nodupb (f_lay f) = true.

Section Exec.
Variable C : code.
Hypothesis WF : wf_code C.
Variable T : list N.

Lemma exec_sim : forall fuel Lf arg st s W body fr rest,
  sim T W st s -> (Lf = [] \/ cur st = Lf) -> frames st = fr :: rest -> f_lay fr = Lf ->
  frames_ok (frames st) ->
  corr T Lf (frames st) W (exec_m C fuel Lf arg st body)
       (exec_s C fuel (N.of_nat (length (frames st))) T Lf arg s W body).
Proof.
  induction fuel as [|f IH]; intros Lf arg st s W body fr rest S HC HF HL FO.
  { rewrite exec_s_0. apply corr_unspec. exact I. }
  destruct body as [|i r].
  { rewrite exec_s_nil, exec_m_nil. unfold corr. split; [reflexivity|]. split; [reflexivity|]. split; [exact S|].
    split; [exact HC|]. split; [reflexivity|apply sub_refl]. }
  rewrite exec_s_cons, exec_m_cons.
  (* continuing with the rest of the body from a state with the same frames *)
  assert (CONT : forall st1 s1 W1 o, sim T W1 st1 s1 -> (Lf = [] \/ cur st1 = Lf) -> frames st1 = frames st -> sub W W1 ->
                 corr T Lf (frames st) W (contm C f Lf arg r st1 o)
                      (conts C f (N.of_nat (length (frames st))) T Lf arg r s1 W1 o)).
  { intros st1 s1 W1 o S1 HC1 HF1 Hs. unfold contm, conts. apply corr_cont with (W1 := W1); [exact Hs|].
    rewrite <- HF1. eapply IH; eauto; rewrite HF1; eauto. }
  destruct i as [n v|d src|n k|n k|z|n fid|c nargs a|].
  - (* ISet *)
    destruct (pos_of n Lf) as [i|] eqn:P.
    + rewrite (in_layout_of_pos _ _ _ P). pose proof (pos_some_cur _ _ _ _ HC P) as EC.
      apply CONT; auto; [|apply sub_cons]. apply sim_set_idx; auto. now rewrite EC.
    + rewrite (in_layout_of_none _ _ P). apply corr_unspec. exact I.
  - (* ICopy *)
    destruct (pos_of d Lf) as [i|] eqn:Pd; [|rewrite (in_layout_of_none _ _ Pd); apply corr_unspec; exact I].
    destruct (pos_of src Lf) as [j|] eqn:Ps;
      [|rewrite (in_layout_of_pos _ _ _ Pd), (in_layout_of_none _ _ Ps); apply corr_unspec; exact I].
    rewrite (in_layout_of_pos _ _ _ Pd), (in_layout_of_pos _ _ _ Ps). cbn [andb].
    destruct (memb src T) eqn:Ts; [apply corr_unspec; exact I|].
    pose proof (pos_some_cur _ _ _ _ HC Pd) as EC.
    rewrite (read_ok T W st s Lf src j S EC Ps Ts).
    apply CONT; auto; [|apply sub_cons]. apply sim_set_idx; auto. now rewrite EC.
  - (* IAdd *)
    destruct (pos_of n Lf) as [i|] eqn:P; [|rewrite (in_layout_of_none _ _ P); apply corr_unspec; exact I].
    rewrite (in_layout_of_pos _ _ _ P). destruct (memb n T) eqn:Tn; [apply corr_unspec; exact I|].
    pose proof (pos_some_cur _ _ _ _ HC P) as EC.
    rewrite (read_ok T W st s Lf n i S EC P Tn).
    destruct (sget (s_store s) n) as [|z|p]; try (apply corr_err; [exact S|apply sub_refl]).
    apply CONT; auto; [|apply sub_cons]. apply sim_set_idx; auto. now rewrite EC.
  - (* IPrint *)
    destruct (pos_of n Lf) as [i|] eqn:P; [|rewrite (in_layout_of_none _ _ P); apply corr_unspec; exact I].
    rewrite (in_layout_of_pos _ _ _ P). destruct (memb n T) eqn:Tn; [apply corr_unspec; exact I|].
    pose proof (pos_some_cur _ _ _ _ HC P) as EC.
    rewrite (read_ok T W st s Lf n i S EC P Tn).
    apply CONT; auto. apply sub_refl.
  - (* IOut *)
    apply CONT; auto. apply sub_refl.
  - (* IDef *)
    destruct (pos_of n Lf) as [i|] eqn:P; [|rewrite (in_layout_of_none _ _ P); apply corr_unspec; exact I].
    rewrite (in_layout_of_pos _ _ _ P). pose proof (pos_some_cur _ _ _ _ HC P) as EC.
    cbv zeta. rewrite (sim_next T W st s S).
    apply CONT; auto; [|apply sub_cons].
    pose proof (sim_alloc T W st s (OFn fid) S) as SA. rewrite (sim_next T W st s S) in SA.
    apply (sim_set_idx T W _ _ n i (VPtr (s_next s)) SA). cbn [cur]. now rewrite EC.
  - (* ICall *)
    set (d := N.of_nat (length (frames st))) in *.
    (* once callee and argument are the same value on both sides *)
    assert (CORE : forall fv av,
      corr T Lf (frames st) W
        match fv with
        | VPtr p =>
            match lookup p (m_heap st) with
            | Some (OFn fid) =>
                match lookup fid C with
                | Some fd =>
                    if negb (fd_arity fd =? nargs) then (st, [], SErr)
                    else if MAX_FRAMES <=? d then (switch_layout st (fd_layout fd), [], SErr)
                    else
                      let '(st1, out1, s1) := exec_m C f (fd_layout fd) av (call_enter st (fd_layout fd)) (fd_body fd) in
                      match s1 with
                      | SOk => contm C f Lf arg r (do_return st1) out1
                      | _ => (st1, out1, s1)
                      end
                | None => (st, [], SErr)
                end
            | Some (ONat tag ar) => if negb (ar =? nargs) then (st, [], SErr) else contm C f Lf arg r st [tag]
            | None => (st, [], SErr)
            end
        | _ => (st, [], SErr)
        end
        match fv with
        | VPtr p =>
            match lookup p (s_heap s) with
            | Some (OFn fid) =>
                match lookup fid C with
                | Some fd =>
                    if negb (fd_arity fd =? nargs) then (s, W, [], XErr)
                    else if MAX_FRAMES <=? d then (s, W, [], XErr)
                    else
                      let '(s1, W1, out1, st1) := exec_s C f (d + 1) T (fd_layout fd) av s W (fd_body fd) in
                      match st1 with
                      | XOk => conts C f d T Lf arg r s1 W1 out1
                      | _ => (s1, W1, out1, st1)
                      end
                | None => (s, W, [], XErr)
                end
            | Some (ONat tag ar) => if negb (ar =? nargs) then (s, W, [], XErr) else conts C f d T Lf arg r s W [tag]
            | None => (s, W, [], XErr)
            end
        | _ => (s, W, [], XErr)
        end).
    { intros fv av. pose proof (corr_err T Lf W st s W S (sub_refl W)) as ERR.
      destruct fv as [|z|p]; try exact ERR.
      rewrite (sim_heap T W st s S).
      destruct (lookup p (s_heap s)) as [[fid|tag ar]|]; try exact ERR.
      - destruct (lookup fid C) as [fd|] eqn:EF; try exact ERR.
        destruct (negb (fd_arity fd =? nargs)); try exact ERR.
        set (L := fd_layout fd). assert (NL : nodupb L = true) by exact (WF fid fd EF).
        destruct (MAX_FRAMES <=? d).
        { destruct (sim_switch T W st s L S NL) as (S1 & _ & F1). rewrite <- F1.
          exact (corr_err T Lf W (switch_layout st L) s W S1 (sub_refl W)). }
        destruct (sim_call_enter T W st s L S NL) as (S1 & C1 & F1).
        assert (FO1 : frames_ok (frames (call_enter st L))).
        { rewrite F1. intros x [E|Hin]; [subst x; exact NL|exact (FO x Hin)]. }
        pose proof (IH L av (call_enter st L) s W (fd_body fd) (mkFrame L false) (frames st) S1 C1 F1 eq_refl FO1) as Hc.
        replace (N.of_nat (length (frames (call_enter st L)))) with (d + 1) in Hc
          by (rewrite F1; cbn [length]; unfold d; lia).
        destruct (exec_m C f L av (call_enter st L) (fd_body fd)) as [[st1 out1] m1].
        destruct (exec_s C f (d + 1) T L av s W (fd_body fd)) as [[[s1 W1] o1] x1].
        unfold corr in Hc. destruct x1; try (apply corr_unspec; exact I).
        + (* the callee returned *)
          destruct Hc as (Em & Eo & S2 & _ & F2 & Hs). subst m1 out1.
          rewrite F1, HF in F2.
          assert (NLc : nodupb (f_lay fr) = true) by (apply FO; rewrite HF; now left).
          destruct (sim_do_return T W1 st1 s1 (mkFrame L false) fr rest S2 F2 NLc) as (S3 & C3 & F3).
          rewrite HL in C3. apply CONT; auto. now rewrite HF.
        + (* the callee failed: the failure propagates *)
          destruct Hc as (Em & Eo & S2 & (ext & Fe & Ne) & Hs). subst m1 out1.
          unfold corr. split; [reflexivity|]. split; [reflexivity|]. split; [exact S2|]. split; [|exact Hs].
          exists (ext ++ [mkFrame L false]). split.
          * rewrite Fe, F1, <- app_assoc. reflexivity.
          * apply Forall_app. split; [exact Ne|]. constructor; [reflexivity|constructor].
      - destruct (negb (ar =? nargs)); try exact ERR. apply CONT; auto. apply sub_refl. }
    (* the callee expression and the argument expression read the same values *)
    assert (RD : forall n, match pos_of n Lf with
                           | Some i => in_layout n Lf = true /\ mread st Lf n = Some (gnth (gidx st) i) /\
                                       (memb n T = false -> gnth (gidx st) i = sget (s_store s) n)
                           | None => in_layout n Lf = false /\ mread st Lf n = None
                           end).
    { intro n. unfold mread, in_layout. destruct (pos_of n Lf) as [i|] eqn:P; [|auto].
      split; [reflexivity|]. split; [reflexivity|]. intro U.
      exact (read_ok T W st s Lf n i S (pos_some_cur _ _ _ _ HC P) P U). }
    destruct c as [n|]; destruct a as [g|].
    + pose proof (RD n) as Hn. pose proof (RD g) as Hg.
      destruct (pos_of n Lf) as [i|]; destruct (pos_of g Lf) as [j|];
        try (destruct Hn as (En & Mn & Vn)); try (destruct Hn as (En & Mn));
        try (destruct Hg as (Eg & Mg & Vg)); try (destruct Hg as (Eg & Mg));
        rewrite ?En, ?Eg, ?Mn, ?Mg; cbn [andb]; try (apply corr_unspec; exact I).
      destruct (memb n T) eqn:Tn; [apply corr_unspec; exact I|].
      destruct (memb g T) eqn:Tg; [apply corr_unspec; exact I|]. cbn [orb].
      rewrite (Vn eq_refl), (Vg eq_refl). apply CORE.
    + pose proof (RD n) as Hn.
      destruct (pos_of n Lf) as [i|];
        try (destruct Hn as (En & Mn & Vn)); try (destruct Hn as (En & Mn));
        rewrite ?En, ?Mn; cbn [andb]; try (apply corr_unspec; exact I).
      destruct (memb n T) eqn:Tn; [apply corr_unspec; exact I|]. cbn [orb].
      rewrite (Vn eq_refl). apply CORE.
    + pose proof (RD g) as Hg.
      destruct (pos_of g Lf) as [j|];
        try (destruct Hg as (Eg & Mg & Vg)); try (destruct Hg as (Eg & Mg));
        rewrite ?Eg, ?Mg; cbn [andb]; try (apply corr_unspec; exact I).
      destruct (memb g T) eqn:Tg; [apply corr_unspec; exact I|]. cbn [orb].
      rewrite (Vg eq_refl). apply CORE.
    + cbn [andb orb]. apply CORE.
  - apply corr_err; [exact S|apply sub_refl].
Qed.
End Exec.

(* ------------------------------------------------------------------ step boundaries *)
(* between the steps of a session: no frames, and both views represent the store on every
   specified name *)
Record bnd (T : list N) (vm : mstate) (s : sstate) : Prop := {
  b_heap : m_heap vm = s_heap s;
  b_next : m_next vm = s_next s;
  b_map : forall n, untainted T n -> glookup (gmap vm) n = sget (s_store s) n;
  b_view : forall n, untainted T n -> view vm n = sget (s_store s) n;
  b_snap : snap_ok vm;
  b_clean : snap vm <> [] -> clean vm;
  b_len : len_ok vm;
  b_nodup : nodupb (cur vm) = true;
  b_frames : frames vm = [] }.

Lemma bnd_sim T W vm s : bnd T vm s -> sim T W vm s.
Proof. intros [A B D E F G H I0 J]. constructor; auto. Qed.

Lemma sim_bnd T W vm s : sim T W vm s -> all_clean T vm s -> frames vm = [] -> bnd T vm s.
Proof. intros [A B D E F G H I0] AC Fr. constructor; auto. Qed.

(* after a failure: what the failed step wrote becomes unspecified *)
Lemma sim_bnd_fail T W vm s : sim T W vm s -> frames vm = [] -> bnd (W ++ T) vm s.
Proof.
  intros [A B D E F G H I0] Fr.
  assert (U : forall n, untainted (W ++ T) n -> untainted T n /\ memb n W = false).
  { intros n Hn. unfold untainted in *. rewrite memb_app in Hn. apply orb_false_iff in Hn. tauto. }
  constructor; auto.
  - intros n Hn. destruct (U n Hn) as [Ut Uw]. destruct (E n Ut) as [Hl|(_ & Hw & _)]; [exact Hl|congruence].
  - intros n Hn. destruct (U n Hn) as [Ut _]. now apply D.
Qed.

Lemma bnd_weaken T T' vm s : (forall n, untainted T' n -> untainted T n) -> bnd T vm s -> bnd T' vm s.
Proof. intros HT [A B D E F G H I0 J]. constructor; auto. Qed.

Lemma unwind_ext : forall ext e base, nonentry ext -> f_entry e = true -> unwind (ext ++ e :: base) = base.
Proof.
  induction ext as [|a r IH]; intros e base Hn He; cbn.
  - now rewrite He.
  - inversion Hn as [|x y Hx Hy]; subst. rewrite Hx. now apply IH.
Qed.

(* VM::execute from a boundary *)
Lemma sim_execute T W vm s L : bnd T vm s -> nodupb L = true ->
  sim T W (execute vm L) s /\ cur (execute vm L) = L /\ frames (execute vm L) = [mkFrame L true].
Proof.
  intros [A B D E F G H I0 J] NL. split; [|split; [reflexivity|unfold execute; cbn [frames]; now rewrite J]].
  constructor; cbn [m_heap m_next gmap cur snap execute]; auto.
  - intros n Hn. unfold view. cbn [cur gidx gmap execute].
    destruct (pos_of n L) as [i|] eqn:P; [|now apply D].
    destruct L as [|a r] eqn:EL; [discriminate|]. rewrite <- EL in *.
    rewrite gnth_app_l by (rewrite length_load_vec; eapply pos_of_lt; eauto).
    rewrite gnth_load_vec, (pos_of_nth _ _ _ P). now apply D.
  - intros _ n i P. cbn [cur gidx gmap execute] in *.
    destruct L as [|a r] eqn:EL; [discriminate|]. rewrite <- EL in *.
    rewrite gnth_app_l by (rewrite length_load_vec; eapply pos_of_lt; eauto).
    rewrite gnth_load_vec, (pos_of_nth _ _ _ P). reflexivity.
  - unfold len_ok. cbn [cur gidx execute]. destruct L as [|a r] eqn:EL; [cbn; lia|]. rewrite <- EL.
    rewrite app_length, length_load_vec. lia.
Qed.

Section Steps2.
Variable C : code.
Hypothesis WF : wf_code C.

Lemma frames_ok_single L e : nodupb L = true -> frames_ok [mkFrame L e].
Proof. intros NL f [E|[]]. now subst f. Qed.

(* one unit (the input's own or a module's), run from a boundary *)
Lemma run_unit_sim T fuel vm s W L body : bnd T vm s -> nodupb L = true ->
  match exec_s C fuel 1 T L VNull s W body with
  | (s', W', o, XOk) => exists vm', run_unit C fuel vm L body = (vm', o, SOk) /\ bnd T vm' s' /\ (L = [] \/ cur vm' = L) /\ sub W W'
  | (s', W', o, XErr) => exists vm', run_unit C fuel vm L body = (vm', o, SErr) /\ bnd (W' ++ T) vm' s'
  | _ => True
  end.
Proof.
  intros B NL. destruct (sim_execute T W vm s L B NL) as (S0 & C0 & F0).
  pose proof (exec_sim C WF T fuel L VNull (execute vm L) s W body (mkFrame L true) [] S0 (or_intror C0) F0 eq_refl) as H.
  rewrite F0 in H. specialize (H (frames_ok_single L true NL)). cbn [length] in H. change (N.of_nat 1) with 1 in H.
  unfold run_unit, RUN_FAST_UNWINDS_ON_ERROR. destruct (exec_m C fuel L VNull (execute vm L) body) as [[st1 o1] m1].
  destruct (exec_s C fuel 1 T L VNull s W body) as [[[s1 W1] o1'] x1]. unfold corr in H.
  destruct x1; auto.
  - destruct H as (Em & Eo & S1 & HC1 & F1 & Hs). subst m1 o1.
    exists (do_return st1). split; [reflexivity|].
    assert (Dr : do_return st1 = with_frames (sync_loaded st1) []).
    { unfold do_return, RETURN_SYNCS_WHEN_LEAVING. rewrite F1. reflexivity. }
    destruct (sim_sync_loaded T W1 st1 s1 S1) as [S2 AC]. rewrite Dr.
    split; [|split; [|exact Hs]].
    + apply sim_bnd with (W := W1); [now apply sim_with_frames|exact AC|reflexivity].
    + cbn [cur with_frames sync_loaded upd_views]. exact HC1.
  - destruct H as (Em & Eo & S1 & (ext & Fe & Ne) & Hs). subst m1 o1.
    exists (with_frames st1 (unwind (frames st1))). split; [reflexivity|].
    apply sim_bnd_fail; [now apply sim_with_frames|].
    cbn [frames with_frames]. rewrite Fe. now apply unwind_ext.
Qed.
End Steps2.

(* ------------------------------------------------------------------ modules, inputs, host calls *)
Lemma bnd_with_frames_nil T vm s : bnd T vm s -> bnd T (with_frames vm []) s.
Proof. intros [A B D E F G H I0 J]. constructor; auto. Qed.

Lemma bnd_sync_loaded T vm s : bnd T vm s -> bnd T (sync_loaded vm) s.
Proof.
  intro B. destruct (sim_sync_loaded T [] vm s (bnd_sim T [] vm s B)) as [S AC].
  apply sim_bnd with (W := []); auto. exact (b_frames T vm s B).
Qed.

Lemma sget_cons a v (st : store) n : sget ((a, v) :: st) n = if n =? a then v else sget st n.
Proof. unfold sget. cbn [lookup]. destruct (n =? a); reflexivity. Qed.

(* set_global at a boundary: both views get the value (8825c3e) *)
Lemma bnd_set_name T vm s a v : bnd T vm s ->
  bnd T (set_name vm a v) (mkS ((a, v) :: s_store s) (s_heap s) (s_next s)).
Proof.
  intros [A B D E F G H I0 J]. unfold set_name, SET_GLOBAL_WRITES_LOADED_SLOT.
  constructor; cbn [m_heap m_next s_heap s_next s_store gmap cur snap gidx upd_views frames]; auto.
  - intros n Hn. unfold glookup. rewrite !sget_cons. destruct (n =? a); [reflexivity|exact (D n Hn)].
  - intros n Hn. unfold view. cbn [cur gidx gmap upd_views].
    pose proof (E n Hn) as Vn. unfold view in Vn. unfold glookup in *. rewrite !sget_cons.
    destruct (pos_of a (cur vm)) as [i|] eqn:Pa.
    + assert (Hlt : (i <? length (gidx vm))%nat = true).
      { apply Nat.ltb_lt. pose proof (pos_of_lt _ _ _ Pa). unfold len_ok in H. lia. }
      rewrite Hlt.
      destruct (pos_of n (cur vm)) as [j|] eqn:P.
      * destruct (n =? a) eqn:Ea.
        -- apply N.eqb_eq in Ea. subst n. rewrite P in Pa. inversion Pa; subst j. apply gnth_set_at_same.
        -- rewrite gnth_set_at_other; [exact Vn|]. intro Eij. subst j. apply N.eqb_neq in Ea. apply Ea.
           eapply pos_of_inj; eauto.
      * destruct (n =? a) eqn:Ea; [|exact Vn]. apply N.eqb_eq in Ea. subst n. congruence.
    + destruct (pos_of n (cur vm)) as [j|] eqn:P.
      * destruct (n =? a) eqn:Ea; [|exact Vn]. apply N.eqb_eq in Ea. subst n. congruence.
      * destruct (n =? a); [reflexivity|exact Vn].
  - intros L vec Hs. discriminate.
  - intro Hne. congruence.
  - unfold len_ok in *. cbn [cur gidx upd_views].
    destruct (pos_of a (cur vm)) as [i|]; [|exact H].
    destruct (i <? length (gidx vm))%nat; [|exact H]. pose proof (length_set_at i v (gidx vm)). lia.
Qed.

Section Steps3.
Variable C : code.
Hypothesis WF : wf_code C.

Lemma exports_sim T : forall es vm s,
  bnd T vm s ->
  existsb (fun e => memb (snd e) T) es = false ->
  bnd T (fold_left (fun v e => set_name v (fst e) (glookup (gmap v) (snd e))) es vm)
        (fold_left (fun x e => mkS ((fst e, sget (s_store x) (snd e)) :: s_store x) (s_heap x) (s_next x)) es s).
Proof.
  induction es as [|[a src] r IH]; intros vm s B Ht; [exact B|].
  cbn [fold_left fst snd existsb] in *. apply orb_false_iff in Ht as [Ht1 Ht2].
  apply IH; auto. rewrite (b_map _ _ _ B src Ht1). now apply bnd_set_name.
Qed.

Lemma load_modules_sim T fuel : forall ms vm s W ld,
  bnd T vm s -> forallb wf_munit ms = true ->
  match load_modules_s C fuel T s W ld ms with
  | (s', W', l', o, XOk) => exists vm', load_modules C fuel vm ld ms = (vm', l', o, SOk) /\ bnd T vm' s'
  | (s', W', l', o, XErr) => exists vm', load_modules C fuel vm ld ms = (vm', l', o, SErr) /\ bnd (W' ++ T) vm' s'
  | _ => True
  end.
Proof.
  induction ms as [|m r IH]; intros vm s W ld B Hw.
  { cbn. exists vm. auto. }
  cbn [forallb] in Hw. apply andb_true_iff in Hw as [NL Hr]. unfold wf_munit in NL.
  cbn [load_modules_s load_modules].
  destruct (mu_fails m).
  { exists vm. split; [reflexivity|]. apply (bnd_weaken T); [|exact B]. intros n Hn. unfold untainted in *.
    rewrite memb_app in Hn. apply orb_false_iff in Hn. tauto. }
  (* the exports are registered in a state whose two views agree, whether the module ran or not *)
  assert (REG : forall vm1 s1 W1 o1 ld1, bnd T vm1 s1 ->
    match (if existsb (fun e => memb (snd e) T) (mu_exports m) then (s1, W1, ld, o1, XTaint)
           else let s2 := fold_left (fun x e => mkS ((fst e, sget (s_store x) (snd e)) :: s_store x) (s_heap x) (s_next x)) (mu_exports m) s1 in
                let W2 := map fst (mu_exports m) ++ W1 in
                let '(s3, W3, l3, out2, st2) := load_modules_s C fuel T s2 W2 ld1 r in (s3, W3, l3, o1 ++ out2, st2)) with
    | (s', W', l', o, XOk) => exists vm',
        (let '(vm4, l4, out2, s2) := load_modules C fuel (fold_left (fun v e => set_name v (fst e) (glookup (gmap v) (snd e))) (mu_exports m) vm1) ld1 r in (vm4, l4, o1 ++ out2, s2)) = (vm', l', o, SOk) /\ bnd T vm' s'
    | (s', W', l', o, XErr) => exists vm',
        (let '(vm4, l4, out2, s2) := load_modules C fuel (fold_left (fun v e => set_name v (fst e) (glookup (gmap v) (snd e))) (mu_exports m) vm1) ld1 r in (vm4, l4, o1 ++ out2, s2)) = (vm', l', o, SErr) /\ bnd (W' ++ T) vm' s'
    | _ => True
    end).
  { intros vm1 s1 W1 o1 ld1 B1.
    destruct (existsb (fun e => memb (snd e) T) (mu_exports m)) eqn:Et; [exact I|].
    pose proof (exports_sim T (mu_exports m) vm1 s1 B1 Et) as B3.
    specialize (IH _ _ (map fst (mu_exports m) ++ W1) ld1 B3 Hr). cbv zeta.
    destruct (load_modules_s C fuel T _ (map fst (mu_exports m) ++ W1) ld1 r) as [[[[s3 W3] l3] o3] x3].
    destruct x3; auto.
    + destruct IH as (vm4 & E4 & B4). rewrite E4. eauto.
    + destruct IH as (vm4 & E4 & B4). rewrite E4. eauto. }
  destruct (negb (memb (mu_id m) ld)).
  - pose proof (run_unit_sim C WF T fuel vm s W (mu_layout m) (mu_body m) B NL) as H.
    destruct (exec_s C fuel 1 T (mu_layout m) VNull s W (mu_body m)) as [[[s1 W1] o1] x1].
    destruct x1; auto.
    + destruct H as (vm1 & Er & B1 & C1 & Hs). rewrite Er. rewrite andb_true_r.
      (* the explicit sync before the export registration is redundant: the unit's Return already synced *)
      apply REG. destruct MODULE_SYNCS_BEFORE_EXPORTS; [now apply bnd_sync_loaded|exact B1].
    + destruct H as (vm1 & Er & B1). rewrite Er. eauto.
  - rewrite andb_false_r. apply (REG vm s W [] ld B).
Qed.

Definition drel (d : dstate) (x : xstate) : Prop :=
  bnd (x_taint x) (d_vm d) (x_s x) /\ d_known d = x_known x /\ (d_mut d = x_mut x /\ d_loaded d = x_loaded x).

Lemma step_sim fuel d x st : drel d x -> wf_step st = true ->
  match xstep C fuel x st with
  | (x', o, XOk) => exists d', mstep C fuel d st = (d', o, SOk) /\ drel d' x'
  | (x', o, XErr) => exists d', mstep C fuel d st = (d', o, SErr) /\ drel d' x'
  | _ => True
  end.
Proof.
  intros (B & Ek & Em & El) Hw. destruct st as [imports compiles L body newmut imported|n nargs arg|n v].
  - (* a REPL input *)
    cbn [wf_step] in Hw. apply andb_true_iff in Hw as [NL Hi].
    cbn [xstep mstep]. unfold HOST_CALL_CHECKS_ARITY_FIRST, REPL_CLEARS_FRAMES_FIRST, REPL_RECORDS_IMPORTS_AFTER_COMPILE, RUN_FAST_UNWINDS_ON_ERROR.
    unfold REPL_KEEPS_MODULE_MEMO_ON_FAILED_LOAD. rewrite El.
    pose proof (load_modules_sim (x_taint x) fuel imports (with_frames (d_vm d) []) (x_s x) [] (x_loaded x)
                  (bnd_with_frames_nil _ _ _ B) Hi) as H.
    destruct (load_modules_s C fuel (x_taint x) (x_s x) [] (x_loaded x) imports) as [[[[s1 W1] l1] o1] x1].
    destruct x1; auto.
    + destruct H as (vm1 & E1 & B1). rewrite E1.
      destruct compiles; cbn [negb].
      * pose proof (run_unit_sim C WF (x_taint x) fuel vm1 s1 W1 L body B1 NL) as H2.
        destruct (exec_s C fuel 1 (x_taint x) L VNull s1 W1 body) as [[[s2 W2] o2] x2].
        destruct x2; auto.
        -- destruct H2 as (vm2 & E2 & B2 & _ & _). rewrite E2. eexists. split; [reflexivity|].
           split; [|split; [|split]]; cbn [d_vm d_known d_mut d_loaded x_s x_taint x_known x_mut x_loaded]; try congruence.
           destruct REPL_SYNCS_AFTER_SUCCESSFUL_RUN; [now apply bnd_sync_loaded|exact B2].
        -- destruct H2 as (vm2 & E2 & B2). rewrite E2. eexists. split; [reflexivity|].
           split; [|split; [|split]]; cbn [d_vm d_known d_mut d_loaded x_s x_taint x_known x_mut x_loaded]; try congruence.
      * eexists. split; [reflexivity|]. split; [|split; [|split]]; cbn [d_vm d_known d_mut d_loaded x_s x_taint x_known x_mut x_loaded]; auto.
    + destruct H as (vm1 & E1 & B1). rewrite E1. eexists. split; [reflexivity|].
      split; [|split; [|split]]; cbn [d_vm d_known d_mut d_loaded x_s x_taint x_known x_mut x_loaded]; auto.
  - (* a host call *)
    cbn [xstep mstep]. unfold HOST_CALL_CHECKS_ARITY_FIRST, REPL_CLEARS_FRAMES_FIRST, REPL_RECORDS_IMPORTS_AFTER_COMPILE, RUN_FAST_UNWINDS_ON_ERROR. destruct (memb n (x_taint x)) eqn:Tn; [exact I|].
    rewrite (b_map _ _ _ B n Tn).
    destruct (sget (s_store (x_s x)) n) as [|z|p]; try (exists d; split; [reflexivity|split; [|split; [|split]]; auto]).
    rewrite (b_heap _ _ _ B).
    destruct (lookup p (s_heap (x_s x))) as [[fid|tag ar]|]; try (exists d; split; [reflexivity|split; [|split; [|split]]; auto]).
    + destruct (lookup fid C) as [fd|] eqn:EF; try (exists d; split; [reflexivity|split; [|split; [|split]]; auto]).
      destruct (negb (fd_arity fd =? nargs)); [eexists; split; [reflexivity|split; [exact B|split; [exact Ek|split; [exact Em|exact El]]]]|].
      set (Lc := fd_layout fd). assert (NL : nodupb Lc = true) by exact (WF fid fd EF).
      destruct (sim_prepare (x_taint x) [] (d_vm d) (x_s x) Lc (bnd_sim _ [] _ _ B) (b_map _ _ _ B) NL) as (S1 & C1 & _ & F1).
      set (vm1 := with_frames (prepare (d_vm d) Lc) (mkFrame Lc true :: frames (prepare (d_vm d) Lc))).
      assert (Fv : frames vm1 = [mkFrame Lc true]).
      { unfold vm1. cbn [frames with_frames]. rewrite F1, (b_frames _ _ _ B). reflexivity. }
      assert (Sv : sim (x_taint x) [] vm1 (x_s x)) by (unfold vm1; now apply sim_with_frames).
      pose proof (exec_sim C WF (x_taint x) fuel Lc arg vm1 (x_s x) [] (fd_body fd) (mkFrame Lc true) []
                    Sv (or_intror C1) Fv eq_refl) as H.
      rewrite Fv in H. specialize (H (frames_ok_single Lc true NL)). cbn [length] in H. change (N.of_nat 1) with 1 in H.
      fold vm1. destruct (exec_m C fuel Lc arg vm1 (fd_body fd)) as [[st1 o1] m1].
      destruct (exec_s C fuel 1 (x_taint x) Lc arg (x_s x) [] (fd_body fd)) as [[[s1 W1] o1'] x1].
      unfold corr in H. destruct x1; auto.
      * destruct H as (Emm & Eo & S2 & _ & F2 & _). subst m1 o1. eexists. split; [reflexivity|].
        split; [|split; [|split]]; cbn [d_vm d_known d_mut d_loaded x_s x_taint x_known x_mut x_loaded]; auto.
        assert (Dr : do_return st1 = with_frames (sync_loaded st1) []) by (unfold do_return, RETURN_SYNCS_WHEN_LEAVING; rewrite F2; reflexivity).
        rewrite Dr. destruct (sim_sync_loaded _ _ _ _ S2) as [S3 AC].
        apply sim_bnd with (W := W1); [now apply sim_with_frames|exact AC|reflexivity].
      * destruct H as (Emm & Eo & S2 & (ext & Fe & Ne) & _). subst m1 o1. eexists. split; [reflexivity|].
        split; [|split; [|split]]; cbn [d_vm d_known d_mut d_loaded x_s x_taint x_known x_mut x_loaded]; auto.
        apply sim_bnd_fail; [now apply sim_with_frames|].
        cbn [frames with_frames]. rewrite Fe. now apply unwind_ext.
    + destruct (negb (ar =? nargs)); (exists d; split; [reflexivity|]; split; [exact B|split; [exact Ek|split; [exact Em|exact El]]]).
  - (* the host sets a global by name *)
    cbn [xstep mstep]. eexists. split; [reflexivity|].
    split; [|split; [|split]]; cbn [d_vm d_known d_mut d_loaded x_s x_taint x_known x_mut x_loaded]; auto.
    now apply bnd_set_name.
Qed.

(* THE refinement: whenever the session is specified (no name whose value a failed step left
   unspecified is read, the code only uses names of its layout, fuel suffices), the machine with its
   two views, snapshots, frames and unwinding prints exactly what the by-name store semantics prints,
   step by step, with the same success / failure of every step *)
Theorem session_refines : forall fuel steps d x obs,
  drel d x -> forallb wf_step steps = true ->
  xsession C fuel x steps = Some obs -> msession C fuel d steps = obs.
Proof.
  induction steps as [|st r IH]; intros d x obs R Hw Hx.
  { cbn in *. now inversion Hx. }
  cbn [forallb] in Hw. apply andb_true_iff in Hw as [Hw1 Hw2].
  cbn [xsession msession] in *.
  pose proof (step_sim fuel d x st R Hw1) as H.
  destruct (xstep C fuel x st) as [[x1 o1] s1].
  destruct s1; try discriminate.
  - destruct H as (d1 & E1 & R1). rewrite E1.
    destruct (xsession C fuel x1 r) as [l|] eqn:El; [|discriminate]. inversion Hx. subst obs.
    f_equal. eapply IH; eauto.
  - destruct H as (d1 & E1 & R1). rewrite E1.
    destruct (xsession C fuel x1 r) as [l|] eqn:El; [|discriminate]. inversion Hx. subst obs.
    f_equal. eapply IH; eauto.
Qed.

Lemma init_drel : drel dinit xinit.
Proof.
  split; [|split; [reflexivity|split; reflexivity]]. constructor; try reflexivity.
  - intros L vec H. discriminate.
  - intro H. exfalso. now apply H.
  - unfold len_ok. cbn. lia.
Qed.
End Steps3.

(* ------------------------------------------------------------------ consequences *)
Section Consequences.
Variable C : code.
Hypothesis WF : wf_code C.

(* at the end of every specified session the relation between the two machines holds again:
   no frames, by-name map and loaded vector both hold the store on every specified name *)
Theorem session_final_rel : forall fuel steps d x obs,
  drel d x -> forallb wf_step steps = true ->
  xsession C fuel x steps = Some obs -> drel (mfinal C fuel d steps) (xfinal C fuel x steps).
Proof.
  induction steps as [|st r IH]; intros d x obs R Hw Hx; [exact R|].
  cbn [forallb] in Hw. apply andb_true_iff in Hw as [Hw1 Hw2].
  cbn [xsession mfinal xfinal] in *.
  pose proof (step_sim C WF fuel d x st R Hw1) as H.
  destruct (xstep C fuel x st) as [[x1 o1] s1]. cbn [fst].
  destruct s1; try discriminate.
  - destruct H as (d1 & E1 & R1). rewrite E1. cbn [fst].
    destruct (xsession C fuel x1 r) as [l|] eqn:El; [|discriminate]. eapply IH; eauto.
  - destruct H as (d1 & E1 & R1). rewrite E1. cbn [fst].
    destruct (xsession C fuel x1 r) as [l|] eqn:El; [|discriminate]. eapply IH; eauto.
Qed.

(* an input that is rejected at compile time and imports nothing changes nothing but the (dead)
   frame stack -- on the machine and in the specification *)
Theorem rejected_input_changes_nothing : forall fuel d L body nm im,
  mstep C fuel d (SInput [] false L body nm im) =
    (mkD (with_frames (d_vm d) []) (d_known d) (d_mut d) (d_loaded d), [], SErr).
Proof. reflexivity. Qed.

Theorem rejected_input_changes_nothing_spec : forall fuel x L body nm im,
  xstep C fuel x (SInput [] false L body nm im) = (mkX (x_s x) (x_taint x) (x_known x) (x_mut x) (x_loaded x), [], XErr).
Proof. reflexivity. Qed.

(* the specification's run only changes the names it reports as written *)
Lemma exec_s_frame : forall fuel d T Lf arg s W body s' W' o x,
  exec_s C fuel d T Lf arg s W body = (s', W', o, x) ->
  sub W W' /\ forall n, memb n W' = false -> sget (s_store s') n = sget (s_store s) n.
Proof.
  induction fuel as [|f IH]; intros d T Lf arg s W body s' W' o x H.
  { rewrite exec_s_0 in H. inversion H; subst. split; [apply sub_refl|auto]. }
  destruct body as [|i r].
  { rewrite exec_s_nil in H. inversion H; subst. split; [apply sub_refl|auto]. }
  rewrite exec_s_cons in H.
  assert (STOP : forall xx, (s, W, @nil Z, xx) = (s', W', o, x) ->
                 sub W W' /\ forall n, memb n W' = false -> sget (s_store s') n = sget (s_store s) n).
  { intros xx E. inversion E; subst. split; [apply sub_refl|auto]. }
  assert (CONT : forall s1 W1 o1, sub W W1 ->
                 (forall n, memb n W1 = false -> sget (s_store s1) n = sget (s_store s) n) ->
                 conts C f d T Lf arg r s1 W1 o1 = (s', W', o, x) ->
                 sub W W' /\ forall n, memb n W' = false -> sget (s_store s') n = sget (s_store s) n).
  { intros s1 W1 o1 Hs Hf Hc. unfold conts in Hc.
    destruct (exec_s C f d T Lf arg s1 W1 r) as [[[s2 W2] o2] x2] eqn:E. inversion Hc; subst.
    destruct (IH _ _ _ _ _ _ _ _ _ _ _ E) as [Hs2 Hf2]. split; [eapply sub_trans; eauto|].
    intros n Hn. rewrite Hf2 by exact Hn. apply Hf.
    destruct (memb n W1) eqn:M; [|reflexivity]. apply Hs2 in M. congruence. }
  assert (WR : forall n0 v, forall n, memb n (n0 :: W) = false -> sget ((n0, v) :: s_store s) n = sget (s_store s) n).
  { intros n0 v n Hn. rewrite memb_cons in Hn. apply orb_false_iff in Hn as [Hn _]. rewrite sget_cons, Hn. reflexivity. }
  destruct i as [n v|dd src|n k|n k|z|n fid|c nargs a|].
  - destruct (in_layout n Lf); [|eapply STOP; eauto]. eapply CONT; [apply sub_cons| |exact H]. cbn [s_store]. apply WR.
  - destruct (in_layout dd Lf && in_layout src Lf); [|eapply STOP; eauto].
    destruct (memb src T); [eapply STOP; eauto|]. eapply CONT; [apply sub_cons| |exact H]. cbn [s_store]. apply WR.
  - destruct (in_layout n Lf); [|eapply STOP; eauto]. destruct (memb n T); [eapply STOP; eauto|].
    destruct (sget (s_store s) n); try (eapply STOP; eauto; fail).
    eapply CONT; [apply sub_cons| |exact H]. cbn [s_store]. apply WR.
  - destruct (in_layout n Lf); [|eapply STOP; eauto]. destruct (memb n T); [eapply STOP; eauto|].
    eapply CONT; [apply sub_refl| |exact H]. auto.
  - eapply CONT; [apply sub_refl| |exact H]. auto.
  - destruct (in_layout n Lf); [|eapply STOP; eauto]. eapply CONT; [apply sub_cons| |exact H]. cbn [s_store]. apply WR.
  - destruct (_ && _); [|eapply STOP; eauto]. destruct (_ || _); [eapply STOP; eauto|]. cbv zeta in H.
    destruct (match c with CGlobal n => sget (s_store s) n | CArg => arg end) as [|z|p]; try (eapply STOP; eauto; fail).
    destruct (lookup p (s_heap s)) as [[fid|tag ar]|]; try (eapply STOP; eauto; fail).
    + destruct (lookup fid C) as [fd|]; try (eapply STOP; eauto; fail).
      destruct (negb (fd_arity fd =? nargs)); [eapply STOP; eauto|].
      destruct (MAX_FRAMES <=? d); [eapply STOP; eauto|].
      destruct (exec_s C f (d + 1) T (fd_layout fd) _ s W (fd_body fd)) as [[[s1 W1] o1] x1] eqn:E.
      destruct (IH _ _ _ _ _ _ _ _ _ _ _ E) as [Hs1 Hf1].
      destruct x1; try (inversion H; subst; split; auto; fail).
      eapply CONT; [exact Hs1|exact Hf1|exact H].
    + destruct (negb (ar =? nargs)); [eapply STOP; eauto|]. eapply CONT; [apply sub_refl| |exact H]. auto.
  - eapply STOP; eauto.
Qed.
End Consequences.

Section Failure.
Variable C : code.
Hypothesis WF : wf_code C.

Definition import_free (st : step) : bool :=
  match st with SInput [] _ _ _ _ _ => true | SInput _ _ _ _ _ _ => false | SHost _ _ _ => true | SSet _ _ => true end.

(* a step that fails (rejected input, run-time error in an input or in a host call): every name that
   is still specified afterwards has the value it had before the step *)
Lemma xstep_fail_frame fuel x st x' o : import_free st = true ->
  xstep C fuel x st = (x', o, XErr) ->
  forall n, untainted (x_taint x') n -> sget (s_store (x_s x')) n = sget (s_store (x_s x)) n.
Proof.
  intros Hi H n Hn. destruct st as [imports compiles L body nm im|g nargs arg|g v]; [| |cbn [xstep] in H; discriminate].
  - destruct imports; [|discriminate]. cbn [xstep load_modules_s] in H.
    destruct compiles; cbn [negb] in H; [|inversion H; subst; reflexivity].
    destruct (exec_s C fuel 1 (x_taint x) L VNull (x_s x) [] body) as [[[s2 W2] o2] x2] eqn:E.
    destruct x2; inversion H; subst. cbn [x_taint x_s] in *.
    unfold untainted in Hn. rewrite memb_app in Hn. apply orb_false_iff in Hn as [Hn _].
    destruct (exec_s_frame C _ _ _ _ _ _ _ _ _ _ _ _ E) as [_ Hf]. now apply Hf.
  - cbn [xstep] in H. destruct (memb g (x_taint x)); [discriminate|].
    destruct (sget (s_store (x_s x)) g) as [|z|p]; try (inversion H; subst; reflexivity).
    destruct (lookup p (s_heap (x_s x))) as [[fid|tag ar]|]; try (inversion H; subst; reflexivity).
    + destruct (lookup fid C) as [fd|]; try (inversion H; subst; reflexivity).
      destruct (negb (fd_arity fd =? nargs)); try (inversion H; subst; reflexivity).
      destruct (exec_s C fuel 1 (x_taint x) (fd_layout fd) arg (x_s x) [] (fd_body fd)) as [[[s1 W1] o1] x1] eqn:E.
      destruct x1; inversion H; subst. cbn [x_taint x_s] in *.
      unfold untainted in Hn. rewrite memb_app in Hn. apply orb_false_iff in Hn as [Hn _].
      destruct (exec_s_frame C _ _ _ _ _ _ _ _ _ _ _ _ E) as [_ Hf]. now apply Hf.
    + destruct (negb (ar =? nargs)); inversion H; subst; reflexivity.
Qed.

(* ... and the machine agrees: after the failed step both of its views still hold the OLD value
   of every such name (so names bound by earlier steps are still bound, with their values) *)
Theorem earlier_names_survive_failure : forall fuel d x st x' o,
  drel d x -> wf_step st = true -> import_free st = true ->
  xstep C fuel x st = (x', o, XErr) ->
  exists d', mstep C fuel d st = (d', o, SErr) /\ frames (d_vm d') = [] /\
    forall n, untainted (x_taint x') n ->
      glookup (gmap (d_vm d')) n = sget (s_store (x_s x)) n /\ view (d_vm d') n = sget (s_store (x_s x)) n.
Proof.
  intros fuel d x st x' o R Hw Hi Hx. pose proof (step_sim C WF fuel d x st R Hw) as H. rewrite Hx in H.
  destruct H as (d' & Em & (B & _ & _)). exists d'. split; [exact Em|]. split; [exact (b_frames _ _ _ B)|].
  intros n Hn. rewrite <- (xstep_fail_frame fuel x st x' o Hi Hx n Hn).
  split; [exact (b_map _ _ _ B n Hn)|exact (b_view _ _ _ B n Hn)].
Qed.
End Failure.

(* ------------------------------------------------------------------ decidable well-formedness, an example *)

Lemma lookup_in {A} : forall (l : list (N * A)) k v, lookup k l = Some v -> In (k, v) l.
Proof.
  induction l as [|[k' v'] r IH]; cbn; intros k v H; [discriminate|].
  destruct (k =? k') eqn:E; [apply N.eqb_eq in E; inversion H; subst; now left|right; now apply IH].
Qed.

Lemma wf_codeb_sound C : wf_codeb C = true -> wf_code C.
Proof.
  intros H fid fd Hl. unfold wf_codeb in H. rewrite forallb_forall in H.
  exact (H (fid, fd) (lookup_in _ _ _ Hl)).
Qed.

Theorem session_refines_init C fuel steps obs :
  wf_codeb C = true -> forallb wf_step steps = true ->
  xsession C fuel xinit steps = Some obs -> msession C fuel dinit steps = obs.
Proof.
  intros Hc Hw Hx. eapply session_refines; eauto using wf_codeb_sound, init_drel.
Qed.

Theorem session_final_rel_init C fuel steps obs :
  wf_codeb C = true -> forallb wf_step steps = true ->
  xsession C fuel xinit steps = Some obs -> drel (mfinal C fuel dinit steps) (xfinal C fuel xinit steps).
Proof.
  intros Hc Hw Hx. eapply session_final_rel; eauto using wf_codeb_sound, init_drel.
Qed.

(* names: counter = 1, bump = 2, apply = 3, boom = 4, junk = 6, q::bump = 7
   code: 10 = fn bump(x){ counter = counter + 1; print counter }   (layout [counter])
         11 = fn apply(cb, x){ return cb(x) }                      (no globals: layout [])
         12 = fn boom(x){ counter = counter + 1; fail }
         20 = a module's top level: defines bump2 (name 8) ... *)
Definition ex_code : code :=
  [(10, mkF [Some 1] 1 [IAdd 1 1; IPrint 1 0]); (11, mkF [] 2 [ICall CArg 1 None]);
   (12, mkF [Some 6; Some 1] 1 [ISet 6 (VInt 3); IFail])].
Definition ex_L1 : layout := [Some 1; Some 2; Some 3; Some 4].
Definition ex_session : list step :=
  [ (* let mut counter = 5; fn bump..; fn apply..; fn boom..; counter = 7; apply(bump, 1); print counter *)
    SInput [] true ex_L1 [ISet 1 (VInt 5); IDef 2 10; IDef 3 11; IDef 4 12; ISet 1 (VInt 7);
                          ICall (CGlobal 3) 2 (Some 2); IPrint 1 0] [(1, true)] [];
    SHost 2 1 VNull;                                    (* host: bump(_) -> prints 9 *)
    SHost 2 2 VNull;                                    (* host: wrong arity -> error *)
    SInput [] true [Some 1] [IPrint 1 0] [] [];          (* print counter -> 9 *)
    SInput [] true [Some 4; Some 1] [IOut 77; ICall (CGlobal 4) 1 None; IOut 99] [] [];   (* boom fails after partial effects *)
    SInput [] false [Some 1] [IPrint 1 0] [] [];         (* rejected at compile time *)
    SHost 2 1 VNull;                                    (* bump again -> 10 *)
    SInput [mkMU 1 false [Some 8; Some 1] [IDef 8 10] [(7, 8); (8, 8)]] true [Some 7; Some 1]
           [ICall (CGlobal 7) 1 None; IPrint 1 0] [] [7] ].  (* needs m as q; q.bump2(_); print counter *)

Lemma ex_session_facts :
  wf_codeb ex_code = true /\ forallb wf_step ex_session = true /\
  xsession ex_code 100 xinit ex_session =
    Some [([8; 8], SOk); ([9], SOk); ([], SErr); ([9], SOk); ([77], SErr); ([], SErr); ([10], SOk); ([11; 11], SOk)]%Z /\
  msession ex_code 100 dinit ex_session =
    [([8; 8], SOk); ([9], SOk); ([], SErr); ([9], SOk); ([77], SErr); ([], SErr); ([10], SOk); ([11; 11], SOk)]%Z /\
  x_taint (xfinal ex_code 100 xinit ex_session) = [6].
Proof. vm_compute. repeat split; reflexivity. Qed.
