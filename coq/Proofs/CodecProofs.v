(* The float codec of Model/VmArith.v agrees with the IEEE == of Model/Value.v:
   PrimFloat.eqb (f_of_bits a) (f_of_bits b) = f64_eq a b  for all 64-bit words.
   Uses the standard-library axioms FloatAxioms.eqb_spec and FloatAxioms.Prim2SF_SF2Prim. *)
From Aelys Require Import Base.Tactics Extracted.ValueConsts Extracted.Opcodes Model.Value Proofs.ValueProofs Model.VmArith
  Proofs.VmArithProofs.
From Coq Require Import Floats.
Local Open Scope N_scope.

(* ---------------------------------------------------------------- bit fields as div / mod *)
Lemma f_mant_mod (w : N) : f_mant w = w mod 4503599627370496.
Proof.
  unfold f_mant. assert (E : MANT_MASK = N.ones 52) by (vm_compute; reflexivity).
  rewrite E, N.land_ones. reflexivity.
Qed.

Lemma land_exp_mask (w : N) : N.land w EXP_MASK = ((w / 4503599627370496) mod 2048) * 4503599627370496.
Proof.
  assert (E : EXP_MASK = N.shiftl (N.ones 11) 52) by (vm_compute; reflexivity).
  rewrite E, land_shiftl_hi, N.land_ones, N.shiftr_div_pow2, N.shiftl_mul_pow2. reflexivity.
Qed.

Lemma f_exp_div (w : N) : f_exp w = (w / 4503599627370496) mod 2048.
Proof.
  unfold f_exp. rewrite land_exp_mask, N.shiftr_div_pow2.
  change (2 ^ 52) with 4503599627370496. rewrite N.div_mul by discriminate. reflexivity.
Qed.

Lemma land_sign_bit (w : N) : N.land w SIGN_BIT = ((w / 9223372036854775808) mod 2) * 9223372036854775808.
Proof.
  assert (E : SIGN_BIT = N.shiftl (N.ones 1) 63) by (vm_compute; reflexivity).
  rewrite E, land_shiftl_hi, N.land_ones, N.shiftr_div_pow2, N.shiftl_mul_pow2. reflexivity.
Qed.

Lemma f_sign_div (w : N) : w < W64 -> f_sign w = (9223372036854775808 <=? w).
Proof.
  intro H. unfold f_sign, W64 in *. rewrite land_sign_bit.
  destruct (N.leb_spec 9223372036854775808 w); destruct (N.eqb_spec ((w / 9223372036854775808) mod 2 * 9223372036854775808) 0); cbn; try reflexivity; lia.
Qed.

(* a 64-bit word is sign * 2^63 + exponent * 2^52 + mantissa *)
Lemma fields_decomp (w : N) : w < W64 ->
  w = (if f_sign w then 9223372036854775808 else 0) + f_exp w * 4503599627370496 + f_mant w
  /\ f_exp w < 2048 /\ f_mant w < 4503599627370496.
Proof.
  intro H. rewrite (f_sign_div w H), f_exp_div, f_mant_mod. unfold W64 in H.
  destruct (N.leb_spec 9223372036854775808 w); repeat split; lia.
Qed.

Lemma fields_inj (a b : N) : a < W64 -> b < W64 ->
  f_sign a = f_sign b -> f_exp a = f_exp b -> f_mant a = f_mant b -> a = b.
Proof.
  intros Ha Hb Hs He Hm.
  destruct (fields_decomp a Ha) as (Da & _). destruct (fields_decomp b Hb) as (Db & _).
  rewrite Da, Db, Hs, He, Hm. reflexivity.
Qed.

Lemma is_nan_fields (w : N) : is_nan_bits w = (f_exp w =? 2047) && negb (f_mant w =? 0).
Proof.
  unfold is_nan_bits. f_equal. rewrite land_exp_mask, f_exp_div.
  assert (E : EXP_MASK = 2047 * 4503599627370496) by (vm_compute; reflexivity). rewrite E.
  destruct (N.eqb_spec ((w / 4503599627370496) mod 2048) 2047) as [->|Hn].
  - apply N.eqb_refl.
  - apply N.eqb_neq. lia.
Qed.

Lemma is_zero_fields (w : N) : is_zero_bits w = (f_exp w =? 0) && (f_mant w =? 0).
Proof. reflexivity. Qed.

(* ---------------------------------------------------------------- decoding as a spec_float *)
Definition sf_of_bits (w : N) : spec_float :=
  if is_nan_bits w then S754_nan
  else if f_exp w =? 2047 then S754_infinity (f_sign w)
  else
    let m := if f_exp w =? 0 then f_mant w else f_mant w + TWO52 in
    let e := if f_exp w =? 0 then (-1074)%Z else (Z.of_N (f_exp w) - 1075)%Z in
    match m with
    | N0 => S754_zero (f_sign w)
    | Npos p => S754_finite (f_sign w) p e
    end.

Lemma f_of_bits_sf (w : N) : f_of_bits w = SF2Prim (sf_of_bits w).
Proof.
  unfold f_of_bits, sf_of_bits.
  destruct (is_nan_bits w); [reflexivity|].
  destruct (f_exp w =? 2047); [destruct (f_sign w); reflexivity|].
  destruct (if f_exp w =? 0 then f_mant w else f_mant w + TWO52); [destruct (f_sign w); reflexivity|].
  reflexivity.
Qed.

(* digits2_pos is Pos.size *)
Lemma digits2_size (p : positive) : digits2_pos p = Pos.size p.
Proof. induction p as [p IH|p IH|]; cbn; rewrite ?IH; reflexivity. Qed.

Lemma size_bounds (p : positive) (k : positive) :
  (2 ^ (Zpos k - 1) <= Zpos p < 2 ^ Zpos k)%Z -> Pos.size p = k.
Proof.
  intros [Hlo Hhi].
  pose proof (Pos.size_gt p) as G. pose proof (Pos.size_le p) as L.
  apply Pos2Z.pos_lt_pos in G. rewrite Pos2Z.inj_pow in G.
  apply Pos2Z.pos_le_pos in L. rewrite Pos2Z.inj_pow, (Pos2Z.inj_xO p) in L.
  destruct (Pos.compare_spec (Pos.size p) k) as [E|E|E]; [exact E| |]; exfalso.
  - assert (H : (2 ^ Zpos (Pos.size p) <= 2 ^ (Zpos k - 1))%Z) by (apply Z.pow_le_mono_r; lia).
    revert Hlo G H. generalize (2 ^ Zpos (Pos.size p))%Z (2 ^ (Zpos k - 1))%Z. intros; lia.
  - assert (H : (2 ^ (Zpos k + 1) <= 2 ^ Zpos (Pos.size p))%Z) by (apply Z.pow_le_mono_r; lia).
    rewrite Z.pow_add_r in H by lia. change (2 ^ 1)%Z with 2%Z in H.
    revert Hhi L H. generalize (2 ^ Zpos (Pos.size p))%Z (2 ^ Zpos k)%Z. intros; lia.
Qed.

Lemma size_small (p : positive) (k : positive) : (Zpos p < 2 ^ Zpos k)%Z -> (Zpos (Pos.size p) <= Zpos k)%Z.
Proof.
  intro Hhi. pose proof (Pos.size_le p) as L.
  apply Pos2Z.pos_le_pos in L. rewrite Pos2Z.inj_pow, (Pos2Z.inj_xO p) in L.
  destruct (Z.le_gt_cases (Zpos (Pos.size p)) (Zpos k)) as [H|H]; [exact H|exfalso].
  assert (H0 : (2 ^ (Zpos k + 1) <= 2 ^ Zpos (Pos.size p))%Z) by (apply Z.pow_le_mono_r; lia).
  rewrite Z.pow_add_r in H0 by lia. change (2 ^ 1)%Z with 2%Z in H0.
  revert Hhi L H0. generalize (2 ^ Zpos (Pos.size p))%Z (2 ^ Zpos k)%Z. intros; lia.
Qed.

Lemma sf_valid (w : N) : w < W64 -> valid_binary (sf_of_bits w) = true.
Proof.
  intro Hw. destruct (fields_decomp w Hw) as (_ & He & Hm).
  unfold sf_of_bits.
  destruct (is_nan_bits w); [reflexivity|].
  destruct (N.eqb_spec (f_exp w) 2047) as [E2047|E2047]; [reflexivity|].
  destruct (N.eqb_spec (f_exp w) 0) as [E0|E0].
  - (* subnormal or zero *)
    destruct (f_mant w) as [|p] eqn:EM; [reflexivity|].
    unfold valid_binary, bounded, canonical_mantissa, fexp, emin. rewrite digits2_size.
    assert (Hs : (Zpos (Pos.size p) <= 52)%Z).
    { apply (size_small p 52). change (2 ^ 52)%Z with 4503599627370496%Z. lia. }
    apply andb_true_iff. split.
    + apply Zeq_bool_eq_iff || idtac. unfold Zeq_bool.
      destruct (Z.compare_spec (Z.max (Z.pos (Pos.size p) + -1074 - prec) (3 - emax - prec)) (-1074)); unfold prec, emax in *; try reflexivity; lia.
    + unfold prec, emax. reflexivity.
  - (* normal *)
    destruct (f_mant w + TWO52) as [|p] eqn:EM; [unfold TWO52 in EM; lia|].
    unfold valid_binary, bounded, canonical_mantissa, fexp, emin. rewrite digits2_size.
    assert (Hs : Pos.size p = 53%positive).
    { apply size_bounds. change (2 ^ (53 - 1))%Z with 4503599627370496%Z. change (2 ^ 53)%Z with 9007199254740992%Z.
      unfold TWO52 in EM. lia. }
    rewrite Hs. apply andb_true_iff. split.
    + unfold Zeq_bool, prec, emax.
      destruct (Z.compare_spec (Z.max (53 + (Z.of_N (f_exp w) - 1075) - 53) (3 - 1024 - 53)) (Z.of_N (f_exp w) - 1075)); try reflexivity; lia.
    + unfold prec, emax. apply Z.leb_le. lia.
Qed.

Lemma prim2sf_f_of_bits (w : N) : w < W64 -> Prim2SF (f_of_bits w) = sf_of_bits w.
Proof. intro H. rewrite f_of_bits_sf. apply Prim2SF_SF2Prim. apply sf_valid. exact H. Qed.

(* ---------------------------------------------------------------- SFeqb of the decodings = f64_eq *)
Lemma eqb_fields (a b : N) : a < W64 -> b < W64 ->
  (a =? b) = Bool.eqb (f_sign a) (f_sign b) && (f_exp a =? f_exp b) && (f_mant a =? f_mant b).
Proof.
  intros Ha Hb. destruct (N.eqb_spec a b) as [->|Hne].
  - rewrite eqb_reflx, !N.eqb_refl. reflexivity.
  - symmetry. apply not_true_is_false. intro H.
    apply andb_true_iff in H as [H Hm]. apply andb_true_iff in H as [Hs He].
    apply Hne. apply fields_inj; try assumption.
    + apply eqb_prop; exact Hs.
    + apply N.eqb_eq; exact He.
    + apply N.eqb_eq; exact Hm.
Qed.

Lemma sfeqb_finite (s1 s2 : bool) (m1 m2 : positive) (e1 e2 : Z) :
  SFeqb (S754_finite s1 m1 e1) (S754_finite s2 m2 e2) = Bool.eqb s1 s2 && (e1 =? e2)%Z && (m1 =? m2)%positive.
Proof.
  unfold SFeqb, SFcompare. change (Pos.compare_cont Eq m1 m2) with (m1 ?= m2)%positive.
  destruct s1, s2; cbn [Bool.eqb andb]; try reflexivity;
    destruct (Z.compare_spec e1 e2) as [->|H|H];
    rewrite ?Z.eqb_refl; cbn [andb];
    try (replace (e1 =? e2)%Z with false by (symmetry; apply Z.eqb_neq; lia); reflexivity);
    destruct (Pos.compare_spec m1 m2) as [->|H'|H'];
    rewrite ?Pos.eqb_refl; cbn [CompOpp]; try reflexivity;
    replace (m1 =? m2)%positive with false by (symmetry; apply Pos.eqb_neq; lia); reflexivity.
Qed.

Lemma sfeqb_decode (a b : N) : a < W64 -> b < W64 ->
  is_nan_bits a = false -> is_nan_bits b = false ->
  SFeqb (sf_of_bits a) (sf_of_bits b) = (a =? b) || (is_zero_bits a && is_zero_bits b).
Proof.
  intros Ha Hb Na Nb.
  rewrite (eqb_fields a b Ha Hb), !is_zero_fields.
  destruct (fields_decomp a Ha) as (_ & Ea & Ma). destruct (fields_decomp b Hb) as (_ & Eb & Mb).
  unfold sf_of_bits. rewrite Na, Nb.
  rewrite is_nan_fields in Na, Nb.
  set (sa := f_sign a) in *. set (ea := f_exp a) in *. set (ma := f_mant a) in *.
  set (sb := f_sign b) in *. set (eb := f_exp b) in *. set (mb := f_mant b) in *.
  clearbody sa ea ma sb eb mb. clear Ha Hb. unfold TWO52.
  destruct (N.eqb_spec ea 2047) as [->|Ha47]; destruct (N.eqb_spec eb 2047) as [->|Hb47].
  - (* inf, inf *)
    cbn [andb negb] in Na, Nb. apply negb_false_iff, N.eqb_eq in Na. apply negb_false_iff, N.eqb_eq in Nb. subst.
    destruct sa, sb; reflexivity.
  - (* inf, other *)
    cbn [andb negb] in Na. apply negb_false_iff, N.eqb_eq in Na. subst ma.
    replace (2047 =? eb) with false by (symmetry; apply N.eqb_neq; lia). rewrite andb_false_r. cbn [andb orb].
    destruct (eb =? 0); destruct mb; destruct sa; try reflexivity;
      match goal with |- context [match ?x with _ => _ end] => destruct x end; reflexivity.
  - cbn [andb negb] in Nb. apply negb_false_iff, N.eqb_eq in Nb. subst mb.
    replace (ea =? 2047) with false by (symmetry; apply N.eqb_neq; lia). rewrite andb_false_r. cbn [andb orb].
    destruct (ea =? 0); destruct ma; destruct sb; try reflexivity;
      match goal with |- context [match ?x with _ => _ end] => destruct x end; reflexivity.
  - (* both zero / finite *)
    destruct (N.eqb_spec ea 0) as [->|Ha0]; destruct (N.eqb_spec eb 0) as [->|Hb0].
    + (* both exponent 0 *)
      destruct ma as [|pa]; destruct mb as [|pb]; cbn [andb orb N.eqb]; rewrite ?andb_true_r, ?orb_true_r, ?andb_false_r, ?orb_false_r; try reflexivity.
      * destruct sa, sb; reflexivity.
      * destruct sa, sb; reflexivity.
      * rewrite sfeqb_finite. rewrite Z.eqb_refl, andb_true_r. reflexivity.
    + (* a subnormal/zero, b normal *)
      replace (0 =? eb) with false by (symmetry; apply N.eqb_neq; lia). rewrite !andb_false_r. cbn [andb orb].
      destruct (mb + 4503599627370496) as [|pb] eqn:EB; [lia|].
      destruct ma as [|pa]; [destruct sb; reflexivity|].
      rewrite sfeqb_finite.
      destruct (Z.eqb_spec (-1074) (Z.of_N eb - 1075)) as [E|E]; [|rewrite andb_false_r; reflexivity].
      replace (pa =? pb)%positive with false by (symmetry; apply Pos.eqb_neq; lia). rewrite andb_false_r. reflexivity.
    + replace (ea =? 0) with false by (symmetry; apply N.eqb_neq; lia). rewrite !andb_false_r, ?andb_false_l. cbn [andb orb].
      destruct (ma + 4503599627370496) as [|pa] eqn:EA; [lia|].
      destruct mb as [|pb]; [destruct sa; reflexivity|].
      rewrite sfeqb_finite.
      destruct (Z.eqb_spec (Z.of_N ea - 1075) (-1074)) as [E|E]; [|rewrite andb_false_r; reflexivity].
      replace (pa =? pb)%positive with false by (symmetry; apply Pos.eqb_neq; lia). rewrite andb_false_r. reflexivity.
    + (* both normal *)
      replace (ea =? 0) with false by (symmetry; apply N.eqb_neq; lia).
      replace (eb =? 0) with false by (symmetry; apply N.eqb_neq; lia). rewrite !andb_false_l, orb_false_r.
      destruct (ma + 4503599627370496) as [|pa] eqn:EA; [lia|].
      destruct (mb + 4503599627370496) as [|pb] eqn:EB; [lia|].
      rewrite sfeqb_finite. f_equal; [f_equal|].
      * destruct (Z.eqb_spec (Z.of_N ea - 1075) (Z.of_N eb - 1075)); destruct (N.eqb_spec ea eb); try reflexivity; lia.
      * destruct (Pos.eqb_spec pa pb); destruct (N.eqb_spec ma mb); try reflexivity; lia.
Qed.

Theorem codec_eq_all (a b : N) : a < W64 -> b < W64 ->
  PrimFloat.eqb (f_of_bits a) (f_of_bits b) = f64_eq a b.
Proof.
  intros Ha Hb. rewrite eqb_spec, (prim2sf_f_of_bits a Ha), (prim2sf_f_of_bits b Hb).
  unfold f64_eq.
  destruct (is_nan_bits a) eqn:Na.
  - unfold sf_of_bits. rewrite Na. reflexivity.
  - destruct (is_nan_bits b) eqn:Nb.
    + unfold sf_of_bits at 2. rewrite Nb. cbn [negb andb]. unfold SFeqb, SFcompare. destruct (sf_of_bits a); reflexivity.
    + cbn [negb andb]. apply sfeqb_decode; assumption.
Qed.

Lemma codec_eq_fact_holds : codec_eq_fact.
Proof. intros a b Ha Hb _ _. apply codec_eq_all; assumption. Qed.

(* generic == on two floats is the primitive-float == of the decoded operands, except on one
   and the same NaN pattern (raw-bits shortcut of Value ==) *)
Lemma g_eq_floats (hv : heapview) (a b : N) :
  a < W64 -> b < W64 -> is_float a = true -> is_float b = true ->
  (a <> b \/ is_nan_bits a = false) ->
  g_eq hv a b = PrimFloat.eqb (f_of_bits a) (f_of_bits b).
Proof.
  intros Ha Hb Fa Fb Hn. unfold g_eq, value_eq. rewrite (codec_eq_all a b Ha Hb).
  destruct (N.eqb_spec a b) as [->|Hab].
  - destruct Hn as [Hn|Hn]; [contradiction|]. rewrite (f64_eq_refl_nonnan b Hn). reflexivity.
  - rewrite Fa, Fb. cbn [andb]. destruct (f64_eq a b); [reflexivity|].
    rewrite !as_ptr_view, (float_ptr_excl a Ha Fa). reflexivity.
Qed.

Lemma typed_eq_ff_floats (hv : heapview) (o : cop) (a b : N) :
  a < W64 -> b < W64 -> is_float a = true -> is_float b = true ->
  (a <> b \/ is_nan_bits a = false) ->
  t_cmp_ff hv o a b = g_cmp hv o a b.
Proof.
  intros Ha Hb Fa Fb Hn. destruct (is_ord o) eqn:Ho.
  - apply typed_ord_ff_total; assumption.
  - apply typed_eq_ff_agrees_under_codec; try assumption. exact codec_eq_fact_holds.
Qed.

Lemma guarded_eq_floats (hv : heapview) (o : cop) (a b : N) :
  a < W64 -> b < W64 -> is_float a = true -> is_float b = true ->
  (a <> b \/ is_nan_bits a = false) ->
  gd_cmp_iig hv o a b = g_cmp hv o a b /\ gd_cmp_ffg hv o a b = g_cmp hv o a b.
Proof.
  intros Ha Hb Fa Fb Hn.
  assert (G : gd_cmp_iig hv o a b = g_cmp hv o a b).
  { destruct (is_ord o) eqn:Ho; [apply guarded_ord_iig_total; assumption|].
    unfold gd_cmp_iig. views. rewrite (float_not_int a Ha Fa), Fa, Fb.
    unfold g_cmp, float_cmp. destruct o; try discriminate; rewrite (g_eq_floats hv a b Ha Hb Fa Fb Hn); reflexivity. }
  split; [exact G | exact G].
Qed.
