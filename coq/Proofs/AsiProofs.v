(* Lemmas about the semicolon-insertion model (Model/Asi.v). *)
From Aelys Require Import Base.Tactics Extracted.AsiTokens Model.Asi.

(* ------------------------------------------------------------------ the else lookahead *)
(* the lookahead over r ++ t depends on t only through the lookahead over t in the comment
   mode the scanner is in after r *)
Lemma is_else_next_app : forall r c t1 t2,
  is_else_next_c (mode_after c r) t1 = is_else_next_c (mode_after c r) t2 ->
  is_else_next_c c (r ++ t1) = is_else_next_c c (r ++ t2).
Proof.
  induction r as [|p r IH]; intros c t1 t2 H; [exact H|].
  destruct p as [k| | | |]; cbn [app is_else_next_c mode_after] in *.
  - destruct c; [apply IH; exact H|reflexivity].
  - apply IH; exact H.
  - destruct c; apply IH; exact H.
  - destruct c; apply IH; exact H.
  - destruct c; apply IH; exact H.
Qed.

(* after a newline, a run of blanks and newlines is invisible to the lookahead *)
Lemma is_else_next_skip_false ws t : forallb blank_or_nl ws = true ->
  is_else_next_c false (ws ++ t) = is_else_next_c false t.
Proof.
  induction ws as [|p ws IH]; intro H; [reflexivity|].
  cbn [forallb] in H. apply andb_true_iff in H as [Hp Hws].
  destruct p; cbn [blank_or_nl] in Hp; try discriminate; cbn [app is_else_next_c]; exact (IH Hws).
Qed.

Lemma nl_inserts_ext st r1 r2 : is_else_next r1 = is_else_next r2 -> nl_inserts st r1 = nl_inserts st r2.
Proof. intro H. unfold nl_inserts. rewrite H. reflexivity. Qed.

Lemma after_nl_ext st r1 r2 : is_else_next r1 = is_else_next r2 -> after_nl st r1 = after_nl st r2.
Proof. intro H. unfold after_nl. rewrite (nl_inserts_ext st r1 r2 H). reflexivity. Qed.

(* ------------------------------------------------------------------ prefix / continuation *)
(* tokens produced while consuming l1 when the text continues with tail *)
Fixpoint out_of (st : lstate) (c : bool) (l1 tail : list piece) : list tkind :=
  match l1 with
  | [] => []
  | NL :: r =>
      if nl_inserts st (r ++ tail) then TSemicolon :: out_of (after_nl st (r ++ tail)) false r tail
      else out_of st false r tail
  | p :: r =>
      if c then out_of st true r tail
      else match p with
           | Tok k => emit st k ++ out_of (after_tok st k) false r tail
           | LineComment => out_of st true r tail
           | _ => out_of st false r tail
           end
  end.

Lemma after_nl_noinsert st r : nl_inserts st r = false -> after_nl st r = st.
Proof. intro H. unfold after_nl. rewrite H. reflexivity. Qed.

Lemma scan_app : forall l1 st c tail,
  scan st c (l1 ++ tail)
  = out_of st c l1 tail ++ scan (fst (state_at st c l1 tail)) (snd (state_at st c l1 tail)) tail.
Proof.
  induction l1 as [|p r IH]; intros st c tail; [reflexivity|].
  destruct p as [k| | | |].
  - cbn [app scan out_of state_at]. destruct c.
    + apply IH.
    + rewrite IH, app_assoc. reflexivity.
  - cbn [app scan out_of state_at].
    destruct (nl_inserts st (r ++ tail)) eqn:E.
    + rewrite IH. reflexivity.
    + rewrite (after_nl_noinsert _ _ E). apply IH.
  - cbn [app scan out_of state_at]. destruct c; apply IH.
  - cbn [app scan out_of state_at]. destruct c; apply IH.
  - cbn [app scan out_of state_at]. destruct c; apply IH.
Qed.

(* the comment mode the scanner reaches does not depend on the continuation *)
Lemma state_at_mode : forall l1 st c tail, snd (state_at st c l1 tail) = mode_after c l1.
Proof.
  induction l1 as [|p r IH]; intros st c tail; [reflexivity|].
  destruct p as [k| | | |]; cbn [state_at mode_after].
  - destruct c; apply IH.
  - apply IH.
  - destruct c; apply IH.
  - destruct c; apply IH.
  - destruct c; apply IH.
Qed.

Lemma prefix_tail_irrelevant : forall l1 st c t1 t2,
  is_else_next_c (mode_after c l1) t1 = is_else_next_c (mode_after c l1) t2 ->
  out_of st c l1 t1 = out_of st c l1 t2 /\ state_at st c l1 t1 = state_at st c l1 t2.
Proof.
  induction l1 as [|p r IH]; intros st c t1 t2 H; [split; reflexivity|].
  destruct p as [k| | | |]; cbn [out_of state_at mode_after] in *.
  - destruct c; [apply IH; exact H|].
    destruct (IH (after_tok st k) false t1 t2 H) as [A B]. rewrite A, B. split; reflexivity.
  - assert (Hr : is_else_next (r ++ t1) = is_else_next (r ++ t2)).
    { unfold is_else_next. apply is_else_next_app. exact H. }
    rewrite (nl_inserts_ext st _ _ Hr), (after_nl_ext st _ _ Hr).
    destruct (IH (after_nl st (r ++ t2)) false t1 t2 H) as [A B].
    destruct (IH st false t1 t2 H) as [A' B'].
    rewrite A, B, A'. split; reflexivity.
  - destruct c; apply IH; exact H.
  - destruct c; apply IH; exact H.
  - destruct c; apply IH; exact H.
Qed.

(* replacing the continuation by one that looks the same to the else-lookahead (in the comment
   mode reached) and is scanned the same from the reached state gives the same token stream *)
Lemma asi_replace_tail l1 t1 t2 :
  is_else_next_c (mode_after false l1) t1 = is_else_next_c (mode_after false l1) t2 ->
  (let '(st, c) := state_at st0 false l1 t1 in scan st c t1 = scan st c t2) ->
  asi (l1 ++ t1) = asi (l1 ++ t2).
Proof.
  intros H S. unfold asi. rewrite !scan_app.
  destruct (prefix_tail_irrelevant l1 st0 false t1 t2 H) as [A B].
  rewrite <- A, <- B. destruct (state_at st0 false l1 t1) as [st c]. cbn [fst snd].
  rewrite S. reflexivity.
Qed.

(* the same with the lookahead condition for both comment modes *)
Lemma asi_replace_tail_any l1 t1 t2 :
  (forall c, is_else_next_c c t1 = is_else_next_c c t2) ->
  (let '(st, c) := state_at st0 false l1 t1 in scan st c t1 = scan st c t2) ->
  asi (l1 ++ t1) = asi (l1 ++ t2).
Proof. intros H S. apply asi_replace_tail; [apply H|exact S]. Qed.

(* ... and when the scanner is known not to be inside a comment at that point *)
Lemma asi_replace_tail_code l1 t1 t2 :
  snd (state_at st0 false l1 t1) = false ->
  is_else_next t1 = is_else_next t2 ->
  (let '(st, c) := state_at st0 false l1 t1 in scan st c t1 = scan st c t2) ->
  asi (l1 ++ t1) = asi (l1 ++ t2).
Proof.
  intros M H S. apply asi_replace_tail; [|exact S].
  rewrite state_at_mode in M. rewrite M. exact H.
Qed.

(* ------------------------------------------------------------------ the layout theorems *)
Lemma indentation_lemma l1 l2 : asi (l1 ++ Blank :: l2) = asi (l1 ++ l2).
Proof.
  apply asi_replace_tail_any; [intros []; reflexivity|].
  destruct (state_at st0 false l1 (Blank :: l2)) as [st c].
  cbn [scan]. destruct c; reflexivity.
Qed.

Lemma block_comment_lemma l1 l2 : asi (l1 ++ BlockComment :: l2) = asi (l1 ++ l2).
Proof.
  apply asi_replace_tail_any; [intros []; reflexivity|].
  destruct (state_at st0 false l1 (BlockComment :: l2)) as [st c].
  cbn [scan]. destruct c; reflexivity.
Qed.

(* after a newline that did not (or can no longer) insert, further blank lines do nothing *)
Lemma blank_run_noop : forall ws st l,
  forallb blank_or_nl ws = true -> nl_inserts st l = false ->
  scan st false (ws ++ l) = scan st false l.
Proof.
  induction ws as [|p ws IH]; intros st l Hws Hn; [reflexivity|].
  cbn [forallb] in Hws. apply andb_true_iff in Hws as [Hp Hws].
  destruct p; cbn [blank_or_nl] in Hp; try discriminate; cbn [app scan].
  - assert (E : nl_inserts st (ws ++ l) = false).
    { rewrite (nl_inserts_ext st (ws ++ l) l (is_else_next_skip_false ws l Hws)). exact Hn. }
    rewrite E. apply IH; assumption.
  - apply IH; assumption.
Qed.

Lemma blank_lines_lemma l1 ws l2 :
  forallb blank_or_nl ws = true -> asi (l1 ++ NL :: ws ++ l2) = asi (l1 ++ NL :: l2).
Proof.
  intro Hws. pose proof (is_else_next_skip_false ws l2 Hws) as He.
  apply asi_replace_tail_any; [intros []; cbn [is_else_next_c]; exact He|].
  destruct (state_at st0 false l1 (NL :: ws ++ l2)) as [st c].
  cbn [scan]. rewrite (nl_inserts_ext st (ws ++ l2) l2 He), (after_nl_ext st (ws ++ l2) l2 He).
  destruct (nl_inserts st l2) eqn:E.
  - f_equal. apply blank_run_noop; [exact Hws|].
    unfold after_nl. rewrite E. reflexivity.
  - apply blank_run_noop; assumption.
Qed.

Lemma explicit_semicolon_lemma l1 l2 :
  (let '(st, c) := state_at st0 false l1 (NL :: l2) in
   pending st = true /\ depth st = 0%nat /\ c = false) ->
  is_else_next l2 = false ->
  asi (l1 ++ NL :: l2) = asi (l1 ++ Tok TSemicolon :: l2).
Proof.
  intros Hst He.
  assert (M : snd (state_at st0 false l1 (NL :: l2)) = false).
  { destruct (state_at st0 false l1 (NL :: l2)) as [st c]. destruct Hst as [_ [_ Hc]]. exact Hc. }
  apply asi_replace_tail_code; [exact M|unfold is_else_next in *; cbn [is_else_next_c is_else]; exact He|].
  destruct (state_at st0 false l1 (NL :: l2)) as [st c]. destruct Hst as [Hp [Hd Hc]]. subst c.
  cbn [scan emit app]. unfold nl_inserts, after_nl, nl_inserts, after_tok.
  rewrite Hp, Hd, He. cbn. reflexivity.
Qed.

Lemma newline_in_parens_lemma l1 l2 :
  (let '(st, c) := state_at st0 false l1 (NL :: l2) in (0 < depth st)%nat /\ c = false) ->
  asi (l1 ++ NL :: l2) = asi (l1 ++ l2).
Proof.
  intro Hst.
  assert (M : snd (state_at st0 false l1 (NL :: l2)) = false).
  { destruct (state_at st0 false l1 (NL :: l2)) as [st c]. destruct Hst as [_ Hc]. exact Hc. }
  apply asi_replace_tail_code; [exact M|reflexivity|].
  destruct (state_at st0 false l1 (NL :: l2)) as [st c]. destruct Hst as [Hd Hc]. subst c.
  cbn [scan]. unfold nl_inserts.
  destruct (depth st) as [|d] eqn:D; [lia|].
  cbn [Nat.eqb]. rewrite andb_false_r. reflexivity.
Qed.

(* a comment on a line of its own, after a newline: no guard since the lookahead skips it *)
Lemma scan_comment_line st c l2 :
  scan st c (NL :: LineComment :: NL :: l2) = scan st c (NL :: l2).
Proof.
  cbn [scan].
  assert (E1 : nl_inserts st (LineComment :: NL :: l2) = nl_inserts st l2) by reflexivity.
  assert (A1 : after_nl st (LineComment :: NL :: l2) = after_nl st l2) by reflexivity.
  rewrite E1, A1. destruct (nl_inserts st l2) eqn:E.
  - f_equal. unfold after_nl. rewrite E. unfold nl_inserts at 1. cbn [pending andb]. reflexivity.
  - reflexivity.
Qed.

Lemma comment_line_lemma l1 l2 :
  asi (l1 ++ NL :: LineComment :: NL :: l2) = asi (l1 ++ NL :: l2).
Proof.
  apply asi_replace_tail_any; [intros []; reflexivity|].
  destruct (state_at st0 false l1 (NL :: LineComment :: NL :: l2)) as [st c].
  apply scan_comment_line.
Qed.

(* a comment at the end of a line *)
Lemma trailing_comment_lemma l1 l2 :
  asi (l1 ++ LineComment :: NL :: l2) = asi (l1 ++ NL :: l2).
Proof.
  apply asi_replace_tail_any; [intros []; reflexivity|].
  destruct (state_at st0 false l1 (LineComment :: NL :: l2)) as [st c].
  cbn [scan]. destruct c; reflexivity.
Qed.

(* the defect repaired by 33a78fa, kept as a lemma about the OLD lookahead (blanks and
   newlines only): `}` NL `// c` NL `else {}` got a semicolon before `else` *)
Fixpoint old_is_else_next (l : list piece) : bool :=
  match l with
  | Blank :: r => old_is_else_next r
  | NL :: r => old_is_else_next r
  | Tok k :: _ => is_else k
  | _ => false
  end.
Lemma old_lookahead_stopped_at_comment :
  old_is_else_next [LineComment; NL; Tok TElse] = false
  /\ is_else_next [LineComment; NL; Tok TElse] = true.
Proof. split; reflexivity. Qed.

(* "++" / "--" are one token exactly after a statement-ending token *)
Lemma plusplus_lemma st :
  emit st TPlusPlus = (if pending st then [TPlusPlus] else [TPlus; TPlus])
  /\ emit st TMinusMinus = (if pending st then [TMinusMinus] else [TMinus; TMinus]).
Proof. split; reflexivity. Qed.

(* a final newline at the end of the text changes nothing (the end of input adds the pending
   semicolon itself) *)
Lemma trailing_newline_lemma l : asi (l ++ [NL]) = asi (l ++ []).
Proof.
  apply asi_replace_tail_any; [intros []; reflexivity|].
  destruct (state_at st0 false l [NL]) as [st c].
  cbn [scan]. unfold nl_inserts, after_nl, nl_inserts, is_else_next. cbn [is_else_next_c negb].
  destruct (pending st) eqn:P; destruct (depth st) as [|d] eqn:D; cbn; rewrite ?P; reflexivity.
Qed.

(* ------------------------------------------------------------------ blocks inside ( and [ *)
(* directly after `{` the depth is 0 whatever it was outside, and the matching `}` restores it *)
Lemma brace_resets_depth st :
  depth (after_tok st TLBrace) = 0%nat
  /\ stack (after_tok st TLBrace) = depth st :: stack st
  /\ depth (after_tok (after_tok st TLBrace) TRBrace) = depth st
  /\ stack (after_tok (after_tok st TLBrace) TRBrace) = stack st.
Proof. repeat split; reflexivity. Qed.
