(* C04 -- lemmas about the verifier model: the linear scan checks every word on its grid. *)
From Aelys Require Import Base.Tactics Extracted.OpcodeNumbering Extracted.VerifierTable Model.Verifier.
Local Open Scope N_scope.

Lemma lookup_forallb {A} (P : N * A -> bool) (l : list (N * A)) (k : N) (v : A) :
  forallb P l = true -> lookup k l = Some v -> P (k, v) = true.
Proof.
  induction l as [|[k' v'] r IH]; cbn [forallb lookup]; intros H L; [discriminate|].
  apply andb_true_iff in H as [H1 H2].
  destruct (k =? k') eqn:E.
  - apply N.eqb_eq in E. subst k'. injection L as ->. exact H1.
  - exact (IH H2 L).
Qed.

(* table fact: the advance recorded per opcode is 3 exactly for the skip set, 1 otherwise *)
Definition adv_consistent (e : N * (list chk * N)) : bool :=
  let '(b, (_, adv)) := e in adv =? (if existsb (N.eqb b) skip_opcodes then 3 else 1).

Lemma vtable_adv_consistent : forallb adv_consistent vtable = true.
Proof. vm_compute. reflexivity. Qed.

Lemma w_op_lt (w : N) : w_op w < 256.
Proof. unfold w_op. apply N.mod_lt. discriminate. Qed.

Lemma decode_entry_adv (w : N) (cs : list chk) (adv : N) :
  decode (w_op w) = DEntry cs adv -> adv = adv_of w.
Proof.
  unfold decode, adv_of. intros H.
  destruct (from_u8_bound <? w_op w); [discriminate|].
  destruct (negb (is_discriminant (w_op w))); [discriminate|].
  destruct (lookup (w_op w) vtable) as [[cs' adv']|] eqn:L; [|discriminate].
  injection H as -> ->.
  pose proof (lookup_forallb adv_consistent vtable _ _ vtable_adv_consistent L) as C.
  cbn [adv_consistent] in C. apply N.eqb_eq in C. exact C.
Qed.

(* every word the scan passes on its way has an entry and satisfies its checks *)
Definition word_checked (e : venv) (ip w : N) : Prop :=
  exists cs adv, decode (w_op w) = DEntry cs adv /\ forallb (check_ok e ip w) cs = true.

Lemma scan_sound (e : venv) (code : list N) :
  forall fuel i, scan fuel e code i = VOk ->
  forall fuel2 target w, on_grid_from fuel2 code i target = true -> nthN code target = Some w ->
  word_checked e target w.
Proof.
  induction fuel as [|k IH]; intros i Hs fuel2 target w Hg Hw; [discriminate|].
  cbn [scan] in Hs.
  destruct fuel2 as [|k2]; [discriminate|]. cbn [on_grid_from] in Hg.
  destruct (i =? target) eqn:E.
  - apply N.eqb_eq in E. subst i. rewrite Hw in Hs.
    destruct (decode (w_op w)) as [| | |cs adv] eqn:D; try discriminate.
    destruct (forallb (check_ok e target w) cs) eqn:F; [|discriminate].
    exists cs, adv. split; [exact D|exact F].
  - destruct (target <? i); [discriminate|].
    destruct (nthN code i) as [w'|] eqn:Hi; [|discriminate].
    destruct (decode (w_op w')) as [| | |cs adv] eqn:D; try discriminate.
    destruct (forallb (check_ok e i w') cs); [|discriminate].
    rewrite (decode_entry_adv _ _ _ D) in Hs.
    exact (IH _ Hs _ _ _ Hg Hw).
Qed.

Lemma verify_body_scan (f : func) :
  verify_body f = VOk -> scan (S (length (f_code f))) (env_of f) (f_code f) 0 = VOk.
Proof.
  unfold verify_body. intros H.
  destruct (negb (forallb (const_ok (len (f_nested f))) (f_consts f))); [discriminate|].
  destruct (65535 <? len (f_consts f)); [discriminate|]. exact H.
Qed.

Lemma verifier_linear_sound_lemma (f : func) :
  verify_body f = VOk ->
  forall ip w, on_grid (f_code f) ip = true -> nthN (f_code f) ip = Some w ->
  word_checked (env_of f) ip w.
Proof.
  intros H ip w Hg Hw. unfold on_grid in Hg.
  exact (scan_sound _ _ _ _ (verify_body_scan f H) _ _ _ Hg Hw).
Qed.

Lemma verify_at_body (d : N) (f : func) : verify_at d f = VOk -> verify_body f = VOk.
Proof.
  destruct f as [nr cs nu code nested]. cbn [verify_at].
  destruct (MAX_FUNCTION_NESTING <? d); [discriminate|].
  destruct (verify_body (Func nr cs nu code nested)); try discriminate. reflexivity.
Qed.

Lemma verify_body_of_verify (f : func) : verify f = VOk -> verify_body f = VOk.
Proof. apply verify_at_body. Qed.

(* nested functions of an accepted function are accepted (at their depth) *)
Lemma verify_at_nested (d : N) (f g : func) :
  verify_at d f = VOk -> In g (f_nested f) -> verify_at (d + 1) g = VOk.
Proof.
  destruct f as [nr cs nu code nested]. cbn [verify_at f_nested].
  destruct (MAX_FUNCTION_NESTING <? d); [discriminate|].
  destruct (verify_body (Func nr cs nu code nested)); try discriminate.
  induction nested as [|h r IH]; intros H HIn; [destruct HIn|].
  destruct (verify_at (d + 1) h) eqn:Eh; try discriminate.
  destruct HIn as [->|HIn]; [exact Eh|exact (IH H HIn)].
Qed.

(* individual checks, in the form the footprint proofs use *)
Lemma nthN_lt {A} (l : list A) (i : N) (x : A) : nthN l i = Some x -> i < len l.
Proof.
  unfold nthN, len. intros H.
  assert (N.to_nat i < length l)%nat by (apply nth_error_Some; congruence). lia.
Qed.

Lemma nthN_none {A} (l : list A) (i : N) : nthN l i = None -> len l <= i.
Proof.
  unfold nthN, len. intros H. apply nth_error_None in H. lia.
Qed.

Lemma checked_cachewords (e : venv) (ip w : N) (cs : list chk) :
  forallb (check_ok e ip w) cs = true -> existsb (fun c => match c with CCacheWords => true | _ => false end) cs = true ->
  ip + 3 <= v_len e.
Proof.
  induction cs as [|c r IH]; cbn [forallb existsb]; intros F X; [discriminate|].
  apply andb_true_iff in F as [F1 F2].
  apply orb_true_iff in X as [X|X].
  - destruct c; try discriminate. cbn [check_ok] in F1. lia.
  - exact (IH F2 X).
Qed.
