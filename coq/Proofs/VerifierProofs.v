(* C04 -- lemmas about the verifier model: the linear scan checks every word on its grid, and
   (since the repair of KF-C04-1) every jump of an accepted function lands on that grid. *)
From Aelys Require Import Base.Tactics Extracted.OpcodeNumbering Extracted.VerifierTable Model.Verifier.
Local Open Scope N_scope.

Lemma lookup_forallb {A} (P : N * A -> bool) (l : list (N * A)) (k : N) (v : A) :
  forallb P l = true -> lookup k l = Some v -> P (k, v) = true.
Proof.
  induction l as [|[k' v'] r IH]; cbn [forallb lookup]; intros H L; [discriminate|].
  apply andb_true_iff in H as [H1 H2].
  destruct (k =? k') eqn:E.
  - apply N.eqb_eq in E. subst k'. injection L as ->. exact H1.
  - exact (IH H2 L).
Qed.

(* table fact: the advance recorded per opcode is 3 exactly for the skip set, 1 otherwise *)
Definition adv_consistent (e : N * (list chk * N)) : bool :=
  let '(b, (_, adv)) := e in adv =? (if existsb (N.eqb b) skip_opcodes then 3 else 1).

Lemma vtable_adv_consistent : forallb adv_consistent vtable = true.
Proof. vm_compute. reflexivity. Qed.

Lemma decode_entry (b : N) (cs : list chk) (adv : N) :
  decode b = DEntry cs adv -> lookup b vtable = Some (cs, adv).
Proof.
  unfold decode. intros H.
  destruct (negb (from_u8_accepts b)); [discriminate|].
  destruct (negb (is_discriminant b)); [discriminate|].
  destruct (lookup b vtable) as [[cs' adv']|]; [|discriminate].
  injection H as -> ->. reflexivity.
Qed.

Lemma decode_entry_adv (w : N) (cs : list chk) (adv : N) :
  decode (w_op w) = DEntry cs adv -> adv = adv_of w.
Proof.
  intros H. apply decode_entry in H. unfold adv_of.
  pose proof (lookup_forallb adv_consistent vtable _ _ vtable_adv_consistent H) as C.
  cbn [adv_consistent] in C. apply N.eqb_eq in C. exact C.
Qed.

Lemma adv_of_pos (w : N) : 1 <= adv_of w.
Proof. unfold adv_of. destruct (existsb (N.eqb (w_op w)) skip_opcodes); lia. Qed.

(* ---- the grid as a relation ------------------------------------------------------------------- *)
Inductive grid (code : list N) : N -> Prop :=
  | grid_0 : grid code 0
  | grid_step : forall i w, grid code i -> nthN code i = Some w -> grid code (i + adv_of w).

Lemma on_grid_from_sound (code : list N) :
  forall fuel i t, on_grid_from fuel code i t = true -> grid code i -> grid code t.
Proof.
  induction fuel as [|k IH]; intros i t H G; [discriminate|].
  cbn [on_grid_from] in H.
  destruct (i =? t) eqn:E; [apply N.eqb_eq in E; subst; exact G|].
  destruct (t <? i); [discriminate|].
  destruct (nthN code i) as [w|] eqn:Hi; [|discriminate].
  exact (IH _ _ H (grid_step code i w G Hi)).
Qed.

Lemma on_grid_sound (code : list N) (t : N) : on_grid code t = true -> grid code t.
Proof. intros H. exact (on_grid_from_sound code _ 0 t H (grid_0 code)). Qed.

(* every word the scan passes has an entry and satisfies its checks *)
Definition word_checked (e : venv) (ip w : N) : Prop :=
  exists cs adv, decode (w_op w) = DEntry cs adv /\ forallb (check_ok e ip w) cs = true.

Definition scan_ok_from (e : venv) (code : list N) (i : N) : Prop := exists fuel, scan fuel e code i = VOk.

Lemma scan_ok_step (e : venv) (code : list N) (i w : N) :
  scan_ok_from e code i -> nthN code i = Some w ->
  word_checked e i w /\ scan_ok_from e code (i + adv_of w).
Proof.
  intros [fuel H] Hw. destruct fuel as [|k]; [discriminate|]. cbn [scan] in H. rewrite Hw in H.
  destruct (decode (w_op w)) as [| | |cs adv] eqn:D; try discriminate.
  destruct (forallb (check_ok e i w) cs) eqn:F; [|discriminate].
  split; [exists cs, adv; split; [exact D|exact F]|].
  rewrite (decode_entry_adv _ _ _ D) in H. exists k. exact H.
Qed.

Lemma grid_scan_ok (e : venv) (code : list N) (i : N) :
  scan_ok_from e code 0 -> grid code i -> scan_ok_from e code i.
Proof.
  intros H0 G. induction G as [|i w G IH Hw]; [exact H0|].
  exact (proj2 (scan_ok_step e code i w IH Hw)).
Qed.

Lemma verify_body_scan (f : func) :
  verify_body f = VOk -> scan_ok_from (env_of f) (f_code f) 0.
Proof.
  unfold verify_body. intros H.
  destruct (negb (forallb (const_ok (len (f_nested f))) (f_consts f))); [discriminate|].
  destruct (65535 <? len (f_consts f)); [discriminate|]. eexists. exact H.
Qed.

Lemma grid_checked (f : func) (ip w : N) :
  verify_body f = VOk -> grid (f_code f) ip -> nthN (f_code f) ip = Some w -> word_checked (env_of f) ip w.
Proof.
  intros V G Hw.
  exact (proj1 (scan_ok_step _ _ ip w (grid_scan_ok _ _ ip (verify_body_scan f V) G) Hw)).
Qed.

Lemma verifier_linear_sound_lemma (f : func) :
  verify_body f = VOk ->
  forall ip w, on_grid (f_code f) ip = true -> nthN (f_code f) ip = Some w ->
  word_checked (env_of f) ip w.
Proof. intros V ip w G Hw. exact (grid_checked f ip w V (on_grid_sound _ _ G) Hw). Qed.

Lemma verify_at_body (d : N) (f : func) : verify_at d f = VOk -> verify_body f = VOk.
Proof.
  destruct f as [nr cs nu code nested]. cbn [verify_at].
  destruct (MAX_FUNCTION_NESTING <? d); [discriminate|].
  destruct (verify_body (Func nr cs nu code nested)); try discriminate. reflexivity.
Qed.

Lemma verify_body_of_verify (f : func) : verify f = VOk -> verify_body f = VOk.
Proof. apply verify_at_body. Qed.

(* nested functions of an accepted function are accepted (at their depth) *)
Lemma verify_at_nested (d : N) (f g : func) :
  verify_at d f = VOk -> In g (f_nested f) -> verify_at (d + 1) g = VOk.
Proof.
  destruct f as [nr cs nu code nested]. cbn [verify_at f_nested].
  destruct (MAX_FUNCTION_NESTING <? d); [discriminate|].
  destruct (verify_body (Func nr cs nu code nested)); try discriminate.
  induction nested as [|h r IH]; intros H HIn; [destruct HIn|].
  destruct (verify_at (d + 1) h) eqn:Eh; try discriminate.
  destruct HIn as [->|HIn]; [exact Eh|exact (IH H HIn)].
Qed.

Lemma nthN_lt {A} (l : list A) (i : N) (x : A) : nthN l i = Some x -> i < len l.
Proof.
  unfold nthN, len. intros H.
  assert (N.to_nat i < length l)%nat by (apply nth_error_Some; congruence). lia.
Qed.

Lemma nthN_some {A} (l : list A) (i : N) : i < len l -> exists x, nthN l i = Some x.
Proof.
  unfold nthN, len. intros H. destruct (nth_error l (N.to_nat i)) as [x|] eqn:E; [exists x; reflexivity|].
  apply nth_error_None in E. lia.
Qed.

Lemma checked_cachewords (e : venv) (ip w : N) (cs : list chk) :
  forallb (check_ok e ip w) cs = true -> existsb (fun c => match c with CCacheWords => true | _ => false end) cs = true ->
  ip + 3 <= v_len e.
Proof.
  induction cs as [|c r IH]; cbn [forallb existsb]; intros F X; [discriminate|].
  apply andb_true_iff in F as [F1 F2].
  apply orb_true_iff in X as [X|X].
  - destruct c; try discriminate. cbn [check_ok] in F1. lia.
  - exact (IH F2 X).
Qed.

(* ---- jump targets (KF-C04-1 repaired: check_jump consults the instruction starts) -------------- *)
Lemma jump_grid_present : jump_grid_checked = true.
Proof. reflexivity. Qed.

Lemma checked_jump (e : venv) (ip w : N) (cs : list chk) :
  forallb (check_ok e ip w) cs = true -> existsb (fun c => match c with CJump => true | _ => false end) cs = true ->
  let t := Z.to_N (jump_target ip w) in
  t <= v_len e /\ (t = v_len e \/ grid (v_code e) t).
Proof.
  induction cs as [|c r IH]; cbn [forallb existsb]; intros F X; [discriminate|].
  apply andb_true_iff in F as [F1 F2].
  apply orb_true_iff in X as [X|X]; [|exact (IH F2 X)].
  destruct c; try discriminate. cbn [check_ok] in F1. rewrite jump_grid_present in F1.
  apply andb_true_iff in F1 as [F1 F3]. apply andb_true_iff in F1 as [Fa Fb].
  cbv zeta. split; [lia|].
  apply orb_true_iff in F3 as [F3|F3]; [left; lia|right; exact (on_grid_sound _ _ F3)].
Qed.
