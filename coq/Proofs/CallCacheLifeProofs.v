(* C04 -- the call-site cache never hands out dangling code pointers. *)
From Aelys Require Import Base.Tactics Extracted.DispatchSites Model.CallCacheLife.
Local Open Scope N_scope.

Lemma protocol_present :
  stores_flush_cache = true /\ gc_roots_globals = true /\ mono_hit_guard = true /\ cache_fills_from_callee = true.
Proof. repeat split; reflexivity. Qed.

Lemma nth_upd_same {A} (d : A) (l : list A) (i : nat) (v : A) : nth i (upd d l i v) d = v.
Proof. revert l. induction i as [|k IH]; intros [|x r]; cbn; auto. Qed.

Lemma nth_upd_other {A} (d : A) (l : list A) (i j : nat) (v : A) : i <> j -> nth j (upd d l i v) d = nth j l d.
Proof.
  revert l j. induction i as [|k IH]; intros [|x r] [|j] H; cbn; try congruence; auto.
  - destruct j; reflexivity.
  - rewrite IH by congruence. destruct j; reflexivity.
Qed.

Lemma nth_map_none {A B} (l : list A) (j : nat) : nth j (map (fun _ => @None B) l) None = None.
Proof. revert j. induction l as [|x r IH]; intros [|j]; cbn; auto. Qed.

(* invariant of one cache entry: it still describes the object it was filled from, or its owner is named by
   neither table nor any snapshot (and then no hit can take it) *)
Definition entry_inv (s : lstate) (e : centry) : Prop :=
  (exists o, hget (ls_heap s) (ce_owner e) = Some o /\ o_gen o = ce_gen e /\
             code_of (ce_owner e) o = (ce_code e, ce_code_gen e))
  \/ ~ In (ce_owner e) (ls_roots s ++ ls_snaps s).

Definition linv (s : lstate) : Prop :=
  children_ok (ls_heap s) /\ forall slot e, cget (ls_cache s) slot = Some e -> entry_inv s e.

Lemma lstep_keeps_inv (s s' : lstate) : lstep s s' -> linv s -> linv s'.
Proof.
  destruct protocol_present as (PF & PG & PH & PC).
  intros St [CH EI]. destruct St as [s R' S' Hsub|s v R' Hsub|s F h' Hroot Hchild Hh|s p child Hfree Hc|s slot owner o e Hin Ho Hfill].
  - (* copy *)
    split; [exact CH|]. intros slot e He. cbn [ls_cache] in He.
    destruct (EI slot e He) as [L|Rn]; [left; exact L|right].
    cbn [ls_roots ls_snaps]. intros H. exact (Rn (Hsub _ H)).
  - (* store: flushed *)
    split; [exact CH|]. intros slot e He. cbn [ls_cache] in He. rewrite PF in He.
    unfold cget in He. rewrite nth_map_none in He. discriminate.
  - (* gc *)
    split.
    + intros p o c g Hp Hoc. cbn [ls_heap] in *. rewrite Hh in Hp.
      destruct (existsb (N.eqb p) F) eqn:EF; [discriminate|].
      assert (Hnp : ~ In p F).
      { intros HI. assert (existsb (N.eqb p) F = true) by (apply existsb_exists; exists p; split; [exact HI|apply N.eqb_refl]). congruence. }
      destruct (CH p o c g Hp Hoc) as (oc & Hc & Hg).
      exists oc. split; [|exact Hg]. rewrite Hh.
      destruct (existsb (N.eqb c) F) eqn:EC; [|exact Hc].
      exfalso. apply existsb_exists in EC as [y [Hy E]]. apply N.eqb_eq in E. subst y.
      exact (Hchild p o c g Hnp Hp Hoc Hy).
    + intros slot e He. cbn [ls_cache] in He. cbn [ls_heap ls_roots ls_snaps]. rewrite PG.
      destruct (EI slot e He) as [(o & Ho & Hg & Hcode)|Rn].
      * destruct (existsb (N.eqb (ce_owner e)) F) eqn:EF.
        -- right. apply existsb_exists in EF as [y [Hy E]]. apply N.eqb_eq in E. subst y.
           rewrite app_nil_r. exact (Hroot PG _ Hy).
        -- left. exists o. rewrite Hh, EF. repeat split; assumption.
      * right. rewrite app_nil_r. intros H. apply Rn. apply in_or_app. left. exact H.
  - (* alloc *)
    assert (Hother : forall q, q <> p -> hget (upd None (ls_heap s) (N.to_nat p) (Some {| o_gen := ls_next s; o_child := child |})) q = hget (ls_heap s) q).
    { intros q Hq. unfold hget. apply nth_upd_other. lia. }
    split.
    + intros q o c g Hq Hoc. cbn [ls_heap] in *.
      assert (Hlive : forall c0 g0 oc, hget (ls_heap s) c0 = Some oc -> o_gen oc = g0 ->
                exists oc', hget (upd None (ls_heap s) (N.to_nat p) (Some {| o_gen := ls_next s; o_child := child |})) c0 = Some oc' /\ o_gen oc' = g0).
      { intros c0 g0 oc Hc0 Hg0. exists oc. split; [|exact Hg0]. rewrite Hother; [exact Hc0|]. intros ->. congruence. }
      destruct (N.eq_dec q p) as [->|Hne].
      * unfold hget in Hq. rewrite nth_upd_same in Hq. injection Hq as <-. cbn [o_child] in Hoc.
        destruct (Hc c g Hoc) as (oc & Hc1 & Hg1). exact (Hlive c g oc Hc1 Hg1).
      * rewrite (Hother q Hne) in Hq. destruct (CH q o c g Hq Hoc) as (oc & Hc1 & Hg1). exact (Hlive c g oc Hc1 Hg1).
    + intros slot e He. cbn [ls_cache] in He. cbn [ls_heap ls_roots ls_snaps].
      destruct (EI slot e He) as [(o & Ho & Hg & Hcode)|Rn]; [left|right; exact Rn].
      exists o. rewrite Hother; [repeat split; assumption|]. intros E. rewrite E in Ho. congruence.
  - (* fill *)
    split; [exact CH|]. intros slot' e' He. cbn [ls_cache] in He. cbn [ls_heap ls_roots ls_snaps].
    destruct (N.eq_dec slot' slot) as [->|Hne].
    + unfold cget in He. rewrite nth_upd_same in He. injection He as <-.
      destruct (Hfill PC) as (E1 & E2 & E3). left. exists o. rewrite E1. repeat split; [exact Ho|symmetry; exact E2|symmetry; exact E3].
    + unfold cget in He. rewrite nth_upd_other in He by lia. exact (EI slot' e' He).
Qed.

Lemma lreach_inv (s : lstate) : lreach s -> linv s.
Proof.
  intros R. induction R as [s Hc Hch|s s' R IH St].
  - split; [exact Hch|]. intros slot e He. rewrite Hc in He. unfold cget in He. destruct (N.to_nat slot); discriminate.
  - exact (lstep_keeps_inv s s' St IH).
Qed.

(* a hit only ever takes an entry whose pointers are those of live objects: the callee cached at the site,
   unchanged since the fill, and the function object reachable from it *)
Lemma hit_entry_valid_lemma (s : lstate) (slot ptr : N) (e : centry) :
  lreach s -> hit_allowed s slot ptr e -> entry_valid s e.
Proof.
  destruct protocol_present as (PF & PG & PH & PC).
  intros R [He Hg]. destruct (lreach_inv s R) as [CH EI]. destruct (Hg PH) as [Eo Hin].
  destruct (EI slot e He) as [(o & Ho & Hgen & Hcode)|Rn].
  - unfold entry_valid. unfold code_of in Hcode.
    destruct (o_child o) as [[c g]|] eqn:Hc.
    + injection Hcode as E1 E2. destruct (CH _ o c g Ho Hc) as (oc & Hoc & Hgc).
      exists o, oc. unfold code_of. rewrite Hc, <- E1, <- E2. repeat split; assumption.
    + injection Hcode as E1 E2. exists o, o. unfold code_of. rewrite Hc, <- E1, <- E2. repeat split; assumption.
  - exfalso. apply Rn. apply in_or_app. left. rewrite Eo. exact Hin.
Qed.

(* generations are fresh: an object allocated later never carries the generation an entry recorded *)
Definition gens_below (s : lstate) : Prop := forall p o, hget (ls_heap s) p = Some o -> o_gen o < ls_next s.

Lemma lstep_keeps_gens (s s' : lstate) : lstep s s' -> gens_below s -> gens_below s'.
Proof.
  intros St G. destruct St as [s R' S' Hsub|s v R' Hsub|s F h' Hroot Hchild Hh|s p child Hfree Hc|s slot owner o e Hin Ho Hfill];
    unfold gens_below in *; cbn [ls_heap ls_next]; try exact G.
  - intros p o Hp. rewrite Hh in Hp. destruct (existsb (N.eqb p) F); [discriminate|exact (G p o Hp)].
  - intros q o Hq. destruct (N.eq_dec q p) as [->|Hne].
    + unfold hget in Hq. rewrite nth_upd_same in Hq. injection Hq as <-. cbn. lia.
    + unfold hget in Hq. rewrite nth_upd_other in Hq by lia. pose proof (G q o Hq). lia.
Qed.

(* a history that exercises everything: closure 1 over function 0 in a global, fill, collect, hit;
   rebinding flushes; the freed index is reused by a different object and the old entry is gone *)
Definition ex_h0 : list (option obj) := [Some {| o_gen := 0; o_child := None |}; Some {| o_gen := 1; o_child := Some (0, 0) |}].
Definition ex_s0 : lstate := {| ls_heap := ex_h0; ls_roots := [1]; ls_snaps := []; ls_cache := []; ls_next := 2 |}.
Definition ex_e : centry := {| ce_owner := 1; ce_gen := 1; ce_code := 0; ce_code_gen := 0 |}.
Definition ex_s1 : lstate := {| ls_heap := ex_h0; ls_roots := [1]; ls_snaps := []; ls_cache := [None; None; Some ex_e]; ls_next := 2 |}.

Lemma ex_reach : lreach ex_s1 /\ hit_allowed ex_s1 2 1 ex_e.
Proof.
  split.
  - apply (lr_step ex_s0).
    + apply lr_init; [reflexivity|]. intros p o c g Hp Hc. unfold hget in Hp. cbn [ls_heap ex_s0 ex_h0] in Hp.
      destruct (N.to_nat p) as [|[|[|n]]]; cbn in Hp; try discriminate.
      * injection Hp as <-. discriminate.
      * injection Hp as <-. cbn in Hc. injection Hc as <- <-. exists {| o_gen := 0; o_child := None |}. split; reflexivity.
    + apply (l_fill ex_s0 2 1 {| o_gen := 1; o_child := Some (0, 0) |} ex_e); [left; reflexivity|reflexivity|].
      intros _. repeat split.
  - split; [reflexivity|]. intros _. split; [reflexivity|left; reflexivity].
Qed.
