(* C05 -- proofs about the inline-cache protocol model (Model/CallCache.v), as repaired. *)
From Aelys Require Import Base.Tactics Extracted.CallCacheConsts Model.CallCache.
Local Open Scope N_scope.

(* ------------------------------------------------------------------ list plumbing *)
Lemma nth_error_upd_same {A} (f : A -> A) : forall n (l : list A),
  nth_error (upd_nth n f l) n = option_map f (nth_error l n).
Proof. induction n as [|n IH]; intros [|h t]; cbn; auto. Qed.

Lemma nth_error_upd_other {A} (f : A -> A) : forall n m (l : list A),
  n <> m -> nth_error (upd_nth n f l) m = nth_error l m.
Proof.
  induction n as [|n IH]; intros [|m] [|h t] Hne; cbn; auto; try congruence.
Qed.

Lemma length_upd_nth {A} (f : A -> A) : forall n (l : list A), length (upd_nth n f l) = length l.
Proof. induction n as [|n IH]; intros [|h t]; cbn; auto. Qed.

Lemma nth_error_set_same {A} (x d : A) : forall n (l : list A), nth_error (set_nth n x d l) n = Some x.
Proof. induction n as [|n IH]; intros [|h t]; cbn; auto. Qed.

Definition nonnull {A} (o : option (option A)) : option A :=
  match o with Some (Some e) => Some e | _ => None end.

Lemma nth_error_set_other {A} (x : option A) : forall n m (l : list (option A)),
  n <> m -> nonnull (nth_error (set_nth n x None l) m) = nonnull (nth_error l m).
Proof.
  induction n as [|n IH]; intros [|m] [|h t] Hne; cbn; auto; try congruence.
  all: try (rewrite IH by congruence).
  all: try (destruct m; reflexivity).
Qed.

Lemma cache_entry_set_same c s e : cache_entry (set_nth (N.to_nat s) (Some e) None c) s = Some e.
Proof. unfold cache_entry. rewrite nth_error_set_same. reflexivity. Qed.

Lemma cache_entry_set_other c s s' e :
  s <> s' -> cache_entry (set_nth (N.to_nat s) (Some e) None c) s' = cache_entry c s'.
Proof.
  intro Hne. unfold cache_entry.
  assert (H : N.to_nat s <> N.to_nat s') by (intro E; apply Hne; now apply N2Nat.inj).
  pose proof (nth_error_set_other (Some e) (N.to_nat s) (N.to_nat s') c H) as E.
  unfold nonnull in E. exact E.
Qed.

Lemma cache_entry_nil s : cache_entry [] s = None.
Proof. unfold cache_entry. destruct (N.to_nat s); reflexivity. Qed.

Lemma nth_error_map_sites (f : N -> site -> site) : forall l i n,
  nth_error (map_sites f i l) n = option_map (f (i + N.of_nat n)) (nth_error l n).
Proof.
  induction l as [|h t IH]; intros i n.
  - destruct n; reflexivity.
  - destruct n as [|n]; cbn [map_sites nth_error option_map].
    + f_equal. f_equal. lia.
    + rewrite IH. destruct (nth_error t n); cbn; [|reflexivity]. f_equal. f_equal. lia.
Qed.

Lemma forall2_nth {A B} (R : A -> B -> Prop) : forall l l', Forall2 R l l' ->
  forall n, match nth_error l n, nth_error l' n with
            | Some a, Some b => R a b
            | None, None => True
            | _, _ => False
            end.
Proof.
  induction 1 as [|a b l l' Hab Hl IH]; intros [|n]; cbn; auto. apply IH.
Qed.

Lemma forall2_of_nth {A B} (R : A -> B -> Prop) : forall l l',
  (forall n, match nth_error l n, nth_error l' n with
             | Some a, Some b => R a b
             | None, None => True
             | _, _ => False
             end) -> Forall2 R l l'.
Proof.
  induction l as [|a l IH]; intros [|b l'] H.
  - constructor.
  - specialize (H 0%nat). cbn in H. tauto.
  - specialize (H 0%nat). cbn in H. tauto.
  - constructor.
    + exact (H 0%nat).
    + apply IH. intro n. exact (H (S n)).
Qed.

Lemma lookup_in {A} : forall (l : list (N * A)) k v, lookup k l = Some v -> exists v', In (k, v') l.
Proof.
  induction l as [|[k' v'] r IH]; cbn; intros k v H; [discriminate|].
  destruct (k =? k') eqn:E.
  - apply N.eqb_eq in E. subst. eauto.
  - apply IH in H as [w Hw]. eauto.
Qed.

(* ------------------------------------------------------------------ invariant and relation *)
Definition site_at (st : state) (sid : N) : option site := nth_error (sites st) (N.to_nat sid).

(* every cache entry was built from an object that is still alive, is a function or closure with
   the recorded closure flag, and is bound to some global *)
Definition entries_ok (st : state) : Prop :=
  forall slot e, cache_entry (cache st) slot = Some e ->
    (exists o, hget st (e_code e) = Some o /\ o_kind o <> KNat /\ e_clo e = is_clo o) /\
    bound_somewhere st (e_code e) = true.

Definition slots_ok (st : state) : Prop :=
  forall sid s, site_at st sid = Some s -> s_slot s < MAX_CALL_SITE_SLOTS.

Record cache_inv (st : state) : Prop := { inv_entries : entries_ok st; inv_slots : slots_ok st }.

Definition site_rel (a b : site) : Prop := s_live a = s_live b /\ s_idx a = s_idx b.

(* two states describe the same bindings, the same heap and the same sites *)
Definition view_rel (st sp : state) : Prop :=
  (forall i, gget st i = gget sp i) /\ (forall p, hget st p = hget sp p) /\
  Forall2 site_rel (sites st) (sites sp).

Lemma view_rel_resolve st sp i : view_rel st sp -> resolve st i = resolve sp i.
Proof. intros (Hg & Hh & _). unfold resolve. rewrite Hg. destruct (gget sp i); auto. rewrite Hh. reflexivity. Qed.

Lemma view_rel_site st sp sid : view_rel st sp ->
  match site_at st sid, site_at sp sid with
  | Some a, Some b => site_rel a b
  | None, None => True
  | _, _ => False
  end.
Proof. intros (_ & _ & Hs). apply (forall2_nth _ _ _ Hs). Qed.

Lemma view_rel_trans a b c : view_rel a b -> view_rel b c -> view_rel a c.
Proof.
  intros (G1 & H1 & S1) (G2 & H2 & S2). repeat split.
  - intro i. now rewrite G1.
  - intro p. now rewrite H1.
  - apply forall2_of_nth. intro n. pose proof (forall2_nth _ _ _ S1 n) as A. pose proof (forall2_nth _ _ _ S2 n) as B.
    destruct (nth_error (sites a) n), (nth_error (sites b) n), (nth_error (sites c) n); try contradiction; auto.
    destruct A, B. split; congruence.
Qed.

Lemma view_rel_refl a : view_rel a a.
Proof.
  repeat split. apply forall2_of_nth. intro n. destruct (nth_error (sites a) n); auto. split; reflexivity.
Qed.

Lemma not_bound_somewhere sp p : bound_somewhere sp p = false -> forall i, gget sp i <> GPtr p.
Proof.
  intros H i E. unfold bound_somewhere in H.
  assert (Hl : exists v, lookup i (globals sp) = Some v).
  { unfold gget in E. destruct (lookup i (globals sp)) eqn:L; [eauto|discriminate]. }
  destruct Hl as [v Hl]. apply lookup_in in Hl as [v' Hin].
  assert (C : existsb (fun kv => gval_is (gget sp (fst kv)) p) (globals sp) = true).
  { apply existsb_exists. exists (i, v'). split; [exact Hin|]. cbn. rewrite E. cbn. apply N.eqb_refl. }
  congruence.
Qed.

Lemma bound_somewhere_intro st i p : gget st i = GPtr p -> bound_somewhere st p = true.
Proof.
  intro E. destruct (bound_somewhere st p) eqn:B; [reflexivity|].
  exfalso. exact (not_bound_somewhere st p B i E).
Qed.

Lemma bound_somewhere_elim st p : bound_somewhere st p = true -> exists i, gget st i = GPtr p.
Proof.
  unfold bound_somewhere. intro H. apply existsb_exists in H as ([i v] & _ & H). cbn in H.
  exists i. unfold gval_is in H. destruct (gget st i) as [| |q]; try discriminate.
  apply N.eqb_eq in H. now subst.
Qed.

(* ------------------------------------------------------------------ one call *)
Lemma validates : MONO_FAST_PATH_VALIDATES = true.
Proof. reflexivity. Qed.
Lemma native_follows : NATIVE_SITE_FOLLOWS_REBINDING = true.
Proof. reflexivity. Qed.
Lemma zero_slot_ok : 0 < MAX_CALL_SITE_SLOTS.
Proof. reflexivity. Qed.

(* what the specification says about a call through global idx *)
Definition spec_res (st : state) (idx : N) : outcome :=
  match resolve st idx with
  | ROk q o => match o_kind o with KNat => ONative q | _ => ORan q q end
  | _ => OErr ENotCallable
  end.

Definition agree (a b : outcome) : Prop := same_callee a b = true.

Lemma plain_correct st sid s : s_slot s < MAX_CALL_SITE_SLOTS ->
  agree (snd (op_call_global st sid s)) (spec_res st (s_idx s)).
Proof.
  intro Hb. unfold agree, op_call_global, spec_res.
  destruct (resolve st (s_idx s)) as [q o| | |]; cbn; auto.
  assert (Hb' : (MAX_CALL_SITE_SLOTS <=? s_slot s) = false) by (apply N.leb_gt; exact Hb).
  destruct (o_kind o); rewrite ?Hb'; cbn; rewrite ?N.eqb_refl; reflexivity.
Qed.

Lemma miss_correct st sid s : s_slot s < MAX_CALL_SITE_SLOTS ->
  agree (snd (mono_miss st sid s)) (spec_res st (s_idx s)).
Proof.
  intro Hb. unfold agree, mono_miss, spec_res.
  destruct (resolve st (s_idx s)) as [q o| | |]; cbn; auto.
  assert (Hb' : (MAX_CALL_SITE_SLOTS <=? s_slot s) = false) by (apply N.leb_gt; exact Hb).
  destruct (o_kind o); rewrite ?Hb'; cbn; rewrite ?N.eqb_refl; reflexivity.
Qed.

Lemma mono_correct st sid s p : entries_ok st -> s_slot s < MAX_CALL_SITE_SLOTS ->
  agree (snd (op_call_global_mono st sid s p)) (spec_res st (s_idx s)).
Proof.
  intros E Hb. pose proof (miss_correct st sid s Hb) as M. unfold op_call_global_mono.
  destruct (negb (p =? 0)); [|exact M].
  destruct (cache_entry (cache st) (s_slot s)) as [e|] eqn:Ce; [|exact M].
  rewrite validates. cbn [negb orb].
  destruct ((e_code e =? p) && gval_is (gget st (s_idx s)) p) eqn:V; [|exact M].
  apply andb_true_iff in V as [V1 V2]. apply N.eqb_eq in V1.
  unfold gval_is in V2. destruct (gget st (s_idx s)) as [| |q] eqn:G; try discriminate.
  apply N.eqb_eq in V2. subst q.
  destruct (E _ _ Ce) as [(o & Ho & Hk & Hc) _]. rewrite V1 in *.
  unfold agree, spec_res, resolve. rewrite G, Ho, Hc. unfold is_clo.
  destruct (o_kind o) eqn:K; cbn; rewrite ?N.eqb_refl; auto; congruence.
Qed.

Lemma resolve_with_site st sid f i : resolve (with_site st sid f) i = resolve st i.
Proof. reflexivity. Qed.

Lemma native_correct st sid s p :
  agree (snd (op_call_global_native st sid s p)) (spec_res st (s_idx s)).
Proof.
  unfold op_call_global_native. rewrite native_follows. cbn [andb].
  destruct (despecialise st s p) eqn:D.
  - pose proof (plain_correct (with_site st sid (fun _ => mkSite (s_live s) Plain 0 (s_idx s))) sid
                  (mkSite (s_live s) Plain 0 (s_idx s)) zero_slot_ok) as P.
    cbn [s_idx] in P. unfold spec_res in *. rewrite resolve_with_site in P. exact P.
  - unfold despecialise in D. unfold agree, native_body, spec_res, resolve, is_native_at in *.
    destruct (gget st (s_idx s)) as [| |q] eqn:G.
    + apply negb_false_iff in D. rewrite D. reflexivity.
    + apply negb_false_iff in D. rewrite D. reflexivity.
    + apply orb_false_iff in D as [D1 D2]. apply negb_false_iff in D2.
      destruct (hget st q) as [o|] eqn:Hq; [|discriminate].
      destruct (o_kind o) eqn:K; try discriminate.
      destruct (p =? 0) eqn:P0.
      * rewrite ?K. cbn. apply N.eqb_refl.
      * cbn in D1. apply negb_false_iff in D1. apply N.eqb_eq in D1. subst q.
        rewrite ?Hq, ?K. cbn. apply N.eqb_refl.
Qed.

Lemma spec_call_res sp sid :
  spec_call sp sid = match site_at sp sid with
                     | None => ONoSite
                     | Some s => if negb (s_live s) then ODead else spec_res sp (s_idx s)
                     end.
Proof. reflexivity. Qed.

(* the model's call agrees with the specification *)
Lemma call_correct st sp sid :
  cache_inv st -> view_rel st sp -> agree (snd (call st sid)) (spec_call sp sid).
Proof.
  intros I R. pose proof (view_rel_site st sp sid R) as Hs.
  rewrite spec_call_res. unfold call. fold (site_at st sid).
  destruct (site_at st sid) as [a|] eqn:Ea; destruct (site_at sp sid) as [b|] eqn:Eb; try contradiction; [|reflexivity].
  destruct Hs as (Hl & Hi). rewrite <- Hl, <- Hi.
  destruct (s_live a); cbn [negb]; [|reflexivity].
  assert (SR : spec_res sp (s_idx a) = spec_res st (s_idx a)).
  { unfold spec_res. now rewrite (view_rel_resolve st sp _ R). }
  rewrite SR. pose proof (inv_slots st I sid a Ea) as Hb.
  destruct (s_form a) as [|p|p].
  - now apply plain_correct.
  - apply mono_correct; [apply (inv_entries st I)|exact Hb].
  - apply native_correct.
Qed.

(* ------------------------------------------------------------------ effect of one call on the state *)
Lemma upd_site_at (sts : list site) (sid j : N) (f : site -> site) :
  nth_error (upd_nth (N.to_nat sid) f sts) (N.to_nat j) =
  if j =? sid then option_map f (nth_error sts (N.to_nat sid)) else nth_error sts (N.to_nat j).
Proof.
  destruct (j =? sid) eqn:E.
  - apply N.eqb_eq in E. subst. apply nth_error_upd_same.
  - apply N.eqb_neq in E. apply nth_error_upd_other. intro H. apply E. symmetry. now apply N2Nat.inj.
Qed.

Lemma forall2_upd (f : site -> site) n : (forall s, site_rel (f s) s) ->
  forall l, Forall2 site_rel (upd_nth n f l) l.
Proof.
  intros Hf l. apply forall2_of_nth. intro m.
  destruct (Nat.eq_dec n m) as [E|E].
  - subst. rewrite nth_error_upd_same. destruct (nth_error l m); cbn; auto.
  - rewrite nth_error_upd_other by exact E. destruct (nth_error l m); auto. split; reflexivity.
Qed.

(* a state that differs from st in its cache and in the form / slot of one site *)
Definition patched (st st' : state) : Prop :=
  globals st' = globals st /\ heap st' = heap st /\ Forall2 site_rel (sites st') (sites st).

Lemma patched_refl st : patched st st.
Proof. repeat split. destruct (view_rel_refl st) as (_ & _ & H). exact H. Qed.

Lemma patched_trans a b c : patched a b -> patched b c -> patched a c.
Proof.
  intros (G1 & H1 & S1) (G2 & H2 & S2). repeat split; try congruence.
  apply forall2_of_nth. intro n. pose proof (forall2_nth _ _ _ S1 n) as A. pose proof (forall2_nth _ _ _ S2 n) as B.
  destruct (nth_error (sites a) n), (nth_error (sites b) n), (nth_error (sites c) n); try contradiction; auto.
  destruct A, B. split; congruence.
Qed.

Lemma patched_view st st' sp : patched st st' -> view_rel st sp -> view_rel st' sp.
Proof.
  intros (G & H & S) R. apply (view_rel_trans st' st sp); [|exact R].
  repeat split.
  - intro i. unfold gget. now rewrite G.
  - intro p. unfold hget. now rewrite H.
  - exact S.
Qed.

Lemma patched_with_site st sid f : (forall s, site_rel (f s) s) -> patched st (with_site st sid f).
Proof. intro Hf. repeat split. cbn [sites with_site]. now apply forall2_upd. Qed.

Lemma set_form_rel F s : site_rel (set_form F s) s.
Proof. split; reflexivity. Qed.

Lemma patched_fill st sid s q c : patched st (fill st sid s q c).
Proof. repeat split. cbn [sites fill]. apply forall2_upd. apply set_form_rel. Qed.

(* entries / slots under the state changes a call can make *)
Lemma inv_with_site st sid f :
  cache_inv st -> (forall s, s_slot (f s) = s_slot s \/ s_slot (f s) = 0) -> cache_inv (with_site st sid f).
Proof.
  intros [E S] Hf. constructor.
  - exact E.
  - intros j s Hj. unfold site_at, with_site in Hj. cbn [sites] in Hj. rewrite upd_site_at in Hj.
    destruct (j =? sid).
    + fold (site_at st sid) in Hj. destruct (site_at st sid) as [a|] eqn:Ea; [|discriminate].
      cbn in Hj. inversion Hj. destruct (Hf a) as [H|H]; rewrite H; [exact (S sid a Ea)|exact zero_slot_ok].
    + exact (S j s Hj).
Qed.

Lemma resolve_ok_inv st i q o : resolve st i = ROk q o -> gget st i = GPtr q /\ hget st q = Some o.
Proof.
  unfold resolve. destruct (gget st i) as [| |p]; try discriminate.
  destruct (hget st p) as [o'|] eqn:H; [|discriminate]. intro E. inversion E; subst. auto.
Qed.

Lemma inv_fill st sid s q o :
  cache_inv st -> resolve st (s_idx s) = ROk q o -> o_kind o <> KNat -> cache_inv (fill st sid s q (is_clo o)).
Proof.
  intros [E S] Res K. destruct (resolve_ok_inv _ _ _ _ Res) as [Hg Hh]. constructor.
  - intros slot e He. unfold fill in He. cbn [cache] in He.
    change (hget (fill st sid s q (is_clo o))) with (hget st).
    change (bound_somewhere (fill st sid s q (is_clo o))) with (bound_somewhere st).
    destruct (N.eq_dec (s_slot s) slot) as [Eq|Ne].
    + subst slot. rewrite cache_entry_set_same in He. inversion He; subst e. cbn [e_code e_clo].
      split; [exists o; auto|]. exact (bound_somewhere_intro st _ _ Hg).
    + rewrite cache_entry_set_other in He by exact Ne. exact (E slot e He).
  - intros j a Hj. unfold site_at, fill in Hj. cbn [sites] in Hj. rewrite upd_site_at in Hj.
    destruct (j =? sid).
    + fold (site_at st sid) in Hj. destruct (site_at st sid) as [b|] eqn:Eb; [|discriminate].
      cbn in Hj. inversion Hj. cbn. exact (S sid b Eb).
    + exact (S j a Hj).
Qed.

Lemma plain_preserves st sid s :
  cache_inv st -> cache_inv (fst (op_call_global st sid s)) /\ patched st (fst (op_call_global st sid s)).
Proof.
  intro I. unfold op_call_global.
  destruct (resolve st (s_idx s)) as [q o| | |] eqn:R; cbn [fst]; try (split; [exact I|apply patched_refl]).
  destruct (o_kind o) eqn:K.
  - destruct (MAX_CALL_SITE_SLOTS <=? s_slot s); cbn [fst]; [split; [exact I|apply patched_refl]|].
    split; [apply inv_fill; auto; congruence|apply patched_fill].
  - destruct (MAX_CALL_SITE_SLOTS <=? s_slot s); cbn [fst]; [split; [exact I|apply patched_refl]|].
    split; [apply inv_fill; auto; congruence|apply patched_fill].
  - cbn [fst]. split; [apply inv_with_site; auto|apply patched_with_site; apply set_form_rel].
Qed.

Lemma miss_preserves st sid s :
  cache_inv st -> cache_inv (fst (mono_miss st sid s)) /\ patched st (fst (mono_miss st sid s)).
Proof.
  intro I. unfold mono_miss.
  destruct (resolve st (s_idx s)) as [q o| | |] eqn:R; cbn [fst]; try (split; [exact I|apply patched_refl]).
  destruct (o_kind o) eqn:K.
  - destruct (MAX_CALL_SITE_SLOTS <=? s_slot s); cbn [fst]; [split; [exact I|apply patched_refl]|].
    split; [apply inv_fill; auto; congruence|apply patched_fill].
  - destruct (MAX_CALL_SITE_SLOTS <=? s_slot s); cbn [fst]; [split; [exact I|apply patched_refl]|].
    split; [apply inv_fill; auto; congruence|apply patched_fill].
  - cbn [fst]. split; [exact I|apply patched_refl].
Qed.

Lemma step_call_preserves st sid :
  cache_inv st -> cache_inv (fst (call st sid)) /\ patched st (fst (call st sid)).
Proof.
  intro I. unfold call. fold (site_at st sid).
  destruct (site_at st sid) as [a|] eqn:Ea; [|split; [exact I|apply patched_refl]].
  destruct (s_live a); cbn [negb]; [|split; [exact I|apply patched_refl]].
  destruct (s_form a) as [|p|p].
  - now apply plain_preserves.
  - pose proof (miss_preserves st sid a I) as M. unfold op_call_global_mono.
    destruct (negb (p =? 0)); [|exact M].
    destruct (cache_entry (cache st) (s_slot a)) as [e|]; [|exact M].
    destruct (negb MONO_FAST_PATH_VALIDATES || (e_code e =? p) && gval_is (gget st (s_idx a)) p); [|exact M].
    destruct (e_clo e).
    + destruct (hget st p) as [o|]; [|split; [exact I|apply patched_refl]].
      destruct (is_clo o); (split; [exact I|apply patched_refl]).
    + split; [exact I|apply patched_refl].
  - unfold op_call_global_native. destruct (NATIVE_SITE_FOLLOWS_REBINDING && despecialise st a p).
    + set (s' := mkSite (s_live a) Plain 0 (s_idx a)).
      assert (I1 : cache_inv (with_site st sid (fun _ => s'))) by (apply inv_with_site; auto).
      assert (P1 : patched st (with_site st sid (fun _ => s'))).
      { repeat split. cbn [sites with_site]. apply forall2_of_nth. intro m.
        destruct (Nat.eq_dec (N.to_nat sid) m) as [E|E].
        - subst m. rewrite nth_error_upd_same. unfold site_at in Ea. rewrite Ea. cbn. split; reflexivity.
        - rewrite nth_error_upd_other by exact E. destruct (nth_error (sites st) m); auto. split; reflexivity. }
      destruct (plain_preserves _ sid s' I1) as [I2 P2]. split; [exact I2|]. eapply patched_trans; eauto.
    + unfold native_body. destruct (p =? 0).
      * destruct (resolve st (s_idx a)) as [q o| | |]; cbn [fst]; try (split; [exact I|apply patched_refl]).
        destruct (o_kind o); cbn [fst]; try (split; [exact I|apply patched_refl]).
        split; [apply inv_with_site; auto|apply patched_with_site; apply set_form_rel].
      * destruct (hget st p) as [o|]; [|split; [exact I|apply patched_refl]].
        destruct (o_kind o); (split; [exact I|apply patched_refl]).
Qed.

(* ------------------------------------------------------------------ the other events *)
Lemma clears_cache : SET_GLOBAL_CLEARS_CACHE = true.
Proof. reflexivity. Qed.

Lemma lookup_freed (freed : list N) (h : list (N * option obj)) q :
  lookup q (map (fun p => (p, None)) freed ++ h) = if memb q freed then Some None else lookup q h.
Proof.
  induction freed as [|p r IH]; cbn; [reflexivity|].
  destruct (q =? p); cbn; [reflexivity|exact IH].
Qed.

Lemma site_at_map_sites st' st f j :
  sites st' = map_sites f 0 (sites st) -> site_at st' j = option_map (f j) (site_at st j).
Proof.
  intro E. unfold site_at. rewrite E, nth_error_map_sites.
  replace (0 + N.of_nat (N.to_nat j)) with j by lia. reflexivity.
Qed.

Lemma site_rel_refl s : site_rel s s.
Proof. split; reflexivity. Qed.

Lemma step_other_preserves st sp ev :
  (forall sid, ev <> Call sid) ->
  cache_inv st -> view_rel st sp -> event_ok sp ev = true ->
  cache_inv (fst (step st ev)) /\ view_rel (fst (step st ev)) (fst (step sp ev)).
Proof.
  intros NC [E S] R G. pose proof R as (Rg & Rh & Rs).
  destruct ev as [sid|idx v|p o|ds base|sids|sids|freed]; [exfalso; eapply NC; reflexivity| | | | | |]; cbn [step fst].
  - (* SetGlobal *)
    rewrite clears_cache. split.
    + constructor; [|exact S]. intros slot e He. cbn [cache] in He. rewrite cache_entry_nil in He. discriminate.
    + repeat split; auto. intro i. specialize (Rg i). unfold gget in *. cbn [globals lookup]. destruct (i =? idx); [reflexivity|exact Rg].
  - (* Alloc *)
    cbn [event_ok] in G. destruct (hget sp p) eqn:Hp; [discriminate|]. rewrite <- Rh in Hp.
    split.
    + constructor; [|exact S]. intros slot e He. cbn [cache] in He. destruct (E slot e He) as [(o' & Ho & Hk & Hc) B].
      split; [|exact B]. exists o'. split; [|auto]. unfold hget in *. cbn [heap lookup].
      destruct (e_code e =? p) eqn:Eq; [apply N.eqb_eq in Eq; rewrite Eq in Ho; congruence|exact Ho].
    + repeat split; auto. intro q. specialize (Rh q). unfold hget in *. cbn [heap lookup]. destruct (q =? p); [reflexivity|exact Rh].
  - (* NewUnit *)
    cbn [event_ok] in G. rewrite forallb_forall in G. split.
    + constructor; [exact E|]. intros j s Hj. unfold site_at in Hj. cbn [sites] in Hj.
      destruct (nth_error (sites st) (N.to_nat j)) as [a|] eqn:Ea.
      * rewrite nth_error_app1 in Hj by (apply nth_error_Some; congruence). rewrite Ea in Hj. inversion Hj; subst. exact (S j s Ea).
      * apply nth_error_None in Ea. rewrite nth_error_app2 in Hj by exact Ea.
        apply nth_error_In in Hj. apply in_map_iff in Hj as (d & Hd & Hin). subst s. cbn.
        apply N.ltb_lt. exact (G d Hin).
    + repeat split; auto. cbn [sites]. apply Forall2_app; [exact Rs|].
      clear. induction ds; cbn; constructor; auto. apply site_rel_refl.
  - (* Retire *)
    set (f := fun (i : N) (s : site) => if memb i sids then mkSite false (s_form s) (s_slot s) (s_idx s) else s).
    split.
    + constructor; [exact E|]. intros j s Hj. erewrite site_at_map_sites in Hj by reflexivity.
      destruct (site_at st j) as [a|] eqn:Ea; [|discriminate]. cbn in Hj. inversion Hj. unfold f.
      destruct (memb j sids); cbn; exact (S j a Ea).
    + repeat split; auto. cbn [sites]. apply forall2_of_nth. intro n.
      rewrite !nth_error_map_sites. pose proof (forall2_nth _ _ _ Rs n) as Hn.
      destruct (nth_error (sites st) n) as [a|]; destruct (nth_error (sites sp) n) as [b|]; cbn; auto.
      unfold f. destruct (memb (0 + N.of_nat n) sids); [|exact Hn]. destruct Hn. split; auto.
  - (* SaveReload *)
    set (f := fun (i : N) (s : site) => if memb i sids then reload_site s else s).
    split.
    + constructor; [exact E|]. intros j s Hj. erewrite site_at_map_sites in Hj by reflexivity.
      destruct (site_at st j) as [a|] eqn:Ea; [|discriminate]. cbn in Hj. inversion Hj. unfold f, reload_site.
      destruct (memb j sids); [|exact (S j a Ea)].
      destruct (s_form a); cbn; try exact zero_slot_ok. exact (S j a Ea).
    + repeat split; auto. cbn [sites]. apply forall2_of_nth. intro n.
      rewrite !nth_error_map_sites. pose proof (forall2_nth _ _ _ Rs n) as Hn.
      destruct (nth_error (sites st) n) as [a|]; destruct (nth_error (sites sp) n) as [b|]; cbn; auto.
      unfold f, reload_site. destruct (memb (0 + N.of_nat n) sids); [|exact Hn]. destruct Hn.
      destruct (s_form a), (s_form b); split; auto.
  - (* Collect *)
    cbn [event_ok] in G. rewrite forallb_forall in G.
    assert (HK : forall (stt : state) q, hget (mkState (globals stt) (map (fun p => (p, None)) freed ++ heap stt) (cache stt) (sites stt)) q
                          = if memb q freed then None else hget stt q).
    { intros stt q. unfold hget. cbn [heap]. rewrite lookup_freed. destruct (memb q freed); reflexivity. }
    split.
    + constructor; [|exact S]. intros slot e He. cbn [cache] in He. destruct (E slot e He) as [(o' & Ho & Hk & Hc) B].
      split; [|exact B]. exists o'. split; [|auto]. rewrite HK.
      destruct (memb (e_code e) freed) eqn:M; [|exact Ho]. exfalso.
      unfold memb in M. apply existsb_exists in M as (x & Hx & Ex). apply N.eqb_eq in Ex. subst x.
      specialize (G _ Hx). apply negb_true_iff in G.
      destruct (bound_somewhere_elim st _ B) as [i Hi].
      apply (not_bound_somewhere sp _ G i). rewrite <- Rg. exact Hi.
    + repeat split; auto. intro q. rewrite !HK. now rewrite Rh.
Qed.

(* ------------------------------------------------------------------ histories *)
Lemma run_cons stp st e r : run stp st (e :: r) = snd (stp st e) :: run stp (fst (stp st e)) r.
Proof. cbn [run]. destruct (stp st e); reflexivity. Qed.

Lemma step_noncall_outcome st ev : (forall sid, ev <> Call sid) -> snd (step st ev) = ONone.
Proof. intro NC. destruct ev; try reflexivity. exfalso. eapply NC. reflexivity. Qed.

Theorem run_agrees : forall h st sp,
  cache_inv st -> view_rel st sp -> env_ok sp h = true ->
  Forall2 agree (run step st h) (run spec_step sp h).
Proof.
  induction h as [|e r IH]; intros st sp I R H; [constructor|].
  cbn [env_ok] in H. apply andb_true_iff in H as [G Hr].
  rewrite !run_cons.
  destruct e as [sid|idx v|p o|ds base|sids|sids|freed].
  1: { cbn [step spec_step fst snd] in *. constructor.
       - apply call_correct; auto.
       - destruct (step_call_preserves st sid I) as [I' P']. apply IH; auto. eapply patched_view; eauto. }
  all: match goal with |- Forall2 _ (snd (step ?s ?ev) :: _) _ =>
         assert (NC : forall sid, ev <> Call sid) by (intros sid; discriminate);
         destruct (step_other_preserves st sp ev NC I R G) as (I' & R');
         constructor; [ rewrite step_noncall_outcome by exact NC; reflexivity
                      | apply IH; auto ]
       end.
Qed.

Lemma init_inv : cache_inv init.
Proof.
  constructor.
  - intros slot e H. rewrite cache_entry_nil in H. discriminate.
  - intros sid s. unfold site_at, init. cbn. destruct (N.to_nat sid); discriminate.
Qed.

Theorem run_agrees_from_init : forall h, env_ok init h = true ->
  Forall2 agree (run step init h) (run spec_step init h).
Proof. intros h H. apply run_agrees; auto using init_inv, view_rel_refl. Qed.

(* ------------------------------------------------------------------ invalidation *)
(* right after set_global*, in ANY state, a call through any site enters the specified callee *)
Lemma invalidate_on_set : forall st idx v sid s,
  let st' := fst (step st (SetGlobal idx v)) in
  site_at st' sid = Some s -> s_slot s < MAX_CALL_SITE_SLOTS ->
  agree (snd (call st' sid)) (spec_call st' sid).
Proof.
  intros st idx v sid s st' Hs Hb. rewrite spec_call_res. unfold call. fold (site_at st' sid). rewrite Hs.
  destruct (s_live s); cbn [negb]; [|reflexivity].
  destruct (s_form s) as [|p|p].
  - now apply plain_correct.
  - apply mono_correct; [|exact Hb]. intros slot e He. unfold st' in He. cbn [step fst cache] in He.
    rewrite clears_cache, cache_entry_nil in He. discriminate.
  - apply native_correct.
Qed.

(* ------------------------------------------------------------------ former counterexamples *)
Fixpoint all_agree (a b : list outcome) : bool :=
  match a, b with
  | [], [] => true
  | x :: a', y :: b' => same_callee x y && all_agree a' b'
  | _, _ => false
  end.

Lemma repl_base_zero : forall st, repl_slot_base st = 0.
Proof. intro st. reflexivity. Qed.

(* ---- the histories that refuted the property before the repairs (names: ha=0 hb=1 a=2 b=3;
        heap indices 10..13; tags 20..23) ---- *)
Definition defs_ha_hb : list event :=
  [Alloc 10 (mkObj KFn 20 []); SetGlobal 0 (GPtr 10); Alloc 11 (mkObj KFn 21 []); SetGlobal 1 (GPtr 11)].

(* REPL session: `fn ha.. fn hb..` | `fn a(){ha()}` | `fn b(){hb()}` | `a()` | `b()` | `a()`;
   every input is a unit whose slot ids start at repl_slot_base = 0 *)
Definition repl_session : list (list event) :=
  [ NewUnit [] 0 :: defs_ha_hb;
    [NewUnit [mkDecl false 0 0] 0; Alloc 12 (mkObj KFn 22 [0]); SetGlobal 2 (GPtr 12)];
    [NewUnit [mkDecl false 0 1] 0; Alloc 13 (mkObj KFn 23 [1]); SetGlobal 3 (GPtr 13)];
    [NewUnit [mkDecl false 0 2] 0; Call 2; Retire [2]];
    [NewUnit [mkDecl false 0 3] 0; Call 3; Retire [3]];
    [NewUnit [mkDecl false 0 2] 0; Call 4; Retire [4]] ].

Definition repl_history : list event :=
  (NewUnit [] 0 :: defs_ha_hb) ++
  [NewUnit [mkDecl false 0 0] 0; Alloc 12 (mkObj KFn 22 [0]); SetGlobal 2 (GPtr 12);
   NewUnit [mkDecl false 0 1] 0; Alloc 13 (mkObj KFn 23 [1]); SetGlobal 3 (GPtr 13);
   NewUnit [mkDecl false 0 2] 0; Call 2; Call 0; Retire [2];
   NewUnit [mkDecl false 0 3] 0; Call 3; Call 1; Retire [3];
   NewUnit [mkDecl false 0 2] 0; Call 4; Call 0].

Definition program_unit : list event :=
  defs_ha_hb ++
  [NewUnit [mkDecl false 0 0; mkDecl false 1 1; mkDecl false 2 2; mkDecl false 3 3; mkDecl false 4 2] 0;
   Alloc 12 (mkObj KFn 22 [0]); SetGlobal 2 (GPtr 12); Alloc 13 (mkObj KFn 23 [1]); SetGlobal 3 (GPtr 13)].
Definition program_calls : list event := [Call 2; Call 0; Call 3; Call 1; Call 4; Call 0].
Definition program_session (reload : bool) : list (list event) :=
  [program_unit ++ (if reload then [SaveReload [0; 1; 2; 3; 4]] else []) ++ [Call 2; Call 3; Call 4]].
Definition reload_history : list event := program_unit ++ SaveReload [0; 1; 2; 3; 4] :: program_calls.

(* `let mut t = abs; fn go(){ t() }; go(); t = floor; go(); t = go2 (a user function); go()` *)
Definition native_history : list event :=
  [Alloc 58 (mkObj KNat 1 []); SetGlobal 0 (GPtr 58); Alloc 75 (mkObj KNat 2 []); SetGlobal 1 (GPtr 75);
   NewUnit [mkDecl false 0 2; mkDecl false 1 3; mkDecl false 2 3; mkDecl false 3 3; mkDecl true 0 0] 0;
   SetGlobal 2 (GPtr 58); Alloc 12 (mkObj KFn 22 [0]); SetGlobal 3 (GPtr 12);
   Call 1; Call 0; SetGlobal 2 (GPtr 75); Call 2; Call 0;
   Alloc 13 (mkObj KFn 23 []); SetGlobal 2 (GPtr 13); Call 3; Call 0;
   SetGlobal 0 (GPtr 13); Call 4].

Lemma former_counterexamples_agree :
  env_ok init repl_history = true /\ env_ok init reload_history = true /\ env_ok init native_history = true /\
  all_agree (run step init repl_history) (run spec_step init repl_history) = true /\
  all_agree (run step init reload_history) (run spec_step init reload_history) = true /\
  all_agree (run step init native_history) (run spec_step init native_history) = true /\
  nth_error (run step init repl_history) 21 = Some (ORan 10 10) /\
  nth_error (run step init native_history) 16 = Some (ORan 13 13) /\
  nth_error (run step init native_history) 18 = Some (ORan 13 13).
Proof. vm_compute. repeat split; reflexivity. Qed.

(* what the toolchain now prints for the reproduced sessions (corpus/C05): the specification's tags *)
Lemma witness_predictions :
  session_obs repl_session =
    [[0; 0]; [0; 0]; [0; 0]; [0; 2; 22; 20]; [0; 2; 23; 21]; [0; 2; 22; 20]] /\
  session_obs (program_session false) = [[0; 6; 22; 20; 23; 21; 22; 20]] /\
  session_obs (program_session true) = [[0; 6; 22; 20; 23; 21; 22; 20]].
Proof. vm_compute. repeat split; reflexivity. Qed.

(* a history with function -> closure -> native rebinding, a collection that frees the old function,
   units loaded at slot base 0 again and again, a retired site *)
Definition mixed_history : list event :=
  [Alloc 10 (mkObj KFn 20 []); SetGlobal 0 (GPtr 10);
   NewUnit [mkDecl false 0 0; mkDecl false 1 0] 0;
   Call 0; Call 0; Call 1;
   Alloc 11 (mkObj KClo 21 []); SetGlobal 0 (GPtr 11);
   Call 0; Call 1; Call 0;
   Collect [10];
   Call 0;
   NewUnit [mkDecl false 0 0] 0; Call 2; Retire [2];
   NewUnit [mkDecl false 0 0] 0; Call 3;
   Alloc 58 (mkObj KNat 1 []); SetGlobal 0 (GPtr 58);
   Call 0; Call 3;
   Alloc 10 (mkObj KFn 24 []); SetGlobal 0 (GPtr 10);
   Call 0; Call 3; Call 1].

Lemma mixed_history_facts :
  env_ok init mixed_history = true /\
  run step init mixed_history =
    [ONone; ONone; ONone; ORan 10 10; ORan 10 10; ORan 10 10; ONone; ONone;
     ORan 11 11; ORan 11 11; ORan 11 11; ONone; ORan 11 11; ONone; ORan 11 11; ONone;
     ONone; ORan 11 11; ONone; ONone; ONative 58; ONative 58; ONone; ONone;
     ORan 10 10; ORan 10 10; ORan 10 10].
Proof. vm_compute. split; reflexivity. Qed.

(* ---- the access table of call_site_cache regenerated from the source is the one the models are written
   against: only opcode 78 reads the table, only 77 and 78 (miss path) write it, nothing outside the
   dispatch arms reads or writes it (the two global setters clear it: SET_GLOBAL_CLEARS_CACHE), every fill
   records its owner; 77 patches a site to 78 or 104, 104 patches it back to 77, 78 keeps its opcode *)
Lemma access_table :
  CACHE_READ_OPS = [OP_CALL_GLOBAL_MONO] /\
  CACHE_WRITE_OPS = [OP_CALL_GLOBAL; OP_CALL_GLOBAL_MONO] /\
  CACHE_OTHER_ACCESSES = 0 /\
  SET_GLOBAL_CLEARS_CACHE = true /\ CACHE_FILLS_RECORD_OWNER = true /\
  PATCHES_FROM_CALL_GLOBAL = [OP_CALL_GLOBAL_MONO; OP_CALL_GLOBAL_NATIVE] /\
  PATCHES_FROM_CALL_GLOBAL_MONO = [] /\
  PATCHES_FROM_CALL_GLOBAL_NATIVE = [OP_CALL_GLOBAL].
Proof. repeat split; reflexivity. Qed.
