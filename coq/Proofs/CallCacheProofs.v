(* C05 -- proofs about the inline-cache protocol model (Model/CallCache.v). *)
From Aelys Require Import Base.Tactics Extracted.CallCacheConsts Model.CallCache.
Local Open Scope N_scope.

(* ------------------------------------------------------------------ list plumbing *)
Lemma nth_error_upd_same {A} (f : A -> A) : forall n (l : list A),
  nth_error (upd_nth n f l) n = option_map f (nth_error l n).
Proof. induction n as [|n IH]; intros [|h t]; cbn; auto. Qed.

Lemma nth_error_upd_other {A} (f : A -> A) : forall n m (l : list A),
  n <> m -> nth_error (upd_nth n f l) m = nth_error l m.
Proof.
  induction n as [|n IH]; intros [|m] [|h t] Hne; cbn; auto; try congruence.
Qed.

Lemma length_upd_nth {A} (f : A -> A) : forall n (l : list A), length (upd_nth n f l) = length l.
Proof. induction n as [|n IH]; intros [|h t]; cbn; auto. Qed.

Lemma nth_error_set_same {A} (x d : A) : forall n (l : list A), nth_error (set_nth n x d l) n = Some x.
Proof. induction n as [|n IH]; intros [|h t]; cbn; auto. Qed.

Definition nonnull {A} (o : option (option A)) : option A :=
  match o with Some (Some e) => Some e | _ => None end.

Lemma nth_error_set_other {A} (x : option A) : forall n m (l : list (option A)),
  n <> m -> nonnull (nth_error (set_nth n x None l) m) = nonnull (nth_error l m).
Proof.
  induction n as [|n IH]; intros [|m] [|h t] Hne; cbn; auto; try congruence.
  all: try (rewrite IH by congruence).
  all: try (destruct m; reflexivity).
Qed.

Lemma cache_entry_set_same c s e : cache_entry (set_nth (N.to_nat s) (Some e) None c) s = Some e.
Proof. unfold cache_entry. rewrite nth_error_set_same. reflexivity. Qed.

Lemma cache_entry_set_other c s s' e :
  s <> s' -> cache_entry (set_nth (N.to_nat s) (Some e) None c) s' = cache_entry c s'.
Proof.
  intro Hne. unfold cache_entry.
  assert (H : N.to_nat s <> N.to_nat s') by (intro E; apply Hne; now apply N2Nat.inj).
  pose proof (nth_error_set_other (Some e) (N.to_nat s) (N.to_nat s') c H) as E.
  unfold nonnull in E. exact E.
Qed.

Lemma cache_entry_nil s : cache_entry [] s = None.
Proof. unfold cache_entry. destruct (N.to_nat s); reflexivity. Qed.

Lemma nth_error_map_sites (f : N -> site -> site) : forall l i n,
  nth_error (map_sites f i l) n = option_map (f (i + N.of_nat n)) (nth_error l n).
Proof.
  induction l as [|h t IH]; intros i n.
  - destruct n; reflexivity.
  - destruct n as [|n]; cbn [map_sites nth_error option_map].
    + f_equal. f_equal. lia.
    + rewrite IH. destruct (nth_error t n); cbn; [|reflexivity]. f_equal. f_equal. lia.
Qed.

Lemma in_enum_from {A} : forall (l : list A) k i x,
  In (i, x) (enum_from k l) <-> exists n, i = k + N.of_nat n /\ nth_error l n = Some x.
Proof.
  induction l as [|h t IH]; intros k i x; cbn [enum_from In].
  - split; [tauto|]. intros [n [_ H]]. destruct n; discriminate.
  - split.
    + intros [E|H].
      * inversion E; subst. exists 0%nat. split; [lia|reflexivity].
      * apply IH in H as [n [-> Hn]]. exists (S n). split; [lia|exact Hn].
    + intros [[|n] [-> Hn]].
      * left. cbn in Hn. inversion Hn. f_equal. lia.
      * right. apply IH. exists n. split; [lia|exact Hn].
Qed.

Lemma forall2_nth {A B} (R : A -> B -> Prop) : forall l l', Forall2 R l l' ->
  forall n, match nth_error l n, nth_error l' n with
            | Some a, Some b => R a b
            | None, None => True
            | _, _ => False
            end.
Proof.
  induction 1 as [|a b l l' Hab Hl IH]; intros [|n]; cbn; auto. apply IH.
Qed.

Lemma forall2_of_nth {A B} (R : A -> B -> Prop) : forall l l',
  (forall n, match nth_error l n, nth_error l' n with
             | Some a, Some b => R a b
             | None, None => True
             | _, _ => False
             end) -> Forall2 R l l'.
Proof.
  induction l as [|a l IH]; intros [|b l'] H.
  - constructor.
  - specialize (H 0%nat). cbn in H. tauto.
  - specialize (H 0%nat). cbn in H. tauto.
  - constructor.
    + exact (H 0%nat).
    + apply IH. intro n. exact (H (S n)).
Qed.

Lemma lookup_in {A} : forall (l : list (N * A)) k v, lookup k l = Some v -> exists v', In (k, v') l.
Proof.
  induction l as [|[k' v'] r IH]; cbn; intros k v H; [discriminate|].
  destruct (k =? k') eqn:E.
  - apply N.eqb_eq in E. subst. eauto.
  - apply IH in H as [w Hw]. eauto.
Qed.

(* ------------------------------------------------------------------ invariant and relation *)
Definition site_at (st : state) (sid : N) : option site := nth_error (sites st) (N.to_nat sid).

Definition mono_ok (st : state) (s : site) (p : N) : Prop :=
  forall e, cache_entry (cache st) (s_slot s) = Some e ->
    e_code e = p /\ gget st (s_idx s) = GPtr p /\
    exists o, hget st p = Some o /\ o_kind o <> KNat /\ e_clo e = is_clo o.

Definition native_ok (st : state) (s : site) (p : N) : Prop :=
  (s_slotted s = true \/ p <> 0) ->
  gget st (s_idx s) = GPtr p /\ exists o, hget st p = Some o /\ o_kind o = KNat.

(* what the model's cache and patched sites are allowed to contain *)
Definition uses_cache (s : site) : Prop := forall p, s_form s <> Native p.

Record cache_inv (st : state) : Prop := {
  inv_mono : forall sid s p, site_at st sid = Some s -> s_live s = true -> s_form s = Mono p -> mono_ok st s p;
  inv_native : forall sid s p, site_at st sid = Some s -> s_live s = true -> s_form s = Native p ->
               native_ok st s p;
  (* only sites emitted with a slot id hold opcode 77 or 78 *)
  inv_slotted : forall sid s, site_at st sid = Some s -> uses_cache s -> s_slotted s = true }.

Definition site_rel (a b : site) : Prop :=
  s_live a = s_live b /\ s_slotted a = s_slotted b /\ s_idx a = s_idx b /\
  (uses_cache a -> s_slot a = s_slot b).

(* the implementation state and the specification's state describe the same bindings,
   the same heap and the same sites *)
Definition view_rel (st sp : state) : Prop :=
  (forall i, gget st i = gget sp i) /\ (forall p, hget st p = hget sp p) /\
  Forall2 site_rel (sites st) (sites sp).

Lemma view_rel_resolve st sp i : view_rel st sp -> resolve st i = resolve sp i.
Proof. intros (Hg & Hh & _). unfold resolve. rewrite Hg. destruct (gget sp i); auto. rewrite Hh. reflexivity. Qed.

Lemma view_rel_site st sp sid : view_rel st sp ->
  match site_at st sid, site_at sp sid with
  | Some a, Some b => site_rel a b
  | None, None => True
  | _, _ => False
  end.
Proof. intros (_ & _ & Hs). apply (forall2_nth _ _ _ Hs). Qed.

(* ---- facts extracted from the boolean guards ---- *)
Lemma unique_slots_distinct sp : unique_slots sp = true ->
  forall i j a b, site_at sp i = Some a -> site_at sp j = Some b -> i <> j ->
    slot_user a = true -> slot_user b = true -> s_slot a <> s_slot b.
Proof.
  unfold unique_slots. intros H i j a b Ha Hb Hij Ua Ub.
  apply andb_true_iff in H as [H _].
  rewrite forallb_forall in H.
  assert (Ia : In (i, a) (enum_from 0 (sites sp))).
  { apply in_enum_from. exists (N.to_nat i). split; [lia|exact Ha]. }
  assert (Ib : In (j, b) (enum_from 0 (sites sp))).
  { apply in_enum_from. exists (N.to_nat j). split; [lia|exact Hb]. }
  specialize (H _ Ia). rewrite forallb_forall in H. specialize (H _ Ib). cbn [fst snd] in H.
  rewrite Ua, Ub in H. cbn in H.
  destruct (i =? j) eqn:E; [apply N.eqb_eq in E; contradiction|].
  cbn in H. apply negb_true_iff in H. apply N.eqb_neq in H. exact H.
Qed.

Lemma unique_slots_bound sp : unique_slots sp = true ->
  forall i a, site_at sp i = Some a -> slot_user a = true -> s_slot a < MAX_CALL_SITE_SLOTS.
Proof.
  unfold unique_slots. intros H i a Ha Ua. apply andb_true_iff in H as [_ H].
  rewrite forallb_forall in H. specialize (H a (nth_error_In _ _ Ha)). rewrite Ua in H. cbn in H.
  apply N.ltb_lt in H. exact H.
Qed.

Lemma not_bound_somewhere sp p : bound_somewhere sp p = false -> forall i, gget sp i <> GPtr p.
Proof.
  intros H i E. unfold bound_somewhere in H.
  assert (Hl : exists v, lookup i (globals sp) = Some v).
  { unfold gget in E. destruct (lookup i (globals sp)) eqn:L; [eauto|discriminate]. }
  destruct Hl as [v Hl]. apply lookup_in in Hl as [v' Hin].
  assert (C : existsb (fun kv => gval_is (gget sp (fst kv)) p) (globals sp) = true).
  { apply existsb_exists. exists (i, v'). split; [exact Hin|]. cbn. rewrite E. cbn. apply N.eqb_refl. }
  congruence.
Qed.

(* ------------------------------------------------------------------ one call *)
Lemma live_slot_user a : s_live a = true -> s_slotted a = true -> slot_user a = true.
Proof. unfold slot_user. intros -> ->. reflexivity. Qed.

(* the model's call agrees with the specification *)
Lemma call_correct st sp sid :
  cache_inv st -> view_rel st sp -> unique_slots sp = true -> event_ok sp (Call sid) = true ->
  same_callee (snd (call st sid)) (spec_call sp sid) = true.
Proof.
  intros I R U G.
  pose proof (view_rel_site st sp sid R) as Hs.
  unfold call, spec_call. fold (site_at st sid). fold (site_at sp sid).
  cbn [event_ok] in G. fold (site_at sp sid) in G.
  destruct (site_at st sid) as [a|] eqn:Ea; destruct (site_at sp sid) as [b|] eqn:Eb; try contradiction; [|reflexivity].
  destruct Hs as (Hl & Hsl & Hi & Hslot).
  rewrite <- Hl. destruct (s_live a) eqn:La; cbn [negb]; [|reflexivity].
  rewrite <- Hi. rewrite <- (view_rel_resolve st sp (s_idx a) R).
  rewrite <- Hl, <- Hsl, <- Hi, <- (view_rel_resolve st sp (s_idx a) R) in G. cbn [negb] in G.
  destruct (s_form a) as [|p|p] eqn:Fa.
  - (* 77 *)
    assert (Sa : s_slotted a = true) by (eapply inv_slotted; eauto; intros q; congruence).
    assert (Hb : s_slot a < MAX_CALL_SITE_SLOTS).
    { rewrite Hslot by (intros q; congruence).
      eapply unique_slots_bound; eauto. apply live_slot_user; congruence. }
    unfold op_call_global. destruct (resolve st (s_idx a)) as [q o| | |]; cbn; auto.
    destruct (o_kind o); cbn.
    + replace (MAX_CALL_SITE_SLOTS <=? s_slot a) with false by (symmetry; apply N.leb_gt; exact Hb).
      cbn. now rewrite !N.eqb_refl.
    + replace (MAX_CALL_SITE_SLOTS <=? s_slot a) with false by (symmetry; apply N.leb_gt; exact Hb).
      cbn. now rewrite !N.eqb_refl.
    + apply N.eqb_refl.
  - (* 78 *)
    assert (Sa : s_slotted a = true) by (eapply inv_slotted; eauto; intros q; congruence).
    pose proof (inv_mono st I sid a p Ea La Fa) as Hm.
    assert (Hb : s_slot a < MAX_CALL_SITE_SLOTS).
    { rewrite Hslot by (intros q; congruence).
      eapply unique_slots_bound; eauto. apply live_slot_user; congruence. }
    assert (Miss : same_callee (snd (mono_miss st sid a))
                     match resolve st (s_idx a) with
                     | ROk q o => match o_kind o with KNat => ONative q | _ => ORan q q end
                     | _ => OErr ENotCallable end = true).
    { unfold mono_miss. destruct (resolve st (s_idx a)) as [q o| | |]; cbn; auto.
      destruct (o_kind o); cbn;
        try (replace (MAX_CALL_SITE_SLOTS <=? s_slot a) with false by (symmetry; apply N.leb_gt; exact Hb));
        cbn; rewrite ?N.eqb_refl; auto. }
    unfold op_call_global_mono.
    destruct (negb (p =? 0) && (negb MONO_FAST_PATH_VALIDATES || gval_is (gget st (s_idx a)) p)); [|exact Miss].
    destruct (cache_entry (cache st) (s_slot a)) as [e|] eqn:Ce; [|exact Miss].
    destruct (Hm e Ce) as (Hc & Hg & o & Ho & Hk & Hclo).
    assert (Res : resolve st (s_idx a) = ROk p o) by (unfold resolve; rewrite Hg, Ho; reflexivity).
    rewrite Res. rewrite Hc, Ho.
    rewrite Hclo. unfold is_clo. destruct (o_kind o) eqn:K; cbn; rewrite ?N.eqb_refl; auto; congruence.
  - (* 104 *)
    pose proof (inv_native st I sid a p Ea La Fa) as Hn. unfold native_ok in Hn.
    unfold op_call_global_native.
    destruct (p =? 0) eqn:P0.
    + apply N.eqb_eq in P0. subst p.
      destruct (s_slotted a) eqn:Sa.
      * destruct Hn as (Hg & o & Ho & Hk); [now left|].
        unfold resolve. rewrite Hg, Ho, Hk. cbn. reflexivity.
      * cbn [orb] in G.
        destruct (resolve st (s_idx a)) as [q o| | |]; cbn; auto.
        destruct (o_kind o); cbn; try discriminate. apply N.eqb_refl.
    + apply N.eqb_neq in P0.
      destruct Hn as (Hg & o & Ho & Hk); [now right|].
      unfold resolve. rewrite Hg, Ho, Hk. cbn. apply N.eqb_refl.
Qed.

(* ------------------------------------------------------------------ effect of one call on the state *)
Lemma upd_site_at (sts : list site) (sid j : N) (f : site -> site) :
  nth_error (upd_nth (N.to_nat sid) f sts) (N.to_nat j) =
  if j =? sid then option_map f (nth_error sts (N.to_nat sid)) else nth_error sts (N.to_nat j).
Proof.
  destruct (j =? sid) eqn:E.
  - apply N.eqb_eq in E. subst. apply nth_error_upd_same.
  - apply N.eqb_neq in E. apply nth_error_upd_other. intro H. apply E. symmetry. now apply N2Nat.inj.
Qed.

Inductive call_effect (st : state) (sid : N) (st' : state) : Prop :=
| CE_same : st' = st -> call_effect st sid st'
| CE_native a q o :
    site_at st sid = Some a -> s_live a = true -> resolve st (s_idx a) = ROk q o -> o_kind o = KNat ->
    st' = with_site st sid (set_form (Native q)) -> call_effect st sid st'
| CE_fill a q o :
    site_at st sid = Some a -> s_live a = true -> uses_cache a ->
    resolve st (s_idx a) = ROk q o -> o_kind o <> KNat ->
    st' = fill st sid a q (is_clo o) -> call_effect st sid st'.

Lemma call_effect_of st sid : call_effect st sid (fst (call st sid)).
Proof.
  unfold call. fold (site_at st sid).
  destruct (site_at st sid) as [a|] eqn:Ea; [|now apply CE_same].
  destruct (s_live a) eqn:La; cbn [negb]; [|now apply CE_same].
  destruct (s_form a) as [|p|p] eqn:Fa.
  - unfold op_call_global.
    destruct (resolve st (s_idx a)) as [q o| | |] eqn:R; try (now apply CE_same).
    destruct (o_kind o) eqn:K.
    + destruct (MAX_CALL_SITE_SLOTS <=? s_slot a); [now apply CE_same|].
      eapply CE_fill; eauto; [intros x; congruence|congruence].
    + destruct (MAX_CALL_SITE_SLOTS <=? s_slot a); [now apply CE_same|].
      eapply CE_fill; eauto; [intros x; congruence|congruence].
    + eapply CE_native; eauto.
  - assert (M : call_effect st sid (fst (mono_miss st sid a))).
    { unfold mono_miss.
      destruct (resolve st (s_idx a)) as [q o| | |] eqn:R; try (now apply CE_same).
      destruct (o_kind o) eqn:K.
      + destruct (MAX_CALL_SITE_SLOTS <=? s_slot a); [now apply CE_same|].
        eapply CE_fill; eauto; [intros x; congruence|congruence].
      + destruct (MAX_CALL_SITE_SLOTS <=? s_slot a); [now apply CE_same|].
        eapply CE_fill; eauto; [intros x; congruence|congruence].
      + now apply CE_same. }
    unfold op_call_global_mono.
    destruct (negb (p =? 0) && (negb MONO_FAST_PATH_VALIDATES || gval_is (gget st (s_idx a)) p)); [|exact M].
    destruct (cache_entry (cache st) (s_slot a)) as [e|]; [|exact M].
    destruct (e_clo e).
    + destruct (hget st p) as [o|]; [|now apply CE_same]. destruct (is_clo o); now apply CE_same.
    + now apply CE_same.
  - unfold op_call_global_native.
    destruct (p =? 0).
    + destruct (resolve st (s_idx a)) as [q o| | |] eqn:R; try (now apply CE_same).
      destruct (o_kind o) eqn:K; try (now apply CE_same). eapply CE_native; eauto.
    + destruct (hget st p) as [o|]; [|now apply CE_same]. destruct (o_kind o); now apply CE_same.
Qed.

Lemma resolve_ok_inv st i q o : resolve st i = ROk q o -> gget st i = GPtr q /\ hget st q = Some o.
Proof.
  unfold resolve. destruct (gget st i) as [| |p]; try discriminate.
  destruct (hget st p) as [o'|] eqn:H; [|discriminate]. intro E. inversion E; subst. auto.
Qed.

Lemma site_rel_set_form_native a b q : site_rel a b -> site_rel (set_form (Native q) a) b.
Proof.
  intros (H1 & H2 & H3 & _). repeat split; auto. intro U. exfalso. apply (U q). reflexivity.
Qed.

Lemma site_rel_set_form_mono a b q : site_rel a b -> uses_cache a -> site_rel (set_form (Mono q) a) b.
Proof. intros (H1 & H2 & H3 & H4) U. repeat split; auto. Qed.

(* sites of the specification never carry a patched form *)
Definition spec_sites_ok (sp : state) : Prop :=
  forall sid b, site_at sp sid = Some b -> s_slotted b = true -> uses_cache b.

Lemma view_rel_upd st sp sid f st' :
  view_rel st sp -> globals st' = globals st -> heap st' = heap st ->
  sites st' = upd_nth (N.to_nat sid) f (sites st) ->
  (forall a b, site_at st sid = Some a -> site_at sp sid = Some b -> site_rel a b -> site_rel (f a) b) ->
  view_rel st' sp.
Proof.
  intros (Hg & Hh & Hs) Eg Eh Es Hf. repeat split.
  - intro i. unfold gget. rewrite Eg. apply Hg.
  - intro p. unfold hget. rewrite Eh. apply Hh.
  - rewrite Es. apply forall2_of_nth. intro n.
    pose proof (forall2_nth _ _ _ Hs n) as Hn.
    destruct (Nat.eq_dec (N.to_nat sid) n) as [E|E].
    + subst n. rewrite nth_error_upd_same.
      unfold site_at in Hf.
      destruct (nth_error (sites st) (N.to_nat sid)) as [a|]; destruct (nth_error (sites sp) (N.to_nat sid)) as [b|]; cbn; auto.
    + rewrite nth_error_upd_other by exact E. exact Hn.
Qed.

Lemma step_call_preserves st sp sid :
  cache_inv st -> view_rel st sp -> unique_slots sp = true ->
  cache_inv (fst (call st sid)) /\ view_rel (fst (call st sid)) sp.
Proof.
  intros I R U.
  destruct (call_effect_of st sid) as [E | a q o Ea La Res K E | a q o Ea La Ua Res K E]; rewrite E; clear E.
  - auto.
  - (* patched to 104 *)
    destruct (resolve_ok_inv _ _ _ _ Res) as [Hg Hh].
    split.
    + assert (SA : forall j, site_at (with_site st sid (set_form (Native q))) j =
                    if j =? sid then option_map (set_form (Native q)) (site_at st sid) else site_at st j).
      { intro j. unfold site_at, with_site. cbn [sites]. apply upd_site_at. }
      constructor.
      * intros j s p Hj Lj Fj. rewrite SA in Hj. destruct (j =? sid) eqn:Ej.
        -- rewrite Ea in Hj. cbn in Hj. inversion Hj; subst s. cbn in Fj. discriminate.
        -- exact (inv_mono st I j s p Hj Lj Fj).
      * intros j s p Hj Lj Fj. rewrite SA in Hj. destruct (j =? sid) eqn:Ej.
        -- rewrite Ea in Hj. cbn in Hj. inversion Hj; subst s. cbn in Fj. inversion Fj; subst p.
           intros _. cbn [s_idx set_form]. split; [exact Hg|]. exists o. split; [exact Hh|exact K].
        -- exact (inv_native st I j s p Hj Lj Fj).
      * intros j s Hj Fj. rewrite SA in Hj. destruct (j =? sid) eqn:Ej.
        -- rewrite Ea in Hj. cbn in Hj. inversion Hj; subst s. exfalso. apply (Fj q). reflexivity.
        -- exact (inv_slotted st I j s Hj Fj).
    + eapply view_rel_upd; eauto; try reflexivity.
      intros a' b _ _ Hab. now apply site_rel_set_form_native.
  - (* cache filled, patched to 78 *)
    destruct (resolve_ok_inv _ _ _ _ Res) as [Hg Hh].
    assert (Sa : s_slotted a = true) by (eapply inv_slotted; eauto).
    pose proof (view_rel_site st sp sid R) as Hsid. rewrite Ea in Hsid.
    destruct (site_at sp sid) as [b|] eqn:Eb; [|contradiction].
    split.
    + assert (SA : forall j, site_at (fill st sid a q (is_clo o)) j =
                    if j =? sid then option_map (set_form (Mono q)) (site_at st sid) else site_at st j).
      { intro j. unfold site_at, fill. cbn [sites]. apply upd_site_at. }
      constructor.
      * intros j s p Hj Lj Fj. rewrite SA in Hj. destruct (j =? sid) eqn:Ej.
        -- rewrite Ea in Hj. cbn in Hj. inversion Hj; subst s. cbn in Fj. inversion Fj; subst p.
           intros e He. unfold fill in He. cbn [cache s_slot set_form] in He.
           rewrite cache_entry_set_same in He. inversion He; subst e. cbn [e_code e_clo].
           split; [reflexivity|]. split; [exact Hg|]. exists o. auto.
        -- apply N.eqb_neq in Ej.
           pose proof (inv_mono st I j s p Hj Lj Fj) as M.
           assert (S : s_slotted s = true) by (eapply inv_slotted; eauto; intros x; congruence).
           (* a different live slotted site has a different slot *)
           pose proof (view_rel_site st sp j R) as Hjr. rewrite Hj in Hjr.
           destruct (site_at sp j) as [bj|] eqn:Ebj; [|contradiction].
           destruct Hjr as (L1 & S1 & _ & Sl1). destruct Hsid as (L2 & S2 & _ & Sl2).
           assert (Ne : s_slot s <> s_slot a).
           { rewrite Sl1 by (intros x; congruence). rewrite Sl2 by exact Ua.
             eapply unique_slots_distinct; eauto; apply live_slot_user; congruence. }
           intros e He. unfold fill in He. cbn [cache] in He.
           rewrite cache_entry_set_other in He by congruence.
           exact (M e He).
      * intros j s p Hj Lj Fj. rewrite SA in Hj. destruct (j =? sid) eqn:Ej.
        -- rewrite Ea in Hj. cbn in Hj. inversion Hj; subst s. cbn in Fj. discriminate.
        -- exact (inv_native st I j s p Hj Lj Fj).
      * intros j s Hj Fj. rewrite SA in Hj. destruct (j =? sid) eqn:Ej.
        -- rewrite Ea in Hj. cbn in Hj. inversion Hj; subst s. exact Sa.
        -- exact (inv_slotted st I j s Hj Fj).
    + eapply view_rel_upd; eauto; try reflexivity.
      intros a' b' Ha' _ Hab. rewrite Ea in Ha'. inversion Ha'; subst a'. now apply site_rel_set_form_mono.
Qed.

(* ------------------------------------------------------------------ the other events *)
Lemma clears_cache : SET_GLOBAL_CLEARS_CACHE = true.
Proof. reflexivity. Qed.

Lemma lookup_freed (freed : list N) (h : list (N * option obj)) q :
  lookup q (map (fun p => (p, None)) freed ++ h) = if memb q freed then Some None else lookup q h.
Proof.
  induction freed as [|p r IH]; cbn; [reflexivity|].
  destruct (q =? p); cbn; [reflexivity|exact IH].
Qed.

Lemma site_at_map_sites st' st f j :
  sites st' = map_sites f 0 (sites st) -> site_at st' j = option_map (f j) (site_at st j).
Proof.
  intro E. unfold site_at. rewrite E, nth_error_map_sites.
  replace (0 + N.of_nat (N.to_nat j)) with j by lia. reflexivity.
Qed.

Lemma site_rel_refl s : site_rel s s.
Proof. repeat split; auto. Qed.

Lemma cache_inv_transport st st' :
  cache_inv st ->
  (forall j s', site_at st' j = Some s' -> uses_cache s' -> s_slotted s' = true) ->
  (forall j s' p, site_at st' j = Some s' -> s_live s' = true -> s_form s' = Mono p ->
     exists s, site_at st j = Some s /\ s_live s = true /\ s_form s = Mono p /\ s_slot s = s_slot s' /\ s_idx s = s_idx s') ->
  (forall j s' p, site_at st' j = Some s' -> s_live s' = true -> s_form s' = Native p ->
     (exists s, site_at st j = Some s /\ s_live s = true /\ s_form s = Native p /\ s_slotted s = s_slotted s' /\ s_idx s = s_idx s')
     \/ (p = 0 /\ s_slotted s' = false)) ->
  (forall s p, mono_ok st s p -> mono_ok st' s p) ->
  (forall s p, native_ok st s p -> native_ok st' s p) ->
  cache_inv st'.
Proof.
  intros I H1 H2 H3 HM HN. constructor.
  - intros j s' p Hj Lj Fj. destruct (H2 j s' p Hj Lj Fj) as (s & Hs & Ls & Fs & Es & Ix).
    pose proof (HM _ _ (inv_mono st I j s p Hs Ls Fs)) as M.
    unfold mono_ok in *. rewrite <- Es, <- Ix. exact M.
  - intros j s' p Hj Lj Fj. destruct (H3 j s' p Hj Lj Fj) as [(s & Hs & Ls & Fs & Sl & Ix)|[-> Sf]].
    + pose proof (HN _ _ (inv_native st I j s p Hs Ls Fs)) as M.
      unfold native_ok in *. rewrite <- Sl, <- Ix. exact M.
    + intros [H|H]; congruence.
  - exact H1.
Qed.

Lemma native_bound_rel st sp i : view_rel st sp -> native_bound st i = native_bound sp i.
Proof. intro R. unfold native_bound. now rewrite (view_rel_resolve st sp i R). Qed.

(* same sites: the three site obligations of the transport lemma *)
Lemma transport_same_sites st st' :
  cache_inv st -> sites st' = sites st ->
  (forall j s', site_at st' j = Some s' -> uses_cache s' -> s_slotted s' = true) /\
  (forall j s' p, site_at st' j = Some s' -> s_live s' = true -> s_form s' = Mono p ->
     exists s, site_at st j = Some s /\ s_live s = true /\ s_form s = Mono p /\ s_slot s = s_slot s' /\ s_idx s = s_idx s') /\
  (forall j s' p, site_at st' j = Some s' -> s_live s' = true -> s_form s' = Native p ->
     (exists s, site_at st j = Some s /\ s_live s = true /\ s_form s = Native p /\ s_slotted s = s_slotted s' /\ s_idx s = s_idx s')
     \/ (p = 0 /\ s_slotted s' = false)).
Proof.
  intros I E. unfold site_at. rewrite E. repeat split.
  - intros j s' Hj U. eapply inv_slotted; eauto.
  - intros j s' p Hj Lj Fj. exists s'. auto.
  - intros j s' p Hj Lj Fj. left. exists s'. auto.
Qed.

Lemma step_other_preserves st sp ev :
  (forall sid, ev <> Call sid) ->
  cache_inv st -> view_rel st sp -> spec_sites_ok sp -> event_ok sp ev = true ->
  cache_inv (fst (step st ev)) /\ view_rel (fst (step st ev)) (fst (step sp ev)) /\ spec_sites_ok (fst (step sp ev)).
Proof.
  intros NC I R SS G. pose proof R as (Rg & Rh & Rs).
  destruct ev as [sid|idx v|p o|ds base|sids|sids|freed]; [exfalso; eapply NC; reflexivity| | | | | |]; cbn [step fst].
  - (* SetGlobal *)
    rewrite clears_cache. cbn [event_ok] in G. apply negb_true_iff in G.
    rewrite <- (native_bound_rel st sp idx R) in G.
    split; [|split].
    + destruct (transport_same_sites st (mkState ((idx, v) :: globals st) (heap st) [] (sites st)) I eq_refl) as (T1 & T2 & T3).
      eapply cache_inv_transport; eauto.
      * intros s p _ e He. cbn [cache] in He. rewrite cache_entry_nil in He. discriminate.
      * intros s p Hn Hp. destruct (Hn Hp) as (Hg & o & Ho & Hk).
        assert (Ne : (s_idx s =? idx) = false).
        { apply N.eqb_neq. intro E. subst idx. unfold native_bound, resolve in G. rewrite Hg, Ho, Hk in G. discriminate. }
        split.
        -- unfold gget in *. cbn [globals lookup]. rewrite Ne. exact Hg.
        -- exists o. split; [exact Ho|exact Hk].
    + repeat split.
      * intro i. specialize (Rg i). unfold gget in *. cbn [globals lookup]. destruct (i =? idx); [reflexivity|exact Rg].
      * exact Rh.
      * exact Rs.
    + exact SS.
  - (* Alloc *)
    cbn [event_ok] in G. destruct (hget sp p) eqn:Hp; [discriminate|]. rewrite <- Rh in Hp.
    assert (HK : forall q o', hget st q = Some o' ->
                 hget (mkState (globals st) ((p, Some o) :: heap st) (cache st) (sites st)) q = Some o').
    { intros q o' Ho. unfold hget in *. cbn [heap lookup].
      destruct (q =? p) eqn:E; [apply N.eqb_eq in E; subst q; congruence|exact Ho]. }
    split; [|split].
    + destruct (transport_same_sites st (mkState (globals st) ((p, Some o) :: heap st) (cache st) (sites st)) I eq_refl) as (T1 & T2 & T3).
      eapply cache_inv_transport; eauto.
      * intros s q Hm e He. cbn [cache] in He. destruct (Hm e He) as (Hc & Hg & o' & Ho & Hk & Hcl).
        split; [exact Hc|]. split; [exact Hg|]. exists o'. split; [apply HK; exact Ho|auto].
      * intros s q Hn Hq. destruct (Hn Hq) as (Hg & o' & Ho & Hk). split; [exact Hg|]. exists o'. split; [apply HK; exact Ho|exact Hk].
    + repeat split.
      * exact Rg.
      * intro q. specialize (Rh q). unfold hget in *. cbn [heap lookup]. destruct (q =? p); [reflexivity|exact Rh].
      * exact Rs.
    + exact SS.
  - (* NewUnit *)
    assert (NEW : forall (sts : list site) j s', nth_error (sts ++ map (site_of_decl base) ds) (N.to_nat j) = Some s' ->
              nth_error sts (N.to_nat j) = Some s' \/
              (nth_error sts (N.to_nat j) = None /\ exists d, s' = site_of_decl base d)).
    { intros sts j s' Hj. destruct (nth_error sts (N.to_nat j)) as [s|] eqn:Es.
      - left. rewrite nth_error_app1 in Hj by (apply nth_error_Some; congruence). congruence.
      - right. split; [reflexivity|]. apply nth_error_None in Es. rewrite nth_error_app2 in Hj by exact Es.
        apply nth_error_In in Hj. apply in_map_iff in Hj as (d & Hd & _). eauto. }
    split; [|split].
    + eapply cache_inv_transport; eauto.
      * intros j s' Hj Us. destruct (NEW _ _ _ Hj) as [H|(_ & d & ->)].
        -- eapply inv_slotted; eauto.
        -- unfold site_of_decl in *. cbn in *. destruct (d_native d); cbn in *; [exfalso; apply (Us 0); reflexivity|reflexivity].
      * intros j s' p Hj Lj Fj. destruct (NEW _ _ _ Hj) as [H|(_ & d & ->)].
        -- exists s'. auto.
        -- unfold site_of_decl in Fj. cbn in Fj. destruct (d_native d); discriminate.
      * intros j s' p Hj Lj Fj. destruct (NEW _ _ _ Hj) as [H|(_ & d & ->)].
        -- left. exists s'. auto.
        -- right. unfold site_of_decl in *. cbn in *. destruct (d_native d); cbn in *; [|discriminate].
           inversion Fj. auto.
    + repeat split; auto. cbn [sites]. apply Forall2_app; [exact Rs|].
      clear. induction ds; cbn; constructor; auto. apply site_rel_refl.
    + intros j b Hj Sb. destruct (NEW _ _ _ Hj) as [H|(_ & d & ->)].
      * eapply SS; eauto.
      * unfold site_of_decl in *. cbn in *. destruct (d_native d); cbn in *; [discriminate|]. intros x; discriminate.
  - (* Retire *)
    set (f := fun (i : N) (s : site) => if memb i sids then mkSite false (s_slotted s) (s_form s) (s_slot s) (s_idx s) else s).
    assert (FS : forall (stt : state) j s', option_map (f j) (site_at stt j) = Some s' ->
               exists s, site_at stt j = Some s /\ s_slotted s' = s_slotted s /\ s_form s' = s_form s /\ s_slot s' = s_slot s /\
                         s_idx s' = s_idx s /\ (s_live s' = true -> s_live s = true)).
    { intros stt j s' H. destruct (site_at stt j) as [s|]; [|discriminate]. cbn in H. inversion H as [E]. clear H.
      exists s. unfold f. destruct (memb j sids); cbn; repeat split; auto. discriminate. }
    split; [|split].
    + eapply cache_inv_transport; eauto.
      * intros j s' Hj Us. erewrite site_at_map_sites in Hj by reflexivity.
        destruct (FS _ _ _ Hj) as (s & Hs & E1 & E2 & E3 & E4 & E5). rewrite E1.
        eapply inv_slotted; eauto. intros x. rewrite <- E2. apply Us.
      * intros j s' p Hj Lj Fj. erewrite site_at_map_sites in Hj by reflexivity.
        destruct (FS _ _ _ Hj) as (s & Hs & E1 & E2 & E3 & E4 & E5). exists s. repeat split; auto; congruence.
      * intros j s' p Hj Lj Fj. erewrite site_at_map_sites in Hj by reflexivity.
        destruct (FS _ _ _ Hj) as (s & Hs & E1 & E2 & E3 & E4 & E5). left. exists s. repeat split; auto; congruence.
    + repeat split; auto. cbn [sites]. apply forall2_of_nth. intro n.
      rewrite !nth_error_map_sites. pose proof (forall2_nth _ _ _ Rs n) as Hn.
      destruct (nth_error (sites st) n) as [a|]; destruct (nth_error (sites sp) n) as [b|]; cbn; auto.
      unfold f. destruct (memb (0 + N.of_nat n) sids); [|exact Hn].
      destruct Hn as (H1 & H2 & H3 & H4). repeat split; auto.
    + intros j b Hj Sb. erewrite site_at_map_sites in Hj by reflexivity.
      destruct (FS _ _ _ Hj) as (s & Hs & E1 & E2 & E3 & E4 & E5).
      intros x. rewrite E2. eapply SS; eauto; congruence.
  - (* SaveReload *)
    set (f := fun (i : N) (s : site) => if memb i sids then reload_site s else s).
    split; [|split].
    + eapply cache_inv_transport; eauto.
      * intros j s' Hj Us. erewrite site_at_map_sites in Hj by reflexivity.
        destruct (site_at st j) as [s|] eqn:Es; [|discriminate]. cbn in Hj. inversion Hj as [E]. clear Hj.
        unfold f, reload_site in *. destruct (memb j sids); [|subst s'; eapply inv_slotted; eauto].
        destruct (s_form s) as [|p|p] eqn:Fs; subst s'; cbn in *.
        -- eapply inv_slotted; eauto. intros x. congruence.
        -- eapply inv_slotted; eauto. intros x. congruence.
        -- eapply inv_slotted; eauto.
      * intros j s' p Hj Lj Fj. erewrite site_at_map_sites in Hj by reflexivity.
        destruct (site_at st j) as [s|] eqn:Es; [|discriminate]. cbn in Hj. inversion Hj as [E]. clear Hj.
        unfold f, reload_site in *. destruct (memb j sids); [|subst s'; exists s; auto].
        destruct (s_form s) as [|q|q] eqn:Fs; subst s'; cbn in *; try discriminate. congruence.
      * intros j s' p Hj Lj Fj. erewrite site_at_map_sites in Hj by reflexivity.
        destruct (site_at st j) as [s|] eqn:Es; [|discriminate]. cbn in Hj. inversion Hj as [E]. clear Hj.
        unfold f, reload_site in *. destruct (memb j sids); [|subst s'; left; exists s; auto].
        destruct (s_form s) as [|q|q] eqn:Fs; subst s'; cbn in *; try discriminate.
        left. exists s. auto.
    + repeat split; auto. cbn [sites]. apply forall2_of_nth. intro n.
      rewrite !nth_error_map_sites. pose proof (forall2_nth _ _ _ Rs n) as Hn.
      destruct (nth_error (sites st) n) as [a|] eqn:Ea; destruct (nth_error (sites sp) n) as [b|] eqn:Eb; cbn; auto.
      unfold f. destruct (memb (0 + N.of_nat n) sids); [|exact Hn].
      destruct Hn as (H1 & H2 & H3 & H4).
      assert (Sa : uses_cache a -> s_slotted a = true).
      { intro Ua. apply (inv_slotted st I (N.of_nat n) a); [unfold site_at; now rewrite Nat2N.id|exact Ua]. }
      assert (Ub : s_slotted b = true -> uses_cache b).
      { intro Sb. apply (SS (N.of_nat n) b); [unfold site_at; now rewrite Nat2N.id|exact Sb]. }
      unfold reload_site.
      destruct (s_form a) as [|q|q] eqn:Fa.
      * assert (Sb : s_slotted b = true) by (rewrite <- H2; apply Sa; intros x; congruence).
        destruct (s_form b) as [|q'|q'] eqn:Fb; cbn; repeat split; auto.
        exfalso. apply (Ub Sb q'). exact Fb.
      * assert (Sb : s_slotted b = true) by (rewrite <- H2; apply Sa; intros x; congruence).
        destruct (s_form b) as [|q'|q'] eqn:Fb; cbn; repeat split; auto.
        exfalso. apply (Ub Sb q'). exact Fb.
      * destruct (s_form b) as [|q'|q'] eqn:Fb; cbn; repeat split; auto;
          intros Ua; exfalso; apply (Ua q); exact Fa.
    + intros j b Hj Sb. erewrite site_at_map_sites in Hj by reflexivity.
      destruct (site_at sp j) as [s|] eqn:Es; [|discriminate]. cbn in Hj. inversion Hj as [E]. clear Hj.
      unfold f, reload_site in *. destruct (memb j sids); [|subst b; eapply SS; eauto].
      destruct (s_form s) as [|q|q] eqn:Fs; subst b; cbn in *; try (intros x; discriminate).
      eapply SS; eauto.
  - (* Collect *)
    cbn [event_ok] in G. rewrite forallb_forall in G.
    assert (NB : forall q i, gget st i = GPtr q -> memb q freed = false).
    { intros q i Hg. destruct (memb q freed) eqn:M; [|reflexivity]. exfalso.
      unfold memb in M. apply existsb_exists in M as (x & Hx & E). apply N.eqb_eq in E. subst x.
      specialize (G q Hx). apply negb_true_iff in G.
      apply (not_bound_somewhere sp q G i). rewrite <- Rg. exact Hg. }
    assert (HK : forall (stt : state) q, hget (mkState (globals stt) (map (fun p => (p, None)) freed ++ heap stt) (cache stt) (sites stt)) q
                          = if memb q freed then None else hget stt q).
    { intros stt q. unfold hget. cbn [heap]. rewrite lookup_freed. destruct (memb q freed); reflexivity. }
    split; [|split].
    + destruct (transport_same_sites st (mkState (globals st) (map (fun p => (p, None)) freed ++ heap st) (cache st) (sites st)) I eq_refl) as (T1 & T2 & T3).
      eapply cache_inv_transport; eauto.
      * intros s q Hm e He. cbn [cache] in He. destruct (Hm e He) as (Hc & Hg & o' & Ho & Hk & Hcl).
        split; [exact Hc|]. split; [exact Hg|]. exists o'. split; [|auto].
        rewrite HK. rewrite (NB q _ Hg). exact Ho.
      * intros s q Hn Hq. destruct (Hn Hq) as (Hg & o' & Ho & Hk). split; [exact Hg|]. exists o'. split; [|exact Hk].
        rewrite HK. rewrite (NB q _ Hg). exact Ho.
    + repeat split.
      * exact Rg.
      * intro q. rewrite !HK. rewrite Rh. reflexivity.
      * exact Rs.
    + exact SS.
Qed.

(* ------------------------------------------------------------------ histories *)
Definition agree (a b : outcome) : Prop := same_callee a b = true.

Lemma run_cons stp st e r : run stp st (e :: r) = snd (stp st e) :: run stp (fst (stp st e)) r.
Proof. cbn [run]. destruct (stp st e); reflexivity. Qed.

Lemma step_noncall_outcome st ev : (forall sid, ev <> Call sid) -> snd (step st ev) = ONone.
Proof. intro NC. destruct ev; try reflexivity. exfalso. eapply NC. reflexivity. Qed.

Theorem run_agrees : forall h st sp,
  cache_inv st -> view_rel st sp -> spec_sites_ok sp -> hist_ok sp h = true ->
  Forall2 agree (run step st h) (run spec_step sp h).
Proof.
  induction h as [|e r IH]; intros st sp I R SS H; [constructor|].
  cbn [hist_ok] in H. apply andb_true_iff in H as [H Hr]. apply andb_true_iff in H as [U G].
  rewrite !run_cons.
  destruct e as [sid|idx v|p o|ds base|sids|sids|freed].
  1: { cbn [step spec_step fst snd] in *. constructor.
       - apply call_correct; auto.
       - destruct (step_call_preserves st sp sid I R U) as [I' R']. apply IH; auto. }
  all: match goal with |- Forall2 _ (snd (step ?s ?ev) :: _) _ =>
         assert (NC : forall sid, ev <> Call sid) by (intros sid; discriminate);
         destruct (step_other_preserves st sp ev NC I R SS G) as (I' & R' & SS');
         constructor; [ rewrite step_noncall_outcome by exact NC; reflexivity
                      | apply IH; auto ]
       end.
Qed.

Lemma init_inv : cache_inv init.
Proof.
  constructor; intros sid s; unfold site_at, init; cbn; destruct (N.to_nat sid); discriminate.
Qed.

Lemma init_rel : view_rel init init.
Proof. repeat split; constructor. Qed.

Lemma init_spec_ok : spec_sites_ok init.
Proof. intros sid b; unfold site_at, init; cbn; destruct (N.to_nat sid); discriminate. Qed.

Theorem run_agrees_from_init : forall h, hist_ok init h = true ->
  Forall2 agree (run step init h) (run spec_step init h).
Proof. intros h H. apply run_agrees; auto using init_inv, init_rel, init_spec_ok. Qed.

(* per call: the k-th event of the history, when it is a call, enters the specified callee *)
Lemma forall2_nth_agree : forall l l', Forall2 agree l l' ->
  forall k a b, nth_error l k = Some a -> nth_error l' k = Some b -> agree a b.
Proof.
  intros l l' H k a b Ha Hb. pose proof (forall2_nth _ _ _ H k) as Hk. rewrite Ha, Hb in Hk. exact Hk.
Qed.

(* ------------------------------------------------------------------ invalidation *)
Lemma invalidate_on_set : forall st idx v sid s,
  let st' := fst (step st (SetGlobal idx v)) in
  site_at st' sid = Some s -> uses_cache s -> s_slot s < MAX_CALL_SITE_SLOTS ->
  agree (snd (call st' sid)) (spec_call st' sid).
Proof.
  intros st idx v sid s st' Hs Us Hb. unfold agree, call, spec_call. fold (site_at st' sid). rewrite Hs.
  destruct (s_live s); cbn [negb]; [|reflexivity].
  assert (Hb' : (MAX_CALL_SITE_SLOTS <=? s_slot s) = false) by (apply N.leb_gt; exact Hb).
  destruct (s_form s) as [|p|p] eqn:Fs.
  - unfold op_call_global. destruct (resolve st' (s_idx s)) as [q o| | |]; cbn; auto.
    destruct (o_kind o); rewrite ?Hb'; cbn; rewrite ?N.eqb_refl; reflexivity.
  - unfold op_call_global_mono.
    assert (C : cache_entry (cache st') (s_slot s) = None).
    { unfold st'. cbn [step fst cache]. rewrite clears_cache. apply cache_entry_nil. }
    rewrite C.
    assert (M : same_callee (snd (mono_miss st' sid s))
                  match resolve st' (s_idx s) with
                  | ROk q o => match o_kind o with KNat => ONative q | _ => ORan q q end
                  | _ => OErr ENotCallable end = true).
    { unfold mono_miss. destruct (resolve st' (s_idx s)) as [q o| | |]; cbn; auto.
      destruct (o_kind o); rewrite ?Hb'; cbn; rewrite ?N.eqb_refl; reflexivity. }
    destruct (negb (p =? 0) && (negb MONO_FAST_PATH_VALIDATES || gval_is (gget st' (s_idx s)) p)); exact M.
  - exfalso. apply (Us p). exact Fs.
Qed.

(* ------------------------------------------------------------------ refutation plumbing *)
Fixpoint all_agree (a b : list outcome) : bool :=
  match a, b with
  | [], [] => true
  | x :: a', y :: b' => same_callee x y && all_agree a' b'
  | _, _ => false
  end.

Lemma forall2_all_agree a b : Forall2 agree a b -> all_agree a b = true.
Proof. induction 1 as [|x y a b Hxy _ IH]; cbn; [reflexivity|]. unfold agree in Hxy. now rewrite Hxy, IH. Qed.

Lemma not_agree a b : all_agree a b = false -> ~ Forall2 agree a b.
Proof. intros H F. apply forall2_all_agree in F. congruence. Qed.

Lemma repl_base_zero : forall st, repl_slot_base st = 0.
Proof. intro st. reflexivity. Qed.

(* ---- witnesses (names: ha=0 hb=1 a=2 b=3; heap indices 10..13; tags 20..23) ---- *)
Definition defs_ha_hb : list event :=
  [Alloc 10 (mkObj KFn 20 []); SetGlobal 0 (GPtr 10); Alloc 11 (mkObj KFn 21 []); SetGlobal 1 (GPtr 11)].

(* REPL session: `fn ha.. fn hb..` | `fn a(){ha()}` | `fn b(){hb()}` | `a()` | `b()` | `a()`;
   every input is a unit whose slot ids start at repl_slot_base = 0 *)
Definition repl_session : list (list event) :=
  [ NewUnit [] 0 :: defs_ha_hb;
    [NewUnit [mkDecl false 0 0] 0; Alloc 12 (mkObj KFn 22 [0]); SetGlobal 2 (GPtr 12)];
    [NewUnit [mkDecl false 0 1] 0; Alloc 13 (mkObj KFn 23 [1]); SetGlobal 3 (GPtr 13)];
    [NewUnit [mkDecl false 0 2] 0; Call 2; Retire [2]];
    [NewUnit [mkDecl false 0 3] 0; Call 3; Retire [3]];
    [NewUnit [mkDecl false 0 2] 0; Call 4; Retire [4]] ].

(* the same session as a flat history, with the calls made by the bodies written out *)
Definition repl_history : list event :=
  (NewUnit [] 0 :: defs_ha_hb) ++
  [NewUnit [mkDecl false 0 0] 0; Alloc 12 (mkObj KFn 22 [0]); SetGlobal 2 (GPtr 12);
   NewUnit [mkDecl false 0 1] 0; Alloc 13 (mkObj KFn 23 [1]); SetGlobal 3 (GPtr 13);
   NewUnit [mkDecl false 0 2] 0; Call 2; Call 0; Retire [2];
   NewUnit [mkDecl false 0 3] 0; Call 3; Call 1; Retire [3];
   NewUnit [mkDecl false 0 2] 0; Call 4; Call 0].

(* one program: fn ha, hb, a(){ha()}, b(){hb()}; a(); b(); a()  -- sites: 0 = a's body (slot 0),
   1 = b's body (slot 1), 2,3,4 = top level (slots 2,3,4) *)
Definition program_unit : list event :=
  defs_ha_hb ++
  [NewUnit [mkDecl false 0 0; mkDecl false 1 1; mkDecl false 2 2; mkDecl false 3 3; mkDecl false 4 2] 0;
   Alloc 12 (mkObj KFn 22 [0]); SetGlobal 2 (GPtr 12); Alloc 13 (mkObj KFn 23 [1]); SetGlobal 3 (GPtr 13)].
Definition program_calls : list event := [Call 2; Call 0; Call 3; Call 1; Call 4; Call 0].
Definition program_session (reload : bool) : list (list event) :=
  [program_unit ++ (if reload then [SaveReload [0; 1; 2; 3; 4]] else []) ++ [Call 2; Call 3; Call 4]].

(* `let mut t = abs; fn go(){ t() }; go(); t = floor; go()` -- names: abs=0 floor=1 t=2 go=3;
   natives at heap 58, 75; go at 12; sites: 0 = go's body (t, emitted 77, slot 0), 1,2 = top level *)
Definition native_history : list event :=
  [Alloc 58 (mkObj KNat 1 []); SetGlobal 0 (GPtr 58); Alloc 75 (mkObj KNat 2 []); SetGlobal 1 (GPtr 75);
   NewUnit [mkDecl false 0 2; mkDecl false 1 3; mkDecl false 2 3] 0;
   SetGlobal 2 (GPtr 58); Alloc 12 (mkObj KFn 22 [0]); SetGlobal 3 (GPtr 12);
   Call 1; Call 0; SetGlobal 2 (GPtr 75); Call 2; Call 0].

Lemma repl_refuted : ~ Forall2 agree (run step init repl_history) (run spec_step init repl_history).
Proof. apply not_agree. vm_compute. reflexivity. Qed.

Lemma repl_last_call : nth_error (run step init repl_history) 21 = Some (ORan 12 10)
  /\ nth_error (run spec_step init repl_history) 21 = Some (ORan 10 10).
Proof. vm_compute. split; reflexivity. Qed.

Lemma reload_refuted :
  hist_ok init (program_unit ++ program_calls) = true /\
  ~ Forall2 agree (run step init (program_unit ++ SaveReload [0; 1; 2; 3; 4] :: program_calls))
                  (run spec_step init (program_unit ++ SaveReload [0; 1; 2; 3; 4] :: program_calls)).
Proof. split; [vm_compute; reflexivity|]. apply not_agree. vm_compute. reflexivity. Qed.

Lemma native_refuted :
  unique_slots (final spec_step init native_history) = true /\
  ~ Forall2 agree (run step init native_history) (run spec_step init native_history).
Proof. split; [vm_compute; reflexivity|]. apply not_agree. vm_compute. reflexivity. Qed.

(* ---- the statements Props/C05.v exports ---- *)
Lemma repl_slot_collision_refuted_lemma :
  exists h : list event,
    (forall st, repl_slot_base st = 0) /\
    ~ Forall2 agree (run step init h) (run spec_step init h) /\
    nth_error (run step init h) 21 = Some (ORan 12 10) /\
    nth_error (run spec_step init h) 21 = Some (ORan 10 10).
Proof.
  exists repl_history. split; [exact repl_base_zero|]. split; [exact repl_refuted|exact repl_last_call].
Qed.

Lemma reload_zeroed_slots_refuted_lemma :
  exists (unit calls : list event) (sids : list N),
    hist_ok init (unit ++ calls) = true /\
    ~ Forall2 agree (run step init (unit ++ SaveReload sids :: calls))
                    (run spec_step init (unit ++ SaveReload sids :: calls)).
Proof. exists program_unit, program_calls, [0; 1; 2; 3; 4]. exact reload_refuted. Qed.

Lemma native_rebind_stale_refuted_lemma :
  exists h : list event,
    unique_slots (final spec_step init h) = true /\
    ~ Forall2 agree (run step init h) (run spec_step init h).
Proof. exists native_history. exact native_refuted. Qed.

(* a history inside the guard: two sites, function -> closure -> native rebinding, a collection
   that frees the old function, a second unit loaded at a fresh slot base, a retired site whose
   slot is reused *)
Definition guarded_history : list event :=
  [Alloc 10 (mkObj KFn 20 []); SetGlobal 0 (GPtr 10);
   NewUnit [mkDecl false 0 0; mkDecl false 1 0] 0;
   Call 0; Call 0; Call 1;
   Alloc 11 (mkObj KClo 21 []); SetGlobal 0 (GPtr 11);
   Call 0; Call 1; Call 0;
   Collect [10];
   Call 0;
   NewUnit [mkDecl false 0 0] 2; Call 2; Retire [2];
   NewUnit [mkDecl false 0 0] 2; Call 3;
   Alloc 58 (mkObj KNat 1 []); SetGlobal 0 (GPtr 58);
   Call 0; Call 3].

Lemma guarded_history_facts :
  hist_ok init guarded_history = true /\
  run step init guarded_history =
    [ONone; ONone; ONone; ORan 10 10; ORan 10 10; ORan 10 10; ONone; ONone;
     ORan 11 11; ORan 11 11; ORan 11 11; ONone; ORan 11 11; ONone; ORan 11 11; ONone;
     ONone; ORan 11 11; ONone; ONone; ONative 58; ONative 58].
Proof. vm_compute. split; reflexivity. Qed.

(* what the model predicts the real toolchain prints for the two reproduced sessions
   (corpus/C05/repl_slot_collision.txt, corpus/C05/reload_zeroed_slots.txt): status 2 = stack
   overflow after 1023 (resp. 1027) printed tags *)
Lemma witness_predictions :
  session_obs repl_session =
    [[0; 0]; [0; 0]; [0; 0]; [0; 2; 22; 20]; [0; 2; 23; 21];
     2 :: 1023 :: repeat 22 24] /\
  session_obs (program_session false) = [[0; 6; 22; 20; 23; 21; 22; 20]] /\
  session_obs (program_session true) = [2 :: 1027 :: [22; 20; 23; 21] ++ repeat 22 20].
Proof. vm_compute. repeat split; reflexivity. Qed.
