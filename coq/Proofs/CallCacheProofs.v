(* C05 -- proofs about the inline-cache protocol model (Model/CallCache.v). *)
From Aelys Require Import Base.Tactics Extracted.CallCacheConsts Model.CallCache.
Local Open Scope N_scope.

(* ------------------------------------------------------------------ list plumbing *)
Lemma nth_error_upd_same {A} (f : A -> A) : forall n (l : list A),
  nth_error (upd_nth n f l) n = option_map f (nth_error l n).
Proof. induction n as [|n IH]; intros [|h t]; cbn; auto. Qed.

Lemma nth_error_upd_other {A} (f : A -> A) : forall n m (l : list A),
  n <> m -> nth_error (upd_nth n f l) m = nth_error l m.
Proof.
  induction n as [|n IH]; intros [|m] [|h t] Hne; cbn; auto; try congruence.
Qed.

Lemma length_upd_nth {A} (f : A -> A) : forall n (l : list A), length (upd_nth n f l) = length l.
Proof. induction n as [|n IH]; intros [|h t]; cbn; auto. Qed.

Lemma nth_error_set_same {A} (x d : A) : forall n (l : list A), nth_error (set_nth n x d l) n = Some x.
Proof. induction n as [|n IH]; intros [|h t]; cbn; auto. Qed.

Definition nonnull {A} (o : option (option A)) : option A :=
  match o with Some (Some e) => Some e | _ => None end.

Lemma nth_error_set_other {A} (x : option A) : forall n m (l : list (option A)),
  n <> m -> nonnull (nth_error (set_nth n x None l) m) = nonnull (nth_error l m).
Proof.
  induction n as [|n IH]; intros [|m] [|h t] Hne; cbn; auto; try congruence.
  all: try (rewrite IH by congruence).
  all: try (destruct m; reflexivity).
Qed.

Lemma cache_entry_set_same c s e : cache_entry (set_nth (N.to_nat s) (Some e) None c) s = Some e.
Proof. unfold cache_entry. rewrite nth_error_set_same. reflexivity. Qed.

Lemma cache_entry_set_other c s s' e :
  s <> s' -> cache_entry (set_nth (N.to_nat s) (Some e) None c) s' = cache_entry c s'.
Proof.
  intro Hne. unfold cache_entry.
  assert (H : N.to_nat s <> N.to_nat s') by (intro E; apply Hne; now apply N2Nat.inj).
  pose proof (nth_error_set_other (Some e) (N.to_nat s) (N.to_nat s') c H) as E.
  unfold nonnull in E. exact E.
Qed.

Lemma cache_entry_nil s : cache_entry [] s = None.
Proof. unfold cache_entry. destruct (N.to_nat s); reflexivity. Qed.

Lemma nth_error_map_sites (f : N -> site -> site) : forall l i n,
  nth_error (map_sites f i l) n = option_map (f (i + N.of_nat n)) (nth_error l n).
Proof.
  induction l as [|h t IH]; intros i n.
  - destruct n; reflexivity.
  - destruct n as [|n]; cbn [map_sites nth_error option_map].
    + f_equal. f_equal. lia.
    + rewrite IH. destruct (nth_error t n); cbn; [|reflexivity]. f_equal. f_equal. lia.
Qed.

Lemma in_enum_from {A} : forall (l : list A) k i x,
  In (i, x) (enum_from k l) <-> exists n, i = k + N.of_nat n /\ nth_error l n = Some x.
Proof.
  induction l as [|h t IH]; intros k i x; cbn [enum_from In].
  - split; [tauto|]. intros [n [_ H]]. destruct n; discriminate.
  - split.
    + intros [E|H].
      * inversion E; subst. exists 0%nat. split; [lia|reflexivity].
      * apply IH in H as [n [-> Hn]]. exists (S n). split; [lia|exact Hn].
    + intros [[|n] [-> Hn]].
      * left. cbn in Hn. inversion Hn. f_equal. lia.
      * right. apply IH. exists n. split; [lia|exact Hn].
Qed.

Lemma forall2_nth {A B} (R : A -> B -> Prop) : forall l l', Forall2 R l l' ->
  forall n, match nth_error l n, nth_error l' n with
            | Some a, Some b => R a b
            | None, None => True
            | _, _ => False
            end.
Proof.
  induction 1 as [|a b l l' Hab Hl IH]; intros [|n]; cbn; auto. apply IH.
Qed.

Lemma forall2_of_nth {A B} (R : A -> B -> Prop) : forall l l',
  (forall n, match nth_error l n, nth_error l' n with
             | Some a, Some b => R a b
             | None, None => True
             | _, _ => False
             end) -> Forall2 R l l'.
Proof.
  induction l as [|a l IH]; intros [|b l'] H.
  - constructor.
  - specialize (H 0%nat). cbn in H. tauto.
  - specialize (H 0%nat). cbn in H. tauto.
  - constructor.
    + exact (H 0%nat).
    + apply IH. intro n. exact (H (S n)).
Qed.

Lemma lookup_in {A} : forall (l : list (N * A)) k v, lookup k l = Some v -> exists v', In (k, v') l.
Proof.
  induction l as [|[k' v'] r IH]; cbn; intros k v H; [discriminate|].
  destruct (k =? k') eqn:E.
  - apply N.eqb_eq in E. subst. eauto.
  - apply IH in H as [w Hw]. eauto.
Qed.

(* ------------------------------------------------------------------ invariant and relation *)
Definition site_at (st : state) (sid : N) : option site := nth_error (sites st) (N.to_nat sid).

Definition mono_ok (st : state) (s : site) (p : N) : Prop :=
  forall e, cache_entry (cache st) (s_slot s) = Some e ->
    e_code e = p /\ gget st (s_idx s) = GPtr p /\
    exists o, hget st p = Some o /\ o_kind o <> KNat /\ e_clo e = is_clo o.

Definition native_ok (st : state) (s : site) (p : N) : Prop :=
  (s_slotted s = true \/ p <> 0) ->
  gget st (s_idx s) = GPtr p /\ exists o, hget st p = Some o /\ o_kind o = KNat.

(* what the model's cache and patched sites are allowed to contain *)
Record cache_inv (st : state) : Prop := {
  inv_mono : forall sid s p, site_at st sid = Some s -> s_live s = true -> s_form s = Mono p ->
             s_slotted s = true /\ mono_ok st s p;
  inv_native : forall sid s p, site_at st sid = Some s -> s_live s = true -> s_form s = Native p ->
               native_ok st s p;
  inv_plain : forall sid s, site_at st sid = Some s -> s_form s = Plain -> s_slotted s = true }.

Definition uses_cache (s : site) : Prop := forall p, s_form s <> Native p.

Definition site_rel (a b : site) : Prop :=
  s_live a = s_live b /\ s_slotted a = s_slotted b /\ s_idx a = s_idx b /\
  (uses_cache a -> s_slot a = s_slot b).

(* the implementation state and the specification's state describe the same bindings,
   the same heap and the same sites *)
Definition view_rel (st sp : state) : Prop :=
  (forall i, gget st i = gget sp i) /\ (forall p, hget st p = hget sp p) /\
  Forall2 site_rel (sites st) (sites sp).

Lemma view_rel_resolve st sp i : view_rel st sp -> resolve st i = resolve sp i.
Proof. intros (Hg & Hh & _). unfold resolve. rewrite Hg. destruct (gget sp i); auto. rewrite Hh. reflexivity. Qed.

Lemma view_rel_site st sp sid : view_rel st sp ->
  match site_at st sid, site_at sp sid with
  | Some a, Some b => site_rel a b
  | None, None => True
  | _, _ => False
  end.
Proof. intros (_ & _ & Hs). apply (forall2_nth _ _ _ Hs). Qed.

(* ---- facts extracted from the boolean guards ---- *)
Lemma unique_slots_distinct sp : unique_slots sp = true ->
  forall i j a b, site_at sp i = Some a -> site_at sp j = Some b -> i <> j ->
    slot_user a = true -> slot_user b = true -> s_slot a <> s_slot b.
Proof.
  unfold unique_slots. intros H i j a b Ha Hb Hij Ua Ub.
  apply andb_true_iff in H as [H _].
  rewrite forallb_forall in H.
  assert (Ia : In (i, a) (enum_from 0 (sites sp))).
  { apply in_enum_from. exists (N.to_nat i). split; [lia|exact Ha]. }
  assert (Ib : In (j, b) (enum_from 0 (sites sp))).
  { apply in_enum_from. exists (N.to_nat j). split; [lia|exact Hb]. }
  specialize (H _ Ia). rewrite forallb_forall in H. specialize (H _ Ib). cbn [fst snd] in H.
  rewrite Ua, Ub in H. cbn in H.
  destruct (i =? j) eqn:E; [apply N.eqb_eq in E; contradiction|].
  cbn in H. apply negb_true_iff in H. apply N.eqb_neq in H. exact H.
Qed.

Lemma unique_slots_bound sp : unique_slots sp = true ->
  forall i a, site_at sp i = Some a -> slot_user a = true -> s_slot a < MAX_CALL_SITE_SLOTS.
Proof.
  unfold unique_slots. intros H i a Ha Ua. apply andb_true_iff in H as [_ H].
  rewrite forallb_forall in H. specialize (H a (nth_error_In _ _ Ha)). rewrite Ua in H. cbn in H.
  apply N.ltb_lt in H. exact H.
Qed.

Lemma not_bound_somewhere sp p : bound_somewhere sp p = false -> forall i, gget sp i <> GPtr p.
Proof.
  intros H i E. unfold bound_somewhere in H.
  assert (Hl : exists v, lookup i (globals sp) = Some v).
  { unfold gget in E. destruct (lookup i (globals sp)) eqn:L; [eauto|discriminate]. }
  destruct Hl as [v Hl]. apply lookup_in in Hl as [v' Hin].
  assert (C : existsb (fun kv => gval_is (gget sp (fst kv)) p) (globals sp) = true).
  { apply existsb_exists. exists (i, v'). split; [exact Hin|]. cbn. rewrite E. cbn. apply N.eqb_refl. }
  congruence.
Qed.

(* ------------------------------------------------------------------ one call *)
Lemma live_slot_user a : s_live a = true -> s_slotted a = true -> slot_user a = true.
Proof. unfold slot_user. intros -> ->. reflexivity. Qed.

(* the model's call agrees with the specification *)
Lemma call_correct st sp sid :
  cache_inv st -> view_rel st sp -> unique_slots sp = true -> event_ok sp (Call sid) = true ->
  same_callee (snd (call st sid)) (spec_call sp sid) = true.
Proof.
  intros I R U G.
  pose proof (view_rel_site st sp sid R) as Hs.
  unfold call, spec_call. fold (site_at st sid). fold (site_at sp sid).
  cbn [event_ok] in G. fold (site_at sp sid) in G.
  destruct (site_at st sid) as [a|] eqn:Ea; destruct (site_at sp sid) as [b|] eqn:Eb; try contradiction; [|reflexivity].
  destruct Hs as (Hl & Hsl & Hi & Hslot).
  rewrite <- Hl. destruct (s_live a) eqn:La; cbn [negb]; [|reflexivity].
  rewrite <- Hi. rewrite <- (view_rel_resolve st sp (s_idx a) R).
  rewrite <- Hl, <- Hsl, <- Hi, <- (view_rel_resolve st sp (s_idx a) R) in G. cbn [negb] in G.
  destruct (s_form a) as [|p|p] eqn:Fa.
  - (* 77 *)
    assert (Sa : s_slotted a = true) by (eapply inv_plain; eauto).
    assert (Hb : s_slot a < MAX_CALL_SITE_SLOTS).
    { rewrite Hslot by (intros q; congruence).
      eapply unique_slots_bound; eauto. apply live_slot_user; congruence. }
    unfold op_call_global. destruct (resolve st (s_idx a)) as [q o| | |]; cbn; auto.
    destruct (o_kind o); cbn.
    + replace (MAX_CALL_SITE_SLOTS <=? s_slot a) with false by (symmetry; apply N.leb_gt; exact Hb).
      cbn. now rewrite !N.eqb_refl.
    + replace (MAX_CALL_SITE_SLOTS <=? s_slot a) with false by (symmetry; apply N.leb_gt; exact Hb).
      cbn. now rewrite !N.eqb_refl.
    + apply N.eqb_refl.
  - (* 78 *)
    destruct (inv_mono st I sid a p Ea La Fa) as [Sa Hm].
    assert (Hb : s_slot a < MAX_CALL_SITE_SLOTS).
    { rewrite Hslot by (intros q; congruence).
      eapply unique_slots_bound; eauto. apply live_slot_user; congruence. }
    assert (Miss : same_callee (snd (mono_miss st sid a))
                     match resolve st (s_idx a) with
                     | ROk q o => match o_kind o with KNat => ONative q | _ => ORan q q end
                     | _ => OErr ENotCallable end = true).
    { unfold mono_miss. destruct (resolve st (s_idx a)) as [q o| | |]; cbn; auto.
      destruct (o_kind o); cbn;
        try (replace (MAX_CALL_SITE_SLOTS <=? s_slot a) with false by (symmetry; apply N.leb_gt; exact Hb));
        cbn; rewrite ?N.eqb_refl; auto. }
    unfold op_call_global_mono.
    destruct (negb (p =? 0) && (negb MONO_FAST_PATH_VALIDATES || gval_is (gget st (s_idx a)) p)); [|exact Miss].
    destruct (cache_entry (cache st) (s_slot a)) as [e|] eqn:Ce; [|exact Miss].
    destruct (Hm e Ce) as (Hc & Hg & o & Ho & Hk & Hclo).
    assert (Res : resolve st (s_idx a) = ROk p o) by (unfold resolve; rewrite Hg, Ho; reflexivity).
    rewrite Res. rewrite Hc, Ho.
    rewrite Hclo. unfold is_clo. destruct (o_kind o) eqn:K; cbn; rewrite ?N.eqb_refl; auto; congruence.
  - (* 104 *)
    pose proof (inv_native st I sid a p Ea La Fa) as Hn. unfold native_ok in Hn.
    unfold op_call_global_native.
    destruct (p =? 0) eqn:P0.
    + apply N.eqb_eq in P0. subst p.
      destruct (s_slotted a) eqn:Sa.
      * destruct Hn as (Hg & o & Ho & Hk); [now left|].
        unfold resolve. rewrite Hg, Ho, Hk. cbn. reflexivity.
      * cbn [orb] in G.
        destruct (resolve st (s_idx a)) as [q o| | |]; cbn; auto.
        destruct (o_kind o); cbn; try discriminate. apply N.eqb_refl.
    + apply N.eqb_neq in P0.
      destruct Hn as (Hg & o & Ho & Hk); [now right|].
      unfold resolve. rewrite Hg, Ho, Hk. cbn. apply N.eqb_refl.
Qed.
