(* C13 -- proofs about Model/NoGc.v *)
From Aelys Require Import Base.Tactics Extracted.NoGcConsts Model.NoGc.
Local Open Scope Z_scope.

(* ------------------------------------------------------------------ counter machine *)
Lemma op_exit_enter d : op_exit (op_enter d) = Some d.
Proof. unfold op_exit, op_enter. destruct (0 <? d + 1)%N eqn:E; [f_equal; lia | lia]. Qed.

Lemma op_exit_some d d' : op_exit d = Some d' -> (d = d' + 1)%N.
Proof. unfold op_exit. destruct (0 <? d)%N eqn:E; intro H; inversion H; lia. Qed.

Lemma op_exit_none d : op_exit d = None <-> d = 0%N.
Proof. unfold op_exit. destruct (0 <? d)%N eqn:E; split; intro H; try discriminate; try reflexivity; try (exfalso; lia); lia. Qed.

Lemma maybe_collect_positive (H : Type) (collect : H -> H) (should : H -> bool) force d h :
  (0 < d)%N -> maybe_collect H collect should force d h = h.
Proof. intro Hd. unfold maybe_collect, is_in_no_gc. destruct (0 <? d)%N eqn:E; [reflexivity | lia]. Qed.

Lemma maybe_collect_zero_forced (H : Type) (collect : H -> H) (should : H -> bool) h :
  maybe_collect H collect should (Some true) 0%N h = collect h.
Proof. reflexivity. Qed.

Lemma api_enter_exit_below d : (d < MAX_NO_GC_DEPTH)%N -> api_exit (api_enter d) = d.
Proof.
  intro Hd. unfold api_exit, api_enter.
  destruct (api_enter_saturates && (MAX_NO_GC_DEPTH <=? d)%N) eqn:E.
  - apply andb_true_iff in E as [_ E]. lia.
  - destruct (d + 1 =? 0)%N eqn:E2; lia.
Qed.

(* VM::enter_no_gc counts every call (like the opcode): enter / exit are inverse at every depth *)
Lemma api_enter_exit_inverse d : api_exit (api_enter d) = d.
Proof.
  unfold api_exit, api_enter, api_enter_saturates. cbn [andb].
  destruct (d + 1 =? 0)%N eqn:E; lia.
Qed.

(* OLD definition (before the repair): enter_no_gc stopped counting at MAX_NO_GC_DEPTH *)
Definition api_enter_old (d : N) : N := if (MAX_NO_GC_DEPTH <=? d)%N then d else (d + 1)%N.
Lemma old_api_saturation_witness :
  Nat.iter 65 api_enter_old 0%N = 64%N /\ Nat.iter 64 api_exit (Nat.iter 65 api_enter_old 0%N) = 0%N.
Proof. vm_compute. split; reflexivity. Qed.

(* ------------------------------------------------------------------ traces *)
Lemma dend_app d t1 t2 : dend d (t1 ++ t2) = dend (dend d t1) t2.
Proof. revert d; induction t1 as [|e r IH]; intro d; cbn [dend app]; [reflexivity | apply IH]. Qed.

Lemma dmin_app d t1 t2 : dmin d (t1 ++ t2) = Z.min (dmin d t1) (dmin (dend d t1) t2).
Proof.
  revert d; induction t1 as [|e r IH]; intro d; cbn [dmin dend app].
  - assert (dmin d t2 <= d) by (destruct t2; cbn [dmin]; lia). lia.
  - rewrite IH. lia.
Qed.

Lemma dmin_le d t : dmin d t <= d.
Proof. destruct t; cbn [dmin]; lia. Qed.

Lemma dend_shift d t : dend d t = d + dend 0 t.
Proof.
  revert d; induction t as [|e r IH]; intro d; cbn [dend]; [lia|].
  rewrite IH. rewrite (IH (0 + ev_delta e)). lia.
Qed.

Lemma dmin_shift d t : dmin d t = d + dmin 0 t.
Proof.
  revert d; induction t as [|e r IH]; intro d; cbn [dmin]; [lia|].
  rewrite IH. rewrite (IH (0 + ev_delta e)). lia.
Qed.

Lemma dend_count t : dend 0 t = count_ev is_enter t - count_ev is_exit t.
Proof.
  induction t as [|e r IH]; cbn [dend count_ev]; [reflexivity|].
  rewrite dend_shift, IH. destruct e; cbn [ev_delta is_enter is_exit]; lia.
Qed.

Definition zero_delta (t : list ev) : Prop := Forall (fun e => ev_delta e = 0) t.

Lemma zero_delta_dend d t : zero_delta t -> dend d t = d /\ dmin d t = d.
Proof.
  intro H; revert d; induction H as [|e r He _ IH]; intro d; cbn [dend dmin]; [split; reflexivity|].
  rewrite He. destruct (IH (d + 0)) as [A B]. rewrite A, B. lia.
Qed.

Lemma zero_delta_app t1 t2 : zero_delta t1 -> zero_delta t2 -> zero_delta (t1 ++ t2).
Proof. intros; apply Forall_app; split; assumption. Qed.

Lemma alloc_pos_app d t1 t2 : alloc_pos d (t1 ++ t2) <-> alloc_pos d t1 /\ alloc_pos (dend d t1) t2.
Proof.
  revert d; induction t1 as [|e r IH]; intro d; cbn [app].
  - cbn [alloc_pos dend]. tauto.
  - destruct e; cbn [alloc_pos dend ev_delta]; rewrite ?IH; rewrite ?Z.add_0_r; tauto.
Qed.

Lemma zero_delta_alloc_pos d t : zero_delta t -> 0 < d -> alloc_pos d t.
Proof.
  intros H Hd; induction H as [|e r He _ IH]; cbn [alloc_pos]; [exact I|].
  destruct e; cbn [ev_delta] in *; try discriminate; rewrite ?Z.add_0_r; auto.
Qed.

(* ------------------------------------------------------------------ inversion of paths, by code shape *)
Ltac inv H := inversion H; subst; clear H.

Lemma path_nil_inv t m : path KNil t m -> t = [] /\ (m = CNormal \/ m = CErr).
Proof. intro H; inv H; auto. Qed.
Lemma path_fail_inv t m : path KFail t m -> t = [] /\ m = CErr.
Proof. intro H; inv H; auto. Qed.
Lemma path_safe_inv t m : path KSafe t m -> (t = [VSafe] /\ m = CNormal) \/ (t = [] /\ m = CErr).
Proof. intro H; inv H; auto. Qed.
Lemma path_call_inv f t m : path (KCall f) t m -> (t = [VCall f] /\ (m = CNormal \/ m = CErr)) \/ (t = [] /\ m = CErr).
Proof. intro H; inv H; auto. Qed.
Lemma path_exit_inv t m : path KExit t m -> (t = [VExit] /\ m = CNormal) \/ (t = [] /\ m = CErr).
Proof. intro H; inv H; auto. Qed.
Lemma path_enter_inv t m : path KEnter t m -> (t = [VEnter] /\ m = CNormal) \/ (t = [] /\ m = CErr).
Proof. intro H; inv H; auto. Qed.
Lemma path_ret_inv t m : path KRet t m -> t = [] /\ (m = CReturned \/ m = CErr).
Proof. intro H; inv H; auto. Qed.
Lemma path_brk_inv t m : path KBreak t m -> t = [] /\ (m = CBrk \/ m = CErr).
Proof. intro H; inv H; auto. Qed.
Lemma path_cont_inv t m : path KCont t m -> t = [] /\ (m = CCont \/ m = CErr).
Proof. intro H; inv H; auto. Qed.
Lemma path_seq_inv a b t m : path (KSeq a b) t m ->
  (t = [] /\ m = CErr) \/
  (exists t1 t2, t = t1 ++ t2 /\ path a t1 CNormal /\ path b t2 m) \/
  (path a t m /\ m <> CNormal).
Proof. intro H; inv H; [left; auto | right; left; eauto | right; right; auto]. Qed.
Lemma path_if_inv c a b t m : path (KIf c a b) t m -> (t = [] /\ m = CErr) \/ path a t m \/ path b t m.
Proof. intro H; inv H; auto. Qed.

(* ------------------------------------------------------------------ expression code *)
Fixpoint ec (c : code) : bool :=
  match c with
  | KNil | KSafe | KFail | KCall _ => true
  | KSeq a b => ec a && ec b
  | _ => false
  end.

Lemma ec_emit_expr0 e : ec (emit_expr0 e) = true.
Proof. induction e; cbn [emit_expr0 ec]; try reflexivity. rewrite IHe1, IHe2; reflexivity. Qed.

Lemma ec_emit_expr inl P e : ec (emit_expr inl P e) = true.
Proof.
  induction e; cbn [emit_expr ec]; try reflexivity.
  - destruct inl; [|reflexivity]. unfold inline_of, inline_of_gen.
    destruct (nth_error P f) as [fd|]; [|reflexivity].
    destruct (f_leaf fd && negb (inliner_skips_no_gc && f_nogc fd)); [|reflexivity].
    destruct (inline_body (f_body fd)) as [e'|]; cbn [option_map]; [apply ec_emit_expr0 | reflexivity].
  - rewrite IHe1, IHe2; reflexivity.
Qed.

Lemma ec_path c : ec c = true -> forall t m, path c t m -> zero_delta t /\ (m = CNormal \/ m = CErr).
Proof.
  induction c; cbn [ec]; intro Hc; try discriminate; intros t m Hp.
  - apply path_nil_inv in Hp as [-> Hm]. split; [constructor | exact Hm].
  - apply path_safe_inv in Hp as [[-> ->]|[-> ->]]; split; auto; repeat constructor.
  - apply path_fail_inv in Hp as [-> ->]. split; [constructor | auto].
  - apply path_call_inv in Hp as [[-> Hm]|[-> ->]]; split; auto; repeat constructor.
  - apply andb_true_iff in Hc as [Ha Hb].
    apply path_seq_inv in Hp as [[-> ->]|[(t1 & t2 & -> & H1 & H2)|[H1 Hn]]].
    + split; [constructor | auto].
    + destruct (IHc1 Ha _ _ H1) as [Z1 _]. destruct (IHc2 Hb _ _ H2) as [Z2 M2].
      split; [apply zero_delta_app; assumption | exact M2].
    + apply (IHc1 Ha _ _ H1).
Qed.

Lemma quiet_path inl P e : quiet e = true -> forall t m, path (emit_expr inl P e) t m -> t = [].
Proof.
  induction e; cbn [quiet emit_expr]; intro Hq; try discriminate; intros t m Hp.
  - apply path_nil_inv in Hp as [-> _]; reflexivity.
  - apply path_fail_inv in Hp as [-> _]; reflexivity.
  - apply andb_true_iff in Hq as [Ha Hb].
    apply path_seq_inv in Hp as [[-> ->]|[(t1 & t2 & -> & H1 & H2)|[H1 Hn]]].
    + reflexivity.
    + rewrite (IHe1 Ha _ _ H1), (IHe2 Hb _ _ H2). reflexivity.
    + apply (IHe1 Ha _ _ H1).
Qed.

(* ------------------------------------------------------------------ statements: balance on every path *)
Definition bz (g : bool) : Z := if g then 1 else 0.

Definition stmt_inv (g : bool) (t : list ev) (m : cmp) : Prop :=
  - bz g <= dmin 0 t /\
  match m with
  | CReturned => dend 0 t = - bz g
  | CErr => - bz g <= dend 0 t <= 0
  | _ => dend 0 t = 0
  end.

Lemma stmt_inv_nil g m : m <> CReturned -> stmt_inv g [] m.
Proof. intro H. unfold stmt_inv; cbn [dmin dend]; destruct g; cbn [bz]; destruct m; try congruence; lia. Qed.

Lemma stmt_inv_zero g t m : zero_delta t -> m <> CReturned -> stmt_inv g t m.
Proof.
  intros Zd H. destruct (zero_delta_dend 0 _ Zd) as [A B]. unfold stmt_inv. rewrite A, B.
  destruct g; cbn [bz]; destruct m; try congruence; lia.
Qed.

Lemma kflag_path g k e : (forall t m, path k t m -> (t = [e] /\ m = CNormal) \/ (t = [] /\ m = CErr)) ->
  forall t m, path (kflag g k) t m ->
  (g = true /\ t = [e] /\ m = CNormal) \/ (t = [] /\ m = CErr) \/ (g = false /\ t = [] /\ m = CNormal).
Proof.
  intros Hk t m Hp. destruct g; cbn [kflag] in Hp.
  - destruct (Hk _ _ Hp) as [[-> ->]|[-> ->]]; auto.
  - apply path_nil_inv in Hp as [-> [-> | ->]]; auto.
Qed.

(* `e; Ret` where e is expression code *)
Lemma expr_ret_path ce : ec ce = true -> forall t m, path (KSeq ce KRet) t m ->
  zero_delta t /\ (m = CReturned \/ m = CErr).
Proof.
  intros Hec t m Hp.
  apply path_seq_inv in Hp as [[-> ->]|[(t1 & t2 & -> & H1 & H2)|[H1 Hn]]].
  - split; [constructor | auto].
  - destruct (ec_path _ Hec _ _ H1) as [Z1 _]. apply path_ret_inv in H2 as [-> Hm].
    rewrite app_nil_r. auto.
  - destruct (ec_path _ Hec _ _ H1) as [Z1 [-> | ->]]; [congruence | auto].
Qed.

(* `exit?; Ret` *)
Lemma exit_ret_path g : forall t m, path (KSeq (kflag g KExit) KRet) t m ->
  (m = CReturned /\ t = (if g then [VExit] else [])) \/ (m = CErr /\ (t = [] \/ (g = true /\ t = [VExit]))).
Proof.
  intros t m Hp.
  apply path_seq_inv in Hp as [[-> ->]|[(t1 & t2 & -> & H1 & H2)|[H1 Hn]]].
  - auto.
  - apply path_ret_inv in H2 as [-> Hm]. rewrite app_nil_r.
    destruct (kflag_path g KExit VExit path_exit_inv _ _ H1) as [[-> [-> _]]|[[_ Hx]|[-> [-> _]]]]; try discriminate;
      destruct Hm as [-> | ->]; auto.
  - destruct (kflag_path g KExit VExit path_exit_inv _ _ H1) as [[_ [_ ->]]|[[-> ->]|[_ [_ ->]]]]; try congruence. auto.
Qed.

Lemma ret_code_inv ord g ce : ord <> RetNoExit -> ec ce = true ->
  forall t m, path (ret_code ord g ce) t m -> stmt_inv g t m /\ (m = CReturned \/ m = CErr).
Proof.
  intros Hord Hec t m Hp. destruct ord; [| |congruence]; cbn [ret_code] in Hp.
  - (* Exit; e; Ret *)
    apply path_seq_inv in Hp as [[-> ->]|[(t1 & t2 & -> & H1 & H2)|[H1 Hn]]].
    + split; [apply stmt_inv_nil; discriminate | auto].
    + destruct (expr_ret_path ce Hec _ _ H2) as [Zd Hm]. split; [|exact Hm].
      destruct (kflag_path g KExit VExit path_exit_inv _ _ H1) as [[-> [-> _]]|[[_ Hx]|[-> [-> _]]]]; try discriminate.
      * destruct (zero_delta_dend (-1) _ Zd) as [A B].
        unfold stmt_inv. rewrite dmin_app, dend_app. cbn [dmin dend ev_delta bz].
        replace (0 + -1) with (-1) by lia. rewrite A, B. destruct Hm as [-> | ->]; lia.
      * cbn [app]. destruct (zero_delta_dend 0 _ Zd) as [A B].
        unfold stmt_inv. cbn [bz]. rewrite A, B. destruct Hm as [-> | ->]; lia.
    + destruct (kflag_path g KExit VExit path_exit_inv _ _ H1) as [[_ [_ ->]]|[[-> ->]|[_ [_ ->]]]]; try congruence.
      split; [apply stmt_inv_nil; discriminate | auto].
  - (* e; Exit; Ret *)
    apply path_seq_inv in Hp as [[-> ->]|[(t1 & t2 & -> & H1 & H2)|[H1 Hn]]].
    + split; [apply stmt_inv_nil; discriminate | auto].
    + destruct (ec_path _ Hec _ _ H1) as [Zd _]. destruct (zero_delta_dend 0 _ Zd) as [A B].
      destruct (exit_ret_path g _ _ H2) as [[-> ->]|[-> Ht]]; (split; [|auto]).
      * unfold stmt_inv. rewrite dmin_app, dend_app, A, B. destruct g; cbn [dmin dend ev_delta bz]; lia.
      * unfold stmt_inv. rewrite dmin_app, dend_app, A, B.
        destruct Ht as [-> | [Hg ->]]; [destruct g | rewrite Hg]; cbn [dmin dend ev_delta bz]; lia.
    + destruct (ec_path _ Hec _ _ H1) as [Zd [-> | ->]]; [congruence|].
      split; [apply stmt_inv_zero; [assumption | discriminate] | auto].
Qed.

Lemma stmt_inv_seq g t1 t2 m1 m : (m1 = CNormal \/ m1 = CCont) -> stmt_inv g t1 m1 -> stmt_inv g t2 m -> stmt_inv g (t1 ++ t2) m.
Proof.
  unfold stmt_inv. intros Hm [A1 B1] [A2 B2]. rewrite dmin_app, dend_app.
  assert (E : dend 0 t1 = 0) by (destruct Hm as [-> | ->]; exact B1). rewrite E. split; [lia|exact B2].
Qed.

Lemma stmt_path_inv ord inl P g : ord <> RetNoExit ->
  forall s t m, path (emit_stmt ord inl P g s) t m -> stmt_inv g t m.
Proof.
  intro Hord. induction s; cbn [emit_stmt]; intros t m Hp.
  - (* SSkip *) apply path_nil_inv in Hp as [-> [-> | ->]]; apply stmt_inv_nil; discriminate.
  - (* SSeq *)
    apply path_seq_inv in Hp as [[-> ->]|[(t1 & t2 & -> & H1 & H2)|[H1 Hn]]].
    + apply stmt_inv_nil; discriminate.
    + eapply stmt_inv_seq; [left; reflexivity | apply IHs1 | apply IHs2]; assumption.
    + apply IHs1; assumption.
  - (* SExpr *)
    destruct (ec_path _ (ec_emit_expr inl P e) _ _ Hp) as [Zd Hm].
    apply stmt_inv_zero; [assumption | destruct Hm as [-> | ->]; discriminate].
  - (* SIf *)
    apply path_if_inv in Hp as [[-> ->]|[H|H]]; [apply stmt_inv_nil; discriminate | apply IHs1; assumption | apply IHs2; assumption].
  - (* SLoop *)
    remember (KLoop j k (emit_stmt ord inl P g s)) as c eqn:Ec.
    revert j Ec. induction Hp; intros j0 Ec; try discriminate.
    + apply stmt_inv_nil; discriminate.
    + apply stmt_inv_nil; discriminate.
    + inversion Ec; subst. eapply stmt_inv_seq; [eassumption | apply IHs; assumption | eapply IHHp2; reflexivity].
    + inversion Ec; subst. specialize (IHs _ _ Hp). unfold stmt_inv in *. exact IHs.
    + inversion Ec; subst. specialize (IHs _ _ Hp). destruct H as [-> | ->]; exact IHs.
  - (* SBreak *) apply path_brk_inv in Hp as [-> [-> | ->]]; apply stmt_inv_nil; discriminate.
  - (* SContinue *) apply path_cont_inv in Hp as [-> [-> | ->]]; apply stmt_inv_nil; discriminate.
  - (* SReturn *) apply (ret_code_inv ord g _ Hord (ec_emit_expr inl P e) _ _ Hp).
  - (* SDef *)
    apply path_safe_inv in Hp as [[-> ->]|[-> ->]]; [|apply stmt_inv_nil; discriminate].
    apply stmt_inv_zero; [repeat constructor | discriminate].
Qed.

(* the function-level statement *)
Lemma fn_path_inv ord inl P f : ord <> RetNoExit ->
  forall t m, path (emit_fn ord inl P f) t m ->
  0 <= dmin 0 t /\ (m = CReturned -> dend 0 t = 0) /\ (m = CErr -> 0 <= dend 0 t).
Proof.
  intros Hord t m Hp. unfold emit_fn in Hp. set (g := f_nogc f) in *.
  assert (Hnil : 0 <= dmin 0 [] /\ (m = CReturned -> dend 0 [] = 0) /\ (m = CErr -> 0 <= dend 0 [])) by (cbn; repeat split; intros; lia).
  apply path_seq_inv in Hp as [[-> ->]|[(t0 & tr & -> & H0 & Hr)|[H0 Hn]]]; [exact Hnil | |].
  2:{ destruct (kflag_path g KEnter VEnter path_enter_inv _ _ H0) as [[_ [_ ->]]|[[-> ->]|[_ [_ ->]]]]; try congruence. }
  assert (Ht0 : t0 = (if g then [VEnter] else [])).
  { destruct (kflag_path g KEnter VEnter path_enter_inv _ _ H0) as [[-> [-> _]]|[[_ Hx]|[-> [-> _]]]]; try discriminate; reflexivity. }
  assert (D0 : dend 0 t0 = bz g /\ dmin 0 t0 = 0) by (rewrite Ht0; destruct g; cbn; lia).
  destruct D0 as [D0 M0].
  rewrite dmin_app, dend_app, D0, M0, (dmin_shift (bz g)), (dend_shift (bz g)).
  apply path_seq_inv in Hr as [[-> ->]|[(tb & te & -> & Hb & He)|[Hb Hn]]].
  - cbn [dmin dend]. destruct g; cbn [bz]; repeat split; intros; try discriminate; lia.
  - pose proof (stmt_path_inv ord inl P g Hord _ _ _ Hb) as [A B]. fold g in A, B.
    rewrite dmin_app, dend_app, B, (dmin_shift 0 te), (dend_shift 0 te).
    destruct (exit_ret_path g _ _ He) as [[-> ->]|[-> Ht]].
    + destruct g; cbn [bz dmin dend ev_delta] in *; repeat split; intros; try discriminate; lia.
    + destruct Ht as [-> | [Hg ->]]; [|rewrite Hg in *]; cbn [bz dmin dend ev_delta] in *;
        repeat split; intros; try discriminate; try (destruct g; cbn [bz] in *; lia); lia.
  - pose proof (stmt_path_inv ord inl P g Hord _ _ _ Hb) as [A B]. fold g in A, B.
    destruct m; try congruence; repeat split; intros; try discriminate; lia.
Qed.

Lemma balanced_lemma ord inl P f : ord <> RetNoExit ->
  forall t, path (emit_fn ord inl P f) t CReturned ->
  count_ev is_enter t = count_ev is_exit t /\ dmin 0 t = 0.
Proof.
  intros Hord t Hp. destruct (fn_path_inv ord inl P f Hord _ _ Hp) as [A [B _]].
  specialize (B eq_refl). rewrite dend_count in B. pose proof (dmin_le 0 t). lia.
Qed.

Lemma order_ok : return_exit_order <> RetNoExit.
Proof. discriminate. Qed.
(* the repaired emission order: the returned expression is evaluated before ExitNoGc *)
Lemma order_after : return_exit_order = RetExitAfterExpr.
Proof. reflexivity. Qed.

(* a path that ends with an error never leaves the depth below the entry depth *)
Lemma error_path_lemma ord inl P f : ord <> RetNoExit ->
  forall t, path (emit_fn ord inl P f) t CErr -> 0 <= dend 0 t /\ dmin 0 t = 0.
Proof.
  intros Hord t Hp. destruct (fn_path_inv ord inl P f Hord _ _ Hp) as [A [_ C]].
  pose proof (dmin_le 0 t). split; [apply C; reflexivity | lia].
Qed.

(* ------------------------------------------------------------------ allocation points inside the region *)
(* either the emission evaluates the returned expression inside the region, or (old order) no return
   expression contains an allocation point or a call *)
Definition okq (ord : ret_order) (s : stmt) : Prop := ord = RetExitAfterExpr \/ ret_quiet s = true.
Lemma okq_and ord a b (q : bool) : (ord = RetExitAfterExpr \/ ret_quiet a && ret_quiet b = true) -> okq ord a /\ okq ord b.
Proof. unfold okq. intros [H|H]; [auto | apply andb_true_iff in H as [A B]; auto]. Qed.

Lemma stmt_alloc_pos ord inl P : ord <> RetNoExit ->
  forall s d t m, 1 <= d -> okq ord s -> path (emit_stmt ord inl P true s) t m -> alloc_pos d t.
Proof.
  intro Hord. induction s; cbn [emit_stmt]; intros d t m Hd Hq Hp.
  - apply path_nil_inv in Hp as [-> _]; exact I.
  - apply (okq_and ord s1 s2 true) in Hq as [Q1 Q2].
    apply path_seq_inv in Hp as [[-> ->]|[(t1 & t2 & -> & H1 & H2)|[H1 Hn]]].
    + exact I.
    + apply alloc_pos_app. split; [eapply IHs1; eassumption|].
      pose proof (stmt_path_inv ord inl P true Hord _ _ _ H1) as [_ B]. rewrite dend_shift, B, Z.add_0_r.
      eapply IHs2; eassumption.
    + eapply IHs1; eassumption.
  - destruct (ec_path _ (ec_emit_expr inl P e) _ _ Hp) as [Zd _]. apply zero_delta_alloc_pos; [assumption | lia].
  - apply (okq_and ord s1 s2 true) in Hq as [Q1 Q2].
    apply path_if_inv in Hp as [[-> ->]|[H|H]]; [exact I | eapply IHs1; eassumption | eapply IHs2; eassumption].
  - assert (Qb : okq ord s) by exact Hq. clear Hq.
    remember (KLoop j k (emit_stmt ord inl P true s)) as c eqn:Ec.
    revert j Ec. induction Hp; intros j0 Ec; try discriminate.
    + exact I.
    + exact I.
    + inversion Ec; subst. apply alloc_pos_app. split; [eapply IHs; eassumption|].
      pose proof (stmt_path_inv ord inl P true Hord _ _ _ Hp1) as [_ B].
      rewrite dend_shift. destruct H as [-> | ->]; rewrite B, Z.add_0_r; eapply IHHp2; try reflexivity; assumption.
    + inversion Ec; subst. eapply IHs; eassumption.
    + inversion Ec; subst. eapply IHs; eassumption.
  - apply path_brk_inv in Hp as [-> _]; exact I.
  - apply path_cont_inv in Hp as [-> _]; exact I.
  - (* return *)
    assert (Hx : forall d' t' m', path (KSeq (kflag true KExit) KRet) t' m' -> alloc_pos d' t').
    { intros d' t' m' H. destruct (exit_ret_path true _ _ H) as [[_ ->]|[_ [-> | [_ ->]]]]; cbn; exact I. }
    destruct ord; [| |congruence]; cbn [ret_code] in Hp.
    + (* old order: ExitNoGc first; needs a quiet expression *)
      destruct Hq as [Hq|Hq]; [discriminate|]. cbn [ret_quiet] in Hq.
      apply path_seq_inv in Hp as [[-> ->]|[(t1 & t2 & -> & H1 & H2)|[H1 Hn]]]; [exact I | |].
      * assert (t2 = []) as ->.
        { apply path_seq_inv in H2 as [[-> _]|[(ta & tb & -> & Ha & Hb)|[Ha _]]]; [reflexivity | |].
          - rewrite (quiet_path inl P e Hq _ _ Ha). apply path_ret_inv in Hb as [-> _]. reflexivity.
          - apply (quiet_path inl P e Hq _ _ Ha). }
        rewrite app_nil_r. cbn [kflag] in H1. apply path_exit_inv in H1 as [[-> _]|[-> _]]; cbn; exact I.
      * cbn [kflag] in H1. apply path_exit_inv in H1 as [[-> _]|[-> _]]; cbn; exact I.
    + (* repaired order: the expression runs at depth d >= 1, ExitNoGc and Return follow *)
      apply path_seq_inv in Hp as [[-> ->]|[(t1 & t2 & -> & H1 & H2)|[H1 Hn]]]; [exact I | |].
      * destruct (ec_path _ (ec_emit_expr inl P e) _ _ H1) as [Zd _].
        apply alloc_pos_app. split; [apply zero_delta_alloc_pos; [assumption | lia] | eapply Hx; eassumption].
      * destruct (ec_path _ (ec_emit_expr inl P e) _ _ H1) as [Zd _]. apply zero_delta_alloc_pos; [assumption | lia].
  - apply path_safe_inv in Hp as [[-> _]|[-> _]]; [|exact I]. cbn. split; [lia | exact I].
Qed.

Lemma region_alloc_pos_gen ord inl P f : ord <> RetNoExit ->
  f_nogc f = true -> okq ord (f_body f) ->
  forall t m, path (emit_fn ord inl P f) t m -> alloc_pos 0 t.
Proof.
  intros Hord Hg Hq t m Hp. unfold emit_fn in Hp. rewrite Hg in Hp. cbn [kflag] in Hp.
  apply path_seq_inv in Hp as [[-> ->]|[(t0 & tr & -> & H0 & Hr)|[H0 Hn]]]; [exact I | |].
  2:{ apply path_enter_inv in H0 as [[-> _]|[-> _]]; cbn; exact I. }
  apply path_enter_inv in H0 as [[-> _]|[_ Hx]]; [|discriminate].
  cbn [app alloc_pos ev_delta].
  apply path_seq_inv in Hr as [[-> ->]|[(tb & te & -> & Hb & He)|[Hb Hn]]]; [exact I | |].
  - apply alloc_pos_app. split; [eapply (stmt_alloc_pos ord inl P Hord); try eassumption; lia|].
    destruct (exit_ret_path true _ _ He) as [[_ ->]|[_ [-> | [_ ->]]]]; cbn; exact I.
  - eapply (stmt_alloc_pos ord inl P Hord); try eassumption; lia.
Qed.

(* the full statement for the repaired emission order: no guard on the body *)
Lemma region_alloc_pos_lemma inl P f : f_nogc f = true ->
  forall t m, path (emit_fn return_exit_order inl P f) t m -> alloc_pos 0 t.
Proof. intro Hg. apply (region_alloc_pos_gen return_exit_order inl P f order_ok Hg). left. exact order_after. Qed.

(* the guarded statement for the OLD order (ExitNoGc before the returned expression) *)
Lemma old_region_alloc_pos_guarded inl P f : f_nogc f = true -> ret_quiet (f_body f) = true ->
  forall t m, path (emit_fn RetExitFirst inl P f) t m -> alloc_pos 0 t.
Proof. intros Hg Hq. apply (region_alloc_pos_gen RetExitFirst inl P f ltac:(discriminate) Hg). right. exact Hq. Qed.

(* a @no_gc function is never inlined: every call of it runs its own EnterNoGc ... ExitNoGc *)
Lemma nogc_never_inlined inl P f fd : nth_error P f = Some fd -> f_nogc fd = true ->
  emit_expr inl P (ECall f) = KCall f.
Proof.
  intros Hn Hg. cbn [emit_expr]. destruct inl; [|reflexivity].
  unfold inline_of, inline_of_gen, inliner_skips_no_gc. rewrite Hn, Hg. cbn [andb negb]. rewrite andb_false_r. reflexivity.
Qed.

(* ------------------------------------------------------------------ executable semantics: depth through calls *)
Local Open Scope N_scope.
Definition bn (g : bool) : N := if g then 1 else 0.

Definition expr_post (st : vst) (r : oc * vst) : Prop :=
  match fst r with
  | ONormal => v_depth (snd r) = v_depth st
  | OErr => v_depth st <= v_depth (snd r)
  | OFuel => True
  | _ => False
  end.
Definition stmt_post (g : bool) (st : vst) (r : oc * vst) : Prop :=
  match fst r with
  | ONormal | OBrk | OCont => v_depth (snd r) = v_depth st
  | ORet => v_depth (snd r) + bn g = v_depth st
  | OErr => v_depth st <= v_depth (snd r) + bn g
  | OUnder => False
  | OFuel => True
  end.
Definition fn_post (st : vst) (r : oc * vst) : Prop :=
  match fst r with
  | ORet => v_depth (snd r) = v_depth st
  | OBrk | OCont | OErr => v_depth st <= v_depth (snd r)
  | OFuel => True
  | _ => False
  end.

Lemma exec_seq f tbl a b n i st :
  vm_exec (S f) tbl (KSeq a b) n i st =
  match vm_exec f tbl a n i st with (ONormal, st') => vm_exec f tbl b n i st' | r => r end.
Proof. reflexivity. Qed.

Lemma exec_enter fuel tbl g n i st :
  (exists st', vm_exec fuel tbl (kflag g KEnter) n i st = (ONormal, st') /\ v_depth st' = v_depth st + bn g)
  \/ vm_exec fuel tbl (kflag g KEnter) n i st = (OFuel, st).
Proof.
  destruct fuel; [right; reflexivity|]. left. destruct g; cbn [kflag vm_exec bn].
  - eexists; split; [reflexivity|]. unfold set_depth, op_enter. cbn [v_depth]. lia.
  - eexists; split; [reflexivity|]. lia.
Qed.

Lemma exec_exit fuel tbl g n i st : bn g <= v_depth st ->
  (exists st', vm_exec fuel tbl (kflag g KExit) n i st = (ONormal, st') /\ v_depth st' + bn g = v_depth st)
  \/ vm_exec fuel tbl (kflag g KExit) n i st = (OFuel, st).
Proof.
  intro Hd. destruct fuel; [right; reflexivity|]. left. destruct g; cbn [kflag vm_exec bn] in *.
  - unfold op_exit. destruct (0 <? v_depth st) eqn:E; [|lia].
    eexists; split; [reflexivity|]. unfold set_depth. cbn [v_depth]. lia.
  - eexists; split; [reflexivity|]. lia.
Qed.

Lemma exec_ret fuel tbl n i st :
  vm_exec fuel tbl KRet n i st = (ORet, st) \/ vm_exec fuel tbl KRet n i st = (OFuel, st).
Proof. destruct fuel; [right|left]; reflexivity. Qed.

(* `exit?; Ret` from a state with the region still open *)
Lemma exec_exit_ret fuel tbl g n i st : bn g <= v_depth st ->
  let r := vm_exec fuel tbl (KSeq (kflag g KExit) KRet) n i st in
  (fst r = ORet /\ v_depth (snd r) + bn g = v_depth st) \/ fst r = OFuel.
Proof.
  intros Hd. destruct fuel as [|f]; [right; reflexivity|]. cbv zeta. rewrite exec_seq.
  destruct (exec_exit f tbl g n i st Hd) as [(st' & -> & Hst')| ->]; [|right; reflexivity].
  destruct (exec_ret f tbl n i st') as [-> | ->]; [left | right]; cbn [fst snd]; auto.
Qed.

Lemma emit_expr0_nocalls fuel tbl : forall e n i st, no_calls e = true ->
  expr_post st (vm_exec fuel tbl (emit_expr0 e) n i st).
Proof.
  induction fuel as [|f IH]; intros e n i st Hn; [exact I|].
  destruct e; cbn [emit_expr0 no_calls] in *; try discriminate.
  - cbn. reflexivity.
  - cbn. reflexivity.
  - cbn. lia.
  - apply andb_true_iff in Hn as [Ha Hb]. rewrite exec_seq.
    pose proof (IH e1 n i st Ha) as H1. destruct (vm_exec f tbl (emit_expr0 e1) n i st) as [o1 st1].
    unfold expr_post in H1; cbn [fst snd] in H1. destruct o1; try contradiction; try exact H1.
    pose proof (IH e2 n i st1 Hb) as H2. unfold expr_post in *. rewrite <- H1.
    destruct (vm_exec f tbl (emit_expr0 e2) n i st1) as [o2 st2]; exact H2.
Qed.

Lemma inline_body_nocalls s e : inline_body s = Some e -> no_calls e = true.
Proof.
  unfold inline_body. intro H.
  repeat match type of H with
         | (if no_calls ?c then _ else _) = _ => destruct (no_calls c) eqn:?; try discriminate
         | match ?x with _ => _ end = _ => destruct x; try discriminate
         end; inversion H; subst; assumption.
Qed.

Lemma ret_code_cases ord g ce : ord <> RetNoExit ->
  ret_code ord g ce = KSeq (kflag g KExit) (KSeq ce KRet) \/ ret_code ord g ce = KSeq ce (KSeq (kflag g KExit) KRet).
Proof. destruct ord; intro H; [left | right | congruence]; reflexivity. Qed.

Section Exec.
  Variable ord : ret_order.
  Variable inl : bool.
  Variable P : list fn.
  Hypothesis Hord : ord <> RetNoExit.
  Let tbl := emit_tbl ord inl P.

  Definition InvA (fuel : nat) : Prop :=
    forall inl' e n i st, expr_post st (vm_exec fuel tbl (emit_expr inl' P e) n i st).
  Definition InvB (fuel : nat) : Prop :=
    forall g s n i st, bn g <= v_depth st -> stmt_post g st (vm_exec fuel tbl (emit_stmt ord inl P g s) n i st).

  Lemma tbl_lookup g cg : nth_error tbl g = Some cg -> exists fd, cg = emit_fn ord inl P fd.
  Proof.
    unfold tbl, emit_tbl. intro H. rewrite nth_error_map in H.
    destruct (nth_error P g) as [fd|]; cbn [option_map] in H; [|discriminate]. inversion H; subst. eauto.
  Qed.

  Lemma fn_exec fuel : (forall f', (f' < fuel)%nat -> InvB f') ->
    forall fd n i st, fn_post st (vm_exec fuel tbl (emit_fn ord inl P fd) n i st).
  Proof.
    intros IH fd n i st. unfold emit_fn. set (g := f_nogc fd).
    destruct fuel as [|f1]; [exact I|]. rewrite exec_seq.
    destruct (exec_enter f1 tbl g n i st) as [(st1 & -> & D1)| ->]; [|exact I].
    destruct f1 as [|f2]; [exact I|]. rewrite exec_seq.
    assert (Hpre : bn g <= v_depth st1) by lia.
    pose proof (IH f2 ltac:(lia) g (f_body fd) n i st1 Hpre) as HB.
    destruct (vm_exec f2 tbl (emit_stmt ord inl P g (f_body fd)) n i st1) as [o2 st2].
    unfold stmt_post in HB; cbn [fst snd] in HB. unfold fn_post.
    destruct o2; cbn [fst snd]; try contradiction; try lia; try exact I.
    assert (Hpre2 : bn g <= v_depth st2) by lia.
    destruct (exec_exit_ret f2 tbl g n i st2 Hpre2) as [[E1 E2] | E1];
      destruct (vm_exec f2 tbl (KSeq (kflag g KExit) KRet) n i st2) as [o3 st3]; cbn [fst snd] in *; subst o3; [lia | exact I].
  Qed.

  Lemma invA_step f : (forall f', (f' < S f)%nat -> InvA f' /\ InvB f') -> InvA (S f).
  Proof.
    intros IH inl' e n i st. destruct e; cbn [emit_expr].
    - cbn. reflexivity.
    - cbn. reflexivity.
    - cbn. lia.
    - destruct (if inl' then inline_of P f0 else None) as [c|] eqn:Ei.
      + destruct inl'; [|discriminate]. unfold inline_of, inline_of_gen in Ei.
        destruct (nth_error P f0) as [fd|]; [|discriminate].
        destruct (f_leaf fd && negb (inliner_skips_no_gc && f_nogc fd)); [|discriminate].
        destruct (inline_body (f_body fd)) as [e'|] eqn:Eb; [|discriminate].
        cbn [option_map] in Ei. inversion Ei; subst.
        apply emit_expr0_nocalls. eapply inline_body_nocalls; eassumption.
      + cbn [vm_exec]. destruct (nth_error tbl f0) as [cg|] eqn:En; [|cbn; lia].
        destruct (tbl_lookup _ _ En) as [fd ->].
        pose proof (fn_exec f (fun f' H => proj2 (IH f' ltac:(lia))) fd (n - 1)%Z 0%Z st) as HF.
        destruct (vm_exec f tbl (emit_fn ord inl P fd) (n - 1)%Z 0%Z st) as [o1 st1].
        unfold fn_post in HF; cbn [fst snd] in HF. unfold expr_post.
        destruct o1; cbn [fst snd]; try contradiction; try lia; exact I.
    - rewrite exec_seq.
      pose proof (proj1 (IH f ltac:(lia)) inl' e1 n i st) as H1.
      destruct (vm_exec f tbl (emit_expr inl' P e1) n i st) as [o1 st1].
      unfold expr_post in H1; cbn [fst snd] in H1. destruct o1; try contradiction; try exact H1.
      pose proof (proj1 (IH f ltac:(lia)) inl' e2 n i st1) as H2. unfold expr_post in *. rewrite <- H1.
      destruct (vm_exec f tbl (emit_expr inl' P e2) n i st1) as [o2 st2]; exact H2.
  Qed.

  Lemma expr_ret_exec f g n i st st0 ce : (forall f', (f' < S f)%nat -> InvA f') ->
    (exists inl' e, ce = emit_expr inl' P e) ->
    v_depth st + bn g = v_depth st0 ->
    stmt_post g st0 (vm_exec f tbl (KSeq ce KRet) n i st).
  Proof.
    intros IH (inl' & e & ->) Hd. destruct f as [|f']; [exact I|]. rewrite exec_seq.
    pose proof (IH f' ltac:(lia) inl' e n i st) as H1.
    destruct (vm_exec f' tbl (emit_expr inl' P e) n i st) as [o1 st1].
    unfold expr_post in H1; cbn [fst snd] in H1. unfold stmt_post.
    destruct o1; cbn [fst snd]; try contradiction; try lia; try exact I.
    destruct (exec_ret f' tbl n i st1) as [-> | ->]; cbn [fst snd]; [lia | exact I].
  Qed.

  Lemma invB_step f : (forall f', (f' < S f)%nat -> InvA f' /\ InvB f') -> InvA (S f) -> InvB (S f).
  Proof.
    intros IH HA g s n i st Hd. destruct s; cbn [emit_stmt].
    - cbn. reflexivity.
    - rewrite exec_seq.
      pose proof (proj2 (IH f ltac:(lia)) g s1 n i st Hd) as H1.
      destruct (vm_exec f tbl (emit_stmt ord inl P g s1) n i st) as [o1 st1].
      unfold stmt_post in H1; cbn [fst snd] in H1.
      destruct o1; try exact H1.
      assert (Hd1 : bn g <= v_depth st1) by lia.
      pose proof (proj2 (IH f ltac:(lia)) g s2 n i st1 Hd1) as H2. unfold stmt_post in *. rewrite <- H1.
      destruct (vm_exec f tbl (emit_stmt ord inl P g s2) n i st1) as [o2 st2]; exact H2.
    - pose proof (HA inl e n i st) as H1. unfold expr_post, stmt_post in *.
      destruct (vm_exec (S f) tbl (emit_expr inl P e) n i st) as [o1 st1]; cbn [fst snd] in *.
      destruct o1; try contradiction; try lia; exact I.
    - cbn [vm_exec]. destruct (ceval c n i); apply (proj2 (IH f ltac:(lia))); assumption.
    - cbn [vm_exec]. destruct (j <? k); [|cbn; reflexivity].
      pose proof (proj2 (IH f ltac:(lia)) g s n (Z.of_N j) st Hd) as H1.
      destruct (vm_exec f tbl (emit_stmt ord inl P g s) n (Z.of_N j) st) as [o1 st1].
      unfold stmt_post in H1; cbn [fst snd] in H1.
      destruct o1; try exact H1.
      + assert (Hd1 : bn g <= v_depth st1) by lia.
        pose proof (proj2 (IH f ltac:(lia)) g (SLoop (j + 1) k s) n i st1 Hd1) as H2. cbn [emit_stmt] in H2.
        unfold stmt_post in *. rewrite <- H1.
        destruct (vm_exec f tbl (KLoop (j + 1) k (emit_stmt ord inl P g s)) n i st1) as [o2 st2]; exact H2.
      + assert (Hd1 : bn g <= v_depth st1) by lia.
        pose proof (proj2 (IH f ltac:(lia)) g (SLoop (j + 1) k s) n i st1 Hd1) as H2. cbn [emit_stmt] in H2.
        unfold stmt_post in *. rewrite <- H1.
        destruct (vm_exec f tbl (KLoop (j + 1) k (emit_stmt ord inl P g s)) n i st1) as [o2 st2]; exact H2.
    - cbn. reflexivity.
    - cbn. reflexivity.
    - (* return *)
      destruct (ret_code_cases ord g (emit_expr inl P e) Hord) as [-> | ->].
      + rewrite exec_seq.
        destruct (exec_exit f tbl g n i st Hd) as [(st1 & -> & D1)| ->]; [|exact I].
        apply expr_ret_exec; [intros f' Hf; apply (IH f' Hf) | eauto | lia].
      + rewrite exec_seq.
        pose proof (proj1 (IH f ltac:(lia)) inl e n i st) as H1.
        destruct (vm_exec f tbl (emit_expr inl P e) n i st) as [o1 st1].
        unfold expr_post in H1; cbn [fst snd] in H1. unfold stmt_post.
        destruct o1; cbn [fst snd]; try contradiction; try lia; try exact I.
        assert (Hd1 : bn g <= v_depth st1) by lia.
        destruct (exec_exit_ret f tbl g n i st1 Hd1) as [[E1 E2] | E1];
          destruct (vm_exec f tbl (KSeq (kflag g KExit) KRet) n i st1) as [o3 st3]; cbn [fst snd] in *; subst o3; [lia | exact I].
    - cbn. reflexivity.
  Qed.

  Lemma inv_all fuel : InvA fuel /\ InvB fuel.
  Proof.
    induction fuel as [fuel IH] using (well_founded_induction lt_wf).
    destruct fuel as [|f].
    - split; [intros inl' e n i st | intros g s n i st _]; exact I.
    - assert (HA : InvA (S f)) by (apply invA_step; exact IH).
      split; [exact HA | apply invB_step; assumption].
  Qed.

  Lemma call_restores fuel g n i st :
    let r := vm_exec fuel tbl (KCall g) n i st in
    (fst r = ONormal -> v_depth (snd r) = v_depth st) /\
    (fst r = OErr -> v_depth st <= v_depth (snd r)) /\
    fst r <> OUnder /\ fst r <> ORet /\ fst r <> OBrk /\ fst r <> OCont.
  Proof.
    cbv zeta. pose proof (proj1 (inv_all fuel) false (ECall g) n i st) as H. cbn [emit_expr] in H.
    unfold expr_post in H. destruct (vm_exec fuel tbl (KCall g) n i st) as [o st']; cbn [fst snd] in *.
    destruct o; try contradiction; repeat split; intros; try discriminate; try congruence; assumption.
  Qed.

  Lemma run_restores (main : stmt) n0 fuel st :
    let r := vm_exec fuel tbl (emit_stmt ord inl P false main) n0 0%Z st in
    (fst r = ONormal \/ fst r = OBrk \/ fst r = OCont \/ fst r = ORet -> v_depth (snd r) = v_depth st) /\
    (fst r = OErr -> v_depth st <= v_depth (snd r)) /\
    fst r <> OUnder.
  Proof.
    cbv zeta. pose proof (proj2 (inv_all fuel) false main n0 0%Z st ltac:(cbn; lia)) as H.
    unfold stmt_post in H. destruct (vm_exec fuel tbl (emit_stmt ord inl P false main) n0 0%Z st) as [o st']; cbn [fst snd bn] in *.
    destruct o; try contradiction; repeat split; intros; try discriminate; try lia;
      try (destruct H0 as [?|[?|[?|?]]]; discriminate).
  Qed.
End Exec.

Lemma run_vm_raw_restores ord inl P n0 d0 : ord <> RetNoExit ->
  let r := run_vm_raw ord inl P n0 d0 in
  (fst r = ONormal \/ fst r = OBrk \/ fst r = OCont \/ fst r = ORet -> v_depth (snd r) = d0) /\
  (fst r = OErr -> d0 <= v_depth (snd r)) /\ fst r <> OUnder.
Proof.
  intro Hord. unfold run_vm_raw.
  exact (run_restores ord inl (p_fns P) Hord (p_main P) n0 FUEL (ndefs_state d0 (p_ndefs P))).
Qed.

(* with the restore step of run_fast: every run that does not run out of model fuel -- Ok or Err --
   leaves no_gc_depth exactly as it found it *)
Lemma run_vm_restores ord inl P n0 d0 : ord <> RetNoExit -> error_restores_depth = true ->
  let r := run_vm ord inl P n0 d0 in
  (fst r <> OFuel -> v_depth (snd r) = d0) /\ fst r <> OUnder.
Proof.
  intros Hord Hres. unfold run_vm. rewrite Hres. cbv zeta.
  pose proof (run_vm_raw_restores ord inl P n0 d0 Hord) as H. cbv zeta in H.
  destruct (run_vm_raw ord inl P n0 d0) as [o st]. cbn [fst snd] in H. destruct H as (A & B & C).
  destruct o; cbn [restore_on_err fst snd set_depth v_depth]; split; intros; try discriminate; try congruence;
    try (apply A; tauto).
Qed.

Lemma restores_flag : error_restores_depth = true.
Proof. reflexivity. Qed.

Lemma session_with_ok run :
  (forall P n0 d, fst (run P n0 d) <> OFuel -> v_depth (snd (run P n0 d)) = d) ->
  forall inputs d,
  Forall (fun r => fst r <> OFuel) (session_with run inputs d) ->
  Forall (fun r => snd r = d) (session_with run inputs d).
Proof.
  intro Hrun. induction inputs as [|[P n0] r IH]; intros d H; cbn [session_with] in *; [constructor|].
  inversion H as [|x l Hx Hl]; subst. cbn [fst] in Hx. unfold driver_next_depth in *.
  pose proof (Hrun P n0 d Hx) as R. rewrite R in *.
  constructor; [reflexivity | apply IH; assumption].
Qed.

Lemma session_restores ord inl : ord <> RetNoExit -> error_restores_depth = true -> forall inputs d,
  Forall (fun r => fst r <> OFuel) (session ord inl inputs d) ->
  Forall (fun r => snd r = d) (session ord inl inputs d).
Proof.
  intros Hord Hres. unfold session. apply session_with_ok.
  intros P n0 d. exact (proj1 (run_vm_restores ord inl P n0 d Hord Hres)).
Qed.

(* ------------------------------------------------------------------ while a @no_gc function is on the stack, every
   safepoint is reached at depth > 0 (repaired emission order), through any nesting of calls *)
Definition allpos (a b : vst) : Prop := v_safes b + v_pos a = v_pos b + v_safes a.
Lemma allpos_refl a : allpos a a. Proof. unfold allpos; lia. Qed.
Lemma allpos_trans a b c : allpos a b -> allpos b c -> allpos a c. Proof. unfold allpos; lia. Qed.
Lemma allpos_depth a d : allpos a (set_depth a d). Proof. unfold allpos, set_depth; cbn; lia. Qed.
Lemma allpos_safe a : 0 < v_depth a -> allpos a (safepoint a).
Proof. intro H. unfold allpos, safepoint, is_in_no_gc. destruct (0 <? v_depth a) eqn:E; cbn; lia. Qed.

Lemma exec_exit_ret_allpos fuel tbl g n i st : allpos st (snd (vm_exec fuel tbl (KSeq (kflag g KExit) KRet) n i st)).
Proof.
  destruct fuel as [|f]; [apply allpos_refl|]. rewrite exec_seq.
  destruct f as [|f']; [destruct g; apply allpos_refl|].
  destruct g; cbn [kflag vm_exec].
  - destruct (op_exit (v_depth st)); [|apply allpos_refl].
    destruct f'; cbn [vm_exec snd]; apply allpos_depth.
  - destruct f'; cbn [vm_exec snd]; apply allpos_refl.
Qed.

Section Region.
  Variable inl : bool.
  Variable P : list fn.
  Let ord := RetExitAfterExpr.
  Let tbl := emit_tbl ord inl P.
  Let Hord : ord <> RetNoExit. Proof. discriminate. Qed.

  Definition PosA (fuel : nat) : Prop :=
    forall inl' e n i st, 0 < v_depth st -> allpos st (snd (vm_exec fuel tbl (emit_expr inl' P e) n i st)).
  Definition PosB (fuel : nat) : Prop :=
    forall g s n i st, 0 < v_depth st -> allpos st (snd (vm_exec fuel tbl (emit_stmt ord inl P g s) n i st)).

  Lemma expr0_allpos fuel : forall e n i st, no_calls e = true -> 0 < v_depth st ->
    allpos st (snd (vm_exec fuel tbl (emit_expr0 e) n i st)).
  Proof.
    induction fuel as [|f IH]; intros e n i st Hn Hd; [apply allpos_refl|].
    destruct e; cbn [emit_expr0 no_calls] in *; try discriminate; cbn [vm_exec snd]; try apply allpos_refl.
    - apply allpos_safe; assumption.
    - apply andb_true_iff in Hn as [Ha Hb]. fold (emit_expr0 e1) (emit_expr0 e2).
      pose proof (IH e1 n i st Ha Hd) as H1.
      pose proof (emit_expr0_nocalls f tbl e1 n i st Ha) as D1. unfold expr_post in D1.
      destruct (vm_exec f tbl (emit_expr0 e1) n i st) as [o1 st1]; cbn [fst snd] in *.
      destruct o1; try exact H1.
      eapply allpos_trans; [exact H1|]. apply IH; [assumption | lia].
  Qed.

  Lemma fn_allpos fuel : (forall f', (f' < fuel)%nat -> PosB f') ->
    forall fd n i st, f_nogc fd = true \/ 0 < v_depth st ->
    allpos st (snd (vm_exec fuel tbl (emit_fn ord inl P fd) n i st)).
  Proof.
    intros IH fd n i st Hpre. unfold emit_fn. set (g := f_nogc fd) in *.
    destruct fuel as [|f1]; [apply allpos_refl|]. rewrite exec_seq.
    assert (E : (exists st1, vm_exec f1 tbl (kflag g KEnter) n i st = (ONormal, st1) /\ allpos st st1 /\ 0 < v_depth st1 /\ bn g <= v_depth st1)
                \/ vm_exec f1 tbl (kflag g KEnter) n i st = (OFuel, st)).
    { destruct f1; [right; reflexivity|]. left. destruct g eqn:Eg; cbn [kflag vm_exec].
      - eexists; split; [reflexivity|]. split; [apply allpos_depth|]. unfold set_depth, op_enter; cbn [v_depth bn]. lia.
      - eexists; split; [reflexivity|]. split; [apply allpos_refl|]. cbn [bn]. destruct Hpre as [H|H]; [discriminate | lia]. }
    destruct E as [(st1 & -> & A1 & D1 & B1)| ->]; [|apply allpos_refl].
    destruct f1 as [|f2]; [exact A1|]. rewrite exec_seq.
    pose proof (IH f2 ltac:(lia) g (f_body fd) n i st1 D1) as HB.
    pose proof (proj2 (inv_all ord inl P Hord f2) g (f_body fd) n i st1 B1) as HD. unfold stmt_post in HD.
    fold tbl in HD.
    destruct (vm_exec f2 tbl (emit_stmt ord inl P g (f_body fd)) n i st1) as [o2 st2]; cbn [fst snd] in *.
    destruct o2; try (eapply allpos_trans; [exact A1 | exact HB]).
    eapply allpos_trans; [exact A1|]. eapply allpos_trans; [exact HB|]. apply exec_exit_ret_allpos.
  Qed.

  Lemma posA_step f : (forall f', (f' < S f)%nat -> PosA f' /\ PosB f') -> PosA (S f).
  Proof.
    intros IH inl' e n i st Hd. destruct e; cbn [emit_expr].
    - apply allpos_refl.
    - cbn [vm_exec snd]. apply allpos_safe; assumption.
    - apply allpos_refl.
    - destruct (if inl' then inline_of P f0 else None) as [c|] eqn:Ei.
      + destruct inl'; [|discriminate]. unfold inline_of, inline_of_gen in Ei.
        destruct (nth_error P f0) as [fd|]; [|discriminate].
        destruct (f_leaf fd && negb (inliner_skips_no_gc && f_nogc fd)); [|discriminate].
        destruct (inline_body (f_body fd)) as [e'|] eqn:Eb; [|discriminate].
        cbn [option_map] in Ei. inversion Ei; subst.
        apply expr0_allpos; [eapply inline_body_nocalls; eassumption | assumption].
      + cbn [vm_exec]. destruct (nth_error tbl f0) as [cg|] eqn:En; [|apply allpos_refl].
        destruct (tbl_lookup ord inl P _ _ En) as [fd ->].
        pose proof (fn_allpos f (fun f' H => proj2 (IH f' ltac:(lia))) fd (n - 1)%Z 0%Z st (or_intror Hd)) as HF.
        destruct (vm_exec f tbl (emit_fn ord inl P fd) (n - 1)%Z 0%Z st) as [o1 st1]. cbn [snd] in HF.
        destruct o1; exact HF.
    - rewrite exec_seq.
      pose proof (proj1 (IH f ltac:(lia)) inl' e1 n i st Hd) as H1.
      pose proof (proj1 (inv_all ord inl P Hord f) inl' e1 n i st) as D1. unfold expr_post in D1. fold tbl in D1.
      destruct (vm_exec f tbl (emit_expr inl' P e1) n i st) as [o1 st1]; cbn [fst snd] in *.
      destruct o1; try exact H1.
      eapply allpos_trans; [exact H1|]. apply (proj1 (IH f ltac:(lia))). lia.
  Qed.

  Lemma posB_step f : (forall f', (f' < S f)%nat -> PosA f' /\ PosB f') -> PosA (S f) -> PosB (S f).
  Proof.
    intros IH HA g s n i st Hd. destruct s; cbn [emit_stmt].
    - apply allpos_refl.
    - rewrite exec_seq.
      pose proof (proj2 (IH f ltac:(lia)) g s1 n i st Hd) as H1.
      destruct (vm_exec f tbl (emit_stmt ord inl P g s1) n i st) as [o1 st1] eqn:E1; cbn [snd] in *.
      destruct o1; try exact H1.
      (* the depth after a statement that completed normally is the depth before it, hence still > 0 *)
      destruct (N.eq_dec (v_depth st1) 0) as [Z0|NZ].
      + eapply allpos_trans; [exact H1|]. exfalso.
        destruct g.
        * (* g = true *) destruct (N.le_gt_cases (bn true) (v_depth st)) as [Hle|Hgt]; [|cbn [bn] in Hgt; lia].
          pose proof (proj2 (inv_all ord inl P Hord f) true s1 n i st Hle) as HD. unfold stmt_post in HD. fold tbl in HD.
          rewrite E1 in HD. cbn [fst snd] in HD. lia.
        * pose proof (proj2 (inv_all ord inl P Hord f) false s1 n i st ltac:(cbn [bn]; lia)) as HD. unfold stmt_post in HD. fold tbl in HD.
          rewrite E1 in HD. cbn [fst snd] in HD. lia.
      + eapply allpos_trans; [exact H1|]. apply (proj2 (IH f ltac:(lia))). lia.
    - apply HA; assumption.
    - cbn [vm_exec]. destruct (ceval c n i); apply (proj2 (IH f ltac:(lia))); assumption.
    - cbn [vm_exec]. destruct (j <? k); [|apply allpos_refl].
      pose proof (proj2 (IH f ltac:(lia)) g s n (Z.of_N j) st Hd) as H1.
      assert (Hle : bn g <= v_depth st) by (destruct g; cbn [bn]; lia).
      pose proof (proj2 (inv_all ord inl P Hord f) g s n (Z.of_N j) st Hle) as HD. unfold stmt_post in HD. fold tbl in HD.
      destruct (vm_exec f tbl (emit_stmt ord inl P g s) n (Z.of_N j) st) as [o1 st1]; cbn [fst snd] in *.
      destruct o1; try exact H1.
      + eapply allpos_trans; [exact H1|].
        pose proof (proj2 (IH f ltac:(lia)) g (SLoop (j + 1) k s) n i st1 ltac:(lia)) as H2. cbn [emit_stmt] in H2. exact H2.
      + eapply allpos_trans; [exact H1|].
        pose proof (proj2 (IH f ltac:(lia)) g (SLoop (j + 1) k s) n i st1 ltac:(lia)) as H2. cbn [emit_stmt] in H2. exact H2.
    - apply allpos_refl.
    - apply allpos_refl.
    - (* return: the expression first (inside the region), then ExitNoGc; Return *)
      unfold ord at 1. cbn [ret_code]. rewrite exec_seq.
      pose proof (proj1 (IH f ltac:(lia)) inl e n i st Hd) as H1.
      destruct (vm_exec f tbl (emit_expr inl P e) n i st) as [o1 st1]; cbn [snd] in *.
      destruct o1; try exact H1.
      eapply allpos_trans; [exact H1 | apply exec_exit_ret_allpos].
    - cbn [vm_exec snd]. apply allpos_safe; assumption.
  Qed.

  Lemma pos_all fuel : PosA fuel /\ PosB fuel.
  Proof.
    induction fuel as [fuel IH] using (well_founded_induction lt_wf).
    destruct fuel as [|f].
    - split; [intros inl' e n i st _ | intros g s n i st _]; apply allpos_refl.
    - assert (HA : PosA (S f)) by (apply posA_step; exact IH).
      split; [exact HA | apply posB_step; assumption].
  Qed.

  Lemma nogc_call_allpos fuel g fd n i st : nth_error P g = Some fd -> f_nogc fd = true ->
    allpos st (snd (vm_exec fuel tbl (KCall g) n i st)).
  Proof.
    intros Hn Hg. destruct fuel as [|f]; [apply allpos_refl|]. cbn [vm_exec].
    assert (En : nth_error tbl g = Some (emit_fn ord inl P fd)).
    { unfold tbl, emit_tbl. rewrite nth_error_map, Hn. reflexivity. }
    rewrite En.
    pose proof (fn_allpos f (fun f' _ => proj2 (pos_all f')) fd (n - 1)%Z 0%Z st (or_introl Hg)) as HF.
    destruct (vm_exec f tbl (emit_fn ord inl P fd) (n - 1)%Z 0%Z st) as [o1 st1]. cbn [snd] in HF.
    destruct o1; exact HF.
  Qed.
End Region.

Lemma nogc_call_never_at_depth0 inl P fuel g fd n i st : nth_error P g = Some fd -> f_nogc fd = true ->
  let r := vm_exec fuel (emit_tbl return_exit_order inl P) (KCall g) n i st in
  v_safes (snd r) + v_pos st = v_pos (snd r) + v_safes st.
Proof. intros Hn Hg. exact (nogc_call_allpos inl P fuel g fd n i st Hn Hg). Qed.

(* no @no_gc function anywhere: nothing ever changes the depth, whatever the outcome *)
Fixpoint noee (c : code) : bool :=
  match c with
  | KEnter | KExit => false
  | KSeq a b | KIf _ a b => noee a && noee b
  | KLoop _ _ b => noee b
  | _ => true
  end.

Lemma noee_exec tbl : Forall (fun c => noee c = true) tbl ->
  forall fuel c n i st, noee c = true -> v_depth (snd (vm_exec fuel tbl c n i st)) = v_depth st.
Proof.
  intro Ht. induction fuel as [|f IH]; intros c n i st Hc; [reflexivity|].
  destruct c as [| | | | | f0 | c1 c2 | cd c1 c2 | j k c | | | ]; cbn [noee] in Hc; try discriminate; cbn [vm_exec]; try reflexivity.
  - destruct (nth_error tbl f0) as [cg|] eqn:En; [|reflexivity].
    assert (Hg : noee cg = true) by (eapply (proj1 (Forall_forall _ _) Ht); eapply nth_error_In; eassumption).
    pose proof (IH cg (n - 1)%Z 0%Z st Hg) as H.
    destruct (vm_exec f tbl cg (n - 1)%Z 0%Z st) as [o st']; destruct o; exact H.
  - apply andb_true_iff in Hc as [Ha Hb]. pose proof (IH c1 n i st Ha) as H1.
    destruct (vm_exec f tbl c1 n i st) as [o st']; cbn [snd] in H1.
    destruct o; try exact H1. rewrite <- H1. apply IH; assumption.
  - apply andb_true_iff in Hc as [Ha Hb]. destruct (ceval cd n i); apply IH; assumption.
  - destruct (j <? k); [|reflexivity].
    pose proof (IH c n (Z.of_N j) st Hc) as H1.
    destruct (vm_exec f tbl c n (Z.of_N j) st) as [o st']; cbn [snd] in H1.
    destruct o; try exact H1; rewrite <- H1; apply IH; exact Hc.
Qed.

Lemma noee_expr0 e : noee (emit_expr0 e) = true.
Proof. induction e; cbn; try reflexivity. rewrite IHe1, IHe2; reflexivity. Qed.
Lemma noee_expr inl P e : noee (emit_expr inl P e) = true.
Proof.
  induction e; cbn [emit_expr noee]; try reflexivity.
  - destruct inl; [|reflexivity]. unfold inline_of, inline_of_gen. destruct (nth_error P f); [|reflexivity].
    destruct (f_leaf f0 && negb (inliner_skips_no_gc && f_nogc f0)); [|reflexivity].
    destruct (inline_body (f_body f0)); cbn; [apply noee_expr0 | reflexivity].
  - rewrite IHe1, IHe2; reflexivity.
Qed.
Lemma noee_stmt ord inl P s : noee (emit_stmt ord inl P false s) = true.
Proof.
  induction s; cbn [emit_stmt noee]; try reflexivity; try (rewrite IHs1, IHs2; reflexivity); try assumption.
  - apply noee_expr.
  - destruct ord; cbn [ret_code kflag noee]; rewrite noee_expr; reflexivity.
Qed.

Lemma no_nogc_depth_constant ord inl P n0 d0 :
  Forall (fun f => f_nogc f = false) (p_fns P) -> v_depth (snd (run_vm ord inl P n0 d0)) = d0.
Proof.
  intro H. assert (R : v_depth (snd (run_vm_raw ord inl P n0 d0)) = d0).
  2:{ unfold run_vm. destruct (run_vm_raw ord inl P n0 d0) as [o st]. cbn [snd] in R.
      destruct o; cbn [restore_on_err snd]; try exact R; destruct error_restores_depth; cbn [snd set_depth v_depth]; auto. }
  unfold run_vm_raw. rewrite noee_exec; [reflexivity | | apply noee_stmt].
  unfold emit_tbl. apply Forall_map. eapply Forall_impl; [|exact H].
  intros f Hf. unfold emit_fn. rewrite Hf. cbn [kflag noee]. rewrite noee_stmt. reflexivity.
Qed.

(* ------------------------------------------------------------------ witnesses about the OLD definitions
   (the three defects were repaired in /repo; these lemmas document what the old code did and are stated
   about explicitly old parameters: RetExitFirst, run_vm_raw (no restore step), inline_of_gen false) *)
Local Open Scope Z_scope.
(* `@no_gc fn f(a, b) { return a + b }` *)
Definition w_leaf_ret : fn := mkFn true true (sq [SReturn ESafe]).
(* `@no_gc fn g(a, b) { a + b }` *)
Definition w_leaf_imp : fn := mkFn true true (sq [SExpr ESafe]).
(* `@no_gc fn h(n, z) { acc = acc + sx; zq = 10 / z; return n }` *)
Definition w_fail_in_region : fn := mkFn true false (sq [SExpr ESafe; SExpr EFail; SReturn EAtom]).
(* `@no_gc fn h2(n, z) { acc = acc + sx; return 10 / z }` *)
Definition w_fail_in_return : fn := mkFn true false (sq [SExpr ESafe; SReturn EFail]).
Definition prog_call (f : fn) : prog := mkProg [f] (sq [SExpr (ECall 0)]) 1.
Definition prog_safe : prog := mkProg [] (sq [SExpr ESafe]) 0.

Lemma old_return_expr_path_witness :
  path (emit_fn RetExitFirst false [] w_leaf_ret) [VEnter; VExit; VSafe] CReturned /\
  ~ alloc_pos 0 [VEnter; VExit; VSafe].
Proof.
  split.
  - unfold emit_fn, w_leaf_ret. cbn.
    apply (P_seq_n KEnter _ [VEnter] [VExit; VSafe]); [constructor|].
    apply P_seq_x; [|discriminate].
    apply P_seq_x; [|discriminate].
    apply (P_seq_n KExit _ [VExit] [VSafe]); [constructor|].
    apply (P_seq_n KSafe _ [VSafe] []); constructor.
  - cbn. intros [H _]. lia.
Qed.

Lemma old_error_leak_witness :
  session_with (run_vm_raw RetExitFirst false) [(prog_call w_fail_in_region, 1); (prog_safe, 1); (prog_safe, 1)] 0
  = [(OErr, 1%N); (ONormal, 1%N); (ONormal, 1%N)]
  /\ session_with (run_vm_raw RetExitFirst false) [(prog_call w_fail_in_return, 1); (prog_safe, 1)] 0 = [(OErr, 0%N); (ONormal, 0%N)].
Proof. vm_compute. split; reflexivity. Qed.

Lemma old_inliner_witness : inline_of_gen false [w_leaf_imp] 0 = Some KSafe.
Proof. reflexivity. Qed.

(* the same inputs on the repaired definitions *)
Lemma repaired_witnesses :
  session return_exit_order false [(prog_call w_fail_in_region, 1); (prog_safe, 1); (prog_call w_fail_in_return, 1); (prog_safe, 1)] 0
  = [(OErr, 0%N); (ONormal, 0%N); (OErr, 0%N); (ONormal, 0%N)] /\
  (let '(_, st) := run_vm return_exit_order true (prog_call w_leaf_ret) 1 0 in v_pos st = 1%N /\ v_safes st = 2%N) /\
  (let '(_, st) := run_vm return_exit_order true (prog_call w_leaf_imp) 1 0 in v_pos st = 1%N /\ v_safes st = 2%N).
Proof. vm_compute. repeat split; reflexivity. Qed.

(* ------------------------------------------------------------------ every call site of maybe_collect *)
Lemma sites_covered_ok : sites_covered = true.
Proof. vm_compute. reflexivity. Qed.

(* for every extracted call site of maybe_collect there is a construct of the model that reaches it, its code is the
   safepoint instruction, and inside every @no_gc function that instruction (like every other allocation point) only
   runs at depth > 0 *)
Lemma every_site_in_region :
  Forall (fun site =>
            exists c, site_eqb (construct_site c) site = true /\ construct_code c = KSafe /\
              forall inl P f t m, f_nogc f = true -> path (emit_fn return_exit_order inl P f) t m -> alloc_pos 0 t)
         GcRootFields.safepoint_sites.
Proof.
  apply Forall_forall. intros site Hin.
  pose proof sites_covered_ok as H. unfold sites_covered in H. apply andb_true_iff in H as [H _].
  rewrite forallb_forall in H. specialize (H site Hin). apply existsb_exists in H as (c & _ & Hc).
  exists c. split; [exact Hc|]. split; [reflexivity|]. intros inl P f t m Hg Hp. eapply region_alloc_pos_lemma; eassumption.
Qed.
