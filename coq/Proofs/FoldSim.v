(* The constant folder preserves the evaluator on EVERY program of the modelled language:
   closures, named functions, recursion, higher-order calls included.  A closure created by the
   folded program carries the folded body; [Tv]/[Tst] (Proofs/ValueMap.v) push that difference
   through values and states, and the simulation says: from related states the folded syntax
   computes the related result.  Only hypothesis: the original run neither runs out of fuel nor
   leaves the modelled fragment (error class EUnsupported). *)
From Coq Require Import String.
From Aelys Require Import Base.Tactics Model.Lang Model.Eval Extracted.OptConsts Model.Opt.Fold
  Model.PureEval Proofs.EvalProofs Proofs.FoldProofs Proofs.PureProofs Proofs.EvalMono
  Proofs.FoldEvalProofs Proofs.ValueMap.
Local Open Scope Z_scope.

Notation FB := (map fold_stmt).
Notation T := (Tv FB).
Notation TS := (Tst FB).

Definition good {A} (r : res A) : Prop := r <> RFuel /\ r <> RErr EUnsupported.
Lemma good_ok {A} (a : A) : good (ROk a).
Proof. split; discriminate. Qed.
Lemma good_err_cast {A B} k : good (@RErr A k) -> good (@RErr B k).
Proof. intros [_ H]. split; [discriminate|]. intro E. apply H. inversion E. reflexivity. Qed.
Lemma good_nf {A} (r : res A) : good r -> nf r.
Proof. intros [H _]. exact H. Qed.

Record fsim (f : nat) : Prop := {
  fs_expr : forall d env st e st' r, eval_expr f d env st e = (st', r) -> good r ->
            eval_expr f d env (TS st) (fold_expr e) = (TS st', Tr FB r);
  fs_args : forall d env st es st' r, eval_args f d env st es = (st', r) -> good r ->
            eval_args f d env (TS st) (map fold_expr es) = (TS st', Trl FB r);
  fs_fmt : forall d env st ps st' r, eval_fmt f d env st ps = (st', r) -> good r ->
            eval_fmt f d env (TS st) (map fold_part ps) = (TS st', r);
  fs_app : forall d st vf vs st' r, apply_fun f d st vf vs = (st', r) -> good r ->
            apply_fun f d (TS st) (T vf) (map T vs) = (TS st', Tr FB r);
  fs_stmt : forall d top env st s st' r, exec_stmt f d top env st s = (st', r) -> good r ->
            exec_stmt f d top env (TS st) (fold_stmt s) = (TS st', Trce FB r);
  fs_stmts : forall d top mode env st ss st' r, exec_stmts f d top mode env st ss = (st', r) -> good r ->
            exec_stmts f d top mode env (TS st) (map fold_stmt ss) = (TS st', Trc FB r);
  fs_branch : forall d env st s st' r, exec_branch f d env st s = (st', r) -> good r ->
            exec_branch f d env (TS st) (fold_stmt s) = (TS st', Trc FB r);
  fs_while : forall d env st c b st' r, exec_while f d env st c b = (st', r) -> good r ->
            exec_while f d env (TS st) (fold_expr c) (fold_stmt b) = (TS st', Trc FB r);
  fs_for : forall d env st x i hi incl step b st' r, exec_for f d env st x i hi incl step b = (st', r) -> good r ->
            exec_for f d env (TS st) x i hi incl step (fold_stmt b) = (TS st', Trc FB r);
  fs_foreach : forall d env st x items b st' r, exec_foreach f d env st x items b = (st', r) -> good r ->
            exec_foreach f d env (TS st) x (map T items) (fold_stmt b) = (TS st', Trc FB r)
}.

Lemma fsim_O : fsim O.
Proof.
  constructor; intros;
    match goal with H : _ = (_, ?r), N : good ?r |- _ => cbn in H; inversion H; subst; exfalso; apply (proj1 N); reflexivity end.
Qed.

(* ------------------------------------------------------------------ tactics *)
(* push the value map outwards through every primitive the goal applies to mapped arguments *)
Ltac tmap :=
  cbn [Tr Trl Trc Trce Tc Tv Tsr fst snd option_map map];
  rewrite ?lookup_var_T, ?assign_var_T, ?alloc_cell_T, ?set_cell_T, ?alloc_obj_T, ?set_obj_T,
    ?set_global_T, ?emit_T, ?bind_params_T, ?to_str_T, ?truthy_T, ?eval_binop_T, ?eval_unop_T,
    ?index_get_T, ?index_set_T, ?call_method_T, ?nth_obj_T, ?map_length, ?declares_fold;
  repeat rewrite alloc_cell_T' by reflexivity;
  cbn [Tr Trl Trc Trce Tc Tv Tsr fst snd option_map map].

Ltac gfin H N :=
  lazymatch type of H with
  | (_, _) = (_, _) =>
      inversion H; subst; tmap;
      first [ reflexivity
            | exfalso; apply (proj1 N); reflexivity
            | exfalso; apply (proj2 N); reflexivity ]
  | _ = (_, _) => tmap; rewrite H; tmap; reflexivity
  end.

Ltac grw L := let P := fresh "P" in pose proof L as P; cbn [fold_stmt option_map map] in P; rewrite P; clear P.

(* one sub-evaluation: destruct it in H, transport it to the goal through the IH *)
Ltac gcase IHL H N E r1 :=
  destruct r1;
  [ grw (IHL _ _ E (good_ok _)); clear E
  | cbn beta iota zeta in H; inversion H; subst; grw (IHL _ _ E (good_err_cast _ N)); tmap; reflexivity
  | cbn beta iota zeta in H; inversion H; subst; exfalso; apply (proj1 N); reflexivity ].

Ltac gsub IH H N :=
  lazymatch type of H with
  | context [eval_expr ?f ?a0 ?a1 ?a2 ?a3] =>
      let E := fresh "E" in let s1 := fresh "st" in let r1 := fresh "r" in
      destruct (eval_expr f a0 a1 a2 a3) as [s1 r1] eqn:E;
      gcase (fs_expr _ IH a0 a1 a2 a3) H N E r1
  | context [eval_args ?f ?a0 ?a1 ?a2 ?a3] =>
      let E := fresh "E" in let s1 := fresh "st" in let r1 := fresh "r" in
      destruct (eval_args f a0 a1 a2 a3) as [s1 r1] eqn:E;
      gcase (fs_args _ IH a0 a1 a2 a3) H N E r1
  | context [eval_fmt ?f ?a0 ?a1 ?a2 ?a3] =>
      let E := fresh "E" in let s1 := fresh "st" in let r1 := fresh "r" in
      destruct (eval_fmt f a0 a1 a2 a3) as [s1 r1] eqn:E;
      gcase (fs_fmt _ IH a0 a1 a2 a3) H N E r1
  | context [apply_fun ?f ?a0 ?a1 ?a2 ?a3] =>
      let E := fresh "E" in let s1 := fresh "st" in let r1 := fresh "r" in
      destruct (apply_fun f a0 a1 a2 a3) as [s1 r1] eqn:E;
      gcase (fs_app _ IH a0 a1 a2 a3) H N E r1
  | context [exec_stmt ?f ?a0 ?a1 ?a2 ?a3 ?a4] =>
      let E := fresh "E" in let s1 := fresh "st" in let r1 := fresh "r" in
      destruct (exec_stmt f a0 a1 a2 a3 a4) as [s1 r1] eqn:E;
      gcase (fs_stmt _ IH a0 a1 a2 a3 a4) H N E r1
  | context [exec_stmts ?f ?a0 ?a1 ?a2 ?a3 ?a4 ?a5] =>
      let E := fresh "E" in let s1 := fresh "st" in let r1 := fresh "r" in
      destruct (exec_stmts f a0 a1 a2 a3 a4 a5) as [s1 r1] eqn:E;
      gcase (fs_stmts _ IH a0 a1 a2 a3 a4 a5) H N E r1
  | context [exec_branch ?f ?a0 ?a1 ?a2 ?a3] =>
      let E := fresh "E" in let s1 := fresh "st" in let r1 := fresh "r" in
      destruct (exec_branch f a0 a1 a2 a3) as [s1 r1] eqn:E;
      gcase (fs_branch _ IH a0 a1 a2 a3) H N E r1
  | context [exec_while ?f ?a0 ?a1 ?a2 ?a3 ?a4] =>
      let E := fresh "E" in let s1 := fresh "st" in let r1 := fresh "r" in
      destruct (exec_while f a0 a1 a2 a3 a4) as [s1 r1] eqn:E;
      gcase (fs_while _ IH a0 a1 a2 a3 a4) H N E r1
  | context [exec_for ?f ?a0 ?a1 ?a2 ?a3 ?a4 ?a5 ?a6 ?a7 ?a8] =>
      let E := fresh "E" in let s1 := fresh "st" in let r1 := fresh "r" in
      destruct (exec_for f a0 a1 a2 a3 a4 a5 a6 a7 a8) as [s1 r1] eqn:E;
      gcase (fs_for _ IH a0 a1 a2 a3 a4 a5 a6 a7 a8) H N E r1
  | context [exec_foreach ?f ?a0 ?a1 ?a2 ?a3 ?a4 ?a5] =>
      let E := fresh "E" in let s1 := fresh "st" in let r1 := fresh "r" in
      destruct (exec_foreach f a0 a1 a2 a3 a4 a5) as [s1 r1] eqn:E;
      gcase (fs_foreach _ IH a0 a1 a2 a3 a4 a5) H N E r1
  end; cbn beta iota zeta in H |- *; tmap.

Ltac gsplit H :=
  lazymatch type of H with
  | context [if ?c then _ else _] => destruct c eqn:?
  | context [let (_, _) := alloc_cell ?s ?v in _] => destruct (alloc_cell s v) eqn:?
  | context [let (_, _) := alloc_obj ?s ?v in _] => destruct (alloc_obj s v) eqn:?
  | context [let (_, _) := bind_params ?a ?b ?c ?d in _] => destruct (bind_params a b c d) eqn:?
  | context [match ?x with _ => _ end] => is_var x; destruct x
  end; cbn beta iota zeta in H |- *; tmap.

Ltac ggo IH H N := tmap; repeat (first [ gfin H N | gsub IH H N | gsplit H ]).

(* ------------------------------------------------------------------ statements *)
Lemma fs_stmt_S f (IH : fsim f) : forall d top env st s st' r,
  exec_stmt (S f) d top env st s = (st', r) -> good r ->
  exec_stmt (S f) d top env (TS st) (fold_stmt s) = (TS st', Trce FB r).
Proof.
  intros d top env st s st' r H N.
  destruct s as [e|x m e|b|c t e|c b|x lo hi incl step b|x e b|e| | |name params body decos|k]; cbn [fold_stmt option_map];
    rewrite exec_stmt_S in H; rewrite exec_stmt_S; cbn beta iota zeta in H |- *.
  all: try solve [ggo IH H N].
  - (* SFun: the closure created by the folded declaration is the image of the original's *)
    destruct top.
    + change (VClo name params (FB body) env) with (T (VClo name params body env)).
      rewrite set_global_T. inversion H; subst. reflexivity.
    + rewrite alloc_cell_T' by reflexivity. destruct (alloc_cell st VNull) as [st1 l] eqn:A. cbn [fst snd].
      change (VClo name params (FB body) ((name, l) :: env)) with (T (VClo name params body ((name, l) :: env))).
      rewrite set_cell_T. inversion H; subst. reflexivity.
Qed.

Lemma fs_args_S f (IH : fsim f) : forall d env st es st' r,
  eval_args (S f) d env st es = (st', r) -> good r ->
  eval_args (S f) d env (TS st) (map fold_expr es) = (TS st', Trl FB r).
Proof.
  intros d env st es st' r H N. destruct es as [|e es]; cbn [map] in *;
    rewrite eval_args_S in H; rewrite eval_args_S; cbn beta iota zeta in H |- *; ggo IH H N.
Qed.

Lemma fs_fmt_S f (IH : fsim f) : forall d env st ps st' r,
  eval_fmt (S f) d env st ps = (st', r) -> good r ->
  eval_fmt (S f) d env (TS st) (map fold_part ps) = (TS st', r).
Proof.
  intros d env st ps st' r H N. destruct ps as [|p ps]; cbn [map] in *;
    [rewrite eval_fmt_S in H; rewrite eval_fmt_S; ggo IH H N|].
  destruct p; cbn [fold_part] in *;
    rewrite eval_fmt_S in H; rewrite eval_fmt_S; cbn beta iota zeta in H |- *; ggo IH H N.
Qed.

(* calling a builtin, characterised by string tests instead of the compiled pattern match *)
Definition builtin_spec (st : state) (name : string) (vs : list value) : state * res value :=
  if String.eqb name "println" then
    match vs with
    | [v] => (emit st (to_str 8 st v ++ String (Ascii.ascii_of_N 10) ""), ROk VNull)
    | _ => (st, RErr EUnsupported)
    end
  else if String.eqb name "print" then
    match vs with
    | [v] => (emit st (to_str 8 st v), ROk VNull)
    | _ => (st, RErr EUnsupported)
    end
  else (st, RErr ENotCallable).

Lemma apply_builtin f d st name vs : apply_fun (S f) d st (VBuiltin name) vs = builtin_spec st name vs.
Proof.
  rewrite apply_fun_S. unfold builtin_spec.
  repeat match goal with
         | |- context [match ?x with _ => _ end] => is_var x; destruct x; cbn [String.eqb Ascii.eqb Bool.eqb andb]; try reflexivity
         end.
Qed.

Lemma builtin_spec_T st name vs :
  builtin_spec (TS st) name (map T vs) = (TS (fst (builtin_spec st name vs)), Tr FB (snd (builtin_spec st name vs))).
Proof.
  unfold builtin_spec.
  destruct (String.eqb name "println"); [|destruct (String.eqb name "print")];
    try reflexivity; destruct vs as [|v [|w vs]]; cbn [map fst snd Tr Tv]; rewrite ?to_str_T, ?emit_T; reflexivity.
Qed.

Lemma fs_app_S f (IH : fsim f) : forall d st vf vs st' r,
  apply_fun (S f) d st vf vs = (st', r) -> good r ->
  apply_fun (S f) d (TS st) (T vf) (map T vs) = (TS st', Tr FB r).
Proof.
  intros d st vf vs st' r H N.
  destruct vf; cbn [Tv].
  1-8: rewrite apply_fun_S in H; rewrite apply_fun_S; cbn beta iota zeta in H |- *; solve [ggo IH H N].
  rewrite apply_builtin in H. rewrite apply_builtin, builtin_spec_T. rewrite H. reflexivity.
Qed.

Lemma fs_stmts_S f (IH : fsim f) : forall d top mode env st ss st' r,
  exec_stmts (S f) d top mode env st ss = (st', r) -> good r ->
  exec_stmts (S f) d top mode env (TS st) (map fold_stmt ss) = (TS st', Trc FB r).
Proof.
  intros d top mode env st ss st' r H N.
  destruct ss as [|s ss]; cbn [map] in *;
    [rewrite exec_stmts_S in H; rewrite exec_stmts_S; ggo IH H N|].
  destruct ss as [|s2 ss]; cbn [map] in *.
  - (* single statement: the tail rules look at its shape, which folding keeps *)
    rewrite exec_stmts_S in H; rewrite exec_stmts_S.
    destruct mode as [|mode]; cbn beta iota zeta in H |- *.
    + ggo IH H N.
    + destruct s; cbn [fold_stmt option_map] in *; cbn beta iota zeta in H |- *; ggo IH H N.
  - rewrite exec_stmts_S in H; rewrite exec_stmts_S. cbn beta iota zeta in H |- *. ggo IH H N.
Qed.

Lemma fs_branch_S f (IH : fsim f) : forall d env st s st' r,
  exec_branch (S f) d env st s = (st', r) -> good r ->
  exec_branch (S f) d env (TS st) (fold_stmt s) = (TS st', Trc FB r).
Proof.
  intros d env st s st' r H N.
  destruct s; cbn [fold_stmt option_map];
    rewrite exec_branch_S in H; rewrite exec_branch_S; cbn beta iota zeta in H |- *; ggo IH H N.
Qed.

Lemma fs_while_S f (IH : fsim f) : forall d env st c b st' r,
  exec_while (S f) d env st c b = (st', r) -> good r ->
  exec_while (S f) d env (TS st) (fold_expr c) (fold_stmt b) = (TS st', Trc FB r).
Proof.
  intros d env st c b st' r H N.
  rewrite exec_while_S in H; rewrite exec_while_S; cbn beta iota zeta in H |- *; ggo IH H N.
Qed.

Lemma fs_for_S f (IH : fsim f) : forall d env st x i hi incl step b st' r,
  exec_for (S f) d env st x i hi incl step b = (st', r) -> good r ->
  exec_for (S f) d env (TS st) x i hi incl step (fold_stmt b) = (TS st', Trc FB r).
Proof.
  intros d env st x i hi incl step b st' r H N.
  rewrite exec_for_S in H; rewrite exec_for_S; cbn beta iota zeta in H |- *; ggo IH H N.
Qed.

Lemma fs_foreach_S f (IH : fsim f) : forall d env st x items b st' r,
  exec_foreach (S f) d env st x items b = (st', r) -> good r ->
  exec_foreach (S f) d env (TS st) x (map T items) (fold_stmt b) = (TS st', Trc FB r).
Proof.
  intros d env st x items b st' r H N.
  rewrite exec_foreach_S in H; rewrite exec_foreach_S; cbn beta iota zeta in H |- *; ggo IH H N.
Qed.

