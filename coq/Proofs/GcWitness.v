(* C03 -- HISTORICAL defect witness (repaired in /repo ad6fcd1).  The heap the probe produced on the
   tree before the repair: corpus/C03/nested_const.aelys
     fn outer() { fn inner() { return "hello-from-inner" } return inner() }
     println(outer())
   dumped by hx_gc (VM::verif_heap_audit / verif_roots) at the first safepoint of the run
   (LoadK of the nested-function marker for `outer`, GC schedule 2:0).  Slots 0..133 are the
   native functions of the standard library (roots through `globals`), slot 134 is the string
   constant of `inner`, slot 135 the top-level function object (root as frame.function) whose
   nested function `outer` has the nested function `inner` with constant pool [134]. *)
From Aelys Require Import Base.Tactics Model.Gc Proofs.GcProofs.
Local Open Scope N_scope.

Definition witness_heap : heap :=
  mkHeap [Some (ONative 13509283684940209860);Some (ONative 9737378903717397781);
    Some (ONative 18227936132624449326);Some (ONative 1571217195385983569);
    Some (ONative 15111669948014007959);Some (ONative 7172093502191187162);
    Some (ONative 5707762368932373454);Some (ONative 14444658372121932959);
    Some (ONative 15935136057443253240);Some (ONative 16540541937526127394);
    Some (ONative 7750279410611710774);Some (ONative 8683004970961900140);
    Some (ONative 15003463457328334222);Some (ONative 4241260212348001425);
    Some (ONative 8494033495312668158);Some (ONative 14286376179009998525);
    Some (ONative 440451226006879421);Some (ONative 13907172199907811036);
    Some (ONative 14159924753772295211);Some (ONative 1844413041503193919);
    Some (ONative 14653347351833427285);Some (ONative 6900869069187923627);
    Some (ONative 537274665043383645);Some (ONative 2477762378926892602);
    Some (ONative 4070211616078770282);Some (ONative 2968301158811668066);
    Some (ONative 11879303996395703915);Some (ONative 1455837606744533145);
    Some (ONative 17014502053799828322);Some (ONative 11805585211167207987);
    Some (ONative 16309465883241036066);Some (ONative 3612878237593800329);
    Some (ONative 5285404073112211684);Some (ONative 8177314703795498009);
    Some (ONative 4069990533419035945);Some (ONative 18084454591975203711);
    Some (ONative 8434510916050849967);Some (ONative 10124950143411902177);
    Some (ONative 18060094446530547545);Some (ONative 11153035705702325802);
    Some (ONative 12880338467667642737);Some (ONative 16867903496272291335);
    Some (ONative 650359110692971873);Some (ONative 11242046420028896078);
    Some (ONative 1898735433878562304);Some (ONative 16408265130981122193);
    Some (ONative 16122496376309691466);Some (ONative 4858290098513345803);
    Some (ONative 5287688868451168918);Some (ONative 14150182697807684123);
    Some (ONative 770122110431278962);Some (ONative 16436076439679977445);
    Some (ONative 11926623263209764641);Some (ONative 4548979483739247488);
    Some (ONative 14050048217734802941);Some (ONative 12485526717373201007);
    Some (ONative 14963994371756023528);Some (ONative 8673008826229419879);
    Some (ONative 8435272594012011376);Some (ONative 6493910711256916401);
    Some (ONative 16788934744560591262);Some (ONative 32242829014114085);
    Some (ONative 2022915764622933041);Some (ONative 15805975610970741227);
    Some (ONative 1639684712300691716);Some (ONative 5727042970037452596);
    Some (ONative 9773058100582791821);Some (ONative 11967909615200991304);
    Some (ONative 12893591041362771601);Some (ONative 10981881428833893349);
    Some (ONative 12966964614216182821);Some (ONative 16193708830665351258);
    Some (ONative 11333705427263018429);Some (ONative 14430815062342466658);
    Some (ONative 17275109200030690675);Some (ONative 11374962044924723590);
    Some (ONative 3685103836695140581);Some (ONative 17120783918100392964);
    Some (ONative 11433861311908385282);Some (ONative 15257853981584999633);
    Some (ONative 10297051030454105119);Some (ONative 3850324302019194223);
    Some (ONative 4456105295564856102);Some (ONative 5299957630653298824);
    Some (ONative 4552645721187271663);Some (ONative 2180010065546982465);
    Some (ONative 4437813561292266824);Some (ONative 18217991794944218898);
    Some (ONative 15766850021109240334);Some (ONative 13019531371514506841);
    Some (ONative 14938125364361484372);Some (ONative 2892262359741914990);
    Some (ONative 11524014635779839061);Some (ONative 18413465085330473575);
    Some (ONative 10389822189304710754);Some (ONative 7469045728485816794);
    Some (ONative 253740924577865946);Some (ONative 7649041775320083832);
    Some (ONative 10755188043551112974);Some (ONative 6623282722014554802);
    Some (ONative 634196065943978199);Some (ONative 18005967379178435729);
    Some (ONative 16286808181176436002);Some (ONative 16169782611259951818);
    Some (ONative 3218074969925990807);Some (ONative 1983623816669398257);
    Some (ONative 11711487266903722880);Some (ONative 12532263991281620047);
    Some (ONative 147879816944262968);Some (ONative 11757426426696337019);
    Some (ONative 1067237907239375316);Some (ONative 1102694636469192488);
    Some (ONative 8312186751505067651);Some (ONative 13244288051098818971);
    Some (ONative 10121548583965841906);Some (ONative 3034396917394148643);
    Some (ONative 9402727119005581803);Some (ONative 11187843300909715136);
    Some (ONative 14777062668391334712);Some (ONative 3735113246723042650);
    Some (ONative 14229617097773535958);Some (ONative 14145134326024332099);
    Some (ONative 12478871320286301899);Some (ONative 16885475779295708650);
    Some (ONative 203168423046267774);Some (ONative 4937776211246381506);
    Some (ONative 7161620141473905864);Some (ONative 12064250792166765908);
    Some (ONative 3920919051825455090);Some (ONative 1168602006760644371);
    Some (ONative 10255543572155121126);Some (ONative 9876707088587155231);
    Some (ONative 12292383738046546460);Some (ONative 8140110927687362415);
    Some (OString 5058896188256656627);
    Some (OFunction 10058093985779450695 (FnC [] [(FnC [] [(FnC [134] [])])]))] [].

Definition witness_roots : list N :=
  [0;1;2;3;4;5;6;7;8;9;10;11;12;13;14;15;16;17;18;19;20;21;22;23;24;25;26;27;28;29;30;31;32;33;34;35;
    36;37;38;39;40;41;42;43;44;45;46;47;48;49;50;51;52;53;54;55;56;57;58;59;60;61;62;63;64;65;66;67;68;
    69;70;71;72;73;74;75;76;77;78;79;80;81;82;83;84;85;86;87;88;89;90;91;92;93;94;95;96;97;98;99;100;
    101;102;103;104;105;106;107;108;109;110;111;112;113;114;115;116;117;118;119;120;121;122;123;124;125;
    126;127;128;129;130;131;132;133;135].

Definition witness_fn : obj := OFunction 10058093985779450695 (FnC [] [FnC [] [FnC [134] []]]).
Definition witness_str : obj := OString 5058896188256656627.

Lemma witness_get_fn : get witness_heap 135 = Some witness_fn.
Proof. vm_compute. reflexivity. Qed.
Lemma witness_get_str : get witness_heap 134 = Some witness_str.
Proof. vm_compute. reflexivity. Qed.

Lemma witness_reachable : reachable_spec witness_heap witness_roots 134.
Proof.
  apply (reach_step edges_spec witness_heap witness_roots 135 witness_fn 134 witness_str).
  - apply (reach_root edges_spec witness_heap witness_roots 135 witness_fn).
    + vm_compute. repeat (first [left; reflexivity | right]).
    + exact witness_get_fn.
  - exact witness_get_fn.
  - vm_compute. left. reflexivity.
  - exact witness_get_str.
Qed.

(* before the repair (edges_old): the string is freed although it is reachable *)
Lemma witness_old_collect_frees :
  exists h', collect_with edges_old witness_heap witness_roots = Some h' /\ get h' 134 = None
             /\ get h' 135 = Some witness_fn /\ free h' = [134].
Proof. eexists. split; [vm_compute; reflexivity|]. vm_compute. repeat split; reflexivity. Qed.

Lemma witness_old_premise_fails :
  ~ (forall j oj, get witness_heap j = Some oj -> incl (edges_spec oj) (edges_old oj)).
Proof.
  intro H. specialize (H 135 witness_fn witness_get_fn 134).
  assert (Hin : In 134 (edges_spec witness_fn)) by (vm_compute; left; reflexivity).
  specialize (H Hin). vm_compute in H. exact H.
Qed.

Lemma old_mark_nested_constants_refuted_lemma :
  exists h roots i o h',
    reachable_spec h roots i /\ get h i = Some o
    /\ collect_with edges_old h roots = Some h' /\ get h' i = None
    /\ ~ (forall j oj, get h j = Some oj -> incl (edges_spec oj) (edges_old oj)).
Proof.
  destruct witness_old_collect_frees as (h' & Hc & Hg & _).
  exists witness_heap, witness_roots, 134, witness_str, h'.
  split; [exact witness_reachable|]. split; [exact witness_get_str|]. split; [exact Hc|].
  split; [exact Hg|exact witness_old_premise_fails].
Qed.

(* what the program then observed: the next allocation (the function object for `outer`) was
   placed under the dangling index, so `inner`'s "string" constant read a function *)
Lemma witness_old_aliasing :
  exists h' h2, collect_with edges_old witness_heap witness_roots = Some h'
    /\ alloc h' (OFunction 1 (FnC [] [FnC [134] []])) = (h2, 134)
    /\ get h2 134 = Some (OFunction 1 (FnC [] [FnC [134] []])).
Proof. eexists. eexists. split; [vm_compute; reflexivity|]. split; vm_compute; reflexivity. Qed.

(* after the repair (the collector as it is): same heap, same roots, the string survives *)
Lemma witness_now_survives :
  exists h', collect witness_heap witness_roots = Some h' /\ get h' 134 = Some witness_str
             /\ free h' = [].
Proof. eexists. split; [vm_compute; reflexivity|]. vm_compute. split; reflexivity. Qed.

(* a heap with a closure, an upvalue, a vector, garbage and a function whose nested functions'
   constants (4 at depth 2) are NOT repeated in its own pool *)
Definition good_heap : heap :=
  mkHeap [Some (OString 11); Some (OFunction 12 (FnC [0] [FnC [] [FnC [4] []]]));
          Some (OClosure 13 1 [3]); Some (OUpvalue 14 (Some 5)); Some (OString 15);
          Some (OVec 16 [0; 6]); Some (OString 17); Some (OString 18); None;
          Some (OArray 19 [7])] [8].

Lemma nonvacuous_lemma :
  reachable_spec good_heap [2] 4 /\ reachable_spec good_heap [2] 6 /\ ~ reachable_spec good_heap [2] 7
  /\ exists h', collect good_heap [2] = Some h' /\ live h' = [0; 1; 2; 3; 4; 5; 6] /\ free h' = [9; 7; 8]
                /\ get h' 4 = Some (OString 15).
Proof.
  assert (Hm : mark_roots edges_spec (fuel_bound edges_spec good_heap) good_heap [] [2]
               = Some [4; 1; 0; 6; 5; 3; 2]) by (vm_compute; reflexivity).
  pose proof (mark_closure_any_fuel edges_spec good_heap _ [2] _ Hm) as Hiff.
  split; [apply Hiff; cbn [In]; auto 10|].
  split; [apply Hiff; cbn [In]; auto 10|].
  split.
  - intro Hr. apply Hiff in Hr. cbn [In] in Hr. repeat (destruct Hr as [Hr|Hr]; [discriminate|]). exact Hr.
  - eexists. split; [vm_compute; reflexivity|]. repeat split; vm_compute; reflexivity.
Qed.
