(* Unused-variable elimination (Model/Opt/Unused.v):
   (1) the pass only performs the deletions a declarative specification permits (a non-last,
       `let` whose name is in no read position of the WHOLE program and whose initializer passes
       the side-effect gate), everywhere, at every nesting depth;
   (2) it introduces no read: the names read by its output are names read by its input, hence no
       read of a deleted binder is left behind;
   (3) the gate means what its name says on the definitional evaluator: an initializer that
       passes it prints nothing, assigns no variable and no global and changes no existing array -
       it can only fail, or allocate fresh arrays nothing refers to. *)
From Coq Require Import String.
From Aelys Require Import Base.Tactics Model.Lang Model.Eval Model.Opt.Unused Proofs.EvalMono.

(* ------------------------------------------------------------------ induction over statements *)
Section StmtInd.
Variable P : stmt -> Prop.
Hypothesis Hexpr : forall e, P (SExpr e).
Hypothesis Hlet : forall x m e, P (SLet x m e).
Hypothesis Hblock : forall b, Forall P b -> P (SBlock b).
Hypothesis Hif : forall c t e, P t -> (forall e', e = Some e' -> P e') -> P (SIf c t e).
Hypothesis Hwhile : forall c b, P b -> P (SWhile c b).
Hypothesis Hfor : forall x lo hi i k b, P b -> P (SFor x lo hi i k b).
Hypothesis Hforeach : forall x e b, P b -> P (SForEach x e b).
Hypothesis Hret : forall e, P (SRet e).
Hypothesis Hbreak : P SBreak.
Hypothesis Hcont : P SCont.
Hypothesis Hfun : forall n ps body d, Forall P body -> P (SFun n ps body d).
Hypothesis Hother : forall k, P (SOther k).

Fixpoint stmt_nested_ind (s : stmt) : P s :=
  match s with
  | SExpr e => Hexpr e
  | SLet x m e => Hlet x m e
  | SBlock b =>
      Hblock b ((fix go (l : list stmt) : Forall P l :=
                   match l with
                   | [] => Forall_nil P
                   | x :: r => Forall_cons x (stmt_nested_ind x) (go r)
                   end) b)
  | SIf c t e =>
      Hif c t e (stmt_nested_ind t)
          (match e as o return (forall e', o = Some e' -> P e') with
           | Some e0 => fun e' (H : Some e0 = Some e') =>
                          match H in (_ = y) return (match y with Some z => P z | None => True end) with
                          | eq_refl => stmt_nested_ind e0
                          end
           | None => fun e' (H : None = Some e') =>
                       match H in (_ = y) return (match y with Some z => P z | None => True end) with
                       | eq_refl => I
                       end
           end)
  | SWhile c b => Hwhile c b (stmt_nested_ind b)
  | SFor x lo hi i k b => Hfor x lo hi i k b (stmt_nested_ind b)
  | SForEach x e b => Hforeach x e b (stmt_nested_ind b)
  | SRet e => Hret e
  | SBreak => Hbreak
  | SCont => Hcont
  | SFun n ps body d =>
      Hfun n ps body d ((fix go (l : list stmt) : Forall P l :=
                           match l with
                           | [] => Forall_nil P
                           | x :: r => Forall_cons x (stmt_nested_ind x) (go r)
                           end) body)
  | SOther k => Hother k
  end.
End StmtInd.

(* ------------------------------------------------------------------ (1) the declarative specification *)
Definition covers (used used' : list string) : Prop := forall y, mem y used = true -> mem y used' = true.

Inductive Elim (used : list string) : stmt -> stmt -> Prop :=
| El_expr e : Elim used (SExpr e) (SExpr e)
| El_let x m e : Elim used (SLet x m e) (SLet x m e)
| El_block b b' : ElimL used b b' -> Elim used (SBlock b) (SBlock b')
| El_if c t t' e e' : Elim used t t' -> ElimO used e e' -> Elim used (SIf c t e) (SIf c t' e')
| El_while c b b' : Elim used b b' -> Elim used (SWhile c b) (SWhile c b')
| El_for x lo hi i k b b' : Elim used b b' -> Elim used (SFor x lo hi i k b) (SFor x lo hi i k b')
| El_foreach x e b b' : Elim used b b' -> Elim used (SForEach x e b) (SForEach x e b')
| El_ret e : Elim used (SRet e) (SRet e)
| El_break : Elim used SBreak SBreak
| El_cont : Elim used SCont SCont
| El_fun n ps body body' d used' :
    covers used used' -> ElimL used' body body' -> Elim used (SFun n ps body d) (SFun n ps body' d)
| El_other k : Elim used (SOther k) (SOther k)
with ElimL (used : list string) : list stmt -> list stmt -> Prop :=
| EL_nil : ElimL used [] []
| EL_keep s s' r r' : Elim used s s' -> ElimL used r r' -> ElimL used (s :: r) (s' :: r')
(* the only deletion: a `let` that is not the last statement of its block, whose name is read
   nowhere (in [used]) and whose initializer passes the gate *)
| EL_drop x m e r r' : mem x used = false -> hse e = false -> r <> [] -> ElimL used r r' ->
                       ElimL used (SLet x m e :: r) r'
with ElimO (used : list string) : option stmt -> option stmt -> Prop :=
| EO_none : ElimO used None None
| EO_some s s' : Elim used s s' -> ElimO used (Some s) (Some s').

Lemma retain_cons2 used s t r :
  retain used (s :: t :: r) = if removable used s then retain used (t :: r) else s :: retain used (t :: r).
Proof. reflexivity. Qed.

Lemma removable_shape used s : removable used s = true ->
  exists x m e, s = SLet x m e /\ mem x used = false /\ hse e = false.
Proof.
  destruct s; cbn [removable]; try discriminate. intro H.
  apply andb_true_iff in H as [H1 H2]. apply negb_true_iff in H1. apply negb_true_iff in H2.
  eauto 7.
Qed.

(* retain, seen as the specification's list rule, given the statements were rewritten pointwise *)
Lemma retain_ElimL used : forall l l', Forall2 (Elim used) l l' -> ElimL used l (retain used l').
Proof.
  intros l l' H. induction H as [|s s' r r' Hs Hr IH]; [constructor|].
  destruct Hr as [|t t' r r' Ht Hr].
  - cbn [retain]. constructor; [exact Hs | constructor].
  - rewrite retain_cons2. destruct (removable used s') eqn:R.
    + apply removable_shape in R as (x & m & e & -> & Hx & He).
      inversion Hs; subst. apply EL_drop; [exact Hx | exact He | discriminate | exact IH].
    + constructor; [exact Hs | exact IH].
Qed.

Lemma Forall2_map_l {A B} (R : A -> B -> Prop) (f : A -> B) l :
  Forall (fun a => R a (f a)) l -> Forall2 R l (map f l).
Proof. induction 1; cbn [map]; constructor; assumption. Qed.

Lemma un_stmt_Elim : forall s used, Elim used s (un_stmt used s).
Proof.
  induction s using stmt_nested_ind; intro used; cbn [un_stmt]; try (constructor; auto; fail).
  - (* block *) constructor. apply retain_ElimL. apply Forall2_map_l.
    rewrite Forall_forall in *. intros a Ha. apply H; exact Ha.
  - (* if *) constructor; [apply IHs|]. destruct e as [e0|]; cbn [option_map]; constructor.
    apply (H e0 eq_refl).
  - (* fun *) apply El_fun with (used' := used ++ uses_block body ++ map fst ps).
    + intros y Hy. unfold mem in *. rewrite existsb_app, Hy. reflexivity.
    + apply retain_ElimL. apply Forall2_map_l.
      rewrite Forall_forall in *. intros a Ha. apply H; exact Ha.
Qed.

Lemma un_block_ElimL used l : ElimL used l (un_block used l).
Proof.
  unfold un_block. apply retain_ElimL. apply Forall2_map_l.
  rewrite Forall_forall. intros a _. apply un_stmt_Elim.
Qed.

Theorem unused_program_spec (p : program) : ElimL (uses_block p) p (unused_program p).
Proof. apply un_block_ElimL. Qed.

(* ------------------------------------------------------------------ (2) no read is introduced *)
Lemma incl_app_app {A} (a a' b b' : list A) : incl a a' -> incl b b' -> incl (a ++ b) (a' ++ b').
Proof. intros H1 H2. apply incl_app; [apply incl_appl | apply incl_appr]; assumption. Qed.

Scheme Elim_mind := Minimality for Elim Sort Prop
  with ElimL_mind := Minimality for ElimL Sort Prop
  with ElimO_mind := Minimality for ElimO Sort Prop.
Combined Scheme Elim_mutind from Elim_mind, ElimL_mind, ElimO_mind.

Definition uses_opt (o : option stmt) : list string :=
  match o with Some s => uses_stmt s | None => [] end.

Lemma Elim_uses_mut : forall used,
  (forall s s', Elim used s s' -> incl (uses_stmt s') (uses_stmt s)) /\
  (forall l l', ElimL used l l' -> incl (uses_block l') (uses_block l)) /\
  (forall o o', ElimO used o o' -> incl (uses_opt o') (uses_opt o)).
Proof.
  apply (Elim_mutind (fun _ s s' => incl (uses_stmt s') (uses_stmt s))
                     (fun _ l l' => incl (uses_block l') (uses_block l))
                     (fun _ o o' => incl (uses_opt o') (uses_opt o))); intros; cbn [uses_stmt uses_opt]; try apply incl_refl.
  - assumption.
  - apply incl_app_app; [apply incl_refl|]. apply incl_app_app; assumption.
  - apply incl_app_app; [apply incl_refl | assumption].
  - repeat (apply incl_app_app; try apply incl_refl). assumption.
  - repeat (apply incl_app_app; try apply incl_refl). assumption.
  - assumption.
  - unfold uses_block; cbn [flat_map]. apply incl_app_app; assumption.
  - unfold uses_block; cbn [flat_map]. apply incl_appr. assumption.
  - assumption.
Qed.

Lemma ElimL_uses used l l' : ElimL used l l' -> incl (uses_block l') (uses_block l).
Proof. apply (proj1 (proj2 (Elim_uses_mut used))). Qed.

Theorem unused_program_no_new_read (p : program) :
  incl (uses_block (unused_program p)) (uses_block p).
Proof. exact (ElimL_uses _ _ _ (unused_program_spec p)). Qed.

Lemma mem_In x l : mem x l = true <-> In x l.
Proof.
  unfold mem. rewrite existsb_exists. split.
  - intros (y & Hy & E). apply String.eqb_eq in E. subst. exact Hy.
  - intro H. exists x. split; [exact H | apply String.eqb_refl].
Qed.

(* a deleted binder is read nowhere in the output: whatever [used] covers the program's reads *)
Theorem deleted_binder_is_dead (p : program) (x : string) :
  mem x (uses_block p) = false -> ~ In x (uses_block (unused_program p)).
Proof.
  intros Hx Hin. apply unused_program_no_new_read in Hin. apply mem_In in Hin. congruence.
Qed.

(* the last statement of every block (it decides the block's value) is never deleted *)
Lemma retain_nonempty used l : l <> [] -> retain used l <> [].
Proof.
  induction l as [|a l IHl]; [congruence|]. intros _. destruct l as [|b l]; [discriminate|].
  rewrite retain_cons2. destruct (removable used a); [apply IHl; discriminate | discriminate].
Qed.

Lemma retain_last used d : forall l, last (retain used l) d = last l d.
Proof.
  induction l as [|s r IH]; [reflexivity|].
  destruct r as [|t r]; [reflexivity|].
  rewrite retain_cons2. destruct (removable used s).
  - rewrite IH. reflexivity.
  - pose proof (retain_nonempty used (t :: r) ltac:(discriminate)) as N.
    destruct (retain used (t :: r)) as [|u w] eqn:E; [congruence|]. exact IH.
Qed.

(* nothing is deleted when every let is read *)
Lemma retain_id used l : (forall s, In s l -> removable used s = false) -> retain used l = l.
Proof.
  induction l as [|a l IH]; intro H; [reflexivity|].
  destruct l as [|b l]; [reflexivity|]. rewrite retain_cons2, (H a (or_introl eq_refl)).
  f_equal. apply IH. intros s Hs. apply H. right. exact Hs.
Qed.

(* ------------------------------------------------------------------ (3) what the gate guarantees *)
Definition quiet (st st' : state) : Prop :=
  cells st' = cells st /\ globals st' = globals st /\ out st' = out st /\
  exists extra, objs st' = objs st ++ extra.

Lemma quiet_refl st : quiet st st.
Proof. repeat split. exists []. rewrite app_nil_r. reflexivity. Qed.

Lemma quiet_trans a b c : quiet a b -> quiet b c -> quiet a c.
Proof.
  intros (A1 & A2 & A3 & x & A4) (B1 & B2 & B3 & y & B4). repeat split; try congruence.
  exists (x ++ y). rewrite B4, A4, app_assoc. reflexivity.
Qed.

Lemma quiet_alloc st vs : quiet st (mkState (cells st) (objs st ++ [vs]) (globals st) (out st)).
Proof. repeat split. exists [vs]. reflexivity. Qed.

Definition fmt_hse (p : fpart) : bool := match p with PExpr a => hse a | _ => false end.

Record qf (f : nat) : Prop := {
  q_expr : forall d env st e st' r, hse e = false -> eval_expr f d env st e = (st', r) -> quiet st st';
  q_args : forall d env st es st' r, existsb hse es = false -> eval_args f d env st es = (st', r) -> quiet st st';
  q_fmt : forall d env st ps st' r, existsb fmt_hse ps = false -> eval_fmt f d env st ps = (st', r) -> quiet st st'
}.

Ltac split_or :=
  repeat match goal with
         | H : (_ || _)%bool = false |- _ => apply orb_false_iff in H; destruct H
         end.

Ltac chain E s0 s1 :=
  match goal with
  | Qc : quiet ?a s0 |- _ =>
      let Qn := fresh "Qc" in
      pose proof (quiet_trans _ _ _ Qc E) as Qn; clear Qc
  end.

Ltac qloop IH H :=
  repeat first
    [ progress (cbv beta iota zeta in H)
    | match type of H with
      | context [if truthy ?v then _ else _] => destruct (truthy v)
      | context [eval_expr ?f ?a0 ?a1 ?a2 ?a3] =>
          let E := fresh "E" in let s1 := fresh "st" in let r1 := fresh "r" in
          let Q := fresh "Q" in
          destruct (eval_expr f a0 a1 a2 a3) as [s1 r1] eqn:E;
          assert (Q : quiet a2 s1) by (eapply (q_expr _ IH); [ | exact E ]; assumption);
          clear E; chain Q a2 s1; clear Q; destruct r1
      | context [eval_args ?f ?a0 ?a1 ?a2 ?a3] =>
          let E := fresh "E" in let s1 := fresh "st" in let r1 := fresh "r" in
          let Q := fresh "Q" in
          destruct (eval_args f a0 a1 a2 a3) as [s1 r1] eqn:E;
          assert (Q : quiet a2 s1) by (eapply (q_args _ IH); [ | exact E ]; assumption);
          clear E; chain Q a2 s1; clear Q; destruct r1
      | context [eval_fmt ?f ?a0 ?a1 ?a2 ?a3] =>
          let E := fresh "E" in let s1 := fresh "st" in let r1 := fresh "r" in
          let Q := fresh "Q" in
          destruct (eval_fmt f a0 a1 a2 a3) as [s1 r1] eqn:E;
          assert (Q : quiet a2 s1) by (eapply (q_fmt _ IH); [ | exact E ]; assumption);
          clear E; chain Q a2 s1; clear Q; destruct r1
      | context [alloc_obj _ _] => unfold alloc_obj in H
      end ].

Ltac qdone H :=
  inversion H; subst;
  first [ assumption
        | apply quiet_refl
        | eapply quiet_trans; [eassumption | apply quiet_alloc] ].

Lemma qf_all : forall f, qf f.
Proof.
  induction f as [|f IH].
  - split; intros d env st x st' r _ H;
      [rewrite eval_expr_O in H | rewrite eval_args_O in H | rewrite eval_fmt_O in H];
      inversion H; subst; apply quiet_refl.
  - split.
    + intros d env st e st' r Hh H.
      pose proof (quiet_refl st) as Qc.
      destruct e; cbn [hse] in Hh; try discriminate Hh; split_or;
        rewrite eval_expr_S in H; qloop IH H; qdone H.
    + intros d env st es st' r Hh H.
      pose proof (quiet_refl st) as Qc.
      destruct es as [|e es]; cbn [existsb] in Hh; split_or;
        rewrite eval_args_S in H; qloop IH H; qdone H.
    + intros d env st ps st' r Hh H.
      pose proof (quiet_refl st) as Qc.
      destruct ps as [|[s|e|] ps]; cbn [existsb fmt_hse] in Hh; split_or;
        rewrite eval_fmt_S in H; qloop IH H; qdone H.
Qed.

(* An initializer that passes the gate changes nothing a program can observe: no output, no
   variable, no global, no element of an existing array.  (It may fail, or allocate arrays that
   nothing refers to; skipping a failing unused computation is the relaxation C01 permits.) *)
Theorem gated_initializer_is_unobservable :
  forall fuel d env st e st' r,
    hse e = false -> eval_expr fuel d env st e = (st', r) ->
    cells st' = cells st /\ globals st' = globals st /\ out st' = out st /\
    exists extra, objs st' = objs st ++ extra.
Proof. intros fuel d env st e st' r Hh H. exact (q_expr _ (qf_all fuel) _ _ _ _ _ _ Hh H). Qed.

(* ... and the gate cannot be weakened to let a call, an assignment or an element store through *)
Theorem gate_refuses_effects :
  forall f args x a o i v, hse (ECall f args) = true /\ hse (EAssign x a) = true /\ hse (EIdxSet o i v) = true.
Proof. intros. repeat split. Qed.

(* ------------------------------------------------------------------ session units *)
Lemma un_stmt_let used x m e : un_stmt used (SLet x m e) = SLet x m e.
Proof. reflexivity. Qed.

(* every top-level `let` of a session unit survives, in place: same number of statements, and
   the k-th statement of the output is the k-th statement of the input rewritten inside *)
Theorem session_unit_keeps_toplevel (p : program) :
  length (unused_session_unit p) = length p /\
  (forall k x m e, nth_error p k = Some (SLet x m e) -> nth_error (unused_session_unit p) k = Some (SLet x m e)).
Proof.
  unfold unused_session_unit. split; [apply map_length|].
  intros k x m e H. rewrite nth_error_map, H. reflexivity.
Qed.

Theorem session_unit_spec (p : program) : Forall2 (Elim (uses_block p)) p (unused_session_unit p).
Proof.
  unfold unused_session_unit. apply Forall2_map_l. rewrite Forall_forall. intros a _. apply un_stmt_Elim.
Qed.
