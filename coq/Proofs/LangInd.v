(* Mutual structural induction over expressions and statements of Model/Lang.v, with the
   induction hypothesis available for every element of the nested lists (arguments, array
   elements, format parts, block / function / lambda bodies) and inside options. *)
From Coq Require Import String List.
From Aelys Require Import Model.Lang.
Import ListNotations.

Definition opt_all {A} (R : A -> Prop) (o : option A) : Prop :=
  match o with Some x => R x | None => True end.
Definition part_all (R : expr -> Prop) (p : fpart) : Prop :=
  match p with PExpr e => R e | _ => True end.

Section LangInd.
Variable P : expr -> Prop.
Variable Q : stmt -> Prop.
Hypothesis HInt : forall n, P (EInt n).
Hypothesis HFlt : forall b, P (EFlt b).
Hypothesis HBool : forall b, P (EBool b).
Hypothesis HStr : forall s, P (EStr s).
Hypothesis HNull : P ENull.
Hypothesis HVar : forall x, P (EVar x).
Hypothesis HBin : forall op a b, P a -> P b -> P (EBin op a b).
Hypothesis HUn : forall op a, P a -> P (EUn op a).
Hypothesis HAnd : forall a b, P a -> P b -> P (EAnd a b).
Hypothesis HOr : forall a b, P a -> P b -> P (EOr a b).
Hypothesis HCall : forall f args, P f -> Forall P args -> P (ECall f args).
Hypothesis HAssign : forall x e, P e -> P (EAssign x e).
Hypothesis HIf : forall c a b, P c -> P a -> P b -> P (EIf c a b).
Hypothesis HFmt : forall parts, Forall (part_all P) parts -> P (EFmt parts).
Hypothesis HLam : forall ps body, Forall Q body -> P (ELam ps body).
Hypothesis HMember : forall o m, P o -> P (EMember o m).
Hypothesis HArr : forall es, Forall P es -> P (EArr es).
Hypothesis HVec : forall es, Forall P es -> P (EVec es).
Hypothesis HArrSized : forall n, P n -> P (EArrSized n).
Hypothesis HIdx : forall a i, P a -> P i -> P (EIdx a i).
Hypothesis HIdxSet : forall a i v, P a -> P i -> P v -> P (EIdxSet a i v).
Hypothesis HOther : forall k, P (EOther k).
Hypothesis HSExpr : forall e, P e -> Q (SExpr e).
Hypothesis HSLet : forall x m e, P e -> Q (SLet x m e).
Hypothesis HSBlock : forall b, Forall Q b -> Q (SBlock b).
Hypothesis HSIf : forall c t e, P c -> Q t -> opt_all Q e -> Q (SIf c t e).
Hypothesis HSWhile : forall c b, P c -> Q b -> Q (SWhile c b).
Hypothesis HSFor : forall x lo hi incl step b, P lo -> P hi -> opt_all P step -> Q b -> Q (SFor x lo hi incl step b).
Hypothesis HSForEach : forall x e b, P e -> Q b -> Q (SForEach x e b).
Hypothesis HSRet : forall e, opt_all P e -> Q (SRet e).
Hypothesis HSBreak : Q SBreak.
Hypothesis HSCont : Q SCont.
Hypothesis HSFun : forall n ps body d, Forall Q body -> Q (SFun n ps body d).
Hypothesis HSOther : forall k, Q (SOther k).

Fixpoint expr_mind (e : expr) : P e :=
  let fix es_all (l : list expr) : Forall P l :=
    match l with [] => Forall_nil P | x :: r => Forall_cons x (expr_mind x) (es_all r) end in
  let fix ss_all (l : list stmt) : Forall Q l :=
    match l with [] => Forall_nil Q | x :: r => Forall_cons x (stmt_mind x) (ss_all r) end in
  match e with
  | EInt n => HInt n | EFlt b => HFlt b | EBool b => HBool b | EStr s => HStr s | ENull => HNull
  | EVar x => HVar x
  | EBin op a b => HBin op a b (expr_mind a) (expr_mind b)
  | EUn op a => HUn op a (expr_mind a)
  | EAnd a b => HAnd a b (expr_mind a) (expr_mind b)
  | EOr a b => HOr a b (expr_mind a) (expr_mind b)
  | ECall f args => HCall f args (expr_mind f) (es_all args)
  | EAssign x a => HAssign x a (expr_mind a)
  | EIf c a b => HIf c a b (expr_mind c) (expr_mind a) (expr_mind b)
  | EFmt parts =>
      HFmt parts ((fix ps_all (l : list fpart) : Forall (part_all P) l :=
                     match l with
                     | [] => Forall_nil _
                     | p :: r =>
                         Forall_cons p
                           (match p as q return part_all P q with
                            | PExpr x => expr_mind x
                            | PLit _ => I
                            | PHole => I
                            end) (ps_all r)
                     end) parts)
  | ELam ps body => HLam ps body (ss_all body)
  | EMember o m => HMember o m (expr_mind o)
  | EArr es => HArr es (es_all es)
  | EVec es => HVec es (es_all es)
  | EArrSized n => HArrSized n (expr_mind n)
  | EIdx a i => HIdx a i (expr_mind a) (expr_mind i)
  | EIdxSet a i v => HIdxSet a i v (expr_mind a) (expr_mind i) (expr_mind v)
  | EOther k => HOther k
  end
with stmt_mind (s : stmt) : Q s :=
  let fix ss_all (l : list stmt) : Forall Q l :=
    match l with [] => Forall_nil Q | x :: r => Forall_cons x (stmt_mind x) (ss_all r) end in
  match s with
  | SExpr e => HSExpr e (expr_mind e)
  | SLet x m e => HSLet x m e (expr_mind e)
  | SBlock b => HSBlock b (ss_all b)
  | SIf c t e =>
      HSIf c t e (expr_mind c) (stmt_mind t)
           (match e as o return opt_all Q o with Some x => stmt_mind x | None => I end)
  | SWhile c b => HSWhile c b (expr_mind c) (stmt_mind b)
  | SFor x lo hi incl step b =>
      HSFor x lo hi incl step b (expr_mind lo) (expr_mind hi)
            (match step as o return opt_all P o with Some k => expr_mind k | None => I end) (stmt_mind b)
  | SForEach x e b => HSForEach x e b (expr_mind e) (stmt_mind b)
  | SRet e => HSRet e (match e as o return opt_all P o with Some k => expr_mind k | None => I end)
  | SBreak => HSBreak
  | SCont => HSCont
  | SFun n ps body d => HSFun n ps body d (ss_all body)
  | SOther k => HSOther k
  end.

Theorem lang_mutind : (forall e, P e) /\ (forall s, Q s).
Proof. split; [exact expr_mind | exact stmt_mind]. Qed.
End LangInd.
