From Aelys Require Import Base.Tactics Extracted.AsiTokens Extracted.ParserSets Model.ExprStart.

(* every kind that can begin an expression is listed by is_expression_start: complete case
   analysis over the regenerated token alphabet *)
Lemma expr_start_complete_lemma : forall k,
  can_begin_expression k = true -> expr_start_listed k = true.
Proof. intros k H. destruct k; try reflexivity; discriminate H. Qed.

Lemma paren_value_block_lemma :
  value_block_yields TLParen = ValueOfExpression
  /\ forall k, expr_start_listed k = true -> value_block_yields k = value_block_yields TLParen.
Proof.
  split; [reflexivity|]. intros k H. unfold value_block_yields. rewrite H. reflexivity.
Qed.

(* whatever an expression begins with, its value block yields the expression's value, exactly
   as when the expression is wrapped in redundant parentheses *)
Lemma value_block_any_start_lemma : forall k,
  can_begin_expression k = true -> value_block_yields k = value_block_yields TLParen.
Proof.
  intros k H. destruct paren_value_block_lemma as [_ P]. apply P. apply expr_start_complete_lemma. exact H.
Qed.

(* regression for the defect repaired by 3fa327d (`~` was missing from the list, so
   `if c { ~x } else { y }` yielded null while `{ (~x) }` yielded the value) *)
Lemma tilde_listed_lemma :
  can_begin_expression TTilde = true /\ expr_start_listed TTilde = true
  /\ value_block_yields TTilde = ValueOfExpression /\ value_block_yields TLParen = ValueOfExpression.
Proof. repeat split; reflexivity. Qed.
