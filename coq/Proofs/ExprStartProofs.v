From Aelys Require Import Base.Tactics Extracted.AsiTokens Extracted.ParserSets Model.ExprStart.

(* every kind that can begin an expression is listed by is_expression_start, except `~`
   (open finding KF-C15-3): complete case analysis over the regenerated token alphabet *)
Lemma expr_start_complete_lemma : forall k,
  can_begin_expression k = true -> k <> TTilde -> expr_start_listed k = true.
Proof. intros k H N. destruct k; try reflexivity; try discriminate H. congruence. Qed.

Lemma paren_value_block_lemma :
  value_block_yields TLParen = ValueOfExpression
  /\ forall k, expr_start_listed k = true -> value_block_yields k = value_block_yields TLParen.
Proof.
  split; [reflexivity|]. intros k H. unfold value_block_yields. rewrite H. reflexivity.
Qed.

Lemma tilde_not_listed_lemma :
  can_begin_expression TTilde = true /\ expr_start_listed TTilde = false
  /\ value_block_yields TTilde = NullValue /\ value_block_yields TLParen = ValueOfExpression.
Proof. repeat split; reflexivity. Qed.
