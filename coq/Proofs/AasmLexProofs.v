From Aelys Require Import Base.Tactics Extracted.AasmEscapes Model.AasmStr.
From Aelys Require Import Model.AasmLex.
Local Open Scope N_scope.

Lemma skip_comment_len cs : (length (skip_comment cs) <= length cs)%nat.
Proof. induction cs as [|c r IH]; cbn [skip_comment length]; [lia|]. destruct (c =? 10); cbn [length]; lia. Qed.

Lemma skip_ws_len k : forall cs, (length (skip_ws k cs) <= length cs)%nat.
Proof.
  induction k as [|k IH]; intro cs; cbn [skip_ws]; [lia|].
  destruct cs as [|c r]; [cbn; lia|].
  destruct ((c =? 32) || (c =? 9) || (c =? 13)).
  - specialize (IH r). cbn [length]. lia.
  - destruct (c =? 59); [|lia]. specialize (IH (skip_comment r)). pose proof (skip_comment_len r). cbn [length]. lia.
Qed.

Lemma read_ident_len cs : forall s t, read_ident cs = (s, t) -> (length s + length t = length cs)%nat.
Proof.
  induction cs as [|c r IH]; cbn [read_ident]; intros s t H.
  - inversion H. reflexivity.
  - destruct (is_ident_char c).
    + destruct (read_ident r) as [s' t'] eqn:E. inversion H; subst. specialize (IH _ _ eq_refl). cbn [length]. lia.
    + inversion H; subst. cbn [length]. lia.
Qed.

Lemma num_body_len cs : forall d e s f t, num_body d e cs = (s, f, t) -> (length s + length t = length cs)%nat.
Proof.
  induction cs as [cs IH] using (well_founded_induction (Wf_nat.well_founded_ltof _ (@length N))).
  intros d e s f t H. destruct cs as [|c r]; cbn [num_body] in H; [inversion H; reflexivity|].
  assert (forall r', (length r' < length (c :: r))%nat -> forall d e s f t, num_body d e r' = (s, f, t) -> (length s + length t = length r')%nat) as IH'.
  { intros r' L. apply IH. exact L. }
  destruct (is_digit c).
  - destruct (num_body d e r) as [[s' f'] t'] eqn:E. inversion H; subst.
    specialize (IH' r ltac:(cbn; lia) _ _ _ _ _ E). cbn [length]. lia.
  - destruct ((c =? 46) && negb d).
    + destruct (num_body true e r) as [[s' f'] t'] eqn:E. inversion H; subst.
      specialize (IH' r ltac:(cbn; lia) _ _ _ _ _ E). cbn [length]. lia.
    + destruct (((c =? 101) || (c =? 69)) && negb e).
      * destruct r as [|sg r'].
        -- inversion H; subst. reflexivity.
        -- destruct ((sg =? 43) || (sg =? 45)).
           ++ destruct (num_body true true r') as [[s' f'] t'] eqn:E. inversion H; subst.
              specialize (IH' r' ltac:(cbn; lia) _ _ _ _ _ E). cbn [length]. lia.
           ++ destruct (num_body true true (sg :: r')) as [[s' f'] t'] eqn:E. inversion H; subst.
              specialize (IH' (sg :: r') ltac:(cbn; lia) _ _ _ _ _ E). cbn [length] in *. lia.
      * inversion H; subst. cbn [length]. lia.
Qed.

Lemma unescape_len cs : forall s r, unescape cs = Some (s, r) -> (length r < length cs)%nat.
Proof.
  induction cs as [cs IH] using (well_founded_induction (Wf_nat.well_founded_ltof _ (@length N))).
  intros s r H. destruct cs as [|c t]; cbn [unescape] in H; [discriminate|].
  assert (forall t', (length t' < length (c :: t))%nat -> forall s r, unescape t' = Some (s, r) -> (length r < length t')%nat) as IH'.
  { intros t' L. apply IH. exact L. }
  destruct (c =? QUOTE); [inversion H; subst; cbn; lia|].
  destruct (c =? BACKSLASH).
  - destruct t as [|l r1]; [discriminate|].
    destruct (l =? LETTER_X).
    + destruct r1 as [|h1 [|h2 r2]]; try discriminate.
      destruct (hex_value h1), (hex_value h2); try discriminate.
      destruct (unescape r2) as [[s' rest]|] eqn:E; [|discriminate]. inversion H; subst.
      specialize (IH' r2 ltac:(cbn; lia) _ _ E). cbn [length]. lia.
    + destruct (assoc l UNESC_TABLE); [|discriminate].
      destruct (unescape r1) as [[s' rest]|] eqn:E; [|discriminate]. inversion H; subst.
      specialize (IH' r1 ltac:(cbn; lia) _ _ E). cbn [length]. lia.
  - destruct (unescape t) as [[s' rest]|] eqn:E; [|discriminate]. inversion H; subst.
    specialize (IH' t ltac:(cbn; lia) _ _ E). cbn [length]. lia.
Qed.

Lemma read_number_progress cs t r : read_number cs = Some (t, r) -> (length r < length cs)%nat.
Proof.
  unfold read_number. intro H.
  destruct cs as [|c cs'].
  - cbn in H. discriminate.
  - assert (exists neg cs1, (match c :: cs' with 45 :: r0 => (true, r0) | _ => (false, c :: cs') end) = (neg, cs1)
                          /\ (length cs1 <= length (c :: cs'))%nat /\ (neg = true -> length cs1 < length (c :: cs'))%nat) as (neg & cs1 & E & L1 & L2).
    { destruct (N.eq_dec c 45) as [->|Ne].
      - exists true, cs'. repeat split; cbn; lia.
      - exists false, (c :: cs'). split; [|split; [lia | discriminate]].
        destruct c as [|p]; [reflexivity|]. do 6 (destruct p; try reflexivity). all: try (exfalso; apply Ne; reflexivity). }
    rewrite E in H. destruct (num_body false false cs1) as [[body isf] rest] eqn:B.
    pose proof (num_body_len _ _ _ _ _ _ B) as LB.
    destruct body as [|b0 body'].
    + destruct neg; [|discriminate].
      destruct (read_ident cs1) as [id rest'] eqn:I. pose proof (read_ident_len _ _ _ I).
      destruct (list_eq_dec N.eq_dec id [105; 110; 102]); [|discriminate]. inversion H; subst. specialize (L2 eq_refl). lia.
    + cbn [length] in LB. destruct isf.
      * destruct (float_text_ok (b0 :: body')); [|discriminate]. inversion H; subst. lia.
      * match type of H with (if ?c then _ else _) = _ => destruct c end; [|discriminate]. inversion H; subst. lia.
Qed.

Theorem next_token_progress cs t r :
  next_token cs = Some (t, r) -> t <> AEof -> (length r < length cs)%nat.
Proof.
  unfold next_token. pose proof (skip_ws_len (S (length cs)) cs) as LW.
  destruct (skip_ws (S (length cs)) cs) as [|c t0] eqn:W; intros H Ht.
  - inversion H; subst. contradiction.
  - cbn [length] in LW.
    repeat match type of H with
           | (if ?b then Some (_, t0) else _) = _ => destruct b; [inversion H; subst; lia|]
           end.
    destruct (c =? 46).
    { destruct (read_ident t0) as [n t1] eqn:I. pose proof (read_ident_len _ _ _ I). inversion H; subst. lia. }
    destruct (c =? 34).
    { destruct (unescape t0) as [[s t1]|] eqn:U; [|discriminate]. pose proof (unescape_len _ _ _ U). inversion H; subst. lia. }
    match type of H with (if ?b then _ else _) = _ => destruct b end.
    { destruct (read_number t0) as [[tk t1]|] eqn:N; [|discriminate]. pose proof (read_number_progress _ _ _ N).
      destruct tk; try discriminate. match type of H with (if ?b then _ else _) = _ => destruct b end; [|discriminate].
      inversion H; subst. lia. }
    destruct (is_alpha c || (c =? 95)) eqn:A.
    { destruct (read_ident (c :: t0)) as [name t1] eqn:I. pose proof (read_ident_len _ _ _ I) as LI.
      assert (length name >= 1)%nat as Ln.
      { assert (is_ident_char c = true) as E.
        { unfold is_ident_char. apply orb_true_iff in A. destruct A as [A|A]; rewrite A; [reflexivity | apply orb_true_r]. }
        cbn [read_ident] in I. rewrite E in I. destruct (read_ident t0). inversion I; subst. cbn; lia. }
      cbn [length] in LI.
      repeat match type of H with (if ?b then _ else _) = _ => destruct b end; inversion H; subst; lia. }
    destruct (is_digit c || (c =? 45)); [|discriminate].
    pose proof (read_number_progress _ _ _ H). cbn [length] in *. lia.
Qed.

(* the token loop of the assembler: never out of fuel, at most one token per character (+ Eof) *)
Lemma lex_all_bound : forall fuel cs, (length cs < fuel)%nat ->
  match lex_all fuel cs with
  | (Some ts, b) => b = true /\ (length ts <= length cs + 1)%nat
  | (None, b) => b = true
  end.
Proof.
  induction fuel as [|k IH]; intros cs L; [lia|]. cbn [lex_all].
  destruct (next_token cs) as [[t r]|] eqn:T; [|reflexivity].
  destruct t; try (cbn [length]; split; [reflexivity | lia]).
  all: assert (length r < length cs)%nat as P by (eapply next_token_progress; [exact T | discriminate]).
  all: specialize (IH r ltac:(lia)); destruct (lex_all k r) as [[ts|] bb]; [destruct IH as [-> IH]; split; [reflexivity | cbn [length]; lia] | exact IH].
Qed.

Theorem lex_total cs :
  match lex cs with
  | (Some ts, b) => b = true /\ (length ts <= length cs + 1)%nat
  | (None, b) => b = true
  end.
Proof. unfold lex. apply lex_all_bound. lia. Qed.

Example lex_examples :
  lex [46; 99; 111; 100; 101; 10; 32; 48; 48; 58; 32; 77; 32; 114; 49; 44; 32; 45; 53; 32; 59; 32; 120; 10; 76; 48; 58]
  = (Some [ADir [99; 111; 100; 101]; ANl; AInt 0; AColon; AId [77]; AReg 1; AComma; AInt (-5)%Z; ANl; ALab [76; 48]; AColon; AEof], true)
  /\ lex [34; 97] = (None, true) /\ lex [114; 57; 57; 57] = (None, true) /\ lex [49; 46; 53; 101; 45; 51] = (Some [AFlt; AEof], true).
Proof. vm_compute. repeat split; reflexivity. Qed.
