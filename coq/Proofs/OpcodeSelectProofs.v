(* Lemmas about Model/OpcodeSelect.v (backend/src/opcode_select.rs). *)
From Aelys Require Import Base.Tactics Extracted.ValueConsts Extracted.Opcodes Extracted.OpcodeSelectTables
  Extracted.DispatchArms Model.Value
  Proofs.ValueProofs Model.VmArith Proofs.VmArithProofs Proofs.CodecProofs Model.OpcodeSelect.
Local Open Scope N_scope.

Definition is_bitwise (op : binop) : bool :=
  match op with OpShl | OpShr | OpBitAnd | OpBitOr | OpBitXor => true | _ => false end.
Definition is_eqop (op : binop) : bool := match op with OpEq | OpNe => true | _ => false end.

(* selection only looks at five booleans *)
Definition select_by_flags (op : binop) (il fl ir fr g : bool) : opcode :=
  if il && ir then (if g then select_guarded_int_opcode op else select_typed_int_opcode op)
  else if fl && fr then (if g then select_guarded_float_opcode op else select_typed_float_opcode op)
  else if (il && fr) || (fl && ir) then select_guarded_float_opcode op
  else select_generic_opcode op.

Lemma select_flags (op : binop) (l r : rtype) :
  select_opcode op l r =
  select_by_flags op (is_integer (unwrap_uncertain l)) (is_float_ty (unwrap_uncertain l))
                     (is_integer (unwrap_uncertain r)) (is_float_ty (unwrap_uncertain r))
                     (needs_guard l || needs_guard r).
Proof. reflexivity. Qed.

Lemma uncertain_flags (t : rtype) :
  is_certain t = false ->
  needs_guard t = true \/
  (is_integer (unwrap_uncertain t) = false /\ is_float_ty (unwrap_uncertain t) = false).
Proof. destruct t; cbn; intro H; try discriminate; [right; split; reflexivity | left; reflexivity]. Qed.

Lemma int_float_ty_excl (t : rtype) : is_integer t && is_float_ty t = false.
Proof. destruct t; reflexivity. Qed.

(* with an uncertain / dynamic operand no operator gets an unchecked opcode (since fix da40ed1
   this includes the five shift / bitwise operators) *)
Lemma select_guarded_all (op : binop) (l r : rtype) :
  is_certain l && is_certain r = false ->
  is_specialised_opcode (select_opcode op l r) = false.
Proof.
  intros Hc. rewrite select_flags.
  assert (G : needs_guard l || needs_guard r = true \/
              (is_integer (unwrap_uncertain l) = false /\ is_float_ty (unwrap_uncertain l) = false) \/
              (is_integer (unwrap_uncertain r) = false /\ is_float_ty (unwrap_uncertain r) = false)).
  { apply andb_false_iff in Hc as [Hc|Hc]; apply uncertain_flags in Hc as [Hc|Hc];
      try (left; rewrite Hc; destruct (needs_guard l); reflexivity); auto. }
  destruct G as [G|[[G1 G2]|[G1 G2]]]; rewrite ?G, ?G1, ?G2;
    destruct (is_integer (unwrap_uncertain l)), (is_float_ty (unwrap_uncertain l)),
             (is_integer (unwrap_uncertain r)), (is_float_ty (unwrap_uncertain r));
    destruct op; try discriminate; reflexivity.
Qed.

(* the shift / bitwise operators get ShlII..XorII exactly when both operand types are integers
   and no guard is needed *)
Lemma select_bitwise_exact (op : binop) (l r : rtype) :
  is_bitwise op = true ->
  is_specialised_opcode (select_opcode op l r) =
  is_integer (unwrap_uncertain l) && is_integer (unwrap_uncertain r)
  && negb (needs_guard l || needs_guard r).
Proof.
  intros Hb. rewrite select_flags.
  pose proof (int_float_ty_excl (unwrap_uncertain l)) as El.
  pose proof (int_float_ty_excl (unwrap_uncertain r)) as Er.
  destruct (is_integer (unwrap_uncertain l)), (is_float_ty (unwrap_uncertain l)),
           (is_integer (unwrap_uncertain r)), (is_float_ty (unwrap_uncertain r)),
           (needs_guard l || needs_guard r);
    try discriminate; destruct op; try discriminate; reflexivity.
Qed.

(* the selection before fix da40ed1, kept as a statement about the OLD definition only *)
Definition select_guarded_int_opcode_old (op : binop) : opcode :=
  match op with
  | OpShl => O_ShlII | OpShr => O_ShrII | OpBitAnd => O_AndII | OpBitOr => O_OrII | OpBitXor => O_XorII
  | o => select_guarded_int_opcode o
  end.
Lemma old_guarded_int_selection_was_unchecked :
  is_specialised_opcode (select_guarded_int_opcode_old OpShl) = true /\
  is_specialised_opcode (select_guarded_int_opcode OpShl) = false /\
  select_opcode OpShl (RUncertain RI64) (RUncertain RI64) = O_Shl.
Proof. vm_compute. repeat split; reflexivity. Qed.

(* a typed (unchecked) opcode is only ever selected for int/int or float/float static types *)
Lemma select_typed_needs_static_types (op : binop) (l r : rtype) :
  is_specialised_opcode (select_opcode op l r) = true ->
  (is_integer (unwrap_uncertain l) && is_integer (unwrap_uncertain r) = true) \/
  (is_float_ty (unwrap_uncertain l) && is_float_ty (unwrap_uncertain r) = true /\ is_bitwise op = false).
Proof.
  rewrite select_flags.
  destruct (is_integer (unwrap_uncertain l)), (is_float_ty (unwrap_uncertain l)),
           (is_integer (unwrap_uncertain r)), (is_float_ty (unwrap_uncertain r)),
           (needs_guard l || needs_guard r);
    destruct op; cbn; intro H; try discriminate; auto.
Qed.

(* Dynamic on either side always gives the generic opcode *)
Lemma select_dynamic_generic (op : binop) (t : rtype) :
  select_opcode op RDynamic t = select_generic_opcode op /\
  select_opcode op t RDynamic = select_generic_opcode op.
Proof.
  split.
  - rewrite select_flags. cbn [unwrap_uncertain is_integer is_float_ty needs_guard orb].
    destruct (is_integer (unwrap_uncertain t)), (is_float_ty (unwrap_uncertain t)), (needs_guard t).
    all: destruct op.
    all: reflexivity.
  - rewrite select_flags. cbn [unwrap_uncertain is_integer is_float_ty].
    destruct (is_integer (unwrap_uncertain t)), (is_float_ty (unwrap_uncertain t)), (needs_guard t).
    all: destruct op.
    all: reflexivity.
Qed.

(* every selected opcode is one the VM model knows, and the generic selection is generic_sem *)
Lemma select_has_sem (op : binop) (l r : rtype) : exists s, binop_sem (select_opcode op l r) = Some s.
Proof.
  rewrite select_flags.
  destruct (is_integer (unwrap_uncertain l)), (is_float_ty (unwrap_uncertain l)),
           (is_integer (unwrap_uncertain r)), (is_float_ty (unwrap_uncertain r)),
           (needs_guard l || needs_guard r);
    destruct op; eexists; reflexivity.
Qed.

Lemma generic_sem_ok (op : binop) : binop_sem (select_generic_opcode op) = Some (generic_sem op).
Proof. destruct op; reflexivity. Qed.

(* ------------------------------------------------------------------ selection + VM semantics
   Since fix 7e82908 the opcode selected for ANY pair of static types computes, on ANY pair of
   64-bit words, what the generic opcode of the operator computes: whether the static types are
   honest no longer matters (Eq/Ne on floats: see selected_eq_sound). *)
Definition run_selected (hv : heapview) (op : binop) (l r : rtype) (a b : N) : option vres :=
  vm_binop hv (select_opcode op l r) a b.

(* the generic semantics of the same operator *)
Definition generic_of (s : binsem) : binsem :=
  match s with SArith _ o => SArith FGen o | SCmp _ o => SCmp FGen o | SBit _ o => SBit FGen o end.
Definition is_eq_sem (s : binsem) : bool :=
  match s with SCmp _ CEq | SCmp _ CNe => true | _ => false end.

(* closed fact about the selection tables: whatever is selected is a variant of the operator's
   generic opcode *)
Lemma select_by_flags_sem (op : binop) (il fl ir fr g : bool) :
  exists s, binop_sem (select_by_flags op il fl ir fr g) = Some s /\
            generic_of s = generic_sem op /\ is_eq_sem s = is_eqop op.
Proof.
  destruct il, fl, ir, fr, g.
  all: destruct op.
  all: eexists; split; [reflexivity | split; reflexivity].
Qed.

(* every variant computes what the generic variant computes, on all words *)
Lemma variant_sound (hv : heapview) (s : binsem) (a b : N) :
  is_eq_sem s = false -> a < W64 -> b < W64 ->
  run_binsem hv s a b = run_binsem hv (generic_of s) a b.
Proof.
  intros He Ha Hb. destruct s as [f o|f o|f o]; destruct f; cbn [run_binsem generic_of]; try reflexivity.
  - apply typed_arith_ff_total; assumption.
  - apply guarded_arith_iig_total; assumption.
  - apply guarded_arith_ffg_total; assumption.
  - destruct o; try discriminate; apply typed_ord_ff_total; try reflexivity; assumption.
  - destruct o; try discriminate; apply guarded_ord_iig_total; try reflexivity; assumption.
  - destruct o; try discriminate; apply guarded_ord_ffg_total; try reflexivity; assumption.
Qed.

Lemma selected_sound_all_words (hv : heapview) (op : binop) (l r : rtype) (a b : N) :
  is_eqop op = false -> a < W64 -> b < W64 ->
  run_selected hv op l r a b = Some (run_binsem hv (generic_sem op) a b).
Proof.
  intros He Ha Hb. unfold run_selected, vm_binop. rewrite select_flags.
  destruct (select_by_flags_sem op (is_integer (unwrap_uncertain l)) (is_float_ty (unwrap_uncertain l))
              (is_integer (unwrap_uncertain r)) (is_float_ty (unwrap_uncertain r))
              (needs_guard l || needs_guard r)) as (s & Hs & Hg & Hq).
  rewrite Hs. f_equal. rewrite <- Hg. apply variant_sound; [rewrite Hq; exact He | exact Ha | exact Hb].
Qed.

(* == and != : the same statement when both operands are floats or neither is, int operands are
   the words Value::int builds, and the operands are not one and the same NaN pattern (there the
   generic Value == says true by its raw-bits shortcut, IEEE == says false).  Still excluded: an
   int compared with a float (needs facts about `i as f64` that are not proved). *)
Definition canon_int (w : N) : Prop := is_int w = true -> exists x, in48 x /\ w = v_int x.

Lemma variant_eq_sound (hv : heapview) (s : binsem) (a b : N) :
  a < W64 -> b < W64 ->
  is_float a = is_float b -> canon_int a -> canon_int b ->
  (a <> b \/ is_nan_bits a = false) ->
  is_eq_sem s = true ->
  run_binsem hv s a b = run_binsem hv (generic_of s) a b.
Proof.
  intros Ha Hb Fab Ca Cb Hn He.
  assert (G : forall o, gd_cmp_iig hv o a b = g_cmp hv o a b).
  { intro o. destruct (is_float b) eqn:Fb.
    - apply (guarded_eq_floats hv o a b Ha Hb Fab Fb Hn).
    - destruct (is_int a) eqn:Ia; destruct (is_int b) eqn:Ib.
      + destruct (Ca Ia) as (x & Hx & ->). destruct (Cb Ib) as (y & Hy & ->).
        apply guarded_eq_ints; assumption.
      + apply (guarded_eq_nonnum hv o a b Ha Hb). unfold is_num. rewrite Ib, Fb, andb_false_r. reflexivity.
      + apply (guarded_eq_nonnum hv o a b Ha Hb). unfold is_num. rewrite Ia, Fab. reflexivity.
      + apply (guarded_eq_nonnum hv o a b Ha Hb). unfold is_num. rewrite Ia, Fab. reflexivity. }
  assert (T : forall o, t_cmp_ff hv o a b = g_cmp hv o a b).
  { intro o. destruct (is_float b) eqn:Fb.
    - apply typed_eq_ff_floats; assumption.
    - apply typed_eq_ff_nonfloat. rewrite Fab. reflexivity. }
  destruct s as [f o|f o|f o]; try discriminate.
  destruct f; cbn [run_binsem generic_of]; try reflexivity; try apply G; try apply T.
Qed.

Lemma selected_eq_sound (hv : heapview) (op : binop) (l r : rtype) (a b : N) :
  is_eqop op = true -> a < W64 -> b < W64 ->
  is_float a = is_float b -> canon_int a -> canon_int b ->
  (a <> b \/ is_nan_bits a = false) ->
  run_selected hv op l r a b = Some (run_binsem hv (generic_sem op) a b).
Proof.
  intros He Ha Hb Fab Ca Cb Hn. unfold run_selected, vm_binop. rewrite select_flags.
  destruct (select_by_flags_sem op (is_integer (unwrap_uncertain l)) (is_float_ty (unwrap_uncertain l))
              (is_integer (unwrap_uncertain r)) (is_float_ty (unwrap_uncertain r))
              (needs_guard l || needs_guard r)) as (s & Hs & Hg & Hq).
  rewrite Hs. f_equal. rewrite <- Hg.
  apply variant_eq_sound; try assumption. rewrite Hq. exact He.
Qed.

(* ------------------------------------------------------------------ generated dispatch arms *)
Lemma dispatch_arms_facts :
  modelled_opcodes_have_arms = true /\ no_unchecked_accessor_in_dispatch = true.
Proof. vm_compute. repeat split; reflexivity. Qed.

Lemma canon_int_5 : canon_int (v_int 5).
Proof. intros _. exists 5%Z. split; [unfold in48; lia | reflexivity]. Qed.
Lemma canon_int_null : canon_int v_null.
Proof. intro H. vm_compute in H. discriminate. Qed.

Lemma nonvacuous_select :
  select_opcode OpAdd RI64 RF64 = O_AddFFG /\ select_opcode OpAdd RI64 RDynamic = O_Add /\
  select_opcode OpShl (RUncertain RI64) RI64 = O_Shl /\ select_opcode OpAdd (RUncertain RI64) RI64 = O_AddIIG /\
  select_opcode OpMul RI32 RF32 = O_MulFFG /\ select_opcode OpLt RU8 RI64 = O_LtII /\
  run_selected no_heap OpAdd RI64 RI64 W_2_5 (v_int 1) = Some (ROk W_3_5) /\
  canon_int (v_int 5) /\ canon_int v_null.
Proof.
  split; [vm_compute; reflexivity|]. split; [vm_compute; reflexivity|]. split; [vm_compute; reflexivity|].
  split; [vm_compute; reflexivity|]. split; [vm_compute; reflexivity|]. split; [vm_compute; reflexivity|].
  split; [vm_compute; reflexivity|]. exact (conj canon_int_5 canon_int_null).
Qed.
