(* Lemmas about Model/OpcodeSelect.v (backend/src/opcode_select.rs). *)
From Aelys Require Import Base.Tactics Extracted.ValueConsts Extracted.Opcodes Model.Value
  Proofs.ValueProofs Model.VmArith Proofs.VmArithProofs Model.OpcodeSelect.
Local Open Scope N_scope.

Definition is_bitwise (op : binop) : bool :=
  match op with OpShl | OpShr | OpBitAnd | OpBitOr | OpBitXor => true | _ => false end.
Definition is_eqop (op : binop) : bool := match op with OpEq | OpNe => true | _ => false end.

(* selection only looks at five booleans *)
Definition select_by_flags (op : binop) (il fl ir fr g : bool) : opcode :=
  if il && ir then (if g then select_guarded_int_opcode op else select_typed_int_opcode op)
  else if fl && fr then (if g then select_guarded_float_opcode op else select_typed_float_opcode op)
  else if (il && fr) || (fl && ir) then select_guarded_float_opcode op
  else select_generic_opcode op.

Lemma select_flags (op : binop) (l r : rtype) :
  select_opcode op l r =
  select_by_flags op (is_integer (unwrap_uncertain l)) (is_float_ty (unwrap_uncertain l))
                     (is_integer (unwrap_uncertain r)) (is_float_ty (unwrap_uncertain r))
                     (needs_guard l || needs_guard r).
Proof. reflexivity. Qed.

Lemma uncertain_flags (t : rtype) :
  is_certain t = false ->
  needs_guard t = true \/
  (is_integer (unwrap_uncertain t) = false /\ is_float_ty (unwrap_uncertain t) = false).
Proof. destruct t; cbn; intro H; try discriminate; [right; split; reflexivity | left; reflexivity]. Qed.

Lemma int_float_ty_excl (t : rtype) : is_integer t && is_float_ty t = false.
Proof. destruct t; reflexivity. Qed.

(* with an uncertain / dynamic operand no operator gets an unchecked opcode (since fix da40ed1
   this includes the five shift / bitwise operators) *)
Lemma select_guarded_all (op : binop) (l r : rtype) :
  is_certain l && is_certain r = false ->
  is_unchecked_opcode (select_opcode op l r) = false.
Proof.
  intros Hc. rewrite select_flags.
  assert (G : needs_guard l || needs_guard r = true \/
              (is_integer (unwrap_uncertain l) = false /\ is_float_ty (unwrap_uncertain l) = false) \/
              (is_integer (unwrap_uncertain r) = false /\ is_float_ty (unwrap_uncertain r) = false)).
  { apply andb_false_iff in Hc as [Hc|Hc]; apply uncertain_flags in Hc as [Hc|Hc];
      try (left; rewrite Hc; destruct (needs_guard l); reflexivity); auto. }
  destruct G as [G|[[G1 G2]|[G1 G2]]]; rewrite ?G, ?G1, ?G2;
    destruct (is_integer (unwrap_uncertain l)), (is_float_ty (unwrap_uncertain l)),
             (is_integer (unwrap_uncertain r)), (is_float_ty (unwrap_uncertain r));
    destruct op; try discriminate; reflexivity.
Qed.

(* the shift / bitwise operators get ShlII..XorII exactly when both operand types are integers
   and no guard is needed *)
Lemma select_bitwise_exact (op : binop) (l r : rtype) :
  is_bitwise op = true ->
  is_unchecked_opcode (select_opcode op l r) =
  is_integer (unwrap_uncertain l) && is_integer (unwrap_uncertain r)
  && negb (needs_guard l || needs_guard r).
Proof.
  intros Hb. rewrite select_flags.
  pose proof (int_float_ty_excl (unwrap_uncertain l)) as El.
  pose proof (int_float_ty_excl (unwrap_uncertain r)) as Er.
  destruct (is_integer (unwrap_uncertain l)), (is_float_ty (unwrap_uncertain l)),
           (is_integer (unwrap_uncertain r)), (is_float_ty (unwrap_uncertain r)),
           (needs_guard l || needs_guard r);
    try discriminate; destruct op; try discriminate; reflexivity.
Qed.

(* the selection before fix da40ed1, kept as a statement about the OLD definition only *)
Definition select_guarded_int_opcode_old (op : binop) : opcode :=
  match op with
  | OpShl => O_ShlII | OpShr => O_ShrII | OpBitAnd => O_AndII | OpBitOr => O_OrII | OpBitXor => O_XorII
  | o => select_guarded_int_opcode o
  end.
Lemma old_guarded_int_selection_was_unchecked :
  is_unchecked_opcode (select_guarded_int_opcode_old OpShl) = true /\
  is_unchecked_opcode (select_guarded_int_opcode OpShl) = false /\
  select_opcode OpShl (RUncertain RI64) (RUncertain RI64) = O_Shl.
Proof. vm_compute. repeat split; reflexivity. Qed.

(* a typed (unchecked) opcode is only ever selected for int/int or float/float static types *)
Lemma select_typed_needs_static_types (op : binop) (l r : rtype) :
  is_unchecked_opcode (select_opcode op l r) = true ->
  (is_integer (unwrap_uncertain l) && is_integer (unwrap_uncertain r) = true) \/
  (is_float_ty (unwrap_uncertain l) && is_float_ty (unwrap_uncertain r) = true /\ is_bitwise op = false).
Proof.
  rewrite select_flags.
  destruct (is_integer (unwrap_uncertain l)), (is_float_ty (unwrap_uncertain l)),
           (is_integer (unwrap_uncertain r)), (is_float_ty (unwrap_uncertain r)),
           (needs_guard l || needs_guard r);
    destruct op; cbn; intro H; try discriminate; auto.
Qed.

(* Dynamic on either side always gives the generic opcode *)
Lemma select_dynamic_generic (op : binop) (t : rtype) :
  select_opcode op RDynamic t = select_generic_opcode op /\
  select_opcode op t RDynamic = select_generic_opcode op.
Proof.
  split; rewrite select_flags; cbn [unwrap_uncertain is_integer is_float_ty];
    destruct (is_integer (unwrap_uncertain t)), (is_float_ty (unwrap_uncertain t)),
             (needs_guard t); destruct op; reflexivity.
Qed.

(* every selected opcode is one the VM model knows, and the generic selection is generic_sem *)
Lemma select_has_sem (op : binop) (l r : rtype) : exists s, binop_sem (select_opcode op l r) = Some s.
Proof.
  rewrite select_flags.
  destruct (is_integer (unwrap_uncertain l)), (is_float_ty (unwrap_uncertain l)),
           (is_integer (unwrap_uncertain r)), (is_float_ty (unwrap_uncertain r)),
           (needs_guard l || needs_guard r);
    destruct op; eexists; reflexivity.
Qed.

Lemma generic_sem_ok (op : binop) : binop_sem (select_generic_opcode op) = Some (generic_sem op).
Proof. destruct op; reflexivity. Qed.

(* ------------------------------------------------------------------ selection + VM semantics
   When the runtime words carry the tags their static types promise, the selected opcode
   computes what the generic opcode computes (Eq/Ne excluded: see typed_eq_* lemmas). *)
Definition word_has_type (t : rtype) (w : N) : bool :=
  if is_integer (unwrap_uncertain t) then is_int w
  else if is_float_ty (unwrap_uncertain t) then is_float w
  else true.

Definition run_selected (hv : heapview) (op : binop) (l r : rtype) (a b : N) : option vres :=
  vm_binop hv (select_opcode op l r) a b.

Lemma selected_agrees_when_tags_match (hv : heapview) (op : binop) (l r : rtype) (a b : N) :
  is_eqop op = false -> a < W64 -> b < W64 ->
  word_has_type l a = true -> word_has_type r b = true ->
  run_selected hv op l r a b = Some (run_binsem hv (generic_sem op) a b).
Proof.
  intros He Ha Hb Ta Tb. unfold run_selected, vm_binop, word_has_type in *.
  rewrite select_flags.
  pose proof (int_float_ty_excl (unwrap_uncertain l)) as El.
  pose proof (int_float_ty_excl (unwrap_uncertain r)) as Er.
  destruct (is_integer (unwrap_uncertain l)) eqn:IL, (is_float_ty (unwrap_uncertain l)) eqn:FL;
    try discriminate;
  destruct (is_integer (unwrap_uncertain r)) eqn:IR, (is_float_ty (unwrap_uncertain r)) eqn:FR;
    try discriminate;
  destruct (needs_guard l || needs_guard r);
  destruct op; try discriminate; cbn [select_by_flags andb orb select_guarded_int_opcode
    select_typed_int_opcode select_guarded_float_opcode select_typed_float_opcode
    select_generic_opcode binop_sem generic_sem run_binsem]; f_equal;
  try reflexivity;
  try (apply typed_arith_ii_agrees; assumption);
  try (apply typed_bit_ii_agrees; assumption);
  try (apply typed_ord_ii_agrees; [reflexivity | assumption | assumption]);
  try (apply typed_arith_ff_agrees; assumption);
  try (apply typed_ord_ff_agrees; [reflexivity | assumption..]);
  try (apply guarded_arith_iig_total; assumption);
  try (apply guarded_ord_iig_total; [reflexivity | assumption | assumption]);
  try (apply guarded_arith_ffg_sound; [assumption | assumption |
        rewrite ?(float_not_int a Ha Ta), ?(float_not_int b Hb Tb), ?andb_false_r; reflexivity]);
  try (apply guarded_ord_ffg_sound; [reflexivity | assumption | assumption |
        rewrite ?(float_not_int a Ha Ta), ?(float_not_int b Hb Tb), ?andb_false_r; reflexivity]).
Qed.

Lemma nonvacuous_select :
  word_has_type RI64 (v_int 7) = true /\ word_has_type RI64 W_2_5 = false /\
  select_opcode OpAdd RI64 RF64 = O_AddFFG /\ select_opcode OpAdd RI64 RDynamic = O_Add /\
  select_opcode OpShl (RUncertain RI64) RI64 = O_Shl /\ select_opcode OpAdd (RUncertain RI64) RI64 = O_AddIIG.
Proof. vm_compute. repeat split; reflexivity. Qed.
