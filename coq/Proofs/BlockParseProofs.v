From Aelys Require Import Base.Tactics Extracted.AsiTokens Extracted.ParserSets Model.ExprStart Model.BlockParse
                          Proofs.ExprStartProofs.

(* the state after a prefix *)
Fixpoint block_state (l : list bitem) (last : option nat) (need_sep : bool) (i : nat)
  : option (option nat * bool * nat) :=
  match l with
  | [] => Some (last, need_sep, i)
  | BSemi :: r => block_state r last false i
  | BExpr k :: r =>
      if need_sep then None
      else if expr_start_listed k then block_state r (Some i) true (S i)
      else block_state r None true (S i)
  | BTerm :: r => if need_sep then None else block_state r None true i
  | BBlock :: r => if need_sep then None else block_state r None false i
  end.

Lemma block_go_app : forall l1 l2 last ns i,
  block_go (l1 ++ l2) last ns i
  = match block_state l1 last ns i with
    | Some (last', ns', i') => block_go l2 last' ns' i'
    | None => ParseError
    end.
Proof.
  induction l1 as [|b r IH]; intros l2 last ns i; [reflexivity|].
  destruct b as [k| | |]; cbn [app block_go block_state].
  - destruct ns; [reflexivity|]. destruct (expr_start_listed k); apply IH.
  - apply IH.
  - destruct ns; [reflexivity|apply IH].
  - destruct ns; [reflexivity|apply IH].
Qed.

(* a run of semicolons only clears need_sep *)
Lemma block_go_semis : forall ss l last ns i,
  forallb is_semi ss = true -> ss <> [] -> block_go (ss ++ l) last ns i = block_go l last false i.
Proof.
  induction ss as [|b r IH]; intros l last ns i H N; [congruence|].
  destruct b; cbn [forallb is_semi] in H; try discriminate. cbn [app block_go].
  destruct r as [|b' r']; [reflexivity|]. apply IH; [exact H|discriminate].
Qed.

(* `;;`: a second semicolon after a semicolon changes nothing *)
Lemma double_semi_lemma l1 l2 : block_value (l1 ++ BSemi :: BSemi :: l2) = block_value (l1 ++ BSemi :: l2).
Proof.
  unfold block_value. rewrite !block_go_app.
  destruct (block_state l1 None false 0) as [[[last ns] i]|]; reflexivity.
Qed.

(* a semicolon (or the newline the lexer turns into one) directly before the closing `}` changes
   nothing: the last expression stays the block's value *)
Lemma trailing_semi_lemma l : block_value (l ++ [BSemi]) = block_value l.
Proof.
  unfold block_value. rewrite block_go_app. rewrite <- (app_nil_r l) at 2. rewrite block_go_app.
  destruct (block_state l None false 0) as [[[last ns] i]|]; reflexivity.
Qed.

(* a semicolon after an item that needs one is the same as the closing `}` right there ... *)
(* redundant parentheses: an expression item whose first kind is listed may begin with `(` instead *)
Lemma grouping_item_lemma l1 k l2 :
  expr_start_listed k = true ->
  block_value (l1 ++ BExpr k :: l2) = block_value (l1 ++ BExpr TLParen :: l2).
Proof.
  intro H. unfold block_value. rewrite !block_go_app.
  destruct (block_state l1 None false 0) as [[[last ns] i]|]; [|reflexivity].
  cbn [block_go]. rewrite H. reflexivity.
Qed.

Lemma grouping_item_any_lemma l1 k l2 :
  can_begin_expression k = true ->
  block_value (l1 ++ BExpr k :: l2) = block_value (l1 ++ BExpr TLParen :: l2).
Proof. intro H. apply grouping_item_lemma. apply expr_start_complete_lemma. exact H. Qed.

(* the statement-vs-expression decision for the tail: after any accepted prefix that does not
   leave an item waiting for its separator, an expression followed only by semicolons is the value *)
Lemma tail_expression_is_value l k ss last i :
  block_state l None false 0 = Some (last, false, i) ->
  can_begin_expression k = true -> forallb is_semi ss = true ->
  block_value (l ++ BExpr k :: ss) = Value i.
Proof.
  intros S H Hs. unfold block_value. rewrite block_go_app, S. cbn [block_go].
  rewrite (expr_start_complete_lemma k H).
  destruct ss as [|b r]; [reflexivity|].
  rewrite <- (app_nil_r (b :: r)). rewrite block_go_semis; [reflexivity|exact Hs|discriminate].
Qed.

(* ... and a statement in tail position makes the block yield null *)
Lemma tail_statement_is_null l ss last i :
  block_state l None false 0 = Some (last, false, i) -> forallb is_semi ss = true ->
  block_value (l ++ BTerm :: ss) = Null /\ block_value (l ++ BBlock :: ss) = Null.
Proof.
  intros S Hs. unfold block_value. rewrite !block_go_app, S. cbn [block_go].
  destruct ss as [|b r]; [split; reflexivity|].
  rewrite <- (app_nil_r (b :: r)). rewrite !block_go_semis; try exact Hs; try discriminate.
  split; reflexivity.
Qed.

(* ------------------------------------------------------------------ statement sequences *)
Fixpoint seq_state (l : list sitem) (need_sep : bool) (n : nat) : option (bool * nat) :=
  match l with
  | [] => Some (need_sep, n)
  | SSemi :: r => seq_state r false n
  | STerm :: r => if need_sep then None else seq_state r true (S n)
  | SBlock :: r => if need_sep then None else seq_state r false (S n)
  end.

Lemma seq_go_app top : forall l1 l2 ns n,
  seq_go top (l1 ++ l2) ns n
  = match seq_state l1 ns n with Some (ns', n') => seq_go top l2 ns' n' | None => None end.
Proof.
  induction l1 as [|b r IH]; intros l2 ns n; [reflexivity|].
  destruct b; cbn [app seq_go seq_state].
  - apply IH.
  - destruct ns; [reflexivity|apply IH].
  - destruct ns; [reflexivity|apply IH].
Qed.

(* `;;`, i.e. also a blank line after an explicit `;`: a doubled semicolon changes nothing *)
Lemma seq_double_semi top l1 l2 :
  parse_sequence top (l1 ++ SSemi :: SSemi :: l2) = parse_sequence top (l1 ++ SSemi :: l2).
Proof.
  unfold parse_sequence. rewrite !seq_go_app.
  destruct (seq_state l1 false 0) as [[ns n]|]; reflexivity.
Qed.

(* a semicolon before the closing `}` (or at the very end, or at the very beginning) changes nothing in a block *)
Lemma seq_trailing_semi l : parse_sequence false (l ++ [SSemi]) = parse_sequence false l.
Proof.
  unfold parse_sequence. rewrite seq_go_app. rewrite <- (app_nil_r l) at 2. rewrite seq_go_app.
  destruct (seq_state l false 0) as [[ns n]|]; [|reflexivity]. cbn [seq_go]. destruct ns; reflexivity.
Qed.

Lemma seq_leading_semi top l : parse_sequence top (SSemi :: l) = parse_sequence top l.
Proof. reflexivity. Qed.

(* a semicolon can be added anywhere in an accepted sequence without changing the statements *)
Lemma seq_go_insert_semi top : forall l2 ns n k,
  seq_go top l2 ns n = Some k -> seq_go top l2 false n = Some k.
Proof.
  induction l2 as [|b r IH]; intros ns n k H.
  - cbn [seq_go] in *. destruct ns; [|exact H]. destruct top; [discriminate|exact H].
  - destruct b; cbn [seq_go] in *.
    + exact H.
    + destruct ns; [discriminate|exact H].
    + destruct ns; [discriminate|exact H].
Qed.

Lemma seq_insert_semi top l1 l2 k :
  parse_sequence top (l1 ++ l2) = Some k -> parse_sequence top (l1 ++ SSemi :: l2) = Some k.
Proof.
  unfold parse_sequence. rewrite !seq_go_app.
  destruct (seq_state l1 false 0) as [[ns n]|]; [|discriminate].
  cbn [seq_go]. apply seq_go_insert_semi.
Qed.

(* after a statement that ends with its own `}` (or after another `;`, or at the start) the
   separator is optional: newline, `;` or nothing are the same *)
Lemma seq_semi_after_block top l1 l2 :
  parse_sequence top (l1 ++ SBlock :: SSemi :: l2) = parse_sequence top (l1 ++ SBlock :: l2).
Proof.
  unfold parse_sequence. rewrite !seq_go_app.
  destruct (seq_state l1 false 0) as [[ns n]|]; [|reflexivity].
  cbn [seq_go]. destruct ns; reflexivity.
Qed.
