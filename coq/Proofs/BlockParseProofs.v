From Aelys Require Import Base.Tactics Extracted.AsiTokens Extracted.ParserSets Model.ExprStart Model.BlockParse
                          Proofs.ExprStartProofs.

(* the state after a prefix *)
Fixpoint block_state (l : list bitem) (last : option nat) (need_sep : bool) (i : nat)
  : option (option nat * bool * nat) :=
  match l with
  | [] => Some (last, need_sep, i)
  | BSemi :: r => block_state r last false i
  | BExpr k :: r =>
      if need_sep then None
      else if expr_start_listed k then block_state r (Some i) true (S i)
      else block_state r None true (S i)
  | BTerm :: r => if need_sep then None else block_state r None true i
  | BBlock :: r => if need_sep then None else block_state r None false i
  end.

Lemma block_go_app : forall l1 l2 last ns i,
  block_go (l1 ++ l2) last ns i
  = match block_state l1 last ns i with
    | Some (last', ns', i') => block_go l2 last' ns' i'
    | None => ParseError
    end.
Proof.
  induction l1 as [|b r IH]; intros l2 last ns i; [reflexivity|].
  destruct b as [k| | |]; cbn [app block_go block_state].
  - destruct ns; [reflexivity|]. destruct (expr_start_listed k); apply IH.
  - apply IH.
  - destruct ns; [reflexivity|apply IH].
  - destruct ns; [reflexivity|apply IH].
Qed.

(* a run of semicolons only clears need_sep *)
Lemma block_go_semis : forall ss l last ns i,
  forallb is_semi ss = true -> ss <> [] -> block_go (ss ++ l) last ns i = block_go l last false i.
Proof.
  induction ss as [|b r IH]; intros l last ns i H N; [congruence|].
  destruct b; cbn [forallb is_semi] in H; try discriminate. cbn [app block_go].
  destruct r as [|b' r']; [reflexivity|]. apply IH; [exact H|discriminate].
Qed.

(* `;;`: a second semicolon after a semicolon changes nothing *)
Lemma double_semi_lemma l1 l2 : block_value (l1 ++ BSemi :: BSemi :: l2) = block_value (l1 ++ BSemi :: l2).
Proof.
  unfold block_value. rewrite !block_go_app.
  destruct (block_state l1 None false 0) as [[[last ns] i]|]; reflexivity.
Qed.

(* a semicolon (or the newline the lexer turns into one) directly before the closing `}` changes
   nothing: the last expression stays the block's value *)
Lemma trailing_semi_lemma l : block_value (l ++ [BSemi]) = block_value l.
Proof.
  unfold block_value. rewrite block_go_app. rewrite <- (app_nil_r l) at 2. rewrite block_go_app.
  destruct (block_state l None false 0) as [[[last ns] i]|]; reflexivity.
Qed.

(* a semicolon after an item that needs one is the same as the closing `}` right there ... *)
(* redundant parentheses: an expression item whose first kind is listed may begin with `(` instead *)
Lemma grouping_item_lemma l1 k l2 :
  expr_start_listed k = true ->
  block_value (l1 ++ BExpr k :: l2) = block_value (l1 ++ BExpr TLParen :: l2).
Proof.
  intro H. unfold block_value. rewrite !block_go_app.
  destruct (block_state l1 None false 0) as [[[last ns] i]|]; [|reflexivity].
  cbn [block_go]. rewrite H. reflexivity.
Qed.

Lemma grouping_item_any_lemma l1 k l2 :
  can_begin_expression k = true ->
  block_value (l1 ++ BExpr k :: l2) = block_value (l1 ++ BExpr TLParen :: l2).
Proof. intro H. apply grouping_item_lemma. apply expr_start_complete_lemma. exact H. Qed.

(* the statement-vs-expression decision for the tail: after any accepted prefix that does not
   leave an item waiting for its separator, an expression followed only by semicolons is the value *)
Lemma tail_expression_is_value l k ss last i :
  block_state l None false 0 = Some (last, false, i) ->
  can_begin_expression k = true -> forallb is_semi ss = true ->
  block_value (l ++ BExpr k :: ss) = Value i.
Proof.
  intros S H Hs. unfold block_value. rewrite block_go_app, S. cbn [block_go].
  rewrite (expr_start_complete_lemma k H).
  destruct ss as [|b r]; [reflexivity|].
  rewrite <- (app_nil_r (b :: r)). rewrite block_go_semis; [reflexivity|exact Hs|discriminate].
Qed.

(* ... and a statement in tail position makes the block yield null *)
Lemma tail_statement_is_null l ss last i :
  block_state l None false 0 = Some (last, false, i) -> forallb is_semi ss = true ->
  block_value (l ++ BTerm :: ss) = Null /\ block_value (l ++ BBlock :: ss) = Null.
Proof.
  intros S Hs. unfold block_value. rewrite !block_go_app, S. cbn [block_go].
  destruct ss as [|b r]; [split; reflexivity|].
  rewrite <- (app_nil_r (b :: r)). rewrite !block_go_semis; try exact Hs; try discriminate.
  split; reflexivity.
Qed.
