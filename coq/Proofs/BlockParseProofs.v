From Aelys Require Import Base.Tactics Extracted.AsiTokens Extracted.ParserSets Model.ExprStart Model.BlockParse
                          Proofs.ExprStartProofs.

(* the state after a prefix *)
Fixpoint block_state (l : list bitem) (last : option nat) (need_sep : bool) (i pushed : nat)
  : option (option nat * bool * nat * nat) :=
  match l with
  | [] => Some (last, need_sep, i, pushed)
  | BSemi :: r => block_state r last false i pushed
  | BExpr k :: r =>
      if need_sep then None
      else if expr_start_listed k then block_state r (Some i) true (S i) (pushed + pending_stmt last)
      else block_state r None true (S i) (S (pushed + pending_stmt last))
  | BTerm :: r => if need_sep then None else block_state r None true i (S (pushed + pending_stmt last))
  | BBlock :: r => if need_sep then None else block_state r None false i (S (pushed + pending_stmt last))
  end.

Lemma block_go_app : forall l1 l2 last ns i p,
  block_go (l1 ++ l2) last ns i p
  = match block_state l1 last ns i p with
    | Some (last', ns', i', p') => block_go l2 last' ns' i' p'
    | None => ParseError
    end.
Proof.
  induction l1 as [|b r IH]; intros l2 last ns i p; [reflexivity|].
  destruct b as [k| | |]; cbn [app block_go block_state].
  - destruct ns; [reflexivity|]. destruct (expr_start_listed k); apply IH.
  - apply IH.
  - destruct ns; [reflexivity|apply IH].
  - destruct ns; [reflexivity|apply IH].
Qed.

(* a run of semicolons only clears need_sep *)
Lemma block_go_semis : forall ss l last ns i p,
  forallb is_semi ss = true -> ss <> [] -> block_go (ss ++ l) last ns i p = block_go l last false i p.
Proof.
  induction ss as [|b r IH]; intros l last ns i p H N; [congruence|].
  destruct b; cbn [forallb is_semi] in H; try discriminate. cbn [app block_go].
  destruct r as [|b' r']; [reflexivity|]. apply IH; [exact H|discriminate].
Qed.

Lemma block_go_semis_any : forall ss l last i p,
  forallb is_semi ss = true -> block_go (ss ++ l) last false i p = block_go l last false i p.
Proof.
  intros ss l last i p H. destruct ss as [|b r]; [reflexivity|].
  apply block_go_semis; [exact H|discriminate].
Qed.

(* `;;`: a second semicolon after a semicolon changes nothing *)
Lemma double_semi_lemma l1 l2 : block_value (l1 ++ BSemi :: BSemi :: l2) = block_value (l1 ++ BSemi :: l2).
Proof.
  unfold block_value. rewrite !block_go_app.
  destruct (block_state l1 None false 0 0) as [[[[last ns] i] p]|]; reflexivity.
Qed.

(* a semicolon (or the newline the lexer turns into one) directly before the closing `}` changes
   nothing: the last expression stays the block's value *)
Lemma trailing_semi_lemma l : block_value (l ++ [BSemi]) = block_value l.
Proof.
  unfold block_value. rewrite block_go_app. rewrite <- (app_nil_r l) at 2. rewrite block_go_app.
  destruct (block_state l None false 0 0) as [[[[last ns] i] p]|]; reflexivity.
Qed.

(* redundant parentheses: an expression item whose first kind is listed may begin with `(` instead *)
Lemma grouping_item_lemma l1 k l2 :
  expr_start_listed k = true ->
  block_value (l1 ++ BExpr k :: l2) = block_value (l1 ++ BExpr TLParen :: l2).
Proof.
  intro H. unfold block_value. rewrite !block_go_app.
  destruct (block_state l1 None false 0 0) as [[[[last ns] i] p]|]; [|reflexivity].
  cbn [block_go]. rewrite H. reflexivity.
Qed.

Lemma grouping_item_any_lemma l1 k l2 :
  can_begin_expression k = true ->
  block_value (l1 ++ BExpr k :: l2) = block_value (l1 ++ BExpr TLParen :: l2).
Proof. intro H. apply grouping_item_lemma. apply expr_start_complete_lemma. exact H. Qed.

(* once a statement has been pushed the block is rejected, whatever follows *)
Lemma pushed_rejects : forall l last ns i p, (0 < p)%nat -> block_go l last ns i p = ParseError.
Proof.
  induction l as [|b r IH]; intros last ns i p H.
  - cbn [block_go]. destruct p; [lia|reflexivity].
  - destruct b as [k| | |]; cbn [block_go].
    + destruct ns; [reflexivity|]. destruct (expr_start_listed k); apply IH; lia.
    + apply IH; exact H.
    + destruct ns; [reflexivity|apply IH; lia].
    + destruct ns; [reflexivity|apply IH; lia].
Qed.

(* a statement anywhere in the block makes it a parse error *)
Lemma statement_rejects : forall l last ns i p,
  existsb is_stmt_item l = true -> block_go l last ns i p = ParseError.
Proof.
  induction l as [|b r IH]; intros last ns i p H; [discriminate|].
  destruct b as [k| | |]; cbn [existsb is_stmt_item orb] in H; cbn [block_go].
  - destruct ns; [reflexivity|]. destruct (expr_start_listed k); apply IH; exact H.
  - apply IH; exact H.
  - destruct ns; [reflexivity|apply pushed_rejects; lia].
  - destruct ns; [reflexivity|apply pushed_rejects; lia].
Qed.

Lemma statement_rejects_lemma l : existsb is_stmt_item l = true -> block_value l = ParseError.
Proof. apply statement_rejects. Qed.

(* a second expression item makes the first one a statement: rejected as well *)
Lemma two_expressions_reject l1 k1 l2 k2 l3 :
  block_value (l1 ++ BExpr k1 :: l2 ++ BExpr k2 :: l3) = ParseError.
Proof.
  unfold block_value. rewrite block_go_app.
  destruct (block_state l1 None false 0 0) as [[[[last ns] i] p]|]; [|reflexivity].
  cbn [block_go]. destruct ns; [reflexivity|].
  assert (G : forall l2 last' ns' i' p', (last' <> None \/ 0 < p')%nat ->
              block_go (l2 ++ BExpr k2 :: l3) last' ns' i' p' = ParseError).
  { clear. induction l2 as [|b r IH]; intros last' ns' i' p' H.
    - cbn [app block_go]. destruct ns'; [reflexivity|].
      assert (0 < p' + pending_stmt last')%nat.
      { destruct H as [H|H]; [destruct last'; [cbn; lia|congruence]|lia]. }
      destruct (expr_start_listed k2); apply pushed_rejects; lia.
    - destruct b as [k| | |]; cbn [app block_go].
      + destruct ns'; [reflexivity|]. destruct (expr_start_listed k); apply IH.
        * left; discriminate.
        * right; lia.
      + apply IH; exact H.
      + destruct ns'; [reflexivity|apply IH; right; lia].
      + destruct ns'; [reflexivity|apply IH; right; lia]. }
  destruct (expr_start_listed k1); apply G; [left; discriminate|right; lia].
Qed.

(* the accepted value blocks: semicolons, one expression, semicolons -- its value is that expression;
   and the empty block (semicolons only) yields null *)
Lemma single_expression_lemma s1 k s2 :
  forallb is_semi s1 = true -> forallb is_semi s2 = true -> can_begin_expression k = true ->
  block_value (s1 ++ BExpr k :: s2) = Value 0.
Proof.
  intros H1 H2 Hk. unfold block_value. rewrite block_go_semis_any by exact H1.
  cbn [block_go]. rewrite (expr_start_complete_lemma k Hk). cbn [pending_stmt].
  rewrite <- (app_nil_r s2). destruct s2 as [|b r]; [reflexivity|].
  rewrite block_go_semis; [reflexivity|exact H2|discriminate].
Qed.

Lemma empty_block_lemma ss : forallb is_semi ss = true -> block_value ss = Null.
Proof.
  intro H. unfold block_value. rewrite <- (app_nil_r ss). rewrite block_go_semis_any by exact H. reflexivity.
Qed.


(* conversely: an accepted value block IS its single expression *)
Fixpoint n_exprs (l : list bitem) : nat :=
  match l with [] => O | BExpr _ :: r => S (n_exprs r) | _ :: r => n_exprs r end.

Lemma no_expr_no_stmt_semis l : n_exprs l = O -> existsb is_stmt_item l = false -> forallb is_semi l = true.
Proof.
  induction l as [|b r IH]; intros H1 H2; [reflexivity|].
  destruct b; cbn [n_exprs existsb is_stmt_item orb forallb is_semi andb] in *; try discriminate.
  apply IH; assumption.
Qed.

Lemma one_expr_split l : (1 <= n_exprs l)%nat ->
  exists s1 k s2, l = s1 ++ BExpr k :: s2 /\ n_exprs s1 = O /\ n_exprs s2 = (n_exprs l - 1)%nat.
Proof.
  induction l as [|b r IH]; intro H; [cbn in H; lia|].
  destruct b as [k| | |].
  - exists [], k, r. cbn [n_exprs app]. repeat split; lia.
  - cbn [n_exprs] in *. destruct (IH H) as [s1 [k [s2 [E [A B]]]]]. exists (BSemi :: s1), k, s2. subst r. repeat split; assumption.
  - cbn [n_exprs] in *. destruct (IH H) as [s1 [k [s2 [E [A B]]]]]. exists (BTerm :: s1), k, s2. subst r. repeat split; assumption.
  - cbn [n_exprs] in *. destruct (IH H) as [s1 [k [s2 [E [A B]]]]]. exists (BBlock :: s1), k, s2. subst r. repeat split; assumption.
Qed.

Lemma existsb_app_false {A} (f : A -> bool) a b : existsb f (a ++ b) = false -> existsb f a = false /\ existsb f b = false.
Proof. rewrite existsb_app. apply orb_false_iff. Qed.

Lemma accepted_is_single_expression l j : block_value l = Value j ->
  j = O /\ exists s1 k s2, l = s1 ++ BExpr k :: s2
                           /\ forallb is_semi s1 = true /\ forallb is_semi s2 = true /\ expr_start_listed k = true.
Proof.
  intro H.
  destruct (existsb is_stmt_item l) eqn:St; [rewrite (statement_rejects_lemma l St) in H; discriminate|].
  destruct (n_exprs l) as [|n] eqn:N.
  { rewrite (empty_block_lemma l (no_expr_no_stmt_semis l N St)) in H. discriminate. }
  destruct (one_expr_split l ltac:(lia)) as [s1 [k [s2 [E [A B]]]]]. subst l.
  destruct (existsb_app_false _ _ _ St) as [St1 St2]. cbn [existsb is_stmt_item orb] in St2.
  destruct n as [|n'].
  - (* exactly one expression *)
    assert (S1 : forallb is_semi s1 = true) by (apply no_expr_no_stmt_semis; assumption).
    assert (S2 : forallb is_semi s2 = true) by (apply no_expr_no_stmt_semis; [lia|assumption]).
    unfold block_value in H. rewrite block_go_semis_any in H by exact S1. cbn [block_go pending_stmt Nat.add] in H.
    destruct (expr_start_listed k) eqn:L.
    + assert (V : block_go s2 (Some 0%nat) true 1 0 = Value 0).
      { rewrite <- (app_nil_r s2). destruct s2 as [|b r]; [reflexivity|].
        rewrite block_go_semis; [reflexivity|exact S2|discriminate]. }
      rewrite V in H. injection H as <-. split; [reflexivity|].
      exists s1, k, s2. repeat split; assumption.
    + rewrite pushed_rejects in H by lia. discriminate.
  - (* two or more expressions: rejected *)
    exfalso. destruct (one_expr_split s2 ltac:(lia)) as [t1 [k2 [t2 [E2 _]]]]. subst s2.
    rewrite two_expressions_reject in H. discriminate.
Qed.

(* ------------------------------------------------------------------ statement sequences *)
Fixpoint seq_state (l : list sitem) (need_sep : bool) (n : nat) : option (bool * nat) :=
  match l with
  | [] => Some (need_sep, n)
  | SSemi :: r => seq_state r false n
  | STerm :: r => if need_sep then None else seq_state r true (S n)
  | SBlock :: r => if need_sep then None else seq_state r false (S n)
  end.

Lemma seq_go_app top : forall l1 l2 ns n,
  seq_go top (l1 ++ l2) ns n
  = match seq_state l1 ns n with Some (ns', n') => seq_go top l2 ns' n' | None => None end.
Proof.
  induction l1 as [|b r IH]; intros l2 ns n; [reflexivity|].
  destruct b; cbn [app seq_go seq_state].
  - apply IH.
  - destruct ns; [reflexivity|apply IH].
  - destruct ns; [reflexivity|apply IH].
Qed.

(* `;;`, i.e. also a blank line after an explicit `;`: a doubled semicolon changes nothing *)
Lemma seq_double_semi top l1 l2 :
  parse_sequence top (l1 ++ SSemi :: SSemi :: l2) = parse_sequence top (l1 ++ SSemi :: l2).
Proof.
  unfold parse_sequence. rewrite !seq_go_app.
  destruct (seq_state l1 false 0) as [[ns n]|]; reflexivity.
Qed.

(* a semicolon before the closing `}` (or at the very end, or at the very beginning) changes nothing in a block *)
Lemma seq_trailing_semi l : parse_sequence false (l ++ [SSemi]) = parse_sequence false l.
Proof.
  unfold parse_sequence. rewrite seq_go_app. rewrite <- (app_nil_r l) at 2. rewrite seq_go_app.
  destruct (seq_state l false 0) as [[ns n]|]; [|reflexivity]. cbn [seq_go]. destruct ns; reflexivity.
Qed.

Lemma seq_leading_semi top l : parse_sequence top (SSemi :: l) = parse_sequence top l.
Proof. reflexivity. Qed.

(* a semicolon can be added anywhere in an accepted sequence without changing the statements *)
Lemma seq_go_insert_semi top : forall l2 ns n k,
  seq_go top l2 ns n = Some k -> seq_go top l2 false n = Some k.
Proof.
  induction l2 as [|b r IH]; intros ns n k H.
  - cbn [seq_go] in *. destruct ns; [|exact H]. destruct top; [discriminate|exact H].
  - destruct b; cbn [seq_go] in *.
    + exact H.
    + destruct ns; [discriminate|exact H].
    + destruct ns; [discriminate|exact H].
Qed.

Lemma seq_insert_semi top l1 l2 k :
  parse_sequence top (l1 ++ l2) = Some k -> parse_sequence top (l1 ++ SSemi :: l2) = Some k.
Proof.
  unfold parse_sequence. rewrite !seq_go_app.
  destruct (seq_state l1 false 0) as [[ns n]|]; [|discriminate].
  cbn [seq_go]. apply seq_go_insert_semi.
Qed.

(* after a statement that ends with its own `}` (or after another `;`, or at the start) the
   separator is optional: newline, `;` or nothing are the same *)
Lemma seq_semi_after_block top l1 l2 :
  parse_sequence top (l1 ++ SBlock :: SSemi :: l2) = parse_sequence top (l1 ++ SBlock :: l2).
Proof.
  unfold parse_sequence. rewrite !seq_go_app.
  destruct (seq_state l1 false 0) as [[ns n]|]; [|reflexivity].
  cbn [seq_go]. destruct ns; reflexivity.
Qed.
