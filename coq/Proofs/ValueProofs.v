(* Lemmas about the NaN-box model (Model/Value.v).
   Strategy: every kind predicate depends only on bits 48..63 of the word (hi = w >> 48),
   because every mask it uses is a multiple of 2^48 -- a fact checked by computation on the
   *extracted* constants.  Statements over all hi < 2^16 are then discharged by a complete
   sweep (all_below ... 65536), statements about the 48 payload bits by arithmetic. *)
From Aelys Require Import Base.Tactics Extracted.ValueConsts Model.Value.
Local Open Scope N_scope.

(* ------------------------------------------------------------------ bit lemmas *)
Lemma land_shiftl_hi (w m k : N) :
  N.land w (N.shiftl m k) = N.shiftl (N.land (N.shiftr w k) m) k.
Proof.
  apply N.bits_inj; intro n.
  rewrite N.land_spec.
  destruct (N.lt_ge_cases n k) as [Hlt|Hge].
  - rewrite !N.shiftl_spec_low by exact Hlt. apply andb_false_r.
  - rewrite !N.shiftl_spec_high' by exact Hge.
    rewrite N.land_spec, N.shiftr_spec'.
    replace (n - k + k) with n by lia. reflexivity.
Qed.

Lemma shiftl_inj (a b k : N) : N.shiftl a k = N.shiftl b k -> a = b.
Proof.
  intro H. apply (f_equal (fun x => N.shiftr x k)) in H.
  rewrite !N.shiftr_shiftl_l in H by lia. rewrite N.sub_diag, !N.shiftl_0_r in H. exact H.
Qed.

Definition hi48 (w : N) : N := N.shiftr w 48.
Definition aligned48 (c : N) : bool := N.shiftl (N.shiftr c 48) 48 =? c.

Lemma aligned48_eq c : aligned48 c = true -> c = N.shiftl (N.shiftr c 48) 48.
Proof. unfold aligned48; intro H; apply N.eqb_eq in H; symmetry; exact H. Qed.

Lemma land_aligned (w c : N) :
  aligned48 c = true -> N.land w c = N.shiftl (N.land (hi48 w) (N.shiftr c 48)) 48.
Proof.
  intro H. rewrite (aligned48_eq c H) at 1. apply land_shiftl_hi.
Qed.

Lemma land_eqb_aligned (w m c : N) :
  aligned48 m = true -> aligned48 c = true ->
  (N.land w m =? c) = (N.land (hi48 w) (N.shiftr m 48) =? N.shiftr c 48).
Proof.
  intros Hm Hc. rewrite (land_aligned w m Hm).
  rewrite (aligned48_eq c Hc) at 1.
  destruct (N.eqb_spec (N.land (hi48 w) (N.shiftr m 48)) (N.shiftr c 48)) as [E|E].
  - rewrite E. apply N.eqb_refl.
  - apply N.eqb_neq. intro H. apply E. eapply shiftl_inj; exact H.
Qed.

Lemma hi48_lt (w : N) : w < W64 -> hi48 w < 65536.
Proof.
  intro H. unfold hi48. rewrite N.shiftr_div_pow2.
  change (2 ^ 48) with 281474976710656. unfold W64 in H. lia.
Qed.

(* ------------------------------------------------------------------ hi-level predicates *)
Definition hi_has_tag (t h : N) : bool :=
  N.land h (N.shiftr KIND_MASK 48) =? N.shiftr (N.lor QNAN t) 48.
Definition hi_is_float (h : N) : bool :=
  if negb (N.land h (N.shiftr QNAN 48) =? N.shiftr QNAN 48) then true
  else
    let tag := N.land h (N.shiftr TAG_MASK 48) in
    negb (tag =? N.shiftr TAG_PTR 48) && negb (tag =? N.shiftr TAG_INT 48)
    && negb (tag =? N.shiftr TAG_BOOL 48) && negb (tag =? N.shiftr TAG_NULL 48)
    && negb (tag =? N.shiftr TAG_NESTED_FN 48).
Definition hi_kind_count (h : N) : N :=
  b2n (hi_is_float h) + b2n (hi_has_tag TAG_INT h) + b2n (hi_has_tag TAG_BOOL h)
  + b2n (hi_has_tag TAG_NULL h) + b2n (hi_has_tag TAG_PTR h) + b2n (hi_has_tag TAG_NESTED_FN h).

(* All masks and tags the predicates use are multiples of 2^48: computed on the extracted
   constants.  A changed constant that breaks this breaks the proof here. *)
Definition consts_aligned : bool :=
  aligned48 KIND_MASK && aligned48 QNAN && aligned48 TAG_MASK
  && aligned48 TAG_PTR && aligned48 TAG_INT && aligned48 TAG_BOOL && aligned48 TAG_NULL
  && aligned48 TAG_NESTED_FN && aligned48 TAG_NAN
  && aligned48 (N.lor QNAN TAG_PTR) && aligned48 (N.lor QNAN TAG_INT)
  && aligned48 (N.lor QNAN TAG_BOOL) && aligned48 (N.lor QNAN TAG_NULL)
  && aligned48 (N.lor QNAN TAG_NESTED_FN).
Lemma consts_aligned_ok : consts_aligned = true.
Proof. vm_compute. reflexivity. Qed.

Ltac aligned_side :=
  let H := fresh in
  pose proof consts_aligned_ok as H; unfold consts_aligned in H;
  repeat (apply andb_true_iff in H; destruct H as [H ?]); assumption.

Lemma has_tag_hi (t w : N) :
  aligned48 (N.lor QNAN t) = true -> has_tag t w = hi_has_tag t (hi48 w).
Proof.
  intro Ht. unfold has_tag, hi_has_tag.
  apply land_eqb_aligned; [aligned_side | exact Ht].
Qed.

Lemma is_int_hi w : is_int w = hi_has_tag TAG_INT (hi48 w).
Proof. apply has_tag_hi; aligned_side. Qed.
Lemma is_bool_hi w : is_bool w = hi_has_tag TAG_BOOL (hi48 w).
Proof. apply has_tag_hi; aligned_side. Qed.
Lemma is_null_hi w : is_null w = hi_has_tag TAG_NULL (hi48 w).
Proof. apply has_tag_hi; aligned_side. Qed.
Lemma is_ptr_hi w : is_ptr w = hi_has_tag TAG_PTR (hi48 w).
Proof. apply has_tag_hi; aligned_side. Qed.
Lemma is_nested_hi w : is_nested w = hi_has_tag TAG_NESTED_FN (hi48 w).
Proof. apply has_tag_hi; aligned_side. Qed.

Lemma is_float_hi w : is_float w = hi_is_float (hi48 w).
Proof.
  unfold is_float, hi_is_float.
  rewrite (land_eqb_aligned w QNAN QNAN) by aligned_side.
  rewrite (land_eqb_aligned w TAG_MASK TAG_PTR) by aligned_side.
  rewrite (land_eqb_aligned w TAG_MASK TAG_INT) by aligned_side.
  rewrite (land_eqb_aligned w TAG_MASK TAG_BOOL) by aligned_side.
  rewrite (land_eqb_aligned w TAG_MASK TAG_NULL) by aligned_side.
  rewrite (land_eqb_aligned w TAG_MASK TAG_NESTED_FN) by aligned_side.
  reflexivity.
Qed.

Lemma kind_count_hi w : kind_count w = hi_kind_count (hi48 w).
Proof.
  unfold kind_count, hi_kind_count.
  rewrite is_float_hi, is_int_hi, is_bool_hi, is_null_hi, is_ptr_hi, is_nested_hi.
  reflexivity.
Qed.

(* ------------------------------------------------------------------ the sweep *)
Definition fuel16 : nat := N.to_nat 65536.
Lemma fuel16_N : N.of_nat fuel16 = 65536.
Proof. exact (N2Nat.id 65536). Qed.
Lemma sweep_gen (f : N -> bool) (fuel : nat) :
  N.of_nat fuel = 65536 -> all_below f fuel 0 = true -> forall h, h < 65536 -> f h = true.
Proof.
  intros Hf H h Hh. refine (all_below_spec f fuel 0 H h _ _).
  - apply N.le_0_l.
  - rewrite Hf, N.add_0_l. exact Hh.
Qed.
Definition sweep (f : N -> bool) : bool := all_below f fuel16 0.
Lemma sweep_spec f : sweep f = true -> forall h, h < 65536 -> f h = true.
Proof. exact (sweep_gen f fuel16 fuel16_N). Qed.

Lemma hi_partition_sweep : sweep (fun h => hi_kind_count h =? 1) = true.
Proof. vm_compute. reflexivity. Qed.

Lemma kind_partition_lemma (w : N) : w < W64 -> kind_count w = 1.
Proof.
  intro H. rewrite kind_count_hi. apply N.eqb_eq.
  apply (sweep_spec _ hi_partition_sweep). apply hi48_lt. exact H.
Qed.

(* a non-float word has exponent all ones and the quiet bit set, i.e. it is a NaN pattern *)
Lemma hi_nonfloat_sweep :
  sweep (fun h => hi_is_float h
                  || ((N.land h (N.shiftr EXP_MASK 48) =? N.shiftr EXP_MASK 48)
                      && negb (N.land h 8 =? 0))) = true.
Proof. vm_compute. reflexivity. Qed.

Lemma land_mant_bit51 (w : N) : N.land w MANT_MASK = 0 -> N.land w (N.shiftl 8 48) = 0.
Proof.
  intro H.
  assert (E : N.shiftl 8 48 = N.land MANT_MASK (N.shiftl 8 48)) by (vm_compute; reflexivity).
  rewrite E, N.land_assoc, H. apply N.land_0_l.
Qed.

Lemma nonnan_is_float (w : N) : w < W64 -> is_nan_bits w = false -> is_float w = true.
Proof.
  intros Hw Hn. rewrite is_float_hi.
  pose proof (sweep_spec _ hi_nonfloat_sweep (hi48 w) (hi48_lt w Hw)) as S.
  cbv beta in S. apply orb_true_iff in S as [S|S]; [exact S|exfalso].
  apply andb_true_iff in S as [Se Sq].
  unfold is_nan_bits in Hn.
  assert (He : (N.land w EXP_MASK =? EXP_MASK) = true).
  { rewrite (land_eqb_aligned w EXP_MASK EXP_MASK) by (vm_compute; reflexivity). exact Se. }
  rewrite He in Hn. cbn [andb] in Hn.
  apply negb_false_iff, N.eqb_eq in Hn.
  apply land_mant_bit51 in Hn.
  rewrite land_shiftl_hi in Hn.
  apply negb_true_iff, N.eqb_neq in Sq. apply Sq.
  apply (shiftl_inj _ 0 48). rewrite N.shiftl_0_l. exact Hn.
Qed.

(* ------------------------------------------------------------------ boxed words *)
(* C is a tag word (aligned), p a 48-bit payload *)
Lemma hi48_box (c p : N) : aligned48 c = true -> p < 281474976710656 -> hi48 (N.lor c p) = N.shiftr c 48.
Proof.
  intros _ Hp. unfold hi48. rewrite N.shiftr_lor.
  assert (N.shiftr p 48 = 0) as ->.
  { rewrite N.shiftr_div_pow2. change (2^48) with 281474976710656. apply N.div_small. exact Hp. }
  apply N.lor_0_r.
Qed.

Lemma payload_box (c p : N) :
  aligned48 c = true -> p < 281474976710656 -> N.land (N.lor c p) PAYLOAD_MASK = p.
Proof.
  intros Hc Hp.
  assert (EP : PAYLOAD_MASK = N.ones 48) by (vm_compute; reflexivity).
  rewrite EP, N.land_ones. rewrite (aligned48_eq c Hc).
  rewrite N.shiftl_mul_pow2.
  (* (a*2^48 lor p) mod 2^48 = p : lor of disjoint = add *)
  rewrite <- N.land_ones, N.land_lor_distr_l.
  rewrite !N.land_ones, N.mod_mul by (vm_compute; discriminate).
  rewrite N.lor_0_l. apply N.mod_small. change (2^48) with 281474976710656. exact Hp.
Qed.

(* ------------------------------------------------------------------ integers *)
Definition in48 (n : Z) : Prop := (-140737488355328 <= n < 140737488355328)%Z.
Definition wrap48 (n : Z) : Z := ((n + 140737488355328) mod 281474976710656 - 140737488355328)%Z.

Lemma payload_of_int (n : Z) :
  N.land (u64_of_i64 n) PAYLOAD_MASK = Z.to_N (n mod 281474976710656)%Z.
Proof.
  assert (EP : PAYLOAD_MASK = N.ones 48) by (vm_compute; reflexivity).
  rewrite EP, N.land_ones. unfold u64_of_i64.
  change (2^48) with 281474976710656. lia.
Qed.

Lemma sext48_spec (p : N) :
  p < 281474976710656 ->
  sext48 p = if p <? 140737488355328 then Z.of_N p else (Z.of_N p - 281474976710656)%Z.
Proof.
  intro Hp. unfold sext48, i64_of_u64, W64.
  destruct (N.ltb_spec p 140737488355328);
    destruct (N.ltb_spec ((p * 65536) mod 18446744073709551616) 9223372036854775808); lia.
Qed.

Lemma v_int_shape (n : Z) :
  v_int n = N.lor (N.lor QNAN TAG_INT) (Z.to_N (n mod 281474976710656)%Z).
Proof. unfold v_int. rewrite payload_of_int. reflexivity. Qed.

Lemma pay_lt (n : Z) : Z.to_N (n mod 281474976710656)%Z < 281474976710656.
Proof. lia. Qed.

Lemma int_is_int (n : Z) : is_int (v_int n) = true.
Proof.
  rewrite is_int_hi, v_int_shape, hi48_box by (try aligned_side; apply pay_lt).
  vm_compute. reflexivity.
Qed.

Lemma int_kind_count (n : Z) : kind_count (v_int n) = 1.
Proof.
  rewrite kind_count_hi, v_int_shape, hi48_box by (try aligned_side; apply pay_lt).
  vm_compute. reflexivity.
Qed.

Lemma int_wrap_lemma (n : Z) : as_int (v_int n) = Some (wrap48 n).
Proof.
  unfold as_int. rewrite int_is_int. f_equal.
  rewrite v_int_shape, payload_box by (try aligned_side; apply pay_lt).
  rewrite sext48_spec by apply pay_lt. unfold wrap48.
  destruct (N.ltb_spec (Z.to_N (n mod 281474976710656)%Z) 140737488355328); lia.
Qed.

Lemma wrap48_id (n : Z) : in48 n -> wrap48 n = n.
Proof. unfold in48, wrap48. lia. Qed.

Lemma int_roundtrip_lemma (n : Z) : in48 n -> as_int (v_int n) = Some n.
Proof. intro H. rewrite int_wrap_lemma, wrap48_id by exact H. reflexivity. Qed.

Lemma shl16_shr16_spec (n : Z) :
  is_i64 n = true -> shl16_shr16 n = wrap48 n.
Proof.
  unfold is_i64, shl16_shr16, wrap48, i64_of_u64, u64_of_i64, W64. intro H.
  destruct (N.ltb_spec ((Z.to_N (n mod 18446744073709551616)%Z * 65536) mod 18446744073709551616)
                       9223372036854775808); lia.
Qed.

Lemma int_checked_lemma (n : Z) :
  is_i64 n = true ->
  (in48 n -> v_int_checked n = Some (v_int n)) /\ (~ in48 n -> v_int_checked n = None).
Proof.
  intro Hi. unfold v_int_checked. rewrite (shl16_shr16_spec n Hi).
  split; intro H.
  - rewrite wrap48_id by exact H. rewrite Z.eqb_refl. reflexivity.
  - destruct (Z.eqb_spec n (wrap48 n)) as [E|E]; [|reflexivity].
    exfalso. apply H. unfold in48, wrap48 in *. lia.
Qed.

(* ------------------------------------------------------------------ pointers, markers, bool, null *)
Lemma ptr_roundtrip_lemma (p : N) :
  p < 281474976710656 -> as_ptr (v_ptr p) = Some p /\ kind_count (v_ptr p) = 1.
Proof.
  intro Hp. unfold as_ptr, v_ptr. split.
  - rewrite is_ptr_hi, hi48_box by (try aligned_side; exact Hp).
    assert (hi_has_tag TAG_PTR (N.shiftr (N.lor QNAN TAG_PTR) 48) = true) as -> by (vm_compute; reflexivity).
    rewrite payload_box by (try aligned_side; exact Hp). reflexivity.
  - rewrite kind_count_hi, hi48_box by (try aligned_side; exact Hp). vm_compute. reflexivity.
Qed.

Lemma nested_roundtrip_lemma (i : N) :
  i < 281474976710656 -> as_nested (v_nested i) = Some i /\ kind_count (v_nested i) = 1.
Proof.
  intro Hp. unfold as_nested, v_nested. split.
  - rewrite is_nested_hi, hi48_box by (try aligned_side; exact Hp).
    assert (hi_has_tag TAG_NESTED_FN (N.shiftr (N.lor QNAN TAG_NESTED_FN) 48) = true) as ->
        by (vm_compute; reflexivity).
    rewrite payload_box by (try aligned_side; exact Hp). reflexivity.
  - rewrite kind_count_hi, hi48_box by (try aligned_side; exact Hp). vm_compute. reflexivity.
Qed.

Lemma bool_roundtrip_lemma (b : bool) : as_bool (v_bool b) = Some b /\ kind_count (v_bool b) = 1.
Proof. destruct b; vm_compute; split; reflexivity. Qed.

Lemma null_roundtrip_lemma : is_null v_null = true /\ kind_count v_null = 1.
Proof. vm_compute; split; reflexivity. Qed.

(* ------------------------------------------------------------------ floats *)
Lemma canonical_nan_facts :
  is_nan_bits CANONICAL_NAN = true /\ is_float CANONICAL_NAN = true
  /\ kind_count CANONICAL_NAN = 1 /\ CANONICAL_NAN < W64.
Proof. vm_compute. repeat split; reflexivity. Qed.

Lemma float_roundtrip_lemma (w : N) :
  w < W64 ->
  (is_nan_bits w = true -> v_float w = CANONICAL_NAN) /\
  (is_nan_bits w = false -> v_float w = w /\ as_float (v_float w) = Some w) /\
  is_float (v_float w) = true /\ kind_count (v_float w) = 1.
Proof.
  intro Hw. unfold v_float, as_float.
  destruct (is_nan_bits w) eqn:En.
  - destruct canonical_nan_facts as (_ & Hf & Hk & _).
    split; [reflexivity|]. split; [discriminate|]. split; assumption.
  - pose proof (nonnan_is_float w Hw En) as Hf.
    split; [discriminate|]. split.
    + intros _. rewrite Hf. split; reflexivity.
    + split; [exact Hf | apply kind_partition_lemma; exact Hw].
Qed.

(* ------------------------------------------------------------------ exclusivity helper *)
Lemma one_kind_excl (w : N) :
  kind_count w = 1 ->
  forall a b : bool,
    (a = is_float w \/ a = is_int w \/ a = is_bool w \/ a = is_null w \/ a = is_ptr w \/ a = is_nested w) ->
    True.
Proof. trivial. Qed.

Lemma int_not_float (n : Z) : is_float (v_int n) = false.
Proof.
  pose proof (int_kind_count n) as K. pose proof (int_is_int n) as I.
  unfold kind_count in K. rewrite I in K.
  destruct (is_float (v_int n)); [|reflexivity].
  exfalso. unfold b2n in K.
  destruct (is_bool (v_int n)), (is_null (v_int n)), (is_ptr (v_int n)), (is_nested (v_int n)); lia.
Qed.

Lemma float_not_int (w : N) : w < W64 -> is_float w = true -> is_int w = false.
Proof.
  intros Hw F. pose proof (kind_partition_lemma w Hw) as K.
  unfold kind_count in K. rewrite F in K.
  destruct (is_int w); [|reflexivity].
  exfalso. unfold b2n in K.
  destruct (is_bool w), (is_null w), (is_ptr w), (is_nested w); lia.
Qed.

(* ------------------------------------------------------------------ equality *)
Lemma v_int_inj (a b : Z) : in48 a -> in48 b -> v_int a = v_int b -> a = b.
Proof.
  intros Ha Hb E.
  pose proof (int_roundtrip_lemma a Ha) as Ra. pose proof (int_roundtrip_lemma b Hb) as Rb.
  rewrite E in Ra. rewrite Ra in Rb. injection Rb as ->. reflexivity.
Qed.

Lemma eq_int_int_lemma (a b : Z) :
  in48 a -> in48 b -> value_eq (v_int a) (v_int b) = (a =? b)%Z.
Proof.
  intros Ha Hb. unfold value_eq.
  destruct (N.eqb_spec (v_int a) (v_int b)) as [E|E].
  - apply (v_int_inj a b Ha Hb) in E. subst. symmetry. apply Z.eqb_refl.
  - unfold as_float. rewrite !int_not_float. cbn [andb].
    unfold as_int. rewrite !int_is_int.
    destruct (Z.eqb_spec a b) as [->|N']; [exfalso; apply E; reflexivity | reflexivity].
Qed.

Lemma f64_eq_refl_nonnan (w : N) : is_nan_bits w = false -> f64_eq w w = true.
Proof. intro H. unfold f64_eq. rewrite H, N.eqb_refl. reflexivity. Qed.

Lemma eq_float_float_lemma (a b : N) :
  a < W64 -> b < W64 -> is_nan_bits a = false -> is_nan_bits b = false ->
  value_eq (v_float a) (v_float b) = f64_eq a b.
Proof.
  intros Ha Hb Na Nb. unfold v_float. rewrite Na, Nb. unfold value_eq.
  destruct (N.eqb_spec a b) as [->|E].
  - symmetry. apply f64_eq_refl_nonnan. exact Nb.
  - rewrite (nonnan_is_float a Ha Na), (nonnan_is_float b Hb Nb). reflexivity.
Qed.

Lemma eq_int_float_lemma (n : Z) (f : N) :
  in48 n -> f < W64 -> is_nan_bits f = false ->
  value_eq (v_int n) (v_float f) = int_eq_f64 n f /\
  value_eq (v_float f) (v_int n) = int_eq_f64 n f.
Proof.
  intros Hn Hf Nf. unfold v_float. rewrite Nf.
  pose proof (nonnan_is_float f Hf Nf) as Ff.
  pose proof (float_not_int f Hf Ff) as NIf.
  pose proof (int_not_float n) as NFn. pose proof (int_is_int n) as In.
  assert (Hne : (v_int n =? f) = false).
  { apply N.eqb_neq. intro E. rewrite <- E in Ff. rewrite NFn in Ff. discriminate. }
  split; unfold value_eq.
  - rewrite Hne, NFn. cbn [andb].
    rewrite (int_roundtrip_lemma n Hn). unfold as_float. rewrite Ff. reflexivity.
  - rewrite N.eqb_sym, Hne, NFn, andb_false_r.
    unfold as_int at 1. rewrite NIf. unfold as_float. rewrite Ff.
    rewrite (int_roundtrip_lemma n Hn). reflexivity.
Qed.

(* exact-value reading of int_eq_f64: n equals sm * 2^e as rationals *)
Lemma int_eq_f64_spec (n : Z) (f : N) :
  int_eq_f64 n f = true <->
  exists sm e, f_decode f = Some (sm, e) /\
               ((0 <= e)%Z /\ n = (sm * 2 ^ e)%Z \/ (e < 0)%Z /\ (n * 2 ^ (- e))%Z = sm).
Proof.
  unfold int_eq_f64. destruct (f_decode f) as [[sm e]|].
  - split.
    + intro H. exists sm, e. split; [reflexivity|].
      destruct (Z.leb_spec 0 e); [left|right]; split; try assumption; apply Z.eqb_eq; exact H.
    + intros (sm' & e' & E & H). injection E as <- <-.
      destruct H as [[H1 H2]|[H1 H2]]; destruct (Z.leb_spec 0 e); try lia; apply Z.eqb_eq; assumption.
  - split; [discriminate|]. intros (? & ? & E & _). discriminate.
Qed.
