(* C17 -- unbounded proof about the locals model (Model/AirLocals.v): in every lowered function of
   every program each id is declared once, the parameter list has no duplicates, and every id
   mentioned by a statement or terminator is declared or is a parameter. *)
From Aelys Require Import Base.Tactics Extracted.LowerFlags Model.AirLower Model.AirLocals Proofs.AirLowerProofs.
Local Open Scope N_scope.

Definition lok (f : lfn_out) : Prop := locals_ok f = true.

(* E: ids that may be mentioned without being declared (the closure environment parameter) *)
Definition LI (E : list N) (s : lst) : Prop :=
  NoDup (l_locals s)
  /\ (forall i, In i (l_locals s) -> i < l_next s)
  /\ (forall x i, In (x, i) (l_names s) -> In i (l_locals s))
  /\ (forall i, In i (l_ment s) -> In i (l_locals s) \/ In i E)
  /\ Forall lok (l_out s).

Definition ext (s s' : lst) : Prop :=
  (forall i, In i (l_locals s) -> In i (l_locals s')) /\ l_next s <= l_next s'.

Lemma ext_refl s : ext s s. Proof. split; [auto|lia]. Qed.
Lemma ext_trans a b c : ext a b -> ext b c -> ext a c.
Proof. intros [A1 A2] [B1 B2]. split; [auto|lia]. Qed.

Lemma alloc_temp_LI E s : LI E s ->
  LI E (snd (alloc_temp s)) /\ ext s (snd (alloc_temp s)) /\ In (fst (alloc_temp s)) (l_locals (snd (alloc_temp s)))
  /\ fst (alloc_temp s) = l_next s.
Proof.
  intros (ND & LT & NM & MT & OK). unfold alloc_temp; cbn [fst snd].
  split; [|split; [|split]].
  - unfold LI; cbn. split; [|split; [|split; [|split]]].
    + constructor; [|exact ND]. intro H. apply LT in H. lia.
    + intros i [<-|H]; [lia|apply LT in H; lia].
    + intros x i H. right. eapply NM; eassumption.
    + intros i H. destruct (MT i H); [left; right; assumption|right; assumption].
    + exact OK.
  - split; cbn; [intros i H; right; exact H|lia].
  - cbn. left. reflexivity.
  - reflexivity.
Qed.

Lemma alloc_named_LI E x s : LI E s ->
  LI E (snd (alloc_named x s)) /\ ext s (snd (alloc_named x s)) /\ In (fst (alloc_named x s)) (l_locals (snd (alloc_named x s)))
  /\ fst (alloc_named x s) = l_next s /\ l_next (snd (alloc_named x s)) = l_next s + 1.
Proof.
  intros (ND & LT & NM & MT & OK). unfold alloc_named; cbn [fst snd].
  split; [|split; [|split; [|split]]].
  - unfold LI; cbn. split; [|split; [|split; [|split]]].
    + constructor; [|exact ND]. intro H. apply LT in H. lia.
    + intros i [<-|H]; [lia|apply LT in H; lia].
    + intros y i [H|H]; [inversion H; subst; left; reflexivity|right; eapply NM; eassumption].
    + intros i H. destruct (MT i H); [left; right; assumption|right; assumption].
    + exact OK.
  - split; cbn; [intros i H; right; exact H|lia].
  - cbn. left. reflexivity.
  - reflexivity.
  - reflexivity.
Qed.

Lemma mention_LI E ids s : LI E s -> (forall i, In i ids -> In i (l_locals s) \/ In i E) ->
  LI E (mention ids s) /\ ext s (mention ids s).
Proof.
  intros (ND & LT & NM & MT & OK) H. unfold mention. split; [|split; cbn; [auto|lia]].
  unfold LI; cbn. split; [exact ND|split; [exact LT|split; [exact NM|split; [|exact OK]]]].
  intros i Hi. apply in_app_or in Hi as [Hi|Hi]; [apply H; apply in_rev; exact Hi|apply MT; exact Hi].
Qed.

Lemma in_keep_oldest {A} n (l : list A) x : In x (keep_oldest n l) -> In x l.
Proof.
  unfold keep_oldest. generalize (length l - n)%nat. intro k. revert l.
  induction k as [|k IH]; intros l H; [exact H|]. destruct l as [|y r]; [exact H|]. right. apply IH. exact H.
Qed.

Lemma lrestore_LI E n s : LI E s -> LI E (lrestore_names n s) /\ ext s (lrestore_names n s).
Proof.
  intros (ND & LT & NM & MT & OK). unfold lrestore_names. split; [|split; cbn; [auto|lia]].
  unfold LI; cbn. split; [exact ND|split; [exact LT|split; [|split; [exact MT|exact OK]]]].
  intros x i H. apply in_keep_oldest in H. eapply NM; exact H.
Qed.
Lemma lscope_block_LI E n s : LI E s -> LI E (lscope_block n s) /\ ext s (lscope_block n s).
Proof. intro H. unfold lscope_block. destruct BLOCK_SCOPES_NAMES; [apply lrestore_LI; exact H|split; [exact H|apply ext_refl]]. Qed.
Lemma lscope_loop_LI E n s : LI E s -> LI E (lscope_loop n s) /\ ext s (lscope_loop n s).
Proof. intro H. unfold lscope_loop. destruct LOOP_SCOPES_NAMES; [apply lrestore_LI; exact H|split; [exact H|apply ext_refl]]. Qed.

Lemma lookup_In E x s i : LI E s -> lookup x s = Some i -> In i (l_locals s).
Proof.
  intros (_ & _ & NM & _) H. unfold lookup in H.
  destruct (find _ (l_names s)) as [[y j]|] eqn:Ef; [|discriminate]. inversion H; subst.
  apply find_some in Ef. eapply NM. apply Ef.
Qed.

(* operands that are ids of declared locals *)
Definition opok (s : lst) (o : option N) : Prop := forall i, o = Some i -> In i (l_locals s).
Definition opsok (s : lst) (l : list (option N)) : Prop := forall o, In o l -> opok s o.

Lemma opok_ext s s' o : ext s s' -> opok s o -> opok s' o.
Proof. intros [A _] H i Hi. apply A. apply H. exact Hi. Qed.
Lemma opsok_ext s s' l : ext s s' -> opsok s l -> opsok s' l.
Proof. intros X H o Ho. eapply opok_ext; [exact X|apply H; exact Ho]. Qed.
Lemma opl_ok E s o : opok s o -> forall i, In i (opl o) -> In i (l_locals s) \/ In i E.
Proof. intros H i Hi. destruct o as [j|]; [destruct Hi as [<-|[]]; left; apply H; reflexivity|contradiction]. Qed.
Lemma opsl_ok E s l : opsok s l -> forall i, In i (opsl l) -> In i (l_locals s) \/ In i E.
Proof.
  intros H i Hi. unfold opsl in Hi. apply in_flat_map in Hi as [o [Ho Hi]].
  eapply opl_ok; [apply H; exact Ho|exact Hi].
Qed.
Lemma last_ok s l : opsok s l -> opok s (last l None).
Proof.
  induction l as [|o r IH]; intro H; [intros i Hi; discriminate|].
  destruct r as [|o' r']; [apply H; left; reflexivity|].
  change (last (o :: o' :: r') None) with (last (o' :: r') None). apply IH. intros x Hx. apply H. right. exact Hx.
Qed.
Lemma hd_ok s l : opsok s l -> opok s (hd None l).
Proof. destruct l as [|o r]; intro H; [intros i Hi; discriminate|apply H; left; reflexivity]. Qed.

Lemma concat_temps_LI E : forall n acc s, LI E s -> opok s acc ->
  LI E (snd (concat_temps n acc s)) /\ ext s (snd (concat_temps n acc s))
  /\ opok (snd (concat_temps n acc s)) (fst (concat_temps n acc s)).
Proof.
  induction n as [|k IH]; intros acc s HL Ha; cbn [concat_temps].
  - split; [exact HL|split; [apply ext_refl|exact Ha]].
  - destruct (alloc_temp_LI E s HL) as (A & B & C & D). destruct (alloc_temp s) as [t s1]. cbn [fst snd] in *.
    assert (Hm : forall i, In i (t :: opl acc) -> In i (l_locals s1) \/ In i E).
    { intros i [<-|Hi]; [left; exact C|]. eapply opl_ok; [eapply opok_ext; [exact B|exact Ha]|exact Hi]. }
    destruct (mention_LI E _ s1 A Hm) as [A2 B2].
    assert (Ht : opok (mention (t :: opl acc) s1) (Some t)) by (intros i Hi; inversion Hi; subst; exact C).
    destruct (IH (Some t) _ A2 Ht) as (A3 & B3 & C3).
    split; [exact A3|split; [|exact C3]]. eapply ext_trans; [exact B|]. eapply ext_trans; [exact B2|exact B3].
Qed.

Lemma alloc_named_list_LI E : forall xs s, LI E s ->
  LI E (snd (alloc_named_list xs s)) /\ ext s (snd (alloc_named_list xs s))
  /\ (forall i, In i (fst (alloc_named_list xs s)) -> In i (l_locals (snd (alloc_named_list xs s))) /\ l_next s <= i)
  /\ NoDup (fst (alloc_named_list xs s)).
Proof.
  induction xs as [|x r IH]; intros s HL; cbn [alloc_named_list].
  - split; [exact HL|split; [apply ext_refl|split; [intros i []|constructor]]].
  - destruct (alloc_named_LI E x s HL) as (A & B & C & D & D2). destruct (alloc_named x s) as [i s1]. cbn [fst snd] in *.
    destruct (IH s1 A) as (A2 & B2 & C2 & N2). destruct (alloc_named_list r s1) as [is s2]. cbn [fst snd] in *.
    split; [exact A2|split; [eapply ext_trans; eassumption|split]].
    + intros j [<-|Hj]; [split; [apply B2; exact C|lia]|]. destruct (C2 j Hj). split; [assumption|lia].
    + constructor; [|exact N2]. intro Hi. destruct (C2 i Hi). lia.
Qed.

Lemma alloc_captures_LI env : forall xs s, LI [env] s ->
  LI [env] (alloc_captures env xs s) /\ ext s (alloc_captures env xs s).
Proof.
  induction xs as [|x r IH]; intros s HL; cbn [alloc_captures].
  - split; [exact HL|apply ext_refl].
  - destruct (alloc_named_LI [env] x s HL) as (A & B & C & D & _). destruct (alloc_named x s) as [i s1]. cbn [fst snd] in *.
    assert (Hm : forall j, In j [i; env] -> In j (l_locals s1) \/ In j [env]).
    { intros j [<-|[<-|[]]]; [left; exact C|right; left; reflexivity]. }
    destruct (mention_LI [env] _ s1 A Hm) as [A2 B2]. destruct (IH _ A2) as [A3 B3].
    split; [exact A3|]. eapply ext_trans; [exact B|]. eapply ext_trans; [exact B2|exact B3].
Qed.

(* entering a function: a fresh state satisfying the invariant, the parameter list without
   duplicates, every parameter declared or the environment *)
Lemma linit_like_LI E out : Forall lok out -> LI E (mkl 0 [] [] [] out).
Proof.
  intro H. unfold LI; cbn. split; [constructor|split; [intros i []|split; [intros x i []|split; [intros i []|exact H]]]].
Qed.

Lemma lfn_enter_spec caps params s : Forall lok (l_out s) ->
  exists E, LI E (snd (lfn_enter caps params s)) /\ NoDup (fst (lfn_enter caps params s))
    /\ (forall i, In i E -> In i (fst (lfn_enter caps params s))).
Proof.
  intro Ho. unfold lfn_enter. destruct caps as [|c cs].
  - exists []. pose proof (linit_like_LI [] _ Ho) as H0.
    destruct (alloc_named_list_LI [] params _ H0) as (A & B & C & N).
    destruct (alloc_named_list params _) as [ps s1]. cbn [fst snd] in *.
    split; [exact A|split; [exact N|intros i []]].
  - exists [0]. set (s0 := mkl 0 [] [] [] (l_out s)).
    assert (H1 : LI [0] (snd (alloc_undeclared s0))).
    { unfold alloc_undeclared, s0, LI; cbn.
      split; [constructor|split; [intros i []|split; [intros x i []|split; [intros i []|exact Ho]]]]. }
    change (alloc_undeclared s0) with (0, snd (alloc_undeclared s0)). cbv beta iota zeta.
    destruct (alloc_captures_LI 0 (c :: cs) _ H1) as [A2 B2].
    destruct (alloc_named_list_LI [0] params _ A2) as (A3 & B3 & C3 & N3).
    destruct (alloc_named_list params _) as [ps s3]. cbn [fst snd] in *.
    split; [exact A3|split].
    + constructor; [|exact N3]. intro H. destruct (C3 0 H) as [_ Hle].
      destruct B2 as [_ Hn]. change (l_next (snd (alloc_undeclared s0))) with 1 in Hn. lia.
    + intros i [<-|[]]. left. reflexivity.
Qed.

Lemma lfn_exit_LI E E' saved ps body_end :
  LI E saved -> LI E' body_end -> NoDup ps -> (forall i, In i E' -> In i ps) ->
  LI E (lfn_exit saved ps body_end) /\ ext saved (lfn_exit saved ps body_end).
Proof.
  intros (ND & LT & NM & MT & OK) (ND' & LT' & NM' & MT' & OK') Np Hp.
  unfold lfn_exit. split; [|split; cbn; [auto|lia]].
  unfold LI; cbn. split; [exact ND|split; [exact LT|split; [exact NM|split; [exact MT|]]]].
  apply Forall_app. split; [exact OK'|]. constructor; [|constructor].
  unfold lok, locals_ok. cbn [lf_locals lf_params lf_mentioned].
  apply andb_true_iff. split; [apply andb_true_iff; split|].
  - apply nodupb_NoDup. apply NoDup_rev. exact ND'.
  - apply nodupb_NoDup. exact Np.
  - apply forallb_forall. intros i Hi. apply in_rev in Hi. apply orb_true_iff.
    destruct (MT' i Hi) as [H|H]; [left; apply memN_In; apply -> in_rev; exact H|right; apply memN_In; apply Hp; exact H].
Qed.

(* ---- the induction *)
Definition Le (e : sexpr) := forall E s, LI E s ->
  LI E (snd (llower_expr e s)) /\ ext s (snd (llower_expr e s)) /\ opok (snd (llower_expr e s)) (fst (llower_expr e s)).
Definition Les (e : sexprs) := forall E s, LI E s ->
  LI E (snd (llower_exprs e s)) /\ ext s (snd (llower_exprs e s)) /\ opsok (snd (llower_exprs e s)) (fst (llower_exprs e s)).
Definition Ls (x : sstmt) := forall E s, LI E s -> LI E (llower_stmt x s) /\ ext s (llower_stmt x s).
Definition Lss (x : sstmts) := forall E s, LI E s -> LI E (llower_stmts x s) /\ ext s (llower_stmts x s).

Lemma opok_none s : opok s None. Proof. intros i H. discriminate. Qed.
Lemma opok_some s i : In i (l_locals s) -> opok s (Some i). Proof. intros H j Hj. inversion Hj; subst. exact H. Qed.

(* mention a list made of declared ids and ok operands *)
Lemma ment_step E s ids : LI E s -> (forall i, In i ids -> In i (l_locals s) \/ In i E) ->
  LI E (mention ids s) /\ ext s (mention ids s) /\ l_locals (mention ids s) = l_locals s.
Proof. intros H K. destruct (mention_LI E ids s H K). split; [assumption|split; [assumption|reflexivity]]. Qed.

Lemma lcase_fn caps params body E s : Lss body -> LI E s ->
  LI E (lfn_exit s (fst (lfn_enter caps params s)) (llower_stmts body (snd (lfn_enter caps params s))))
  /\ ext s (lfn_exit s (fst (lfn_enter caps params s)) (llower_stmts body (snd (lfn_enter caps params s)))).
Proof.
  intros IH HL. pose proof HL as (_ & _ & _ & _ & OK).
  destruct (lfn_enter_spec caps params s OK) as (E' & A & N & P).
  destruct (IH E' _ A) as [B _]. apply (lfn_exit_LI E E'); assumption.
Qed.

Ltac pair_eq t := let o := fresh "o" in let s1 := fresh "s" in let He := fresh "He" in
  destruct t as [o s1] eqn:He.

Lemma lcase_EOp k args : Les args -> Le (EOp k args).
Proof.
  intros IH E s HL. cbn [llower_expr].
  destruct (IH E s HL) as (A & B & C). destruct (llower_exprs args s) as [ops s1]. cbn [fst snd] in *.
  destruct k as [| | |x|n|void].
  - (* KPass *) cbn [fst snd]. split; [exact A|split; [exact B|apply last_ok; exact C]].
  - (* KTmp *)
    destruct (alloc_temp_LI E s1 A) as (A2 & B2 & C2 & _). destruct (alloc_temp s1) as [t s2]. cbn [fst snd] in *.
    destruct (ment_step E s2 (t :: opsl ops) A2) as (A3 & B3 & E3).
    { intros i [<-|Hi]; [left; exact C2|]. eapply opsl_ok; [eapply opsok_ext; [exact B2|exact C]|exact Hi]. }
    split; [exact A3|split; [eapply ext_trans; [exact B|eapply ext_trans; eassumption]|]].
    apply opok_some. rewrite E3. exact C2.
  - (* KVoid *)
    destruct (ment_step E s1 (opsl ops) A) as (A3 & B3 & E3); [apply opsl_ok; exact C|].
    cbn [fst snd]. split; [exact A3|split; [eapply ext_trans; eassumption|apply opok_none]].
  - (* KAssign *)
    destruct (lookup x s1) as [i|] eqn:El.
    + pose proof (lookup_In E x s1 i A El) as Hi.
      destruct (ment_step E s1 (i :: opsl ops) A) as (A3 & B3 & E3).
      { intros j [<-|Hj]; [left; exact Hi|eapply opsl_ok; [exact C|exact Hj]]. }
      cbn [fst snd]. split; [exact A3|split; [eapply ext_trans; eassumption|apply opok_some; rewrite E3; exact Hi]].
    + destruct (ment_step E s1 (opsl ops) A) as (A3 & B3 & E3); [apply opsl_ok; exact C|].
      cbn [fst snd]. split; [exact A3|split; [eapply ext_trans; eassumption|apply opok_none]].
  - (* KConcat *)
    destruct (ment_step E s1 (opsl ops) A) as (A3 & B3 & E3); [apply opsl_ok; exact C|].
    assert (Hh : opok (mention (opsl ops) s1) (hd None ops)).
    { eapply opok_ext; [exact B3|apply hd_ok; exact C]. }
    destruct (concat_temps_LI E (N.to_nat n) (hd None ops) _ A3 Hh) as (A4 & B4 & C4).
    destruct (concat_temps (N.to_nat n) (hd None ops) (mention (opsl ops) s1)) as [acc s2]. cbn [fst snd] in *.
    split; [exact A4|split; [eapply ext_trans; [exact B|eapply ext_trans; [exact B3|exact B4]]|exact C4]].
  - (* KCall *)
    set (s2 := match last ops None with
               | Some _ => s1
               | None => let '(t, s') := alloc_temp s1 in mention [t] s'
               end).
    assert (H2 : LI E s2 /\ ext s1 s2).
    { unfold s2. destruct (last ops None); [split; [exact A|apply ext_refl]|].
      destruct (alloc_temp_LI E s1 A) as (A2 & B2 & C2 & _). destruct (alloc_temp s1) as [t s']. cbn [fst snd] in *.
      destruct (ment_step E s' [t] A2) as (A3 & B3 & _); [intros i [<-|[]]; left; exact C2|].
      split; [exact A3|eapply ext_trans; eassumption]. }
    destruct H2 as [A2 B2].
    assert (C2 : opsok s2 ops) by (eapply opsok_ext; [exact B2|exact C]).
    destruct void.
    + destruct (ment_step E s2 (opsl ops) A2) as (A3 & B3 & E3); [apply opsl_ok; exact C2|].
      cbn [fst snd]. split; [exact A3|split; [eapply ext_trans; [exact B|eapply ext_trans; eassumption]|apply opok_none]].
    + destruct (alloc_temp_LI E s2 A2) as (A3 & B3 & C3 & _). destruct (alloc_temp s2) as [t s3]. cbn [fst snd] in *.
      destruct (ment_step E s3 (t :: opsl ops) A3) as (A4 & B4 & E4).
      { intros i [<-|Hi]; [left; exact C3|]. eapply opsl_ok; [eapply opsok_ext; [exact B3|exact C2]|exact Hi]. }
      split; [exact A4|split; [|apply opok_some; rewrite E4; exact C3]].
      eapply ext_trans; [exact B|]. eapply ext_trans; [exact B2|]. eapply ext_trans; eassumption.
Qed.

(* generic sequencing helpers *)
Lemma temp_then E s : LI E s -> forall t s', alloc_temp s = (t, s') ->
  LI E s' /\ ext s s' /\ In t (l_locals s').
Proof. intros H t s' Ea. destruct (alloc_temp_LI E s H) as (A & B & C & _). rewrite Ea in *. auto. Qed.
Lemma named_then E x s : LI E s -> forall t s', alloc_named x s = (t, s') ->
  LI E s' /\ ext s s' /\ In t (l_locals s').
Proof. intros H t s' Ea. destruct (alloc_named_LI E x s H) as (A & B & C & _). rewrite Ea in *. auto. Qed.
Lemma ext_in s s' i : ext s s' -> In i (l_locals s) -> In i (l_locals s'). Proof. intros [A _]. apply A. Qed.

Lemma lcase_EShort a l r : Le l -> Le r -> Le (EShort a l r).
Proof.
  intros IHl IHr E s HL. cbn [llower_expr].
  destruct (alloc_temp s) as [res s1] eqn:E1. destruct (temp_then E s HL _ _ E1) as (A1 & B1 & C1).
  destruct (IHl E s1 A1) as (A2 & B2 & C2). destruct (llower_expr l s1) as [lo s2]. cbn [fst snd] in *.
  assert (R2 : In res (l_locals s2)) by (eapply ext_in; [exact B2|exact C1]).
  destruct (ment_step E s2 (res :: opl lo ++ [res]) A2) as (A3 & B3 & E3).
  { intros i [<-|Hi]; [left; exact R2|].
    apply in_app_or in Hi as [Hi|[<-|[]]]; [eapply opl_ok; [exact C2|exact Hi]|left; exact R2]. }
  destruct (IHr E _ A3) as (A4 & B4 & C4).
  destruct (llower_expr r (mention (res :: opl lo ++ [res]) s2)) as [ro s4]. cbn [fst snd] in *.
  assert (Hres : In res (l_locals s4)).
  { eapply ext_in; [exact B4|]. rewrite E3. exact R2. }
  destruct (ment_step E s4 (res :: opl ro) A4) as (A5 & B5 & E5).
  { intros i [<-|Hi]; [left; exact Hres|eapply opl_ok; [exact C4|exact Hi]]. }
  split; [exact A5|split; [|apply opok_some; rewrite E5; exact Hres]].
  eapply ext_trans; [exact B1|]. eapply ext_trans; [exact B2|]. eapply ext_trans; [exact B3|].
  eapply ext_trans; [exact B4|exact B5].
Qed.

Lemma lcase_EIfE c t e : Le c -> Le t -> Le e -> Le (EIfE c t e).
Proof.
  intros IHc IHt IHe E s HL. cbn [llower_expr].
  destruct (alloc_temp s) as [res s1] eqn:E1. destruct (temp_then E s HL _ _ E1) as (A1 & B1 & C1).
  destruct (IHc E s1 A1) as (A2 & B2 & C2). destruct (llower_expr c s1) as [co s2]. cbn [fst snd] in *.
  destruct (ment_step E s2 (opl co) A2) as (A3 & B3 & E3); [eapply opl_ok; exact C2|].
  destruct (IHt E _ A3) as (A4 & B4 & C4). destruct (llower_expr t (mention (opl co) s2)) as [to s3]. cbn [fst snd] in *.
  assert (Hr3 : In res (l_locals s3)).
  { eapply ext_in; [exact B4|]. rewrite E3. eapply ext_in; [exact B2|exact C1]. }
  destruct (ment_step E s3 (res :: opl to) A4) as (A5 & B5 & E5).
  { intros i [<-|Hi]; [left; exact Hr3|eapply opl_ok; [exact C4|exact Hi]]. }
  destruct (IHe E _ A5) as (A6 & B6 & C6). destruct (llower_expr e (mention (res :: opl to) s3)) as [eo s4]. cbn [fst snd] in *.
  assert (Hr4 : In res (l_locals s4)).
  { eapply ext_in; [exact B6|]. rewrite E5. exact Hr3. }
  destruct (ment_step E s4 (res :: opl eo) A6) as (A7 & B7 & E7).
  { intros i [<-|Hi]; [left; exact Hr4|eapply opl_ok; [exact C6|exact Hi]]. }
  split; [exact A7|split; [|apply opok_some; rewrite E7; exact Hr4]].
  eapply ext_trans; [exact B1|]. eapply ext_trans; [exact B2|]. eapply ext_trans; [exact B3|].
  eapply ext_trans; [exact B4|]. eapply ext_trans; [exact B5|]. eapply ext_trans; [exact B6|exact B7].
Qed.

Lemma lcase_SFor n lo hi st b : Le lo -> Le hi -> Le st -> Ls b -> Ls (SFor n lo hi st b).
Proof.
  intros IHlo IHhi IHst IHb E s HL. cbn [llower_stmt].
  destruct (alloc_named n s) as [it s1] eqn:E1. destruct (named_then E n s HL _ _ E1) as (A1 & B1 & C1).
  destruct (IHlo E s1 A1) as (A2 & B2 & C2). destruct (llower_expr lo s1) as [lo_o s2]. cbn [fst snd] in *.
  assert (I2 : In it (l_locals s2)) by (eapply ext_in; eassumption).
  destruct (ment_step E s2 (it :: opl lo_o) A2) as (A3 & B3 & E3).
  { intros i [<-|Hi]; [left; exact I2|eapply opl_ok; eassumption]. }
  destruct (alloc_temp (mention (it :: opl lo_o) s2)) as [en s3] eqn:E4.
  destruct (temp_then E _ A3 _ _ E4) as (A4 & B4 & C4).
  destruct (IHhi E s3 A4) as (A5 & B5 & C5). destruct (llower_expr hi s3) as [hi_o s4]. cbn [fst snd] in *.
  assert (I4 : In it (l_locals s4)).
  { eapply ext_in; [exact B5|]. eapply ext_in; [exact B4|]. rewrite E3. exact I2. }
  assert (N4 : In en (l_locals s4)) by (eapply ext_in; eassumption).
  destruct (ment_step E s4 (en :: opl hi_o) A5) as (A6 & B6 & E6).
  { intros i [<-|Hi]; [left; exact N4|eapply opl_ok; eassumption]. }
  destruct (alloc_temp (mention (en :: opl hi_o) s4)) as [cd s5] eqn:E7.
  destruct (temp_then E _ A6 _ _ E7) as (A7 & B7 & C7).
  assert (I5 : In it (l_locals s5)) by (eapply ext_in; [exact B7|]; rewrite E6; exact I4).
  assert (N5 : In en (l_locals s5)) by (eapply ext_in; [exact B7|]; rewrite E6; exact N4).
  destruct (ment_step E s5 [cd; it; en; cd] A7) as (A8 & B8 & E8).
  { intros i [<-|[<-|[<-|[<-|[]]]]]; left; assumption. }
  destruct (IHb E _ A8) as (A9 & B9). set (s6 := llower_stmt b (mention [cd; it; en; cd] s5)) in *.
  destruct (IHst E s6 A9) as (A10 & B10 & C10). destruct (llower_expr st s6) as [st_o s7]. cbn [fst snd] in *.
  assert (I7 : In it (l_locals s7)).
  { eapply ext_in; [exact B10|]. eapply ext_in; [exact B9|]. rewrite E8. exact I5. }
  destruct (ment_step E s7 (it :: it :: opl st_o) A10) as (A11' & B11' & _).
  { intros i [<-|[<-|Hi]]; [left; exact I7|left; exact I7|eapply opl_ok; eassumption]. }
  destruct (lscope_loop_LI E (length (l_names s)) _ A11') as [A11 B11s].
  assert (B11 : ext s7 (lscope_loop (length (l_names s)) (mention (it :: it :: opl st_o) s7))) by (eapply ext_trans; eassumption).
  split; [exact A11|].
  eapply ext_trans; [exact B1|]. eapply ext_trans; [exact B2|]. eapply ext_trans; [exact B3|].
  eapply ext_trans; [exact B4|]. eapply ext_trans; [exact B5|]. eapply ext_trans; [exact B6|].
  eapply ext_trans; [exact B7|]. eapply ext_trans; [exact B8|]. eapply ext_trans; [exact B9|].
  eapply ext_trans; [exact B10|exact B11].
Qed.

Lemma lcase_SForEach n itb b : Le itb -> Ls b -> Ls (SForEach n itb b).
Proof.
  intros IHit IHb E s HL. cbn [llower_stmt].
  destruct (IHit E s HL) as (A1 & B1 & C1). destruct (llower_expr itb s) as [o s1]. cbn [fst snd] in *.
  destruct (alloc_temp s1) as [col s2] eqn:E2. destruct (temp_then E s1 A1 _ _ E2) as (A2 & B2 & C2).
  destruct (ment_step E s2 (col :: opl o) A2) as (A3 & B3 & E3).
  { intros i [<-|Hi]; [left; exact C2|eapply opl_ok; [eapply opok_ext; eassumption|exact Hi]]. }
  destruct (alloc_temp (mention (col :: opl o) s2)) as [idx s3] eqn:E4.
  destruct (temp_then E _ A3 _ _ E4) as (A4 & B4 & C4).
  destruct (ment_step E s3 [idx] A4) as (A5 & B5 & E5); [intros i [<-|[]]; left; exact C4|].
  destruct (alloc_temp (mention [idx] s3)) as [len s4] eqn:E6.
  destruct (temp_then E _ A5 _ _ E6) as (A6 & B6 & C6).
  assert (Hcol4 : In col (l_locals s4)).
  { eapply ext_in; [exact B6|]. rewrite E5. eapply ext_in; [exact B4|]. rewrite E3. exact C2. }
  assert (Hidx4 : In idx (l_locals s4)) by (eapply ext_in; [exact B6|]; rewrite E5; exact C4).
  destruct (ment_step E s4 [len; col] A6) as (A7 & B7 & E7).
  { intros i [<-|[<-|[]]]; left; assumption. }
  destruct (alloc_named n (mention [len; col] s4)) as [el s5] eqn:E8.
  destruct (named_then E n _ A7 _ _ E8) as (A8 & B8 & C8).
  destruct (alloc_temp s5) as [cd s6] eqn:E9. destruct (temp_then E s5 A8 _ _ E9) as (A9 & B9 & C9).
  assert (H6 : forall i, In i [col; idx; len] -> In i (l_locals s6)).
  { intros i Hi. eapply ext_in; [exact B9|]. eapply ext_in; [exact B8|]. rewrite E7.
    destruct Hi as [<-|[<-|[<-|[]]]]; assumption. }
  assert (Hel6 : In el (l_locals s6)) by (eapply ext_in; eassumption).
  destruct (ment_step E s6 [cd; idx; len; cd; el; col; idx] A9) as (A10 & B10 & E10).
  { intros i Hi. left. cbn in Hi.
    destruct Hi as [<-|[<-|[<-|[<-|[<-|[<-|[<-|[]]]]]]]]; try assumption; apply H6; cbn; tauto. }
  destruct (IHb E _ A10) as (A11 & B11).
  set (s7 := llower_stmt b (mention [cd; idx; len; cd; el; col; idx] s6)) in *.
  assert (Hidx7 : In idx (l_locals s7)).
  { eapply ext_in; [exact B11|]. rewrite E10. apply H6. cbn; tauto. }
  destruct (ment_step E s7 [idx; idx] A11) as (A12' & B12' & _); [intros i [<-|[<-|[]]]; left; exact Hidx7|].
  destruct (lscope_loop_LI E (length (l_names s)) _ A12') as [A12 B12s].
  assert (B12 : ext s7 (lscope_loop (length (l_names s)) (mention [idx; idx] s7))) by (eapply ext_trans; eassumption).
  split; [exact A12|].
  eapply ext_trans; [exact B1|]. eapply ext_trans; [exact B2|]. eapply ext_trans; [exact B3|].
  eapply ext_trans; [exact B4|]. eapply ext_trans; [exact B5|]. eapply ext_trans; [exact B6|].
  eapply ext_trans; [exact B7|]. eapply ext_trans; [exact B8|]. eapply ext_trans; [exact B9|].
  eapply ext_trans; [exact B10|]. eapply ext_trans; [exact B11|exact B12].
Qed.

Theorem llower_steps :
  (forall e, Le e) /\ (forall e, Les e) /\ (forall x, Ls x) /\ (forall x, Lss x).
Proof.
  apply skel_mutind.
  - intros E s HL. cbn. split; [exact HL|split; [apply ext_refl|apply opok_none]].
  - intros x E s HL. cbn [llower_expr]. destruct (lookup x s) as [i|] eqn:El.
    + cbn. split; [exact HL|split; [apply ext_refl|apply opok_some; eapply lookup_In; eassumption]].
    + destruct (alloc_temp s) as [t s1] eqn:E1. destruct (temp_then E s HL _ _ E1) as (A & B & C).
      destruct (ment_step E s1 [t] A) as (A2 & B2 & E2); [intros i [<-|[]]; left; exact C|].
      cbn [fst snd]. split; [exact A2|split; [eapply ext_trans; eassumption|apply opok_some; rewrite E2; exact C]].
  - intros k args IH. apply lcase_EOp. exact IH.
  - intros a l IHl r IHr. apply lcase_EShort; assumption.
  - intros c IHc t IHt e IHe. apply lcase_EIfE; assumption.
  - intros caps params body IH E s HL. cbn [llower_expr].
    destruct (lcase_fn caps params body E s IH HL) as [A B].
    destruct (lfn_enter caps params s) as [ps s0]. cbn [fst snd] in *.
    destruct (alloc_temp (lfn_exit s ps (llower_stmts body s0))) as [t s2] eqn:E2.
    destruct (temp_then E _ A _ _ E2) as (A2 & B2 & C2).
    destruct (ment_step E s2 [t] A2) as (A3 & B3 & E3); [intros i [<-|[]]; left; exact C2|].
    cbn [fst snd]. split; [exact A3|split; [|apply opok_some; rewrite E3; exact C2]].
    eapply ext_trans; [exact B|]. eapply ext_trans; [exact B2|exact B3].
  - intros E s HL. cbn. split; [exact HL|split; [apply ext_refl|intros o []]].
  - intros e IHe r IHr E s HL. cbn [llower_exprs].
    destruct (IHe E s HL) as (A & B & C). destruct (llower_expr e s) as [o s1]. cbn [fst snd] in *.
    destruct (IHr E s1 A) as (A2 & B2 & C2). destruct (llower_exprs r s1) as [os s2]. cbn [fst snd] in *.
    split; [exact A2|split; [eapply ext_trans; eassumption|]].
    intros x [<-|Hx]; [eapply opok_ext; eassumption|apply C2; exact Hx].
  - intros e IH E s HL. cbn [llower_stmt]. destruct (IH E s HL) as (A & B & _). split; assumption.
  - intros x e IH E s HL. cbn [llower_stmt].
    destruct (alloc_named x s) as [i s1] eqn:E1. destruct (named_then E x s HL _ _ E1) as (A & B & C).
    destruct (IH E s1 A) as (A2 & B2 & C2). destruct (llower_expr e s1) as [o s2]. cbn [fst snd] in *.
    destruct (ment_step E s2 (i :: opl o) A2) as (A3 & B3 & _).
    { intros j [<-|Hj]; [left; eapply ext_in; eassumption|eapply opl_ok; eassumption]. }
    split; [exact A3|]. eapply ext_trans; [exact B|]. eapply ext_trans; [exact B2|exact B3].
  - intros b IH E s HL. cbn [llower_stmt]. destruct (IH E s HL) as [A B].
    destruct (lscope_block_LI E (length (l_names s)) _ A) as [A2 B2]. split; [exact A2|eapply ext_trans; eassumption].
  - intros c IHc t IHt E s HL. cbn [llower_stmt].
    destruct (IHc E s HL) as (A & B & C). destruct (llower_expr c s) as [o s1]. cbn [fst snd] in *.
    destruct (ment_step E s1 (opl o) A) as (A2 & B2 & _); [eapply opl_ok; exact C|].
    destruct (IHt E _ A2) as [A3 B3]. split; [exact A3|]. eapply ext_trans; [exact B|]. eapply ext_trans; [exact B2|exact B3].
  - intros c IHc t IHt e IHe E s HL. cbn [llower_stmt].
    destruct (IHc E s HL) as (A & B & C). destruct (llower_expr c s) as [o s1]. cbn [fst snd] in *.
    destruct (ment_step E s1 (opl o) A) as (A2 & B2 & _); [eapply opl_ok; exact C|].
    destruct (IHt E _ A2) as [A3 B3]. destruct (IHe E _ A3) as [A4 B4].
    split; [exact A4|]. eapply ext_trans; [exact B|]. eapply ext_trans; [exact B2|]. eapply ext_trans; eassumption.
  - intros c IHc b IHb E s HL. cbn [llower_stmt].
    destruct (IHc E s HL) as (A & B & C). destruct (llower_expr c s) as [o s1]. cbn [fst snd] in *.
    destruct (ment_step E s1 (opl o) A) as (A2 & B2 & _); [eapply opl_ok; exact C|].
    destruct (IHb E _ A2) as [A3 B3]. split; [exact A3|]. eapply ext_trans; [exact B|]. eapply ext_trans; [exact B2|exact B3].
  - intros x lo IHlo hi IHhi stp IHst b IHb. apply lcase_SFor; assumption.
  - intros x it IHit b IHb. apply lcase_SForEach; assumption.
  - intros E s HL. split; [exact HL|apply ext_refl].
  - intros e IH E s HL. cbn [llower_stmt].
    destruct (IH E s HL) as (A & B & C). destruct (llower_expr e s) as [o s1]. cbn [fst snd] in *.
    destruct (ment_step E s1 (opl o) A) as (A2 & B2 & _); [eapply opl_ok; exact C|].
    split; [exact A2|eapply ext_trans; eassumption].
  - intros E s HL. split; [exact HL|apply ext_refl].
  - intros E s HL. split; [exact HL|apply ext_refl].
  - intros caps params body IH E s HL. cbn [llower_stmt].
    destruct (lcase_fn caps params body E s IH HL) as [A B].
    destruct (lfn_enter caps params s) as [ps s0]. cbn [fst snd] in *. split; assumption.
  - intros E s HL. split; [exact HL|apply ext_refl].
  - intros E s HL. split; [exact HL|apply ext_refl].
  - intros x IHx r IHr E s HL. cbn [llower_stmts].
    destruct (IHx E s HL) as [A B]. destruct (IHr E _ A) as [A2 B2].
    split; [exact A2|eapply ext_trans; eassumption].
Qed.

Lemma llower_top_LI p : forall s, LI [] s -> LI [] (llower_top p s).
Proof.
  induction p as [|x r IH]; intros s HL; [exact HL|].
  cbn [llower_top]. destruct x; try (apply IH; exact HL).
  destruct (lcase_fn caps params body [] s (proj2 (proj2 (proj2 llower_steps)) body) HL) as [A _].
  destruct (lfn_enter caps params s) as [ps s0]. cbn [fst snd] in *. apply IH. exact A.
Qed.

(* UNBOUNDED: in every function of every program each local id is declared once, the parameter
   list has no duplicate, and every id mentioned by a statement or terminator is declared in
   locals or is a parameter *)
Theorem llower_wf : forall p, locals_wf (llower p) = true.
Proof.
  intro p. unfold locals_wf, llower. apply forallb_forall. intros f Hf.
  assert (H0 : LI [] linit) by (apply linit_like_LI; constructor).
  destruct (llower_top_LI p linit H0) as (_ & _ & _ & _ & OK).
  rewrite Forall_forall in OK. apply OK. exact Hf.
Qed.
