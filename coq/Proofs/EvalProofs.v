(* Lemmas about the definitional evaluator's arithmetic kernels. *)
From Aelys Require Import Base.Tactics Model.Lang Model.Eval.
Local Open Scope Z_scope.

Lemma wrap48_range (n : Z) : -140737488355328 <= wrap48 n < 140737488355328.
Proof. unfold wrap48. lia. Qed.

Lemma wrap48_id (n : Z) : -140737488355328 <= n < 140737488355328 -> wrap48 n = n.
Proof. unfold wrap48. lia. Qed.

Lemma wrap48_idem (n : Z) : wrap48 (wrap48 n) = wrap48 n.
Proof. apply wrap48_id, wrap48_range. Qed.

Lemma int_ops_wrap48 (a b : Z) :
  int_binop BAdd a b = ROk (VInt (wrap48 (a + b))) /\
  int_binop BSub a b = ROk (VInt (wrap48 (a - b))) /\
  int_binop BMul a b = ROk (VInt (wrap48 (a * b))) /\
  (-140737488355328 <= wrap48 (a + b) < 140737488355328).
Proof. repeat split; try reflexivity; apply wrap48_range. Qed.

Lemma div_by_zero (a : Z) :
  int_binop BDiv a 0 = RErr EDivZero /\ int_binop BMod a 0 = RErr EDivZero.
Proof. split; reflexivity. Qed.

Lemma div_truncates (a b : Z) :
  b <> 0 -> -140737488355328 <= a < 140737488355328 -> -140737488355328 < b < 140737488355328 ->
  exists q r, int_binop BDiv a b = ROk (VInt (wrap48 q)) /\ int_binop BMod a b = ROk (VInt r) /\
              a = b * q + r /\ Z.abs r < Z.abs b /\ (r = 0 \/ Z.sgn r = Z.sgn a).
Proof.
  intros Hb Ha Hb'. exists (Z.quot a b), (Z.rem a b).
  unfold int_binop.
  destruct (Z.eqb_spec b 0) as [E|_]; [contradiction|].
  pose proof (Z.quot_rem' a b) as Hqr.
  pose proof (Z.rem_bound_abs a b Hb) as Hr.
  assert (Hrr : -140737488355328 <= Z.rem a b < 140737488355328) by lia.
  rewrite (wrap48_id (Z.rem a b) Hrr).
  repeat split; try reflexivity; try assumption.
  destruct (Z.eq_dec (Z.rem a b) 0) as [E0|N0]; [left; exact E0|right].
  apply Z.rem_sign_nz; assumption.
Qed.
