(* Lemmas about the definitional evaluator's arithmetic kernels. *)
From Aelys Require Import Base.Tactics Model.Lang Model.Eval.
Local Open Scope Z_scope.

Lemma wrap48_range (n : Z) : -140737488355328 <= wrap48 n < 140737488355328.
Proof. unfold wrap48. lia. Qed.

Lemma wrap48_id (n : Z) : -140737488355328 <= n < 140737488355328 -> wrap48 n = n.
Proof. unfold wrap48. lia. Qed.

Lemma wrap48_idem (n : Z) : wrap48 (wrap48 n) = wrap48 n.
Proof. apply wrap48_id, wrap48_range. Qed.

Lemma int_ops_wrap48 (a b : Z) :
  int_binop BAdd a b = ROk (VInt (wrap48 (a + b))) /\
  int_binop BSub a b = ROk (VInt (wrap48 (a - b))) /\
  int_binop BMul a b = ROk (VInt (wrap48 (a * b))) /\
  (-140737488355328 <= wrap48 (a + b) < 140737488355328).
Proof. repeat split; try reflexivity; apply wrap48_range. Qed.

Lemma div_by_zero (a : Z) :
  int_binop BDiv a 0 = RErr EDivZero /\ int_binop BMod a 0 = RErr EDivZero.
Proof. split; reflexivity. Qed.

Lemma div_truncates (a b : Z) :
  b <> 0 -> -140737488355328 <= a < 140737488355328 -> -140737488355328 < b < 140737488355328 ->
  exists q r, int_binop BDiv a b = ROk (VInt (wrap48 q)) /\ int_binop BMod a b = ROk (VInt r) /\
              a = b * q + r /\ Z.abs r < Z.abs b /\ (r = 0 \/ Z.sgn r = Z.sgn a).
Proof.
  intros Hb Ha Hb'. exists (Z.quot a b), (Z.rem a b).
  unfold int_binop.
  destruct (Z.eqb_spec b 0) as [E|_]; [contradiction|].
  pose proof (Z.quot_rem' a b) as Hqr.
  pose proof (Z.rem_bound_abs a b Hb) as Hr.
  assert (Hrr : -140737488355328 <= Z.rem a b < 140737488355328) by lia.
  rewrite (wrap48_id (Z.rem a b) Hrr).
  repeat split; try reflexivity; try assumption.
  destruct (Z.eq_dec (Z.rem a b) 0) as [E0|N0]; [left; exact E0|right].
  apply Z.rem_sign_nz; assumption.
Qed.

(* ------------------------------------------------------------------ range semantics *)
From Coq Require Import String.

(* the values a for-loop visits, by the same fuel as the loop itself *)
Definition for_continues (i hi : Z) (incl : bool) (step : Z) : bool :=
  if 0 <? step then (if incl then i <=? hi else i <? hi)
  else (if incl then hi <=? i else hi <? i).

Fixpoint range_list (fuel : nat) (i hi : Z) (incl : bool) (step : Z) : list Z :=
  match fuel with
  | O => []
  | S f => if for_continues i hi incl step then i :: range_list f (wrap48 (i + step)) hi incl step else []
  end.

(* a for-loop over a range IS a for-each over the list of values of that range: same state,
   same outcome, for every body, every environment and every fuel *)
Lemma exec_for_is_foreach (fuel : nat) :
  forall depth env st x i hi incl step b,
    exec_for fuel depth env st x i hi incl step b
    = exec_foreach fuel depth env st x (map VInt (range_list fuel i hi incl step)) b.
Proof.
  induction fuel as [|f IH]; intros; [reflexivity|].
  cbn [exec_for exec_foreach range_list]. unfold for_continues.
  destruct (if 0 <? step then if incl then i <=? hi else i <? hi else if incl then hi <=? i else hi <? i);
    [|reflexivity].
  cbn [map].
  destruct (alloc_cell st (VInt i)) as [st1 l].
  destruct (exec_stmt f depth false ((x, l) :: env) st1 b) as [st2 [[c env'] | k |]]; try reflexivity.
  destruct c; try reflexivity; apply IH.
Qed.

(* the list of values is the arithmetic range: ascending, exclusive *)
Lemma range_list_up_excl (n : nat) : forall fuel lo hi step,
  0 < step -> (n < fuel)%nat ->
  -140737488355328 <= lo -> lo + Z.of_nat n * step < 140737488355328 ->
  lo + (Z.of_nat n - 1) * step < hi <= lo + Z.of_nat n * step ->
  range_list fuel lo hi false step = map (fun k => lo + Z.of_nat k * step) (seq 0 n).
Proof.
  induction n as [|n IH]; intros fuel lo hi step Hs Hf Hlo Hhi Hb.
  - destruct fuel as [|f]; [lia|]. cbn [range_list seq map]. unfold for_continues.
    destruct (Z.ltb_spec 0 step); [|lia]. destruct (Z.ltb_spec lo hi); [lia|reflexivity].
  - destruct fuel as [|f]; [lia|]. cbn [range_list]. unfold for_continues.
    destruct (Z.ltb_spec 0 step); [|lia]. destruct (Z.ltb_spec lo hi); [|nia].
    cbn [seq map]. f_equal; [lia|].
    rewrite wrap48_id by nia.
    rewrite (IH f (lo + step) hi step) by (try lia; nia).
    rewrite <- seq_shift, map_map. apply map_ext. intro k. lia.
Qed.

(* descending, inclusive: visits lo, lo-s, ..., down to the last value >= hi *)
Lemma range_list_down_incl (n : nat) : forall fuel lo hi s,
  0 < s -> (n < fuel)%nat ->
  lo < 140737488355328 -> -140737488355328 <= lo - Z.of_nat n * s ->
  lo - Z.of_nat n * s < hi <= lo - (Z.of_nat n - 1) * s ->
  range_list fuel lo hi true (- s) = map (fun k => lo - Z.of_nat k * s) (seq 0 n).
Proof.
  induction n as [|n IH]; intros fuel lo hi s Hs Hf Hlo Hhi Hb.
  - destruct fuel as [|f]; [lia|]. cbn [range_list seq map]. unfold for_continues.
    destruct (Z.ltb_spec 0 (- s)); [lia|]. destruct (Z.leb_spec hi lo); [lia|reflexivity].
  - destruct fuel as [|f]; [lia|]. cbn [range_list]. unfold for_continues.
    destruct (Z.ltb_spec 0 (- s)); [lia|]. destruct (Z.leb_spec hi lo); [|nia].
    cbn [seq map]. f_equal; [lia|].
    replace (lo + - s) with (lo - s) by lia.
    rewrite wrap48_id by nia.
    rewrite (IH f (lo - s) hi s) by (try lia; nia).
    rewrite <- seq_shift, map_map. apply map_ext. intro k. lia.
Qed.

(* ------------------------------------------------------------------ short circuit *)
Lemma and_short_circuit fuel depth env st a b st1 va :
  eval_expr fuel depth env st a = (st1, ROk va) -> truthy va = false ->
  eval_expr (S fuel) depth env st (EAnd a b) = (st1, ROk va).
Proof. intros H T. cbn [eval_expr]. rewrite H, T. reflexivity. Qed.

Lemma or_short_circuit fuel depth env st a b st1 va :
  eval_expr fuel depth env st a = (st1, ROk va) -> truthy va = true ->
  eval_expr (S fuel) depth env st (EOr a b) = (st1, ROk va).
Proof. intros H T. cbn [eval_expr]. rewrite H, T. reflexivity. Qed.

(* ------------------------------------------------------------------ parameters are copies *)
Lemma nth_set_nth_other {A} (l : list A) (i j : nat) (v d : A) :
  i <> j -> nth j (set_nth i v l) d = nth j l d.
Proof.
  revert i j; induction l as [|x r IH]; intros i j H; [destruct i; reflexivity|].
  destruct i, j; cbn; try reflexivity; try contradiction. apply IH. lia.
Qed.

(* binding parameters only appends cells: every cell the caller could see keeps its value, and
   the new locations are all beyond the old store *)
Lemma bind_params_fresh (ps : list (string * bool)) :
  forall vs env st env' st',
    bind_params ps vs env st = (env', st') ->
    (forall l, (l < List.length (cells st))%nat -> nth l (cells st') VNull = nth l (cells st) VNull)
    /\ (List.length (cells st) <= List.length (cells st'))%nat
    /\ globals st' = globals st /\ objs st' = objs st /\ out st' = out st.
Proof.
  induction ps as [|[p m] ps IH]; intros vs env st env' st' H.
  - cbn in H. injection H as <- <-. repeat split; try reflexivity; lia.
  - destruct vs as [|v vs]; [cbn in H; injection H as <- <-; repeat split; try reflexivity; lia|].
    cbn [bind_params] in H. unfold alloc_cell in H.
    specialize (IH vs _ _ _ _ H). cbn [cells globals objs out] in IH.
    destruct IH as (Hc & Hl & Hg & Ho & Hout). rewrite app_length in Hl, Hc. cbn [List.length] in Hl, Hc.
    repeat split; try assumption; try lia.
    intros l Hlt. rewrite Hc by lia. apply app_nth1. exact Hlt.
Qed.

(* assigning to a cell beyond the caller's store leaves the caller's cells alone *)
Lemma set_cell_other st l v j : l <> j -> nth j (cells (set_cell st l v)) VNull = nth j (cells st) VNull.
Proof. intro H. unfold set_cell. cbn [cells]. apply nth_set_nth_other. exact H. Qed.
