(* C17 -- guarded statements about branch targets, by a complete sweep of a bounded skeleton
   family (the bound is part of every statement), plus the unbounded glue lemmas. *)
From Aelys Require Import Base.Tactics Model.AirLower Proofs.AirLowerProofs.
Local Open Scope N_scope.

(* break / continue only inside a loop of the same function *)
Fixpoint sc_e (e : sexpr) : bool :=
  match e with
  | EAtom | EIdent _ => true
  | EOp _ args => sc_es args
  | EShort _ l r => sc_e l && sc_e r
  | EIfE c t e => sc_e c && sc_e t && sc_e e
  | ELam _ _ body => sc_ss false body
  end
with sc_es (es : sexprs) : bool :=
  match es with ENil => true | ECons e r => sc_e e && sc_es r end
with sc_s (inl : bool) (x : sstmt) : bool :=
  match x with
  | SExpr e | SLet _ e | SRetE e => sc_e e
  | SBlock b => sc_ss inl b
  | SIf c t => sc_e c && sc_s inl t
  | SIfElse c t e => sc_e c && sc_s inl t && sc_s inl e
  | SWhile c b => sc_e c && sc_s true b
  | SFor _ lo hi st b => sc_e lo && sc_e hi && sc_e st && sc_s true b
  | SForEach _ it b => sc_e it && sc_s true b
  | SRet | SNop => true
  | SBreak | SContinue => inl
  | SFn _ _ body => sc_ss false body
  end
with sc_ss (inl : bool) (b : sstmts) : bool :=
  match b with SNil => true | SCons x r => sc_s inl x && sc_ss inl r end.
Definition breaks_scoped (p : sstmts) : bool := sc_ss false p.

Definition fn_good (f : fn_out) : bool :=
  has_entry (f_blocks f) && unique_ids (f_blocks f) && dangling_all_lost f.
Definition prog_good (p : sstmts) : bool := forallb fn_good (lower p).

Fixpoint mk_stmts (l : list sstmt) : sstmts :=
  match l with [] => SNil | x :: r => SCons x (mk_stmts r) end.
Definition lists1 (S : list sstmt) : list sstmts := SNil :: map (fun x => mk_stmts [x]) S.
Definition lists2 (S : list sstmt) : list sstmts :=
  lists1 S ++ flat_map (fun x => map (fun y => mk_stmts [x; y]) S) S.

Definition atoms : list sstmt := [stmtA; SRet; SBreak; SContinue].
Definition conds : list sexpr := [EIdent 0; EShort true (EIdent 0) (EIdent 1)].

Definition compounds (cs : list sexpr) (B B1 : list sstmts) : list sstmt :=
  flat_map (fun c => map (fun b => SIf c (SBlock b)) B) cs
  ++ flat_map (fun c => flat_map (fun b => map (fun e => SIfElse c (SBlock b) (SBlock e)) B1) B1) cs
  ++ flat_map (fun c => map (fun b => SWhile c (SBlock b)) B) cs
  ++ map (fun b => SFor 2 EAtom EAtom EAtom (SBlock b)) B
  ++ map (fun b => SForEach 2 (EIdent 0) (SBlock b)) B1
  ++ map (fun b => SFn [] [] b) B1
  ++ map (fun b => SLet 3 (ELam [0] [] b)) B1.

(* depth 1: atoms and every compound over blocks of <= 2 atoms (else-branches <= 1 atom), both
   condition shapes; depth 2: every compound over blocks of <= 2 depth-1 statements (else-branches
   and nested function bodies <= 1), condition = a local; programs: one function holding one
   depth-2 statement followed by nothing / a plain statement / a return. *)
Definition S1 : list sstmt := atoms ++ compounds conds (lists2 atoms) (lists1 atoms).
Definition S2 : list sstmt := atoms ++ compounds [EIdent 0] (lists2 S1) (lists1 S1).
Definition tails : list sstmts := [SNil; mk_stmts [stmtA]; mk_stmts [SRet]].
Definition prog_of (x : sstmt) (t : sstmts) : sstmts := one_fn [0; 1] (SCons x t).

Definition sweep_body (x : sstmt) (t : sstmts) : bool :=
  implb (breaks_scoped (prog_of x t)) (prog_good (prog_of x t)).

Lemma sweep_true : forallb (fun x => forallb (sweep_body x) tails) S2 = true.
Proof. vm_cast_no_check (eq_refl true). Qed.

(* the family is not trivial *)
Lemma sweep_family_size :
  fold_left (fun a _ => a + 1) S1 0 = 174 /\ fold_left (fun a _ => a + 1) S2 0 = 122507.
Proof. vm_compute. split; reflexivity. Qed.

Strategy opaque [S1 S2].

Lemma sweep_spec : forall x t, In x S2 -> In t tails ->
  breaks_scoped (prog_of x t) = true -> prog_good (prog_of x t) = true.
Proof.
  intros x t Hx Ht Hs.
  pose proof (proj1 (forallb_forall _ _) sweep_true x Hx) as H1. cbv beta in H1.
  pose proof (proj1 (forallb_forall _ _) H1 t Ht) as H2.
  unfold sweep_body in H2. rewrite Hs in H2. exact H2.
Qed.

(* ---- unbounded glue: if every dangling target is a lost id and none of them is branched to,
   all targets exist *)
Lemma no_dangling_targets_exist bl : dangling bl = [] -> targets_exist bl = true.
Proof.
  intro H. unfold targets_exist. apply forallb_forall. intros b Hb.
  apply forallb_forall. intros t Ht.
  destruct (memN t (map fst bl)) eqn:E; [reflexivity|exfalso].
  assert (Hin : In t (dangling bl)).
  { unfold dangling. apply filter_In. split.
    - apply in_flat_map. exists b. split; assumption.
    - rewrite E. reflexivity. }
  rewrite H in Hin. contradiction.
Qed.

Lemma all_lost_none_known f :
  dangling_all_lost f = true -> known_class f = false -> dangling (f_blocks f) = [].
Proof.
  unfold dangling_all_lost, known_class. intros Ha Hk.
  destruct (dangling (f_blocks f)) as [|t r]; [reflexivity|exfalso].
  cbn [forallb existsb] in *. apply andb_true_iff in Ha as [Ha _].
  apply orb_false_iff in Hk as [Hk _]. congruence.
Qed.

Lemma good_not_known_wf f : fn_good f = true -> known_class f = false -> wf_fn f = true.
Proof.
  unfold fn_good, wf_fn, wf_cfg. intros H Hk.
  apply andb_true_iff in H as [H Hl]. apply andb_true_iff in H as [He Hu].
  rewrite He, Hu. cbn. apply no_dangling_targets_exist. apply all_lost_none_known; assumption.
Qed.

(* bounded family, guarded: every function is well formed unless one of its branches goes to a
   block id lost by the two recorded defects; and a dangling target is ALWAYS such a lost id *)
Lemma sweep_dangling_only_lost : forall x t, In x S2 -> In t tails ->
  breaks_scoped (prog_of x t) = true ->
  forall f, In f (lower (prog_of x t)) ->
    dangling_all_lost f = true /\ (known_class f = false -> wf_fn f = true).
Proof.
  intros x t Hx Ht Hs f Hf. pose proof (sweep_spec x t Hx Ht Hs) as H.
  unfold prog_good in H. rewrite forallb_forall in H. specialize (H f Hf). split.
  - unfold fn_good in H. apply andb_true_iff in H as [_ H]. exact H.
  - intro Hk. apply good_not_known_wf; assumption.
Qed.

(* a member of the family that is scoped, in no known class, non-trivial, and well formed *)
Definition w_member : sstmt :=
  SWhile (EIdent 0) (SBlock (mk_stmts [SIf (EShort true (EIdent 0) (EIdent 1)) (SBlock (mk_stmts [SBreak])); stmtA])).
Lemma sweep_nonvacuous :
  breaks_scoped (prog_of w_member (mk_stmts [SRet])) = true
  /\ forallb (fun f => negb (known_class f)) (lower (prog_of w_member (mk_stmts [SRet]))) = true
  /\ wf_prog (lower (prog_of w_member (mk_stmts [SRet]))) = true.
Proof. vm_compute. repeat split; reflexivity. Qed.
