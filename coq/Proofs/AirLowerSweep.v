(* C17 -- guarded statements about branch targets, by a complete sweep of a bounded skeleton
   family (the bound is part of every statement), plus the unbounded glue lemmas. *)
From Aelys Require Import Base.Tactics Model.AirLower Proofs.AirLowerProofs Proofs.AirLowerTargets.
Local Open Scope N_scope.

Fixpoint mk_stmts (l : list sstmt) : sstmts :=
  match l with [] => SNil | x :: r => SCons x (mk_stmts r) end.
Definition lists1 (S : list sstmt) : list sstmts := SNil :: map (fun x => mk_stmts [x]) S.
Definition lists2 (S : list sstmt) : list sstmts :=
  lists1 S ++ flat_map (fun x => map (fun y => mk_stmts [x; y]) S) S.

Definition atoms : list sstmt := [stmtA; SRet; SBreak; SContinue].
Definition conds : list sexpr := [EIdent 0; EShort true (EIdent 0) (EIdent 1)].

Definition compounds (cs : list sexpr) (B B1 : list sstmts) : list sstmt :=
  flat_map (fun c => map (fun b => SIf c (SBlock b)) B) cs
  ++ flat_map (fun c => flat_map (fun b => map (fun e => SIfElse c (SBlock b) (SBlock e)) B1) B1) cs
  ++ flat_map (fun c => map (fun b => SWhile c (SBlock b)) B) cs
  ++ map (fun b => SFor 2 EAtom EAtom EAtom (SBlock b)) B
  ++ map (fun b => SForEach 2 (EIdent 0) (SBlock b)) B1
  ++ map (fun b => SFn [] [] b) B1
  ++ map (fun b => SLet 3 (ELam [0] [] b)) B1.

(* depth 1: atoms and every compound over blocks of <= 2 atoms (else-branches <= 1 atom), both
   condition shapes; depth 2: every compound over blocks of <= 2 depth-1 statements (else-branches
   and nested function bodies <= 1), condition = a local; programs: one function holding one
   depth-2 statement followed by nothing / a plain statement / a return. *)
Definition S1 : list sstmt := atoms ++ compounds conds (lists2 atoms) (lists1 atoms).
Definition S2 : list sstmt := atoms ++ compounds [EIdent 0] (lists2 S1) (lists1 S1).
Definition tails : list sstmts := [SNil; mk_stmts [stmtA]; mk_stmts [SRet]].
Definition prog_of (x : sstmt) (t : sstmts) : sstmts := one_fn [0; 1] (SCons x t).

Definition sweep_body (x : sstmt) (t : sstmts) : bool :=
  implb (breaks_scoped (prog_of x t)) (prog_good (prog_of x t)).

Lemma sweep_true : forallb (fun x => forallb (sweep_body x) tails) S2 = true.
Proof. vm_cast_no_check (eq_refl true). Qed.

(* the family is not trivial *)
Lemma sweep_family_size :
  fold_left (fun a _ => a + 1) S1 0 = 174 /\ fold_left (fun a _ => a + 1) S2 0 = 122507.
Proof. vm_compute. split; reflexivity. Qed.

Strategy opaque [S1 S2].

Lemma sweep_spec : forall x t, In x S2 -> In t tails ->
  breaks_scoped (prog_of x t) = true -> prog_good (prog_of x t) = true.
Proof.
  intros x t Hx Ht Hs.
  pose proof (proj1 (forallb_forall _ _) sweep_true x Hx) as H1. cbv beta in H1.
  pose proof (proj1 (forallb_forall _ _) H1 t Ht) as H2.
  unfold sweep_body in H2. rewrite Hs in H2. exact H2.
Qed.

(* bounded family, guarded: every function is well formed unless one of its branches goes to a
   block id lost by the two recorded defects; and a dangling target is ALWAYS such a lost id *)
Lemma sweep_dangling_only_lost : forall x t, In x S2 -> In t tails ->
  breaks_scoped (prog_of x t) = true ->
  forall f, In f (lower (prog_of x t)) ->
    dangling_all_lost f = true /\ (known_class f = false -> wf_fn f = true).
Proof.
  intros x t Hx Ht Hs f Hf. pose proof (sweep_spec x t Hx Ht Hs) as H.
  unfold prog_good in H. rewrite forallb_forall in H. specialize (H f Hf). split.
  - unfold fn_good in H. apply andb_true_iff in H as [_ H]. exact H.
  - intro Hk. apply good_not_known_wf; assumption.
Qed.

(* a member of the family that is scoped, in no known class, non-trivial, and well formed *)
Definition w_member : sstmt :=
  SWhile (EIdent 0) (SBlock (mk_stmts [SIf (EShort true (EIdent 0) (EIdent 1)) (SBlock (mk_stmts [SBreak])); stmtA])).
Lemma sweep_nonvacuous :
  breaks_scoped (prog_of w_member (mk_stmts [SRet])) = true
  /\ forallb (fun f => negb (known_class f)) (lower (prog_of w_member (mk_stmts [SRet]))) = true
  /\ wf_prog (lower (prog_of w_member (mk_stmts [SRet]))) = true.
Proof. vm_compute. repeat split; reflexivity. Qed.
