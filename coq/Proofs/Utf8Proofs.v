(* Lemmas about Model/Utf8.v: the decoder inverts the encoder on every Unicode scalar value,
   and therefore the three VM paths (byte-offset for-loop, nth-char load, lengths) agree on
   every string that is the encoding of a scalar sequence. *)
From Aelys Require Import Base.Tactics Model.Utf8.
Local Open Scope N_scope.

(* ------------------------------------------------------------------ encoder / decoder *)
Lemma valid_scalar_bound c : valid_scalar c = true -> c <= 0x10FFFF.
Proof. unfold valid_scalar. lia. Qed.

Lemma encode_length c : length (encode c) = len_utf8 c.
Proof.
  unfold encode, len_utf8.
  destruct (c <? 128); [reflexivity|].
  destruct (c <? 2048); [reflexivity|].
  destruct (c <? 65536); reflexivity.
Qed.

Lemma len_utf8_pos c : (1 <= len_utf8 c)%nat.
Proof.
  unfold len_utf8. destruct (c <? 128); [lia|]. destruct (c <? 2048); [lia|].
  destruct (c <? 65536); lia.
Qed.

Lemma len_utf8_le4 c : (len_utf8 c <= 4)%nat.
Proof.
  unfold len_utf8. destruct (c <? 128); [lia|]. destruct (c <? 2048); [lia|].
  destruct (c <? 65536); lia.
Qed.

Lemma decode_encode_1 c rest : c < 0x80 -> decode_first (c :: rest) = Some (c, 1%nat).
Proof.
  intro H. cbn [decode_first].
  destruct (c <? 128) eqn:E; [reflexivity|lia].
Qed.

Lemma decode_encode_2 c rest : 0x80 <= c -> c < 0x800 ->
  decode_first (0xC0 + c / 64 :: 0x80 + c mod 64 :: rest) = Some (c, 2%nat).
Proof.
  intros Hlo Hhi. cbn [decode_first].
  assert (Hq : c / 64 < 32) by lia.
  destruct (192 + c / 64 <? 128) eqn:E1; [lia|].
  destruct (192 + c / 64 <? 224) eqn:E2; [|lia].
  assert (A : (192 + c / 64) mod 32 = c / 64) by lia.
  assert (B : (128 + c mod 64) mod 64 = c mod 64) by lia.
  rewrite A, B. f_equal. f_equal. lia.
Qed.

Lemma decode_encode_3 c rest : 0x800 <= c -> c < 0x10000 ->
  decode_first (0xE0 + c / 4096 :: 0x80 + (c / 64) mod 64 :: 0x80 + c mod 64 :: rest)
  = Some (c, 3%nat).
Proof.
  intros Hlo Hhi. cbn [decode_first].
  assert (Hq : c / 4096 < 16) by lia.
  destruct (224 + c / 4096 <? 128) eqn:E1; [lia|].
  destruct (224 + c / 4096 <? 224) eqn:E2; [lia|].
  destruct (224 + c / 4096 <? 240) eqn:E3; [|lia].
  assert (A : (224 + c / 4096) mod 32 = c / 4096) by lia.
  assert (B : (128 + (c / 64) mod 64) mod 64 = (c / 64) mod 64) by lia.
  assert (C : (128 + c mod 64) mod 64 = c mod 64) by lia.
  rewrite A, B, C. f_equal. f_equal.
  assert (D : c / 64 = (c / 4096) * 64 + (c / 64) mod 64).
  { assert (c / 4096 = c / 64 / 64) by (rewrite N.div_div by lia; reflexivity). lia. }
  lia.
Qed.

Lemma decode_encode_4 c rest : 0x10000 <= c -> c <= 0x10FFFF ->
  decode_first (0xF0 + c / 262144 :: 0x80 + (c / 4096) mod 64 :: 0x80 + (c / 64) mod 64
                :: 0x80 + c mod 64 :: rest) = Some (c, 4%nat).
Proof.
  intros Hlo Hhi. cbn [decode_first].
  assert (Hq : c / 262144 <= 4) by lia.
  destruct (240 + c / 262144 <? 128) eqn:E1; [lia|].
  destruct (240 + c / 262144 <? 224) eqn:E2; [lia|].
  destruct (240 + c / 262144 <? 240) eqn:E3; [lia|].
  assert (A : ((240 + c / 262144) mod 32) mod 8 = c / 262144) by lia.
  assert (B : (128 + (c / 4096) mod 64) mod 64 = (c / 4096) mod 64) by lia.
  assert (C : (128 + (c / 64) mod 64) mod 64 = (c / 64) mod 64) by lia.
  assert (D : (128 + c mod 64) mod 64 = c mod 64) by lia.
  rewrite A, B, C, D. f_equal. f_equal.
  assert (E : c / 64 = (c / 4096) * 64 + (c / 64) mod 64).
  { assert (c / 4096 = c / 64 / 64) by (rewrite N.div_div by lia; reflexivity). lia. }
  assert (F : c / 4096 = (c / 262144) * 64 + (c / 4096) mod 64).
  { assert (c / 262144 = c / 4096 / 64) by (rewrite N.div_div by lia; reflexivity). lia. }
  lia.
Qed.

(* the decoder inverts the encoder on every scalar up to 0x10FFFF (surrogates included: the
   transformation itself does not care), whatever bytes follow *)
Lemma decode_encode_gen c rest : c <= 0x10FFFF ->
  decode_first (encode c ++ rest) = Some (c, len_utf8 c).
Proof.
  intro H. unfold encode, len_utf8.
  destruct (c <? 128) eqn:E1.
  { cbn [app]. apply decode_encode_1. lia. }
  destruct (c <? 2048) eqn:E2.
  { cbn [app]. apply decode_encode_2; lia. }
  destruct (c <? 65536) eqn:E3.
  { cbn [app]. apply decode_encode_3; lia. }
  cbn [app]. apply decode_encode_4; lia.
Qed.

Lemma decode_encode_lemma c rest : valid_scalar c = true ->
  decode_first (encode c ++ rest) = Some (c, length (encode c)).
Proof.
  intro H. rewrite encode_length. apply decode_encode_gen, valid_scalar_bound, H.
Qed.

(* every byte the encoder produces is a byte, the first one is never a continuation byte and
   all the others are *)
Definition is_cont (b : N) : bool := (0x80 <=? b) && (b <? 0xC0).
Lemma encode_bytes c : c <= 0x10FFFF ->
  Forall (fun b => b < 256) (encode c) /\
  match encode c with [] => False | x :: r => is_cont x = false /\ Forall (fun b => is_cont b = true) r end.
Proof.
  intro H. unfold encode, is_cont.
  destruct (c <? 128) eqn:E1.
  { split; [repeat constructor; lia|]. split; [lia|constructor]. }
  destruct (c <? 2048) eqn:E2.
  { split; [repeat constructor; lia|]. split; [lia|repeat constructor; lia]. }
  destruct (c <? 65536) eqn:E3.
  { split; [repeat constructor; lia|]. split; [lia|repeat constructor; lia]. }
  split; [repeat constructor; lia|]. split; [lia|repeat constructor; lia].
Qed.

Lemma decode_first_width s c w : decode_first s = Some (c, w) -> (1 <= w)%nat /\ s <> [].
Proof.
  destruct s as [|x r]; cbn [decode_first]; [discriminate|].
  intro H. split; [|discriminate].
  destruct (x <? 128); [injection H; lia|].
  destruct r as [|y r2]; [discriminate|].
  destruct (x <? 224); [injection H; lia|].
  destruct r2 as [|z r3]; [discriminate|].
  destruct (x <? 240); [injection H; lia|].
  destruct r3 as [|w' r4]; [discriminate|]. injection H; lia.
Qed.

(* ------------------------------------------------------------------ chars *)
Lemma chars_fuel_irrelevant : forall f1 f2 s,
  (length s <= f1)%nat -> (length s <= f2)%nat -> chars_fuel f1 s = chars_fuel f2 s.
Proof.
  induction f1 as [|k IH]; intros f2 s H1 H2.
  - destruct s; [|cbn [length] in H1; lia]. destruct f2; reflexivity.
  - destruct f2 as [|k2].
    + destruct s; [reflexivity|cbn [length] in H2; lia].
    + cbn [chars_fuel]. destruct (decode_first s) as [[c w]|] eqn:D; [|reflexivity].
      f_equal. destruct (decode_first_width _ _ _ D) as [Hw Hs].
      assert (L : (length (skipn w s) < length s)%nat).
      { rewrite skipn_length. destruct s; [congruence|cbn [length]; lia]. }
      apply IH; lia.
Qed.

Lemma chars_fuel_enough s fuel : (length s <= fuel)%nat -> chars_fuel fuel s = chars s.
Proof. intro H. unfold chars. apply chars_fuel_irrelevant; lia. Qed.

Lemma utf8_cons c cs : utf8 (c :: cs) = encode c ++ utf8 cs.
Proof. reflexivity. Qed.

Lemma utf8_app a b : utf8 (a ++ b) = utf8 a ++ utf8 b.
Proof. unfold utf8. rewrite map_app, concat_app. reflexivity. Qed.

Lemma utf8_length cs : length (utf8 cs) = sum_nat (map len_utf8 cs).
Proof.
  induction cs as [|c cs IH]; [reflexivity|].
  rewrite utf8_cons, app_length, encode_length, IH. reflexivity.
Qed.

Lemma utf8_length_ge cs : (length cs <= length (utf8 cs))%nat.
Proof.
  induction cs as [|c cs IH]; [cbn; lia|].
  rewrite utf8_cons, app_length, encode_length. pose proof (len_utf8_pos c). cbn [length]. lia.
Qed.

Lemma skipn_encode c rest : skipn (len_utf8 c) (encode c ++ rest) = rest.
Proof.
  rewrite <- encode_length. rewrite skipn_app, skipn_all, Nat.sub_diag. reflexivity.
Qed.

Definition all_valid (cs : list N) : Prop := Forall (fun c => valid_scalar c = true) cs.

Lemma chars_fuel_utf8 : forall cs fuel, all_valid cs -> (length cs <= fuel)%nat ->
  chars_fuel fuel (utf8 cs) = cs.
Proof.
  induction cs as [|c cs IH]; intros fuel V H.
  - destruct fuel; reflexivity.
  - destruct fuel as [|k]; [cbn [length] in H; lia|].
    inversion V as [|? ? Vc Vcs]; subst.
    cbn [chars_fuel]. rewrite utf8_cons.
    rewrite (decode_encode_gen c (utf8 cs) (valid_scalar_bound c Vc)).
    rewrite skipn_encode. f_equal. apply IH; [exact Vcs|cbn [length] in H; lia].
Qed.

Lemma chars_utf8 cs : all_valid cs -> chars (utf8 cs) = cs.
Proof. intro V. unfold chars. apply chars_fuel_utf8; [exact V|apply utf8_length_ge]. Qed.

(* ------------------------------------------------------------------ the for-loop *)
Lemma skipn_pre {A} (pre rest : list A) : skipn (length pre) (pre ++ rest) = rest.
Proof. rewrite skipn_app, skipn_all, Nat.sub_diag. reflexivity. Qed.

Lemma for_loop_step_at pre c rest : c <= 0x10FFFF ->
  for_loop_step (pre ++ encode c ++ rest) (length pre)
  = Some (encode c, length (pre ++ encode c)).
Proof.
  intro V. unfold for_loop_step.
  assert (L : (length pre <? length (pre ++ encode c ++ rest))%nat = true).
  { rewrite !app_length, encode_length. pose proof (len_utf8_pos c). apply Nat.ltb_lt. lia. }
  rewrite L, skipn_pre, (decode_encode_gen c rest V).
  rewrite app_length, encode_length. reflexivity.
Qed.

Lemma for_loop_step_end s : for_loop_step s (length s) = None.
Proof. unfold for_loop_step. rewrite Nat.ltb_irrefl. reflexivity. Qed.

Lemma iterate_from : forall cs pre fuel, all_valid cs -> (length cs < fuel)%nat ->
  iterate fuel (pre ++ utf8 cs) (length pre)
  = {| items := map encode cs; final_off := length (pre ++ utf8 cs); finished := true |}.
Proof.
  induction cs as [|c cs IH]; intros pre fuel V H.
  - destruct fuel as [|k]; [lia|].
    change (utf8 []) with (@nil N). rewrite app_nil_r. cbn [iterate map].
    rewrite for_loop_step_end. reflexivity.
  - destruct fuel as [|k]; [lia|].
    inversion V as [|? ? Vc Vcs]; subst.
    cbn [iterate]. rewrite utf8_cons.
    rewrite (for_loop_step_at pre c (utf8 cs) (valid_scalar_bound c Vc)).
    assert (E : pre ++ encode c ++ utf8 cs = (pre ++ encode c) ++ utf8 cs) by apply app_assoc.
    rewrite E, (IH (pre ++ encode c) k Vcs); [reflexivity|cbn [length] in H; lia].
Qed.

Lemma iter_yields_lemma cs : all_valid cs ->
  for_each (utf8 cs)
  = {| items := map encode cs; final_off := byte_len (utf8 cs); finished := true |}.
Proof.
  intro V. unfold for_each, byte_len.
  apply (iterate_from cs [] (S (length (utf8 cs))) V).
  pose proof (utf8_length_ge cs). lia.
Qed.

(* any larger fuel gives the same answer: the fuel in for_each is not a restriction *)
Lemma iter_fuel_lemma cs fuel : all_valid cs -> (length cs < fuel)%nat ->
  iterate fuel (utf8 cs) 0 = for_each (utf8 cs).
Proof.
  intros V H. rewrite (iter_yields_lemma cs V). exact (iterate_from cs [] fuel V H).
Qed.

(* ------------------------------------------------------------------ indexing *)
Lemma nth_error_map_encode cs n :
  nth_error (map encode cs) n = option_map encode (nth_error cs n).
Proof. apply nth_error_map. Qed.

Lemma index_lemma cs (i : Z) : all_valid cs ->
  ((0 <= i < Z.of_nat (length cs))%Z ->
     exists it, nth_error (items (for_each (utf8 cs))) (Z.to_nat i) = Some it
                /\ load_char (utf8 cs) i = LoadOk it)
  /\ ((i < 0 \/ Z.of_nat (length cs) <= i)%Z -> load_char (utf8 cs) i = LoadIndexOutOfBounds).
Proof.
  intro V. unfold load_char. rewrite (chars_utf8 cs V), (iter_yields_lemma cs V).
  cbn [items]. split.
  - intros [Hlo Hhi]. destruct (i <? 0)%Z eqn:E; [lia|].
    destruct (nth_error cs (Z.to_nat i)) as [ch|] eqn:N.
    + exists (encode ch). split; [|reflexivity].
      rewrite nth_error_map_encode, N. reflexivity.
    + apply nth_error_None in N. lia.
  - intros [Hneg|Hbig].
    + destruct (i <? 0)%Z eqn:E; [reflexivity|lia].
    + destruct (i <? 0)%Z eqn:E; [reflexivity|].
      assert (N : nth_error cs (Z.to_nat i) = None) by (apply nth_error_None; lia).
      rewrite N. reflexivity.
Qed.

(* the set of succeeding indices is exactly 0..char_len-1 *)
Lemma index_succeeds_iff cs (i : Z) : all_valid cs ->
  ((exists it, load_char (utf8 cs) i = LoadOk it) <-> (0 <= i < Z.of_nat (char_len (utf8 cs)))%Z).
Proof.
  intro V. unfold char_len. rewrite (chars_utf8 cs V).
  destruct (index_lemma cs i V) as [Hin Hout]. split.
  - intros [it Hit].
    destruct (Z_lt_dec i 0) as [Hn|Hn]; [rewrite Hout in Hit by lia; discriminate|].
    destruct (Z_le_dec (Z.of_nat (length cs)) i) as [Hb|Hb]; [rewrite Hout in Hit by lia; discriminate|].
    lia.
  - intro H. destruct (Hin H) as [it [_ Hit]]. exists it. exact Hit.
Qed.

(* ------------------------------------------------------------------ lengths, items *)
Lemma char_len_lemma cs : all_valid cs ->
  char_len (utf8 cs) = length cs /\ char_len (utf8 cs) = length (items (for_each (utf8 cs))).
Proof.
  intro V. unfold char_len. rewrite (chars_utf8 cs V), (iter_yields_lemma cs V).
  cbn [items]. rewrite map_length. split; reflexivity.
Qed.

Lemma map_length_encode cs : map (@length N) (map encode cs) = map len_utf8 cs.
Proof. rewrite map_map. apply map_ext. intro c. apply encode_length. Qed.

Lemma byte_len_lemma cs : all_valid cs ->
  byte_len (utf8 cs) = sum_nat (map len_utf8 cs)
  /\ byte_len (utf8 cs) = sum_nat (map (@length N) (items (for_each (utf8 cs)))).
Proof.
  intro V. rewrite (iter_yields_lemma cs V). cbn [items].
  rewrite map_length_encode. unfold byte_len. split; apply utf8_length.
Qed.

Lemma concat_items_lemma cs : all_valid cs -> concat (items (for_each (utf8 cs))) = utf8 cs.
Proof. intro V. rewrite (iter_yields_lemma cs V). reflexivity. Qed.

Lemma utf8_single c : utf8 [c] = encode c.
Proof. unfold utf8. cbn [map concat]. apply app_nil_r. Qed.

(* every item is a one-character string: re-reading it with any of the three paths gives one
   character, itself *)
Lemma item_is_one_char c : valid_scalar c = true ->
  chars (encode c) = [c] /\ char_len (encode c) = 1%nat
  /\ items (for_each (encode c)) = [encode c] /\ load_char (encode c) 0 = LoadOk (encode c).
Proof.
  intro V. assert (A : all_valid [c]) by (constructor; [exact V|constructor]).
  pose proof (chars_utf8 [c] A) as C. pose proof (iter_yields_lemma [c] A) as I.
  rewrite (utf8_single c) in C, I.
  unfold char_len, load_char. rewrite C, I.
  change (Z.to_nat 0) with O. cbn [items map nth_error length Z.ltb Z.compare].
  repeat split; reflexivity.
Qed.

Lemma items_one_char_lemma cs : all_valid cs ->
  Forall (fun it => char_len it = 1%nat /\ exists c, valid_scalar c = true /\ it = encode c)
         (items (for_each (utf8 cs))).
Proof.
  intro V. rewrite (iter_yields_lemma cs V). cbn [items].
  induction V as [|c cs Vc Vcs IH]; [constructor|].
  cbn [map]. constructor; [|exact IH].
  split; [apply (item_is_one_char c Vc)|]. exists c. split; [exact Vc|reflexivity].
Qed.

(* run-time construction: concatenating two strings concatenates their characters *)
Lemma concat_strings_lemma a b : all_valid a -> all_valid b ->
  chars (utf8 a ++ utf8 b) = a ++ b
  /\ items (for_each (utf8 a ++ utf8 b)) = items (for_each (utf8 a)) ++ items (for_each (utf8 b)).
Proof.
  intros Va Vb. assert (V : all_valid (a ++ b)) by (apply Forall_app; split; assumption).
  rewrite <- utf8_app. rewrite (chars_utf8 _ V), !iter_yields_lemma by assumption.
  cbn [items]. rewrite map_app. split; reflexivity.
Qed.

(* ------------------------------------------------------------------ the dynamic selection *)
(* the String arm of VecForLoop is the StringForLoop computation *)
Lemma iterate_dyn_eq : forall fuel s off, iterate_dyn fuel s off = iterate fuel s off.
Proof.
  induction fuel as [|k IH]; intros s off; [reflexivity|].
  cbn [iterate_dyn iterate].
  change (vec_for_loop_step_on_string s off) with (for_loop_step s off).
  destruct (for_loop_step s off) as [[it off']|]; [rewrite IH|]; reflexivity.
Qed.

Lemma vm_for_each_any_sel k s : vm_for_each k s = for_each s.
Proof. destruct k; [reflexivity|]. unfold vm_for_each, for_each. apply iterate_dyn_eq. Qed.

Lemma iter_yields_any_lemma k cs : all_valid cs ->
  vm_for_each k (utf8 cs)
  = {| items := map encode cs; final_off := byte_len (utf8 cs); finished := true |}.
Proof. intro V. rewrite vm_for_each_any_sel. exact (iter_yields_lemma cs V). Qed.

(* the defect repaired by 8e1534c, kept as a lemma about the OLD arm (continue only for
   ObjectKind::Vec): "he'llo" has 5 characters and s[1] works, the old loop yielded nothing *)
Definition old_vec_for_loop_on_string (s : list N) : iter_result :=
  {| items := []; final_off := 0; finished := true |}.
Lemma old_dynamic_foreach_yielded_nothing :
  let cs := [0x68; 0xE9; 0x6C; 0x6C; 0x6F] in
  char_len (utf8 cs) = 5%nat /\ length (items (old_vec_for_loop_on_string (utf8 cs))) = 0%nat
  /\ length (items (vm_for_each SelDynamic (utf8 cs))) = 5%nat.
Proof. vm_compute. repeat split; reflexivity. Qed.

(* ------------------------------------------------------------------ opcode selection *)
From Aelys Require Import Extracted.Utf8Select Model.Selection.

Lemma selection_lemma t cs : In t string_static_types -> all_valid cs ->
  compiled_for_each t (utf8 cs)
  = Some {| items := map encode cs; final_off := byte_len (utf8 cs); finished := true |}
  /\ compiled_index_ok t = true /\ dynamic_len_handles_string = true.
Proof.
  intros H V. cbn [string_static_types In] in H.
  assert (A : forall k, Some (vm_for_each k (utf8 cs))
                        = Some {| items := map encode cs; final_off := byte_len (utf8 cs); finished := true |}).
  { intro k. f_equal. apply iter_yields_any_lemma. exact V. }
  destruct H as [<-|[<-|[<-|[]]]].
  - split; [exact (A SelString)|split; reflexivity].
  - split; [exact (A SelDynamic)|split; reflexivity].
  - split; [exact (A SelDynamic)|split; reflexivity].
Qed.
