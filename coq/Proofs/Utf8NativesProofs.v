(* The character-counting / slicing string natives agree with the iteration (Model/Utf8Natives.v). *)
From Aelys Require Import Base.Tactics Model.Utf8 Model.Utf8Natives Proofs.Utf8Proofs.
Local Open Scope N_scope.

(* ---- char_at: the same lookup as s[i], with "" instead of the error (for EVERY byte string) *)
Lemma char_at_load_lemma s (i : Z) :
  nat_char_at s i = match load_char s i with LoadOk it => it | LoadIndexOutOfBounds => [] end.
Proof.
  unfold nat_char_at, load_char. destruct (i <? 0)%Z; [reflexivity|].
  destruct (nth_error (chars s) (Z.to_nat i)); reflexivity.
Qed.

Lemma char_at_item_lemma cs (i : Z) : all_valid cs ->
  nat_char_at (utf8 cs) i
  = if ((0 <=? i) && (i <? Z.of_nat (length cs)))%Z
    then nth (Z.to_nat i) (items (vm_for_each SelString (utf8 cs))) [] else [].
Proof.
  intro V. unfold nat_char_at. rewrite (chars_utf8 cs V).
  change (vm_for_each SelString (utf8 cs)) with (for_each (utf8 cs)).
  rewrite (iter_yields_lemma cs V). cbn [items].
  destruct (i <? 0)%Z eqn:E.
  - destruct (0 <=? i)%Z eqn:E2; [lia|reflexivity].
  - destruct (0 <=? i)%Z eqn:E2; [|lia]. cbn [andb].
    destruct (i <? Z.of_nat (length cs))%Z eqn:E3.
    + destruct (nth_error cs (Z.to_nat i)) as [c|] eqn:N.
      * symmetry. apply nth_error_nth. rewrite nth_error_map, N. reflexivity.
      * apply nth_error_None in N. lia.
    + assert (N : nth_error cs (Z.to_nat i) = None) by (apply nth_error_None; lia).
      rewrite N. reflexivity.
Qed.

(* ---- sub-lists of valid scalars are valid *)
Lemma all_valid_split n cs : all_valid cs -> all_valid (firstn n cs) /\ all_valid (skipn n cs).
Proof.
  intro V. unfold all_valid in *. rewrite <- (firstn_skipn n cs) in V.
  apply Forall_app in V. exact V.
Qed.

Lemma all_valid_repeat c k : valid_scalar c = true -> all_valid (repeat c k).
Proof. intro V. induction k as [|k IH]; [constructor|]. cbn [repeat]. constructor; assumption. Qed.

Lemma utf8_map_concat cs : utf8 cs = concat (map encode cs).
Proof. reflexivity. Qed.

(* ---- substr: the characters a .. a+n-1, i.e. the concatenation of those items *)
Lemma substr_lemma cs (a n : Z) : all_valid cs -> (0 <= a)%Z -> (0 <= n)%Z ->
  chars (nat_substr (utf8 cs) a n) = firstn (Z.to_nat n) (skipn (Z.to_nat a) cs)
  /\ nat_substr (utf8 cs) a n
     = concat (firstn (Z.to_nat n) (skipn (Z.to_nat a) (items (vm_for_each SelString (utf8 cs)))))
  /\ char_len (nat_substr (utf8 cs) a n) = Nat.min (Z.to_nat n) (length cs - Z.to_nat a).
Proof.
  intros V Ha Hn. unfold nat_substr.
  destruct ((a <? 0) || (n <? 0))%Z eqn:E; [lia|].
  rewrite (chars_utf8 cs V).
  assert (W : all_valid (firstn (Z.to_nat n) (skipn (Z.to_nat a) cs))).
  { apply all_valid_split. apply (all_valid_split (Z.to_nat a) cs V). }
  change (vm_for_each SelString (utf8 cs)) with (for_each (utf8 cs)).
  rewrite (iter_yields_lemma cs V). cbn [items].
  split; [apply chars_utf8; exact W|]. split.
  - rewrite skipn_map, firstn_map. reflexivity.
  - unfold char_len. rewrite (chars_utf8 _ W), firstn_length, skipn_length. reflexivity.
Qed.

Lemma substr_negative_lemma s (a n : Z) : (a < 0 \/ n < 0)%Z -> nat_substr s a n = [].
Proof. intro H. unfold nat_substr. destruct ((a <? 0) || (n <? 0))%Z eqn:E; [reflexivity|lia]. Qed.

(* ---- chars() / split(s, ""): the items joined with a newline *)
Lemma chars_native_lemma cs : all_valid cs ->
  nat_chars (utf8 cs) = join [10] (items (vm_for_each SelString (utf8 cs)))
  /\ nat_split_empty (utf8 cs) = nat_chars (utf8 cs).
Proof.
  intro V. unfold nat_chars, nat_split_empty. rewrite (chars_utf8 cs V).
  change (vm_for_each SelString (utf8 cs)) with (for_each (utf8 cs)).
  rewrite (iter_yields_lemma cs V). split; reflexivity.
Qed.

(* ---- reverse *)
Lemma sum_nat_app a b : sum_nat (a ++ b) = (sum_nat a + sum_nat b)%nat.
Proof. induction a as [|x a IH]; [reflexivity|]. cbn [app sum_nat]. rewrite IH. lia. Qed.

Lemma sum_nat_rev l : sum_nat (rev l) = sum_nat l.
Proof.
  induction l as [|x l IH]; [reflexivity|]. cbn [rev]. rewrite sum_nat_app, IH. cbn [sum_nat]. lia.
Qed.

Lemma reverse_lemma cs : all_valid cs ->
  chars (nat_reverse (utf8 cs)) = rev cs
  /\ items (vm_for_each SelString (nat_reverse (utf8 cs))) = rev (items (vm_for_each SelString (utf8 cs)))
  /\ char_len (nat_reverse (utf8 cs)) = char_len (utf8 cs)
  /\ byte_len (nat_reverse (utf8 cs)) = byte_len (utf8 cs)
  /\ nat_reverse (nat_reverse (utf8 cs)) = utf8 cs.
Proof.
  intro V. assert (R : all_valid (rev cs)) by (apply Forall_rev; exact V).
  unfold nat_reverse. rewrite (chars_utf8 cs V).
  change (vm_for_each SelString) with for_each.
  rewrite (iter_yields_lemma _ R), (iter_yields_lemma _ V). cbn [items].
  rewrite (chars_utf8 _ R). split; [reflexivity|]. split; [apply map_rev|]. split.
  - unfold char_len. rewrite (chars_utf8 _ R), (chars_utf8 _ V). apply rev_length.
  - split; [|rewrite rev_involutive; reflexivity].
    unfold byte_len. rewrite !utf8_length, map_rev. apply sum_nat_rev.
Qed.

(* ---- pad_left / pad_right *)
Lemma pad_char_valid ps : all_valid ps -> valid_scalar (pad_char (utf8 ps)) = true.
Proof.
  intro V. unfold pad_char. rewrite (chars_utf8 ps V).
  destruct ps as [|c r]; [reflexivity|]. inversion V; assumption.
Qed.

Lemma pad_lemma cs ps (w : Z) : all_valid cs -> all_valid ps ->
  let k := pad_count (utf8 cs) w in
  let pc := pad_char (utf8 ps) in
  chars (nat_pad_left (utf8 cs) w (utf8 ps)) = repeat pc k ++ cs
  /\ chars (nat_pad_right (utf8 cs) w (utf8 ps)) = cs ++ repeat pc k
  /\ char_len (nat_pad_left (utf8 cs) w (utf8 ps)) = Nat.max (length cs) (Z.to_nat w)
  /\ char_len (nat_pad_right (utf8 cs) w (utf8 ps)) = Nat.max (length cs) (Z.to_nat w)
  /\ pc = match ps with c :: _ => c | [] => 32 end.
Proof.
  intros V P k pc.
  assert (Vp : all_valid (repeat pc k)) by (apply all_valid_repeat, pad_char_valid; exact P).
  assert (VL : all_valid (repeat pc k ++ cs)) by (apply Forall_app; split; assumption).
  assert (VR : all_valid (cs ++ repeat pc k)) by (apply Forall_app; split; assumption).
  assert (K : (k + length cs)%nat = Nat.max (length cs) (Z.to_nat w)).
  { unfold k, pad_count. destruct (char_len_lemma cs V) as [CL _]. rewrite CL.
    destruct (w <=? 0)%Z eqn:E; lia. }
  unfold nat_pad_left, nat_pad_right. fold k. fold pc.
  rewrite <- !utf8_app. rewrite (chars_utf8 _ VL), (chars_utf8 _ VR).
  split; [reflexivity|]. split; [reflexivity|]. unfold char_len.
  rewrite (chars_utf8 _ VL), (chars_utf8 _ VR), !app_length, repeat_length.
  split; [lia|]. split; [lia|].
  unfold pc, pad_char. rewrite (chars_utf8 ps P). reflexivity.
Qed.

(* ---- repeat *)
Lemma concat_repeat_utf8 cs k : concat (repeat (utf8 cs) k) = utf8 (concat (repeat cs k)).
Proof.
  induction k as [|k IH]; [reflexivity|]. cbn [repeat concat]. rewrite IH, utf8_app. reflexivity.
Qed.

Lemma all_valid_concat_repeat cs k : all_valid cs -> all_valid (concat (repeat cs k)).
Proof.
  intro V. induction k as [|k IH]; [constructor|]. cbn [repeat concat]. apply Forall_app; split; assumption.
Qed.

Lemma length_concat_repeat {A} (l : list A) k : length (concat (repeat l k)) = (k * length l)%nat.
Proof. induction k as [|k IH]; [reflexivity|]. cbn [repeat concat]. rewrite app_length, IH. lia. Qed.

Lemma repeat_lemma cs (n : Z) : all_valid cs ->
  chars (nat_repeat (utf8 cs) n) = concat (repeat cs (Z.to_nat n))
  /\ char_len (nat_repeat (utf8 cs) n) = (Z.to_nat n * length cs)%nat
  /\ byte_len (nat_repeat (utf8 cs) n) = (Z.to_nat n * byte_len (utf8 cs))%nat.
Proof.
  intro V. unfold nat_repeat. destruct (n <=? 0)%Z eqn:E.
  - assert (Z.to_nat n = O) as -> by lia. repeat split; reflexivity.
  - pose proof (all_valid_concat_repeat cs (Z.to_nat n) V) as W.
    unfold byte_len. rewrite length_concat_repeat.
    rewrite concat_repeat_utf8. unfold char_len. rewrite (chars_utf8 _ W), length_concat_repeat.
    repeat split; reflexivity.
Qed.

(* ---- byte_at *)
Lemma byte_at_lemma s (i : Z) :
  ((0 <= i < Z.of_nat (byte_len s))%Z -> nat_byte_at s i = Z.of_N (nth (Z.to_nat i) s 0))
  /\ ((i < 0 \/ Z.of_nat (byte_len s) <= i)%Z -> nat_byte_at s i = (-1)%Z).
Proof.
  unfold nat_byte_at, byte_len. split; intro H.
  - destruct ((i <? 0) || (Z.of_nat (length s) <=? i))%Z eqn:E; [lia|reflexivity].
  - destruct ((i <? 0) || (Z.of_nat (length s) <=? i))%Z eqn:E; [reflexivity|lia].
Qed.
