From Aelys Require Import Base.Tactics Extracted.AasmEscapes Model.AasmStr.
Local Open Scope N_scope.

Lemma esc_tables_ok_now : esc_tables_ok = true.
Proof. vm_compute. reflexivity. Qed.

Lemma assoc_in k t v : assoc k t = Some v -> In (k, v) t.
Proof.
  induction t as [|[a b] t IH]; cbn [assoc]; [discriminate|].
  destruct (N.eqb_spec a k) as [->|E]; intro H; [inversion H; left; reflexivity | right; auto].
Qed.

Lemma hex_digit_value d : d < 16 -> hex_value (hex_digit d) = Some d.
Proof.
  intro H. unfold hex_digit, hex_value.
  destruct (N.ltb_spec d 10).
  - destruct (N.leb_spec 48 (48 + d)); destruct (N.leb_spec (48 + d) 57); cbn [andb]; try lia. f_equal. lia.
  - destruct (N.leb_spec 48 (87 + d)); destruct (N.leb_spec (87 + d) 57); cbn [andb]; try lia.
    destruct (N.leb_spec 97 (87 + d)); destruct (N.leb_spec (87 + d) 102); cbn [andb]; try lia. f_equal. lia.
Qed.

Lemma unescape_escape_gen :
  esc_tables_ok = true ->
  forall s rest, unescape (escape s ++ QUOTE :: rest) = Some (s, rest).
Proof.
  intros T. unfold esc_tables_ok in T.
  apply andb_true_iff in T as [T Tb]. apply andb_true_iff in T as [T Tq].
  rewrite forallb_forall in T.
  induction s as [|c s IH]; intro rest.
  - cbn [escape flat_map app unescape]. rewrite N.eqb_refl. reflexivity.
  - unfold escape in *. cbn [flat_map]. rewrite <- app_assoc. unfold escape_char.
    destruct (assoc c ESC_TABLE) as [l|] eqn:A.
    + specialize (T _ (assoc_in _ _ _ A)). cbn [fst snd] in T. apply andb_true_iff in T as [T1 T2].
      destruct (assoc l UNESC_TABLE) as [ch|] eqn:U; [|discriminate]. apply N.eqb_eq in T1. subst ch.
      apply negb_true_iff in T2.
      cbn [app unescape].
      assert (BACKSLASH =? QUOTE = false) as -> by reflexivity. rewrite N.eqb_refl.
      rewrite T2, U, IH. reflexivity.
    + assert (c <> QUOTE) as Nq by (intro E; subst; rewrite A in Tq; discriminate).
      assert (c <> BACKSLASH) as Nb by (intro E; subst; rewrite A in Tb; discriminate).
      destruct (is_ascii_control c) eqn:C.
      * assert (c < 256) as Hc. { unfold is_ascii_control in C. apply orb_true_iff in C. destruct C as [C|C]; lia. }
        cbn [app unescape].
        assert (BACKSLASH =? QUOTE = false) as -> by reflexivity. rewrite N.eqb_refl.
        assert (LETTER_X =? LETTER_X = true) as -> by reflexivity.
        rewrite !hex_digit_value by lia. rewrite IH.
        do 3 f_equal. lia.
      * cbn [app unescape].
        destruct (N.eqb_spec c QUOTE); [contradiction|]. destruct (N.eqb_spec c BACKSLASH); [contradiction|].
        rewrite IH. reflexivity.
Qed.

Theorem unescape_escape s rest : unescape (escape s ++ QUOTE :: rest) = Some (s, rest).
Proof. exact (unescape_escape_gen esc_tables_ok_now s rest). Qed.

(* the text between the quotes never contains a bare quote: the literal ends where it should *)
Example escape_examples :
  escape [97; 10; 34; 92; 0; 1; 127; 133; 233; 128512] = [97; 92; 110; 92; 34; 92; 92; 92; 48; 92; 120; 48; 49; 92; 120; 55; 102; 133; 233; 128512]
  /\ unescape [97; 92; 120; 99; 50; 34] = Some ([97; 194], []).
Proof. vm_compute. split; reflexivity. Qed.
