(* C16 -- the global layout does not depend on the iteration order of global_indices. *)
From Aelys Require Import Base.Tactics Model.GlobalLayoutOrder.
From Coq Require Import String Permutation.
Local Open Scope string_scope.
Local Open Scope list_scope.
Local Notation length := List.length (only parsing).

Lemma set_nth_length {A} (k : nat) (v : A) (l : list A) : length (set_nth k v l) = length l.
Proof. revert k; induction l as [|x l IH]; intros [|k]; cbn [set_nth length]; auto. Qed.

Lemma set_nth_same {A} (k : nat) (v d : A) (l : list A) : k < length l -> nth k (set_nth k v l) d = v.
Proof.
  revert k; induction l as [|x l IH]; intros [|k] H; cbn [set_nth List.length nth] in *; try lia; auto.
  all: try (apply IH; lia).
Qed.

Lemma set_nth_other {A} (k j : nat) (v d : A) (l : list A) : j <> k -> nth j (set_nth k v l) d = nth j l d.
Proof.
  revert k j; induction l as [|x l IH]; intros [|k] [|j] H; cbn [set_nth nth]; auto; try lia.
  all: try (apply IH; lia).
Qed.

Lemma fold_length (acc : string -> bool) (gi : list (string * nat)) (init : list string) :
  length (fold_left (layout_step acc) gi init) = length init.
Proof.
  revert init; induction gi as [|p gi IH]; intro init; cbn [fold_left]; [reflexivity|].
  rewrite IH. unfold layout_step. destruct (acc (fst p)); [apply set_nth_length|reflexivity].
Qed.

(* nobody writes slot k *)
Lemma fold_untouched (acc : string -> bool) (gi : list (string * nat)) (init : list string) (k : nat) (d : string) :
  (forall p, In p gi -> acc (fst p) = true -> snd p <> k) ->
  nth k (fold_left (layout_step acc) gi init) d = nth k init d.
Proof.
  revert init; induction gi as [|p gi IH]; intros init H; cbn [fold_left]; [reflexivity|].
  rewrite IH by (intros q Hq; apply H; right; exact Hq).
  unfold layout_step. destruct (acc (fst p)) eqn:Ha; [|reflexivity].
  apply set_nth_other. intro E. apply (H p (or_introl eq_refl) Ha). symmetry; exact E.
Qed.

(* the one writer of slot (snd p) *)
Lemma fold_written (acc : string -> bool) (gi : list (string * nat)) (init : list string) (p : string * nat) (d : string) :
  NoDup (map snd gi) -> In p gi -> acc (fst p) = true -> snd p < length init ->
  nth (snd p) (fold_left (layout_step acc) gi init) d = fst p.
Proof.
  revert init; induction gi as [|q gi IH]; intros init ND Hin Ha Hlt; [destruct Hin|].
  cbn [map] in ND. apply NoDup_cons_iff in ND as [Hnin ND]. cbn [fold_left].
  destruct Hin as [->|Hin].
  - rewrite fold_untouched.
    + unfold layout_step. rewrite Ha. apply set_nth_same; exact Hlt.
    + intros r Hr _ E. apply Hnin. rewrite <- E. apply in_map; exact Hr.
  - apply IH; auto. unfold layout_step. destruct (acc (fst q)); [rewrite set_nth_length|]; exact Hlt.
Qed.

Lemma layout_permutation_invariant_lemma (n : nat) (gi gi' : list (string * nat)) (acc : string -> bool) :
  NoDup (map snd gi) -> (forall p, In p gi -> snd p < n) -> Permutation gi gi' ->
  build_layout n gi acc = build_layout n gi' acc.
Proof.
  intros ND Hlt P. unfold build_layout.
  assert (ND' : NoDup (map snd gi')) by (eapply Permutation_NoDup; [apply Permutation_map; exact P|exact ND]).
  apply nth_ext with (d := "") (d' := ""); [rewrite !fold_length; reflexivity|].
  intros k Hk. rewrite fold_length, repeat_length in Hk.
  destruct (existsb (fun p => acc (fst p) && Nat.eqb (snd p) k) gi) eqn:Hex.
  - apply existsb_exists in Hex as (p & Hin & Hp). apply andb_true_iff in Hp as [Ha Hk'].
    apply Nat.eqb_eq in Hk'. subst k.
    rewrite (fold_written acc gi _ p "" ND Hin Ha) by (rewrite repeat_length; exact Hk).
    rewrite (fold_written acc gi' _ p "" ND' (Permutation_in _ P Hin) Ha) by (rewrite repeat_length; exact Hk).
    reflexivity.
  - assert (Hno : forall p, In p gi -> acc (fst p) = true -> snd p <> k).
    { intros p Hin Ha E. assert (existsb (fun p => acc (fst p) && Nat.eqb (snd p) k) gi = true) as C.
      { apply existsb_exists. exists p. split; [exact Hin|]. rewrite Ha. cbn. apply Nat.eqb_eq; exact E. }
      rewrite C in Hex; discriminate. }
    rewrite (fold_untouched acc gi _ k "" Hno).
    rewrite (fold_untouched acc gi' _ k ""); [reflexivity|].
    intros p Hin. apply Hno. apply (Permutation_in _ (Permutation_sym P) Hin).
Qed.

(* the pre-pass hands out distinct, dense indices *)
Lemma assign_from_inv (decls : list string) :
  forall gi next,
    map snd gi = seq 0 next ->
    map snd (fst (assign_from gi next decls)) = seq 0 (snd (assign_from gi next decls)).
Proof.
  induction decls as [|d decls IH]; intros gi next H; cbn [assign_from fst snd]; [exact H|].
  destruct (has_key gi d); [apply IH; exact H|].
  apply IH. rewrite map_app, H. cbn [map snd]. rewrite seq_S. reflexivity.
Qed.

Lemma assign_indices_dense (decls : list string) :
  map snd (fst (assign_indices decls)) = seq 0 (snd (assign_indices decls)).
Proof. apply assign_from_inv. reflexivity. Qed.

Lemma assign_indices_ok (decls : list string) :
  NoDup (map snd (fst (assign_indices decls))) /\
  (forall p, In p (fst (assign_indices decls)) -> snd p < snd (assign_indices decls)).
Proof.
  pose proof (assign_indices_dense decls) as H. split.
  - rewrite H. apply seq_NoDup.
  - intros p Hin. assert (In (snd p) (seq 0 (snd (assign_indices decls)))) as Hs
      by (rewrite <- H; apply in_map; exact Hin).
    apply in_seq in Hs. lia.
Qed.

Lemma layout_of_decls_order_free (decls : list string) (gi' : list (string * nat)) (acc : string -> bool) :
  Permutation (fst (assign_indices decls)) gi' ->
  build_layout (snd (assign_indices decls)) gi' acc
  = build_layout (snd (assign_indices decls)) (fst (assign_indices decls)) acc.
Proof.
  intro P. symmetry. destruct (assign_indices_ok decls) as [ND Hlt].
  apply layout_permutation_invariant_lemma; assumption.
Qed.

(* and the hypothesis is needed: two names sharing an index make the order visible *)
Lemma layout_order_visible_without_distinct_indices :
  exists gi gi', Permutation gi gi' /\ build_layout 1 gi (fun _ => true) <> build_layout 1 gi' (fun _ => true).
Proof.
  exists [("a", 0); ("b", 0)], [("b", 0); ("a", 0)]. split; [apply perm_swap|].
  vm_compute. discriminate.
Qed.

(* ---------------------------------------------------------------- keyed insert-if-absent merges *)
Fixpoint first_assoc (k : string) (es : list (string * nat)) : option nat :=
  match es with [] => None | (k', v) :: r => if String.eqb k k' then Some v else first_assoc k r end.

Lemma merge_if_absent_spec (child : list (string * nat)) :
  forall (parent : table) (k : string),
    merge_if_absent parent child k = match parent k with Some v => Some v | None => first_assoc k child end.
Proof.
  unfold merge_if_absent. induction child as [|[k' v] child IH]; intros parent k; cbn [fold_left first_assoc].
  - destruct (parent k); reflexivity.
  - rewrite IH. unfold merge_step; cbn [fst snd].
    destruct (parent k') as [w|] eqn:Hp'.
    + destruct (parent k) as [u|] eqn:Hp; [reflexivity|].
      destruct (String.eqb_spec k k') as [->|_]; [rewrite Hp' in Hp; discriminate|reflexivity].
    + destruct (String.eqb_spec k k') as [->|_].
      * rewrite Hp'. reflexivity.
      * reflexivity.
Qed.

Lemma first_assoc_perm (es es' : list (string * nat)) (k : string) :
  NoDup (map fst es) -> Permutation es es' -> first_assoc k es = first_assoc k es'.
Proof.
  intros ND P; induction P as [|[k1 v1] l l' P IH|[k1 v1] [k2 v2] l|l l' l'' P1 IH1 P2 IH2]; cbn [first_assoc map fst] in *.
  - reflexivity.
  - apply NoDup_cons_iff in ND as [_ ND]. rewrite (IH ND). reflexivity.
  - destruct (String.eqb_spec k k2) as [->|_]; [|reflexivity].
    destruct (String.eqb_spec k2 k1) as [->|_]; [|reflexivity].
    exfalso. apply NoDup_cons_iff in ND as [Hn _]. apply Hn. left; reflexivity.
  - rewrite (IH1 ND). apply IH2. eapply Permutation_NoDup; [apply Permutation_map; exact P1|exact ND].
Qed.

Lemma merge_if_absent_permutation_invariant_lemma (parent : table) (child child' : list (string * nat)) :
  NoDup (map fst child) -> Permutation child child' ->
  forall k, merge_if_absent parent child k = merge_if_absent parent child' k.
Proof. intros ND P k. rewrite !merge_if_absent_spec. destruct (parent k); [reflexivity|apply first_assoc_perm; assumption]. Qed.
