(* C05 -- the session machine WITH call-site caches runs exactly what the machine without them runs
   (Model/SessionCache.v vs Model/Session.v), for every program, every slot assignment (collisions
   included) and every choice of sites compiled as native calls. *)
From Aelys Require Import Base.Tactics Extracted.CallCacheConsts Extracted.ReplShape Model.Session Model.SessionCache Proofs.SessionProofs.
Local Open Scope N_scope.

Section P.
Variable C : code.
Variable slot_of : cid -> nat -> N.
Variable native_hint : cid -> nat -> bool.
Hypothesis SLOTS : forall o k, slot_of o k < MAX_CALL_SITE_SLOTS.

(* every cache entry describes the object it was built from *)
Definition cache_ok (h : list (N * obj)) (cs : cstate) : Prop :=
  forall slot e, lookup slot (c_cache cs) = Some e ->
    lookup (e_owner e) h = Some (OFn (e_fid e)) /\ lookup (e_fid e) C = Some (e_fd e).

Lemma cache_ok_clear h cs : cache_ok h (clear cs).
Proof. intros slot e H. unfold clear, SET_GLOBAL_CLEARS_CACHE in H. cbn in H. discriminate. Qed.

Lemma cache_ok_set_form h cs o k f : cache_ok h cs -> cache_ok h (set_form cs o k f).
Proof. intros K slot e H. exact (K slot e H). Qed.

Lemma cache_ok_init h : cache_ok h cinit.
Proof. intros slot e H. cbn in H. discriminate. Qed.

Lemma resolve_fill_ok st cs o k v rp : cache_ok (m_heap st) cs ->
  snd (resolve_fill C slot_of st cs o k v rp) = target_of C st v /\
  cache_ok (m_heap st) (fst (resolve_fill C slot_of st cs o k v rp)).
Proof.
  intros K. unfold resolve_fill, target_of. destruct v as [|z|p]; try (split; [reflexivity|exact K]).
  destruct (lookup p (m_heap st)) as [[fid|tag ar]|] eqn:EP; try (split; [reflexivity|exact K]).
  - destruct (lookup fid C) as [fd|] eqn:EF; try (split; [reflexivity|exact K]).
    pose proof (SLOTS o k) as Hs. apply N.leb_gt in Hs. rewrite Hs. split; [reflexivity|].
    intros slot e H. unfold fill in H. cbn [fst c_cache lookup] in H.
    destruct (slot =? slot_of o k); [|exact (K slot e H)].
    inversion H; subst e. cbn. split; assumption.
  - split; [reflexivity|]. destruct rp; [apply cache_ok_set_form|]; exact K.
Qed.

Lemma dispatch_ok st cs o k v : cache_ok (m_heap st) cs ->
  snd (dispatch C slot_of native_hint st cs o k v) = target_of C st v /\
  cache_ok (m_heap st) (fst (dispatch C slot_of native_hint st cs o k v)).
Proof.
  intros K. unfold dispatch. destruct (get_form native_hint cs o k) as [|p|p].
  - now apply resolve_fill_ok.
  - destruct (negb (p =? 0)); [|now apply resolve_fill_ok].
    destruct (lookup (slot_of o k) (c_cache cs)) as [e|] eqn:EL; [|now apply resolve_fill_ok].
    unfold MONO_FAST_PATH_VALIDATES. cbn [negb orb].
    destruct ((e_owner e =? p) && value_is v p) eqn:E; [|now apply resolve_fill_ok].
    apply andb_true_iff in E as [E1 E2]. apply N.eqb_eq in E1.
    destruct v as [|z|q]; try discriminate. cbn in E2. apply N.eqb_eq in E2. subst q p.
    destruct (K _ _ EL) as [H1 H2]. cbn [snd fst]. split; [|exact K].
    unfold target_of. now rewrite H1, H2.
  - unfold NATIVE_SITE_FOLLOWS_REBINDING. cbn [andb].
    destruct (despecialise st v p) eqn:D.
    { apply resolve_fill_ok. now apply cache_ok_set_form. }
    unfold native_body, target_of. unfold despecialise, is_native_at in D.
    destruct (p =? 0) eqn:P0.
    + destruct v as [|z|q]; try (split; [reflexivity|exact K]).
      destruct (lookup q (m_heap st)) as [[fid|tag ar]|]; cbn in D; try discriminate.
      split; [reflexivity|]. now apply cache_ok_set_form.
    + destruct v as [|z|q]; cbn in D; try discriminate.
      destruct (q =? p) eqn:Q; cbn in D; [|discriminate]. apply N.eqb_eq in Q. subst q.
      destruct (lookup p (m_heap st)) as [[fid|tag ar]|]; cbn in D; try discriminate.
      split; [reflexivity|exact K].
Qed.

(* none of the view / frame operations touches the heap *)
Lemma heap_set_idx st i v : m_heap (set_idx st i v) = m_heap st. Proof. reflexivity. Qed.
Lemma heap_sync_loaded st : m_heap (sync_loaded st) = m_heap st. Proof. reflexivity. Qed.
Lemma heap_with_frames st fs : m_heap (with_frames st fs) = m_heap st. Proof. reflexivity. Qed.
Lemma heap_prepare st L : m_heap (prepare st L) = m_heap st.
Proof.
  unfold prepare. destruct (layout_eqb L (cur st)); [reflexivity|].
  destruct L; [reflexivity|]. destruct (snap_lookup _ (snap st)); reflexivity.
Qed.
Lemma heap_switch st L : m_heap (switch_layout st L) = m_heap st.
Proof.
  unfold switch_layout. destruct L; [reflexivity|].
  match goal with |- context [if ?b then _ else _] => destruct b end; [reflexivity|].
  rewrite heap_prepare. destruct LAYOUT_SWITCHES_SYNC_THE_LOADED_LAYOUT; [apply heap_sync_loaded|].
  unfold sync_running. destruct (frames st) as [|f r]; [reflexivity|]. destruct (f_lay f); reflexivity.
Qed.
Lemma heap_call_enter st L : m_heap (call_enter st L) = m_heap st.
Proof. unfold call_enter. now rewrite heap_with_frames, heap_switch. Qed.
Lemma heap_do_return st : m_heap (do_return st) = m_heap st.
Proof.
  unfold do_return. destruct (frames st) as [|f rest]; [reflexivity|].
  match goal with |- context [if ?b then prepare _ _ else _] => destruct b end;
  match goal with |- context [if ?b then sync_loaded _ else _] => destruct b end;
  rewrite ?heap_prepare, ?heap_with_frames, ?heap_sync_loaded; reflexivity.
Qed.
Lemma heap_execute st L : m_heap (execute st L) = m_heap st. Proof. reflexivity. Qed.
Lemma heap_set_name st n v : m_heap (set_name st n v) = m_heap st. Proof. reflexivity. Qed.

Definition agrees (rc : mstate * cstate * list Z * status) (rm : mstate * list Z * status) : Prop :=
  let '(st', cs', out, s) := rc in rm = (st', out, s) /\ cache_ok (m_heap st') cs'.

Lemma agrees_cont o rc rm : agrees rc rm ->
  agrees (let '(st2, cs2, out2, s) := rc in (st2, cs2, o ++ out2, s))
         (let '(st2, out2, s) := rm in (st2, o ++ out2, s)).
Proof.
  destruct rc as [[[a b] c] d]. unfold agrees. intros [E K]. subst rm. split; [reflexivity|exact K].
Qed.

Theorem exec_c_m : forall f o Lf arg st cs body, cache_ok (m_heap st) cs ->
  agrees (exec_c C slot_of native_hint f o Lf arg st cs body) (exec_m C f Lf arg st body).
Proof.
  induction f as [|f IH]; intros o Lf arg st cs body K.
  { cbn. split; [reflexivity|exact K]. }
  destruct body as [|i r]. { cbn. split; [reflexivity|exact K]. }
  assert (STOP : forall s0, agrees (st, cs, [], s0) (st, [], s0)) by (intro s0; split; [reflexivity|exact K]).
  (* a call once the callee is known *)
  assert (CALL : forall cs1 fv nargs av, cache_ok (m_heap st) cs1 ->
    agrees
      (match target_of C st fv with
       | TFn fid fd =>
           if negb (fd_arity fd =? nargs) then (st, cs1, [], SErr)
           else if MAX_FRAMES <=? N.of_nat (length (frames st)) then (switch_layout st (fd_layout fd), cs1, [], SErr)
           else
             let '(st1, cs2, out1, s1) := exec_c C slot_of native_hint f (CFn fid) (fd_layout fd) av (call_enter st (fd_layout fd)) cs1 (fd_body fd) in
             match s1 with
             | SOk => let '(st2, cs3, out2, s) := exec_c C slot_of native_hint f o Lf arg (do_return st1) cs2 r in (st2, cs3, out1 ++ out2, s)
             | _ => (st1, cs2, out1, s1)
             end
       | TNat tag ar => if negb (ar =? nargs) then (st, cs1, [], SErr)
                        else let '(st2, cs3, out2, s) := exec_c C slot_of native_hint f o Lf arg st cs1 r in (st2, cs3, [tag] ++ out2, s)
       | TErr => (st, cs1, [], SErr)
       end)
      (match fv with
       | VPtr p =>
           match lookup p (m_heap st) with
           | Some (OFn fid) =>
               match lookup fid C with
               | Some fd =>
                   if negb (fd_arity fd =? nargs) then (st, [], SErr)
                   else if MAX_FRAMES <=? N.of_nat (length (frames st)) then (switch_layout st (fd_layout fd), [], SErr)
                   else
                     let '(st1, out1, s1) := exec_m C f (fd_layout fd) av (call_enter st (fd_layout fd)) (fd_body fd) in
                     match s1 with
                     | SOk => let '(st2, out2, s) := exec_m C f Lf arg (do_return st1) r in (st2, out1 ++ out2, s)
                     | _ => (st1, out1, s1)
                     end
               | None => (st, [], SErr)
               end
           | Some (ONat tag ar) => if negb (ar =? nargs) then (st, [], SErr)
                                   else let '(st2, out2, s) := exec_m C f Lf arg st r in (st2, [tag] ++ out2, s)
           | None => (st, [], SErr)
           end
       | _ => (st, [], SErr)
       end)).
  { intros cs1 fv nargs av K1.
    assert (ERR : agrees (st, cs1, [], SErr) (st, [], SErr)) by (split; [reflexivity|exact K1]).
    unfold target_of. destruct fv as [|z|p]; try exact ERR.
    destruct (lookup p (m_heap st)) as [[fid|tag ar]|]; try exact ERR.
    - destruct (lookup fid C) as [fd|]; try exact ERR.
      destruct (negb (fd_arity fd =? nargs)); try exact ERR.
      destruct (MAX_FRAMES <=? N.of_nat (length (frames st))).
      { split; [reflexivity|]. now rewrite heap_switch. }
      assert (K2 : cache_ok (m_heap (call_enter st (fd_layout fd))) cs1) by now rewrite heap_call_enter.
      pose proof (IH (CFn fid) (fd_layout fd) av (call_enter st (fd_layout fd)) cs1 (fd_body fd) K2) as H.
      destruct (exec_c C slot_of native_hint f (CFn fid) (fd_layout fd) av (call_enter st (fd_layout fd)) cs1 (fd_body fd)) as [[[st1 cs2] out1] s1].
      destruct H as [E K3]. rewrite E.
      destruct s1; try (split; [reflexivity|exact K3]).
      apply agrees_cont. apply IH. now rewrite heap_do_return.
    - destruct (negb (ar =? nargs)); try exact ERR.
      apply agrees_cont. now apply IH. }
  cbn [exec_c exec_m]. destruct i as [n v|d src|n k|n k|z|n fid|c nargs a|].
  - destruct (pos_of n Lf) as [i|]; [|apply STOP].
    apply (agrees_cont []). apply IH. apply cache_ok_clear.
  - destruct (pos_of d Lf) as [i|]; [|apply STOP]. destruct (pos_of src Lf) as [j|]; [|apply STOP].
    apply (agrees_cont []). apply IH. apply cache_ok_clear.
  - destruct (pos_of n Lf) as [i|]; [|apply STOP].
    destruct (gnth (gidx st) i); try apply STOP.
    apply (agrees_cont []). apply IH. apply cache_ok_clear.
  - destruct (pos_of n Lf) as [i|]; [|apply STOP].
    apply agrees_cont. now apply IH.
  - apply agrees_cont. now apply IH.
  - destruct (pos_of n Lf) as [i|]; [|apply STOP].
    apply (agrees_cont []). apply IH. apply cache_ok_clear.
  - destruct c as [n|].
    + destruct (mread st Lf n) as [fv|]; [|apply STOP].
      destruct (match a with Some g => mread st Lf g | None => Some VNull end) as [av|]; [|apply STOP].
      pose proof (dispatch_ok st cs o (length r) fv K) as [Ht Hk].
      destruct (dispatch C slot_of native_hint st cs o (length r) fv) as [cs1 t]. cbn [fst snd] in Ht, Hk. subst t.
      apply CALL. exact Hk.
    + destruct (match a with Some g => mread st Lf g | None => Some VNull end) as [av|]; [|apply STOP].
      apply CALL. exact K.
  - apply STOP.
Qed.


(* ---- units, modules, the driver loop ---- *)
Lemma run_unit_c_m fuel vm cs u L body : cache_ok (m_heap vm) cs ->
  agrees (run_unit_c C slot_of native_hint fuel vm cs u L body) (run_unit C fuel vm L body).
Proof.
  intros K. unfold run_unit_c, run_unit.
  pose proof (exec_c_m fuel (CUnit u) L VNull (execute vm L) cs body K) as H.
  destruct (exec_c C slot_of native_hint fuel (CUnit u) L VNull (execute vm L) cs body) as [[[vm1 cs1] out] s].
  destruct H as [E K1]. rewrite E.
  destruct s; (split; [reflexivity|]); rewrite ?heap_do_return; try exact K1;
    try (destruct RUN_FAST_UNWINDS_ON_ERROR; rewrite ?heap_with_frames; exact K1).
Qed.

Lemma heap_exports es : forall vm,
  m_heap (fold_left (fun v e => set_name v (fst e) (glookup (gmap v) (snd e))) es vm) = m_heap vm.
Proof. induction es as [|e r IH]; intro vm; [reflexivity|]. cbn [fold_left]. now rewrite IH. Qed.

Definition agrees5 (rc : mstate * cstate * N * list N * list Z * status) (rm : mstate * list N * list Z * status) : Prop :=
  let '(vm', cs', u', l', out, s) := rc in rm = (vm', l', out, s) /\ cache_ok (m_heap vm') cs'.

Lemma load_modules_c_m fuel : forall ms vm cs u ld, cache_ok (m_heap vm) cs ->
  agrees5 (load_modules_c C slot_of native_hint fuel vm cs u ld ms) (load_modules C fuel vm ld ms).
Proof.
  induction ms as [|m r IH]; intros vm cs u ld K. { cbn. split; [reflexivity|exact K]. }
  cbn [load_modules_c load_modules].
  destruct (mu_fails m). { split; [reflexivity|exact K]. }
  set (run := negb (memb (mu_id m) ld)).
  assert (H : agrees (if run then run_unit_c C slot_of native_hint fuel vm cs u (mu_layout m) (mu_body m) else (vm, cs, [], SOk))
                     (if run then run_unit C fuel vm (mu_layout m) (mu_body m) else (vm, [], SOk))).
  { destruct run; [now apply run_unit_c_m|split; [reflexivity|exact K]]. }
  destruct (if run then run_unit_c C slot_of native_hint fuel vm cs u (mu_layout m) (mu_body m) else (vm, cs, [], SOk)) as [[[vm1 cs1] out] s].
  destruct H as [E K1]. rewrite E.
  destruct s; try (split; [reflexivity|exact K1]).
  set (vm2 := if MODULE_SYNCS_BEFORE_EXPORTS && run then sync_loaded vm1 else vm1).
  set (vm3 := fold_left (fun v e => set_name v (fst e) (glookup (gmap v) (snd e))) (mu_exports m) vm2).
  set (cs2 := match mu_exports m with [] => cs1 | _ => clear cs1 end).
  assert (K3 : cache_ok (m_heap vm3) cs2).
  { unfold vm3, cs2. rewrite heap_exports. unfold vm2.
    destruct (MODULE_SYNCS_BEFORE_EXPORTS && run); rewrite ?heap_sync_loaded;
      (destruct (mu_exports m); [exact K1|apply cache_ok_clear]). }
  pose proof (IH vm3 cs2 (N.succ u) (if run then mu_id m :: ld else ld) K3) as H.
  destruct (load_modules_c C slot_of native_hint fuel vm3 cs2 (N.succ u) (if run then mu_id m :: ld else ld) r) as [[[[[vm4 cs3] u'] l4] out2] s2].
  destruct H as [E2 K4]. rewrite E2. split; [reflexivity|exact K4].
Qed.

Definition cd_ok (cd : cdstate) : Prop := cache_ok (m_heap (d_vm (cd_d cd))) (cd_cs cd).

Lemma mstep_c_m fuel cd st : cd_ok cd ->
  let '(cd', out, s) := mstep_c C slot_of native_hint fuel cd st in
  mstep C fuel (cd_d cd) st = (cd_d cd', out, s) /\ cd_ok cd'.
Proof.
  intros K. unfold cd_ok in K. destruct st as [imports compiles L body newmut imported|n nargs arg|n v]; cbn [mstep_c mstep].
  - set (vm0 := if REPL_CLEARS_FRAMES_FIRST then with_frames (d_vm (cd_d cd)) [] else d_vm (cd_d cd)).
    assert (K0 : cache_ok (m_heap vm0) (cd_cs cd)).
    { unfold vm0. destruct REPL_CLEARS_FRAMES_FIRST; rewrite ?heap_with_frames; exact K. }
    pose proof (load_modules_c_m fuel imports vm0 (cd_cs cd) (cd_unit cd) (d_loaded (cd_d cd)) K0) as H.
    destruct (load_modules_c C slot_of native_hint fuel vm0 (cd_cs cd) (cd_unit cd) (d_loaded (cd_d cd)) imports) as [[[[[vm1 cs1] u1] l1] out1] s1].
    destruct H as [E K1]. rewrite E.
    destruct s1; try (split; [reflexivity|exact K1]).
    destruct (negb compiles). { split; [reflexivity|exact K1]. }
    pose proof (run_unit_c_m fuel vm1 cs1 u1 L body K1) as H.
    destruct (run_unit_c C slot_of native_hint fuel vm1 cs1 u1 L body) as [[[vm2 cs2] out2] s2].
    destruct H as [E2 K2]. rewrite E2.
    destruct s2; (split; [reflexivity|]); unfold cd_ok; cbn [cd_d cd_cs d_vm]; try exact K2.
  - destruct (glookup (gmap (d_vm (cd_d cd))) n) as [|z|p]; try (split; [reflexivity|exact K]).
    destruct (lookup p (m_heap (d_vm (cd_d cd)))) as [[fid|tag ar]|]; try (split; [reflexivity|exact K]).
    + destruct (lookup fid C) as [fd|]; try (split; [reflexivity|exact K]).
      destruct (negb (fd_arity fd =? nargs)).
      { split; [reflexivity|]. unfold cd_ok. cbn [cd_d cd_cs d_vm].
        destruct HOST_CALL_CHECKS_ARITY_FIRST; rewrite ?heap_prepare; exact K. }
      set (vm0 := prepare (d_vm (cd_d cd)) (fd_layout fd)).
      set (vm1 := with_frames vm0 (mkFrame (fd_layout fd) true :: frames vm0)).
      assert (K1 : cache_ok (m_heap vm1) (cd_cs cd)).
      { unfold vm1, vm0. now rewrite heap_with_frames, heap_prepare. }
      pose proof (exec_c_m fuel (CFn fid) (fd_layout fd) arg vm1 (cd_cs cd) (fd_body fd) K1) as H.
      destruct (exec_c C slot_of native_hint fuel (CFn fid) (fd_layout fd) arg vm1 (cd_cs cd) (fd_body fd)) as [[[vm2 cs2] out] s].
      destruct H as [E K2]. rewrite E.
      destruct s; (split; [reflexivity|]); unfold cd_ok; cbn [cd_d cd_cs d_vm]; rewrite ?heap_do_return; try exact K2;
        try (destruct RUN_FAST_UNWINDS_ON_ERROR; rewrite ?heap_with_frames; exact K2).
    + destruct (negb (ar =? nargs)); (split; [reflexivity|exact K]).
  - split; [reflexivity|]. unfold cd_ok. cbn [cd_d cd_cs d_vm]. apply cache_ok_clear.
Qed.

Theorem msession_c_m fuel : forall steps cd, cd_ok cd ->
  msession_c C slot_of native_hint fuel cd steps = msession C fuel (cd_d cd) steps.
Proof.
  induction steps as [|st r IH]; intros cd K; [reflexivity|].
  cbn [msession_c msession]. pose proof (mstep_c_m fuel cd st K) as H.
  destruct (mstep_c C slot_of native_hint fuel cd st) as [[cd1 out] s]. destruct H as [E K1].
  rewrite E. f_equal. now apply IH.
Qed.

Lemma cdinit_ok : cd_ok cdinit.
Proof. unfold cd_ok. apply cache_ok_init. Qed.

(* C05 for whole sessions: with the caches, every call of every specified session runs the function the
   callee's NAME denotes in the by-name store at that moment, with that function's arity checked *)
Theorem cached_session_refines fuel steps obs :
  wf_codeb C = true -> forallb wf_step steps = true ->
  xsession C fuel xinit steps = Some obs ->
  msession_c C slot_of native_hint fuel cdinit steps = obs.
Proof.
  intros Hc Hw Hx. rewrite (msession_c_m fuel steps cdinit cdinit_ok).
  exact (session_refines_init C fuel steps obs Hc Hw Hx).
Qed.

End P.

(* ---- non-vacuity: the fast path is taken, slots collide, a rebinding is followed ----
   names: f = 1, h = 2, w = 3, w2 = 4;  code 10: f prints 1, 11: h prints 2, 12: w calls f, 13: w2 calls h.
   Every site has slot 0. *)
Definition cx_code : code :=
  [(10, mkF [] 0 [IOut 1]); (11, mkF [] 0 [IOut 2]);
   (12, mkF [Some 1] 0 [ICall (CGlobal 1) 0 None]); (13, mkF [Some 2] 0 [ICall (CGlobal 2) 0 None])].
Definition cx_L : layout := [Some 1; Some 2; Some 3; Some 4].
Definition cx_session : list step :=
  [ SInput [] true cx_L [IDef 1 10; IDef 2 11; IDef 3 12; IDef 4 13;
                         ICall (CGlobal 3) 0 None; ICall (CGlobal 3) 0 None;   (* w; w: the second takes the fast path in w *)
                         ICall (CGlobal 4) 0 None; ICall (CGlobal 3) 0 None;   (* w2 overwrites slot 0; w must not run h *)
                         ICopy 1 2; ICall (CGlobal 3) 0 None] [] [];           (* f = h; w now runs h *)
    SInput [] true [Some 3; Some 1] [ICall (CGlobal 3) 0 None; ICall (CGlobal 1) 0 None] [] [];   (* a new unit, same slots *)
    SHost 3 0 VNull; SHost 3 1 VNull ].
Definition cx_slot (o : cid) (k : nat) : N := match o with CFn _ => 1 | CUnit _ => 0 end.
Definition cx_hint (o : cid) (k : nat) : bool := false.
Definition cx_final := mfinal_c cx_code cx_slot cx_hint 100 cdinit cx_session.

Lemma cx_facts :
  wf_codeb cx_code = true /\ forallb wf_step cx_session = true /\
  msession_c cx_code cx_slot cx_hint 100 cdinit cx_session =
    [([1; 1; 2; 1; 2], SOk); ([2; 2], SOk); ([2], SOk); ([], SErr)]%Z /\
  xsession cx_code 100 xinit cx_session =
    Some [([1; 1; 2; 1; 2], SOk); ([2; 2], SOk); ([2], SOk); ([], SErr)]%Z /\
  c_hits (cd_cs cx_final) = 3 /\
  site_lookup (CFn 12) 0 (c_sites (cd_cs cx_final)) = Some (Mono 2).
Proof. vm_compute. repeat split; reflexivity. Qed.
