(* What is read back from the constant pool is the word that was stored, bit for bit, and adding a
   constant never changes an earlier one. *)
From Coq Require Import NArith List Arith Lia.
From Aelys Require Import Model.ValuePool.
Import ListNotations.

Lemma pool_find_spec : forall p w i k, pool_find p w i = Some k ->
  i <= k /\ k - i < length p /\ nth (k - i) p 0%N = w.
Proof.
  induction p as [|x q IH]; intros w i k H; cbn [pool_find] in H; [discriminate|].
  destruct (N.eqb_spec x w) as [E|N].
  - injection H as <-. rewrite Nat.sub_diag. cbn. repeat split; [lia|lia|exact E].
  - destruct (IH w (S i) k H) as (L & B & V).
    repeat split; [lia|cbn [length]; lia|].
    replace (k - i) with (S (k - S i)) by lia. exact V.
Qed.

Theorem pool_add_reads_back : forall p w,
  let '(p', i) := pool_add p w in i < length p' /\ nth i p' 0%N = w.
Proof.
  intros p w. unfold pool_add. destruct (pool_find p w 0) as [k|] eqn:E.
  - destruct (pool_find_spec p w 0 k E) as (_ & B & V). rewrite Nat.sub_0_r in B, V. split; assumption.
  - split; [rewrite app_length; cbn; lia|].
    rewrite app_nth2 by lia. rewrite Nat.sub_diag. reflexivity.
Qed.

Theorem pool_add_keeps_earlier : forall p w j, j < length p ->
  nth j (fst (pool_add p w)) 0%N = nth j p 0%N.
Proof.
  intros p w j L. unfold pool_add. destruct (pool_find p w 0); cbn [fst]; [reflexivity|].
  apply app_nth1. exact L.
Qed.

(* a pool in which 0.0 was merged with -0.0 (numeric equality) does not have that property *)
Example merged_zeros_do_not_read_back :
  pool_adds [] [0%N; 9223372036854775808%N] = ([0; 1], [0%N; 9223372036854775808%N]).
Proof. reflexivity. Qed.
