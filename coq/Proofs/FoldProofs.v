(* Soundness of the constant folder's kernel against the definitional evaluator. *)
From Coq Require Import String.
From Aelys Require Import Base.Tactics Model.Lang Model.Eval Extracted.OptConsts Model.Opt.Fold Proofs.EvalProofs.
Local Open Scope Z_scope.

Definition lit_value (e : expr) : option value :=
  match e with
  | EInt n => Some (VInt (wrap48 n))
  | EBool b => Some (VBool b)
  | EStr s => Some (VStr s)
  | ENull => Some VNull
  | _ => None
  end.

Lemma declares_fold s : declares (fold_stmt s) = declares s.
Proof. destruct s; reflexivity. Qed.

Lemma in_vm_range_spec v : in_vm_range v = true -> -140737488355328 <= v < 140737488355328.
Proof. unfold in_vm_range, FOLD_INT_MIN, FOLD_INT_MAX. lia. Qed.

Lemma in_vm_range_wrap v : in_vm_range v = true -> wrap48 v = v.
Proof. intro H. apply wrap48_id, in_vm_range_spec, H. Qed.

(* a is in the signed 48-bit range iff its arithmetic shift by 47 is 0 or -1 *)
Lemma range_shiftr a : -140737488355328 <= a < 140737488355328 <-> (Z.shiftr a 47 = 0 \/ Z.shiftr a 47 = -1).
Proof.
  rewrite Z.shiftr_div_pow2 by lia. change (2 ^ 47) with 140737488355328. lia.
Qed.

Lemma bitop_range (f : Z -> Z -> Z) (a b : Z) :
  (forall x y, Z.shiftr (f x y) 47 = f (Z.shiftr x 47) (Z.shiftr y 47)) ->
  (forall x y, (x = 0 \/ x = -1) -> (y = 0 \/ y = -1) -> (f x y = 0 \/ f x y = -1)) ->
  -140737488355328 <= a < 140737488355328 -> -140737488355328 <= b < 140737488355328 ->
  -140737488355328 <= f a b < 140737488355328.
Proof.
  intros Hs Hc Ha Hb. apply range_shiftr. rewrite Hs.
  apply Hc; apply range_shiftr; assumption.
Qed.

Lemma land_range a b :
  -140737488355328 <= a < 140737488355328 -> -140737488355328 <= b < 140737488355328 ->
  -140737488355328 <= Z.land a b < 140737488355328.
Proof.
  apply (bitop_range Z.land); [intros; apply Z.shiftr_land|].
  intros x y [->| ->] [->| ->]; cbn; auto.
Qed.
Lemma lor_range a b :
  -140737488355328 <= a < 140737488355328 -> -140737488355328 <= b < 140737488355328 ->
  -140737488355328 <= Z.lor a b < 140737488355328.
Proof.
  apply (bitop_range Z.lor); [intros; apply Z.shiftr_lor|].
  intros x y [->| ->] [->| ->]; cbn; auto.
Qed.
Lemma lxor_range a b :
  -140737488355328 <= a < 140737488355328 -> -140737488355328 <= b < 140737488355328 ->
  -140737488355328 <= Z.lxor a b < 140737488355328.
Proof.
  apply (bitop_range Z.lxor); [intros; apply Z.shiftr_lxor|].
  intros x y [->| ->] [->| ->]; cbn; auto.
Qed.

Lemma shiftr_range a s :
  0 <= s -> -140737488355328 <= a < 140737488355328 -> -140737488355328 <= Z.shiftr a s < 140737488355328.
Proof.
  intros Hs Ha. rewrite Z.shiftr_div_pow2 by exact Hs.
  assert (0 < 2 ^ s) by (apply Z.pow_pos_nonneg; lia).
  split.
  - apply Z.div_le_lower_bound; nia.
  - apply Z.div_lt_upper_bound; nia.
Qed.

Lemma shift_count_small b : 0 <= b <= 63 -> shift_count b = b.
Proof.
  intro H. unfold shift_count.
  change 63 with (Z.ones 6). rewrite Z.land_ones by lia. change (2 ^ 6) with 64. lia.
Qed.

Ltac range_of H := apply in_vm_range_spec in H.

Lemma fold_int_binary_sound (op : binop) (a b : Z) (e : expr) :
  fold_int_binary op a b = Some e ->
  exists v, lit_value e = Some v /\ int_binop op a b = ROk v /\ in_vm_range a = true /\ in_vm_range b = true.
Proof.
  unfold fold_int_binary.
  destruct (in_vm_range a) eqn:Ra; [|discriminate].
  destruct (in_vm_range b) eqn:Rb; [|discriminate].
  cbn [andb negb].
  pose proof (in_vm_range_spec a Ra) as Ha. pose proof (in_vm_range_spec b Rb) as Hb.
  destruct op; cbn [int_binop]; intro H.
  - (* Add *) unfold checked in H. destruct (is_i64 (a + b)); [|discriminate].
    destruct (in_vm_range (a + b)) eqn:R; [|discriminate]. injection H as <-.
    eexists; repeat split; cbn [lit_value]; reflexivity.
  - unfold checked in H. destruct (is_i64 (a - b)); [|discriminate].
    destruct (in_vm_range (a - b)) eqn:R; [|discriminate]. injection H as <-.
    eexists; repeat split; cbn [lit_value]; reflexivity.
  - unfold checked in H. destruct (is_i64 (a * b)); [|discriminate].
    destruct (in_vm_range (a * b)) eqn:R; [|discriminate]. injection H as <-.
    eexists; repeat split; cbn [lit_value]; reflexivity.
  - (* Div *) destruct (b =? 0) eqn:Eb; [discriminate|].
    unfold checked in H. destruct (is_i64 (Z.quot a b)); [|discriminate].
    destruct (in_vm_range (Z.quot a b)) eqn:R; [|discriminate]. injection H as <-.
    eexists; repeat split; cbn [lit_value]; reflexivity.
  - destruct (b =? 0) eqn:Eb; [discriminate|].
    unfold checked in H. destruct (is_i64 (Z.rem a b)); [|discriminate].
    destruct (in_vm_range (Z.rem a b)) eqn:R; [|discriminate]. injection H as <-.
    eexists; repeat split; cbn [lit_value]; reflexivity.
  - injection H as <-. eexists; repeat split; reflexivity.
  - injection H as <-. eexists; repeat split; reflexivity.
  - injection H as <-. eexists; repeat split; reflexivity.
  - injection H as <-. eexists; repeat split; reflexivity.
  - injection H as <-. eexists; repeat split; reflexivity.
  - injection H as <-. eexists; repeat split; reflexivity.
  - (* Shl *) destruct ((0 <=? b) && (b <=? 63)) eqn:Eb; [|discriminate].
    destruct (in_vm_range (wrap64 (Z.shiftl a b))) eqn:R; [|discriminate]. injection H as <-.
    rewrite shift_count_small by lia.
    eexists; repeat split; cbn [lit_value]; reflexivity.
  - (* Shr *) destruct ((0 <=? b) && (b <=? 63)) eqn:Eb; [|discriminate]. injection H as <-.
    rewrite shift_count_small by lia.
    eexists; repeat split; cbn [lit_value]; reflexivity.
  - injection H as <-. eexists; repeat split; cbn [lit_value]; reflexivity.
  - injection H as <-. eexists; repeat split; cbn [lit_value]; reflexivity.
  - injection H as <-. eexists; repeat split; cbn [lit_value]; reflexivity.
Qed.

(* the folded literal denotes exactly the value, not merely a value equal after wrapping *)
Lemma fold_int_binary_exact (op : binop) (a b : Z) (n : Z) :
  fold_int_binary op a b = Some (EInt n) -> int_binop op a b = ROk (VInt n).
Proof.
  intro H. destruct (fold_int_binary_sound op a b _ H) as (v & Hl & He & Ra & Rb).
  cbn [lit_value] in Hl. injection Hl as <-. rewrite He. f_equal. f_equal.
  pose proof (in_vm_range_spec a Ra) as Ha. pose proof (in_vm_range_spec b Rb) as Hb.
  unfold fold_int_binary in H. rewrite Ra, Rb in H. cbn [andb negb] in H.
  destruct op; try discriminate; unfold checked in H.
  - destruct (is_i64 (a + b)); [|discriminate]. destruct (in_vm_range (a + b)) eqn:R; [|discriminate].
    injection H as <-. apply in_vm_range_wrap, R.
  - destruct (is_i64 (a - b)); [|discriminate]. destruct (in_vm_range (a - b)) eqn:R; [|discriminate].
    injection H as <-. apply in_vm_range_wrap, R.
  - destruct (is_i64 (a * b)); [|discriminate]. destruct (in_vm_range (a * b)) eqn:R; [|discriminate].
    injection H as <-. apply in_vm_range_wrap, R.
  - destruct (b =? 0); [discriminate|]. destruct (is_i64 (Z.quot a b)); [|discriminate].
    destruct (in_vm_range (Z.quot a b)) eqn:R; [|discriminate]. injection H as <-. apply in_vm_range_wrap, R.
  - destruct (b =? 0); [discriminate|]. destruct (is_i64 (Z.rem a b)); [|discriminate].
    destruct (in_vm_range (Z.rem a b)) eqn:R; [|discriminate]. injection H as <-. apply in_vm_range_wrap, R.
  - destruct ((0 <=? b) && (b <=? 63)); [|discriminate].
    destruct (in_vm_range (wrap64 (Z.shiftl a b))) eqn:R; [|discriminate]. injection H as <-.
    apply in_vm_range_wrap, R.
  - destruct ((0 <=? b) && (b <=? 63)) eqn:Eb; [|discriminate]. injection H as <-.
    apply wrap48_id, shiftr_range; lia.
  - injection H as <-. apply wrap48_id, land_range; assumption.
  - injection H as <-. apply wrap48_id, lor_range; assumption.
  - injection H as <-. apply wrap48_id, lxor_range; assumption.
Qed.

Lemma fold_unary_sound (op : unop) (n : Z) (e : expr) :
  fold_unary_node op (EInt n) = Some e ->
  exists v, lit_value e = Some v /\ eval_unop op (VInt (wrap48 n)) = ROk v.
Proof.
  unfold fold_unary_node. destruct op; try discriminate.
  - destruct (in_vm_range n) eqn:R; [|discriminate]. unfold checked.
    destruct (is_i64 (- n)); [|discriminate]. destruct (in_vm_range (- n)) eqn:R2; [|discriminate].
    intro H; injection H as <-. rewrite (in_vm_range_wrap n R).
    eexists; split; cbn [lit_value eval_unop]; reflexivity.
  - destruct (in_vm_range n) eqn:R; [|discriminate].
    intro H; injection H as <-. rewrite (in_vm_range_wrap n R).
    eexists; split; cbn [lit_value eval_unop]; reflexivity.
Qed.

Lemma fold_bool_comparison_sound (op : binop) (a b : bool) (e : expr) :
  fold_bool_comparison op a b = Some e ->
  exists v, lit_value e = Some v /\ eval_binop op (VBool a) (VBool b) = ROk v.
Proof.
  destruct op; cbn [fold_bool_comparison]; try discriminate; intro H; injection H as <-;
    eexists; split; cbn [lit_value]; try reflexivity; destruct a, b; reflexivity.
Qed.

Lemma fold_string_concat_sound (a b : string) (e : expr) :
  fold_string_concat a b = Some e ->
  exists v, lit_value e = Some v /\ eval_binop BAdd (VStr a) (VStr b) = ROk v.
Proof.
  unfold fold_string_concat. destruct (_ <=? _); [|discriminate].
  intro H; injection H as <-. eexists; split; reflexivity.
Qed.

(* the folder refuses exactly where folding would be wrong or lossy *)
Lemma fold_refuses_out_of_range (op : binop) (a b : Z) :
  in_vm_range a = false \/ in_vm_range b = false -> fold_int_binary op a b = None.
Proof.
  intros [H|H]; unfold fold_int_binary; rewrite H; [|rewrite andb_false_r]; reflexivity.
Qed.

Lemma fold_refuses_div_zero (a : Z) : fold_int_binary BDiv a 0 = None /\ fold_int_binary BMod a 0 = None.
Proof.
  unfold fold_int_binary. destruct (negb (in_vm_range a && in_vm_range 0)); split; reflexivity.
Qed.
