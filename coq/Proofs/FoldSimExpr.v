(* Expression half of the fold simulation (see Proofs/FoldSim.v). *)
From Coq Require Import String.
From Aelys Require Import Base.Tactics Model.Lang Model.Eval Extracted.OptConsts Model.Opt.Fold
  Model.PureEval Proofs.EvalProofs Proofs.FoldProofs Proofs.PureProofs Proofs.EvalMono
  Proofs.FoldEvalProofs Proofs.ValueMap Proofs.FoldSim.
Local Open Scope Z_scope.

(* ------------------------------------------------------------------ expressions *)
Lemma Tv_lit_inv e va v : lit_value e = Some va -> T v = va -> v = va.
Proof. destruct e; cbn [lit_value]; intro L; try discriminate; injection L as <-; destruct v; cbn [Tv]; congruence. Qed.
Lemma Tv_lit e va : lit_value e = Some va -> T va = va.
Proof. destruct e; cbn [lit_value]; intro L; try discriminate; injection L as <-; reflexivity. Qed.

(* when an operand folds to a literal, the original evaluated it to that literal's value and
   changed nothing the folded program can see *)
Lemma lit_eval_inv' f (IH : fsim f) d env st a st1 r1 va :
  eval_expr f d env st a = (st1, r1) -> good r1 ->
  lit_value (fold_expr a) = Some va -> TS st1 = TS st /\ r1 = ROk va.
Proof.
  intros E N L.
  pose proof (fs_expr _ IH _ _ _ _ _ _ E N) as P.
  destruct f as [|f0]; [cbn in E; inversion E; subst; exfalso; apply (proj1 N); reflexivity|].
  rewrite (lit_eval _ _ L) in P.
  pose proof (f_equal fst P) as P1. pose proof (f_equal snd P) as P2. cbn [fst snd] in P1, P2.
  split; [symmetry; exact P1|].
  destruct r1 as [v| |]; cbn [Tr] in P2; try discriminate.
  injection P2 as P2. f_equal. eapply Tv_lit_inv; eauto.
Qed.

Definition is_member (e : expr) : bool := match e with EMember _ _ => true | _ => false end.

Lemma good_dec (k : errkind) : {k = EUnsupported} + {k <> EUnsupported}.
Proof. destruct k; first [left; reflexivity | right; discriminate]. Qed.

(* an expression that folds to a bare member access cannot be evaluated inside the fragment *)
Lemma fold_member_bad : forall e o mm, fold_expr e = EMember o mm ->
  forall f, (forall k, (k <= f)%nat -> fsim k) ->
  forall d env st s1 (r1 : res value), eval_expr f d env st e = (s1, r1) -> ~ good r1.
Proof.
  induction e; intros o mm F f IHs d env st s1 r1 E; cbn [fold_expr] in F; try discriminate.
  - destruct (fold_binary_node op (fold_expr e1) (fold_expr e2)) eqn:FB0; [|discriminate].
    apply fold_binary_node_lit in FB0. subst e. discriminate.
  - destruct (fold_unary_node op (fold_expr e)) eqn:FU; [|discriminate].
    apply fold_unary_node_lit in FU. subst e0. discriminate.
  - destruct (fold_and_node_cases (fold_expr e1) (fold_expr e2)) as [F0|[[EL F0]|[EL F0]]]; rewrite F0 in F; try discriminate.
    destruct f as [|f0]; [cbn in E; inversion E; subst; intros [G _]; apply G; reflexivity|].
    assert (L1 : lit_value (fold_expr e1) = Some (VBool true)) by (rewrite EL; reflexivity).
    rewrite eval_expr_S in E. cbn beta iota zeta in E.
    destruct (eval_expr f0 d env st e1) as [s2 r2] eqn:E1. destruct r2 as [va|k|].
    + destruct (lit_eval_inv' f0 (IHs f0 (Nat.le_succ_diag_r f0)) _ _ _ _ _ _ _ E1 (good_ok _) L1) as [_ Ea]. injection Ea as ->.
      cbn [truthy] in E. cbn beta iota zeta in E.
      eapply (IHe2 o mm F f0); [|exact E]. intros k Hk. apply IHs. lia.
    + inversion E; subst. destruct (good_dec k) as [->|NK]; [intros [_ G]; apply G; reflexivity|].
      assert (G : good (@RErr value k)) by (split; [discriminate | intro X; inversion X; contradiction]).
      destruct (lit_eval_inv' f0 (IHs f0 (Nat.le_succ_diag_r f0)) _ _ _ _ _ _ _ E1 G L1) as [_ Ea]. discriminate.
    + inversion E; subst. intros [G _]; apply G; reflexivity.
  - destruct (fold_or_node_cases (fold_expr e1) (fold_expr e2)) as [F0|[[EL F0]|[EL F0]]]; rewrite F0 in F; try discriminate.
    destruct f as [|f0]; [cbn in E; inversion E; subst; intros [G _]; apply G; reflexivity|].
    assert (L1 : lit_value (fold_expr e1) = Some (VBool false)) by (rewrite EL; reflexivity).
    rewrite eval_expr_S in E. cbn beta iota zeta in E.
    destruct (eval_expr f0 d env st e1) as [s2 r2] eqn:E1. destruct r2 as [va|k|].
    + destruct (lit_eval_inv' f0 (IHs f0 (Nat.le_succ_diag_r f0)) _ _ _ _ _ _ _ E1 (good_ok _) L1) as [_ Ea]. injection Ea as ->.
      cbn [truthy] in E. cbn beta iota zeta in E.
      eapply (IHe2 o mm F f0); [|exact E]. intros k Hk. apply IHs. lia.
    + inversion E; subst. destruct (good_dec k) as [->|NK]; [intros [_ G]; apply G; reflexivity|].
      assert (G : good (@RErr value k)) by (split; [discriminate | intro X; inversion X; contradiction]).
      destruct (lit_eval_inv' f0 (IHs f0 (Nat.le_succ_diag_r f0)) _ _ _ _ _ _ _ E1 G L1) as [_ Ea]. discriminate.
    + inversion E; subst. intros [G _]; apply G; reflexivity.
  - (* EMember itself *)
    destruct f as [|f0]; cbn in E; inversion E; subst; intros [G1 G2]; [apply G1 | apply G2]; reflexivity.
Qed.

Lemma good_Tr_nf (r : res value) : good r -> nf (Tr FB r).
Proof. intros [G _]. destruct r; cbn; unfold nf; congruence. Qed.

Lemma TS_eq_eval f d env st st0 e : TS st = TS st0 ->
  eval_expr f d env (TS st) e = eval_expr f d env (TS st0) e.
Proof. intros ->. reflexivity. Qed.

Lemma fs_expr_S f (IHs : forall k, (k <= f)%nat -> fsim k) : forall d env st e st' r,
  eval_expr (S f) d env st e = (st', r) -> good r ->
  eval_expr (S f) d env (TS st) (fold_expr e) = (TS st', Tr FB r).
Proof.
  pose proof (IHs f (le_n f)) as IH.
  intros d env st e st' r H N.
  destruct e; cbn [fold_expr].
  1-6: rewrite eval_expr_S in H; rewrite eval_expr_S; cbn beta iota zeta in H |- *; ggo IH H N.
  - (* EBin *)
    destruct (fold_binary_node op (fold_expr e1) (fold_expr e2)) as [lit|] eqn:F.
    + destruct (fold_binary_node_values _ _ _ _ F) as (vl & vr & v & L1 & L2 & L3 & EV).
      rewrite eval_expr_S in H. cbn beta iota zeta in H.
      destruct (eval_expr f d env st e1) as [s1 r1] eqn:E1. destruct r1 as [va|k|].
      * destruct (lit_eval_inv' f IH _ _ _ _ _ _ _ E1 (good_ok _) L1) as [S1 Ea]. injection Ea as ->.
        cbn beta iota zeta in H.
        destruct (eval_expr f d env s1 e2) as [s2 r2] eqn:E2. destruct r2 as [vb|k|].
        -- destruct (lit_eval_inv' f IH _ _ _ _ _ _ _ E2 (good_ok _) L2) as [S2 Eb]. injection Eb as ->.
           cbn beta iota zeta in H. rewrite EV in H. inversion H; subst.
           rewrite (lit_eval _ _ L3). cbn [Tr]. rewrite (Tv_lit _ _ L3), S2, S1. reflexivity.
        -- inversion H; subst.
           destruct (lit_eval_inv' f IH _ _ _ _ _ _ _ E2 N L2) as [_ Eb]. discriminate.
        -- inversion H; subst. exfalso; apply (proj1 N); reflexivity.
      * inversion H; subst.
        destruct (lit_eval_inv' f IH _ _ _ _ _ _ _ E1 N L1) as [_ Ea]. discriminate.
      * inversion H; subst. exfalso; apply (proj1 N); reflexivity.
    + rewrite eval_expr_S in H; rewrite eval_expr_S; cbn beta iota zeta in H |- *; ggo IH H N.
  - (* EUn *)
    destruct (fold_unary_node op (fold_expr e)) as [lit|] eqn:F.
    + destruct (fold_unary_node_values _ _ _ F) as (va & v & L1 & L3 & EV).
      rewrite eval_expr_S in H. cbn beta iota zeta in H.
      destruct (eval_expr f d env st e) as [s1 r1] eqn:E1. destruct r1 as [va'|k|].
      * destruct (lit_eval_inv' f IH _ _ _ _ _ _ _ E1 (good_ok _) L1) as [S1 Ea]. injection Ea as ->.
        cbn beta iota zeta in H. rewrite EV in H. inversion H; subst.
        rewrite (lit_eval _ _ L3). cbn [Tr]. rewrite (Tv_lit _ _ L3), S1. reflexivity.
      * inversion H; subst.
        destruct (lit_eval_inv' f IH _ _ _ _ _ _ _ E1 N L1) as [_ Ea]. discriminate.
      * inversion H; subst. exfalso; apply (proj1 N); reflexivity.
    + rewrite eval_expr_S in H; rewrite eval_expr_S; cbn beta iota zeta in H |- *; ggo IH H N.
  - (* EAnd *)
    destruct (fold_and_node_cases (fold_expr e1) (fold_expr e2)) as [F|[[EL F]|[EL F]]]; rewrite F.
    + rewrite eval_expr_S in H; rewrite eval_expr_S; cbn beta iota zeta in H |- *; ggo IH H N.
    + (* false and X = false *)
      assert (L1 : lit_value (fold_expr e1) = Some (VBool false)) by (rewrite EL; reflexivity).
      rewrite eval_expr_S in H. cbn beta iota zeta in H.
      destruct (eval_expr f d env st e1) as [s1 r1] eqn:E1. destruct r1 as [va|k|].
      * destruct (lit_eval_inv' f IH _ _ _ _ _ _ _ E1 (good_ok _) L1) as [S1 Ea]. injection Ea as ->.
        cbn [truthy] in H. cbn beta iota zeta in H. inversion H; subst.
        rewrite eval_expr_S. cbn [Tr Tv]. rewrite S1. reflexivity.
      * inversion H; subst. destruct (lit_eval_inv' f IH _ _ _ _ _ _ _ E1 N L1) as [_ Ea]. discriminate.
      * inversion H; subst. exfalso; apply (proj1 N); reflexivity.
    + (* true and X = X : the folded operand runs with one more unit of fuel *)
      assert (L1 : lit_value (fold_expr e1) = Some (VBool true)) by (rewrite EL; reflexivity).
      rewrite eval_expr_S in H. cbn beta iota zeta in H.
      destruct (eval_expr f d env st e1) as [s1 r1] eqn:E1. destruct r1 as [va|k|].
      * destruct (lit_eval_inv' f IH _ _ _ _ _ _ _ E1 (good_ok _) L1) as [S1 Ea]. injection Ea as ->.
        cbn [truthy] in H. cbn beta iota zeta in H.
        apply (m_expr _ (mono_all f)); [|apply good_Tr_nf; exact N].
        rewrite <- S1. apply (fs_expr _ IH); assumption.
      * inversion H; subst. destruct (lit_eval_inv' f IH _ _ _ _ _ _ _ E1 N L1) as [_ Ea]. discriminate.
      * inversion H; subst. exfalso; apply (proj1 N); reflexivity.
  - (* EOr *)
    destruct (fold_or_node_cases (fold_expr e1) (fold_expr e2)) as [F|[[EL F]|[EL F]]]; rewrite F.
    + rewrite eval_expr_S in H; rewrite eval_expr_S; cbn beta iota zeta in H |- *; ggo IH H N.
    + assert (L1 : lit_value (fold_expr e1) = Some (VBool true)) by (rewrite EL; reflexivity).
      rewrite eval_expr_S in H. cbn beta iota zeta in H.
      destruct (eval_expr f d env st e1) as [s1 r1] eqn:E1. destruct r1 as [va|k|].
      * destruct (lit_eval_inv' f IH _ _ _ _ _ _ _ E1 (good_ok _) L1) as [S1 Ea]. injection Ea as ->.
        cbn [truthy] in H. cbn beta iota zeta in H. inversion H; subst.
        rewrite eval_expr_S. cbn [Tr Tv]. rewrite S1. reflexivity.
      * inversion H; subst. destruct (lit_eval_inv' f IH _ _ _ _ _ _ _ E1 N L1) as [_ Ea]. discriminate.
      * inversion H; subst. exfalso; apply (proj1 N); reflexivity.
    + assert (L1 : lit_value (fold_expr e1) = Some (VBool false)) by (rewrite EL; reflexivity).
      rewrite eval_expr_S in H. cbn beta iota zeta in H.
      destruct (eval_expr f d env st e1) as [s1 r1] eqn:E1. destruct r1 as [va|k|].
      * destruct (lit_eval_inv' f IH _ _ _ _ _ _ _ E1 (good_ok _) L1) as [S1 Ea]. injection Ea as ->.
        cbn [truthy] in H. cbn beta iota zeta in H.
        apply (m_expr _ (mono_all f)); [|apply good_Tr_nf; exact N].
        rewrite <- S1. apply (fs_expr _ IH); assumption.
      * inversion H; subst. destruct (lit_eval_inv' f IH _ _ _ _ _ _ _ E1 N L1) as [_ Ea]. discriminate.
      * inversion H; subst. exfalso; apply (proj1 N); reflexivity.
  - (* ECall *)
    destruct (is_member e) eqn:IsM.
    + destruct e; try discriminate. cbn [fold_expr] in *.
      rewrite eval_expr_S in H; rewrite eval_expr_S; cbn beta iota zeta in H |- *. ggo IH H N.
    + assert (NM : forall o m, e <> EMember o m) by (intros o m ->; discriminate).
      rewrite (eval_call_general _ _ _ _ _ _ NM) in H.
      destruct (is_member (fold_expr e)) eqn:IsM'.
      * (* the callee folds to a bare member access: the original left the fragment *)
        destruct (fold_expr e) eqn:FE; try discriminate.
        destruct (eval_expr f d env st e) as [s1 r1] eqn:E1.
        exfalso. apply (fold_member_bad e _ _ FE f IHs _ _ _ _ _ E1).
        destruct r1; [apply good_ok | inversion H; subst; exact N | inversion H; subst; exact N].
      * assert (NM' : forall o m, fold_expr e <> EMember o m) by (intros o m Eq; rewrite Eq in IsM'; discriminate).
        rewrite (eval_call_general _ _ _ _ _ _ NM').
        cbn beta iota zeta in H |- *. ggo IH H N.
  - (* EAssign *) rewrite eval_expr_S in H; rewrite eval_expr_S; cbn beta iota zeta in H |- *; ggo IH H N.
  - (* EIf *) rewrite eval_expr_S in H; rewrite eval_expr_S; cbn beta iota zeta in H |- *; ggo IH H N.
  - (* EFmt *)
    rewrite eval_expr_S in H; rewrite eval_expr_S; cbn beta iota zeta in H |- *.
    change (eval_fmt f d env (TS st) (map _ parts)) with (eval_fmt f d env (TS st) (map fold_part parts)).
    ggo IH H N.
  - (* ELam *) rewrite eval_expr_S in H; rewrite eval_expr_S; cbn beta iota zeta in H |- *.
    inversion H; subst. reflexivity.
  - (* EMember *) rewrite eval_expr_S in H; rewrite eval_expr_S; cbn beta iota zeta in H |- *; ggo IH H N.
  - (* EArr *) rewrite eval_expr_S in H; rewrite eval_expr_S; cbn beta iota zeta in H |- *; ggo IH H N.
  - (* EVec *) rewrite eval_expr_S in H; rewrite eval_expr_S; cbn beta iota zeta in H |- *; ggo IH H N.
  - (* EArrSized *) rewrite eval_expr_S in H; rewrite eval_expr_S; cbn beta iota zeta in H |- *; ggo IH H N.
  - (* EIdx *) rewrite eval_expr_S in H; rewrite eval_expr_S; cbn beta iota zeta in H |- *; ggo IH H N.
  - (* EIdxSet *) rewrite eval_expr_S in H; rewrite eval_expr_S; cbn beta iota zeta in H |- *; ggo IH H N.
  - (* EOther *) rewrite eval_expr_S in H; rewrite eval_expr_S; cbn beta iota zeta in H |- *; ggo IH H N.
Qed.

Lemma fsim_S f : (forall k, (k <= f)%nat -> fsim k) -> fsim (S f).
Proof.
  intro IHs. pose proof (IHs f (le_n f)) as IH. constructor.
  - apply fs_expr_S; exact IHs.
  - apply fs_args_S; exact IH.
  - apply fs_fmt_S; exact IH.
  - apply fs_app_S; exact IH.
  - apply fs_stmt_S; exact IH.
  - apply fs_stmts_S; exact IH.
  - apply fs_branch_S; exact IH.
  - apply fs_while_S; exact IH.
  - apply fs_for_S; exact IH.
  - apply fs_foreach_S; exact IH.
Qed.

Lemma fsim_le : forall f k, (k <= f)%nat -> fsim k.
Proof.
  induction f as [|f IHf]; intros k Hk.
  - assert (k = O) by lia. subst. exact fsim_O.
  - destruct (Nat.eq_dec k (S f)) as [->|Hne]; [apply fsim_S; exact IHf | apply IHf; lia].
Qed.

Theorem fsim_all : forall f, fsim f.
Proof. intro f. apply (fsim_le f f). apply le_n. Qed.

Lemma TS_empty : TS empty_state = empty_state.
Proof. reflexivity. Qed.

(* whole programs, closures and all: same outcome class, same output, same printed final value *)
Theorem fold_program_preserves_all (fuel : nat) (p : program) :
  oc_class (run_program fuel p) <> OcFuel ->
  oc_class (run_program fuel p) <> OcErr EUnsupported ->
  run_program fuel (fold_program p) = run_program fuel p.
Proof.
  intros NFuel NUns. unfold run_program, fold_program in *.
  destruct (exec_stmts fuel 0 true 2 [] empty_state p) as [st' r] eqn:E.
  assert (N : good r).
  { split; intro Hr; subst r; [apply NFuel | apply NUns]; reflexivity. }
  pose proof (fs_stmts _ (fsim_all fuel) _ _ _ _ _ _ _ _ E N) as P.
  rewrite TS_empty in P. rewrite P.
  destruct r as [c|k|]; cbn [Trc]; [|reflexivity|reflexivity].
  destruct c; cbn [Tc]; rewrite ?to_str_T; reflexivity.
Qed.
