(* C17 -- UNBOUNDED proof that every branch of every function produced by the CFG-construction
   model targets an existing block of that function.  Invariant: alias list well formed (chains
   only go forward), alias sources are dead ids, every raw target and every watched id resolves to
   a block id / the pending id / an id still owed by an enclosing construct; at the end of a
   function nothing is owed and finalize materialises the pending id. *)
From Aelys Require Import Base.Tactics Extracted.LowerFlags Model.AirLower Proofs.AirLowerProofs.
Local Open Scope N_scope.

(* dangling targets of one function *)
Definition dangling (bl : list block) : list N :=
  filter (fun t => negb (memN t (map fst bl))) (flat_map (fun b => targets (snd b)) bl).

Lemma no_dangling_targets_exist bl : dangling bl = [] -> targets_exist bl = true.
Proof.
  intro H. unfold targets_exist. apply forallb_forall. intros b Hb.
  apply forallb_forall. intros t Ht.
  destruct (memN t (map fst bl)) eqn:E; [reflexivity|exfalso].
  assert (Hin : In t (dangling bl)).
  { unfold dangling. apply filter_In. split.
    - apply in_flat_map. exists b. split; assumption.
    - rewrite E. reflexivity. }
  rewrite H in Hin. contradiction.
Qed.

(* ---- alias chains *)
Fixpoint wf_al (al : list (N * N)) : Prop :=
  match al with
  | [] => True
  | (f, t) :: r => f <> t /\ ~ In f (map snd r) /\ wf_al r
  end.

Fixpoint chain_end (al : list (N * N)) (cur : N) : N :=
  match al with
  | [] => cur
  | (f, t) :: r => if f =? cur then chain_end r t else chain_end r cur
  end.

Lemma resolve_skip f t r : forall k cur, f <> cur -> ~ In f (map snd r) ->
  resolve_n k ((f, t) :: r) cur = resolve_n k r cur.
Proof.
  induction k as [|k IH]; intros cur Hne Hn; [reflexivity|].
  cbn [resolve_n find fst]. destruct (f =? cur) eqn:E; [apply N.eqb_eq in E; congruence|].
  destruct (find (fun p => fst p =? cur) r) as [[f' t']|] eqn:Ef; [|reflexivity].
  apply IH; [|exact Hn]. intro Heq. apply Hn. apply find_some in Ef. destruct Ef as [Hin _].
  subst. apply (in_map snd) in Hin. exact Hin.
Qed.

Lemma resolve_chain al : wf_al al -> forall fuel cur, (length al <= fuel)%nat ->
  resolve_n fuel al cur = chain_end al cur.
Proof.
  induction al as [|[f t] r IH]; intros Hw fuel cur Hl.
  - destruct fuel; reflexivity.
  - destruct Hw as (Hft & Hn & Hw). destruct fuel as [|k]; [cbn in Hl; lia|].
    cbn [chain_end]. destruct (f =? cur) eqn:E.
    + apply N.eqb_eq in E. subst cur. cbn [resolve_n find fst]. rewrite N.eqb_refl.
      rewrite resolve_skip; [|congruence|exact Hn]. apply IH; [exact Hw|cbn in Hl; lia].
    + apply N.eqb_neq in E. rewrite resolve_skip; [|exact E|exact Hn].
      apply IH; [exact Hw|cbn in Hl; lia].
Qed.

Lemma resolve_is_chain al t : wf_al al -> resolve al t = chain_end al t.
Proof. intro H. unfold resolve. apply resolve_chain; [exact H|lia]. Qed.

Lemma chain_end_snoc al old o : forall cur,
  chain_end (al ++ [(old, o)]) cur = if old =? chain_end al cur then o else chain_end al cur.
Proof.
  induction al as [|[f t] r IH]; intro cur; cbn [app chain_end].
  - reflexivity.
  - destruct (f =? cur); apply IH.
Qed.

Lemma chain_end_notfrom al : forall cur, ~ In cur (map fst al) -> chain_end al cur = cur.
Proof.
  induction al as [|[f t] r IH]; intros cur Hn; cbn [chain_end]; [reflexivity|].
  cbn in Hn. destruct (f =? cur) eqn:E; [apply N.eqb_eq in E; tauto|]. apply IH. tauto.
Qed.

Lemma wf_al_snoc al old o : wf_al al -> old <> o -> ~ In o (map fst al) -> wf_al (al ++ [(old, o)]).
Proof.
  induction al as [|[f t] r IH]; intros Hw Hne Hn; cbn [app wf_al].
  - cbn. tauto.
  - destruct Hw as (A & B & C). cbn in Hn. split; [exact A|split].
    + rewrite map_app. cbn. intro H. apply in_app_or in H as [H|[H|[]]]; [tauto|]. subst. tauto.
    + apply IH; tauto.
Qed.

(* ---- the invariant on targets *)
Definition froms (s : st) : list N := map fst (aliases s).
Definition rawT (s : st) : list N := flat_map (fun b => targets (snd b)) (blocks s).
Definition CE (s : st) (t : N) : N := chain_end (aliases s) t.
Definition good (O : list N) (s : st) (x : N) : Prop :=
  In x (ids s) \/ pending s = Some x \/ In x O.

(* O: owed ids (allocated, to be placed by an enclosing construct); W: watched ids (must keep
   resolving to something that exists or is lost); d: number of loop-stack entries of this function *)
Record T (O W : list N) (d : nat) (s : st) : Prop := mkT {
  t_wf : wf_al (aliases s);
  t_from : forall f, In f (froms s) -> f < next s /\ ~ In f (ids s) /\ pending s <> Some f;
  t_raw : forall t, In t (rawT s) -> good O s (CE s t);
  t_watch : forall w, In w W -> good O s (CE s w);
  t_loop : forall h e, In (h, e) (firstn d (loops s)) -> In h W /\ In e W;
  t_owed : forall o, In o O -> avail s o /\ ~ In o (froms s);
  t_depth : d = length (loops s) }.

Definition lost_ok (f : fn_out) : Prop := dangling (f_blocks f) = [].
Definition OutOK2 (s : st) : Prop := Forall lost_ok (out s).
Definition Inv (O W : list N) (d : nat) (s : st) : Prop := U s /\ OutOK s /\ OutOK2 s /\ T O W d s.

Lemma inv_T O W d s : Inv O W d s -> T O W d s. Proof. intros (_ & _ & _ & H). exact H. Qed.

Lemma good_owed O W d s o : T O W d s -> In o O -> good O s (CE s o).
Proof.
  intros HT Ho. unfold CE. rewrite chain_end_notfrom; [|apply (t_owed _ _ _ _ HT o Ho)].
  right; right. exact Ho.
Qed.

Lemma good_id O W d s x : T O W d s -> In x (ids s) -> good O s (CE s x).
Proof.
  intros HT Hx. unfold CE. rewrite chain_end_notfrom.
  - left. exact Hx.
  - intro Hf. apply (t_from _ _ _ _ HT) in Hf. tauto.
Qed.

(* states that differ only in dirty / names *)
Lemma same_inv O W d s s' : Inv O W d s ->
  blocks s' = blocks s -> next s' = next s -> pending s' = pending s -> out s' = out s ->
  aliases s' = aliases s -> loops s' = loops s -> Inv O W d s'.
Proof.
  intros (Hu & Ho & Ho2 & HT) Eb En Ep Eo Ea El.
  destruct (same_step s s' Hu Ho Eb En Ep Eo) as (Hu' & Ho' & _ & _).
  split; [exact Hu'|split; [exact Ho'|split]].
  - unfold OutOK2. rewrite Eo. exact Ho2.
  - destruct HT as [A B C D D2 E F]. unfold froms, rawT, CE, good, avail, ids in *.
    constructor; unfold froms, rawT, CE, good, avail, ids; rewrite ?Eb, ?En, ?Ep, ?Ea, ?El; assumption.
Qed.

Lemma emit_inv O W d s : Inv O W d s -> Inv O W d (emit s).
Proof. intro H. eapply same_inv; [exact H|..]; reflexivity. Qed.
Lemma add_name_inv x O W d s : Inv O W d s -> Inv O W d (add_name x s).
Proof. intro H. eapply same_inv; [exact H|..]; reflexivity. Qed.

Lemma scope_block_inv n O W d s : Inv O W d s -> Inv O W d (scope_block n s) /\ loops (scope_block n s) = loops s.
Proof.
  intro H. unfold scope_block. destruct BLOCK_SCOPES_NAMES; [|split; [exact H|reflexivity]].
  split; [eapply same_inv; [exact H|..]; reflexivity|reflexivity].
Qed.
Lemma scope_loop_inv n O W d s : Inv O W d s -> Inv O W d (scope_loop n s) /\ loops (scope_loop n s) = loops s.
Proof.
  intro H. unfold scope_loop. destruct LOOP_SCOPES_NAMES; [|split; [exact H|reflexivity]].
  split; [eapply same_inv; [exact H|..]; reflexivity|reflexivity].
Qed.

Lemma alloc_inv_drop O W d s : Inv O W d s ->
  Inv O W d (snd (alloc s)) /\ avail (snd (alloc s)) (next s) /\ ~ In (next s) (froms (snd (alloc s))).
Proof.
  intros (Hu & Ho & Ho2 & HT).
  destruct (alloc_step s Hu Ho) as ((Hu' & Ho' & _ & St) & E1 & E2 & Av).
  destruct HT as [A B C D D2 E F]. unfold alloc in *; cbn [fst snd] in *.
  split; [|split; [exact Av|]].
  - split; [exact Hu'|split; [exact Ho'|split; [exact Ho2|]]].
    constructor; unfold froms, rawT, CE, good, ids in *; cbn.
    + exact A.
    + intros f Hf. destruct (B f Hf) as (B1 & B2 & B3). split; [lia|split; assumption].
    + exact C.
    + exact D.
    + exact D2.
    + intros o Hin. destruct (E o Hin) as [E1' E2']. split; [|exact E2'].
      apply St; [apply E1'|exact E1'].
    + exact F.
  - unfold froms; cbn. intro Hf. apply B in Hf. lia.
Qed.

Lemma good_mono O O' s x : (forall y, In y O -> In y O') -> good O s x -> good O' s x.
Proof. intros Hs [H|[H|H]]; unfold good; auto. Qed.

Lemma inv_add O W d s v : Inv O W d s -> avail s v -> ~ In v (froms s) -> Inv (v :: O) W d s.
Proof.
  intros (Hu & Ho & Ho2 & HT) Av Nf.
  split; [exact Hu|split; [exact Ho|split; [exact Ho2|]]].
  destruct HT as [A B C D D2 E F].
  assert (G : forall x, good O s x -> good (v :: O) s x).
  { intro x. apply good_mono. intros y Hy. right. exact Hy. }
  constructor; try assumption.
  - intros t Ht. apply G. apply C. exact Ht.
  - intros w Hw. apply G. apply D. exact Hw.
  - intros o [<-|Hin]; [split; assumption|apply E; exact Hin].
Qed.

Lemma alloc_inv_keep O W d s : Inv O W d s -> Inv (next s :: O) W d (snd (alloc s)).
Proof.
  intro H. destruct (alloc_inv_drop O W d s H) as (A & B & C). apply inv_add; assumption.
Qed.

Lemma inv_watch O W d s w : Inv O W d s -> good O s (CE s w) -> Inv O (w :: W) d s.
Proof.
  intros (Hu & Ho & Ho2 & [A B C D D2 E F]) Hg.
  split; [exact Hu|split; [exact Ho|split; [exact Ho2|]]].
  constructor; try assumption.
  - intros w' [<-|Hw]; [exact Hg|apply D; exact Hw].
  - intros h e Hh. destruct (D2 h e Hh). split; right; assumption.
Qed.

Lemma inv_unwatch O W W' d s : Inv O W' d s -> (forall w, In w W -> In w W') ->
  (forall h e, In (h, e) (firstn d (loops s)) -> In h W /\ In e W) -> Inv O W d s.
Proof.
  intros (Hu & Ho & Ho2 & [A B C D D2 E F]) Hs Hl.
  split; [exact Hu|split; [exact Ho|split; [exact Ho2|]]].
  constructor; try assumption. intros w Hw. apply D. apply Hs. exact Hw.
Qed.

Lemma good_seal O tm s x : U s -> good O s x -> good O (seal tm s) x.
Proof.
  intros Hu Hg. unfold good, seal, ids in *. destruct (pending s) as [p|] eqn:Ep; cbn.
  - destruct Hg as [H|[H|H]]; try tauto; try (inversion H; subst; tauto).
  - destruct Hg as [H|[H|H]]; try tauto; try discriminate.
Qed.

Lemma seal_aliases tm s : aliases (seal tm s) = aliases s /\ loops (seal tm s) = loops s
  /\ out (seal tm s) = out s.
Proof. unfold seal. destruct (pending s); cbn; repeat split; reflexivity. Qed.

Lemma seal_inv O W d tm s : Inv O W d s -> (forall t, In t (targets tm) -> good O s (CE s t)) ->
  Inv O W d (seal tm s).
Proof.
  intros (Hu & Ho & Ho2 & HT) Htm.
  destruct (seal_step tm s Hu Ho) as (Hu' & Ho' & Ln & St).
  destruct (seal_aliases tm s) as (Ea & El & Eo).
  split; [exact Hu'|split; [exact Ho'|split]].
  - unfold OutOK2. rewrite Eo. exact Ho2.
  - destruct HT as [A B C D D2 E F].
    constructor; unfold froms, CE in *; rewrite ?Ea, ?El.
    + exact A.
    + intros f Hf. destruct (B f Hf) as (B1 & B2 & B3). split; [lia|].
      unfold seal, ids in *. destruct (pending s) as [p|] eqn:Ep; cbn; split; try discriminate.
      * intros [<-|H]; [apply B3; reflexivity|tauto].
      * intros [<-|H]; [lia|tauto].
    + intros t Ht. unfold rawT in Ht.
      assert (Hb : blocks (seal tm s) = (match pending s with Some p => p | None => next s end, tm) :: blocks s).
      { unfold seal. destruct (pending s); reflexivity. }
      rewrite Hb in Ht. cbn [flat_map snd] in Ht. apply in_app_or in Ht as [Ht|Ht].
      * apply good_seal; [exact Hu|apply Htm; exact Ht].
      * apply good_seal; [exact Hu|apply C; exact Ht].
    + intros w Hw. apply good_seal; [exact Hu|apply D; exact Hw].
    + exact D2.
    + intros o Hin. destruct (E o Hin) as [E1 E2]. split; [|exact E2]. apply St; [apply E1|exact E1].
    + exact F.
Qed.

Lemma seal_nonempty tm s : blocks (seal tm s) <> [].
Proof. unfold seal. destruct (pending s); cbn; discriminate. Qed.

Lemma seal_unless_nonempty tm s : blocks (seal_unless_terminated tm s) <> [].
Proof.
  unfold seal_unless_terminated. destruct (terminated s) eqn:E; [|apply seal_nonempty].
  unfold terminated in E. destruct (blocks s); [|discriminate].
  rewrite andb_false_r in E. discriminate.
Qed.

Lemma seal_unless_inv O W d tm s : Inv O W d s -> (forall t, In t (targets tm) -> good O s (CE s t)) ->
  Inv O W d (seal_unless_terminated tm s).
Proof.
  intros H Ht. unfold seal_unless_terminated. destruct (terminated s); [exact H|apply seal_inv; assumption].
Qed.

Fixpoint rm (o : N) (l : list N) : list N :=
  match l with [] => [] | x :: r => if x =? o then rm o r else x :: rm o r end.
Lemma rm_In o l x : In x (rm o l) <-> In x l /\ x <> o.
Proof.
  induction l as [|y r IH]; cbn; [tauto|]. destruct (y =? o) eqn:E.
  - apply N.eqb_eq in E. subst. rewrite IH. split; [tauto|]. intros [[->|H] Hn]; tauto.
  - apply N.eqb_neq in E. cbn. rewrite IH. split; [intros [->|H]; tauto|tauto].
Qed.

Lemma fixup_inv O W d o s : Inv O W d s -> In o O -> blocks s <> [] ->
  Inv (rm o O) W d (fixup o s) /\ In o (ids (fixup o s)).
Proof.
  intros (Hu & Ho & Ho2 & HT) Hin Hne.
  destruct HT as [A B C D D2 E F]. destruct (E o Hin) as [Av Nf].
  destruct (fixup_step o s Hu Ho Av) as (Hu' & Ho' & En & St).
  destruct (blocks s) as [|[old tm] r] eqn:Eb; [congruence|].
  assert (Hbl : blocks (fixup o s) = (o, tm) :: r) by (unfold fixup; rewrite Eb; reflexivity).
  split; [|unfold ids; rewrite Hbl; left; reflexivity].
  split; [exact Hu'|split; [exact Ho'|]].
  destruct Hu as (ND & LT & PD). destruct Av as (Av1 & Av2 & Av3).
  unfold ids in *. rewrite Eb in *. cbn [map fst] in *.
  assert (Hoo : old <> o) by (intro; subst; apply Av2; left; reflexivity).
  assert (Hal : aliases (fixup o s) = aliases s ++ [(old, o)]).
  { unfold fixup. rewrite Eb. cbn. destruct (old =? o) eqn:X; [apply N.eqb_eq in X; congruence|reflexivity]. }
  assert (Hpe : pending (fixup o s) = pending s) by (unfold fixup; rewrite Eb; reflexivity).
  assert (Hlo : loops (fixup o s) = loops s) by (unfold fixup; rewrite Eb; reflexivity).
  assert (Hou : out (fixup o s) = out s) by (unfold fixup; rewrite Eb; reflexivity).
  split; [unfold OutOK2; rewrite Hou; exact Ho2|].
  inversion ND as [|? ? Hold NDr]; subst.
  assert (G : forall x, good O s x -> good (rm o O) (fixup o s) (if old =? x then o else x)).
  { intros x Hg. unfold good, ids in *. rewrite Hbl, Hpe, Eb in *. cbn [map fst] in *.
    destruct (old =? x) eqn:X.
    - left. left. reflexivity.
    - apply N.eqb_neq in X. destruct Hg as [[H|H]|[H|H]].
      + congruence.
      + left; right; exact H.
      + right; left; exact H.
      + destruct (N.eq_dec x o) as [->|Hne']; [left; left; reflexivity|].
        right; right. apply rm_In. split; assumption. }
  constructor; unfold froms, CE, rawT in *; rewrite ?Hal, ?Hlo.
  - apply wf_al_snoc; [exact A|exact Hoo|exact Nf].
  - intros f Hf. rewrite map_app in Hf. cbn in Hf. rewrite fixup_next, Hpe.
    unfold ids. rewrite Hbl. cbn [map fst].
    apply in_app_or in Hf as [Hf|[<-|[]]].
    + destruct (B f Hf) as (B1 & B2 & B3). split; [exact B1|split; [|exact B3]].
      intros [<-|H]; [tauto|]. apply B2. right. exact H.
    + split; [apply LT; left; reflexivity|split].
      * intros [H|H]; [congruence|tauto].
      * intro H. apply PD in H. apply (proj2 H). left. reflexivity.
  - intros t Ht. rewrite Hbl in Ht. cbn [flat_map snd] in Ht.
    rewrite chain_end_snoc. apply G. apply C. rewrite Eb. cbn [flat_map snd]. exact Ht.
  - intros w Hw. rewrite chain_end_snoc. apply G. apply D. exact Hw.
  - exact D2.
  - intros o' Hq. apply rm_In in Hq as [Hq Hne']. destruct (E o' Hq) as [E1 E2]. split.
    + apply St; [apply E1|assumption|exact E1].
    + rewrite map_app. cbn. intro H. apply in_app_or in H as [H|[H|[]]]; [tauto|].
      subst. destruct E1 as (_ & E1b & _). apply E1b. unfold ids. rewrite Eb. left. reflexivity.
  - first [exact F|reflexivity].
Qed.

Lemma noop_raw_inv O W d o s : Inv O W d s -> In o O -> (pending s = None \/ pending s = Some o) ->
  Inv (rm o O) W d (noop_raw o s).
Proof.
  intros (Hu & Ho & Ho2 & HT) Hin Hp.
  destruct HT as [A B C D D2 E F]. destruct (E o Hin) as [Av Nf].
  destruct (noop_raw_step o s Hu Ho Av) as (Hu' & Ho' & En & St).
  split; [exact Hu'|split; [exact Ho'|split; [exact Ho2|]]].
  assert (G : forall x, good O s x -> good (rm o O) (noop_raw o s) x).
  { intros x Hg. unfold good, noop_raw, ids in *. cbn.
    destruct Hg as [H|[H|H]]; try tauto.
    - destruct Hp as [Hp|Hp]; rewrite Hp in H; [discriminate|]. right; left. exact H.
    - destruct (N.eq_dec x o) as [->|Hne']; [tauto|]. right; right. apply rm_In. tauto. }
  constructor; unfold froms, CE, rawT in *; cbn.
  - exact A.
  - intros f Hf. destruct (B f Hf) as (B1 & B2 & B3). split; [exact B1|split; [exact B2|]].
    intro H. inversion H; subst. tauto.
  - intros t Ht. apply G. apply C. exact Ht.
  - intros w Hw. apply G. apply D. exact Hw.
  - exact D2.
  - intros o' Hq. apply rm_In in Hq as [Hq Hne']. destruct (E o' Hq) as [E1 E2]. split; [|exact E2].
    apply St; [apply E1|assumption|exact E1].
  - exact F.
Qed.

Lemma noop_inv O W d o s : Inv O W d s -> In o O -> Inv (rm o O) W d (noop o s).
Proof.
  intros H Hin. unfold noop.
  destruct (pending s) as [p|] eqn:Ep; [destruct (p =? o) eqn:Epo|].
  - apply N.eqb_eq in Epo. subst p. apply noop_raw_inv; [exact H|exact Hin|right; exact Ep].
  - apply noop_raw_inv; [|exact Hin|].
    + apply seal_inv; [exact H|]. intros t [<-|[]]. eapply good_owed; [apply inv_T; exact H|exact Hin].
    + left. unfold seal. rewrite Ep. reflexivity.
  - apply noop_raw_inv; [exact H|exact Hin|left; exact Ep].
Qed.

Lemma push_inv O W d h e s : Inv O W d s -> In h W -> In e W -> Inv O W (S d) (push_loop h e s).
Proof.
  intros (Hu & Ho & Ho2 & HT) Gh Ge.
  destruct (push_step h e s Hu Ho) as (Hu' & Ho' & _ & St).
  split; [exact Hu'|split; [exact Ho'|split; [exact Ho2|]]].
  destruct HT as [A B C D D2 E F].
  constructor; unfold froms, CE, rawT, good, ids, avail in *; cbn; try assumption.
  - intros h' e' [Hq|Hh]; [inversion Hq; subst; split; assumption|apply D2; exact Hh].
  - lia.
Qed.

Lemma pop_inv O W d s : Inv O W (S d) s -> Inv O W d (pop_loop s).
Proof.
  intros (Hu & Ho & Ho2 & HT).
  destruct (pop_step s Hu Ho) as (Hu' & Ho' & _ & St).
  split; [exact Hu'|split; [exact Ho'|split; [exact Ho2|]]].
  destruct HT as [A B C D D2 E F].
  constructor; unfold froms, CE, rawT, good, ids, avail in *; cbn; try assumption.
  - intros h e Hh. apply D2. destruct (loops s) as [|x r]; [destruct d; contradiction|].
    cbn [tl] in Hh. cbn [firstn]. right. exact Hh.
  - destruct (loops s); cbn in *; lia.
Qed.

(* ---- loops bookkeeping *)
Lemma alloc_eq s : alloc s = (next s, snd (alloc s)).
Proof. reflexivity. Qed.
Lemma loops_alloc s : loops (snd (alloc s)) = loops s. Proof. reflexivity. Qed.
Lemma loops_seal tm s : loops (seal tm s) = loops s.
Proof. unfold seal. destruct (pending s); reflexivity. Qed.
Lemma loops_emit s : loops (emit s) = loops s. Proof. reflexivity. Qed.
Lemma loops_add_name x s : loops (add_name x s) = loops s. Proof. reflexivity. Qed.
Lemma loops_fixup t s : loops (fixup t s) = loops s.
Proof. unfold fixup. destruct (blocks s) as [|[a b] r]; reflexivity. Qed.
Lemma loops_noop t s : loops (noop t s) = loops s.
Proof.
  unfold noop, noop_raw; cbn. destruct (pending s) as [p|]; [destruct (p =? t)|]; try reflexivity.
  apply loops_seal.
Qed.
Lemma loops_seal_unless tm s : loops (seal_unless_terminated tm s) = loops s.
Proof. unfold seal_unless_terminated. destruct (terminated s); [reflexivity|apply loops_seal]. Qed.
Lemma loops_push h e s : loops (push_loop h e s) = (h, e) :: loops s. Proof. reflexivity. Qed.
Lemma loops_pop s : loops (pop_loop s) = tl (loops s). Proof. reflexivity. Qed.
Lemma next_alloc s : next (snd (alloc s)) = next s + 1. Proof. reflexivity. Qed.

Ltac lp1 := rewrite ?loops_noop, ?loops_fixup, ?loops_seal_unless, ?loops_seal, ?loops_emit,
                    ?loops_add_name, ?loops_alloc, ?loops_pop, ?loops_push.
Ltac lp := do 6 lp1.

Lemma inv_equiv O O' W d s : Inv O W d s -> (forall x, In x O <-> In x O') -> Inv O' W d s.
Proof.
  intros (Hu & Ho & Ho2 & [A B C D D2 E F]) Heq.
  assert (G : forall x, good O s x -> good O' s x).
  { intro x. apply good_mono. intros y Hy. apply Heq. exact Hy. }
  split; [exact Hu|split; [exact Ho|split; [exact Ho2|]]].
  constructor; try assumption.
  - intros t Ht. apply G. apply C. exact Ht.
  - intros w Hw. apply G. apply D. exact Hw.
  - intros o Hin. apply E. apply Heq. exact Hin.
Qed.

Lemma owed_lt O W d s o : Inv O W d s -> In o O -> o < next s.
Proof. intros (_ & _ & _ & HT) Hin. apply (t_owed _ _ _ _ HT o Hin). Qed.

Lemma inv_next_mono_alloc s : next s <= next (snd (alloc s)). Proof. cbn. lia. Qed.

Definition Qe (e : sexpr) := forall O W d s, Inv O W d s ->
  Inv O W d (lower_expr e s) /\ loops (lower_expr e s) = loops s.
Definition Qes (e : sexprs) := forall O W d s, Inv O W d s ->
  Inv O W d (lower_exprs e s) /\ loops (lower_exprs e s) = loops s.
Definition Qs (x : sstmt) := forall O W d s, Inv O W d s ->
  Inv O W d (lower_stmt x s) /\ loops (lower_stmt x s) = loops s.
Definition Qss (x : sstmts) := forall O W d s, Inv O W d s ->
  Inv O W d (lower_stmts x s) /\ loops (lower_stmts x s) = loops s.

Ltac gow H := eapply good_owed; [apply inv_T; exact H | cbn [In]; tauto].
Ltac inrm := repeat (apply rm_In; split); [cbn [In]; tauto | lia ..].
Ltac fin_equiv Hlt :=
  let x := fresh "x" in let Hx := fresh "Hx" in
  intro x; rewrite !rm_In; cbn [In]; split;
  [ intro Hx; intuition congruence
  | intro Hx; specialize (Hlt x Hx); intuition lia ].

Lemma tcase_SIf c t : Qe c -> Qs t -> Qs (SIf c t).
Proof.
  intros IHc IHt O W d s H0.
  cbn [lower_stmt].
  destruct (IHc O W d s H0) as [H1 L1]. set (s1 := lower_expr c s) in *.
  rewrite (alloc_eq s1). cbv beta iota zeta.
  pose proof (alloc_inv_keep O W d s1 H1) as H2.
  rewrite (alloc_eq (snd (alloc s1))). cbv beta iota zeta.
  pose proof (proj1 (alloc_inv_drop _ W d _ H2)) as H3.
  rewrite (alloc_eq (snd (alloc (snd (alloc s1))))). cbv beta iota zeta.
  pose proof (alloc_inv_keep _ W d _ H3) as H4.
  set (th := next s1) in *. set (mg := next (snd (alloc (snd (alloc s1))))) in *.
  set (s4 := snd (alloc (snd (alloc (snd (alloc s1))))) ) in *.
  assert (Hth : th = next s1) by reflexivity.
  assert (Hmg : mg = next s1 + 1 + 1) by reflexivity.
  assert (Hlt : forall o, In o O -> o < next s1) by (intros o Ho; eapply owed_lt; eassumption).
  assert (H5 : Inv (mg :: th :: O) W d (seal (TBr th mg) s4)).
  { apply seal_inv; [exact H4|]. intros x [<-|[<-|[]]]; gow H4. }
  destruct (IHt _ W d _ H5) as [H6 L6].
  assert (H7 : Inv (mg :: th :: O) W d (seal_unless_terminated (TGoto mg) (lower_stmt t (seal (TBr th mg) s4)))).
  { apply seal_unless_inv; [exact H6|]. intros x [<-|[]]. gow H6. }
  destruct (fixup_inv _ W d th _ H7 ltac:(cbn [In]; tauto) (seal_unless_nonempty _ _)) as [H8 _].
  pose proof (noop_inv _ W d mg _ H8 ltac:(inrm)) as H9.
  split.
  - eapply inv_equiv; [exact H9|]. fin_equiv Hlt.
  - lp. rewrite L6. lp. subst s4. lp. exact L1.
Qed.

Lemma tcase_SIfElse c t e : Qe c -> Qs t -> Qs e -> Qs (SIfElse c t e).
Proof.
  intros IHc IHt IHe O W d s H0.
  cbn [lower_stmt].
  destruct (IHc O W d s H0) as [H1 L1]. set (s1 := lower_expr c s) in *.
  rewrite (alloc_eq s1). cbv beta iota zeta.
  pose proof (alloc_inv_keep O W d s1 H1) as H2.
  rewrite (alloc_eq (snd (alloc s1))). cbv beta iota zeta.
  pose proof (alloc_inv_keep _ W d _ H2) as H3.
  rewrite (alloc_eq (snd (alloc (snd (alloc s1))))). cbv beta iota zeta.
  pose proof (alloc_inv_keep _ W d _ H3) as H4.
  set (th := next s1) in *. set (el := next (snd (alloc s1))) in *.
  set (mg := next (snd (alloc (snd (alloc s1))))) in *.
  set (s4 := snd (alloc (snd (alloc (snd (alloc s1))))) ) in *.
  assert (Hth : th = next s1) by reflexivity.
  assert (Hel : el = next s1 + 1) by reflexivity.
  assert (Hmg : mg = next s1 + 1 + 1) by reflexivity.
  assert (Hlt : forall o, In o O -> o < next s1) by (intros o Ho; eapply owed_lt; eassumption).
  assert (H5 : Inv (mg :: el :: th :: O) W d (seal (TBr th el) s4)).
  { apply seal_inv; [exact H4|]. intros x [<-|[<-|[]]]; gow H4. }
  destruct (IHt _ W d _ H5) as [H6 L6].
  assert (H7 : Inv (mg :: el :: th :: O) W d (seal_unless_terminated (TGoto mg) (lower_stmt t (seal (TBr th el) s4)))).
  { apply seal_unless_inv; [exact H6|]. intros x [<-|[]]. gow H6. }
  destruct (fixup_inv _ W d th _ H7 ltac:(cbn [In]; tauto) (seal_unless_nonempty _ _)) as [H8 _].
  destruct (IHe _ W d _ H8) as [H9 L9].
  match type of H9 with Inv ?OO _ _ ?st =>
    assert (H10 : Inv OO W d (seal_unless_terminated (TGoto mg) st)) end.
  { apply seal_unless_inv; [exact H9|]. intros x [<-|[]].
    eapply good_owed; [apply inv_T; exact H9|inrm]. }
  destruct (fixup_inv _ W d el _ H10 ltac:(inrm) (seal_unless_nonempty _ _)) as [H11 _].
  pose proof (noop_inv _ W d mg _ H11 ltac:(inrm)) as H12.
  split.
  - eapply inv_equiv; [exact H12|]. fin_equiv Hlt.
  - lp. rewrite L9. lp. rewrite L6. lp. subst s4. lp. exact L1.
Qed.

Lemma tcase_SWhile c b : Qe c -> Qs b -> Qs (SWhile c b).
Proof.
  intros IHc IHb O W d s H0.
  cbn [lower_stmt].
  rewrite (alloc_eq s). cbv beta iota zeta.
  pose proof (alloc_inv_keep O W d s H0) as H1.
  rewrite (alloc_eq (snd (alloc s))). cbv beta iota zeta.
  pose proof (alloc_inv_keep _ W d _ H1) as H2.
  rewrite (alloc_eq (snd (alloc (snd (alloc s))))). cbv beta iota zeta.
  pose proof (alloc_inv_keep _ W d _ H2) as H3.
  set (hd := next s) in *. set (bd := next (snd (alloc s))) in *.
  set (ex := next (snd (alloc (snd (alloc s))))) in *.
  set (s3 := snd (alloc (snd (alloc (snd (alloc s))))) ) in *.
  assert (Hhd : hd = next s) by reflexivity.
  assert (Hbd : bd = next s + 1) by reflexivity.
  assert (Hex : ex = next s + 1 + 1) by reflexivity.
  assert (Hlt : forall o, In o O -> o < next s) by (intros o Ho; eapply owed_lt; eassumption).
  assert (H4 : Inv (ex :: bd :: hd :: O) W d (seal (TGoto hd) s3)).
  { apply seal_inv; [exact H3|]. intros x [<-|[]]; gow H3. }
  destruct (IHc _ W d _ H4) as [H5 L5].
  assert (H6 : Inv (ex :: bd :: hd :: O) W d (seal (TBr bd ex) (lower_expr c (seal (TGoto hd) s3)))).
  { apply seal_inv; [exact H5|]. intros x [<-|[<-|[]]]; gow H5. }
  destruct (fixup_inv _ W d hd _ H6 ltac:(cbn [In]; tauto) (seal_nonempty _ _)) as [H7 I7].
  pose proof (inv_watch _ _ _ _ hd H7 (good_id _ _ _ _ _ (inv_T _ _ _ _ H7) I7)) as H7a.
  assert (H7b : Inv (rm hd (ex :: bd :: hd :: O)) (ex :: hd :: W) d
                    (fixup hd (seal (TBr bd ex) (lower_expr c (seal (TGoto hd) s3))))).
  { apply inv_watch; [exact H7a|]. eapply good_owed; [apply inv_T; exact H7a|inrm]. }
  pose proof (push_inv _ _ d hd ex _ H7b ltac:(cbn [In]; tauto) ltac:(cbn [In]; tauto)) as H8.
  destruct (IHb _ _ (S d) _ H8) as [H9 L9].
  match type of H9 with Inv ?OO ?WW _ ?st =>
    assert (H10 : Inv OO WW (S d) (seal_unless_terminated (TGoto hd) st)) end.
  { apply seal_unless_inv; [exact H9|]. intros x [<-|[]].
    apply (t_watch _ _ _ _ (inv_T _ _ _ _ H9)). cbn [In]; tauto. }
  destruct (fixup_inv _ _ (S d) bd _ H10 ltac:(inrm) (seal_unless_nonempty _ _)) as [H11 _].
  pose proof (pop_inv _ _ d _ H11) as H12.
  pose proof (noop_inv _ _ d ex _ H12 ltac:(inrm)) as H13.
  assert (LL : loops (noop ex (pop_loop (fixup bd (seal_unless_terminated (TGoto hd)
                (lower_stmt b (push_loop hd ex (fixup hd (seal (TBr bd ex) (lower_expr c (seal (TGoto hd) s3)))))))))) = loops s).
  { lp. rewrite L9. lp. cbn [tl]. lp. rewrite L5. lp. subst s3. lp. reflexivity. }
  split; [|exact LL].
  eapply inv_equiv.
  - eapply inv_unwatch; [exact H13|intros w Hw; right; right; exact Hw|].
    rewrite LL. apply (t_loop _ _ _ _ (inv_T _ _ _ _ H0)).
  - fin_equiv Hlt.
Qed.

Lemma tcase_SFor n lo hi stp b : Qe lo -> Qe hi -> Qe stp -> Qs b -> Qs (SFor n lo hi stp b).
Proof.
  intros IHlo IHhi IHst IHb O W d s H0.
  cbn [lower_stmt].
  destruct (IHlo _ _ _ _ (add_name_inv n _ _ _ _ H0)) as [Ha La].
  destruct (IHhi _ _ _ _ (emit_inv _ _ _ _ Ha)) as [Hb2 Lb].
  pose proof (emit_inv _ _ _ _ Hb2) as H2.
  set (s2 := emit (lower_expr hi (emit (lower_expr lo (add_name n s))))) in *.
  assert (L2 : loops s2 = loops s).
  { subst s2. lp. rewrite Lb. lp. rewrite La. lp. reflexivity. }
  rewrite (alloc_eq s2). cbv beta iota zeta.
  pose proof (alloc_inv_keep O W d s2 H2) as A1.
  rewrite (alloc_eq (snd (alloc s2))). cbv beta iota zeta.
  pose proof (alloc_inv_keep _ W d _ A1) as A2.
  rewrite (alloc_eq (snd (alloc (snd (alloc s2))))). cbv beta iota zeta.
  pose proof (alloc_inv_keep _ W d _ A2) as A3.
  rewrite (alloc_eq (snd (alloc (snd (alloc (snd (alloc s2))))))). cbv beta iota zeta.
  pose proof (alloc_inv_keep _ W d _ A3) as A4.
  set (hd := next s2) in *. set (bd := next (snd (alloc s2))) in *.
  set (inc := next (snd (alloc (snd (alloc s2))))) in *.
  set (ex := next (snd (alloc (snd (alloc (snd (alloc s2))))))) in *.
  set (s6 := snd (alloc (snd (alloc (snd (alloc (snd (alloc s2))))))) ) in *.
  assert (Hhd : hd = next s2) by reflexivity.
  assert (Hbd : bd = next s2 + 1) by reflexivity.
  assert (Hinc : inc = next s2 + 1 + 1) by reflexivity.
  assert (Hex : ex = next s2 + 1 + 1 + 1) by reflexivity.
  assert (Hlt : forall o, In o O -> o < next s2) by (intros o Ho; eapply owed_lt; eassumption).
  assert (H7 : Inv (ex :: inc :: bd :: hd :: O) W d (seal (TBr bd ex) (emit (seal (TGoto hd) s6)))).
  { assert (X : Inv (ex :: inc :: bd :: hd :: O) W d (seal (TGoto hd) s6)).
    { apply seal_inv; [exact A4|]. intros x [<-|[]]; gow A4. }
    apply emit_inv in X. apply seal_inv; [exact X|]. intros x [<-|[<-|[]]]; gow X. }
  destruct (fixup_inv _ W d hd _ H7 ltac:(cbn [In]; tauto) (seal_nonempty _ _)) as [H8 I8].
  pose proof (inv_watch _ _ _ _ hd H8 (good_id _ _ _ _ _ (inv_T _ _ _ _ H8) I8)) as H8a.
  assert (H8b : Inv (rm hd (ex :: inc :: bd :: hd :: O)) (ex :: inc :: hd :: W) d
                    (fixup hd (seal (TBr bd ex) (emit (seal (TGoto hd) s6))))).
  { apply inv_watch; [apply inv_watch; [exact H8a|]|].
    - eapply good_owed; [apply inv_T; exact H8a|inrm].
    - eapply good_owed; [apply inv_T; apply inv_watch; [exact H8a|eapply good_owed; [apply inv_T; exact H8a|inrm]]|inrm]. }
  pose proof (push_inv _ _ d inc ex _ H8b ltac:(cbn [In]; tauto) ltac:(cbn [In]; tauto)) as H9.
  destruct (IHb _ _ (S d) _ H9) as [H10 L10].
  match type of H10 with Inv ?OO ?WW _ ?st =>
    assert (H11 : Inv OO WW (S d) (seal_unless_terminated (TGoto inc) st)) end.
  { apply seal_unless_inv; [exact H10|]. intros x [<-|[]].
    eapply good_owed; [apply inv_T; exact H10|inrm]. }
  destruct (fixup_inv _ _ (S d) bd _ H11 ltac:(inrm) (seal_unless_nonempty _ _)) as [H12 _].
  pose proof (pop_inv _ _ d _ H12) as H13.
  destruct (IHst _ _ d _ H13) as [H14 L14].
  apply emit_inv in H14.
  match type of H14 with Inv ?OO ?WW _ ?st =>
    assert (H15 : Inv OO WW d (seal (TGoto hd) st)) end.
  { apply seal_inv; [exact H14|]. intros x [<-|[]].
    apply (t_watch _ _ _ _ (inv_T _ _ _ _ H14)). cbn [In]; tauto. }
  destruct (fixup_inv _ _ d inc _ H15 ltac:(inrm) (seal_nonempty _ _)) as [H16 _].
  pose proof (noop_inv _ _ d ex _ H16 ltac:(inrm)) as H17.
  match type of H17 with Inv _ _ _ ?st => assert (LL : loops st = loops s) end.
  { lp. rewrite L14. lp. rewrite L10. lp. cbn [tl]. lp. subst s6. lp. exact L2. }
  destruct (scope_loop_inv (length (names s)) _ _ _ _ H17) as [H18 L18].
  split; [|rewrite L18; exact LL].
  eapply inv_equiv.
  - eapply inv_unwatch; [exact H18|intros w Hw; right; right; right; exact Hw|].
    rewrite L18, LL. apply (t_loop _ _ _ _ (inv_T _ _ _ _ H0)).
  - fin_equiv Hlt.
Qed.

Lemma tcase_SForEach n it b : Qe it -> Qs b -> Qs (SForEach n it b).
Proof.
  intros IHit IHb O W d s H0.
  cbn [lower_stmt].
  destruct (IHit _ _ _ _ H0) as [Ha La].
  pose proof (add_name_inv n _ _ _ _ (emit_inv _ _ _ _ Ha)) as H2.
  set (s2 := add_name n (emit (lower_expr it s))) in *.
  assert (L2 : loops s2 = loops s) by (subst s2; lp; exact La).
  rewrite (alloc_eq s2). cbv beta iota zeta.
  pose proof (alloc_inv_keep O W d s2 H2) as A1.
  rewrite (alloc_eq (snd (alloc s2))). cbv beta iota zeta.
  pose proof (alloc_inv_keep _ W d _ A1) as A2.
  rewrite (alloc_eq (snd (alloc (snd (alloc s2))))). cbv beta iota zeta.
  pose proof (alloc_inv_keep _ W d _ A2) as A3.
  rewrite (alloc_eq (snd (alloc (snd (alloc (snd (alloc s2))))))). cbv beta iota zeta.
  pose proof (alloc_inv_keep _ W d _ A3) as A4.
  set (hd := next s2) in *. set (bd := next (snd (alloc s2))) in *.
  set (inc := next (snd (alloc (snd (alloc s2))))) in *.
  set (ex := next (snd (alloc (snd (alloc (snd (alloc s2))))))) in *.
  set (s6 := snd (alloc (snd (alloc (snd (alloc (snd (alloc s2))))))) ) in *.
  assert (Hhd : hd = next s2) by reflexivity.
  assert (Hbd : bd = next s2 + 1) by reflexivity.
  assert (Hinc : inc = next s2 + 1 + 1) by reflexivity.
  assert (Hex : ex = next s2 + 1 + 1 + 1) by reflexivity.
  assert (Hlt : forall o, In o O -> o < next s2) by (intros o Ho; eapply owed_lt; eassumption).
  assert (H7 : Inv (ex :: inc :: bd :: hd :: O) W d (seal (TBr bd ex) (emit (seal (TGoto hd) s6)))).
  { assert (X : Inv (ex :: inc :: bd :: hd :: O) W d (seal (TGoto hd) s6)).
    { apply seal_inv; [exact A4|]. intros x [<-|[]]; gow A4. }
    apply emit_inv in X. apply seal_inv; [exact X|]. intros x [<-|[<-|[]]]; gow X. }
  destruct (fixup_inv _ W d hd _ H7 ltac:(cbn [In]; tauto) (seal_nonempty _ _)) as [H8 I8].
  pose proof (inv_watch _ _ _ _ hd H8 (good_id _ _ _ _ _ (inv_T _ _ _ _ H8) I8)) as H8a.
  assert (H8b : Inv (rm hd (ex :: inc :: bd :: hd :: O)) (ex :: inc :: hd :: W) d
                    (fixup hd (seal (TBr bd ex) (emit (seal (TGoto hd) s6))))).
  { apply inv_watch; [apply inv_watch; [exact H8a|]|].
    - eapply good_owed; [apply inv_T; exact H8a|inrm].
    - eapply good_owed; [apply inv_T; apply inv_watch; [exact H8a|eapply good_owed; [apply inv_T; exact H8a|inrm]]|inrm]. }
  apply emit_inv in H8b.
  pose proof (push_inv _ _ d inc ex _ H8b ltac:(cbn [In]; tauto) ltac:(cbn [In]; tauto)) as H9.
  destruct (IHb _ _ (S d) _ H9) as [H10 L10].
  match type of H10 with Inv ?OO ?WW _ ?st =>
    assert (H11 : Inv OO WW (S d) (seal_unless_terminated (TGoto inc) st)) end.
  { apply seal_unless_inv; [exact H10|]. intros x [<-|[]].
    eapply good_owed; [apply inv_T; exact H10|inrm]. }
  destruct (fixup_inv _ _ (S d) bd _ H11 ltac:(inrm) (seal_unless_nonempty _ _)) as [H12 _].
  pose proof (emit_inv _ _ _ _ (pop_inv _ _ d _ H12)) as H14.
  match type of H14 with Inv ?OO ?WW _ ?st =>
    assert (H15 : Inv OO WW d (seal (TGoto hd) st)) end.
  { apply seal_inv; [exact H14|]. intros x [<-|[]].
    apply (t_watch _ _ _ _ (inv_T _ _ _ _ H14)). cbn [In]; tauto. }
  destruct (fixup_inv _ _ d inc _ H15 ltac:(inrm) (seal_nonempty _ _)) as [H16 _].
  pose proof (noop_inv _ _ d ex _ H16 ltac:(inrm)) as H17.
  match type of H17 with Inv _ _ _ ?st => assert (LL : loops st = loops s) end.
  { lp. rewrite L10. lp. cbn [tl]. lp. subst s6. lp. exact L2. }
  destruct (scope_loop_inv (length (names s)) _ _ _ _ H17) as [H18 L18].
  split; [|rewrite L18; exact LL].
  eapply inv_equiv.
  - eapply inv_unwatch; [exact H18|intros w Hw; right; right; right; exact Hw|].
    rewrite L18, LL. apply (t_loop _ _ _ _ (inv_T _ _ _ _ H0)).
  - fin_equiv Hlt.
Qed.

Lemma tcase_EShort a l r : Qe l -> Qe r -> Qe (EShort a l r).
Proof.
  intros IHl IHr O W d s H0.
  cbn [lower_expr].
  destruct (IHl _ _ _ _ H0) as [Ha La]. apply emit_inv in Ha.
  set (s1 := emit (lower_expr l s)) in *.
  assert (L1 : loops s1 = loops s) by (subst s1; lp; exact La).
  rewrite (alloc_eq s1). cbv beta iota zeta.
  pose proof (alloc_inv_keep O W d s1 Ha) as A1.
  rewrite (alloc_eq (snd (alloc s1))). cbv beta iota zeta.
  pose proof (alloc_inv_keep _ W d _ A1) as A2.
  set (er := next s1) in *. set (mg := next (snd (alloc s1))) in *.
  set (s3 := snd (alloc (snd (alloc s1)))) in *.
  assert (Her : er = next s1) by reflexivity.
  assert (Hmg : mg = next s1 + 1) by reflexivity.
  assert (Hlt : forall o, In o O -> o < next s1) by (intros o Ho; eapply owed_lt; eassumption).
  assert (H4 : Inv (mg :: er :: O) W d (seal (if a then TBr er mg else TBr mg er) s3)).
  { apply seal_inv; [exact A2|]. destruct a; intros x [<-|[<-|[]]]; gow A2. }
  destruct (IHr _ _ _ _ H4) as [H5 L5]. apply emit_inv in H5.
  match type of H5 with Inv ?OO ?WW _ ?st =>
    assert (H6 : Inv OO WW d (seal (TGoto mg) st)) end.
  { apply seal_inv; [exact H5|]. intros x [<-|[]]. gow H5. }
  destruct (fixup_inv _ _ d er _ H6 ltac:(cbn [In]; tauto) (seal_nonempty _ _)) as [H7 _].
  pose proof (noop_inv _ _ d mg _ H7 ltac:(inrm)) as H8.
  split.
  - eapply inv_equiv; [exact H8|]. fin_equiv Hlt.
  - lp. rewrite L5. lp. subst s3. lp. exact L1.
Qed.

Lemma tcase_EIfE c t e : Qe c -> Qe t -> Qe e -> Qe (EIfE c t e).
Proof.
  intros IHc IHt IHe O W d s H0.
  cbn [lower_expr].
  destruct (IHc O W d s H0) as [H1 L1]. set (s1 := lower_expr c s) in *.
  rewrite (alloc_eq s1). cbv beta iota zeta.
  pose proof (alloc_inv_keep O W d s1 H1) as H2.
  rewrite (alloc_eq (snd (alloc s1))). cbv beta iota zeta.
  pose proof (alloc_inv_keep _ W d _ H2) as H3.
  rewrite (alloc_eq (snd (alloc (snd (alloc s1))))). cbv beta iota zeta.
  pose proof (alloc_inv_keep _ W d _ H3) as H4.
  set (th := next s1) in *. set (el := next (snd (alloc s1))) in *.
  set (mg := next (snd (alloc (snd (alloc s1))))) in *.
  set (s4 := snd (alloc (snd (alloc (snd (alloc s1))))) ) in *.
  assert (Hth : th = next s1) by reflexivity.
  assert (Hel : el = next s1 + 1) by reflexivity.
  assert (Hmg : mg = next s1 + 1 + 1) by reflexivity.
  assert (Hlt : forall o, In o O -> o < next s1) by (intros o Ho; eapply owed_lt; eassumption).
  assert (H5 : Inv (mg :: el :: th :: O) W d (seal (TBr th el) s4)).
  { apply seal_inv; [exact H4|]. intros x [<-|[<-|[]]]; gow H4. }
  destruct (IHt _ W d _ H5) as [H6 L6]. apply emit_inv in H6.
  match type of H6 with Inv ?OO ?WW _ ?st =>
    assert (H7 : Inv OO WW d (seal (TGoto mg) st)) end.
  { apply seal_inv; [exact H6|]. intros x [<-|[]]. gow H6. }
  destruct (fixup_inv _ W d th _ H7 ltac:(cbn [In]; tauto) (seal_nonempty _ _)) as [H8 _].
  destruct (IHe _ W d _ H8) as [H9 L9]. apply emit_inv in H9.
  match type of H9 with Inv ?OO ?WW _ ?st =>
    assert (H10 : Inv OO WW d (seal (TGoto mg) st)) end.
  { apply seal_inv; [exact H9|]. intros x [<-|[]].
    eapply good_owed; [apply inv_T; exact H9|inrm]. }
  destruct (fixup_inv _ W d el _ H10 ltac:(inrm) (seal_nonempty _ _)) as [H11 _].
  pose proof (noop_inv _ W d mg _ H11 ltac:(inrm)) as H12.
  split.
  - eapply inv_equiv; [exact H12|]. fin_equiv Hlt.
  - lp. rewrite L9. lp. rewrite L6. lp. subst s4. lp. exact L1.
Qed.

(* ---- nested functions *)
Lemma targets_resolve al tm t : In t (targets (resolve_term al tm)) ->
  exists t0, In t0 (targets tm) /\ t = resolve al t0.
Proof.
  destruct tm as [|a|a b]; cbn.
  - contradiction.
  - intros [<-|[]]. exists a. split; [left; reflexivity|reflexivity].
  - intros [<-|[<-|[]]]; [exists a|exists b]; split; cbn; tauto.
Qed.

Lemma new_fn_lost f : Inv [] [] 0 f -> pending f = None ->
  lost_ok (mkfn (map (fun b => (fst b, resolve_term (aliases f) (snd b))) (rev (blocks f)))).
Proof.
  intros (Hu & Ho & Ho2 & HT) Hp. unfold lost_ok. cbn [f_blocks].
  destruct (dangling _) as [|t r] eqn:Ed; [reflexivity|exfalso].
  assert (Ht : In t (dangling (map (fun b => (fst b, resolve_term (aliases f) (snd b))) (rev (blocks f)))))
    by (rewrite Ed; left; reflexivity).
  clear Ed. unfold dangling in Ht. apply filter_In in Ht as [Ht Hn].
  apply in_flat_map in Ht as [b' [Hb' Ht]]. apply in_map_iff in Hb' as [b [<- Hb]].
  cbn [snd] in Ht. apply targets_resolve in Ht as [t0 [Ht0 ->]].
  apply in_rev in Hb.
  assert (Hraw : In t0 (rawT f)) by (unfold rawT; apply in_flat_map; exists b; split; assumption).
  pose proof (t_raw _ _ _ _ HT t0 Hraw) as Hg. unfold CE in Hg.
  rewrite <- (resolve_is_chain _ _ (t_wf _ _ _ _ HT)) in Hg.
  apply negb_true_iff in Hn. apply memN_false in Hn.
  destruct Hg as [H|[H|[]]].
  - apply Hn. rewrite map_map. cbn [fst]. rewrite map_rev. apply -> in_rev. exact H.
  - congruence.
Qed.

Lemma finalize_inv O W d s : Inv O W d s -> Inv O W d (finalize s) /\ loops (finalize s) = loops s.
Proof.
  intro H. unfold finalize. destruct (_ || _).
  - split; [apply seal_inv; [exact H|intros t []]|apply loops_seal].
  - split; [exact H|reflexivity].
Qed.

Lemma fn_enter_inv c p O W d s : Inv O W d s -> Inv [] [] 0 (fn_enter c p s).
Proof.
  intros (Hu & Ho & Ho2 & HT). destruct (fn_enter_U c p s Ho) as [Ue Oe].
  split; [exact Ue|split; [exact Oe|split; [exact Ho2|]]].
  constructor; unfold froms, rawT; cbn.
  - exact I.
  - intros f [].
  - intros t [].
  - intros w [].
  - intros h e [].
  - intros o [].
  - reflexivity.
Qed.

Lemma tcase_fn caps params body O W d s : Qss body -> Inv O W d s ->
  Inv O W d (fn_exit s (lower_stmts body (fn_enter caps params s)))
  /\ loops (fn_exit s (lower_stmts body (fn_enter caps params s))) = loops s.
Proof.
  intros IH H0.
  pose proof (fn_enter_inv caps params _ _ _ _ H0) as He.
  destruct (IH [] [] 0%nat _ He) as [Hb Lb].
  set (be := lower_stmts body (fn_enter caps params s)) in *.
  destruct (finalize_inv _ _ _ _ Hb) as [Hf Lf].
  split; [|reflexivity].
  destruct H0 as (Hu & Ho & Ho2 & HT).
  destruct Hb as (Ub & Ob & Ob2 & Tb).
  destruct (fn_exit_step s be Hu Ho Ub Ob) as (Ux & Ox & _ & _).
  split; [exact Ux|split; [exact Ox|split]].
  - unfold OutOK2, fn_exit. cbn [out]. apply Forall_app. split.
    + destruct Hf as (_ & _ & X & _). exact X.
    + constructor; [|constructor]. apply new_fn_lost; [exact Hf|apply finalize_pending].
  - destruct HT as [A B C D D2 E F].
    constructor; unfold froms, rawT, CE, good, ids, avail in *; unfold fn_exit; cbn; assumption.
Qed.

Theorem lower_targets :
  (forall e, Qe e) /\ (forall e, Qes e) /\ (forall x, Qs x) /\ (forall x, Qss x).
Proof.
  apply skel_mutind.
  - intros O W d s H. split; [exact H|reflexivity].
  - intros x O W d s H. cbn [lower_expr]. destruct (memN x (names s)); [split; [exact H|reflexivity]|].
    split; [apply emit_inv; exact H|reflexivity].
  - intros em args IH O W d s H. cbn [lower_expr].
    destruct (IH _ _ _ _ H) as [H1 L1]. destruct (emits_of em); [|split; assumption].
    split; [apply emit_inv; exact H1|lp; exact L1].
  - intros a l IHl r IHr. apply tcase_EShort; assumption.
  - intros c IHc t IHt e IHe. apply tcase_EIfE; assumption.
  - intros caps params body IH O W d s H. cbn [lower_expr].
    destruct (tcase_fn caps params body O W d s IH H) as [H1 L1].
    split; [apply emit_inv; exact H1|lp; exact L1].
  - intros O W d s H. split; [exact H|reflexivity].
  - intros e IHe r IHr O W d s H.
    cbn [lower_exprs]. destruct (IHe _ _ _ _ H) as [H1 L1].
    destruct (IHr _ _ _ _ H1) as [H2 L2]. split; [exact H2|rewrite L2; exact L1].
  - intros e IH O W d s H. apply IH; assumption.
  - intros x e IH O W d s H. cbn [lower_stmt].
    destruct (IH _ _ _ _ (add_name_inv x _ _ _ _ H)) as [H1 L1].
    split; [apply emit_inv; exact H1|lp; rewrite L1; lp; reflexivity].
  - intros b IH O W d s H. cbn [lower_stmt]. destruct (IH _ _ _ _ H) as [H1 L1].
    destruct (scope_block_inv (length (names s)) _ _ _ _ H1) as [H2 L2]. split; [exact H2|rewrite L2; exact L1].
  - intros c IHc t IHt. apply tcase_SIf; assumption.
  - intros c IHc t IHt e IHe. apply tcase_SIfElse; assumption.
  - intros c IHc b IHb. apply tcase_SWhile; assumption.
  - intros x lo IHlo hi IHhi stp IHst b IHb. apply tcase_SFor; assumption.
  - intros x it IHit b IHb. apply tcase_SForEach; assumption.
  - intros O W d s H. cbn [lower_stmt]. split; [apply seal_inv; [exact H|intros t []]|apply loops_seal].
  - intros e IH O W d s H. cbn [lower_stmt].
    destruct (IH _ _ _ _ H) as [H1 L1].
    split; [apply seal_inv; [exact H1|intros t []]|rewrite loops_seal; exact L1].
  - intros O W d s H. cbn [lower_stmt].
    destruct (loops s) as [|[h e] r] eqn:El; [split; [exact H|exact El]|].
    split; [|rewrite loops_seal; exact El].
    apply seal_inv; [exact H|]. intros t [<-|[]].
    pose proof (inv_T _ _ _ _ H) as HT.
    assert (Hin : In (h, e) (firstn d (loops s))).
    { rewrite (t_depth _ _ _ _ HT), El. left. reflexivity. }
    apply (t_watch _ _ _ _ HT). apply (proj2 (t_loop _ _ _ _ HT h e Hin)).
  - intros O W d s H. cbn [lower_stmt].
    destruct (loops s) as [|[h e] r] eqn:El; [split; [exact H|exact El]|].
    split; [|rewrite loops_seal; exact El].
    apply seal_inv; [exact H|]. intros t [<-|[]].
    pose proof (inv_T _ _ _ _ H) as HT.
    assert (Hin : In (h, e) (firstn d (loops s))).
    { rewrite (t_depth _ _ _ _ HT), El. left. reflexivity. }
    apply (t_watch _ _ _ _ HT). apply (proj1 (t_loop _ _ _ _ HT h e Hin)).
  - intros caps params body IH O W d s H. cbn [lower_stmt]. apply tcase_fn; assumption.
  - intros O W d s H. split; [exact H|reflexivity].
  - intros O W d s H. split; [exact H|reflexivity].
  - intros x IHx r IHr O W d s H.
    cbn [lower_stmts]. destruct (IHx _ _ _ _ H) as [H1 L1].
    destruct (IHr _ _ _ _ H1) as [H2 L2]. split; [exact H2|rewrite L2; exact L1].
Qed.

Lemma init_inv : Inv [] [] 0 init.
Proof.
  split; [|split; [constructor|split; [constructor|]]].
  - split; [constructor|split]; cbn; [contradiction|discriminate].
  - constructor; unfold froms, rawT; cbn.
    + exact I.
    + intros f [].
    + intros t [].
    + intros w [].
    + intros h e [].
    + intros o [].
    + reflexivity.
Qed.

Lemma lower_top_inv p : forall s, Inv [] [] 0 s -> Inv [] [] 0 (lower_top p s).
Proof.
  induction p as [|x r IH]; intros s H.
  - exact H.
  - cbn [lower_top]. destruct x; try (apply IH; assumption).
    apply IH.
    apply (tcase_fn caps params body [] [] 0%nat s (proj2 (proj2 (proj2 lower_targets)) body) H).
Qed.

(* UNBOUNDED: no function of any program has a dangling branch target *)
Theorem lower_no_dangling : forall p f, In f (lower p) -> dangling (f_blocks f) = [].
Proof.
  intros p f Hin. unfold lower in Hin.
  destruct (lower_top_inv p init init_inv) as (_ & _ & Ho2 & _).
  unfold OutOK2 in Ho2. rewrite Forall_forall in Ho2. apply Ho2. exact Hin.
Qed.

(* the full statement: entry block, unique ids, every branch targets an existing block *)
Theorem lower_wf_all : forall p, wf_prog (lower p) = true.
Proof.
  intro p. unfold wf_prog. apply forallb_forall. intros f Hin.
  destruct (lower_entry_and_unique_ids p f Hin) as [He Hu].
  unfold wf_fn, wf_cfg. rewrite He, Hu. cbn.
  apply no_dangling_targets_exist. apply (lower_no_dangling p f Hin).
Qed.
