(* C04 -- lemmas about the raw-access footprint of the dispatch loop. *)
From Aelys Require Import Base.Tactics Extracted.OpcodeNumbering Extracted.VerifierTable Extracted.DispatchSites
  Model.Verifier Model.Footprint Proofs.VerifierProofs.
Local Open Scope N_scope.

(* ---- structure of `must` -------------------------------------------------------------------- *)
Lemma cut_incl (l : list acc) (a : acc) : In a (cut l) -> In a l.
Proof.
  induction l as [|x r IH]; cbn [cut]; intros H; [exact H|].
  destruct (in_bounds x).
  - destruct H as [->|H]; [left; reflexivity|right; exact (IH H)].
  - destruct H as [->|[]]. left; reflexivity.
Qed.

Lemma must_incl (s : st) (w : N) (a : acc) :
  In a (must s w) -> In a (must_raw s w) /\ (fetch_guarded = true -> s_ip s < s_bclen s).
Proof.
  unfold must. destruct fetch_guarded.
  - destruct (s_ip s <? s_bclen s) eqn:E; [|intros []].
    intros H. split; [exact (cut_incl _ _ H)|intros _; lia].
  - intros H. split; [exact (cut_incl _ _ H)|discriminate].
Qed.

Lemma cache_accs_spec (s : st) (w : N) (a : acc) :
  In a (cache_accs s w) ->
  exists offs g o, lookup (w_op w) cache_reads = Some (offs, g) /\ In o offs /\
                   a = (S_CACHE_RD, s_ip s + 1 + o, s_bclen s) /\ (g = true -> in_bounds a = true).
Proof.
  unfold cache_accs. destruct (lookup (w_op w) cache_reads) as [[offs g]|] eqn:L; [|intros []].
  set (rd := map (fun o => (S_CACHE_RD, s_ip s + 1 + o, s_bclen s)) offs).
  assert (Hrd : In a rd -> exists o, In o offs /\ a = (S_CACHE_RD, s_ip s + 1 + o, s_bclen s)).
  { intros H. apply in_map_iff in H as [o [E Ho]]. exists o. split; [exact Ho|symmetry; exact E]. }
  destruct g.
  - destruct (forallb in_bounds rd) eqn:F; [|intros []].
    intros H. destruct (Hrd H) as [o [Ho E]]. exists offs, true, o. repeat split; try assumption.
    intros _. exact (proj1 (forallb_forall _ _) F _ H).
  - intros H. destruct (Hrd H) as [o [Ho E]]. exists offs, false, o. repeat split; try assumption. discriminate.
Qed.

Lemma const_accs_spec (s : st) (w : N) (a : acc) :
  In a (const_accs s w) ->
  exists isimm g k, lookup (w_op w) const_sites = Some (isimm, g) /\ a = (S_CONST, k, s_nconsts s) /\
                    (g = true -> k < s_clen s).
Proof.
  unfold const_accs. destruct (lookup (w_op w) const_sites) as [[isimm g]|] eqn:L; [|intros []].
  set (k := if isimm then w_imm w else w_b w).
  destruct g.
  - destruct (k <? s_clen s) eqn:E; [|intros []].
    intros [<-|[]]. exists isimm, true, k. repeat split. intros _. lia.
  - intros [<-|[]]. exists isimm, false, k. repeat split. discriminate.
Qed.

Lemma upval_accs_spec (s : st) (w : N) (a : acc) :
  In a (upval_accs s w) ->
  exists which g, lookup (w_op w) upval_sites = Some (which, g) /\ a = (S_UPVAL, w_b w, s_uplen s) /\
                  (g = true -> w_b w < s_uplen s).
Proof.
  unfold upval_accs. destruct (lookup (w_op w) upval_sites) as [[which g]|] eqn:L; [|intros []].
  destruct which as [|p]; [intros []|]. destruct p; try (intros []).
  destruct g.
  - destruct (w_b w <? s_uplen s) eqn:E; [|intros []].
    intros [<-|[]]. exists 1, true. repeat split. intros _. lia.
  - intros [<-|[]]. exists 1, false. repeat split. discriminate.
Qed.

Lemma must_raw_cases (s : st) (w : N) (a : acc) :
  In a (must_raw s w) ->
  a = (S_FETCH, s_ip s, s_bclen s) \/ In a (cache_accs s w) \/ In a (const_accs s w) \/ In a (upval_accs s w).
Proof.
  unfold must_raw. intros [<-|H]; [left; reflexivity|right].
  apply in_app_or in H as [H|H]; [left; exact H|right].
  apply in_app_or in H as [H|H]; [left; exact H|right; exact H].
Qed.

(* ---- fetch ----------------------------------------------------------------------------------- *)
Lemma fetch_guard_present : fetch_guarded = true.
Proof. reflexivity. Qed.

Lemma fetch_in_bounds_lemma (s : st) (w : N) (a : acc) :
  In a (must s w) -> a_site a = S_FETCH -> in_bounds a = true.
Proof.
  intros H Hs. apply must_incl in H as [H G]. specialize (G fetch_guard_present).
  apply must_raw_cases in H as [->|[H|[H|H]]].
  - unfold in_bounds, a_idx, a_len. cbn [fst snd]. lia.
  - apply cache_accs_spec in H as (? & ? & ? & _ & _ & -> & _). discriminate.
  - apply const_accs_spec in H as (? & ? & ? & _ & -> & _). discriminate.
  - apply upval_accs_spec in H as (? & ? & _ & -> & _). discriminate.
Qed.

(* ---- runtime-guarded sites: in bounds in every state, for every word -------------------------- *)
(* guarded_site on the concrete site ids *)
Lemma gs_fetch (w i n : N) : guarded_site w (S_FETCH, i, n) = fetch_guarded.
Proof. reflexivity. Qed.
Lemma gs_cache (w i n : N) :
  guarded_site w (S_CACHE_RD, i, n) = match lookup (w_op w) cache_reads with Some (_, g) => g | None => false end.
Proof. reflexivity. Qed.
Lemma gs_const (w i n : N) :
  guarded_site w (S_CONST, i, n) = match lookup (w_op w) const_sites with Some (_, g) => g | None => false end.
Proof. reflexivity. Qed.
Lemma gs_upval (w i n : N) :
  guarded_site w (S_UPVAL, i, n) = match lookup (w_op w) upval_sites with Some (_, g) => g | None => false end.
Proof. reflexivity. Qed.

Lemma guarded_must_in_bounds (s : st) (w : N) (a : acc) :
  frame_inv s -> In a (must s w) -> guarded_site w a = true -> in_bounds a = true.
Proof.
  unfold frame_inv. intros FI H G. apply must_incl in H as [H Gf].
  apply must_raw_cases in H as [->|[H|[H|H]]].
  - rewrite gs_fetch in G. specialize (Gf G).
    unfold in_bounds, a_idx, a_len. cbn [fst snd]. lia.
  - apply cache_accs_spec in H as (offs & g & o & L & _ & -> & B).
    rewrite gs_cache, L in G. exact (B G).
  - apply const_accs_spec in H as (isimm & g & k & L & -> & B).
    rewrite gs_const, L in G. specialize (B G).
    unfold in_bounds, a_idx, a_len. cbn [fst snd]. lia.
  - apply upval_accs_spec in H as (which & g & L & -> & B).
    rewrite gs_upval, L in G. specialize (B G).
    unfold in_bounds, a_idx, a_len. cbn [fst snd]. lia.
Qed.

Lemma guarded_may_in_bounds (s : st) (w : N) (a : acc) :
  may s w a = true -> guarded_site w a = true -> in_bounds a = true.
Proof.
  destruct a as [[site i] n]. unfold may, guarded_site, in_bounds, a_site, a_idx, a_len. cbn [fst snd].
  intros M G.
  destruct ((site =? S_REG_RD) || (site =? S_REG_WR)) eqn:ER.
  - assert (site =? S_FETCH = false /\ site =? S_CACHE_RD = false /\ site =? S_CONST = false /\ site =? S_UPVAL = false) as (E1 & E2 & E3 & E4)
      by (unfold S_REG_RD, S_REG_WR, S_FETCH, S_CACHE_RD, S_CONST, S_UPVAL in *; lia).
    rewrite E1, E2, E3, E4 in G. rewrite G in M. lia.
  - destruct (site =? S_PATCH_WR) eqn:EP.
    { assert (site =? S_FETCH = false /\ site =? S_CACHE_RD = false /\ site =? S_CONST = false /\ site =? S_UPVAL = false /\ site =? S_CALLSITE = false)
        as (E1 & E2 & E3 & E4 & E5)
        by (unfold S_PATCH_WR, S_FETCH, S_CACHE_RD, S_CONST, S_UPVAL, S_CALLSITE in *; lia).
      rewrite E1, E2, E3, E4, E5 in G. discriminate. }
    destruct (site =? S_PATCH_RD) eqn:EQ.
    { assert (site =? S_FETCH = false /\ site =? S_CACHE_RD = false /\ site =? S_CONST = false /\ site =? S_UPVAL = false /\ site =? S_CALLSITE = false)
        as (E1 & E2 & E3 & E4 & E5)
        by (unfold S_PATCH_RD, S_FETCH, S_CACHE_RD, S_CONST, S_UPVAL, S_CALLSITE in *; lia).
      rewrite E1, E2, E3, E4, E5 in G. discriminate. }
    destruct (site =? S_CALLSITE) eqn:EC.
    { assert (site =? S_FETCH = false /\ site =? S_CACHE_RD = false /\ site =? S_CONST = false /\ site =? S_UPVAL = false)
        as (E1 & E2 & E3 & E4)
        by (unfold S_CALLSITE, S_FETCH, S_CACHE_RD, S_CONST, S_UPVAL in *; lia).
      rewrite E1, E2, E3, E4 in G. rewrite G in M. lia. }
    destruct (site =? S_UPVAL) eqn:EU; [|discriminate].
    assert (site =? S_FETCH = false /\ site =? S_CACHE_RD = false /\ site =? S_CONST = false) as (E1 & E2 & E3)
      by (unfold S_UPVAL, S_FETCH, S_CACHE_RD, S_CONST in *; lia).
    rewrite E1, E2, E3 in G.
    destruct (lookup (w_op w) upval_sites) as [[which g]|]; [|discriminate].
    subst g. destruct which as [|p]; [lia|]. destruct p; try lia. destruct p; lia.
Qed.

Lemma guarded_sites_in_bounds_lemma (s : st) (w : N) (a : acc) :
  frame_inv s -> footprint s w a -> guarded_site w a = true -> in_bounds a = true.
Proof.
  intros FI [H|H] G; [exact (guarded_must_in_bounds s w a FI H G)|exact (guarded_may_in_bounds s w a H G)].
Qed.

(* ---- cache words and patch writes: in bounds for words on the verifier's grid ------------------ *)
Definition is_cachewords (c : chk) : bool := match c with CCacheWords => true | _ => false end.
Definition has_cachewords (op : N) : bool :=
  match lookup op vtable with Some (cs, _) => existsb is_cachewords cs | None => false end.

Definition cache_entry_ok (e : N * (list N * bool)) : bool :=
  let '(op, (offs, _)) := e in forallb (fun o => o <=? 1) offs && has_cachewords op.
Definition patch_entry_ok (e : N * list N) : bool :=
  let '(op, offs) := e in forallb (fun o => o <=? 2) offs && has_cachewords op.

Lemma cache_table_ok : forallb cache_entry_ok cache_reads = true.
Proof. vm_compute. reflexivity. Qed.
Lemma patch_table_ok : forallb patch_entry_ok patch_writes = true.
Proof. vm_compute. reflexivity. Qed.
Lemma callglobal_has_cachewords : has_cachewords OP_CallGlobal = true.
Proof. vm_compute. reflexivity. Qed.

Lemma grid_cachewords (f : func) (ip w : N) :
  verify_body f = VOk -> on_grid (f_code f) ip = true -> nthN (f_code f) ip = Some w ->
  has_cachewords (w_op w) = true -> ip + 3 <= len (f_code f).
Proof.
  intros V G Hw HC.
  destruct (verifier_linear_sound_lemma f V ip w G Hw) as (cs & adv & D & F).
  unfold decode in D.
  destruct (from_u8_bound <? w_op w); [discriminate|].
  destruct (negb (is_discriminant (w_op w))); [discriminate|].
  unfold has_cachewords in HC.
  destruct (lookup (w_op w) vtable) as [[cs' adv']|]; [|discriminate].
  injection D as -> ->.
  exact (checked_cachewords _ _ _ _ F HC).
Qed.

Lemma cache_words_in_bounds_lemma (f : func) (s : st) (w : N) (a : acc) :
  verify_body f = VOk -> on_grid (f_code f) (s_ip s) = true -> nthN (f_code f) (s_ip s) = Some w ->
  s_bclen s = len (f_code f) -> In a (cache_accs s w) -> in_bounds a = true.
Proof.
  intros V G Hw HL H.
  apply cache_accs_spec in H as (offs & g & o & L & Ho & -> & _).
  pose proof (lookup_forallb cache_entry_ok cache_reads _ _ cache_table_ok L) as T.
  cbn [cache_entry_ok] in T. apply andb_true_iff in T as [T1 T2].
  pose proof (proj1 (forallb_forall _ _) T1 _ Ho) as Ho1. cbv beta in Ho1.
  pose proof (grid_cachewords f _ w V G Hw T2) as B.
  unfold in_bounds, a_idx, a_len. cbn [fst snd]. lia.
Qed.

Lemma memN_in (x : N) (l : list N) : memN x l = true -> In x l.
Proof.
  unfold memN. intros H. apply existsb_exists in H as [y [Hy E]]. apply N.eqb_eq in E. subst y. exact Hy.
Qed.

Lemma may_patch_wr (s : st) (w i n : N) :
  may s w (S_PATCH_WR, i, n) =
  (n =? s_bclen s) && match lookup (w_op w) patch_writes with Some offs => memN i (map (N.add (s_ip s)) offs) | None => false end.
Proof. reflexivity. Qed.
Lemma may_patch_rd (s : st) (w i n : N) :
  may s w (S_PATCH_RD, i, n) = (n =? s_bclen s) && (w_op w =? OP_CallGlobal) && (i =? s_ip s).
Proof. reflexivity. Qed.

Lemma patch_in_bounds_lemma (f : func) (s : st) (w : N) (i n : N) :
  verify_body f = VOk -> on_grid (f_code f) (s_ip s) = true -> nthN (f_code f) (s_ip s) = Some w ->
  s_bclen s = len (f_code f) ->
  may s w (S_PATCH_WR, i, n) = true \/ may s w (S_PATCH_RD, i, n) = true -> i < n.
Proof.
  intros V G Hw HL [M|M]; [rewrite may_patch_wr in M|rewrite may_patch_rd in M].
  - apply andb_true_iff in M as [Mn M].
    destruct (lookup (w_op w) patch_writes) as [offs|] eqn:L; [|discriminate].
    apply memN_in in M. apply in_map_iff in M as [o [E Ho]].
    pose proof (lookup_forallb patch_entry_ok patch_writes _ _ patch_table_ok L) as T.
    cbn [patch_entry_ok] in T. apply andb_true_iff in T as [T1 T2].
    pose proof (proj1 (forallb_forall _ _) T1 _ Ho) as Ho2. cbv beta in Ho2.
    pose proof (grid_cachewords f _ w V G Hw T2) as B. lia.
  - apply andb_true_iff in M as [M Mi]. apply andb_true_iff in M as [Mn Mo].
    apply N.eqb_eq in Mo.
    assert (HC : has_cachewords (w_op w) = true) by (rewrite Mo; exact callglobal_has_cachewords).
    pose proof (grid_cachewords f _ w V G Hw HC) as B. lia.
Qed.

(* ---- all runtime guards the argument below relies on are present in the source ----------------- *)
Definition guards_present : bool :=
  fetch_guarded && reg_guarded && callsite_guarded
  && forallb (fun e : N * (bool * bool) => snd (snd e)) const_sites
  && forallb (fun e : N * (N * bool) => snd (snd e)) upval_sites.

Lemma guards_present_true : guards_present = true.
Proof. vm_compute. reflexivity. Qed.

Lemma const_site_guarded (op : N) (isimm g : bool) : lookup op const_sites = Some (isimm, g) -> g = true.
Proof.
  intros L. pose proof guards_present_true as P. unfold guards_present in P.
  apply andb_true_iff in P as [P _]. apply andb_true_iff in P as [_ P].
  exact (lookup_forallb (fun e : N * (bool * bool) => snd (snd e)) const_sites _ _ P L).
Qed.
Lemma upval_site_guarded (op which : N) (g : bool) : lookup op upval_sites = Some (which, g) -> g = true.
Proof.
  intros L. pose proof guards_present_true as P. unfold guards_present in P.
  apply andb_true_iff in P as [_ P].
  exact (lookup_forallb (fun e : N * (N * bool) => snd (snd e)) upval_sites _ _ P L).
Qed.
Lemma reg_guard_present : reg_guarded = true.
Proof. reflexivity. Qed.
Lemma callsite_guard_present : callsite_guarded = true.
Proof. reflexivity. Qed.

(* ---- the strongest true statement: on the grid and with a sound constants_len, every access is in bounds *)
Lemma on_grid_in_bounds_lemma (f : func) (s : st) (w : N) (a : acc) :
  verify_body f = VOk -> on_grid (f_code f) (s_ip s) = true -> nthN (f_code f) (s_ip s) = Some w ->
  s_bclen s = len (f_code f) -> frame_inv s ->
  footprint s w a -> in_bounds a = true.
Proof.
  intros V G Hw HL FI [H|H].
  - pose proof H as H0. apply must_incl in H as [H Gf].
    apply must_raw_cases in H as [->|[H|[H|H]]].
    + exact (fetch_in_bounds_lemma s w _ H0 eq_refl).
    + exact (cache_words_in_bounds_lemma f s w a V G Hw HL H).
    + apply const_accs_spec in H as (isimm & g & k & L & -> & B).
      specialize (B (const_site_guarded _ _ _ L)). unfold frame_inv in FI.
      unfold in_bounds, a_idx, a_len. cbn [fst snd]. lia.
    + apply upval_accs_spec in H as (which & g & L & -> & B).
      specialize (B (upval_site_guarded _ _ _ L)).
      unfold in_bounds, a_idx, a_len. cbn [fst snd]. lia.
  - destruct a as [[site i] n].
    destruct (site =? S_PATCH_WR) eqn:EP.
    { apply N.eqb_eq in EP. subst site.
      pose proof (patch_in_bounds_lemma f s w i n V G Hw HL (or_introl H)).
      unfold in_bounds, a_idx, a_len. cbn [fst snd]. lia. }
    destruct (site =? S_PATCH_RD) eqn:EQ.
    { apply N.eqb_eq in EQ. subst site.
      pose proof (patch_in_bounds_lemma f s w i n V G Hw HL (or_intror H)).
      unfold in_bounds, a_idx, a_len. cbn [fst snd]. lia. }
    apply guarded_may_in_bounds with (s := s) (w := w); [exact H|].
    unfold may in H. unfold guarded_site, a_site. cbn [fst snd].
    rewrite EP, EQ in H.
    destruct ((site =? S_REG_RD) || (site =? S_REG_WR)) eqn:ER.
    { assert (site =? S_FETCH = false /\ site =? S_CACHE_RD = false /\ site =? S_CONST = false /\ site =? S_UPVAL = false) as (E1 & E2 & E3 & E4)
        by (unfold S_REG_RD, S_REG_WR, S_FETCH, S_CACHE_RD, S_CONST, S_UPVAL in *; lia).
      rewrite E1, E2, E3, E4. exact reg_guard_present. }
    destruct (site =? S_CALLSITE) eqn:EC.
    { assert (site =? S_FETCH = false /\ site =? S_CACHE_RD = false /\ site =? S_CONST = false /\ site =? S_UPVAL = false) as (E1 & E2 & E3 & E4)
        by (unfold S_CALLSITE, S_FETCH, S_CACHE_RD, S_CONST, S_UPVAL in *; lia).
      rewrite E1, E2, E3, E4. exact callsite_guard_present. }
    destruct (site =? S_UPVAL) eqn:EU; [|discriminate].
    assert (site =? S_FETCH = false /\ site =? S_CACHE_RD = false /\ site =? S_CONST = false) as (E1 & E2 & E3)
      by (unfold S_UPVAL, S_FETCH, S_CACHE_RD, S_CONST in *; lia).
    rewrite E1, E2, E3.
    destruct (lookup (w_op w) upval_sites) as [[which g]|] eqn:L; [|lia].
    exact (upval_site_guarded _ _ _ L).
Qed.

(* ---- call paths that refresh constants_len re-establish the invariant ------------------------- *)
Lemma refreshing_call_keeps_inv (op kind : N) (caller : st) (callee : func) (b : N) :
  refreshes_clen op kind = true -> frame_inv (enter op kind caller callee b).
Proof.
  intros R. unfold frame_inv, enter. cbn [s_clen s_nconsts]. rewrite R. lia.
Qed.

(* ---- witnesses --------------------------------------------------------------------------------- *)
(* [Jump +2] [CallGlobal r0] [cache word 1] [cache word 2 whose top byte is 77] *)
Definition kf1_fn : func := Func 2 [] 0 [0x12000002; 0x4d000000; 0; 0x4d000000] [].
Definition kf1_st : st :=
  {| s_ip := 3; s_bclen := 4; s_base := 0; s_regslen := 32768; s_clen := 0; s_nconsts := 0; s_uplen := 0; s_cachelen := 0 |}.

Lemma kf1_reach : reach (f_code kf1_fn) 3.
Proof. apply (reach_step _ 0 3); [apply reach_entry|vm_compute; left; reflexivity]. Qed.

Lemma kf1_facts :
  verify kf1_fn = VOk /\ on_grid (f_code kf1_fn) 3 = false /\ nthN (f_code kf1_fn) 3 = Some 0x4d000000 /\
  In (S_CACHE_RD, 5, 4) (must kf1_st 0x4d000000) /\ in_bounds (S_CACHE_RD, 5, 4) = false /\
  may kf1_st 0x4d000000 (S_PATCH_WR, 4, 4) = true /\ may kf1_st 0x4d000000 (S_PATCH_WR, 5, 4) = true.
Proof. vm_compute. repeat split; try reflexivity. right; left; reflexivity. Qed.

(* wrapper (6 constants) calls a closure over a 1-constant function whose first word is GetGlobal r0, imm16 = 5 *)
Definition kf2_callee : func := Func 1 [COther] 0 [0x18000005; 0x17000000] [].
Definition kf2_fn : func :=
  Func 3 [CNested 0; COther; COther; COther; COther; COther] 0 [0x23000000; 0x15010000; 0x17000000] [kf2_callee].
Definition kf2_caller_st : st :=
  {| s_ip := 1; s_bclen := 3; s_base := 0; s_regslen := 32768; s_clen := 6; s_nconsts := 6; s_uplen := 0; s_cachelen := 0 |}.

Lemma kf2_facts :
  verify kf2_fn = VOk /\ In kf2_callee (f_nested kf2_fn) /\ frame_inv kf2_caller_st /\
  nthN (f_code kf2_fn) (s_ip kf2_caller_st) = Some 0x15010000 /\ w_op 0x15010000 = OP_Call /\
  In (OP_Call, 1, false) call_paths /\
  on_grid (f_code kf2_callee) 0 = true /\ nthN (f_code kf2_callee) 0 = Some 0x18000005 /\
  In (S_CONST, 5, 1) (must (enter OP_Call 1 kf2_caller_st kf2_callee 1) 0x18000005) /\
  in_bounds (S_CONST, 5, 1) = false.
Proof.
  vm_compute. repeat split; try reflexivity; try discriminate.
  - left; reflexivity.
  - right; left; reflexivity.
  - right; left; reflexivity.
Qed.

Lemma gap_facts :
  122 <= from_u8_bound /\ is_discriminant 122 = false /\ In 122 gap_bytes /\
  verify (Func 1 [] 0 [0x7a000000] []) = VUndefined.
Proof. vm_compute. repeat split; try reflexivity; try discriminate. left; reflexivity. Qed.

(* accepted functions exist and their grid is not trivial: compiler output for
   `let mut s = 0  for i in 0..6 { s = s + i }  println(s)` at -O1 (contains a CallGlobalNative with cache words) *)
Definition sample_fn : func :=
  Func 4 [] 0 [0x1000000; 0x4c000000; 0x1000000; 0x1010006; 0x1020001; 0x6000002; 0x12000003; 0x4b030000; 0x31030300;
               0x4c030000; 0x2800fffc; 0x4b010000; 0x68000101; 0; 0; 0x16000000] [].
Lemma sample_facts :
  verify sample_fn = VOk /\ on_grid (f_code sample_fn) 12 = true /\ on_grid (f_code sample_fn) 13 = false /\
  on_grid (f_code sample_fn) 15 = true /\ w_op 0x68000101 = OP_CallGlobalNative.
Proof. vm_compute. repeat split; reflexivity. Qed.
