(* C04 -- lemmas about the raw-access footprint of the dispatch loop. *)
From Aelys Require Import Base.Tactics Extracted.OpcodeNumbering Extracted.VerifierTable Extracted.DispatchSites
  Model.Verifier Model.Footprint Proofs.VerifierProofs.
Local Open Scope N_scope.

(* ---- structure of `must` -------------------------------------------------------------------- *)
Lemma cut_incl (l : list acc) (a : acc) : In a (cut l) -> In a l.
Proof.
  induction l as [|x r IH]; cbn [cut]; intros H; [exact H|].
  destruct (in_bounds x).
  - destruct H as [->|H]; [left; reflexivity|right; exact (IH H)].
  - destruct H as [->|[]]. left; reflexivity.
Qed.

Lemma must_incl (s : st) (w : N) (a : acc) :
  In a (must s w) -> In a (must_raw s w) /\ (fetch_guarded = true -> s_ip s < s_bclen s).
Proof.
  unfold must. destruct fetch_guarded.
  - destruct (s_ip s <? s_bclen s) eqn:E; [|intros []].
    intros H. split; [exact (cut_incl _ _ H)|intros _; lia].
  - intros H. split; [exact (cut_incl _ _ H)|discriminate].
Qed.

Lemma cache_accs_spec (s : st) (w : N) (a : acc) :
  In a (cache_accs s w) ->
  exists offs g o, lookup (w_op w) cache_reads = Some (offs, g) /\ In o offs /\
                   a = (S_CACHE_RD, s_ip s + 1 + o, s_bclen s) /\ (g = true -> in_bounds a = true).
Proof.
  unfold cache_accs. destruct (lookup (w_op w) cache_reads) as [[offs g]|] eqn:L; [|intros []].
  set (rd := map (fun o => (S_CACHE_RD, s_ip s + 1 + o, s_bclen s)) offs).
  assert (Hrd : In a rd -> exists o, In o offs /\ a = (S_CACHE_RD, s_ip s + 1 + o, s_bclen s)).
  { intros H. apply in_map_iff in H as [o [E Ho]]. exists o. split; [exact Ho|symmetry; exact E]. }
  destruct g.
  - destruct (forallb in_bounds rd) eqn:F; [|intros []].
    intros H. destruct (Hrd H) as [o [Ho E]]. exists offs, true, o. repeat split; try assumption.
    intros _. exact (proj1 (forallb_forall _ _) F _ H).
  - intros H. destruct (Hrd H) as [o [Ho E]]. exists offs, false, o. repeat split; try assumption. discriminate.
Qed.

Lemma const_accs_spec (s : st) (w : N) (a : acc) :
  In a (const_accs s w) ->
  exists isimm g k, lookup (w_op w) const_sites = Some (isimm, g) /\ a = (S_CONST, k, s_nconsts s) /\
                    (g = true -> k < s_clen s).
Proof.
  unfold const_accs. destruct (lookup (w_op w) const_sites) as [[isimm g]|] eqn:L; [|intros []].
  set (k := if isimm then w_imm w else w_b w).
  destruct g.
  - destruct (k <? s_clen s) eqn:E; [|intros []].
    intros [<-|[]]. exists isimm, true, k. repeat split. intros _. lia.
  - intros [<-|[]]. exists isimm, false, k. repeat split. discriminate.
Qed.

Lemma upval_accs_spec (s : st) (w : N) (a : acc) :
  In a (upval_accs s w) ->
  exists which g, lookup (w_op w) upval_sites = Some (which, g) /\ a = (S_UPVAL, w_b w, s_uplen s) /\
                  (g = true -> w_b w < s_uplen s).
Proof.
  unfold upval_accs. destruct (lookup (w_op w) upval_sites) as [[which g]|] eqn:L; [|intros []].
  destruct which as [|p]; [intros []|]. destruct p; try (intros []).
  destruct g.
  - destruct (w_b w <? s_uplen s) eqn:E; [|intros []].
    intros [<-|[]]. exists 1, true. repeat split. intros _. lia.
  - intros [<-|[]]. exists 1, false. repeat split. discriminate.
Qed.

Lemma must_raw_cases (s : st) (w : N) (a : acc) :
  In a (must_raw s w) ->
  a = (S_FETCH, s_ip s, s_bclen s) \/ In a (cache_accs s w) \/ In a (const_accs s w) \/ In a (upval_accs s w).
Proof.
  unfold must_raw. intros [<-|H]; [left; reflexivity|right].
  apply in_app_or in H as [H|H]; [left; exact H|right].
  apply in_app_or in H as [H|H]; [left; exact H|right; exact H].
Qed.

(* ---- fetch ----------------------------------------------------------------------------------- *)
Lemma fetch_guard_present : fetch_guarded = true.
Proof. reflexivity. Qed.

Lemma fetch_in_bounds_lemma (s : st) (w : N) (a : acc) :
  In a (must s w) -> a_site a = S_FETCH -> in_bounds a = true.
Proof.
  intros H Hs. apply must_incl in H as [H G]. specialize (G fetch_guard_present).
  apply must_raw_cases in H as [->|[H|[H|H]]].
  - unfold in_bounds, a_idx, a_len. cbn [fst snd]. lia.
  - apply cache_accs_spec in H as (? & ? & ? & _ & _ & -> & _). discriminate.
  - apply const_accs_spec in H as (? & ? & ? & _ & -> & _). discriminate.
  - apply upval_accs_spec in H as (? & ? & _ & -> & _). discriminate.
Qed.

(* ---- runtime-guarded sites: in bounds in every state, for every word -------------------------- *)
(* guarded_site on the concrete site ids *)
Lemma gs_fetch (w i n : N) : guarded_site w (S_FETCH, i, n) = fetch_guarded.
Proof. reflexivity. Qed.
Lemma gs_cache (w i n : N) :
  guarded_site w (S_CACHE_RD, i, n) = match lookup (w_op w) cache_reads with Some (_, g) => g | None => false end.
Proof. reflexivity. Qed.
Lemma gs_const (w i n : N) :
  guarded_site w (S_CONST, i, n) = match lookup (w_op w) const_sites with Some (_, g) => g | None => false end.
Proof. reflexivity. Qed.
Lemma gs_upval (w i n : N) :
  guarded_site w (S_UPVAL, i, n) = match lookup (w_op w) upval_sites with Some (_, g) => g | None => false end.
Proof. reflexivity. Qed.

Lemma guarded_must_in_bounds (s : st) (w : N) (a : acc) :
  frame_inv s -> In a (must s w) -> guarded_site w a = true -> in_bounds a = true.
Proof.
  unfold frame_inv. intros FI H G. apply must_incl in H as [H Gf].
  apply must_raw_cases in H as [->|[H|[H|H]]].
  - rewrite gs_fetch in G. specialize (Gf G).
    unfold in_bounds, a_idx, a_len. cbn [fst snd]. lia.
  - apply cache_accs_spec in H as (offs & g & o & L & _ & -> & B).
    rewrite gs_cache, L in G. exact (B G).
  - apply const_accs_spec in H as (isimm & g & k & L & -> & B).
    rewrite gs_const, L in G. specialize (B G).
    unfold in_bounds, a_idx, a_len. cbn [fst snd]. lia.
  - apply upval_accs_spec in H as (which & g & L & -> & B).
    rewrite gs_upval, L in G. specialize (B G).
    unfold in_bounds, a_idx, a_len. cbn [fst snd]. lia.
Qed.

Lemma guarded_may_in_bounds (s : st) (w : N) (a : acc) :
  may s w a = true -> guarded_site w a = true -> in_bounds a = true.
Proof.
  destruct a as [[site i] n]. unfold may, guarded_site, in_bounds, a_site, a_idx, a_len. cbn [fst snd].
  intros M G.
  destruct ((site =? S_REG_RD) || (site =? S_REG_WR)) eqn:ER.
  - assert (site =? S_FETCH = false /\ site =? S_CACHE_RD = false /\ site =? S_CONST = false /\ site =? S_UPVAL = false) as (E1 & E2 & E3 & E4)
      by (unfold S_REG_RD, S_REG_WR, S_FETCH, S_CACHE_RD, S_CONST, S_UPVAL in *; lia).
    rewrite E1, E2, E3, E4 in G. rewrite G in M. lia.
  - destruct (site =? S_PATCH_WR) eqn:EP.
    { assert (site =? S_FETCH = false /\ site =? S_CACHE_RD = false /\ site =? S_CONST = false /\ site =? S_UPVAL = false /\ site =? S_CALLSITE = false)
        as (E1 & E2 & E3 & E4 & E5)
        by (unfold S_PATCH_WR, S_FETCH, S_CACHE_RD, S_CONST, S_UPVAL, S_CALLSITE in *; lia).
      rewrite E1, E2, E3, E4, E5 in G. discriminate. }
    destruct (site =? S_PATCH_RD) eqn:EQ.
    { assert (site =? S_FETCH = false /\ site =? S_CACHE_RD = false /\ site =? S_CONST = false /\ site =? S_UPVAL = false /\ site =? S_CALLSITE = false)
        as (E1 & E2 & E3 & E4 & E5)
        by (unfold S_PATCH_RD, S_FETCH, S_CACHE_RD, S_CONST, S_UPVAL, S_CALLSITE in *; lia).
      rewrite E1, E2, E3, E4, E5 in G. discriminate. }
    destruct (site =? S_CALLSITE) eqn:EC.
    { assert (site =? S_FETCH = false /\ site =? S_CACHE_RD = false /\ site =? S_CONST = false /\ site =? S_UPVAL = false)
        as (E1 & E2 & E3 & E4)
        by (unfold S_CALLSITE, S_FETCH, S_CACHE_RD, S_CONST, S_UPVAL in *; lia).
      rewrite E1, E2, E3, E4 in G. rewrite G in M. lia. }
    destruct (site =? S_UPVAL) eqn:EU; [|discriminate].
    assert (site =? S_FETCH = false /\ site =? S_CACHE_RD = false /\ site =? S_CONST = false) as (E1 & E2 & E3)
      by (unfold S_UPVAL, S_FETCH, S_CACHE_RD, S_CONST in *; lia).
    rewrite E1, E2, E3 in G.
    destruct (lookup (w_op w) upval_sites) as [[which g]|]; [|discriminate].
    subst g. destruct which as [|p]; [lia|]. destruct p; try lia. destruct p; lia.
Qed.

Lemma guarded_sites_in_bounds_lemma (s : st) (w : N) (a : acc) :
  frame_inv s -> footprint s w a -> guarded_site w a = true -> in_bounds a = true.
Proof.
  intros FI [H|H] G; [exact (guarded_must_in_bounds s w a FI H G)|exact (guarded_may_in_bounds s w a H G)].
Qed.

(* ---- cache words and patch writes: in bounds for words on the verifier's grid ------------------ *)
Definition is_cachewords (c : chk) : bool := match c with CCacheWords => true | _ => false end.
Definition has_cachewords (op : N) : bool :=
  match lookup op vtable with Some (cs, _) => existsb is_cachewords cs | None => false end.

Definition cache_entry_ok (e : N * (list N * bool)) : bool :=
  let '(op, (offs, _)) := e in forallb (fun o => o <=? 1) offs && has_cachewords op.
Definition patch_entry_ok (e : N * list N) : bool :=
  let '(op, offs) := e in forallb (fun o => o <=? 2) offs && has_cachewords op.

Lemma cache_table_ok : forallb cache_entry_ok cache_reads = true.
Proof. vm_compute. reflexivity. Qed.
Lemma patch_table_ok : forallb patch_entry_ok patch_writes = true.
Proof. vm_compute. reflexivity. Qed.

Lemma grid_cachewords (f : func) (ip w : N) :
  verify_body f = VOk -> grid (f_code f) ip -> nthN (f_code f) ip = Some w ->
  has_cachewords (w_op w) = true -> ip + 3 <= len (f_code f).
Proof.
  intros V G Hw HC.
  destruct (grid_checked f ip w V G Hw) as (cs & adv & D & F).
  apply decode_entry in D. unfold has_cachewords in HC. rewrite D in HC.
  exact (checked_cachewords _ _ _ _ F HC).
Qed.

Lemma cache_words_in_bounds_grid (f : func) (s : st) (w : N) (a : acc) :
  verify_body f = VOk -> grid (f_code f) (s_ip s) -> nthN (f_code f) (s_ip s) = Some w ->
  s_bclen s = len (f_code f) -> In a (cache_accs s w) -> in_bounds a = true.
Proof.
  intros V G Hw HL H.
  apply cache_accs_spec in H as (offs & g & o & L & Ho & -> & _).
  pose proof (lookup_forallb cache_entry_ok cache_reads _ _ cache_table_ok L) as T.
  cbn [cache_entry_ok] in T. apply andb_true_iff in T as [T1 T2].
  pose proof (proj1 (forallb_forall _ _) T1 _ Ho) as Ho1. cbv beta in Ho1.
  pose proof (grid_cachewords f _ w V G Hw T2) as B.
  unfold in_bounds, a_idx, a_len. cbn [fst snd]. lia.
Qed.

Lemma cache_words_in_bounds_lemma (f : func) (s : st) (w : N) (a : acc) :
  verify_body f = VOk -> on_grid (f_code f) (s_ip s) = true -> nthN (f_code f) (s_ip s) = Some w ->
  s_bclen s = len (f_code f) -> In a (cache_accs s w) -> in_bounds a = true.
Proof. intros V G. exact (cache_words_in_bounds_grid f s w a V (on_grid_sound _ _ G)). Qed.

Lemma memN_in (x : N) (l : list N) : memN x l = true -> In x l.
Proof.
  unfold memN. intros H. apply existsb_exists in H as [y [Hy E]]. apply N.eqb_eq in E. subst y. exact Hy.
Qed.

Lemma may_patch_wr (s : st) (w i n : N) :
  may s w (S_PATCH_WR, i, n) =
  (n =? s_bclen s) && match lookup (w_op w) patch_writes with Some offs => memN i (map (N.add (s_ip s)) offs) | None => false end.
Proof. reflexivity. Qed.
Lemma may_patch_rd (s : st) (w i n : N) :
  may s w (S_PATCH_RD, i, n) =
  (n =? s_bclen s) && match lookup (w_op w) patch_reads with Some offs => memN i (map (N.add (s_ip s)) offs) | None => false end.
Proof. reflexivity. Qed.

Lemma patch_reads_ok : forallb patch_entry_ok patch_reads = true.
Proof. vm_compute. reflexivity. Qed.

Lemma patch_in_bounds_lemma (f : func) (s : st) (w : N) (i n : N) :
  verify_body f = VOk -> grid (f_code f) (s_ip s) -> nthN (f_code f) (s_ip s) = Some w ->
  s_bclen s = len (f_code f) ->
  may s w (S_PATCH_WR, i, n) = true \/ may s w (S_PATCH_RD, i, n) = true -> i < n.
Proof.
  intros V G Hw HL [M|M]; [rewrite may_patch_wr in M|rewrite may_patch_rd in M].
  - apply andb_true_iff in M as [Mn M].
    destruct (lookup (w_op w) patch_writes) as [offs|] eqn:L; [|discriminate].
    apply memN_in in M. apply in_map_iff in M as [o [E Ho]].
    pose proof (lookup_forallb patch_entry_ok patch_writes _ _ patch_table_ok L) as T.
    cbn [patch_entry_ok] in T. apply andb_true_iff in T as [T1 T2].
    pose proof (proj1 (forallb_forall _ _) T1 _ Ho) as Ho2. cbv beta in Ho2.
    pose proof (grid_cachewords f _ w V G Hw T2) as B. lia.
  - apply andb_true_iff in M as [Mn M].
    destruct (lookup (w_op w) patch_reads) as [offs|] eqn:L; [|discriminate].
    apply memN_in in M. apply in_map_iff in M as [o [E Ho]].
    pose proof (lookup_forallb patch_entry_ok patch_reads _ _ patch_reads_ok L) as T.
    cbn [patch_entry_ok] in T. apply andb_true_iff in T as [T1 T2].
    pose proof (proj1 (forallb_forall _ _) T1 _ Ho) as Ho2. cbv beta in Ho2.
    pose proof (grid_cachewords f _ w V G Hw T2) as B. lia.
Qed.

(* ---- all runtime guards the argument below relies on are present in the source ----------------- *)
Definition guards_present : bool :=
  fetch_guarded && reg_guarded && callsite_guarded
  && forallb (fun e : N * (bool * bool) => snd (snd e)) const_sites
  && forallb (fun e : N * (N * bool) => snd (snd e)) upval_sites
  && forallb (fun e : N * (list N * bool) => snd (snd e)) cache_reads.

Lemma guards_present_true : guards_present = true.
Proof. vm_compute. reflexivity. Qed.

Lemma const_site_guarded (op : N) (isimm g : bool) : lookup op const_sites = Some (isimm, g) -> g = true.
Proof.
  intros L. pose proof guards_present_true as P. unfold guards_present in P.
  apply andb_true_iff in P as [P _]. apply andb_true_iff in P as [P _]. apply andb_true_iff in P as [_ P].
  exact (lookup_forallb (fun e : N * (bool * bool) => snd (snd e)) const_sites _ _ P L).
Qed.
Lemma upval_site_guarded (op which : N) (g : bool) : lookup op upval_sites = Some (which, g) -> g = true.
Proof.
  intros L. pose proof guards_present_true as P. unfold guards_present in P.
  apply andb_true_iff in P as [P _]. apply andb_true_iff in P as [_ P].
  exact (lookup_forallb (fun e : N * (N * bool) => snd (snd e)) upval_sites _ _ P L).
Qed.
Lemma reg_guard_present : reg_guarded = true.
Proof. reflexivity. Qed.
Lemma callsite_guard_present : callsite_guarded = true.
Proof. reflexivity. Qed.

(* ---- the strongest true statement: on the grid and with a sound constants_len, every access is in bounds *)
Lemma grid_in_bounds_lemma (f : func) (s : st) (w : N) (a : acc) :
  verify_body f = VOk -> grid (f_code f) (s_ip s) -> nthN (f_code f) (s_ip s) = Some w ->
  s_bclen s = len (f_code f) -> frame_inv s ->
  footprint s w a -> in_bounds a = true.
Proof.
  intros V G Hw HL FI [H|H].
  - pose proof H as H0. apply must_incl in H as [H Gf].
    apply must_raw_cases in H as [->|[H|[H|H]]].
    + exact (fetch_in_bounds_lemma s w _ H0 eq_refl).
    + exact (cache_words_in_bounds_grid f s w a V G Hw HL H).
    + apply const_accs_spec in H as (isimm & g & k & L & -> & B).
      specialize (B (const_site_guarded _ _ _ L)). unfold frame_inv in FI.
      unfold in_bounds, a_idx, a_len. cbn [fst snd]. lia.
    + apply upval_accs_spec in H as (which & g & L & -> & B).
      specialize (B (upval_site_guarded _ _ _ L)).
      unfold in_bounds, a_idx, a_len. cbn [fst snd]. lia.
  - destruct a as [[site i] n].
    destruct (site =? S_PATCH_WR) eqn:EP.
    { apply N.eqb_eq in EP. subst site.
      pose proof (patch_in_bounds_lemma f s w i n V G Hw HL (or_introl H)).
      unfold in_bounds, a_idx, a_len. cbn [fst snd]. lia. }
    destruct (site =? S_PATCH_RD) eqn:EQ.
    { apply N.eqb_eq in EQ. subst site.
      pose proof (patch_in_bounds_lemma f s w i n V G Hw HL (or_intror H)).
      unfold in_bounds, a_idx, a_len. cbn [fst snd]. lia. }
    apply guarded_may_in_bounds with (s := s) (w := w); [exact H|].
    unfold may in H. unfold guarded_site, a_site. cbn [fst snd].
    rewrite EP, EQ in H.
    destruct ((site =? S_REG_RD) || (site =? S_REG_WR)) eqn:ER.
    { assert (site =? S_FETCH = false /\ site =? S_CACHE_RD = false /\ site =? S_CONST = false /\ site =? S_UPVAL = false) as (E1 & E2 & E3 & E4)
        by (unfold S_REG_RD, S_REG_WR, S_FETCH, S_CACHE_RD, S_CONST, S_UPVAL in *; lia).
      rewrite E1, E2, E3, E4. exact reg_guard_present. }
    destruct (site =? S_CALLSITE) eqn:EC.
    { assert (site =? S_FETCH = false /\ site =? S_CACHE_RD = false /\ site =? S_CONST = false /\ site =? S_UPVAL = false) as (E1 & E2 & E3 & E4)
        by (unfold S_CALLSITE, S_FETCH, S_CACHE_RD, S_CONST, S_UPVAL in *; lia).
      rewrite E1, E2, E3, E4. exact callsite_guard_present. }
    destruct (site =? S_UPVAL) eqn:EU; [|discriminate].
    assert (site =? S_FETCH = false /\ site =? S_CACHE_RD = false /\ site =? S_CONST = false) as (E1 & E2 & E3)
      by (unfold S_UPVAL, S_FETCH, S_CACHE_RD, S_CONST in *; lia).
    rewrite E1, E2, E3.
    destruct (lookup (w_op w) upval_sites) as [[which g]|] eqn:L; [|lia].
    exact (upval_site_guarded _ _ _ L).
Qed.

Lemma on_grid_in_bounds_lemma (f : func) (s : st) (w : N) (a : acc) :
  verify_body f = VOk -> on_grid (f_code f) (s_ip s) = true -> nthN (f_code f) (s_ip s) = Some w ->
  s_bclen s = len (f_code f) -> frame_inv s ->
  footprint s w a -> in_bounds a = true.
Proof. intros V G. exact (grid_in_bounds_lemma f s w a V (on_grid_sound _ _ G)). Qed.

(* ---- call paths that refresh constants_len re-establish the invariant ------------------------- *)
Lemma refreshing_call_keeps_inv (op kind : N) (caller : st) (callee : func) (b : N) :
  refreshes_clen op kind = true -> frame_inv (enter op kind caller callee b).
Proof.
  intros R. unfold frame_inv, enter. cbn [s_clen s_nconsts]. rewrite R. lia.
Qed.

(* ---- every call path refreshes constants_len (KF-C04-2 repaired) -------------------------------- *)
Definition all_calls_refresh : bool :=
  forallb (fun e : N * N * bool => snd e) call_paths && return_restores_clen.

Lemma all_calls_refresh_true : all_calls_refresh = true.
Proof. vm_compute. reflexivity. Qed.

Lemma refreshes_always (op kind : N) : refreshes_clen op kind = true.
Proof.
  pose proof all_calls_refresh_true as P. unfold all_calls_refresh in P.
  apply andb_true_iff in P as [P _]. unfold refreshes_clen.
  apply forallb_forall. intros [[o k] u] Hin.
  pose proof (proj1 (forallb_forall _ _) P _ Hin) as Hu. cbn [snd] in Hu. subst u.
  destruct ((o =? op) && (k =? kind)); reflexivity.
Qed.

Lemma enter_frame_inv (op kind : N) (caller : st) (callee : func) (b : N) :
  frame_inv (enter op kind caller callee b).
Proof. exact (refreshing_call_keeps_inv op kind caller callee b (refreshes_always op kind)). Qed.

Lemma resume_is_caller (callee caller : st) : resume callee caller = caller.
Proof.
  pose proof all_calls_refresh_true as P. unfold all_calls_refresh in P.
  apply andb_true_iff in P as [_ P]. unfold resume. rewrite P. reflexivity.
Qed.

(* ---- control flow of an accepted function never leaves the grid (KF-C04-1 repaired) ------------- *)
Lemma has_jump_checked (f : func) (ip w : N) :
  verify_body f = VOk -> grid (f_code f) ip -> nthN (f_code f) ip = Some w -> has_jump (w_op w) = true ->
  let t := Z.to_N (jump_target ip w) in
  t <= len (f_code f) /\ (t = len (f_code f) \/ grid (f_code f) t).
Proof.
  intros V G Hw HJ.
  destruct (grid_checked f ip w V G Hw) as (cs & adv & D & F).
  apply decode_entry in D. unfold has_jump in HJ. rewrite D in HJ.
  exact (checked_jump (env_of f) ip w cs F HJ).
Qed.

(* table facts tying the dispatch arms to the verifier: every arm that jumps is jump-checked, and the arms that
   skip cache words are exactly the verifier's skip set *)
Lemma dispatch_jumps_verified : forallb has_jump dispatch_jump_ops = true.
Proof. vm_compute. reflexivity. Qed.

Lemma skip_sets_agree : all_below (fun b => Bool.eqb (memN b dispatch_skip_ops) (existsb (N.eqb b) skip_opcodes)) 256 0 = true.
Proof. vm_compute. reflexivity. Qed.

(* the loop decodes the instruction word exactly like the verifier *)
Lemma decode_fields_agree : disp_op_shift = op_shift /\ disp_a_shift = a_shift /\ disp_b_shift = b_shift.
Proof. repeat split; reflexivity. Qed.

Lemma w_op_lt (w : N) : w_op w < 256.
Proof. unfold w_op. apply N.mod_lt. discriminate. Qed.

Lemma disp_adv_is_adv (w : N) : disp_adv w = adv_of w.
Proof.
  unfold disp_adv, adv_of.
  pose proof (all_below_spec _ _ _ skip_sets_agree (w_op w)) as S.
  assert (E : Bool.eqb (memN (w_op w) dispatch_skip_ops) (existsb (N.eqb (w_op w)) skip_opcodes) = true)
    by (apply S; [lia|pose proof (w_op_lt w); lia]).
  apply eqb_prop in E. rewrite E. reflexivity.
Qed.

Lemma succ_on_grid (f : func) (ip t : N) :
  verify_body f = VOk -> grid (f_code f) ip -> In t (succs (f_code f) ip) ->
  t < len (f_code f) -> grid (f_code f) t.
Proof.
  intros V G Hin Ht. unfold succs in Hin.
  destruct (nthN (f_code f) ip) as [w|] eqn:Hw; [|destruct Hin].
  apply in_app_or in Hin as [Hin|Hin].
  - destruct (memN (w_op w) dispatch_jump_ops) eqn:HJ; [|destruct Hin].
    destruct Hin as [<-|[]].
    assert (HJ' : has_jump (w_op w) = true).
    { apply memN_in in HJ. exact (proj1 (forallb_forall _ _) dispatch_jumps_verified _ HJ). }
    destruct (has_jump_checked f ip w V G Hw HJ') as [_ [E|G']]; [lia|exact G'].
  - apply in_app_or in Hin as [Hin|Hin].
    + destruct (memN (w_op w) dispatch_redo_ops); [|destruct Hin]. destruct Hin as [<-|[]]. exact G.
    + destruct (w_op w =? OP_Jump); [destruct Hin|].
      destruct Hin as [<-|[]]. rewrite disp_adv_is_adv. exact (grid_step _ ip w G Hw).
Qed.

Lemma reach_grid (f : func) (ip : N) :
  verify_body f = VOk -> reach (f_code f) ip -> ip < len (f_code f) -> grid (f_code f) ip.
Proof.
  intros V R. induction R as [|ip t R IH Hin]; intros Ht; [apply grid_0|].
  assert (Hip : ip < len (f_code f)).
  { unfold succs in Hin. destruct (nthN (f_code f) ip) as [w|] eqn:Hw; [exact (nthN_lt _ _ _ Hw)|destruct Hin]. }
  exact (succ_on_grid f ip t V (IH Hip) Hin Ht).
Qed.

(* the full statement for one function: every word reachable by its own control flow *)
Lemma reach_in_bounds_lemma (f : func) (s : st) (w : N) (a : acc) :
  verify_body f = VOk -> reach (f_code f) (s_ip s) -> nthN (f_code f) (s_ip s) = Some w ->
  s_bclen s = len (f_code f) -> frame_inv s -> footprint s w a -> in_bounds a = true.
Proof.
  intros V R Hw HL FI.
  exact (grid_in_bounds_lemma f s w a V (reach_grid f _ V R (nthN_lt _ _ _ Hw)) Hw HL FI).
Qed.

(* ---- the machine: every frame keeps the invariant ------------------------------------------------ *)
Definition frame_ok (fr : frame) : Prop :=
  verify_body (fr_fn fr) = VOk /\ s_bclen (fr_st fr) = len (f_code (fr_fn fr)) /\ frame_inv (fr_st fr) /\
  (s_ip (fr_st fr) < len (f_code (fr_fn fr)) -> grid (f_code (fr_fn fr)) (s_ip (fr_st fr))).

Lemma entry_ok (op kind : N) (caller : st) (callee : func) (b : N) :
  verify callee = VOk -> frame_ok {| fr_fn := callee; fr_st := enter op kind caller callee b |}.
Proof.
  intros V. unfold frame_ok. cbn [fr_fn fr_st].
  split; [exact (verify_body_of_verify _ V)|]. split; [reflexivity|]. split; [apply enter_frame_inv|].
  intros _. apply grid_0.
Qed.

Lemma mstep_keeps_ok (c1 c2 : list frame) : mstep c1 c2 -> Forall frame_ok c1 -> Forall frame_ok c2.
Proof.
  intros M F. destruct M as [fr rest t Hin|fr rest r c|fr rest w kind callee b Hw Hc Hnt V|fr rest w kind callee b Hw Ht V|fr caller rest|fr].
  - inversion F as [|x l (Vb & HL & FI & G) Fr]; subst. constructor; [|exact Fr].
    unfold frame_ok. cbn [fr_fn fr_st set_ip s_ip s_bclen]. repeat split; try assumption.
    intros Ht.
    assert (Hip : s_ip (fr_st fr) < len (f_code (fr_fn fr))).
    { unfold succs in Hin. destruct (nthN (f_code (fr_fn fr)) (s_ip (fr_st fr))) as [w|] eqn:Hw;
        [exact (nthN_lt _ _ _ Hw)|destruct Hin]. }
    exact (succ_on_grid _ _ t Vb (G Hip) Hin Ht).
  - inversion F as [|x l (Vb & HL & FI & G) Fr]; subst. constructor; [|exact Fr].
    unfold frame_ok. cbn [fr_fn fr_st set_env s_ip s_bclen]. repeat split; assumption.
  - inversion F as [|x l (Vb & HL & FI & G) Fr]; subst.
    constructor; [exact (entry_ok _ _ _ _ _ V)|]. constructor; [|exact Fr].
    unfold frame_ok. cbn [fr_fn fr_st set_ip s_ip s_bclen]. repeat split; try assumption.
    intros _. rewrite disp_adv_is_adv. exact (grid_step _ _ w (G (nthN_lt _ _ _ Hw)) Hw).
  - inversion F as [|x l _ Fr]; subst. constructor; [exact (entry_ok _ _ _ _ _ V)|exact Fr].
  - inversion F as [|x l _ Fr]; subst. inversion Fr as [|y l' Hc Fr']; subst.
    constructor; [|exact Fr']. rewrite resume_is_caller. destruct caller as [cf cs]. exact Hc.
  - constructor.
Qed.

Lemma init_ok (f : func) (r c : N) : verify f = VOk -> frame_ok {| fr_fn := f; fr_st := init_st f r c |}.
Proof.
  intros V. unfold frame_ok, frame_inv. cbn [fr_fn fr_st init_st s_ip s_bclen s_clen s_nconsts].
  split; [exact (verify_body_of_verify _ V)|]. split; [reflexivity|]. split; [lia|]. intros _. apply grid_0.
Qed.

Lemma mreach_ok (f : func) (cfg : list frame) : verify f = VOk -> mreach f cfg -> Forall frame_ok cfg.
Proof.
  intros V R. induction R as [r c|c1 c2 R IH M].
  - constructor; [exact (init_ok f r c V)|constructor].
  - exact (mstep_keeps_ok c1 c2 M IH).
Qed.

(* FULL STATEMENT over the machine: whatever the accepted entry function calls, returns to, or jumps to,
   the word the loop fetches next has all its raw accesses inside their buffers *)
Lemma verified_exec_in_bounds_lemma (f : func) (fr : frame) (rest : list frame) (w : N) (a : acc) :
  verify f = VOk -> mreach f (fr :: rest) ->
  nthN (f_code (fr_fn fr)) (s_ip (fr_st fr)) = Some w ->
  footprint (fr_st fr) w a -> in_bounds a = true.
Proof.
  intros V R Hw HF.
  pose proof (mreach_ok f _ V R) as F. inversion F as [|x l (Vb & HL & FI & G) Fr]; subst.
  exact (grid_in_bounds_lemma (fr_fn fr) (fr_st fr) w a Vb (G (nthN_lt _ _ _ Hw)) Hw HL FI HF).
Qed.

(* ---- raw-access census: every raw access found in the dispatch arms has its entry in the tables the footprint uses ---- *)
Definition model_count (op kind : N) : N :=
  if kind =? S_CACHE_RD then match lookup op cache_reads with Some (offs, _) => len offs | None => 0 end
  else if kind =? S_PATCH_WR then match lookup op patch_writes with Some offs => len offs | None => 0 end
  else if kind =? S_PATCH_RD then match lookup op patch_reads with Some offs => len offs | None => 0 end
  else if kind =? S_CONST then match lookup op const_sites with Some _ => 1 | None => 0 end
  else if kind =? S_UPVAL then match lookup op upval_sites with Some _ => 1 | None => 0 end
  else if kind =? S_CALLSITE then (if op =? OP_CallGlobalMono then 1 else 0)
  else 0.

Definition in_census (op kind : N) : bool :=
  existsb (fun e : N * N * N => (fst (fst e) =? op) && (snd (fst e) =? kind)) raw_census.

Definition census_covered : bool :=
  forallb (fun e : N * N * N => model_count (fst (fst e)) (snd (fst e)) =? snd e) raw_census
  && forallb (fun e : N * (list N * bool) => in_census (fst e) S_CACHE_RD) cache_reads
  && forallb (fun e : N * list N => in_census (fst e) S_PATCH_WR) patch_writes
  && forallb (fun e : N * list N => in_census (fst e) S_PATCH_RD) patch_reads
  && forallb (fun e : N * (bool * bool) => in_census (fst e) S_CONST) const_sites
  && forallb (fun e : N * (N * bool) => in_census (fst e) S_UPVAL) upval_sites
  && in_census OP_CallGlobalMono S_CALLSITE.

Lemma census_covered_true : census_covered = true.
Proof. vm_compute. reflexivity. Qed.

(* ---- from_u8 (KF-C04-3 repaired) ------------------------------------------------------------------ *)
Lemma from_u8_sweep : all_below (fun b => implb (from_u8_accepts b) (is_discriminant b)) 256 0 = true.
Proof. vm_compute. reflexivity. Qed.

Lemma from_u8_ranges_bytes : forallb (fun r : N * N => snd r <=? 255) from_u8_ranges = true.
Proof. vm_compute. reflexivity. Qed.

Lemma from_u8_total_lemma (b : N) : from_u8_accepts b = true -> is_discriminant b = true.
Proof.
  intros H.
  assert (b < 256).
  { unfold from_u8_accepts in H. apply existsb_exists in H as [r [Hr H]].
    pose proof (proj1 (forallb_forall _ _) from_u8_ranges_bytes _ Hr) as B. cbv beta in B.
    apply andb_true_iff in H as [_ H]. lia. }
  pose proof (all_below_spec _ _ _ from_u8_sweep b) as S.
  assert (implb (from_u8_accepts b) (is_discriminant b) = true) as I by (apply S; lia).
  rewrite H in I. exact I.
Qed.

Lemma decode_never_undefined (b : N) : decode b <> DUndefined.
Proof.
  unfold decode. destruct (from_u8_accepts b) eqn:A; cbn [negb]; [|discriminate].
  rewrite (from_u8_total_lemma b A). cbn [negb]. destruct (lookup b vtable) as [[cs adv]|]; discriminate.
Qed.

Lemma scan_never_undefined (e : venv) (code : list N) : forall fuel i, scan fuel e code i <> VUndefined.
Proof.
  induction fuel as [|k IH]; intros i; cbn [scan]; [discriminate|].
  destruct (nthN code i) as [w|]; [|discriminate].
  destruct (decode (w_op w)) as [| | |cs adv] eqn:D; try discriminate.
  - exfalso. exact (decode_never_undefined _ D).
  - destruct (forallb (check_ok e i w) cs); [apply IH|discriminate].
Qed.

(* ---- regression facts: the former witnesses on the repaired code --------------------------------- *)
(* [Jump +2] [CallGlobal r0] [cache word 1] [cache word 2 whose top byte is 77]: was accepted *)
Definition kf1_fn : func := Func 2 [] 0 [0x12000002; 0x4d000000; 0; 0x4d000000] [].
Definition kf1_st : st :=
  {| s_ip := 3; s_bclen := 4; s_base := 0; s_regslen := 32768; s_clen := 0; s_nconsts := 0; s_uplen := 0; s_cachelen := 0 |}.
Lemma kf1_now :
  verify kf1_fn = VReject /\ on_grid (f_code kf1_fn) 3 = false /\
  must kf1_st 0x4d000000 = [(S_FETCH, 3, 4)].          (* and even off the grid the cache words are no longer touched *)
Proof. vm_compute. repeat split; reflexivity. Qed.

(* wrapper (6 constants) calls a closure over [GetGlobal r0, b=0 c=5][Return0] with 1 constant: was an overrun *)
Definition kf2_callee : func := Func 1 [COther] 0 [0x18000005; 0x17000000] [].
Definition kf2_fn : func :=
  Func 3 [CNested 0; COther; COther; COther; COther; COther] 0 [0x23000000; 0x15010000; 0x17000000] [kf2_callee].
Definition kf2_caller_st : st :=
  {| s_ip := 1; s_bclen := 3; s_base := 0; s_regslen := 32768; s_clen := 6; s_nconsts := 6; s_uplen := 0; s_cachelen := 0 |}.
Lemma kf2_now :
  verify kf2_fn = VOk /\
  must (enter OP_Call 1 kf2_caller_st kf2_callee 1) 0x18000005 = [(S_FETCH, 0, 2); (S_CONST, 0, 1)] /\
  s_clen (enter OP_Call 1 kf2_caller_st kf2_callee 1) = 1.
Proof. vm_compute. repeat split; reflexivity. Qed.

Lemma gap_now : gap_bytes = [] /\ verify (Func 1 [] 0 [0x7a000000] []) = VReject.
Proof. vm_compute. split; reflexivity. Qed.

(* accepted functions exist and their grid is not trivial: compiler output for
   `let mut s = 0  for i in 0..6 { s = s + i }  println(s)` at -O1 (contains a CallGlobalNative with cache words) *)
Definition sample_fn : func :=
  Func 4 [] 0 [0x1000000; 0x4c000000; 0x1000000; 0x1010006; 0x1020001; 0x6000002; 0x12000003; 0x4b030000; 0x31030300;
               0x4c030000; 0x2800fffc; 0x4b010000; 0x68000101; 0; 0; 0x16000000] [].
Lemma sample_facts :
  verify sample_fn = VOk /\ on_grid (f_code sample_fn) 12 = true /\ on_grid (f_code sample_fn) 13 = false /\
  on_grid (f_code sample_fn) 15 = true /\ w_op 0x68000101 = OP_CallGlobalNative.
Proof. vm_compute. repeat split; reflexivity. Qed.

(* the machine really runs: entry, a step to the loop head, the native call word at 12 *)
Lemma sample_machine :
  exists cfg, mreach sample_fn cfg /\
    match cfg with fr :: _ => s_ip (fr_st fr) = 1 /\ fr_fn fr = sample_fn | [] => False end.
Proof.
  eexists. split.
  - eapply mr_step; [apply (mr_init sample_fn 32768 0)|]. apply (ms_next _ _ 1). vm_compute. left. reflexivity.
  - cbn. split; reflexivity.
Qed.
