(* A program transformation rewrites the bodies of the closures a program creates.  [Tv] / [Tst]
   push a body transformer [TB] through values and states; every primitive of the evaluator
   commutes with them (none looks inside a closure body).  Simulation proofs for the optimizer
   passes (Fold, Dce) are stated with these maps, so they cover programs that create and call
   functions, not only closure-free ones. *)
From Coq Require Import String.
From Aelys Require Import Base.Tactics Model.Lang Model.Eval.
Local Open Scope Z_scope.

Section ValueMap.
Variable TB : list stmt -> list stmt.

Definition Tv (v : value) : value :=
  match v with
  | VClo n ps body env => VClo n ps (TB body) env
  | _ => v
  end.

Definition Tg (p : string * value) : string * value := (fst p, Tv (snd p)).

Definition Tst (st : state) : state :=
  mkState (map Tv (cells st)) (map (map Tv) (objs st)) (map Tg (globals st)) (out st).

Definition Tr (r : res value) : res value :=
  match r with ROk v => ROk (Tv v) | RErr k => RErr k | RFuel => RFuel end.
Definition Trl (r : res (list value)) : res (list value) :=
  match r with ROk vs => ROk (map Tv vs) | RErr k => RErr k | RFuel => RFuel end.
Definition Tc (c : ctl) : ctl :=
  match c with CNormal v => CNormal (Tv v) | CReturn v => CReturn (Tv v) | CBreak => CBreak | CContinue => CContinue end.
Definition Trc (r : res ctl) : res ctl :=
  match r with ROk c => ROk (Tc c) | RErr k => RErr k | RFuel => RFuel end.
Definition Trce (r : res (ctl * list (string * nat))) : res (ctl * list (string * nat)) :=
  match r with ROk (c, e) => ROk (Tc c, e) | RErr k => RErr k | RFuel => RFuel end.

Lemma nf_Tr r : r <> RFuel -> Tr r <> RFuel.
Proof. destruct r; cbn; congruence. Qed.

(* ---------------------------------------------------------------- lists *)
Lemma nth_map_Tv l cs : nth l (map Tv cs) VNull = Tv (nth l cs VNull).
Proof. change VNull with (Tv VNull) at 1. apply map_nth. Qed.

Lemma set_nth_map {A B} (g : A -> B) n v l : set_nth n (g v) (map g l) = map g (set_nth n v l).
Proof. revert n; induction l as [|x l IH]; intros [|n]; cbn; try reflexivity. rewrite IH. reflexivity. Qed.

Lemma lookup_map_Tg x g : lookup x (map Tg g) = option_map Tv (lookup x g).
Proof.
  induction g as [|[y v] g IH]; cbn; [reflexivity|].
  destruct (String.eqb x y); [reflexivity | exact IH].
Qed.

Lemma set_assoc_map_Tg x v g : set_assoc x (Tv v) (map Tg g) = map Tg (set_assoc x v g).
Proof.
  induction g as [|[y w] g IH]; cbn; [reflexivity|].
  destruct (String.eqb x y); cbn; [reflexivity | rewrite IH; reflexivity].
Qed.

(* ---------------------------------------------------------------- store operations *)
Lemma nth_obj_T st l : nth_obj (Tst st) l = map Tv (nth_obj st l).
Proof. unfold nth_obj, Tst; cbn. change (@nil value) with (map Tv []) at 1. apply map_nth. Qed.

Lemma alloc_cell_T st v : alloc_cell (Tst st) (Tv v) = (Tst (fst (alloc_cell st v)), snd (alloc_cell st v)).
Proof. unfold alloc_cell, Tst; cbn. rewrite map_app, map_length. reflexivity. Qed.

Lemma alloc_cell_T' st v : Tv v = v -> alloc_cell (Tst st) v = (Tst (fst (alloc_cell st v)), snd (alloc_cell st v)).
Proof. intro E. rewrite <- E at 1. apply alloc_cell_T. Qed.

Lemma set_cell_T st l v : set_cell (Tst st) l (Tv v) = Tst (set_cell st l v).
Proof. unfold set_cell, Tst; cbn. rewrite set_nth_map. reflexivity. Qed.

Lemma alloc_obj_T st vs : alloc_obj (Tst st) (map Tv vs) = (Tst (fst (alloc_obj st vs)), snd (alloc_obj st vs)).
Proof. unfold alloc_obj, Tst; cbn. rewrite map_app, map_length. reflexivity. Qed.

Lemma set_obj_T st l vs : set_obj (Tst st) l (map Tv vs) = Tst (set_obj st l vs).
Proof. unfold set_obj, Tst; cbn. rewrite (set_nth_map (map Tv)). reflexivity. Qed.

Lemma set_global_T st x v : set_global (Tst st) x (Tv v) = Tst (set_global st x v).
Proof. unfold set_global, Tst; cbn. rewrite set_assoc_map_Tg. reflexivity. Qed.

Lemma emit_T st s : emit (Tst st) s = Tst (emit st s).
Proof. reflexivity. Qed.

Lemma lookup_var_T env st x : lookup_var env (Tst st) x = Tr (lookup_var env st x).
Proof.
  unfold lookup_var. destruct (lookup x env) as [l|].
  - cbn. rewrite nth_map_Tv. reflexivity.
  - cbn [Tst globals]. rewrite lookup_map_Tg. destruct (lookup x (globals st)); cbn [option_map Tr]; [reflexivity|].
    destruct (existsb (String.eqb x) builtins); reflexivity.
Qed.

Lemma assign_var_T env st x v : assign_var env (Tst st) x (Tv v) = Tst (assign_var env st x v).
Proof. unfold assign_var. destruct (lookup x env); [apply set_cell_T | apply set_global_T]. Qed.

Lemma bind_params_T ps : forall vs env st,
  bind_params ps (map Tv vs) env (Tst st) = (fst (bind_params ps vs env st), Tst (snd (bind_params ps vs env st))).
Proof.
  induction ps as [|[p m] ps IH]; intros vs env st; [reflexivity|].
  destruct vs as [|v vs]; [reflexivity|]. cbn [map bind_params].
  rewrite alloc_cell_T. unfold alloc_cell at 3 4. cbn [fst snd].
  rewrite IH. reflexivity.
Qed.

(* ---------------------------------------------------------------- observations *)
Lemma to_str_T n : forall st v, to_str n (Tst st) (Tv v) = to_str n st v.
Proof.
  induction n as [|n IH]; intros st v; destruct v; cbn [Tv to_str]; try reflexivity.
  - rewrite nth_obj_T, map_map. erewrite map_ext; [reflexivity|]. intro a. apply IH.
  - rewrite nth_obj_T, map_map. erewrite map_ext; [reflexivity|]. intro a. apply IH.
Qed.

Lemma truthy_T v : truthy (Tv v) = truthy v.
Proof. destruct v; reflexivity. Qed.

Lemma length_map_Tv vs : List.length (map Tv vs) = List.length vs.
Proof. apply map_length. Qed.

(* ---------------------------------------------------------------- operators *)
Definition noclo (r : res value) : Prop :=
  match r with ROk (VClo _ _ _ _) => False | _ => True end.
Lemma noclo_Tr r : noclo r -> Tr r = r.
Proof. destruct r as [v| |]; [destruct v|..]; cbn; intro H; try reflexivity; contradiction. Qed.

Lemma int_binop_noclo op a b : noclo (int_binop op a b).
Proof. destruct op; cbn; try exact I; destruct (b =? 0); exact I. Qed.

Lemma float_binop_noclo op x y : noclo (float_binop op x y).
Proof. unfold float_binop. destruct (aop_of op); [exact I|]. destruct (cop_of op); exact I. Qed.

Lemma eval_binop_noclo op a b : noclo (eval_binop op a b).
Proof.
  unfold eval_binop.
  destruct a; destruct b; try apply int_binop_noclo; cbn [is_flt orb to_float];
    try apply float_binop_noclo;
    try (destruct op; cbn; exact I);
    try (destruct op; cbn; try exact I;
         match goal with |- context [value_eqb ?x ?y] => destruct (value_eqb x y) end; exact I).
Qed.

Lemma value_eqb_T a b : value_eqb (Tv a) (Tv b) = value_eqb a b.
Proof. destruct a; destruct b; reflexivity. Qed.
Lemma is_flt_T a : is_flt (Tv a) = is_flt a.
Proof. destruct a; reflexivity. Qed.
Lemma to_float_T a : to_float (Tv a) = to_float a.
Proof. destruct a; reflexivity. Qed.

Lemma eval_binop_T op a b : eval_binop op (Tv a) (Tv b) = Tr (eval_binop op a b).
Proof.
  rewrite (noclo_Tr _ (eval_binop_noclo op a b)).
  unfold eval_binop. rewrite !is_flt_T, !to_float_T, value_eqb_T.
  destruct a; destruct b; reflexivity.
Qed.

Lemma eval_unop_noclo op a : noclo (eval_unop op a).
Proof. destruct op; destruct a; exact I. Qed.
Lemma eval_unop_T op a : eval_unop op (Tv a) = Tr (eval_unop op a).
Proof.
  rewrite (noclo_Tr _ (eval_unop_noclo op a)).
  destruct op; destruct a; cbn [Tv eval_unop]; try reflexivity.
Qed.

(* ---------------------------------------------------------------- collections *)
Lemma index_get_T st va vi : index_get (Tst st) (Tv va) (Tv vi) = Tr (index_get st va vi).
Proof.
  unfold index_get. destruct va; cbn [Tv]; try (destruct vi; reflexivity);
    destruct vi; cbn [Tv Tr]; try reflexivity;
    rewrite nth_obj_T, map_length;
    destruct ((0 <=? n) && (n <? Z.of_nat (List.length (nth_obj st l)))); cbn [Tr]; try reflexivity;
    change VNull with (Tv VNull) at 1; rewrite map_nth; reflexivity.
Qed.

Definition Tsr (p : state * res value) : state * res value := (Tst (fst p), Tr (snd p)).

Lemma index_set_T st va vi vv : index_set (Tst st) (Tv va) (Tv vi) (Tv vv) = Tsr (index_set st va vi vv).
Proof.
  unfold index_set, Tsr. destruct va; cbn [Tv]; try (destruct vi; reflexivity);
    destruct vi; cbn [Tv Tr fst snd]; try reflexivity;
    rewrite nth_obj_T, map_length;
    destruct ((0 <=? n) && (n <? Z.of_nat (List.length (nth_obj st l)))); cbn [Tr fst snd]; try reflexivity;
    rewrite set_nth_map, set_obj_T; reflexivity.
Qed.

Lemma call_method_T st vo m vs : call_method (Tst st) (Tv vo) m (map Tv vs) = Tsr (call_method st vo m vs).
Proof.
  unfold call_method, Tsr.
  destruct vo; cbn [Tv]; try reflexivity;
    repeat match goal with
           | |- context [match ?x with _ => _ end] => is_var x; destruct x; cbn [map fst snd Tr]; try reflexivity
           end;
    rewrite ?nth_obj_T, ?map_length; try reflexivity.
  rewrite <- set_obj_T, map_app. reflexivity.
Qed.

End ValueMap.
