(* Global constant propagation (Model/Opt/GlobalProp.v):
   (1) every entry of the constant table is a closed constant expression (no variable is left in
       it), names are unique, and each entry names an immutable top-level `let` of the program
       that is the ONLY binder of that name anywhere in the program;
   (2) the table is sound: in any environment that agrees with the entries defined by earlier
       statements, the resolved expression evaluates exactly like the `let`'s own initializer;
   (3) a use is replaced only under the ordering rule of `may_substitute`, and on the pure
       fragment the replacement is meaning-preserving wherever the environment agrees with the
       entries the rule lets through;
   (4) the statements in front of `first_effect` are quiet: their expressions are pure (they call
       nothing, create no function value, assign nothing). *)
From Coq Require Import String Arith.
From Aelys Require Import Base.Tactics Model.Lang Model.Eval Model.PureEval Model.Opt.GlobalProp
  Model.Opt.Unused Proofs.PureProofs.

(* ------------------------------------------------------------------ (1) the table *)
Definition closed (e : expr) : bool := is_const [] 0 e.

Lemma tlookup_In x t v : tlookup x t = Some v -> In (x, v) t.
Proof.
  induction t as [|[y w] r IH]; cbn [tlookup]; [discriminate|].
  destruct (String.eqb x y) eqn:E.
  - intro H. inversion H; subst. apply String.eqb_eq in E. subst. left. reflexivity.
  - intro H. right. apply IH. exact H.
Qed.

Lemma tlookup_app_none x t u : tlookup x t = None -> tlookup x (t ++ u) = tlookup x u.
Proof.
  induction t as [|[y w] r IH]; cbn [tlookup app]; [reflexivity|].
  destruct (String.eqb x y); [discriminate | exact IH].
Qed.

Lemma tlookup_app_some x t u v : tlookup x t = Some v -> tlookup x (t ++ u) = Some v.
Proof.
  induction t as [|[y w] r IH]; cbn [tlookup app]; [discriminate|].
  destruct (String.eqb x y); [auto | exact IH].
Qed.

Definition tbl_closed (t : tbl) : Prop := forall x c pos, In (x, (c, pos)) t -> closed c = true.

Lemma resolve_closed t b e : tbl_closed t -> is_const t b e = true -> closed (resolve t e) = true.
Proof.
  intros Ht. unfold closed. induction e; cbn [is_const resolve]; intro H; try discriminate; try reflexivity.
  - destruct (tlookup x t) as [[c p]|] eqn:L; [|discriminate].
    apply tlookup_In in L. exact (Ht _ _ _ L).
  - apply andb_true_iff in H as [H1 H2]. cbn [is_const]. rewrite IHe1, IHe2; auto.
  - cbn [is_const]. auto.
  - apply andb_true_iff in H as [H1 H2]. cbn [is_const]. rewrite IHe1, IHe2; auto.
  - apply andb_true_iff in H as [H1 H2]. cbn [is_const]. rewrite IHe1, IHe2; auto.
  - apply andb_true_iff in H as [H12 H3]. apply andb_true_iff in H12 as [H1 H2].
    cbn [is_const]. rewrite IHe1, IHe2, IHe3; auto.
Qed.

(* what an entry is, relative to the program [p] *)
Definition entry_ok (p : program) (x : string) (c : expr) (pos : nat) : Prop :=
  closed c = true /\ bound_once (binders_block p) x = true /\
  exists e, nth_error p pos = Some (SLet x false e).

Definition tbl_ok (p : program) (t : tbl) : Prop :=
  NoDup (map fst t) /\ forall x c pos, In (x, (c, pos)) t -> entry_ok p x c pos.

Lemma tbl_ok_closed p t : tbl_ok p t -> tbl_closed t.
Proof. intros [_ H] x c pos Hin. exact (proj1 (H _ _ _ Hin)). Qed.

Lemma tlookup_none_notin x t : tlookup x t = None -> ~ In x (map fst t).
Proof.
  induction t as [|[y w] r IH]; cbn [tlookup map fst]; [auto|].
  destruct (String.eqb x y) eqn:E; [discriminate|].
  intros H [A|A]; [subst; rewrite String.eqb_refl in E; discriminate | exact (IH H A)].
Qed.

Lemma NoDup_snoc {A} (l : list A) (a : A) : NoDup l -> ~ In a l -> NoDup (l ++ [a]).
Proof.
  induction l as [|b l IH]; intros Hn Ha; cbn [app]; [constructor; [intros []|constructor]|].
  inversion Hn; subst. constructor.
  - intro Hin. apply in_app_or in Hin as [Hin|[Hin|[]]]; [contradiction|]. subst. apply Ha. left. reflexivity.
  - apply IH; [assumption|]. intro Hin. apply Ha. right. exact Hin.
Qed.

Lemma collect_stmt_ok p idx s t :
  nth_error p idx = Some s -> tbl_ok p t -> tbl_ok p (collect_stmt (binders_block p) idx s t).
Proof.
  intros Hn Hok. destruct s; cbn [collect_stmt]; try exact Hok.
  destruct mutable; [exact Hok|].
  destruct (tlookup x t) eqn:L; [exact Hok|].
  destruct (bound_once (binders_block p) x && is_const t idx e) eqn:G; [|exact Hok].
  apply andb_true_iff in G as [G1 G2]. destruct Hok as [Hnd Hall]. split.
  - rewrite map_app. cbn [map fst]. apply NoDup_snoc; [exact Hnd | apply tlookup_none_notin; exact L].
  - intros y c pos Hin. apply in_app_or in Hin as [Hin|[Hin|[]]]; [exact (Hall _ _ _ Hin)|].
    injection Hin as <- <- <-. split; [|split; [exact G1 | eauto]].
    apply (resolve_closed t idx); [|exact G2].
    intros a b q Ha. exact (proj1 (Hall _ _ _ Ha)).
Qed.

Lemma collect_round_ok p : forall l idx t,
  (forall k, nth_error l k = nth_error p (idx + k)) -> tbl_ok p t ->
  tbl_ok p (collect_round (binders_block p) idx l t).
Proof.
  induction l as [|s r IH]; intros idx t Hn Hok; cbn [collect_round]; [exact Hok|].
  apply IH.
  - intro k. specialize (Hn (S k)). cbn [nth_error] in Hn. rewrite Hn. f_equal. lia.
  - apply collect_stmt_ok; [|exact Hok]. specialize (Hn 0%nat). cbn [nth_error] in Hn.
    replace (idx + 0)%nat with idx in Hn by lia. symmetry. exact Hn.
Qed.

Lemma collect_rounds_ok p : forall n t, tbl_ok p t -> tbl_ok p (collect_rounds n (binders_block p) p t).
Proof.
  induction n as [|n IH]; intros t Hok; cbn [collect_rounds]; [exact Hok|].
  assert (H1 : tbl_ok p (collect_round (binders_block p) 0 p t))
    by (apply collect_round_ok; [intro k; reflexivity | exact Hok]).
  destruct (Nat.eqb _ _); [exact H1 | apply IH; exact H1].
Qed.

Theorem collect_ok (p : program) : tbl_ok p (collect p).
Proof. apply collect_rounds_ok. split; [constructor | intros x c pos []]. Qed.

(* ------------------------------------------------------------------ (2) the table is sound *)
Lemma closed_peval_indep e : closed e = true -> forall rho rho', peval rho e = peval rho' e.
Proof.
  unfold closed. induction e; cbn [is_const]; intro H; try discriminate; intros rho rho'; cbn [peval]; try reflexivity.
  - apply andb_true_iff in H as [H1 H2]. rewrite (IHe1 H1 rho rho'), (IHe2 H2 rho rho'). reflexivity.
  - rewrite (IHe H rho rho'). reflexivity.
  - apply andb_true_iff in H as [H1 H2]. rewrite (IHe1 H1 rho rho'), (IHe2 H2 rho rho'). reflexivity.
  - apply andb_true_iff in H as [H1 H2]. rewrite (IHe1 H1 rho rho'), (IHe2 H2 rho rho'). reflexivity.
  - apply andb_true_iff in H as [H12 H3]. apply andb_true_iff in H12 as [H1 H2].
    rewrite (IHe1 H1 rho rho'), (IHe2 H2 rho rho'), (IHe3 H3 rho rho'). reflexivity.
Qed.

(* [rho] agrees with the entries of [t] defined before top-level statement [idx]: the variable
   holds the value the entry's expression has *)
Definition agrees (t : tbl) (idx : nat) (rho : venv) : Prop :=
  forall y c q, tlookup y t = Some (c, q) -> (q < idx)%nat ->
    exists v, peval rho c = ROk v /\ rho y = Some v.

Theorem resolve_sound (t : tbl) (idx : nat) (rho : venv) (e : expr) :
  agrees t idx rho -> is_const t idx e = true -> peval rho (resolve t e) = peval rho e.
Proof.
  intro A. induction e; cbn [is_const resolve peval]; intro H; try discriminate; try reflexivity.
  - destruct (tlookup x t) as [[c p]|] eqn:L; [|discriminate].
    apply Nat.ltb_lt in H. destruct (A x c p L H) as (v & Hc & Hx). rewrite Hc, Hx. reflexivity.
  - apply andb_true_iff in H as [H1 H2]. rewrite IHe1, IHe2; auto.
  - rewrite IHe; auto.
  - apply andb_true_iff in H as [H1 H2]. rewrite IHe1, IHe2; auto.
  - apply andb_true_iff in H as [H1 H2]. rewrite IHe1, IHe2; auto.
  - apply andb_true_iff in H as [H12 H3]. apply andb_true_iff in H12 as [H1 H2].
    rewrite IHe1, IHe2, IHe3; auto.
Qed.

(* ------------------------------------------------------------------ (3) the substitution rule *)
Theorem may_subst_rule open fe t c x k :
  may_subst open fe t c x = Some k ->
  (open = true -> deferred c = false) /\
  exists pos, tlookup x t = Some (k, pos) /\
              ((pos < cursor c)%nat \/ (in_fn c = true /\ (pos < fe)%nat)).
Proof.
  unfold may_subst. destruct (open && deferred c) eqn:G; [discriminate|].
  destruct (tlookup x t) as [[k' pos]|]; [|discriminate].
  destruct (Nat.ltb pos (cursor c) || (in_fn c && Nat.ltb pos fe)) eqn:R; [|discriminate].
  intro H. inversion H; subst. split.
  - intros ->. cbn [andb] in G. exact G.
  - exists pos. split; [reflexivity|].
    apply orb_true_iff in R as [R|R]; [left; apply Nat.ltb_lt; exact R|].
    apply andb_true_iff in R as [R1 R2]. right. split; [exact R1 | apply Nat.ltb_lt; exact R2].
Qed.

(* on the pure fragment the pass IS the substitution kernel ... *)
Lemma gp_expr_pure open fe t c e :
  pure e = true -> gp_expr open fe t c e = subst_consts (may_subst open fe t c) e.
Proof.
  induction e; cbn [pure gp_expr subst_consts]; intro H; try discriminate; try reflexivity.
  - apply andb_true_iff in H as [H1 H2]. rewrite IHe1, IHe2; auto.
  - rewrite IHe; auto.
  - apply andb_true_iff in H as [H1 H2]. rewrite IHe1, IHe2; auto.
  - apply andb_true_iff in H as [H1 H2]. rewrite IHe1, IHe2; auto.
  - apply andb_true_iff in H as [H12 H3]. apply andb_true_iff in H12 as [H1 H2].
    rewrite IHe1, IHe2, IHe3; auto.
Qed.

(* ... and the kernel preserves meaning wherever the variable holds the value of what replaces it *)
Lemma subst_agree_preserves (s : string -> option expr) (rho : venv) (e : expr) :
  (forall x k, s x = Some k -> exists v, peval rho k = ROk v /\ rho x = Some v) ->
  peval rho (subst_consts s e) = peval rho e.
Proof.
  intro A. induction e; cbn [subst_consts peval]; try reflexivity.
  - destruct (s x) eqn:C; [|reflexivity].
    destruct (A x e C) as (v & Hk & Hx). rewrite Hk, Hx. reflexivity.
  - rewrite IHe1, IHe2. reflexivity.
  - rewrite IHe. reflexivity.
  - rewrite IHe1, IHe2. reflexivity.
  - rewrite IHe1, IHe2. reflexivity.
  - rewrite IHe1, IHe2, IHe3. reflexivity.
Qed.

Theorem gp_expr_preserves_pure open fe t c rho e :
  pure e = true ->
  (forall x k, may_subst open fe t c x = Some k -> exists v, peval rho k = ROk v /\ rho x = Some v) ->
  peval rho (gp_expr open fe t c e) = peval rho e.
Proof. intros Hp A. rewrite gp_expr_pure by exact Hp. apply subst_agree_preserves. exact A. Qed.

(* ------------------------------------------------------------------ (4) leading declarations are quiet *)
Lemma first_effect_quiet : forall (p : program) k s,
  (k < first_effect p)%nat -> nth_error p k = Some s -> quiet_stmt s = true.
Proof.
  induction p as [|a r IH]; intros k s Hk Hn; cbn [first_effect] in Hk; [lia|].
  destruct (quiet_stmt a) eqn:Q; [|lia].
  destruct k as [|k]; cbn [nth_error] in Hn.
  - inversion Hn; subst. exact Q.
  - apply (IH k s); [lia | exact Hn].
Qed.

Lemma quiet_expr_pure e : quiet_expr e = true -> pure e = true /\ hse e = false.
Proof.
  induction e; cbn [quiet_expr pure hse]; intro H; try discriminate; try (split; reflexivity).
  - apply andb_true_iff in H as [H1 H2]. destruct (IHe1 H1) as [A1 B1]. destruct (IHe2 H2) as [A2 B2].
    rewrite A1, A2, B1, B2. split; reflexivity.
  - exact (IHe H).
  - apply andb_true_iff in H as [H1 H2]. destruct (IHe1 H1) as [A1 B1]. destruct (IHe2 H2) as [A2 B2].
    rewrite A1, A2, B1, B2. split; reflexivity.
  - apply andb_true_iff in H as [H1 H2]. destruct (IHe1 H1) as [A1 B1]. destruct (IHe2 H2) as [A2 B2].
    rewrite A1, A2, B1, B2. split; reflexivity.
Qed.

Theorem leading_declarations_are_quiet (p : program) k s :
  (k < first_effect p)%nat -> nth_error p k = Some s ->
  match s with
  | SLet _ _ e => pure e = true /\ hse e = false
  | SFun _ _ _ _ | SOther _ => True
  | _ => False
  end.
Proof.
  intros Hk Hn. pose proof (first_effect_quiet p k s Hk Hn) as Q.
  destruct s; cbn [quiet_stmt] in Q; try discriminate; try exact I.
  apply quiet_expr_pure. exact Q.
Qed.

(* the pass keeps the statement skeleton: same number of top-level statements *)
Lemma gp_top_length open fe t : forall l idx, length (gp_top open fe t idx l) = length l.
Proof. induction l as [|s r IH]; intro idx; cbn [gp_top length]; [reflexivity | rewrite IH; reflexivity]. Qed.

(* ------------------------------------------------------------------ the table meets the evaluator *)
(* Executing the `let` that defines a table entry - at top level, on the definitional evaluator, from any
   state whose globals agree with the entries of EARLIER statements - binds the name to exactly the
   value the stored expression has: the new entry agrees too.  This is the inductive step of the
   (unproved) whole-program argument that the environment agrees with the table at every use the
   ordering rule lets through. *)
From Aelys Require Import Proofs.EvalMono.

Lemma is_const_pure t b e : is_const t b e = true -> pure e = true.
Proof.
  induction e; cbn [is_const pure]; intro H; try discriminate; try reflexivity.
  - apply andb_true_iff in H as [H1 H2]. rewrite IHe1, IHe2; auto.
  - auto.
  - apply andb_true_iff in H as [H1 H2]. rewrite IHe1, IHe2; auto.
  - apply andb_true_iff in H as [H1 H2]. rewrite IHe1, IHe2; auto.
  - apply andb_true_iff in H as [H12 H3]. apply andb_true_iff in H12 as [H1 H2]. rewrite IHe1, IHe2, IHe3; auto.
Qed.

Lemma lookup_set_assoc_same {A} x (v : A) l : lookup x (set_assoc x v l) = Some v.
Proof.
  induction l as [|[y w] r IH]; cbn [set_assoc lookup].
  - rewrite String.eqb_refl. reflexivity.
  - destruct (String.eqb x y) eqn:E; cbn [lookup]; rewrite E; [reflexivity | exact IH].
Qed.

Theorem defining_let_establishes_entry (t : tbl) (idx : nat) (x : string) (e : expr)
        (fuel depth : nat) (st st' : state) (r : res (ctl * list (string * nat))) :
  tbl_closed t -> is_const t idx e = true -> agrees t idx (rho_of [] st) -> (esize e <= fuel)%nat ->
  exec_stmt (S fuel) depth true [] st (SLet x false e) = (st', r) ->
  match r with
  | ROk _ => exists v, peval (rho_of [] st') (resolve t e) = ROk v /\ rho_of [] st' x = Some v
  | RErr k => st' = st /\ peval (rho_of [] st) e = RErr k
  | RFuel => True
  end.
Proof.
  intros Hc Hk Ha Hf H. rewrite exec_stmt_S in H.
  rewrite (eval_expr_pure e fuel depth [] st (is_const_pure _ _ _ Hk) Hf) in H.
  destruct (peval (rho_of [] st) e) as [v|k|] eqn:P.
  - inversion H; subst. exists v. split.
    + rewrite (closed_peval_indep _ (resolve_closed t idx e Hc Hk) _ (rho_of [] st)).
      rewrite (resolve_sound t idx _ e Ha Hk). exact P.
    + unfold rho_of, lookup_var, set_global. cbn [lookup globals]. rewrite lookup_set_assoc_same. reflexivity.
  - inversion H; subst. split; reflexivity.
  - inversion H; subst. exact I.
Qed.
