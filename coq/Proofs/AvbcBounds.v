(* C07 lemmas about the .avbc reader model: what it asks the allocator for is bounded by the
   input's own size plus a constant fixed by the MAX_* limits, no single request exceeds the
   largest limit, recursion depth is bounded, the fuel of the model never runs out. *)
From Aelys Require Import Base.Tactics Extracted.ValueConsts Extracted.AvbcLayout
  Model.Value Model.Avbc Proofs.AvbcProofs.
Local Open Scope N_scope.

Definition C1 : N := 16.          (* capacity bytes that one input byte can justify *)
Definition UF : N := 8000000.     (* largest not-yet-justified request of one frame, nested vector aside *)
Definition NC : N := 1048576.     (* capacity of one nested-function vector *)
Definition RMAX : N := 8000000.   (* largest single request *)

(* the extracted limits are within the numbers the theorems are stated with *)
Lemma limits_facts :
  LIM_NAME_LEN <= UF /\ LIM_GLOBAL_NAME_LEN <= 1000000 /\ LIM_STRING_LEN <= 1000000
  /\ SZ_VALUE * LIM_CONSTS + LIM_STRING_LEN <= UF
  /\ SZ_WORD * LIM_CODE <= UF /\ SZ_FUNC * LIM_NESTED <= NC /\ SZ_UPVAL * LIM_UPVALS <= UF
  /\ SZ_LINE * LIM_LINES <= UF /\ SZ_STRING * LIM_GLOBALS + LIM_GLOBAL_NAME_LEN <= UF
  /\ LIM_DEPTH <= 64.
Proof. vm_compute. repeat split; discriminate. Qed.

Definition Phi (s : st) : N := s_alloc s + C1 * lenN (s_in s).

(* k: what the action pays back (potential drop) when it succeeds; U: what it may leave
   unjustified when it fails; Q: what its result satisfies *)
Definition good {A} (k U : N) (Q : A -> Prop) (m : M A) : Prop :=
  forall s, s_max s <= RMAX ->
  match m s with
  | Ok a s' => Phi s' + k <= Phi s /\ s_max s' <= RMAX /\ Q a
  | Err e a mx => e <> EFuel /\ a <= Phi s + U /\ mx <= RMAX
  | Crash a mx => a <= Phi s + U /\ mx <= RMAX
  end.

Definition any {A} : A -> Prop := fun _ => True.
Ltac idq := let a := fresh in let H := fresh in intros a H; exact H.

Lemma good_ret {A} U (Q : A -> Prop) v : Q v -> good 0 U Q (ret v).
Proof. intros H s Hs. cbn. repeat split; [lia | exact Hs | exact H]. Qed.

Lemma good_fail {A} k U (Q : A -> Prop) e : e <> EFuel -> good k U Q (fail e).
Proof. intros H s Hs. cbn. unfold Phi. repeat split; [exact H | lia | exact Hs]. Qed.

Lemma good_crash {A} k U (Q : A -> Prop) : good k U Q (@crash A).
Proof. intros s Hs. cbn. unfold Phi. split; [lia | exact Hs]. Qed.

Lemma good_weaken {A} k U (Q : A -> Prop) k' U' (Q' : A -> Prop) m :
  good k U Q m -> k' <= k -> U <= U' -> (forall a, Q a -> Q' a) -> good k' U' Q' m.
Proof.
  intros H Hk HU HQ s Hs. specialize (H s Hs). destruct (m s) as [a s'|e a mx|a mx].
  - destruct H as (H1 & H2 & H3). repeat split; [lia | exact H2 | apply HQ; exact H3].
  - destruct H as (H1 & H2 & H3). repeat split; [exact H1 | lia | exact H3].
  - destruct H as (H2 & H3). split; [lia | exact H3].
Qed.

Lemma good_bind {A B} k1 k2 U (Q1 : A -> Prop) (Q2 : B -> Prop) (m : M A) (f : A -> M B) :
  good k1 U Q1 m -> (forall a, Q1 a -> good k2 U Q2 (f a)) -> good (k1 + k2) U Q2 (bind m f).
Proof.
  intros H1 H2 s Hs. unfold bind. specialize (H1 s Hs). destruct (m s) as [a s'|e a mx|a mx].
  - destruct H1 as (P1 & M1 & Qa). specialize (H2 a Qa s' M1).
    destruct (f a s') as [b s''|e b mx|b mx].
    + destruct H2 as (P2 & M2 & Qb). repeat split; [lia | exact M2 | exact Qb].
    + destruct H2 as (E2 & P2 & M2). repeat split; [exact E2 | lia | exact M2].
    + destruct H2 as (P2 & M2). split; [lia | exact M2].
  - exact H1.
  - exact H1.
Qed.

(* a step that pays nothing, followed by the rest *)
Lemma good_bind0 {A B} k U (Q1 : A -> Prop) (Q2 : B -> Prop) (m : M A) (f : A -> M B) :
  good 0 U Q1 m -> (forall a, Q1 a -> good k U Q2 (f a)) -> good k U Q2 (bind m f).
Proof. intros H1 H2. replace k with (0 + k) by lia. eapply good_bind; eassumption. Qed.

Lemma good_check {B} k U (Q : B -> Prop) n lim w (K : M B) :
  (n <= lim -> good k U Q K) -> good k U Q (bind (check_limit n lim w) (fun _ => K)).
Proof.
  intros H s Hs. unfold bind, check_limit. destruct (N.ltb_spec lim n) as [L|L].
  - cbn. unfold Phi. repeat split; [discriminate | lia | exact Hs].
  - cbn. apply H; [exact L | exact Hs].
Qed.

Lemma take_n_len n bs h t : take_n n bs = Some (h, t) -> lenN bs = n + lenN t.
Proof.
  revert n h t. induction bs as [|b r IH]; intros n h t; cbn [take_n].
  - destruct (N.eqb_spec n 0) as [E|E]; [|discriminate]. intro H. inversion H; subst. reflexivity.
  - destruct (N.eqb_spec n 0) as [E|E].
    + intro H. inversion H; subst. cbn [lenN]. lia.
    + destruct (take_n (n - 1) r) as [[h' t']|] eqn:T; [|discriminate].
      intro H. inversion H; subst. specialize (IH _ _ _ T). cbn [lenN]. lia.
Qed.

Lemma good_exact U n : good (C1 * n) U any (rd_exact n).
Proof.
  intros s Hs. unfold rd_exact. destruct (take_n n (s_in s)) as [[h t]|] eqn:T.
  - apply take_n_len in T. unfold Phi. cbn [s_in s_alloc s_max]. rewrite T. unfold any. repeat split; [lia | exact Hs].
  - unfold Phi. repeat split; [discriminate | lia | exact Hs].
Qed.

Lemma good_le U k : good (C1 * N.of_nat k) U any (rd_le k).
Proof.
  unfold rd_le. replace (C1 * N.of_nat k) with (C1 * N.of_nat k + 0) by lia.
  eapply good_bind; [apply good_exact|]. intros h _. apply good_ret. exact I.
Qed.

(* vec![0u8; n] then read_exact *)
Lemma good_bytes n : n <= RMAX -> good 0 n any (rd_bytes n).
Proof.
  intros Hn s Hs. unfold rd_bytes, bind, alloc, rd_exact. cbn [s_in s_alloc s_max].
  destruct (take_n n (s_in s)) as [[h t]|] eqn:T.
  - apply take_n_len in T. unfold Phi, C1. cbn [s_in s_alloc s_max]. rewrite T. unfold any. repeat split; lia.
  - unfold Phi. cbn [s_in s_alloc s_max]. repeat split; [discriminate | lia | lia].
Qed.

Lemma good_list {A} e U (Q : A -> Prop) (elem : M A) k :
  good e U Q elem -> good (N.of_nat k * e) U (Forall Q) (rd_list k elem).
Proof.
  intro H. induction k as [|k IH]; cbn [rd_list].
  - replace (N.of_nat 0 * e) with 0 by lia. apply good_ret. constructor.
  - replace (N.of_nat (S k) * e) with (e + (N.of_nat k * e + 0)) by lia.
    eapply good_bind; [exact H|]. intros a Qa.
    eapply good_bind; [exact IH|]. intros r Qr. apply good_ret. constructor; assumption.
Qed.

(* Vec::with_capacity(n) then n pushes of elements that each pay for their slot *)
Lemma good_vec {A} esz Ue (Q : A -> Prop) (elem : M A) n :
  good esz Ue Q elem -> esz * n <= RMAX -> good 0 (esz * n + Ue) (Forall Q) (rd_vec esz n elem).
Proof.
  intros H Hn s Hs. unfold rd_vec, bind, alloc.
  pose proof (good_list esz Ue Q elem (N.to_nat n) H) as L. rewrite N2Nat.id in L.
  set (s1 := St (s_in s) (s_alloc s + esz * n) (N.max (s_max s) (esz * n))).
  assert (s_max s1 <= RMAX) as M1 by (unfold s1; cbn [s_max]; lia).
  assert (Phi s1 = Phi s + esz * n) as P1 by (unfold Phi, s1; cbn [s_in s_alloc]; lia).
  specialize (L s1 M1). destruct (rd_list (N.to_nat n) elem s1) as [a s'|e a mx|a mx].
  - destruct L as (L1 & L2 & L3). repeat split; [lia | exact L2 | exact L3].
  - destruct L as (L1 & L2 & L3). repeat split; [exact L1 | lia | exact L3].
  - destruct L as (L2 & L3). split; [lia | exact L3].
Qed.

(* ---- elements *)
Lemma good_upval U : good 32 U any rd_upval.
Proof.
  unfold rd_upval. change 32 with (C1 * N.of_nat 1 + (C1 * N.of_nat 1 + 0)).
  eapply good_bind; [apply good_le|]. intros l _.
  eapply good_bind; [apply good_le|]. intros i _. apply good_ret. exact I.
Qed.

Lemma good_line U : good 96 U any rd_line.
Proof.
  unfold rd_line. change 96 with (C1 * N.of_nat 2 + (C1 * N.of_nat 4 + 0)).
  eapply good_bind; [apply good_le|]. intros l _.
  eapply good_bind; [apply good_le|]. intros i _. apply good_ret. exact I.
Qed.

Lemma good_str {A} lim (okv : list N -> A) e n :
  n <= lim -> lim <= RMAX -> e <> EFuel ->
  good 0 lim any (bind (rd_bytes n) (fun bs => if utf8_valid bs then ret (okv bs) else fail e)).
Proof.
  intros Hn Hl He. eapply good_bind0.
  - eapply good_weaken; [apply good_bytes; lia | lia | exact Hn | idq].
  - intros bs _. destruct (utf8_valid bs); [apply good_ret; exact I | apply good_fail; exact He].
Qed.

Lemma good_gname : good 32 LIM_GLOBAL_NAME_LEN any rd_gname.
Proof.
  destruct limits_facts as (_ & L & _).
  unfold rd_gname. change 32 with (C1 * N.of_nat 2 + 0).
  eapply good_bind; [apply good_le|]. intros n _.
  apply good_check. intro Hn.
  destruct (0 <? n).
  - apply good_str; [exact Hn | unfold RMAX; lia | discriminate].
  - apply good_ret. exact I.
Qed.

Lemma good_name : good 32 LIM_NAME_LEN any rd_name.
Proof.
  destruct limits_facts as (L & _).
  unfold rd_name. change 32 with (C1 * N.of_nat 2 + 0).
  eapply good_bind; [apply good_le|]. intros n _.
  apply good_check. intro Hn.
  destruct (0 <? n).
  - apply good_str; [exact Hn | unfold RMAX, UF in *; lia | discriminate].
  - apply good_ret. exact I.
Qed.

Lemma good_const dbg : good 16 LIM_STRING_LEN any (rd_const dbg).
Proof.
  destruct limits_facts as (_ & _ & L & _).
  unfold rd_const. change 16 with (C1 * N.of_nat 1 + 0).
  eapply good_bind; [apply good_le|]. intros tag _.
  destruct (tag =? TAGR_NULL); [apply good_ret; exact I|].
  destruct (tag =? TAGR_BOOL).
  { eapply good_weaken with (k := C1 * N.of_nat 1 + 0); [|lia|apply N.le_refl|idq].
    eapply good_bind; [apply good_le|]. intros; apply good_ret; exact I. }
  destruct (tag =? TAGR_INT).
  { eapply good_weaken with (k := C1 * N.of_nat 8 + 0); [|lia|apply N.le_refl|idq].
    eapply good_bind; [apply good_le|]. intros; apply good_ret; exact I. }
  destruct (tag =? TAGR_FLOAT).
  { eapply good_weaken with (k := C1 * N.of_nat 8 + 0); [|lia|apply N.le_refl|idq].
    eapply good_bind; [apply good_le|]. intros; apply good_ret; exact I. }
  destruct (tag =? TAGR_STRING).
  { eapply good_weaken with (k := C1 * N.of_nat 4 + 0); [|lia|apply N.le_refl|idq].
    eapply good_bind; [apply good_le|]. intros n _. apply good_check. intro Hn.
    apply good_str; [exact Hn | unfold RMAX; lia | discriminate]. }
  destruct (tag =? TAGR_FUNC).
  { eapply good_weaken with (k := C1 * N.of_nat 4 + 0); [|lia|apply N.le_refl|idq].
    eapply good_bind; [apply good_le|]. intros; apply good_ret; exact I. }
  destruct (tag =? TAGR_PTR).
  { eapply good_weaken with (k := C1 * N.of_nat 8 + 0); [|lia|apply N.le_refl|idq].
    eapply good_bind; [apply good_le|]. intros p _.
    destruct (LIM_PTR <? p); [apply good_fail; discriminate | apply good_ret; exact I]. }
  apply good_fail. discriminate.
Qed.

Lemma good_markers U cs nn : good 0 U any (check_markers cs nn).
Proof.
  unfold check_markers. destruct (existsb (marker_bad nn) cs); [apply good_fail; discriminate | apply good_ret; exact I].
Qed.

(* ---- read_function *)
Lemma height_le_of_nested d nested :
  Forall (fun g => d + 1 + height g <= LIM_DEPTH) nested -> d <= LIM_DEPTH ->
  d + fold_right (fun g acc => N.max (1 + height g) acc) 0 nested <= LIM_DEPTH.
Proof.
  intros H Hd. induction H as [|g r Hg _ IH]; cbn [fold_right]; lia.
Qed.

Lemma good_func dbg : forall fuel d,
  (1 <= fuel)%nat -> LIM_DEPTH + 2 <= d + N.of_nat fuel ->
  good 288 (UF + N.of_nat fuel * NC) (fun f => d + height f <= LIM_DEPTH) (rd_func dbg fuel d).
Proof.
  destruct limits_facts as (Ln & Lg & Ls & Lc & Lw & Lf & Lu & Ll & Lgl & Ld).
  induction fuel as [|fuel IH]; intros d H1 H2; [lia|].
  cbn [rd_func].
  set (U := UF + N.of_nat (S fuel) * NC).
  assert (UF <= U) as HU by (unfold U; lia).
  apply good_check. intro Hd.
  change 288 with (32 + (16 + (16 + (32 + (0 + (64 + (0 + (32 + (0 + (32 + (0 + (32 + (0 + (32 + (0 + 0))))))))))))))).
  eapply good_bind; [eapply good_weaken; [apply good_name | lia | lia | idq]|]. intros name _.
  eapply good_bind; [apply (good_le U 1)|]. intros arity _.
  eapply good_bind; [apply (good_le U 1)|]. intros nregs _.
  eapply good_bind; [apply (good_le U 2)|]. intros nc _.
  apply good_check. intro Hnc.
  eapply good_bind.
  { eapply good_weaken; [apply good_vec; [apply good_weaken with (k := 16) (U := LIM_STRING_LEN) (Q := any); [apply good_const | unfold SZ_VALUE; lia | apply N.le_refl | idq] | unfold RMAX, SZ_VALUE, UF in *; nia] | lia | unfold SZ_VALUE, UF in *; nia | idq]. }
  intros consts _.
  eapply good_bind; [apply (good_le U 4)|]. intros nb _.
  apply good_check. intro Hnb.
  eapply good_bind.
  { eapply good_weaken; [apply good_vec with (Ue := 0); [apply good_weaken with (k := C1 * N.of_nat 4) (U := 0) (Q := any); [apply good_le | unfold SZ_WORD, C1; lia | apply N.le_refl | idq] | unfold RMAX, SZ_WORD, UF in *; nia] | lia | unfold SZ_WORD, UF in *; nia | idq]. }
  intros code _.
  eapply good_bind; [apply (good_le U 2)|]. intros nn _.
  apply good_check. intro Hnn.
  eapply good_bind0; [apply good_markers|]. intros _ _.
  eapply good_bind.
  { destruct fuel as [|fuel'].
    - (* d <= LIM_DEPTH and LIM_DEPTH + 2 <= d + 1: impossible *) exfalso. cbn in H2. lia.
    - eapply good_weaken;
        [apply good_vec; [apply good_weaken with (k := 288) (U := UF + N.of_nat (S fuel') * NC) (Q := fun f => d + 1 + height f <= LIM_DEPTH);
                          [apply IH; lia | unfold SZ_FUNC; lia | apply N.le_refl | idq]
                         | unfold RMAX, SZ_FUNC, NC in *; nia]
        | lia | unfold U, SZ_FUNC, NC in *; nia | intros a Ha; exact Ha]. }
  intros nested Hnested.
  eapply good_bind; [apply (good_le U 2)|]. intros nu _.
  apply good_check. intro Hnu.
  eapply good_bind.
  { eapply good_weaken; [apply good_vec with (Ue := 0); [apply good_weaken with (k := 32) (U := 0) (Q := any); [apply good_upval | unfold SZ_UPVAL; lia | apply N.le_refl | idq] | unfold RMAX, SZ_UPVAL, UF in *; nia] | lia | unfold SZ_UPVAL, UF in *; nia | idq]. }
  intros upvals _.
  eapply good_bind; [apply (good_le U 2)|]. intros nl _.
  apply good_check. intro Hnl.
  eapply good_bind.
  { eapply good_weaken; [apply good_vec with (Ue := 0); [apply good_weaken with (k := 96) (U := 0) (Q := any); [apply good_line | unfold SZ_LINE; lia | apply N.le_refl | idq] | unfold RMAX, SZ_LINE, UF in *; nia] | lia | unfold SZ_LINE, UF in *; nia | idq]. }
  intros lines _.
  eapply good_bind; [apply (good_le U 2)|]. intros ng _.
  apply good_check. intro Hng.
  eapply good_bind.
  { eapply good_weaken; [apply good_vec; [apply good_weaken with (k := 32) (U := LIM_GLOBAL_NAME_LEN) (Q := any); [apply good_gname | unfold SZ_STRING; lia | apply N.le_refl | idq] | unfold RMAX, SZ_STRING, UF in *; nia] | lia | unfold SZ_STRING, UF in *; nia | idq]. }
  intros globals _.
  apply good_ret. cbn [height]. apply height_le_of_nested; assumption.
Qed.

Lemma read_fuel_val : N.of_nat read_fuel = LIM_DEPTH + 2.
Proof. unfold read_fuel. apply N2Nat.id. Qed.

Lemma good_program dbg :
  good 0 (UF + (LIM_DEPTH + 2) * NC) (fun f => height f <= LIM_DEPTH) (rd_program dbg).
Proof.
  unfold rd_program. set (U := UF + (LIM_DEPTH + 2) * NC).
  eapply good_bind0; [eapply good_weaken; [apply (good_exact U 4) | lia | apply N.le_refl | idq]|]. intros m _.
  destruct (list_eqbN m MAGIC); [|apply good_fail; discriminate].
  eapply good_bind0; [eapply good_weaken; [apply (good_le U 2) | lia | apply N.le_refl | idq]|]. intros v _.
  destruct (v =? VERSION); [|apply good_fail; discriminate].
  eapply good_bind0; [eapply good_weaken; [apply (good_le U 2) | lia | apply N.le_refl | idq]|]. intros _ _.
  eapply good_bind0; [eapply good_weaken; [apply (good_le U 4) | lia | apply N.le_refl | idq]|]. intros _ _.
  eapply good_bind0; [eapply good_weaken; [apply (good_le U 4) | lia | apply N.le_refl | idq]|]. intros _ _.
  pose proof read_fuel_val as R.
  assert (1 <= read_fuel)%nat as F1 by lia.
  assert (LIM_DEPTH + 2 <= 0 + N.of_nat read_fuel) as F2 by lia.
  pose proof (good_func dbg read_fuel 0 F1 F2) as G. rewrite R in G.
  eapply good_weaken; [exact G | lia | apply N.le_refl | intros f Hf; cbv beta in Hf; lia].
Qed.

Lemma program_summary dbg bs :
  read_alloc dbg bs <= 16 * lenN bs + (UF + (LIM_DEPTH + 2) * NC)
  /\ read_max_request dbg bs <= RMAX
  /\ read dbg bs <> RErr EFuel
  /\ (forall f, read dbg bs = ROk f -> height f <= LIM_DEPTH).
Proof.
  pose proof (good_program dbg (St bs 0 0)) as G. cbn [s_max] in G.
  specialize (G ltac:(unfold RMAX; lia)).
  unfold read_alloc, read_max_request, read.
  destruct (rd_program dbg (St bs 0 0)) as [f s'|e a mx|a mx]; unfold Phi, C1 in G; cbn [s_in s_alloc] in G.
  - destruct G as (G1 & G2 & G3). repeat split; [lia | exact G2 | discriminate |].
    intros g E. inversion E; subst. exact G3.
  - destruct G as (G1 & G2 & G3). repeat split; [lia | exact G3 | congruence | discriminate].
  - destruct G as (G2 & G3). repeat split; [lia | exact G3 | discriminate | discriminate].
Qed.

Lemma read_alloc_bounded_lemma dbg bs : read_alloc dbg bs <= 80000000 + 16 * lenN bs.
Proof.
  destruct limits_facts as (_ & _ & _ & _ & _ & _ & _ & _ & _ & Ld).
  destruct (program_summary dbg bs) as (H & _). unfold UF, NC in H. nia.
Qed.

Lemma read_request_bounded_lemma dbg bs : read_max_request dbg bs <= 8000000.
Proof. destruct (program_summary dbg bs) as (_ & H & _). exact H. Qed.

Lemma read_never_out_of_fuel dbg bs : read dbg bs <> RErr EFuel.
Proof. destruct (program_summary dbg bs) as (_ & _ & H & _). exact H. Qed.

Lemma nesting_bounded_lemma dbg bs f : read dbg bs = ROk f -> height f <= 64.
Proof.
  destruct limits_facts as (_ & _ & _ & _ & _ & _ & _ & _ & _ & Ld).
  destruct (program_summary dbg bs) as (_ & _ & _ & H). intro E. specialize (H f E). lia.
Qed.

(* the depth guard sits at the entry of read_function, before any read or allocation *)
Lemma depth_guard_lemma dbg fuel d s :
  LIM_DEPTH < d -> rd_func dbg (S fuel) d s = Err (ELimit 0) (s_alloc s) (s_max s).
Proof.
  intro H. cbn [rd_func]. unfold bind, check_limit.
  destruct (N.ltb_spec LIM_DEPTH d) as [L|L]; [reflexivity | lia].
Qed.

(* a count above its limit is rejected by the guard with nothing requested in between *)
Lemma oversize_rejected_lemma {B} n lim w (K : M B) s :
  lim < n -> bind (check_limit n lim w) (fun _ => K) s = Err (ELimit w) (s_alloc s) (s_max s).
Proof.
  intro H. unfold bind, check_limit. destruct (N.ltb_spec lim n) as [L|L]; [reflexivity | lia].
Qed.

(* non-vacuity of the allocation bound: a 30-byte input that makes the reader request 4 MB *)
Definition greedy_input : list N :=
  MAGIC ++ [1; 0; 0; 0; 1; 0; 0; 0; 0; 0; 0; 0] ++ [0; 0; 0; 0; 0; 0] ++ [64; 66; 15; 0] (* bc_len = 1 000 000 *).
Lemma greedy_input_facts :
  lenN greedy_input = 26 /\ read true greedy_input = RErr EEof
  /\ read_alloc true greedy_input = 4000000 /\ read_max_request true greedy_input = 4000000.
Proof. vm_compute. repeat split; reflexivity. Qed.
