(* Lemmas about Model/VmArith.v.  Since fix 7e82908 every type-specialised opcode checks its
   operand tags, so the typed and guarded families equal the generic operation on EVERY pair of
   64-bit words (Eq/Ne on two floats excepted: IEEE == versus the raw-bits shortcut of Value ==).
   The counterexamples for the unchecked reads survive as lemmas about the *_old definitions.
   No float axiom is needed: the families share the same float kernels. *)
From Aelys Require Import Base.Tactics Extracted.ValueConsts Extracted.Opcodes Model.Value
  Proofs.ValueProofs Model.VmArith.
From Coq Require Import Floats.
Local Open Scope N_scope.

(* ------------------------------------------------------------------ operand views *)
Lemma as_int_view (w : N) : as_int w = if is_int w then Some (as_int_unchecked w) else None.
Proof. reflexivity. Qed.

Lemma as_f_view (w : N) : as_f w = if is_float w then Some (f_of_bits w) else None.
Proof. unfold as_f, as_float. destruct (is_float w); reflexivity. Qed.

Lemma promote_view (w : N) :
  promote w = if is_float w then Some (f_of_bits w)
              else if is_int w then Some (f_of_int (as_int_unchecked w)) else None.
Proof. unfold promote. rewrite as_f_view, as_int_view. destruct (is_float w), (is_int w); reflexivity. Qed.

Lemma as_ptr_view (w : N) : as_ptr w = if is_ptr w then Some (N.land w PAYLOAD_MASK) else None.
Proof. reflexivity. Qed.

Lemma int_float_excl (w : N) : w < W64 -> is_int w = true -> is_float w = false.
Proof.
  intros Hw Hi. destruct (is_float w) eqn:F; [|reflexivity].
  rewrite (float_not_int w Hw F) in Hi. discriminate.
Qed.

Lemma int_ptr_excl (w : N) : w < W64 -> is_int w = true -> is_ptr w = false.
Proof.
  intros Hw Hi. pose proof (kind_partition_lemma w Hw) as K.
  unfold kind_count in K. rewrite Hi in K.
  destruct (is_ptr w); [|reflexivity]. exfalso. unfold b2n in K.
  destruct (is_float w), (is_bool w), (is_null w), (is_nested w); lia.
Qed.

Lemma float_ptr_excl (w : N) : w < W64 -> is_float w = true -> is_ptr w = false.
Proof.
  intros Hw Hf. pose proof (kind_partition_lemma w Hw) as K.
  unfold kind_count in K. rewrite Hf in K.
  destruct (is_ptr w); [|reflexivity]. exfalso. unfold b2n in K.
  destruct (is_int w), (is_bool w), (is_null w), (is_nested w); lia.
Qed.

Ltac views := rewrite ?as_int_view, ?as_f_view, ?promote_view, ?as_ptr_view.

(* every combination of (is_int, is_float) for two 64-bit words, minus the impossible ones *)
Ltac kinds a b Ha Hb :=
  let Ia := fresh "Ia" in let Fa := fresh "Fa" in let Ib := fresh "Ib" in let Fb := fresh "Fb" in
  destruct (is_int a) eqn:Ia; destruct (is_float a) eqn:Fa;
  destruct (is_int b) eqn:Ib; destruct (is_float b) eqn:Fb;
  try (rewrite (int_float_excl a Ha Ia) in Fa; discriminate);
  try (rewrite (int_float_excl b Hb Ib) in Fb; discriminate).

(* ------------------------------------------------------------------ typed = generic, all words *)
Definition is_ord (o : cop) : bool := match o with CEq | CNe => false | _ => true end.
Definition is_num (w : N) : bool := is_int w || is_float w.

Lemma typed_arith_ii_total (hv : heapview) (o : aop) (a b : N) : t_arith_ii hv o a b = g_arith hv o a b.
Proof. reflexivity. Qed.
Lemma typed_cmp_ii_total (hv : heapview) (o : cop) (a b : N) : t_cmp_ii hv o a b = g_cmp hv o a b.
Proof. reflexivity. Qed.
Lemma typed_bit_ii_total (o : bop) (a b : N) : t_bit_ii o a b = g_bit o a b.
Proof. reflexivity. Qed.
Lemma typed_not_i_total (a : N) : t_not_i a = g_bitnot a.
Proof. reflexivity. Qed.

Lemma typed_arith_ff_total (hv : heapview) (o : aop) (a b : N) :
  a < W64 -> b < W64 -> t_arith_ff hv o a b = g_arith hv o a b.
Proof.
  intros Ha Hb. unfold t_arith_ff. views.
  destruct (is_float a) eqn:Fa; [|reflexivity]. destruct (is_float b) eqn:Fb; [|reflexivity].
  unfold g_arith, g_arith_num. views.
  rewrite (float_not_int a Ha Fa), (float_not_int b Hb Fb), Fa, Fb. reflexivity.
Qed.

Lemma typed_ord_ff_total (hv : heapview) (o : cop) (a b : N) :
  is_ord o = true -> a < W64 -> b < W64 -> t_cmp_ff hv o a b = g_cmp hv o a b.
Proof.
  intros Ho Ha Hb. unfold t_cmp_ff. views.
  destruct (is_float a) eqn:Fa; [|reflexivity]. destruct (is_float b) eqn:Fb; [|reflexivity].
  unfold g_cmp, g_ord. views.
  rewrite (float_not_int a Ha Fa), (float_not_int b Hb Fb), Fa, Fb.
  destruct o; try discriminate; reflexivity.
Qed.

(* EqFF / NeFF: generic whenever the operands are not two floats *)
Lemma typed_eq_ff_nonfloat (hv : heapview) (o : cop) (a b : N) :
  is_float a && is_float b = false -> t_cmp_ff hv o a b = g_cmp hv o a b.
Proof.
  intros H. unfold t_cmp_ff. views.
  destruct (is_float a); [|reflexivity]. destruct (is_float b); [discriminate|reflexivity].
Qed.

(* immediates: the C field is a small non-negative int *)
Lemma imm_in48 (c : N) : c < 256 -> in48 (Z.of_N c).
Proof. unfold in48. lia. Qed.

Lemma typed_arith_imm_total (hv : heapview) (o : aop) (a c : N) :
  c < 256 -> t_arith_imm hv o a c = g_arith hv o a (v_int (Z.of_N c)).
Proof.
  intros Hc. unfold t_arith_imm. views. destruct (is_int a) eqn:Ia; [|reflexivity].
  unfold g_arith, g_arith_num. rewrite (int_roundtrip_lemma _ (imm_in48 c Hc)). views. rewrite Ia. reflexivity.
Qed.

Lemma typed_cmp_imm_total (hv : heapview) (o : cop) (a c : N) :
  is_ord o = true -> c < 256 -> t_cmp_imm hv o a c = g_cmp hv o a (v_int (Z.of_N c)).
Proof.
  intros Ho Hc. unfold t_cmp_imm. views. destruct (is_int a) eqn:Ia; [|reflexivity].
  unfold g_cmp, g_ord. rewrite (int_roundtrip_lemma _ (imm_in48 c Hc)). views. rewrite Ia.
  destruct o; try discriminate; reflexivity.
Qed.

Lemma typed_bit_imm_total (o : bop) (a c : N) :
  c < 256 -> t_bit_imm o a c = g_bit o a (v_int (Z.of_N c)).
Proof.
  intros Hc. unfold t_bit_imm, g_bit. rewrite (int_roundtrip_lemma _ (imm_in48 c Hc)). views.
  destruct (is_int a); reflexivity.
Qed.

(* loop super-instructions *)
Lemma while_loop_total (a b : N) : while_loop_lt a b = g_ord CLt a b.
Proof.
  unfold while_loop_lt, g_ord. views. destruct (is_int a), (is_int b); reflexivity.
Qed.

Lemma forloop_spec (incl : bool) (i e s : N) :
  forloop_i incl i e s =
  match as_int i, as_int e, as_int s with
  | Some x, Some y, Some z =>
      Some (v_int (x + z),
            if (0 <? z)%Z then (if incl then (x + z <=? y)%Z else (x + z <? y)%Z)
            else (if incl then (y <=? x + z)%Z else (y <? x + z)%Z))
  | _, _, _ => None
  end.
Proof. reflexivity. Qed.

Lemma forloop_error_iff (incl : bool) (i e s : N) :
  forloop_i incl i e s = None <-> is_int i && is_int e && is_int s = false.
Proof.
  unfold forloop_i. views. destruct (is_int i), (is_int e), (is_int s); cbn; split; intro H; try discriminate; reflexivity.
Qed.

(* ------------------------------------------------------------------ EqII / NeII facts (ints built by Value::int) *)
Lemma as_int_unchecked_v_int (n : Z) : as_int_unchecked (v_int n) = wrap48 n.
Proof.
  pose proof (int_wrap_lemma n) as H. rewrite as_int_view, int_is_int in H.
  injection H as H. exact H.
Qed.

Lemma int_ptr_none (n : Z) : as_ptr (v_int n) = None.
Proof.
  rewrite as_ptr_view.
  pose proof (int_kind_count n) as K. pose proof (int_is_int n) as I.
  unfold kind_count in K. rewrite I in K.
  destruct (is_ptr (v_int n)); [|reflexivity]. exfalso. unfold b2n in K.
  destruct (is_float (v_int n)), (is_bool (v_int n)), (is_null (v_int n)), (is_nested (v_int n)); lia.
Qed.

Lemma g_eq_ints (hv : heapview) (x y : Z) :
  in48 x -> in48 y -> g_eq hv (v_int x) (v_int y) = (x =? y)%Z.
Proof.
  intros Hx Hy. unfold g_eq. rewrite (eq_int_int_lemma x y Hx Hy).
  destruct (x =? y)%Z; [reflexivity|]. rewrite !int_ptr_none. reflexivity.
Qed.

(* the generic Eq/Ne on ints is integer equality (what the typed EqII computed and computes) *)
Lemma g_cmp_ints (hv : heapview) (o : cop) (x y : Z) :
  in48 x -> in48 y -> g_cmp hv o (v_int x) (v_int y) = ROk (v_bool (int_cmp o x y)).
Proof.
  intros Hx Hy. unfold g_cmp, g_ord. views. rewrite !int_is_int, !as_int_unchecked_v_int, !wrap48_id by assumption.
  destruct o; cbn [int_cmp]; rewrite ?(g_eq_ints hv x y Hx Hy); reflexivity.
Qed.

(* ------------------------------------------------------------------ guarded families, all words *)
Lemma guarded_arith_iig_total (hv : heapview) (o : aop) (a b : N) :
  a < W64 -> b < W64 -> gd_arith_iig hv o a b = g_arith hv o a b.
Proof.
  intros Ha Hb. unfold gd_arith_iig. unfold g_arith at 2. unfold g_arith_num. views.
  kinds a b Ha Hb; try reflexivity;
    unfold g_arith, g_arith_num; views; rewrite ?Ia, ?Fa, ?Ib, ?Fb; reflexivity.
Qed.

Lemma guarded_arith_ffg_total (hv : heapview) (o : aop) (a b : N) :
  a < W64 -> b < W64 -> gd_arith_ffg hv o a b = g_arith hv o a b.
Proof. exact (guarded_arith_iig_total hv o a b). Qed.

Lemma guarded_ord_iig_total (hv : heapview) (o : cop) (a b : N) :
  is_ord o = true -> a < W64 -> b < W64 -> gd_cmp_iig hv o a b = g_cmp hv o a b.
Proof.
  intros Ho Ha Hb. unfold gd_cmp_iig. unfold g_cmp at 2. unfold g_ord. views.
  kinds a b Ha Hb; destruct o; try discriminate; try reflexivity;
    unfold g_cmp, g_ord; views; rewrite ?Ia, ?Fa, ?Ib, ?Fb; reflexivity.
Qed.

Lemma guarded_ord_ffg_total (hv : heapview) (o : cop) (a b : N) :
  is_ord o = true -> a < W64 -> b < W64 -> gd_cmp_ffg hv o a b = g_cmp hv o a b.
Proof. exact (guarded_ord_iig_total hv o a b). Qed.

(* Eq / Ne: guarded = generic when no operand is a float *)
Lemma guarded_eq_ints (hv : heapview) (o : cop) (x y : Z) :
  in48 x -> in48 y ->
  gd_cmp_iig hv o (v_int x) (v_int y) = g_cmp hv o (v_int x) (v_int y).
Proof.
  intros Hx Hy. rewrite (g_cmp_ints hv o x y Hx Hy). unfold gd_cmp_iig. views.
  rewrite !int_is_int, !as_int_unchecked_v_int, !wrap48_id by assumption. reflexivity.
Qed.

Lemma guarded_eq_nonnum (hv : heapview) (o : cop) (a b : N) :
  a < W64 -> b < W64 -> is_num a && is_num b = false ->
  gd_cmp_iig hv o a b = g_cmp hv o a b /\ gd_cmp_ffg hv o a b = g_cmp hv o a b.
Proof.
  intros Ha Hb Hn. unfold is_num in *. unfold gd_cmp_ffg, gd_cmp_iig. views.
  kinds a b Ha Hb; try discriminate; split; reflexivity.
Qed.

(* ------------------------------------------------------------------ what is still different: Eq on two floats *)
Definition W_2_5 : N := 0x4004000000000000.      (* 2.5 *)
Definition W_3_5 : N := 0x400C000000000000.      (* 3.5 *)

(* EqFF / EqIIG / EqFFG on the canonical NaN say false (IEEE), generic Eq says true (Value ==
   starts with a raw-bits comparison).  Both operands ARE floats: no value is misread. *)
Lemma eq_nan_differs :
  is_float CANONICAL_NAN = true /\
  t_cmp_ff no_heap CEq CANONICAL_NAN CANONICAL_NAN = ROk (v_bool false) /\
  gd_cmp_iig no_heap CEq CANONICAL_NAN CANONICAL_NAN = ROk (v_bool false) /\
  g_cmp no_heap CEq CANONICAL_NAN CANONICAL_NAN = ROk (v_bool true).
Proof. vm_compute. repeat split; reflexivity. Qed.

(* ------------------------------------------------------------------ the OLD definitions (before 7e82908) *)
Lemma old_addii_misread_float :
  is_float W_2_5 = true /\
  g_arith no_heap AAdd W_2_5 (v_int 1) = ROk W_3_5 /\
  t_arith_ii no_heap AAdd W_2_5 (v_int 1) = ROk W_3_5 /\
  exists w, t_arith_ii_old AAdd W_2_5 (v_int 1) = ROk w /\ is_int w = true /\ w <> W_3_5.
Proof.
  vm_compute. repeat split; try reflexivity.
  eexists. repeat split; try reflexivity. discriminate.
Qed.

Lemma old_addff_misread_int :
  g_arith no_heap AAdd (v_int 1) (v_int 2) = ROk (v_int 3) /\
  t_arith_ff no_heap AAdd (v_int 1) (v_int 2) = ROk (v_int 3) /\
  t_arith_ff_old AAdd (v_int 1) (v_int 2) = ROk CANONICAL_NAN.
Proof. vm_compute. repeat split; reflexivity. Qed.

Lemma old_loops_misread_float :
  (g_ord CLt (v_int 0) W_2_5 = Some true /\ while_loop_lt (v_int 0) W_2_5 = Some true /\
   while_loop_lt_old (v_int 0) W_2_5 = false) /\
  (forloop_i false (v_int 0) W_2_5 (v_int 1) = None /\
   forloop_i_old false (v_int 0) W_2_5 (v_int 1) = (v_int 1, false)) /\
  (g_cmp no_heap CLt 0x401E000000000000 (v_int 5) = ROk (v_bool false) /\     (* 7.5 < 5 *)
   t_cmp_imm no_heap CLt 0x401E000000000000 5 = ROk (v_bool false) /\
   t_cmp_imm_old CLt 0x401E000000000000 5 = ROk (v_bool true)).
Proof. vm_compute. repeat split; reflexivity. Qed.

Lemma old_ffg_promoted_ints :
  gd_arith_ffg_old no_heap ADiv (v_int 7) (v_int 2) = ROk W_3_5 /\
  gd_arith_ffg no_heap ADiv (v_int 7) (v_int 2) = ROk (v_int 3) /\
  g_arith no_heap ADiv (v_int 7) (v_int 2) = ROk (v_int 3).
Proof. vm_compute. repeat split; reflexivity. Qed.

(* the behaviour before fix 5bb247f *)
Definition gd_cmp_iig_old (hv : heapview) (o : cop) (a b : N) : vres :=
  match as_int a, as_int b with
  | Some l, Some r => ROk (v_bool (int_cmp o l r))
  | _, _ =>
    match promote a, promote b with
    | Some x, Some y => ROk (v_bool (float_cmp o x y))
    | _, _ => match o with
              | CEq => ROk (v_bool (g_eq hv a b)) | CNe => ROk (v_bool (negb (g_eq hv a b)))
              | _ => ROk (v_bool false)
              end
    end
  end.
Lemma old_guarded_ord_answered_false :
  gd_cmp_iig_old no_heap CLt v_null (v_int 1) = ROk (v_bool false) /\
  g_cmp no_heap CLt v_null (v_int 1) = RErr ETypeError /\
  gd_cmp_iig no_heap CLt v_null (v_int 1) = RErr ETypeError.
Proof. vm_compute. repeat split; reflexivity. Qed.

(* the i64 intermediate results of the int kernels on 48-bit operands stay inside i64: the
   non-wrapping Rust operators (unary -, /, %) cannot overflow (no arithmetic-overflow panic in
   builds with overflow checks); + - * use wrapping_* in the code *)
Lemma int_ops_stay_in_i64 (l r : Z) :
  in48 l -> in48 r ->
  is_i64 (- l) = true /\ is_i64 (l + r) = true /\ is_i64 (l - r) = true /\
  (r <> 0%Z -> is_i64 (Z.quot l r) = true /\ is_i64 (Z.rem l r) = true).
Proof. unfold in48, is_i64. intros Hl Hr. repeat split; try lia. Qed.

Lemma as_int_in48 (w : N) (z : Z) : as_int w = Some z -> in48 z.
Proof.
  rewrite as_int_view. destruct (is_int w); [|discriminate]. intro H. injection H as <-.
  unfold as_int_unchecked, in48.
  assert (Hp : N.land w PAYLOAD_MASK < 281474976710656).
  { assert (EP : PAYLOAD_MASK = N.ones 48) by (vm_compute; reflexivity).
    rewrite EP, N.land_ones. change (2^48) with 281474976710656. lia. }
  rewrite (sext48_spec _ Hp). destruct (N.ltb_spec (N.land w PAYLOAD_MASK) 140737488355328); lia.
Qed.

Lemma dispatch_numbers_check : dispatch_numbers_ok = true.
Proof. vm_compute. reflexivity. Qed.

(* ------------------------------------------------------------------ EqFF / NeFF on two floats
   Generic Eq goes through Value::eq (Model/Value.v: f64_eq on bit patterns), EqFF through
   the primitive-float comparison of the decoded operands.  Relating the two needs the fact
   `codec_eq` below about the codec (decode is injective up to +-0 and NaN); it is a premise
   here, checked by computation on a grid of boundary patterns (codec_eq_grid) and by the
   hx_vmop tie on every run. *)
Definition codec_eq_fact : Prop :=
  forall a b : N, a < W64 -> b < W64 -> is_float a = true -> is_float b = true ->
    PrimFloat.eqb (f_of_bits a) (f_of_bits b) = f64_eq a b.

Lemma typed_eq_ff_agrees_under_codec (hv : heapview) (o : cop) (a b : N) :
  codec_eq_fact ->
  is_ord o = false -> a < W64 -> b < W64 -> is_float a = true -> is_float b = true ->
  (a <> b \/ is_nan_bits a = false) ->
  t_cmp_ff hv o a b = g_cmp hv o a b.
Proof.
  intros CE Ho Ha Hb Fa Fb Hn.
  assert (E : g_eq hv a b = PrimFloat.eqb (f_of_bits a) (f_of_bits b)).
  { unfold g_eq, value_eq. rewrite (CE a b Ha Hb Fa Fb).
    destruct (N.eqb_spec a b) as [->|Hab].
    - destruct Hn as [Hn|Hn]; [contradiction|]. rewrite (f64_eq_refl_nonnan b Hn). reflexivity.
    - rewrite Fa, Fb. cbn [andb]. destruct (f64_eq a b); [reflexivity|].
      rewrite !as_ptr_view, (float_ptr_excl a Ha Fa). reflexivity. }
  unfold t_cmp_ff. views. rewrite Fa, Fb. unfold g_cmp, float_cmp.
  destruct o; try discriminate; rewrite E; reflexivity.
Qed.

Definition codec_grid : list N :=
  [0; 0x8000000000000000; 1; 0x8000000000000001; 0x000FFFFFFFFFFFFF; 0x0010000000000000;
   0x3FF0000000000000; 0xBFF0000000000000; 0x3FF8000000000000; 0x4004000000000000;
   0x4340000000000000; 0x4340000000000001; 0x433FFFFFFFFFFFFF; 0x7FEFFFFFFFFFFFFF;
   0xFFEFFFFFFFFFFFFF; 0x7FF0000000000000; 0xFFF0000000000000; 0x7FFC000000000001;
   0x7FF0000000000001; 0xFFFE000000000123; 0x0008000000000000; 0x3FB999999999999A].
Definition codec_eq_on (a b : N) : bool :=
  negb (is_float a && is_float b)
  || Bool.eqb (PrimFloat.eqb (f_of_bits a) (f_of_bits b)) (f64_eq a b).
Lemma codec_eq_grid :
  forallb (fun a => forallb (fun b => codec_eq_on a b) codec_grid) codec_grid = true.
Proof. vm_compute. reflexivity. Qed.

Lemma codec_roundtrip_grid :
  forallb (fun w => bits_of_f (f_of_bits w) =? v_float w) codec_grid = true.
Proof. vm_compute. reflexivity. Qed.

Lemma nonvacuous_c06 :
  is_int (v_int (-140737488355328)) = true /\ is_float W_2_5 = true /\ W_2_5 < W64 /\
  t_arith_ii no_heap AMul (v_int 140737488355327) (v_int 3) = ROk (v_int 140737488355325) /\
  t_arith_ii no_heap AAdd W_2_5 (v_int 1) = ROk W_3_5 /\
  t_arith_ff no_heap ADiv (v_int 1) W_2_5 = g_arith no_heap ADiv (v_int 1) W_2_5 /\
  t_arith_imm no_heap AAdd v_null 3 = RErr ETypeError /\
  gd_arith_iig no_heap AAdd (v_int 1) W_2_5 = ROk W_3_5 /\
  forloop_i true (v_int 1) (v_int 2) (v_int 1) = Some (v_int 2, true).
Proof. vm_compute. repeat split; reflexivity. Qed.
