(* Lemmas about Model/VmArith.v: typed = generic when the tags match, guarded = generic (or the
   exact exceptions), and the counterexamples for the unchecked reads.  No float axiom is
   needed: the typed / guarded / generic families share the same float kernels. *)
From Aelys Require Import Base.Tactics Extracted.ValueConsts Extracted.Opcodes Model.Value
  Proofs.ValueProofs Model.VmArith.
From Coq Require Import Floats.
Local Open Scope N_scope.

(* ------------------------------------------------------------------ operand views *)
Lemma as_int_view (w : N) : as_int w = if is_int w then Some (as_int_unchecked w) else None.
Proof. reflexivity. Qed.

Lemma as_f_view (w : N) : as_f w = if is_float w then Some (f_of_bits w) else None.
Proof. unfold as_f, as_float. destruct (is_float w); reflexivity. Qed.

Lemma promote_view (w : N) :
  promote w = if is_float w then Some (f_of_bits w)
              else if is_int w then Some (f_of_int (as_int_unchecked w)) else None.
Proof. unfold promote. rewrite as_f_view, as_int_view. destruct (is_float w), (is_int w); reflexivity. Qed.

Lemma as_ptr_view (w : N) : as_ptr w = if is_ptr w then Some (N.land w PAYLOAD_MASK) else None.
Proof. reflexivity. Qed.

Lemma int_float_excl (w : N) : w < W64 -> is_int w = true -> is_float w = false.
Proof.
  intros Hw Hi. destruct (is_float w) eqn:F; [|reflexivity].
  rewrite (float_not_int w Hw F) in Hi. discriminate.
Qed.

Lemma int_ptr_excl (w : N) : w < W64 -> is_int w = true -> is_ptr w = false.
Proof.
  intros Hw Hi. pose proof (kind_partition_lemma w Hw) as K.
  unfold kind_count in K. rewrite Hi in K.
  destruct (is_ptr w); [|reflexivity]. exfalso. unfold b2n in K.
  destruct (is_float w), (is_bool w), (is_null w), (is_nested w); lia.
Qed.

Lemma float_ptr_excl (w : N) : w < W64 -> is_float w = true -> is_ptr w = false.
Proof.
  intros Hw Hf. pose proof (kind_partition_lemma w Hw) as K.
  unfold kind_count in K. rewrite Hf in K.
  destruct (is_ptr w); [|reflexivity]. exfalso. unfold b2n in K.
  destruct (is_int w), (is_bool w), (is_null w), (is_nested w); lia.
Qed.

Ltac views := rewrite ?as_int_view, ?as_f_view, ?promote_view, ?as_ptr_view.

(* every combination of (is_int, is_float) for two 64-bit words, minus the impossible ones *)
Ltac kinds a b Ha Hb :=
  let Ia := fresh "Ia" in let Fa := fresh "Fa" in let Ib := fresh "Ib" in let Fb := fresh "Fb" in
  destruct (is_int a) eqn:Ia; destruct (is_float a) eqn:Fa;
  destruct (is_int b) eqn:Ib; destruct (is_float b) eqn:Fb;
  try (rewrite (int_float_excl a Ha Ia) in Fa; discriminate);
  try (rewrite (int_float_excl b Hb Ib) in Fb; discriminate).

(* ------------------------------------------------------------------ typed = generic when tagged *)
Lemma typed_arith_ii_agrees (hv : heapview) (o : aop) (a b : N) :
  is_int a = true -> is_int b = true -> t_arith_ii o a b = g_arith hv o a b.
Proof.
  intros Ia Ib. unfold g_arith, g_arith_num, t_arith_ii. views. rewrite Ia, Ib. reflexivity.
Qed.

Lemma typed_bit_ii_agrees (o : bop) (a b : N) :
  is_int a = true -> is_int b = true -> t_bit_ii o a b = g_bit o a b.
Proof. intros Ia Ib. unfold g_bit, t_bit_ii. views. rewrite Ia, Ib. reflexivity. Qed.

Lemma typed_not_i_agrees (a : N) : is_int a = true -> t_not_i a = g_bitnot a.
Proof. intros Ia. unfold g_bitnot, t_not_i. views. rewrite Ia. reflexivity. Qed.

Definition is_ord (o : cop) : bool := match o with CEq | CNe => false | _ => true end.

Lemma typed_ord_ii_agrees (hv : heapview) (o : cop) (a b : N) :
  is_ord o = true -> is_int a = true -> is_int b = true -> t_cmp_ii o a b = g_cmp hv o a b.
Proof.
  intros Ho Ia Ib. unfold g_cmp, g_ord, t_cmp_ii. views. rewrite Ia, Ib.
  destruct o; try discriminate; reflexivity.
Qed.

Lemma typed_arith_ff_agrees (hv : heapview) (o : aop) (a b : N) :
  a < W64 -> b < W64 -> is_float a = true -> is_float b = true ->
  t_arith_ff o a b = g_arith hv o a b.
Proof.
  intros Ha Hb Fa Fb. unfold g_arith, g_arith_num, t_arith_ff, as_float_unchecked. views.
  rewrite (float_not_int a Ha Fa), (float_not_int b Hb Fb), Fa, Fb. reflexivity.
Qed.

Lemma typed_ord_ff_agrees (hv : heapview) (o : cop) (a b : N) :
  is_ord o = true -> a < W64 -> b < W64 -> is_float a = true -> is_float b = true ->
  t_cmp_ff o a b = g_cmp hv o a b.
Proof.
  intros Ho Ha Hb Fa Fb. unfold g_cmp, g_ord, t_cmp_ff, as_float_unchecked. views.
  rewrite (float_not_int a Ha Fa), (float_not_int b Hb Fb), Fa, Fb.
  destruct o; try discriminate; reflexivity.
Qed.

(* EqII / NeII on the integer words the VM creates (Value::int n) *)
Lemma as_int_unchecked_v_int (n : Z) : as_int_unchecked (v_int n) = wrap48 n.
Proof.
  pose proof (int_wrap_lemma n) as H. rewrite as_int_view, int_is_int in H.
  injection H as H. exact H.
Qed.

Lemma int_ptr_none (n : Z) : as_ptr (v_int n) = None.
Proof.
  rewrite as_ptr_view.
  pose proof (int_kind_count n) as K. pose proof (int_is_int n) as I.
  unfold kind_count in K. rewrite I in K.
  destruct (is_ptr (v_int n)); [|reflexivity]. exfalso. unfold b2n in K.
  destruct (is_float (v_int n)), (is_bool (v_int n)), (is_null (v_int n)), (is_nested (v_int n)); lia.
Qed.

Lemma g_eq_ints (hv : heapview) (x y : Z) :
  in48 x -> in48 y -> g_eq hv (v_int x) (v_int y) = (x =? y)%Z.
Proof.
  intros Hx Hy. unfold g_eq. rewrite (eq_int_int_lemma x y Hx Hy).
  destruct (x =? y)%Z; [reflexivity|]. rewrite !int_ptr_none. reflexivity.
Qed.

Lemma typed_eq_ii_agrees (hv : heapview) (o : cop) (x y : Z) :
  in48 x -> in48 y -> t_cmp_ii o (v_int x) (v_int y) = g_cmp hv o (v_int x) (v_int y).
Proof.
  intros Hx Hy. destruct (is_ord o) eqn:Ho.
  - apply typed_ord_ii_agrees; [exact Ho | apply int_is_int | apply int_is_int].
  - unfold t_cmp_ii, g_cmp. rewrite !as_int_unchecked_v_int, !wrap48_id by assumption.
    destruct o; try discriminate; rewrite (g_eq_ints hv x y Hx Hy); reflexivity.
Qed.

(* immediates: the C field is a small non-negative int *)
Lemma imm_in48 (c : N) : c < 256 -> in48 (Z.of_N c).
Proof. unfold in48. lia. Qed.

Lemma typed_arith_imm_agrees (hv : heapview) (o : aop) (a c : N) :
  is_int a = true -> c < 256 -> t_arith_imm o a c = g_arith hv o a (v_int (Z.of_N c)).
Proof.
  intros Ia Hc. unfold g_arith, g_arith_num, t_arith_imm.
  rewrite (int_roundtrip_lemma _ (imm_in48 c Hc)). views. rewrite Ia. reflexivity.
Qed.

Lemma typed_cmp_imm_agrees (hv : heapview) (o : cop) (a c : N) :
  is_ord o = true -> is_int a = true -> c < 256 ->
  t_cmp_imm o a c = g_cmp hv o a (v_int (Z.of_N c)).
Proof.
  intros Ho Ia Hc. unfold g_cmp, g_ord, t_cmp_imm.
  rewrite (int_roundtrip_lemma _ (imm_in48 c Hc)). views. rewrite Ia.
  destruct o; try discriminate; reflexivity.
Qed.

Lemma typed_bit_imm_agrees (o : bop) (a c : N) :
  is_int a = true -> c < 256 -> t_bit_imm o a c = g_bit o a (v_int (Z.of_N c)).
Proof.
  intros Ia Hc. unfold g_bit, t_bit_imm.
  rewrite (int_roundtrip_lemma _ (imm_in48 c Hc)). views. rewrite Ia. reflexivity.
Qed.

(* loop super-instructions: with int registers they compute the checked comparison *)
Lemma while_loop_agrees (hv : heapview) (a b : N) :
  is_int a = true -> is_int b = true -> ROk (v_bool (while_loop_lt a b)) = g_cmp hv CLt a b.
Proof.
  intros Ia Ib. unfold g_cmp, g_ord, while_loop_lt. views. rewrite Ia, Ib. reflexivity.
Qed.

Lemma forloop_agrees (incl : bool) (i e s : N) :
  is_int i = true -> is_int e = true -> is_int s = true ->
  exists x y z, as_int i = Some x /\ as_int e = Some y /\ as_int s = Some z /\
    forloop_i incl i e s =
      (v_int (x + z),
       if (0 <? z)%Z then (if incl then (x + z <=? y)%Z else (x + z <? y)%Z)
       else (if incl then (y <=? x + z)%Z else (y <? x + z)%Z)).
Proof.
  intros Ii Ie Is. exists (as_int_unchecked i), (as_int_unchecked e), (as_int_unchecked s).
  views. rewrite Ii, Ie, Is. repeat split; reflexivity.
Qed.

(* ------------------------------------------------------------------ guarded families *)
Definition is_num (w : N) : bool := is_int w || is_float w.

(* ...IIG arithmetic is the generic operation on every pair of words *)
Lemma guarded_arith_iig_total (hv : heapview) (o : aop) (a b : N) :
  a < W64 -> b < W64 -> gd_arith_iig hv o a b = g_arith hv o a b.
Proof.
  intros Ha Hb. unfold gd_arith_iig. unfold g_arith at 2. unfold g_arith_num. views.
  kinds a b Ha Hb; try reflexivity;
    unfold g_arith, g_arith_num; views; rewrite ?Ia, ?Fa, ?Ib, ?Fb; reflexivity.
Qed.

(* ...FFG arithmetic is the generic operation unless both operands are ints (it promotes both) *)
Lemma guarded_arith_ffg_sound (hv : heapview) (o : aop) (a b : N) :
  a < W64 -> b < W64 -> is_int a && is_int b = false ->
  gd_arith_ffg hv o a b = g_arith hv o a b.
Proof.
  intros Ha Hb Hn. unfold gd_arith_ffg. unfold g_arith at 2. unfold g_arith_num. views.
  kinds a b Ha Hb; try discriminate; try reflexivity;
    unfold g_arith, g_arith_num; views; rewrite ?Ia, ?Fa, ?Ib, ?Fb; reflexivity.
Qed.

(* ordering comparisons (after fix 5bb247f the non-numeric case falls back to the generic
   comparison): ...IIG = generic on EVERY pair of words, ...FFG unless both operands are ints
   (then it compares the promoted floats: same answer, but that needs a float fact) *)
Lemma guarded_ord_iig_total (hv : heapview) (o : cop) (a b : N) :
  is_ord o = true -> a < W64 -> b < W64 -> gd_cmp_iig hv o a b = g_cmp hv o a b.
Proof.
  intros Ho Ha Hb. unfold gd_cmp_iig. unfold g_cmp at 2. unfold g_ord. views.
  kinds a b Ha Hb; destruct o; try discriminate; try reflexivity;
    unfold g_cmp, g_ord; views; rewrite ?Ia, ?Fa, ?Ib, ?Fb; reflexivity.
Qed.

Lemma guarded_ord_ffg_sound (hv : heapview) (o : cop) (a b : N) :
  is_ord o = true -> a < W64 -> b < W64 -> is_int a && is_int b = false ->
  gd_cmp_ffg hv o a b = g_cmp hv o a b.
Proof.
  intros Ho Ha Hb Hn. unfold gd_cmp_ffg. unfold g_cmp at 2. unfold g_ord. views.
  kinds a b Ha Hb; try discriminate; destruct o; try discriminate; try reflexivity;
    unfold g_cmp, g_ord; views; rewrite ?Ia, ?Fa, ?Ib, ?Fb; reflexivity.
Qed.

(* the behaviour before fix 5bb247f, kept as a statement about the OLD definition only *)
Definition gd_cmp_iig_old (hv : heapview) (o : cop) (a b : N) : vres :=
  match as_int a, as_int b with
  | Some l, Some r => ROk (v_bool (int_cmp o l r))
  | _, _ =>
    match promote a, promote b with
    | Some x, Some y => ROk (v_bool (float_cmp o x y))
    | _, _ => match o with
              | CEq => ROk (v_bool (g_eq hv a b)) | CNe => ROk (v_bool (negb (g_eq hv a b)))
              | _ => ROk (v_bool false)
              end
    end
  end.
Lemma old_guarded_ord_answered_false :
  gd_cmp_iig_old no_heap CLt v_null (v_int 1) = ROk (v_bool false) /\
  g_cmp no_heap CLt v_null (v_int 1) = RErr ETypeError /\
  gd_cmp_iig no_heap CLt v_null (v_int 1) = RErr ETypeError.
Proof. vm_compute. repeat split; reflexivity. Qed.

(* Eq / Ne: guarded = generic when no operand is a float (ints as created by Value::int, or a
   non-number on either side) *)
Lemma guarded_eq_ints (hv : heapview) (o : cop) (x y : Z) :
  in48 x -> in48 y ->
  gd_cmp_iig hv o (v_int x) (v_int y) = g_cmp hv o (v_int x) (v_int y).
Proof.
  intros Hx Hy. unfold gd_cmp_iig. views. rewrite !int_is_int.
  exact (typed_eq_ii_agrees hv o x y Hx Hy).
Qed.

Lemma guarded_eq_nonnum (hv : heapview) (o : cop) (a b : N) :
  is_ord o = false -> a < W64 -> b < W64 -> is_num a && is_num b = false ->
  gd_cmp_iig hv o a b = g_cmp hv o a b /\ gd_cmp_ffg hv o a b = g_cmp hv o a b.
Proof.
  intros Ho Ha Hb Hn. unfold is_num in *. unfold gd_cmp_iig, gd_cmp_ffg. views.
  kinds a b Ha Hb; try discriminate; split; reflexivity.
Qed.

(* ------------------------------------------------------------------ counterexamples *)
Definition W_2_5 : N := 0x4004000000000000.      (* 2.5 *)
Definition W_3_5 : N := 0x400C000000000000.      (* 3.5 *)

(* AddII applied to the float 2.5 and the int 1: a non-error int, while generic Add gives 3.5 *)
Lemma addii_misreads_float :
  is_float W_2_5 = true /\ W_2_5 < W64 /\
  g_arith no_heap AAdd W_2_5 (v_int 1) = ROk W_3_5 /\
  exists w, t_arith_ii AAdd W_2_5 (v_int 1) = ROk w /\ is_int w = true /\ w <> W_3_5.
Proof.
  vm_compute. repeat split; try reflexivity.
  eexists. repeat split; try reflexivity. discriminate.
Qed.

(* AddFF applied to the ints 1 and 2: NaN instead of 3 *)
Lemma addff_misreads_int :
  g_arith no_heap AAdd (v_int 1) (v_int 2) = ROk (v_int 3) /\
  t_arith_ff AAdd (v_int 1) (v_int 2) = ROk CANONICAL_NAN.
Proof. vm_compute. split; reflexivity. Qed.

(* WhileLoopLt with a float bound: 0 < 2.5 is true, the unchecked read says false *)
Lemma while_loop_misreads_float :
  g_cmp no_heap CLt (v_int 0) W_2_5 = ROk (v_bool true) /\ while_loop_lt (v_int 0) W_2_5 = false.
Proof. vm_compute. split; reflexivity. Qed.

(* ForLoopI with a float bound 2.5: from 0 step 1 the loop should continue at 1, it stops *)
Lemma forloop_misreads_float :
  g_cmp no_heap CLt (v_int 1) W_2_5 = ROk (v_bool true) /\
  forloop_i false (v_int 0) W_2_5 (v_int 1) = (v_int 1, false).
Proof. vm_compute. split; reflexivity. Qed.

(* LtIImm on a float *)
Lemma ltimm_misreads_float :
  g_cmp no_heap CLt 0x401E000000000000 (v_int 5) = ROk (v_bool false)     (* 7.5 < 5 *)
  /\ t_cmp_imm CLt 0x401E000000000000 5 = ROk (v_bool true).
Proof. vm_compute. split; reflexivity. Qed.

(* guarded: DivFFG 7 2 = 3.5 but Div 7 2 = 3 ; LtIIG null 1 = Lt null 1 = TypeError (since 5bb247f);
   EqFF / EqIIG on the canonical NaN say false, generic Eq (raw-bits shortcut) says true *)
Lemma guarded_counterexamples :
  gd_arith_ffg no_heap ADiv (v_int 7) (v_int 2) = ROk W_3_5 /\
  g_arith no_heap ADiv (v_int 7) (v_int 2) = ROk (v_int 3) /\
  gd_cmp_iig no_heap CLt v_null (v_int 1) = RErr ETypeError /\
  g_cmp no_heap CLt v_null (v_int 1) = RErr ETypeError /\
  gd_cmp_iig no_heap CEq CANONICAL_NAN CANONICAL_NAN = ROk (v_bool false) /\
  t_cmp_ff CEq CANONICAL_NAN CANONICAL_NAN = ROk (v_bool false) /\
  g_cmp no_heap CEq CANONICAL_NAN CANONICAL_NAN = ROk (v_bool true).
Proof. vm_compute. repeat split; reflexivity. Qed.

(* an int-tagged word with the sign bit set (never produced by Value::int): EqII compares
   payloads, generic Eq compares raw bits first *)
Lemma eqii_noncanonical_int :
  is_int 0xFFF9000000000005 = true /\
  t_cmp_ii CEq 0xFFF9000000000005 (v_int 5) = ROk (v_bool true) /\
  g_cmp no_heap CEq 0xFFF9000000000005 (v_int 5) = ROk (v_bool false).
Proof. vm_compute. repeat split; reflexivity. Qed.

Lemma dispatch_numbers_check : dispatch_numbers_ok = true.
Proof. vm_compute. reflexivity. Qed.

(* ------------------------------------------------------------------ EqFF / NeFF
   Generic Eq goes through Value::eq (Model/Value.v: f64_eq on bit patterns), EqFF through
   the primitive-float comparison of the decoded operands.  Relating the two needs the fact
   `codec_eq` below about the codec (decode is injective up to +-0 and NaN); it is a premise
   here, checked by computation on a grid of boundary patterns (codec_eq_grid) and by the
   hx_vmop tie on every run. *)
Definition codec_eq_fact : Prop :=
  forall a b : N, a < W64 -> b < W64 -> is_float a = true -> is_float b = true ->
    PrimFloat.eqb (f_of_bits a) (f_of_bits b) = f64_eq a b.

Lemma typed_eq_ff_agrees_under_codec (hv : heapview) (o : cop) (a b : N) :
  codec_eq_fact ->
  is_ord o = false -> a < W64 -> b < W64 -> is_float a = true -> is_float b = true ->
  (a <> b \/ is_nan_bits a = false) ->
  t_cmp_ff o a b = g_cmp hv o a b.
Proof.
  intros CE Ho Ha Hb Fa Fb Hn.
  assert (E : g_eq hv a b = PrimFloat.eqb (f_of_bits a) (f_of_bits b)).
  { unfold g_eq, value_eq. rewrite (CE a b Ha Hb Fa Fb).
    destruct (N.eqb_spec a b) as [->|Hab].
    - destruct Hn as [Hn|Hn]; [contradiction|]. rewrite (f64_eq_refl_nonnan b Hn). reflexivity.
    - rewrite Fa, Fb. cbn [andb]. destruct (f64_eq a b); [reflexivity|].
      rewrite !as_ptr_view, (float_ptr_excl a Ha Fa). reflexivity. }
  unfold t_cmp_ff, g_cmp, float_cmp, as_float_unchecked.
  destruct o; try discriminate; rewrite E; reflexivity.
Qed.

Definition codec_grid : list N :=
  [0; 0x8000000000000000; 1; 0x8000000000000001; 0x000FFFFFFFFFFFFF; 0x0010000000000000;
   0x3FF0000000000000; 0xBFF0000000000000; 0x3FF8000000000000; 0x4004000000000000;
   0x4340000000000000; 0x4340000000000001; 0x433FFFFFFFFFFFFF; 0x7FEFFFFFFFFFFFFF;
   0xFFEFFFFFFFFFFFFF; 0x7FF0000000000000; 0xFFF0000000000000; 0x7FFC000000000001;
   0x7FF0000000000001; 0xFFFE000000000123; 0x0008000000000000; 0x3FB999999999999A].
Definition codec_eq_on (a b : N) : bool :=
  negb (is_float a && is_float b)
  || Bool.eqb (PrimFloat.eqb (f_of_bits a) (f_of_bits b)) (f64_eq a b).
Lemma codec_eq_grid :
  forallb (fun a => forallb (fun b => codec_eq_on a b) codec_grid) codec_grid = true.
Proof. vm_compute. reflexivity. Qed.

(* the codec round-trips every pattern of the grid: bits_of_f (f_of_bits w) = Value::float w *)
Lemma codec_roundtrip_grid :
  forallb (fun w => bits_of_f (f_of_bits w) =? v_float w) codec_grid = true.
Proof. vm_compute. reflexivity. Qed.

(* ------------------------------------------------------------------ packaged statements for Props/C06.v *)
Lemma eq_ii_all_words_refuted : exists a b,
  is_int a = true /\ is_int b = true /\ t_cmp_ii CEq a b <> g_cmp no_heap CEq a b.
Proof.
  exists 0xFFF9000000000005, (v_int 5).
  destruct eqii_noncanonical_int as (H1 & H2 & H3).
  split; [exact H1|]. split; [apply int_is_int|]. rewrite H2, H3. discriminate.
Qed.

Lemma eq_ff_nan_refuted : exists a,
  is_float a = true /\ t_cmp_ff CEq a a = ROk (v_bool false) /\ g_cmp no_heap CEq a a = ROk (v_bool true).
Proof.
  exists CANONICAL_NAN. destruct guarded_counterexamples as (_ & _ & _ & _ & _ & H6 & H7).
  split; [vm_compute; reflexivity|]. split; [exact H6 | exact H7].
Qed.

Lemma unchecked_mismatch_witness : exists a b w,
  is_float a = true /\ a < W64 /\
  t_arith_ii AAdd a b = ROk w /\ g_arith no_heap AAdd a b <> ROk w /\
  g_arith no_heap AAdd a b <> RErr ETypeError.
Proof.
  destruct addii_misreads_float as (Hf & Hlt & Hg & w & Ht & _ & Hne).
  exists W_2_5, (v_int 1), w.
  split; [exact Hf|]. split; [exact Hlt|]. split; [exact Ht|]. split.
  - rewrite Hg. intro E. injection E as E. apply Hne. symmetry. exact E.
  - rewrite Hg. discriminate.
Qed.

Lemma guarded_total_sound_witnesses :
  (gd_arith_ffg no_heap ADiv (v_int 7) (v_int 2) = ROk W_3_5 /\
   g_arith no_heap ADiv (v_int 7) (v_int 2) = ROk (v_int 3)) /\
  (gd_cmp_iig no_heap CEq CANONICAL_NAN CANONICAL_NAN = ROk (v_bool false) /\
   g_cmp no_heap CEq CANONICAL_NAN CANONICAL_NAN = ROk (v_bool true)).
Proof.
  destruct guarded_counterexamples as (H1 & H2 & _ & _ & H5 & _ & H7).
  exact (conj (conj H1 H2) (conj H5 H7)).
Qed.

Lemma nonvacuous_c06 :
  is_int (v_int (-140737488355328)) = true /\ is_float W_2_5 = true /\ W_2_5 < W64 /\
  t_arith_ii AMul (v_int 140737488355327) (v_int 3) = ROk (v_int 140737488355325) /\
  t_arith_ff ADiv (v_int 1) W_2_5 = ROk CANONICAL_NAN /\
  gd_arith_iig no_heap AAdd (v_int 1) W_2_5 = ROk W_3_5.
Proof. vm_compute. repeat split; reflexivity. Qed.
