(* "Folding == runtime": a literal produced by the constant folder is, bit for bit, the
   NaN-boxed word the VM's generic operation produces on the boxed operands
   (Model/VmArith.v, tied to the real dispatch loop by hx_vmop). *)
From Aelys Require Import Base.Tactics Extracted.ValueConsts Extracted.Opcodes Model.Value Model.VmArith
  Proofs.ValueProofs Model.Lang Model.Eval Extracted.OptConsts Model.Opt.Fold Proofs.EvalProofs Proofs.FoldProofs.
Local Open Scope Z_scope.

(* the VM's generic operation for a source-level binary operator, on boxed words *)
Definition vm_generic (op : binop) (a b : N) : vres :=
  match op with
  | BAdd => g_arith no_heap AAdd a b
  | BSub => g_arith no_heap ASub a b
  | BMul => g_arith no_heap AMul a b
  | BDiv => g_arith no_heap ADiv a b
  | BMod => g_arith no_heap AMod a b
  | BEq => g_cmp no_heap CEq a b
  | BNe => g_cmp no_heap CNe a b
  | BLt => g_cmp no_heap CLt a b
  | BLe => g_cmp no_heap CLe a b
  | BGt => g_cmp no_heap CGt a b
  | BGe => g_cmp no_heap CGe a b
  | BShl => g_bit VmArith.BShl a b
  | BShr => g_bit VmArith.BShr a b
  | BBitAnd => g_bit BAnd a b
  | BBitOr => g_bit BOr a b
  | BBitXor => g_bit BXor a b
  end.

(* boxing of a folded literal *)
Definition box_lit (e : expr) : option N :=
  match e with
  | EInt n => Some (v_int n)
  | EBool b => Some (v_bool b)
  | _ => None
  end.

Lemma in48_of_range v : in_vm_range v = true -> in48 v.
Proof. intro H. apply in_vm_range_spec in H. unfold in48. lia. Qed.

Lemma v_int_congr (n m : Z) :
  n mod 281474976710656 = m mod 281474976710656 -> v_int n = v_int m.
Proof. intro H. rewrite !v_int_shape, H. reflexivity. Qed.

Lemma v_int_wrap64 n : v_int (Eval.wrap64 n) = v_int n.
Proof. apply v_int_congr. unfold Eval.wrap64. lia. Qed.

Lemma g_arith_ints o a b :
  in48 a -> in48 b -> g_arith no_heap o (v_int a) (v_int b) = int_arith o a b.
Proof.
  intros Ha Hb. unfold g_arith, g_arith_num.
  rewrite (int_roundtrip_lemma a Ha), (int_roundtrip_lemma b Hb). reflexivity.
Qed.

Lemma g_bit_ints o a b :
  in48 a -> in48 b -> g_bit o (v_int a) (v_int b) = VmArith.ROk (v_int (int_bit o a b)).
Proof.
  intros Ha Hb. unfold g_bit.
  rewrite (int_roundtrip_lemma a Ha), (int_roundtrip_lemma b Hb). reflexivity.
Qed.

Lemma g_ord_ints o a b :
  in48 a -> in48 b -> g_ord o (v_int a) (v_int b) = Some (int_cmp o a b).
Proof.
  intros Ha Hb. unfold g_ord.
  rewrite (int_roundtrip_lemma a Ha), (int_roundtrip_lemma b Hb). reflexivity.
Qed.

Lemma g_eq_ints a b : in48 a -> in48 b -> g_eq no_heap (v_int a) (v_int b) = (a =? b).
Proof.
  intros Ha Hb. unfold g_eq. rewrite (eq_int_int_lemma a b Ha Hb).
  destruct (Z.eqb_spec a b) as [E|E]; [reflexivity|].
  unfold as_ptr.
  assert (Hp : is_ptr (v_int a) = false).
  { pose proof (int_kind_count a) as K. pose proof (int_is_int a) as I.
    unfold kind_count in K. rewrite I in K. destruct (is_ptr (v_int a)); [|reflexivity].
    exfalso. unfold b2n in K.
    destruct (is_float (v_int a)), (is_bool (v_int a)), (is_null (v_int a)), (is_nested (v_int a)); lia. }
  rewrite Hp. reflexivity.
Qed.

Theorem fold_int_binary_vm_sound (op : binop) (a b : Z) (e : expr) :
  fold_int_binary op a b = Some e ->
  exists w, box_lit e = Some w /\ vm_generic op (v_int a) (v_int b) = VmArith.ROk w.
Proof.
  intro H.
  destruct (fold_int_binary_sound op a b e H) as (_ & _ & _ & Ra & Rb).
  pose proof (in48_of_range a Ra) as Ha. pose proof (in48_of_range b Rb) as Hb.
  unfold fold_int_binary in H. rewrite Ra, Rb in H. cbn [andb negb] in H.
  destruct op; cbn [vm_generic]; unfold checked in H.
  - rewrite g_arith_ints by assumption.
    destruct (is_i64 (a + b)); [|discriminate]. destruct (in_vm_range (a + b)); [|discriminate].
    injection H as <-. eexists; split; reflexivity.
  - rewrite g_arith_ints by assumption.
    destruct (is_i64 (a - b)); [|discriminate]. destruct (in_vm_range (a - b)); [|discriminate].
    injection H as <-. eexists; split; reflexivity.
  - rewrite g_arith_ints by assumption.
    destruct (is_i64 (a * b)); [|discriminate]. destruct (in_vm_range (a * b)); [|discriminate].
    injection H as <-. eexists; split; reflexivity.
  - rewrite g_arith_ints by assumption. cbn [int_arith].
    destruct (b =? 0); [discriminate|].
    destruct (is_i64 (Z.quot a b)); [|discriminate]. destruct (in_vm_range (Z.quot a b)); [|discriminate].
    injection H as <-. eexists; split; reflexivity.
  - rewrite g_arith_ints by assumption. cbn [int_arith].
    destruct (b =? 0); [discriminate|].
    destruct (is_i64 (Z.rem a b)); [|discriminate]. destruct (in_vm_range (Z.rem a b)); [|discriminate].
    injection H as <-. eexists; split; reflexivity.
  - injection H as <-. unfold g_cmp. rewrite g_eq_ints by assumption. eexists; split; reflexivity.
  - injection H as <-. unfold g_cmp. rewrite g_eq_ints by assumption. eexists; split; reflexivity.
  - injection H as <-. unfold g_cmp. rewrite g_ord_ints by assumption. eexists; split; reflexivity.
  - injection H as <-. unfold g_cmp. rewrite g_ord_ints by assumption. eexists; split; reflexivity.
  - injection H as <-. unfold g_cmp. rewrite g_ord_ints by assumption. eexists; split; reflexivity.
  - injection H as <-. unfold g_cmp. rewrite g_ord_ints by assumption. eexists; split; reflexivity.
  - (* Shl *)
    destruct ((0 <=? b) && (b <=? 63)) eqn:Eb; [|discriminate].
    destruct (in_vm_range (Eval.wrap64 (Z.shiftl a b))); [|discriminate]. injection H as <-.
    rewrite g_bit_ints by assumption. cbn [int_bit box_lit].
    assert (Z.land b 63 = b) as -> by (apply shift_count_small; lia).
    eexists; split; [reflexivity|]. rewrite v_int_wrap64. reflexivity.
  - destruct ((0 <=? b) && (b <=? 63)) eqn:Eb; [|discriminate]. injection H as <-.
    rewrite g_bit_ints by assumption. cbn [int_bit box_lit].
    assert (Z.land b 63 = b) as -> by (apply shift_count_small; lia).
    eexists; split; reflexivity.
  - injection H as <-. rewrite g_bit_ints by assumption. eexists; split; reflexivity.
  - injection H as <-. rewrite g_bit_ints by assumption. eexists; split; reflexivity.
  - injection H as <-. rewrite g_bit_ints by assumption. eexists; split; reflexivity.
Qed.
