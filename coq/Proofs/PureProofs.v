(* The folder's traversal and the constant-propagation kernel preserve the semantics of pure
   expressions exactly (values AND errors), for every expression and every environment; and
   the pure semantics is the full evaluator restricted to pure expressions. *)
From Coq Require Import String.
From Aelys Require Import Base.Tactics Model.Lang Model.Eval Extracted.OptConsts Model.Opt.Fold
  Model.PureEval Proofs.EvalProofs Proofs.FoldProofs.
Local Open Scope Z_scope.

(* ------------------------------------------------------------------ node lemmas *)
Lemma lit_value_peval rho e v : lit_value e = Some v -> peval rho e = ROk v.
Proof. destruct e; cbn; intro H; try discriminate; injection H as <-; reflexivity. Qed.

Lemma fold_binary_node_sound rho op l r e :
  fold_binary_node op l r = Some e -> peval rho e = peval rho (EBin op l r).
Proof.
  unfold fold_binary_node. destruct l; try discriminate; destruct r; try discriminate; intro H.
  - (* int int *)
    destruct (fold_int_binary_sound op n n0 e H) as (v & Hl & He & Ra & Rb).
    rewrite (lit_value_peval rho e v Hl). cbn [peval].
    rewrite (in_vm_range_wrap n Ra), (in_vm_range_wrap n0 Rb). cbn [eval_binop]. symmetry. exact He.
  - (* bool bool *)
    destruct (fold_bool_comparison_sound op b b0 e H) as (v & Hl & He).
    rewrite (lit_value_peval rho e v Hl). cbn [peval]. symmetry. exact He.
  - (* str str *)
    destruct op; try discriminate.
    destruct (fold_string_concat_sound s s0 e H) as (v & Hl & He).
    rewrite (lit_value_peval rho e v Hl). cbn [peval]. symmetry. exact He.
Qed.

Lemma fold_unary_node_sound rho op a e :
  fold_unary_node op a = Some e -> peval rho e = peval rho (EUn op a).
Proof.
  intro H. destruct a; try (destruct op; discriminate).
  - destruct (fold_unary_sound op n e H) as (v & Hl & He).
    rewrite (lit_value_peval rho e v Hl). cbn [peval]. symmetry. exact He.
  - destruct op; try discriminate. cbn in H. injection H as <-. destruct b; reflexivity.
Qed.

Lemma fold_and_node_sound rho l r e :
  fold_and_node l r = Some e -> peval rho e = peval rho (EAnd l r).
Proof.
  unfold fold_and_node. destruct l; try discriminate. destruct b; intro H; injection H as <-; reflexivity.
Qed.
Lemma fold_or_node_sound rho l r e :
  fold_or_node l r = Some e -> peval rho e = peval rho (EOr l r).
Proof.
  unfold fold_or_node. destruct l; try discriminate. destruct b; intro H; injection H as <-; reflexivity.
Qed.

(* ------------------------------------------------------------------ the traversal *)
Theorem fold_expr_preserves_pure (rho : venv) (e : expr) : peval rho (fold_expr e) = peval rho e.
Proof.
  induction e; cbn [fold_expr]; try reflexivity.
  - (* EBin *)
    destruct (fold_binary_node op (fold_expr e1) (fold_expr e2)) eqn:F.
    + rewrite (fold_binary_node_sound rho _ _ _ _ F). cbn [peval]. rewrite IHe1, IHe2. reflexivity.
    + cbn [peval]. rewrite IHe1, IHe2. reflexivity.
  - destruct (fold_unary_node op (fold_expr e)) eqn:F.
    + rewrite (fold_unary_node_sound rho _ _ _ F). cbn [peval]. rewrite IHe. reflexivity.
    + cbn [peval]. rewrite IHe. reflexivity.
  - destruct (fold_and_node (fold_expr e1) (fold_expr e2)) eqn:F.
    + rewrite (fold_and_node_sound rho _ _ _ F). cbn [peval]. rewrite IHe1, IHe2. reflexivity.
    + cbn [peval]. rewrite IHe1, IHe2. reflexivity.
  - destruct (fold_or_node (fold_expr e1) (fold_expr e2)) eqn:F.
    + rewrite (fold_or_node_sound rho _ _ _ F). cbn [peval]. rewrite IHe1, IHe2. reflexivity.
    + cbn [peval]. rewrite IHe1, IHe2. reflexivity.
  - cbn [peval]. rewrite IHe1, IHe2, IHe3. reflexivity.
Qed.

(* ------------------------------------------------------------------ constant propagation kernel *)
Definition consts_agree (c : string -> option expr) (rho : venv) : Prop :=
  forall x l, c x = Some l -> exists v, lit_value l = Some v /\ rho x = Some v.

Theorem subst_consts_preserves (c : string -> option expr) (rho : venv) (e : expr) :
  consts_agree c rho -> peval rho (subst_consts c e) = peval rho e.
Proof.
  intro A. induction e; cbn [subst_consts peval]; try reflexivity.
  - destruct (c x) eqn:C; [|reflexivity].
    destruct (A x e C) as (v & Hl & Hr). rewrite (lit_value_peval rho e v Hl), Hr. reflexivity.
  - rewrite IHe1, IHe2. reflexivity.
  - rewrite IHe. reflexivity.
  - rewrite IHe1, IHe2. reflexivity.
  - rewrite IHe1, IHe2. reflexivity.
  - rewrite IHe1, IHe2, IHe3. reflexivity.
Qed.

(* without agreement the kernel is wrong: this is exactly the shadowing defect class *)
Lemma subst_consts_needs_agreement :
  exists c rho e, peval rho (subst_consts c e) <> peval rho e.
Proof.
  exists (fun x => if String.eqb x "n" then Some (EInt 5) else None),
         (fun x => if String.eqb x "n" then Some (VInt 6) else None), (EVar "n").
  cbn. discriminate.
Qed.

(* ------------------------------------------------------------------ peval is the evaluator on pure expressions *)
Lemma eval_expr_pure (e : expr) :
  forall fuel depth env st, pure e = true -> (esize e <= fuel)%nat ->
    eval_expr fuel depth env st e = (st, peval (rho_of env st) e).
Proof.
  induction e; intros fuel depth env st Hp Hf; cbn [pure] in Hp; try discriminate;
    (destruct fuel as [|f]; [cbn [esize] in Hf; lia|]); cbn [esize] in Hf; cbn [eval_expr peval].
  - reflexivity.
  - reflexivity.
  - reflexivity.
  - reflexivity.
  - reflexivity.
  - unfold rho_of, lookup_var.
    destruct (lookup x env); [reflexivity|].
    destruct (lookup x (globals st)); [reflexivity|].
    destruct (existsb (String.eqb x) builtins); reflexivity.
  - apply andb_true_iff in Hp as [P1 P2].
    rewrite (IHe1 f depth env st P1) by lia.
    destruct (peval (rho_of env st) e1); try reflexivity.
    rewrite (IHe2 f depth env st P2) by lia.
    destruct (peval (rho_of env st) e2); reflexivity.
  - rewrite (IHe f depth env st Hp) by lia.
    destruct (peval (rho_of env st) e); reflexivity.
  - apply andb_true_iff in Hp as [P1 P2].
    rewrite (IHe1 f depth env st P1) by lia.
    destruct (peval (rho_of env st) e1); try reflexivity.
    destruct (truthy a); [|reflexivity].
    rewrite (IHe2 f depth env st P2) by lia. reflexivity.
  - apply andb_true_iff in Hp as [P1 P2].
    rewrite (IHe1 f depth env st P1) by lia.
    destruct (peval (rho_of env st) e1); try reflexivity.
    destruct (truthy a); [reflexivity|].
    rewrite (IHe2 f depth env st P2) by lia. reflexivity.
  - apply andb_true_iff in Hp as [P12 P3]. apply andb_true_iff in P12 as [P1 P2].
    rewrite (IHe1 f depth env st P1) by lia.
    destruct (peval (rho_of env st) e1); try reflexivity.
    destruct (truthy a).
    + rewrite (IHe2 f depth env st P2) by lia. reflexivity.
    + rewrite (IHe3 f depth env st P3) by lia. reflexivity.
Qed.

(* ------------------------------------------------------------------ folding stays in the pure fragment *)
Lemma fold_int_binary_lit op a b e : fold_int_binary op a b = Some e -> is_literal e = true.
Proof.
  unfold fold_int_binary. destruct (negb _); [discriminate|].
  destruct op; unfold checked;
    repeat match goal with
           | |- context [if ?c then _ else _] => destruct c
           end; intro H; try discriminate; injection H as <-; reflexivity.
Qed.

Lemma literal_pure_size e : is_literal e = true -> pure e = true /\ esize e = 1%nat.
Proof. destruct e; cbn; intro H; try discriminate; split; reflexivity. Qed.

Lemma fold_binary_node_lit op l r e : fold_binary_node op l r = Some e -> is_literal e = true.
Proof.
  unfold fold_binary_node. destruct l; try discriminate; destruct r; try discriminate; intro H.
  - eapply fold_int_binary_lit; exact H.
  - destruct op; cbn in H; try discriminate; injection H as <-; reflexivity.
  - destruct op; try discriminate. unfold fold_string_concat in H.
    destruct (_ <=? _); [|discriminate]. injection H as <-. reflexivity.
Qed.

Lemma fold_unary_node_lit op a e : fold_unary_node op a = Some e -> is_literal e = true.
Proof.
  unfold fold_unary_node, checked. destruct op, a; try discriminate;
    repeat match goal with
           | |- context [if ?c then _ else _] => destruct c
           end; intro H; try discriminate; injection H as <-; reflexivity.
Qed.

Lemma fold_and_node_cases l r :
  fold_and_node l r = None \/ (l = EBool false /\ fold_and_node l r = Some (EBool false))
  \/ (l = EBool true /\ fold_and_node l r = Some r).
Proof.
  destruct l; try (left; reflexivity). destruct b; [right; right | right; left]; split; reflexivity.
Qed.
Lemma fold_or_node_cases l r :
  fold_or_node l r = None \/ (l = EBool true /\ fold_or_node l r = Some (EBool true))
  \/ (l = EBool false /\ fold_or_node l r = Some r).
Proof.
  destruct l; try (left; reflexivity). destruct b; [right; left | right; right]; split; reflexivity.
Qed.

Lemma fold_expr_pure_size (e : expr) :
  pure e = true -> pure (fold_expr e) = true /\ (esize (fold_expr e) <= esize e)%nat.
Proof.
  induction e; cbn [pure]; intro Hp; try discriminate; cbn [fold_expr];
    try (split; [reflexivity | cbn [esize]; lia]).
  - apply andb_true_iff in Hp as [P1 P2].
    destruct (IHe1 P1) as [Q1 S1]. destruct (IHe2 P2) as [Q2 S2].
    destruct (fold_binary_node op (fold_expr e1) (fold_expr e2)) eqn:F.
    + destruct (literal_pure_size _ (fold_binary_node_lit _ _ _ _ F)) as [A B].
      split; [exact A | rewrite B; cbn [esize]; lia].
    + cbn [pure esize]. rewrite Q1, Q2. split; [reflexivity | lia].
  - destruct (IHe Hp) as [Q S].
    destruct (fold_unary_node op (fold_expr e)) eqn:F.
    + destruct (literal_pure_size _ (fold_unary_node_lit _ _ _ F)) as [A B].
      split; [exact A | rewrite B; cbn [esize]; lia].
    + cbn [pure esize]. split; [exact Q | lia].
  - apply andb_true_iff in Hp as [P1 P2].
    destruct (IHe1 P1) as [Q1 S1]. destruct (IHe2 P2) as [Q2 S2].
    destruct (fold_and_node_cases (fold_expr e1) (fold_expr e2)) as [N|[[E F]|[E F]]]; rewrite ?N, ?F.
    + cbn [pure esize]. rewrite Q1, Q2. split; [reflexivity | lia].
    + cbn [pure esize]. split; [reflexivity | lia].
    + split; [exact Q2 | cbn [esize]; lia].
  - apply andb_true_iff in Hp as [P1 P2].
    destruct (IHe1 P1) as [Q1 S1]. destruct (IHe2 P2) as [Q2 S2].
    destruct (fold_or_node_cases (fold_expr e1) (fold_expr e2)) as [N|[[E F]|[E F]]]; rewrite ?N, ?F.
    + cbn [pure esize]. rewrite Q1, Q2. split; [reflexivity | lia].
    + cbn [pure esize]. split; [reflexivity | lia].
    + split; [exact Q2 | cbn [esize]; lia].
  - apply andb_true_iff in Hp as [P12 P3]. apply andb_true_iff in P12 as [P1 P2].
    destruct (IHe1 P1) as [Q1 S1]. destruct (IHe2 P2) as [Q2 S2]. destruct (IHe3 P3) as [Q3 S3].
    cbn [pure esize]. rewrite Q1, Q2, Q3. split; [reflexivity | lia].
Qed.

(* the folder preserves the FULL evaluator on pure expressions: same state, same value or error *)
Theorem fold_expr_preserves_eval (e : expr) fuel depth env st :
  pure e = true -> (esize e <= fuel)%nat ->
  eval_expr fuel depth env st (fold_expr e) = eval_expr fuel depth env st e.
Proof.
  intros Hp Hf. destruct (fold_expr_pure_size e Hp) as [Q S].
  rewrite (eval_expr_pure (fold_expr e) fuel depth env st Q) by lia.
  rewrite (eval_expr_pure e fuel depth env st Hp Hf).
  rewrite fold_expr_preserves_pure. reflexivity.
Qed.
