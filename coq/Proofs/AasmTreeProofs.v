From Aelys Require Import Base.Tactics.
From Aelys Require Import Model.AasmTree.

Section Proofs.
Variable A : Type.
Notation tree := (tree A).
Notation entry := (entry A).

Definition settle_full (st : list entry) : list entry := settle (length st) st.

Lemma settle_full_pop a ks b kb m rest :
  settle_full ((a, ks, O) :: (b, kb, m) :: rest) = settle_full ((b, kb ++ [Node a ks], Nat.pred m) :: rest).
Proof. unfold settle_full. cbn [length settle]. reflexivity. Qed.

Lemma settle_full_busy a ks n rest : settle_full ((a, ks, S n) :: rest) = (a, ks, S n) :: rest.
Proof. unfold settle_full. cbn [length settle]. reflexivity. Qed.

Lemma settle_full_single e : settle_full [e] = [e].
Proof. unfold settle_full. destruct e as [[a ks] [|n]]; reflexivity. Qed.

Lemma tree_ind' (P : tree -> Prop) :
  (forall a kids, Forall P kids -> P (Node a kids)) -> forall t, P t.
Proof.
  intro H. fix IH 1. intros [a kids]. apply H.
  induction kids as [|k kids IHk]; constructor; [apply IH | exact IHk].
Qed.

Lemma height_kid (k : tree) kids : In k kids -> (S (height k) <= fold_right (fun (k : tree) acc => Nat.max (S (height k)) acc) 0 kids)%nat.
Proof. induction kids as [|x r IH]; [intros []|]. cbn [fold_right]. intros [->|H]; [lia | specialize (IH H); lia]. Qed.

(* a whole subtree, read below a parent that still expects it, ends up as that parent's next child *)
Definition tree_ok (t : tree) : Prop :=
  forall rest b kb m st,
    (S (length st) + height t <= MAX_FUNCTION_NESTING)%nat ->
    run (flatten t ++ rest) ((b, kb, S m) :: st) = run rest (settle_full ((b, kb ++ [t], m) :: st)).

Lemma forest_ok kids : Forall tree_ok kids ->
  forall acc e rest a st,
    (forall k, In k kids -> (S (length st) + height k <= MAX_FUNCTION_NESTING)%nat) ->
    run (flat_map flatten kids ++ rest) (settle_full ((a, acc, length kids + e) :: st))
    = run rest (settle_full ((a, acc ++ kids, e) :: st)).
Proof.
  induction 1 as [|k kids Hk _ IH]; intros acc e rest a st Hh.
  - cbn [flat_map app length]. rewrite app_nil_r. reflexivity.
  - cbn [flat_map length]. rewrite <- app_assoc. cbn [Nat.add]. rewrite settle_full_busy.
    rewrite (Hk _ a acc (length kids + e) st) by (apply Hh; left; reflexivity).
    rewrite IH by (intros k' Hk'; apply Hh; right; exact Hk').
    rewrite <- app_assoc. reflexivity.
Qed.

Lemma all_trees_ok : forall t, tree_ok t.
Proof.
  induction t as [a kids IH] using tree_ind'.
  intros rest b kb m st Hd. cbn [flatten app run].
  unfold MAX_FUNCTION_NESTING, AasmTree.entry in *.
  match goal with |- context [Nat.ltb 64 ?x] =>
    assert (Nat.ltb 64 x = false) as E by (apply Nat.ltb_ge; cbn [length] in *; lia); rewrite E end.
  change (settle (length ((a, [], length kids) :: (b, kb, S m) :: st)) ((a, [], length kids) :: (b, kb, S m) :: st))
    with (settle_full ((a, [], length kids) :: (b, kb, S m) :: st)).
  replace (length kids) with (length kids + 0)%nat by lia.
  rewrite (forest_ok kids IH [] 0 rest a ((b, kb, S m) :: st)).
  - cbn [app]. rewrite settle_full_pop. cbn [Nat.pred]. reflexivity.
  - intros k Hk. pose proof (height_kid k kids Hk). cbn [height length] in *. unfold MAX_FUNCTION_NESTING. lia.
Qed.

Theorem rebuild_flatten (t : tree) : (height t <= MAX_FUNCTION_NESTING)%nat -> rebuild (flatten t) = Some (Some t).
Proof.
  destruct t as [a kids]. intro Hh. unfold rebuild. cbn [flatten run length].
  unfold MAX_FUNCTION_NESTING in *. cbn [Nat.ltb Nat.leb].
  change (settle 1 [(a, [], length kids)]) with (settle_full [(a, @nil tree, length kids)]).
  replace (length kids) with (length kids + 0)%nat at 1 by lia.
  rewrite <- (app_nil_r (flat_map flatten kids)).
  assert (Forall tree_ok kids) as F by (apply Forall_forall; intros; apply all_trees_ok).
  rewrite (forest_ok kids F [] 0 [] a []).
  - cbn [app run]. rewrite settle_full_single. reflexivity.
  - intros k Hk. pose proof (height_kid k kids Hk). cbn [height length] in *. unfold MAX_FUNCTION_NESTING. lia.
Qed.

(* deeper trees are refused, not built: a chain one level too deep *)
End Proofs.

Fixpoint chain (n : nat) : tree unit := match n with O => Node tt [] | S k => Node tt [chain k] end.
Example rebuild_examples :
  rebuild (flatten (chain 64)) = Some (Some (chain 64)) /\ rebuild (flatten (chain 65)) = None
  /\ rebuild (flatten (chain 2000)) = None
  /\ rebuild [(1, 2); (2, 0); (3, 1); (4, 0)] = Some (Some (Node 1 [Node 2 []; Node 3 [Node 4 []]])).
Proof. vm_compute. repeat split; reflexivity. Qed.
