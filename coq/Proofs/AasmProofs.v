(* The assembler inverts the disassembler at instruction level, for every opcode of the table
   regenerated from the Rust source. *)
From Aelys Require Import Base.Tactics Model.AasmTypes Extracted.AasmTable Model.Aasm.
From Coq Require Import String.
Local Open Scope N_scope.

Lemma table_ok_now : table_ok aasm_table = true.
Proof. vm_compute. reflexivity. Qed.

(* ---- words and instructions *)
Lemma instr_of_word_of i :
  i_op i < 256 -> i_a i < 256 -> i_b i < 256 -> i_c i < 256 -> instr_of (word_of i) = i.
Proof.
  destruct i as [o a b c]. cbn [i_op i_a i_b i_c]. intros Ho Ha Hb Hc.
  unfold instr_of, word_of. cbn [i_op i_a i_b i_c].
  f_equal; lia.
Qed.

(* ---- one operand *)
Lemma imm_roundtrip i : i_b i < 256 -> i_c i < 256 ->
  in_i16 (imm_of i) = true /\ u16_of (imm_of i) = i_b i * 256 + i_c i.
Proof.
  intros Hb Hc. unfold in_i16, imm_of, u16_of.
  destruct (Z.ltb_spec (Z.of_N (i_b i * 256 + i_c i)) 32768); split; lia.
Qed.

Definition wr (i : instr) (o : okind * ofield) (j : instr) : instr :=
  set_field (snd o) (get_field (snd o) i) j.

Lemma operand_roundtrip i o j :
  kind_fits o = true -> i_a i < 256 -> i_b i < 256 -> i_c i < 256 ->
  (match o with (KBool, f) => get_field f i < 2 | _ => True end) ->
  parse_operand o (print_operand i o) j = Some (wr i o j).
Proof.
  destruct o as [k f]. intros Hk Ha Hb Hc Hbool.
  destruct (imm_roundtrip i Hb Hc) as [Hr Hu].
  destruct k, f; cbn [kind_fits] in Hk; try discriminate;
    unfold parse_operand, print_operand, wr; cbn [get_field snd fst];
    try (rewrite Hr, Hu; reflexivity);
    try (match goal with |- context [?x <? 256] => destruct (N.ltb_spec x 256); [reflexivity | lia] end);
    try (unfold in_u8; match goal with |- context [Z.of_N ?x] =>
           destruct (Z.leb_spec 0 (Z.of_N x)); destruct (Z.leb_spec (Z.of_N x) 255); cbn [andb]; try lia;
           rewrite N2Z.id; reflexivity end).
  all: cbn [get_field] in Hbool;
    match goal with |- context [?x =? 0] => destruct (N.eqb_spec x 0) as [E|E]; cbn [negb];
      [rewrite E; reflexivity | replace x with 1 by lia; reflexivity] end.
Qed.

Definition bools_lt2 (sh : shape) (i : instr) : Prop :=
  Forall (fun o => match o with (KBool, f) => get_field f i < 2 | _ => True end) sh.

Lemma ops_roundtrip sh : forall i j,
  forallb kind_fits sh = true -> i_a i < 256 -> i_b i < 256 -> i_c i < 256 -> bools_lt2 sh i ->
  parse_ops sh (print_ops sh i) j = Some (fold_left (fun j o => wr i o j) sh j).
Proof.
  induction sh as [|o sh IH]; intros i j Hk Ha Hb Hc Hbo; [reflexivity|].
  cbn [forallb] in Hk. apply andb_true_iff in Hk as [Hk1 Hk2]. inversion Hbo; subst.
  cbn [print_ops map parse_ops fold_left].
  rewrite operand_roundtrip by assumption. apply IH; assumption.
Qed.

(* after writing back every shown field, a byte is i's if some operand shows it, else untouched *)
Lemma fold_wr sh : forall i j, i_b i < 256 -> i_c i < 256 ->
  let r := fold_left (fun j o => wr i o j) sh j in
  i_op r = i_op j
  /\ i_a r = (if shown sh FA then i_a i else i_a j)
  /\ i_b r = (if shown sh FB then i_b i else i_b j)
  /\ i_c r = (if shown sh FC then i_c i else i_c j).
Proof.
  induction sh as [|[k f] sh IH]; intros i j Hb Hc; cbn [fold_left]; [repeat split; reflexivity|].
  specialize (IH i (wr i (k, f) j) Hb Hc). cbv zeta in IH. destruct IH as (I0 & I1 & I2 & I3).
  cbv zeta. rewrite I0, I1, I2, I3. unfold shown in *. cbn [existsb snd].
  destruct f; unfold wr, set_field, get_field; cbn [snd i_op i_a i_b i_c overlaps field_eqb orb];
    repeat split; try reflexivity;
    repeat match goal with |- context [if ?b then _ else _] => destruct b end; try reflexivity; try lia.
Qed.

Lemma bool_fields_spec sh i : bool_fields_ok sh i = true -> bools_lt2 sh i.
Proof.
  unfold bool_fields_ok, bools_lt2. rewrite forallb_forall, Forall_forall. intros H o Ho.
  specialize (H o Ho). destruct o as [k f]. destruct k; try exact I. lia.
Qed.

Lemma shape_roundtrip sh i :
  shape_ok sh = true -> canonical sh i = true ->
  parse_ops sh (print_ops sh i) (Instr (i_op i) 0 0 0) = Some i.
Proof.
  intros Hs Hc. unfold shape_ok in Hs. apply andb_true_iff in Hs as [Hk _].
  unfold canonical in Hc.
  repeat (apply andb_true_iff in Hc; destruct Hc as [Hc ?H]).
  assert (i_a i < 256) as Ha by lia. assert (i_b i < 256) as Hb by lia. assert (i_c i < 256) as Hcc by lia.
  rewrite ops_roundtrip; try assumption; [|apply bool_fields_spec; assumption].
  pose proof (fold_wr sh i (Instr (i_op i) 0 0 0) Hb Hcc) as F. cbv zeta in F.
  destruct F as (F0 & F1 & F2 & F3).
  set (r := fold_left (fun j o => wr i o j) sh (Instr (i_op i) 0 0 0)) in *.
  f_equal. destruct r as [ro ra rb rc], i as [o a b c]. cbn [i_op i_a i_b i_c] in *.
  f_equal; try assumption.
  - rewrite F1. destruct (shown sh FA); [reflexivity|]. cbn [orb] in *. lia.
  - rewrite F2. destruct (shown sh FB); [reflexivity|]. cbn [orb] in *. lia.
  - rewrite F3. destruct (shown sh FC); [reflexivity|]. cbn [orb] in *. lia.
Qed.

(* ---- table lookups *)
Definition r_op (r : row) := match r with Row o _ _ _ _ => o end.
Definition r_name (r : row) := match r with Row _ n _ _ _ => n end.

Lemma find_op_in op t r : find_op op t = Some r -> In r t /\ r_op r = op.
Proof.
  induction t as [|[o n sh c a] t IH]; cbn [find_op]; [discriminate|].
  destruct (N.eqb_spec o op) as [E|E].
  - intro H. inversion H; subst. split; [left; reflexivity | reflexivity].
  - intro H. destruct (IH H). split; [right; assumption | assumption].
Qed.

Lemma find_name_of t : names_distinct t = true -> forall r, In r t -> find_name (r_name r) t = Some r.
Proof.
  induction t as [|[o n sh c a] t IH]; intros Hd r Hin; [destruct Hin|].
  cbn [names_distinct] in Hd. apply andb_true_iff in Hd as [Hn Hd]. cbn [find_name].
  destruct Hin as [<-|Hin].
  - cbn [r_name]. rewrite String.eqb_refl. reflexivity.
  - destruct (String.eqb_spec n (r_name r)) as [E|E].
    + exfalso. apply negb_true_iff in Hn. rewrite <- not_true_iff_false in Hn. apply Hn.
      apply existsb_exists. exists r. split; [exact Hin|]. destruct r as [o' n' ? ? ?]. cbn [r_name] in E.
      subst. apply String.eqb_refl.
    + apply IH; assumption.
Qed.

(* assemble(disassemble) of one instruction word, for every table that is consistent *)
Theorem reassemble_word_gen (t : list row) i op name sh cache asm :
  table_ok t = true ->
  find_op (i_op i) t = Some (Row op name sh cache asm) ->
  canonical sh i = true ->
  match find_name name t with
  | Some (Row _ _ _ _ (Some (Parse op' sh' cache'))) =>
      parse_ops sh' (print_ops sh i) (Instr op' 0 0 0) = Some i /\ cache' = cache
  | _ => False
  end.
Proof.
  intros Ht Hf Hc. unfold table_ok in Ht.
  apply andb_true_iff in Ht as [Ht Ho]. apply andb_true_iff in Ht as [Hr Hn].
  destruct (find_op_in _ _ _ Hf) as [Hin Hop]. cbn [r_op] in Hop.
  pose proof (find_name_of t Hn _ Hin) as E. cbn [r_name] in E. rewrite E.
  rewrite forallb_forall in Hr. specialize (Hr _ Hin). cbn [row_ok] in Hr.
  destruct asm as [[op' sh' cache']|]; [|discriminate].
  repeat (apply andb_true_iff in Hr; destruct Hr as [Hr ?H]).
  apply N.eqb_eq in Hr. apply N.eqb_eq in H1.
  assert (sh' = sh) as ->.
  { clear - H2. revert sh' H2. induction sh as [|[k f] sh IH]; intros [|[k' f'] sh'] H; cbn [shape_eqb] in H; try discriminate; [reflexivity|].
    repeat (apply andb_true_iff in H; destruct H as [H ?H]).
    rewrite (IH _ H0). destruct k, k'; try discriminate; destruct f, f'; try discriminate; reflexivity. }
  subst op' cache'. split; [|reflexivity]. rewrite Hop. apply shape_roundtrip; assumption.
Qed.

Theorem reassemble_word i op name sh cache asm :
  find_op (i_op i) aasm_table = Some (Row op name sh cache asm) ->
  canonical sh i = true ->
  reassemble (word_of i) = Some (word_of i :: repeat 0 (N.to_nat cache)).
Proof.
  intros Hf Hc.
  pose proof (reassemble_word_gen aasm_table i op name sh cache asm table_ok_now Hf Hc) as G.
  assert (i_op i < 256) as Hop.
  { destruct (find_op_in _ _ _ Hf) as [Hin Hop]. cbn [r_op] in Hop.
    pose proof table_ok_now as T. unfold table_ok in T.
    apply andb_true_iff in T as [T _]. apply andb_true_iff in T as [T _].
    rewrite forallb_forall in T. specialize (T _ Hin). cbn [row_ok] in T.
    destruct asm as [[? ? ?]|]; [|discriminate].
    repeat (apply andb_true_iff in T; destruct T as [T ?H]). lia. }
  unfold canonical in Hc. pose proof Hc as Hc'.
  repeat (apply andb_true_iff in Hc'; destruct Hc' as [Hc' ?H]).
  unfold reassemble. rewrite instr_of_word_of by lia.
  unfold disasm_instr. rewrite Hf. unfold asm_instr.
  destruct (find_name name aasm_table) as [[? ? ? ? [[op' sh' cache']|]]|]; try contradiction.
  destruct G as [G ->]. rewrite G. reflexivity.
Qed.

(* non-vacuity: every opcode of the table has canonical instructions, e.g. all-ones operands *)
Example reassemble_examples :
  reassemble (word_of (Instr 0 3 7 0)) = Some [word_of (Instr 0 3 7 0)]            (* Move r3, r7 *)
  /\ reassemble (word_of (Instr 77 2 1 3)) = Some [word_of (Instr 77 2 1 3); 0; 0]  (* CallGlobal r2, 1, 3 + cache words *)
  /\ reassemble (word_of (Instr 1 4 255 254)) = Some [word_of (Instr 1 4 255 254)]   (* LoadI r4, -2 *)
  /\ reassemble (word_of (Instr 33 1 9 2)) = Some [word_of (Instr 33 1 9 2)]         (* StoreMemI r1, 9, r2 *)
  /\ reassemble (word_of (Instr 134 1 2 3)) = Some [word_of (Instr 134 1 2 3)]       (* ArrayLit r1, r2, 3 *)
  /\ reassemble (word_of (Instr 125 0 0 0)) = None.                                  (* not an opcode *)
Proof. vm_compute. repeat split; reflexivity. Qed.
