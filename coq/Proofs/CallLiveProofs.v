(* Every register the analysis of Model/CallLive.v reports live has a path in the flow graph to
   an instruction that reads it, with no write of it on the way (so an alarm is never a
   by-product of the iteration: it names a read that the clobbered value reaches). *)
From Coq Require Import NArith Arith List Bool Lia.
From Aelys Require Import Model.CallLive.
Import ListNotations.
Local Open Scope N_scope.

(* from the entry of instruction i, register r reaches a read without being written *)
Inductive reach (g : list node) (r : N) : nat -> Prop :=
| reach_use : forall i nd, nth_error g i = Some nd -> N.testbit (n_use nd) r = true -> reach g r i
| reach_step : forall i nd s, nth_error g i = Some nd -> n_defall nd = false ->
    N.testbit (n_def nd) r = false -> In s (n_succ nd) -> reach g r s -> reach g r i.

Definition sound (g : list node) (l : list N) : Prop :=
  forall i r, N.testbit (nth i l 0) r = true -> reach g r i.

Lemma testbit_fold_lor : forall (l : list N) acc r,
  N.testbit (fold_left N.lor l acc) r = true ->
  N.testbit acc r = true \/ exists x, In x l /\ N.testbit x r = true.
Proof.
  induction l as [|x l IH]; intros acc r H; cbn [fold_left] in H.
  - left. exact H.
  - destruct (IH _ _ H) as [A|(y & Hy & Ty)].
    + rewrite N.lor_spec in A. apply orb_true_iff in A. destruct A as [A|A].
      * left. exact A.
      * right. exists x. split; [left; reflexivity|exact A].
    + right. exists y. split; [right; exact Hy|exact Ty].
Qed.

Lemma out_of_witness g l i r : sound g l -> N.testbit (out_of g l i) r = true ->
  exists nd s, nth_error g i = Some nd /\ In s (n_succ nd) /\ reach g r s.
Proof.
  intros S H. unfold out_of in H. destruct (nth_error g i) as [nd|] eqn:E.
  - unfold lor_list in H. destruct (testbit_fold_lor _ _ _ H) as [A|(x & Hx & Tx)].
    + rewrite N.bits_0 in A. discriminate.
    + apply in_map_iff in Hx. destruct Hx as (s & <- & Hs).
      exists nd, s. repeat split; [exact Hs|]. apply S. exact Tx.
  - rewrite N.bits_0 in H. discriminate.
Qed.

Lemma flow_sound g l i r : sound g l -> N.testbit (flow g l i) r = true -> reach g r i.
Proof.
  intros S H. unfold flow in H. destruct (nth_error g i) as [nd|] eqn:E.
  - rewrite N.lor_spec in H. apply orb_true_iff in H. destruct H as [H|H].
    + eapply reach_use; eauto.
    + destruct (n_defall nd) eqn:D; [rewrite N.bits_0 in H; discriminate|].
      rewrite N.ldiff_spec in H. apply andb_true_iff in H. destruct H as [O Df].
      apply negb_true_iff in Df.
      destruct (out_of_witness g l i r S O) as (nd' & s & E' & Hs & R).
      rewrite E in E'. injection E' as <-.
      eapply reach_step; eauto.
  - rewrite N.bits_0 in H. discriminate.
Qed.

Lemma nth_upd : forall l i v j, nth j (upd l i v) 0 = if (Nat.eqb i j && Nat.ltb i (length l))%bool then v else nth j l 0.
Proof.
  induction l as [|x q IH]; intros i v j.
  - cbn. rewrite andb_false_r. destruct i; reflexivity.
  - destruct i as [|i]; destruct j as [|j]; cbn [upd nth Nat.eqb length]; try reflexivity.
    rewrite IH. reflexivity.
Qed.

Lemma upd_sound g l i v : sound g l -> (forall r, N.testbit v r = true -> reach g r i) -> sound g (upd l i v).
Proof.
  intros S V j r H. rewrite nth_upd in H.
  destruct (Nat.eqb i j && Nat.ltb i (length l))%bool eqn:E.
  - apply andb_true_iff in E. destruct E as [E _]. apply Nat.eqb_eq in E. subst j. apply V. exact H.
  - apply S. exact H.
Qed.

Lemma sweep_sound g l : sound g l -> sound g (sweep g l).
Proof.
  unfold sweep. generalize (rev (seq 0 (length g))) as idx. intros idx. revert l.
  induction idx as [|i idx IH]; intros l S; cbn [fold_left]; [exact S|].
  apply IH. apply upd_sound; [exact S|]. intros r H. eapply flow_sound; eauto.
Qed.

Lemma solve_sound k g : forall l, sound g l -> sound g (solve k g l).
Proof.
  induction k as [|k IH]; intros l S; cbn [solve]; [exact S|]. apply IH. apply sweep_sound. exact S.
Qed.

Lemma zeros_sound g n : sound g (repeat 0 n).
Proof.
  intros i r H. assert (nth i (repeat 0 n) 0 = 0) as E.
  { destruct (Nat.lt_ge_cases i n) as [L|G]; [apply nth_repeat|apply nth_overflow; rewrite repeat_length; exact G]. }
  rewrite E, N.bits_0 in H. discriminate.
Qed.

Lemma testbit_bit d r : N.testbit (bit d) r = true -> r = d.
Proof.
  unfold bit. destruct (d <? 256); [|rewrite N.bits_0; discriminate].
  intro H. rewrite N.shiftl_1_l, N.pow2_bits_eqb in H. apply N.eqb_eq in H. symmetry. exact H.
Qed.

Lemma testbit_mask_above last r : N.testbit (mask_above last) r = true -> last < r /\ r < 256.
Proof.
  unfold mask_above. rewrite N.ldiff_spec. intro H. apply andb_true_iff in H. destruct H as [A B].
  apply N.ones_spec_iff in A. apply negb_true_iff in B.
  split; [|exact A].
  destruct (N.lt_ge_cases r (last + 1)) as [L|G]; [|lia].
  apply N.ones_spec_iff in L. rewrite L in B. discriminate.
Qed.

(* an alarm: the register lies above the window, is not the call's own destination, and the
   value it holds when the call returns reaches a read *)
Theorem clobbered_has_witness k g i r :
  N.testbit (clobbered g (solve k g (repeat 0 (length g))) i) r = true ->
  exists nd last dest s,
    nth_error g i = Some nd /\ n_call nd = Some (last, dest) /\
    last < r /\ r <> dest /\ In s (n_succ nd) /\ reach g r s.
Proof.
  intro H. unfold clobbered in H. destruct (nth_error g i) as [nd|] eqn:E; [|rewrite N.bits_0 in H; discriminate].
  destruct (n_call nd) as [[last dest]|] eqn:C; [|rewrite N.bits_0 in H; discriminate].
  rewrite N.ldiff_spec, N.land_spec in H.
  apply andb_true_iff in H. destruct H as [H Nd]. apply andb_true_iff in H. destruct H as [O M].
  apply negb_true_iff in Nd.
  assert (S : sound g (solve k g (repeat 0 (length g)))) by (apply solve_sound, zeros_sound).
  destruct (out_of_witness g _ i r S O) as (nd' & s & E' & Hs & R).
  rewrite E in E'. injection E' as <-.
  exists nd, last, dest, s. repeat split; auto.
  - apply (testbit_mask_above last r M).
  - intro Eq. subst dest. assert (N.testbit (bit r) r = true) as B.
    { destruct (testbit_mask_above last r M) as [_ L]. unfold bit. apply N.ltb_lt in L. rewrite L.
      rewrite N.shiftl_1_l. apply N.pow2_bits_true. }
    rewrite B in Nd. discriminate.
Qed.

Lemma alarms_spec k g i m : In (i, m) (alarms k g) ->
  m = clobbered g (solve k g (repeat 0 (length g))) i /\ m <> 0.
Proof.
  unfold alarms. intro H. apply filter_In in H. destruct H as [H F].
  apply in_map_iff in H. destruct H as (j & Ej & _). injection Ej as <- <-.
  split; [reflexivity|]. cbn [snd] in F. apply negb_true_iff in F. apply N.eqb_neq in F. exact F.
Qed.

(* a register reported by [entry_reads] is not a parameter and reaches a read from the entry of
   the function without being written *)
Theorem entry_read_has_witness k arity ws r :
  N.testbit (entry_reads k arity ws) r = true ->
  arity <= r /\ reach (graph_of ws) r 0%nat.
Proof.
  unfold entry_reads. rewrite N.ldiff_spec. intro H. apply andb_true_iff in H. destruct H as [L P].
  apply negb_true_iff in P. split.
  - destruct (N.lt_ge_cases r arity) as [Lt|Ge]; [|exact Ge].
    apply N.ones_spec_iff in Lt. rewrite Lt in P. discriminate.
  - assert (S : sound (graph_of ws) (solve k (graph_of ws) (repeat 0 (length (graph_of ws))))) by (apply solve_sound, zeros_sound).
    apply S. exact L.
Qed.
