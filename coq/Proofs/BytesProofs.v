(* Lemmas about Model/Bytes.v (std.bytes) for C09. *)
From Aelys Require Import Base.Tactics Extracted.ManualMem Model.Value Model.ManualHeap Model.Bytes
     Proofs.ValueProofs Proofs.ManualHeapProofs.
Local Open Scope N_scope.

Ltac cases_if' :=
  repeat match goal with
         | |- context [if ?c then _ else _] => destruct c eqn:?
         | |- context [match ?c with Some _ => _ | None => _ end] => destruct c eqn:?
         end.

(* ------------------------------------------------------------------ encodings *)
Lemma le_bytes_length w x : length (le_bytes w x) = w.
Proof. revert x; induction w as [|k IH]; intro x; cbn [le_bytes length]; auto. Qed.

Lemma enc_length w be x : length (enc w be x) = w.
Proof. unfold enc. destruct be; [rewrite rev_length|]; apply le_bytes_length. Qed.

Lemma le_val_le_bytes w x : le_val (le_bytes w x) = x mod 256 ^ N.of_nat w.
Proof.
  revert x; induction w as [|k IH]; intro x.
  - cbn [le_bytes le_val]. change (N.of_nat 0) with 0. rewrite N.pow_0_r, N.mod_1_r. reflexivity.
  - cbn [le_bytes le_val]. rewrite IH. rewrite Nat2N.inj_succ, N.pow_succ_r'.
    assert (H256 : 256 ^ N.of_nat k <> 0) by (apply N.pow_nonzero; discriminate).
    rewrite N.mod_mul_r by (try discriminate; exact H256). reflexivity.
Qed.

Lemma dec_enc w be x : dec be (enc w be x) = x mod 256 ^ N.of_nat w.
Proof. unfold dec, enc. destruct be; [rewrite rev_involutive|]; apply le_val_le_bytes. Qed.

Lemma pow256_256 (w : N) : pow256 w = 256 ^ w.
Proof. unfold pow256. rewrite N.pow_mul_r. reflexivity. Qed.

Lemma to_unsigned_lt w z : to_unsigned w z < pow256 w.
Proof.
  unfold to_unsigned. assert (0 < pow256 w) by (rewrite pow256_256; apply N.neq_0_lt_0, N.pow_nonzero; discriminate).
  pose proof (Z.mod_pos_bound z (Z.of_N (pow256 w))). lia.
Qed.

(* ------------------------------------------------------------------ slice / splice *)
Lemma splice_length (d bs : list byte) off :
  (off + length bs <= length d)%nat -> length (firstn off d ++ bs ++ skipn (off + length bs) d) = length d.
Proof. intro H. rewrite !app_length, firstn_length, skipn_length. lia. Qed.

Lemma slice_splice (d bs : list byte) off :
  (off + length bs <= length d)%nat ->
  firstn (length bs) (skipn off (firstn off d ++ bs ++ skipn (off + length bs) d)) = bs.
Proof.
  intro H. rewrite skipn_app, firstn_length. replace (Nat.min off (length d)) with off by lia.
  rewrite Nat.sub_diag. cbn [skipn]. rewrite skipn_all2 by (rewrite firstn_length; lia). cbn [app].
  rewrite firstn_app, Nat.sub_diag. cbn [firstn]. rewrite firstn_all, app_nil_r. reflexivity.
Qed.

Lemma nth_splice_outside (d bs : list byte) off i :
  (off + length bs <= length d)%nat -> (i < off \/ off + length bs <= i)%nat ->
  nth_error (firstn off d ++ bs ++ skipn (off + length bs) d) i = nth_error d i.
Proof.
  intros H [Hi|Hi].
  - rewrite nth_error_app1 by (rewrite firstn_length; lia).
    rewrite <- (firstn_skipn off d) at 2. rewrite nth_error_app1 by (rewrite firstn_length; lia). reflexivity.
  - rewrite nth_error_app2 by (rewrite firstn_length; lia). rewrite firstn_length.
    replace (Nat.min off (length d)) with off by lia.
    rewrite nth_error_app2 by lia.
    rewrite <- (firstn_skipn (off + length bs) d) at 2.
    rewrite nth_error_app2 by (rewrite firstn_length; lia). rewrite firstn_length.
    replace (Nat.min (off + length bs) (length d)) with (off + length bs)%nat by lia.
    f_equal. lia.
Qed.

Lemma nth_splice_inside (d bs : list byte) off i :
  (off + length bs <= length d)%nat -> (i < length bs)%nat ->
  nth_error (firstn off d ++ bs ++ skipn (off + length bs) d) (off + i) = nth_error bs i.
Proof.
  intros H Hi. rewrite nth_error_app2 by (rewrite firstn_length; lia). rewrite firstn_length.
  replace (Nat.min off (length d)) with off by lia. replace (off + i - off)%nat with i by lia.
  apply nth_error_app1. exact Hi.
Qed.

Lemma nth_error_firstn_lt {A} (l : list A) : forall n i, (i < n)%nat -> nth_error (firstn n l) i = nth_error l i.
Proof.
  induction l as [|x t IH]; intros [|n] [|i] H; cbn; auto; try lia. apply IH. lia.
Qed.

Lemma nth_slice (d : list byte) off len i :
  (i < len)%nat -> nth_error (firstn len (skipn off d)) i = nth_error d (off + i).
Proof.
  intro Hi. rewrite nth_error_firstn_lt by exact Hi.
  rewrite <- (firstn_skipn off d) at 2.
  destruct (le_lt_dec off (length d)) as [Hle|Hgt].
  - rewrite nth_error_app2 by (rewrite firstn_length; lia). rewrite firstn_length.
    replace (Nat.min off (length d)) with off by lia. f_equal. lia.
  - rewrite skipn_all2 by lia. rewrite firstn_all2 by lia. rewrite app_nil_r.
    assert (H1 : nth_error (@nil byte) i = None) by (destruct i; reflexivity). rewrite H1.
    symmetry. apply nth_error_None. lia.
Qed.

(* ------------------------------------------------------------------ resource table *)
Lemma get_buf_set_eq s h d : h < N.of_nat (length s) -> get_buf (set_buf s h d) h = Some d.
Proof. intro H. unfold get_buf, set_buf. rewrite nth_N_upd_eq by exact H. reflexivity. Qed.

Lemma get_buf_set_ne s h k d : h <> k -> get_buf (set_buf s h d) k = get_buf s k.
Proof. intro H. unfold get_buf, set_buf. rewrite nth_N_upd_ne by exact H. reflexivity. Qed.

Lemma get_buf_lt s h d : get_buf s h = Some d -> h < N.of_nat (length s).
Proof.
  unfold get_buf. destruct (nth_N s h) as [o|] eqn:E; [|discriminate]. intros _. apply nth_N_Some in E. tauto.
Qed.

Lemma first_free_spec l : forall i j,
  first_free l i = Some j -> i <= j /\ j - i < N.of_nat (length l) /\ nth_error l (N.to_nat (j - i)) = Some None.
Proof.
  induction l as [|[d|] r IH]; intros i j H; cbn [first_free] in H; try discriminate.
  - destruct (IH _ _ H) as [H1 [H2 H3]]. cbn [length]. split; [lia|]. split; [lia|].
    replace (N.to_nat (j - i)) with (S (N.to_nat (j - N.succ i))) by lia. exact H3.
  - inversion H; subst. rewrite N.sub_diag. cbn. split; [lia|]. split; [lia|reflexivity].
Qed.

Lemma first_free_none l : forall i, first_free l i = None -> forall k, nth_error l k <> Some None.
Proof.
  induction l as [|[d|] r IH]; intros i H k; cbn [first_free] in H; try discriminate.
  - destruct k; discriminate.
  - destruct k; cbn [nth_error]; [discriminate|]. eapply IH. exact H.
Qed.

(* an allocation never lands on a live handle, and keeps every live buffer *)
Lemma store_resource_spec s d s' h :
  store_resource s d = (s', h) ->
  get_buf s h = None /\ get_buf s' h = Some d /\ forall k, k <> h -> get_buf s' k = get_buf s k.
Proof.
  unfold store_resource. destruct (first_free s 0) as [i|] eqn:E; intro H; inversion H; subst; clear H.
  - destruct (first_free_spec _ _ _ E) as [_ [H2 H3]]. rewrite N.sub_0_r in *.
    assert (Hn : nth_N s h = Some None) by (unfold nth_N; replace (h <? N.of_nat (length s)) with true by lia; exact H3).
    split; [unfold get_buf; rewrite Hn; reflexivity|]. split.
    + unfold get_buf. rewrite nth_N_upd_eq by exact H2. reflexivity.
    + intros k Hk. unfold get_buf. rewrite nth_N_upd_ne by congruence. reflexivity.
  - split; [|split].
    + unfold get_buf. replace (nth_N s (N.of_nat (length s))) with (@None (option buf)); [reflexivity|].
      symmetry. apply nth_N_None. lia.
    + unfold get_buf. rewrite nth_N_app_last. reflexivity.
    + intros k Hk. unfold get_buf.
      destruct (N.lt_trichotomy k (N.of_nat (length s))) as [Hlt|[->|Hgt]]; [|congruence|].
      * rewrite nth_N_app_l by exact Hlt. reflexivity.
      * rewrite nth_N_app_beyond by exact Hgt.
        replace (nth_N s k) with (@None (option buf)); [reflexivity|]. symmetry. apply nth_N_None. lia.
Qed.

(* ------------------------------------------------------------------ errors change nothing *)

Lemma write_at_err s h off bs : snd (write_at s h off bs) = BErr -> fst (write_at s h off bs) = s.
Proof. unfold write_at. cases_if'; cbn [fst snd]; auto; discriminate. Qed.

Lemma b_errors_change_nothing_lemma s o : snd (b_step s o) = BErr -> fst (b_step s o) = s.
Proof.
  destruct o as [n|a|h|h n|w k be h off|w sg be h off v|w be h off bits|sh so dh doff len|h off len v|h|h1 h2|bs|h off len|h off bs|h st sp nd|h off len|h i j|content n|h|h|]; cbn [b_step].
  - cases_if'; cbn [fst snd]; auto. destruct (store_resource s (repeat 0 (Z.to_nat n))). cbn. discriminate.
  - destruct a as [z| |]; cases_if'; cbn [fst snd]; auto; discriminate.
  - cases_if'; cbn [fst snd]; auto.
  - cases_if'; cbn [fst snd]; auto; discriminate.
  - cases_if'; cbn [fst snd]; auto.
  - destruct (writer_range w sg be) as [[lo hi]|]; [|auto]. cases_if'; cbn [fst snd]; auto. apply write_at_err.
  - cases_if'; cbn [fst snd]; auto; apply write_at_err.
  - cases_if'; cbn [fst snd]; auto; discriminate.
  - cases_if'; cbn [fst snd]; auto; discriminate.
  - (* clone *) cases_if'; cbn [fst snd]; auto. destruct (store_resource s b). cbn. discriminate.
  - (* equals *) cases_if'; cbn [fst snd]; auto.
  - (* from_string *) cases_if'; cbn [fst snd]; auto. destruct (store_resource s bs). cbn. discriminate.
  - (* decode *) cases_if'; cbn [fst snd]; auto.
  - (* write_string *) pose proof (write_at_err s h off bs) as Hw.
    destruct (write_at s h off bs) as [s' r]. destruct r; cbn [fst snd] in *; auto; discriminate.
  - (* find *) cases_if'; cbn [fst snd]; auto.
  - (* reverse *) cases_if'; cbn [fst snd]; auto; discriminate.
  - (* swap *) cases_if'; cbn [fst snd]; auto; discriminate.
  - (* read file *) destruct (store_resource s []) as [s1 k]. destruct (store_resource s1 _) as [s2 h0]. cbn. discriminate.
  - reflexivity.
  - reflexivity.
  - reflexivity.
Qed.

(* ------------------------------------------------------------------ bounds *)
Lemma in_bounds_false size off len : len < off + size -> in_bounds size off len = false.
Proof. intro H. unfold in_bounds. replace (off + size <=? len) with false by lia. apply andb_false_r. Qed.

Lemma write_at_straddle s h off bs d :
  (0 <= h)%Z -> (0 <= off)%Z -> get_buf s (Z.to_N h) = Some d ->
  N.of_nat (length d) < Z.to_N off + N.of_nat (length bs) -> write_at s h off bs = (s, BErr).
Proof.
  intros Hh Ho Hg Hlt. unfold write_at. replace (h <? 0)%Z with false by lia. replace (off <? 0)%Z with false by lia.
  rewrite Hg, in_bounds_false by exact Hlt. reflexivity.
Qed.

Lemma width_straddle_rejected_lemma s h off d w :
  (0 <= h)%Z -> (0 <= off)%Z -> get_buf s (Z.to_N h) = Some d -> N.of_nat (length d) < Z.to_N off + w ->
  (forall k be, b_step s (BRead w k be h off) = (s, BErr))
  /\ (forall sg be v, b_step s (BWrite w sg be h off v) = (s, BErr))
  /\ (forall be bits, b_step s (BWriteF w be h off bits) = (s, BErr)).
Proof.
  intros Hh Ho Hg Hlt. split; [|split].
  - intros k be. cbn [b_step]. destruct (negb (reader_known w k be)) eqn:Ek; [reflexivity|].
    replace (h <? 0)%Z with false by lia. replace (off <? 0)%Z with false by lia.
    rewrite Hg, in_bounds_false by exact Hlt. reflexivity.
  - intros sg be v. cbn [b_step]. destruct (writer_range w sg be) as [[lo hi]|]; [|reflexivity].
    replace (h <? 0)%Z with false by lia. replace (off <? 0)%Z with false by lia.
    destruct ((v <? lo) || (hi <? v))%Z; [reflexivity|].
    apply write_at_straddle with (d := d); auto. rewrite enc_length. lia.
  - intros be bits. cbn [b_step]. destruct (negb (fwriter_known w be)) eqn:E; [reflexivity|].
    assert (Hw : w = 4 \/ w = 8).
    { apply negb_false_iff in E. unfold fwriter_known in E. apply existsb_exists in E as [[w1 be1] [Hin Hp]].
      apply andb_true_iff in Hp as [Hp _]. apply N.eqb_eq in Hp. subst w1.
      assert (Hall : forallb (fun r => (fst r =? 4) || (fst r =? 8)) bytes_float_writers = true) by (vm_compute; reflexivity).
      pose proof (proj1 (forallb_forall _ _) Hall _ Hin) as Hr. cbn [fst] in Hr. lia. }
    destruct (w =? 8) eqn:E8.
    + apply write_at_straddle with (d := d); auto. rewrite enc_length. lia.
    + apply write_at_straddle with (d := d); auto. rewrite enc_length. lia.
Qed.

Lemma span_straddle_rejected_lemma s h off len d v :
  (0 <= h)%Z -> (0 <= off)%Z -> (0 < len)%Z -> get_buf s (Z.to_N h) = Some d ->
  N.of_nat (length d) < Z.to_N off + Z.to_N len ->
  b_step s (BFill h off len v) = (s, BErr)
  /\ (forall dh doff, b_step s (BCopy h off dh doff len) = (s, BErr))
  /\ (forall sh so, snd (b_step s (BCopy sh so h off len)) = BErr).
Proof.
  intros Hh Ho Hl Hg Hlt.
  assert (E1 : (h <? 0)%Z = false) by lia. assert (E2 : (off <? 0)%Z = false) by lia.
  assert (E3 : (len <? 0)%Z = false) by lia. assert (E4 : (len =? 0)%Z = false) by lia.
  split; [|split].
  - cbn [b_step]. rewrite E1, E2, E3. destruct ((v <? FILL_MIN) || (FILL_MAX <? v))%Z; [reflexivity|].
    rewrite E4, Hg, in_bounds_false by exact Hlt. reflexivity.
  - intros dh doff. cbn [b_step]. rewrite E1, E2. destruct (dh <? 0)%Z; [reflexivity|]. destruct (doff <? 0)%Z; [reflexivity|].
    rewrite E3, E4, Hg, in_bounds_false by exact Hlt. reflexivity.
  - intros sh so. cbn [b_step]. destruct (sh <? 0)%Z; [reflexivity|]. destruct (so <? 0)%Z; [reflexivity|].
    rewrite E1, E2, E3, E4. destruct (get_buf s (Z.to_N sh)) as [src|] eqn:Hs; [|reflexivity].
    destruct (negb (in_bounds (Z.to_N len) (Z.to_N so) (N.of_nat (length src)))); [reflexivity|].
    rewrite Hg, in_bounds_false by exact Hlt. reflexivity.
Qed.

(* ------------------------------------------------------------------ write, then read *)
Lemma write_at_ok s h off bs s' :
  write_at s h off bs = (s', BOkUnit) ->
  exists d, (0 <= h)%Z /\ (0 <= off)%Z /\ get_buf s (Z.to_N h) = Some d
            /\ (N.to_nat (Z.to_N off) + length bs <= length d)%nat
            /\ Z.to_N off + N.of_nat (length bs) < USIZE
            /\ s' = set_buf s (Z.to_N h) (splice d (Z.to_N off) bs).
Proof.
  unfold write_at. destruct (h <? 0)%Z eqn:Eh; [discriminate|]. destruct (off <? 0)%Z eqn:Eo; [discriminate|].
  destruct (get_buf s (Z.to_N h)) as [d|] eqn:Hg; [|discriminate].
  destruct (in_bounds (N.of_nat (length bs)) (Z.to_N off) (N.of_nat (length d))) eqn:Eb; [|discriminate].
  intro H. inversion H. exists d. unfold in_bounds in Eb. apply andb_true_iff in Eb as [Eb1 Eb2].
  repeat split; try lia.
Qed.

Lemma read_back s h off bs s' w :
  write_at s h off bs = (s', BOkUnit) -> N.of_nat (length bs) = w ->
  (h <? 0)%Z = false /\ (off <? 0)%Z = false /\
  exists d', get_buf s' (Z.to_N h) = Some d' /\ in_bounds w (Z.to_N off) (N.of_nat (length d')) = true
             /\ slice d' (Z.to_N off) w = bs.
Proof.
  intros H Hw. destruct (write_at_ok _ _ _ _ _ H) as [d [Hh [Ho [Hg [Hb [Hu ->]]]]]].
  split; [lia|]. split; [lia|]. exists (splice d (Z.to_N off) bs).
  split; [apply get_buf_set_eq; eapply get_buf_lt; exact Hg|].
  unfold splice, slice. rewrite splice_length by exact Hb. split.
  - unfold in_bounds. subst w. apply andb_true_iff. split; lia.
  - subst w. rewrite Nat2N.id. apply slice_splice. exact Hb.
Qed.

(* ------------------------------------------------------------------ the accessor table (from the source) *)
Definition row_ok (r : N * bool * bool * Z * Z) : bool :=
  let '(w, sg, be, lo, hi) := r in
  ((w =? 1) || (w =? 2) || (w =? 4) || (w =? 8))
  && reader_known w (if sg then 1 else 0) be
  && (if sg then (lo =? - Z.of_N (pow256 w / 2))%Z && (hi =? Z.of_N (pow256 w / 2) - 1)%Z
      else if w =? 8 then (lo =? -9223372036854775808)%Z && (hi =? 9223372036854775807)%Z
      else (lo =? 0)%Z && (hi =? Z.of_N (pow256 w) - 1)%Z).

(* complete sweep of the extracted writer table: every integer writer has width 1/2/4/8, a reader of
   the same width/signedness/byte order, and accepts exactly the representable range *)
Lemma writers_table_ok : forallb row_ok bytes_int_writers = true.
Proof. vm_compute. reflexivity. Qed.

Lemma writer_range_row w sg be lo hi : writer_range w sg be = Some (lo, hi) -> row_ok (w, sg, be, lo, hi) = true.
Proof.
  unfold writer_range.
  destruct (find _ bytes_int_writers) as [[[[[w1 sg1] be1] lo1] hi1]|] eqn:F; [|discriminate].
  intro H. inversion H; subst lo1 hi1. apply find_some in F as [Hin Hp].
  pose proof (proj1 (forallb_forall _ _) writers_table_ok _ Hin) as Hrow.
  apply andb_true_iff in Hp as [Hp Hbe]. apply andb_true_iff in Hp as [Hw Hsg].
  apply N.eqb_eq in Hw. apply eqb_prop in Hsg. apply eqb_prop in Hbe. subst. exact Hrow.
Qed.

Lemma repr_roundtrip w sg be lo hi v :
  row_ok (w, sg, be, lo, hi) = true -> (lo <= v <= hi)%Z ->
  as_i64 w sg (to_unsigned w v) = v.
Proof.
  unfold row_ok. intros H Hv.
  apply andb_true_iff in H as [H Hr]. apply andb_true_iff in H as [Hw _].
  assert (Hcases : w = 1 \/ w = 2 \/ w = 4 \/ w = 8) by lia. clear Hw.
  unfold as_i64, to_unsigned.
  destruct Hcases as [ -> | [ -> | [ -> | -> ] ] ].
  - change (pow256 1) with 256 in *. change (1 =? 8) with false in *. change (256 / 2) with 128 in *.
    destruct sg; cbv iota in Hr; cbn [orb]; cbv iota; cbn [Z.of_N] in *; cases_if'; lia.
  - change (pow256 2) with 65536 in *. change (2 =? 8) with false in *. change (65536 / 2) with 32768 in *.
    destruct sg; cbv iota in Hr; cbn [orb]; cbv iota; cbn [Z.of_N] in *; cases_if'; lia.
  - change (pow256 4) with 4294967296 in *. change (4 =? 8) with false in *. change (4294967296 / 2) with 2147483648 in *.
    destruct sg; cbv iota in Hr; cbn [orb]; cbv iota; cbn [Z.of_N] in *; cases_if'; lia.
  - change (pow256 8) with 18446744073709551616 in *. change (8 =? 8) with true in *.
    change (18446744073709551616 / 2) with 9223372036854775808 in *.
    rewrite orb_true_r. destruct sg; cbv iota in Hr; cbn [Z.of_N] in *; cases_if'; lia.
Qed.

Lemma rw_roundtrip_lemma s w sg be h off v s' :
  b_step s (BWrite w sg be h off v) = (s', BOkUnit) ->
  b_step s' (BRead w (if sg then 1 else 0) be h off) = (s', BOkWord (v_int v)).
Proof.
  cbn [b_step]. destruct (writer_range w sg be) as [[lo hi]|] eqn:R; [|discriminate].
  pose proof (writer_range_row _ _ _ _ _ R) as Hrow.
  destruct (h <? 0)%Z eqn:Eh; [discriminate|]. destruct (off <? 0)%Z eqn:Eo; [discriminate|].
  destruct ((v <? lo) || (hi <? v))%Z eqn:Ev; [discriminate|]. intro H.
  assert (Hlen : N.of_nat (length (enc (N.to_nat w) be (to_unsigned w v))) = w) by (rewrite enc_length; apply N2Nat.id).
  destruct (read_back _ _ _ _ _ _ H Hlen) as [_ [_ [d' [Hg [Hb Hs]]]]].
  assert (Hk : reader_known w (if sg then 1 else 0) be = true).
  { unfold row_ok in Hrow. apply andb_true_iff in Hrow as [Hrow _]. apply andb_true_iff in Hrow as [_ Hrow]. exact Hrow. }
  rewrite Hk. assert (Hk2 : ((if sg then 1 else 0) =? 2) = false) by (destruct sg; reflexivity).
  cbn [negb]. rewrite Hg, Hb, Hs, Hk2, dec_enc, N2Nat.id.
  rewrite N.mod_small by (rewrite <- pow256_256; apply to_unsigned_lt).
  assert (Hsg : ((if sg then 1 else 0) =? 1) = sg) by (destruct sg; reflexivity). rewrite Hsg.
  rewrite (repr_roundtrip w sg be lo hi v Hrow) by lia. reflexivity.
Qed.

(* a value of the Value int range comes back as the same int *)
Lemma rw_roundtrip_int_lemma s w sg be h off v s' :
  in48 v -> b_step s (BWrite w sg be h off v) = (s', BOkUnit) ->
  exists r, b_step s' (BRead w (if sg then 1 else 0) be h off) = (s', BOkWord r) /\ as_int r = Some v.
Proof.
  intros Hv H. exists (v_int v). split; [eapply rw_roundtrip_lemma; exact H|apply int_roundtrip_lemma; exact Hv].
Qed.

Lemma f64_roundtrip_lemma s be h off bits s' :
  bits < W64 -> b_step s (BWriteF 8 be h off bits) = (s', BOkUnit) ->
  b_step s' (BRead 8 2 be h off) = (s', BOkWord (v_float bits))
  /\ (is_nan_bits bits = false -> v_float bits = bits).
Proof.
  intros Hb. cbn [b_step]. destruct (negb (fwriter_known 8 be)) eqn:E; [discriminate|]. change (8 =? 8) with true. cbv iota. intro H.
  assert (Hlen : N.of_nat (length (enc 8 be bits)) = 8) by (rewrite enc_length; reflexivity).
  destruct (read_back _ _ _ _ _ _ H Hlen) as [E1 [E2 [d' [Hg [Hbd Hs]]]]].
  split.
  - assert (Hk : reader_known 8 2 be = true) by (destruct be; vm_compute; reflexivity).
    rewrite Hk. cbn [negb]. change (8 =? 8) with true. change (2 =? 2) with true. cbv iota.
    rewrite E1, E2, Hg, Hbd, Hs, dec_enc. change (256 ^ N.of_nat 8) with W64. rewrite N.mod_small by exact Hb. reflexivity.
  - intro Hn. unfold v_float. rewrite Hn. reflexivity.
Qed.

(* the bytes outside the written span are untouched, the buffer keeps its length *)
Lemma write_frame_lemma s h off bs s' :
  write_at s h off bs = (s', BOkUnit) ->
  exists d d', get_buf s (Z.to_N h) = Some d /\ get_buf s' (Z.to_N h) = Some d' /\ length d' = length d
    /\ (forall i, (i < N.to_nat (Z.to_N off) \/ N.to_nat (Z.to_N off) + length bs <= i)%nat -> nth_error d' i = nth_error d i)
    /\ (forall i, (i < length bs)%nat -> nth_error d' (N.to_nat (Z.to_N off) + i) = nth_error bs i).
Proof.
  intro H. destruct (write_at_ok _ _ _ _ _ H) as [d [Hh [Ho [Hg [Hb [Hu ->]]]]]].
  exists d, (splice d (Z.to_N off) bs). split; [exact Hg|]. split; [apply get_buf_set_eq; eapply get_buf_lt; exact Hg|].
  unfold splice. split; [apply splice_length; exact Hb|]. split.
  - intros i Hi. apply nth_splice_outside; assumption.
  - intros i Hi. apply nth_splice_inside; assumption.
Qed.

(* ------------------------------------------------------------------ isolation *)
Lemma write_at_other s h off bs k :
  h <> Z.of_N k -> get_buf (fst (write_at s h off bs)) k = get_buf s k.
Proof.
  intro Hne. unfold write_at. destruct (h <? 0)%Z eqn:Eh; [reflexivity|]. destruct (off <? 0)%Z; [reflexivity|].
  destruct (get_buf s (Z.to_N h)); [|reflexivity].
  destruct (in_bounds _ _ _); [|reflexivity]. cbn [fst]. apply get_buf_set_ne. lia.
Qed.

Lemma b_isolation_lemma s o k d :
  get_buf s k = Some d -> bop_writes o <> Some (Z.of_N k) -> get_buf (fst (b_step s o)) k = Some d.
Proof.
  intros Hg Hw. rewrite <- Hg.
  destruct o as [n|a|h|h n|w kd be h off|w sg be h off v|w be h off bits|sh so dh doff len|h off len v|h|h1 h2|bs|h off len|h off bs|h st sp nd|h off len|h i j|content n|h|h|];
    cbn [b_step bop_writes] in *.
  - destruct (n <=? 0)%Z; [reflexivity|]. destruct (MAX_ALLOC <? Z.to_N n); [reflexivity|].
    destruct (store_resource s (repeat 0 (Z.to_nat n))) as [s' h0] eqn:E. cbn [fst].
    destruct (store_resource_spec _ _ _ _ E) as [Hn [_ Ho]]. apply Ho. intros ->. congruence.
  - destruct a as [z| |]; try reflexivity. destruct (z <? 0)%Z eqn:Ez; [reflexivity|].
    destruct (get_buf s (Z.to_N z)); [|reflexivity]. cbn [fst]. unfold get_buf. rewrite nth_N_upd_ne; [reflexivity|].
    intro Hk. apply Hw. f_equal. lia.
  - destruct (h <? 0)%Z; [reflexivity|]. destruct (get_buf s (Z.to_N h)); reflexivity.
  - destruct (h <? 0)%Z eqn:Ez; [reflexivity|]. destruct (n <=? 0)%Z; [reflexivity|].
    destruct (MAX_ALLOC <? Z.to_N n); [reflexivity|]. destruct (get_buf s (Z.to_N h)); [|reflexivity].
    cbn [fst]. apply get_buf_set_ne. intro Hk. apply Hw. f_equal. lia.
  - cases_if'; reflexivity.
  - destruct (writer_range w sg be) as [[lo hi]|]; [|reflexivity].
    destruct (h <? 0)%Z; [reflexivity|]. destruct (off <? 0)%Z; [reflexivity|].
    destruct ((v <? lo) || (hi <? v))%Z; [reflexivity|]. apply write_at_other. congruence.
  - destruct (negb (fwriter_known w be)); [reflexivity|]. destruct (w =? 8); apply write_at_other; congruence.
  - destruct (sh <? 0)%Z; [reflexivity|]. destruct (so <? 0)%Z; [reflexivity|].
    destruct (dh <? 0)%Z eqn:Ez; [reflexivity|]. destruct (doff <? 0)%Z; [reflexivity|].
    destruct (len <? 0)%Z; [reflexivity|]. destruct (len =? 0)%Z; [reflexivity|].
    destruct (get_buf s (Z.to_N sh)); [|reflexivity]. destruct (negb _); [reflexivity|].
    destruct (get_buf s (Z.to_N dh)); [|reflexivity]. destruct (negb _); [reflexivity|].
    cbn [fst]. apply get_buf_set_ne. intro Hk. apply Hw. f_equal. lia.
  - destruct (h <? 0)%Z eqn:Ez; [reflexivity|]. destruct (off <? 0)%Z; [reflexivity|].
    destruct (len <? 0)%Z; [reflexivity|]. destruct ((v <? FILL_MIN) || (FILL_MAX <? v))%Z; [reflexivity|].
    destruct (len =? 0)%Z; [reflexivity|]. destruct (get_buf s (Z.to_N h)); [|reflexivity].
    destruct (in_bounds _ _ _); [|reflexivity].
    cbn [fst]. apply get_buf_set_ne. intro Hk. apply Hw. f_equal. lia.
  - (* clone *) destruct (h <? 0)%Z; [reflexivity|]. destruct (get_buf s (Z.to_N h)) as [d0|]; [|reflexivity].
    destruct (store_resource s d0) as [s' h0] eqn:E. cbn [fst].
    destruct (store_resource_spec _ _ _ _ E) as [Hn [_ Ho]]. apply Ho. intros ->. congruence.
  - (* equals *) cases_if'; reflexivity.
  - (* from_string *) destruct (MAX_ALLOC <? N.of_nat (length bs)); [reflexivity|].
    destruct (store_resource s bs) as [s' h0] eqn:E. cbn [fst].
    destruct (store_resource_spec _ _ _ _ E) as [Hn [_ Ho]]. apply Ho. intros ->. congruence.
  - (* decode *) cases_if'; reflexivity.
  - (* write_string *) pose proof (write_at_other s h off bs k) as Ho.
    destruct (write_at s h off bs) as [s' r]. cbn [fst] in Ho.
    assert (Hr : get_buf s' k = get_buf s k) by (apply Ho; congruence).
    destruct r; cbn [fst]; exact Hr.
  - (* find *) cases_if'; reflexivity.
  - (* reverse *) destruct (h <? 0)%Z eqn:Ez; [reflexivity|]. destruct (off <? 0)%Z; [reflexivity|].
    destruct (len <? 0)%Z; [reflexivity|]. destruct (len =? 0)%Z; [reflexivity|].
    destruct (get_buf s (Z.to_N h)); [|reflexivity]. destruct (in_bounds _ _ _); [|reflexivity].
    cbn [fst]. apply get_buf_set_ne. intro Hk. apply Hw. f_equal. lia.
  - (* swap *) destruct (h <? 0)%Z eqn:Ez; [reflexivity|]. destruct (i <? 0)%Z; [reflexivity|]. destruct (j <? 0)%Z; [reflexivity|].
    destruct (get_buf s (Z.to_N h)) as [d0|]; [|reflexivity].
    destruct (nth_N d0 (Z.to_N i)); [|reflexivity]. destruct (nth_N d0 (Z.to_N j)); [|reflexivity].
    cbn [fst]. apply get_buf_set_ne. intro Hk. apply Hw. f_equal. lia.
  - (* read file *)
    destruct (store_resource s []) as [s1 k0] eqn:E1. destruct (store_resource s1 (firstn (Z.to_nat n) content)) as [s2 h0] eqn:E2.
    cbn [fst]. destruct (store_resource_spec _ _ _ _ E1) as [Hn1 [_ Ho1]]. destruct (store_resource_spec _ _ _ _ E2) as [Hn2 [_ Ho2]].
    assert (Hk0 : k <> k0) by (intros ->; congruence).
    assert (Hg1 : get_buf s1 k = get_buf s k) by (apply Ho1; exact Hk0).
    assert (Hh0 : k <> h0) by (intros ->; rewrite Hn2 in Hg1; congruence).
    unfold get_buf at 1. rewrite nth_N_upd_ne by congruence. fold (get_buf s2 k). rewrite Ho2 by exact Hh0. exact Hg1.
  - reflexivity.
  - reflexivity.
  - reflexivity.
Qed.

(* allocation hands out a handle that was not live, with a zeroed buffer of the requested size *)
Lemma b_alloc_fresh_lemma s n s' h :
  b_step s (BAlloc n) = (s', BOkInt h) ->
  (0 <= h)%Z /\ get_buf s (Z.to_N h) = None /\ get_buf s' (Z.to_N h) = Some (repeat 0 (Z.to_nat n))
  /\ (0 < n)%Z /\ Z.to_N n <= MAX_ALLOC.
Proof.
  cbn [b_step]. destruct (n <=? 0)%Z eqn:E1; [discriminate|]. destruct (MAX_ALLOC <? Z.to_N n) eqn:E2; [discriminate|].
  destruct (store_resource s (repeat 0 (Z.to_nat n))) as [s1 h0] eqn:E. intro H. inversion H; subst.
  destruct (store_resource_spec _ _ _ _ E) as [Hn [Hs _]]. rewrite N2Z.id. repeat split; try assumption; lia.
Qed.

(* stale / never-issued / negative handles *)
Lemma b_dead_handle_rejected_lemma s h :
  ((h < 0)%Z \/ get_buf s (Z.to_N h) = None) ->
  b_step s (BFree (AInt h)) = (s, BErr) /\ b_step s (BSize h) = (s, BErr)
  /\ (forall n, b_step s (BResize h n) = (s, BErr))
  /\ (forall w k be off, b_step s (BRead w k be h off) = (s, BErr))
  /\ (forall w sg be off v, b_step s (BWrite w sg be h off v) = (s, BErr))
  /\ (forall w be off bits, b_step s (BWriteF w be h off bits) = (s, BErr))
  /\ (forall off len v, (len <> 0)%Z -> b_step s (BFill h off len v) = (s, BErr))
  /\ (forall so dh doff len, (len <> 0)%Z -> b_step s (BCopy h so dh doff len) = (s, BErr))
  /\ (forall sh so doff len, (len <> 0)%Z -> b_step s (BCopy sh so h doff len) = (s, BErr))
  /\ b_step s (BClone h) = (s, BErr)
  /\ (forall g, b_step s (BEquals h g) = (s, BErr) /\ b_step s (BEquals g h) = (s, BErr))
  /\ (forall off len, b_step s (BDecode h off len) = (s, BErr))
  /\ (forall off bs, b_step s (BWriteString h off bs) = (s, BErr))
  /\ (forall st sp nd, b_step s (BFind h st sp nd) = (s, BErr))
  /\ (forall off len, (len <> 0)%Z -> b_step s (BReverse h off len) = (s, BErr))
  /\ (forall i j, b_step s (BSwap h i j) = (s, BErr)).
Proof.
  intro H.
  assert (Hw : forall off bs, write_at s h off bs = (s, BErr)).
  { intros off bs. unfold write_at. destruct (h <? 0)%Z eqn:E; [reflexivity|]. destruct (off <? 0)%Z; [reflexivity|].
    destruct H as [H|H]; [lia|]. rewrite H. reflexivity. }
  assert (Hg : (h <? 0)%Z = false -> get_buf s (Z.to_N h) = None) by (intro E; destruct H as [H|H]; [lia|exact H]).
  repeat split; intros; cbn [b_step].
  - destruct (h <? 0)%Z eqn:E; [reflexivity|]. rewrite (Hg eq_refl). reflexivity.
  - destruct (h <? 0)%Z eqn:E; [reflexivity|]. rewrite (Hg eq_refl). reflexivity.
  - destruct (h <? 0)%Z eqn:E; [reflexivity|]. rewrite (Hg eq_refl). cases_if'; reflexivity.
  - destruct (h <? 0)%Z eqn:E; [cases_if'; reflexivity|]. rewrite (Hg eq_refl). cases_if'; reflexivity.
  - destruct (writer_range w sg be) as [[lo hi]|]; [|reflexivity]. cases_if'; try reflexivity. apply Hw.
  - cases_if'; try reflexivity; apply Hw.
  - destruct (h <? 0)%Z eqn:E; [reflexivity|]. rewrite (Hg eq_refl). replace (len =? 0)%Z with false by lia. cases_if'; reflexivity.
  - destruct (h <? 0)%Z eqn:E; [reflexivity|]. rewrite (Hg eq_refl). replace (len =? 0)%Z with false by lia. cases_if'; reflexivity.
  - replace (len =? 0)%Z with false by lia. destruct (h <? 0)%Z eqn:E; [cases_if'; reflexivity|]. rewrite (Hg eq_refl). cases_if'; reflexivity.
  - destruct (h <? 0)%Z eqn:E; [reflexivity|]. rewrite (Hg eq_refl). reflexivity.
  - destruct (h <? 0)%Z eqn:E; [reflexivity|]. rewrite (Hg eq_refl). cases_if'; reflexivity.
  - destruct (h <? 0)%Z eqn:E; [cases_if'; reflexivity|]. rewrite (Hg eq_refl). cases_if'; reflexivity.
  - destruct (h <? 0)%Z eqn:E; [reflexivity|]. rewrite (Hg eq_refl). cases_if'; reflexivity.
  - rewrite Hw. reflexivity.
  - destruct (h <? 0)%Z eqn:E; [reflexivity|]. rewrite (Hg eq_refl). cases_if'; reflexivity.
  - destruct (h <? 0)%Z eqn:E; [reflexivity|]. rewrite (Hg eq_refl). replace (len =? 0)%Z with false by lia. cases_if'; reflexivity.
  - destruct (h <? 0)%Z eqn:E; [reflexivity|]. rewrite (Hg eq_refl). cases_if'; reflexivity.
Qed.

Lemma b_free_makes_stale_lemma s h s' :
  b_step s (BFree (AInt h)) = (s', BOkUnit) -> get_buf s' (Z.to_N h) = None.
Proof.
  cbn [b_step]. destruct (h <? 0)%Z; [discriminate|]. destruct (get_buf s (Z.to_N h)) as [d|] eqn:Hg; [|discriminate].
  intro H. inversion H. unfold get_buf. rewrite nth_N_upd_eq by (eapply get_buf_lt; exact Hg). reflexivity.
Qed.

(* ------------------------------------------------------------------ copy (memmove) and fill *)
Lemma copy_spec_lemma s sh so dh doff len s' :
  (0 < len)%Z -> b_step s (BCopy sh so dh doff len) = (s', BOkUnit) ->
  exists src dst dst',
    get_buf s (Z.to_N sh) = Some src /\ get_buf s (Z.to_N dh) = Some dst /\ get_buf s' (Z.to_N dh) = Some dst'
    /\ length dst' = length dst
    /\ (forall i, (i < Z.to_nat len)%nat -> nth_error dst' (Z.to_nat doff + i) = nth_error src (Z.to_nat so + i))
    /\ (forall j, (j < Z.to_nat doff \/ Z.to_nat doff + Z.to_nat len <= j)%nat -> nth_error dst' j = nth_error dst j).
Proof.
  intro Hl. cbn [b_step].
  destruct (sh <? 0)%Z eqn:E1; [discriminate|]. destruct (so <? 0)%Z eqn:E2; [discriminate|].
  destruct (dh <? 0)%Z eqn:E3; [discriminate|]. destruct (doff <? 0)%Z eqn:E4; [discriminate|].
  destruct (len <? 0)%Z eqn:E5; [discriminate|]. replace (len =? 0)%Z with false by lia.
  destruct (get_buf s (Z.to_N sh)) as [src|] eqn:Hs; [|discriminate].
  destruct (in_bounds (Z.to_N len) (Z.to_N so) (N.of_nat (length src))) eqn:B1; [|discriminate]. cbn [negb].
  destruct (get_buf s (Z.to_N dh)) as [dst|] eqn:Hd; [|discriminate].
  destruct (in_bounds (Z.to_N len) (Z.to_N doff) (N.of_nat (length dst))) eqn:B2; [|discriminate]. cbn [negb].
  intro H. inversion H; subst s'; clear H.
  unfold in_bounds in B1, B2. apply andb_true_iff in B1 as [_ B1]. apply andb_true_iff in B2 as [_ B2].
  set (sl := slice src (Z.to_N so) (Z.to_N len)).
  assert (Hsl : length sl = Z.to_nat len).
  { unfold sl, slice. rewrite firstn_length, skipn_length. lia. }
  exists src, dst, (splice dst (Z.to_N doff) sl). split; [reflexivity|]. split; [reflexivity|].
  split; [apply get_buf_set_eq; eapply get_buf_lt; exact Hd|].
  assert (Hb : (N.to_nat (Z.to_N doff) + length sl <= length dst)%nat) by lia.
  unfold splice. split; [apply splice_length; exact Hb|]. split.
  - intros i Hi. replace (Z.to_nat doff) with (N.to_nat (Z.to_N doff)) by lia.
    rewrite nth_splice_inside by (try exact Hb; lia). unfold sl, slice.
    rewrite nth_slice by lia. f_equal. lia.
  - intros j Hj. apply nth_splice_outside; [exact Hb|]. lia.
Qed.

Lemma fill_spec_lemma s h off len v s' :
  (0 < len)%Z -> b_step s (BFill h off len v) = (s', BOkUnit) ->
  exists d d', get_buf s (Z.to_N h) = Some d /\ get_buf s' (Z.to_N h) = Some d' /\ length d' = length d
    /\ (forall i, (i < Z.to_nat len)%nat -> nth_error d' (Z.to_nat off + i) = Some (Z.to_N v))
    /\ (forall j, (j < Z.to_nat off \/ Z.to_nat off + Z.to_nat len <= j)%nat -> nth_error d' j = nth_error d j).
Proof.
  intro Hl. cbn [b_step].
  destruct (h <? 0)%Z eqn:E1; [discriminate|]. destruct (off <? 0)%Z eqn:E2; [discriminate|].
  destruct (len <? 0)%Z eqn:E3; [discriminate|]. destruct ((v <? FILL_MIN) || (FILL_MAX <? v))%Z; [discriminate|].
  replace (len =? 0)%Z with false by lia.
  destruct (get_buf s (Z.to_N h)) as [d|] eqn:Hd; [|discriminate].
  destruct (in_bounds (Z.to_N len) (Z.to_N off) (N.of_nat (length d))) eqn:B; [|discriminate].
  intro H. inversion H; subst s'; clear H.
  unfold in_bounds in B. apply andb_true_iff in B as [_ B].
  set (bs := (repeat (Z.to_N v) (Z.to_nat len) : list byte)).
  assert (Hbs : length bs = Z.to_nat len) by apply repeat_length.
  exists d, (splice d (Z.to_N off) bs). split; [reflexivity|].
  split; [apply get_buf_set_eq; eapply get_buf_lt; exact Hd|].
  assert (Hb : (N.to_nat (Z.to_N off) + length bs <= length d)%nat) by lia.
  unfold splice. split; [apply splice_length; exact Hb|]. split.
  - intros i Hi. replace (Z.to_nat off) with (N.to_nat (Z.to_N off)) by lia.
    rewrite nth_splice_inside by first [exact Hb | (rewrite Hbs; exact Hi) | (unfold bs; rewrite repeat_length; exact Hi) | lia]. unfold bs. apply nth_error_repeat. exact Hi.
  - intros j Hj. apply nth_splice_outside; [exact Hb|]. lia.
Qed.

(* f32: what comes back is the f64 rounded to f32 (round to nearest even) and widened again *)
Lemma f32_roundtrip_lemma s be h off bits s' :
  b_step s (BWriteF 4 be h off bits) = (s', BOkUnit) -> f64_to_f32 bits < 4294967296 ->
  b_step s' (BRead 4 2 be h off) = (s', BOkWord (v_float (f32_to_f64 (f64_to_f32 bits)))).
Proof.
  cbn [b_step]. destruct (negb (fwriter_known 4 be)) eqn:E; [discriminate|]. change (4 =? 8) with false. cbv iota.
  intros H Hlt.
  assert (Hlen : N.of_nat (length (enc 4 be (f64_to_f32 bits))) = 4) by (rewrite enc_length; reflexivity).
  destruct (read_back _ _ _ _ _ _ H Hlen) as [E1 [E2 [d' [Hg [Hbd Hs]]]]].
  assert (Hk : reader_known 4 2 be = true) by (destruct be; vm_compute; reflexivity).
  rewrite Hk. cbn [negb]. change (4 =? 8) with false. change (2 =? 2) with true. cbv iota.
  rewrite E1, E2, Hg, Hbd, Hs, dec_enc. change (256 ^ N.of_nat 4) with 4294967296. rewrite N.mod_small by exact Hlt. reflexivity.
Qed.

(* ------------------------------------------------------------------ refinement to the map of byte arrays *)
Definition BSim (s : bstate) (m : smap) : Prop := forall h, get_buf s h = sm_get m h.

Lemma bsim_empty : BSim bs_empty [].
Proof.
  intro h. unfold get_buf. replace (nth_N bs_empty h) with (@None (option buf)); [reflexivity|].
  symmetry. apply nth_N_None. cbn. lia.
Qed.

Lemma bsim_set s m h d : BSim s m -> h < N.of_nat (length s) -> BSim (set_buf s h d) (sm_set m h d).
Proof.
  intros HS Hlt k. rewrite sm_get_set. destruct (h =? k) eqn:E.
  - assert (h = k) by lia. subst k. apply get_buf_set_eq. exact Hlt.
  - rewrite get_buf_set_ne by lia. apply HS.
Qed.

Lemma bsim_remove s m h : BSim s m -> BSim (upd_N s h None) (sm_remove m h).
Proof.
  intros HS k. destruct (N.eq_dec h k) as [->|Hne].
  - rewrite sm_get_remove_eq. unfold get_buf. rewrite upd_N_same_len_nth, N.eqb_refl. cbn [andb].
    destruct (k <? N.of_nat (length s)) eqn:E; [reflexivity|].
    replace (nth_N s k) with (@None (option buf)); [reflexivity|]. symmetry. apply nth_N_None. lia.
  - rewrite sm_get_remove_ne by exact Hne. unfold get_buf. rewrite nth_N_upd_ne by exact Hne. apply HS.
Qed.

Lemma bsim_new s m d s' k :
  BSim s m -> store_resource s d = (s', k) ->
  sp_new m d (BOkInt (Z.of_N k)) = ((k, d) :: m, BOkInt (Z.of_N k)) /\ BSim s' ((k, d) :: m).
Proof.
  intros HS E. destruct (store_resource_spec _ _ _ _ E) as [Hn [Hs Ho]]. split.
  - unfold sp_new. replace (Z.of_N k <? 0)%Z with false by lia. rewrite N2Z.id, <- (HS k), Hn. reflexivity.
  - intro j. cbn [sm_get]. destruct (k =? j) eqn:Ej.
    + assert (k = j) by lia. subst j. exact Hs.
    + rewrite Ho by lia. apply HS.
Qed.

Lemma write_at_refines s m h off bs :
  BSim s m ->
  snd (sp_write_at m h off bs) = snd (write_at s h off bs)
  /\ BSim (fst (write_at s h off bs)) (fst (sp_write_at m h off bs)).
Proof.
  intro HS. unfold write_at, sp_write_at. rewrite <- (HS (Z.to_N h)).
  destruct (h <? 0)%Z; [auto|]. destruct (off <? 0)%Z; [auto|].
  destruct (get_buf s (Z.to_N h)) as [d|] eqn:Hg; [|auto].
  destruct (in_bounds _ _ _); [|auto]. cbn [fst snd]. split; [reflexivity|].
  apply bsim_set; [exact HS|eapply get_buf_lt; exact Hg].
Qed.

Ltac bsim_done HS :=
  cbn [fst snd]; first [ split; [reflexivity|exact HS] | idtac ].

Lemma b_refines_lemma s m o :
  BSim s m ->
  snd (bspec_step m o (snd (b_step s o))) = snd (b_step s o)
  /\ BSim (fst (b_step s o)) (fst (bspec_step m o (snd (b_step s o)))).
Proof.
  intro HS.
  destruct o as [n|a|h|h n|w k be h off|w sg be h off v|w be h off bits|sh so dh doff len|h off len v|h|h1 h2|bs|h off len|h off bs|h st sp nd|h off len|h i j|content n|h|h|];
    cbn [b_step bspec_step].
  - (* alloc *)
    destruct (n <=? 0)%Z; [bsim_done HS|]. destruct (MAX_ALLOC <? Z.to_N n); [bsim_done HS|].
    destruct (store_resource s (repeat 0 (Z.to_nat n))) as [s' k] eqn:E. cbn [fst snd].
    destruct (bsim_new s m _ s' k HS E) as [Hsp HS']. rewrite Hsp. cbn [fst snd]. auto.
  - (* free *)
    destruct a as [z| |]; [|bsim_done HS ..]. destruct (z <? 0)%Z; [bsim_done HS|].
    rewrite <- (HS (Z.to_N z)). destruct (get_buf s (Z.to_N z)); [|bsim_done HS].
    cbn [fst snd]. split; [reflexivity|apply bsim_remove; exact HS].
  - (* size *)
    destruct (h <? 0)%Z; [bsim_done HS|]. rewrite <- (HS (Z.to_N h)). destruct (get_buf s (Z.to_N h)); bsim_done HS.
  - (* resize *)
    destruct (h <? 0)%Z; [bsim_done HS|]. destruct (n <=? 0)%Z; [bsim_done HS|]. destruct (MAX_ALLOC <? Z.to_N n); [bsim_done HS|].
    rewrite <- (HS (Z.to_N h)). destruct (get_buf s (Z.to_N h)) as [d|] eqn:Hg; [|bsim_done HS].
    cbn [fst snd]. split; [reflexivity|]. apply bsim_set; [exact HS|eapply get_buf_lt; exact Hg].
  - (* read *)
    destruct (negb (reader_known w k be)); [bsim_done HS|].
    destruct (h <? 0)%Z; [bsim_done HS|]. destruct (off <? 0)%Z; [bsim_done HS|].
    rewrite <- (HS (Z.to_N h)). destruct (get_buf s (Z.to_N h)); [|bsim_done HS].
    destruct (in_bounds _ _ _); bsim_done HS.
  - (* write *)
    destruct (writer_range w sg be) as [[lo hi]|]; [|bsim_done HS].
    destruct (h <? 0)%Z; [bsim_done HS|]. destruct (off <? 0)%Z; [bsim_done HS|].
    destruct ((v <? lo) || (hi <? v))%Z; [bsim_done HS|]. apply write_at_refines. exact HS.
  - (* write float *)
    destruct (negb (fwriter_known w be)); [bsim_done HS|]. destruct (w =? 8); apply write_at_refines; exact HS.
  - (* copy *)
    destruct (sh <? 0)%Z; [bsim_done HS|]. destruct (so <? 0)%Z; [bsim_done HS|].
    destruct (dh <? 0)%Z; [bsim_done HS|]. destruct (doff <? 0)%Z; [bsim_done HS|].
    destruct (len <? 0)%Z; [bsim_done HS|]. destruct (len =? 0)%Z; [bsim_done HS|].
    rewrite <- (HS (Z.to_N sh)), <- (HS (Z.to_N dh)).
    destruct (get_buf s (Z.to_N sh)) as [src|]; [|bsim_done HS]. destruct (negb _); [bsim_done HS|].
    destruct (get_buf s (Z.to_N dh)) as [dst|] eqn:Hg; [|bsim_done HS]. destruct (negb _); [bsim_done HS|].
    cbn [fst snd]. split; [reflexivity|]. apply bsim_set; [exact HS|eapply get_buf_lt; exact Hg].
  - (* fill *)
    destruct (h <? 0)%Z; [bsim_done HS|]. destruct (off <? 0)%Z; [bsim_done HS|].
    destruct (len <? 0)%Z; [bsim_done HS|]. destruct ((v <? FILL_MIN) || (FILL_MAX <? v))%Z; [bsim_done HS|].
    destruct (len =? 0)%Z; [bsim_done HS|].
    rewrite <- (HS (Z.to_N h)). destruct (get_buf s (Z.to_N h)) as [d|] eqn:Hg; [|bsim_done HS].
    destruct (in_bounds _ _ _); [|bsim_done HS].
    cbn [fst snd]. split; [reflexivity|]. apply bsim_set; [exact HS|eapply get_buf_lt; exact Hg].
  - (* clone *)
    destruct (h <? 0)%Z; [bsim_done HS|]. rewrite <- (HS (Z.to_N h)).
    destruct (get_buf s (Z.to_N h)) as [d|]; [|bsim_done HS].
    destruct (store_resource s d) as [s' k] eqn:E. cbn [fst snd].
    destruct (bsim_new s m _ s' k HS E) as [Hsp HS']. rewrite Hsp. cbn [fst snd]. auto.
  - (* equals *)
    destruct (h1 <? 0)%Z; [bsim_done HS|]. destruct (h2 <? 0)%Z; [bsim_done HS|].
    rewrite <- (HS (Z.to_N h1)), <- (HS (Z.to_N h2)).
    destruct (get_buf s (Z.to_N h1)); [destruct (get_buf s (Z.to_N h2))|]; bsim_done HS.
  - (* from_string *)
    destruct (MAX_ALLOC <? N.of_nat (length bs)); [bsim_done HS|].
    destruct (store_resource s bs) as [s' k] eqn:E. cbn [fst snd].
    destruct (bsim_new s m _ s' k HS E) as [Hsp HS']. rewrite Hsp. cbn [fst snd]. auto.
  - (* decode *)
    destruct (h <? 0)%Z; [bsim_done HS|]. destruct (off <? 0)%Z; [bsim_done HS|]. destruct (len <? 0)%Z; [bsim_done HS|].
    rewrite <- (HS (Z.to_N h)). destruct (get_buf s (Z.to_N h)); [|bsim_done HS].
    destruct (in_bounds _ _ _); bsim_done HS.
  - (* write_string *)
    destruct (write_at_refines s m h off bs HS) as [Hr HS'].
    destruct (write_at s h off bs) as [s' r]. destruct (sp_write_at m h off bs) as [m' r']. cbn [fst snd] in *. subst r'.
    destruct r; cbn [fst snd]; auto.
  - (* find *)
    destruct (h <? 0)%Z; [bsim_done HS|]. destruct (st <? 0)%Z; [bsim_done HS|].
    destruct ((nd <? 0) || (255 <? nd))%Z; [bsim_done HS|].
    rewrite <- (HS (Z.to_N h)). destruct (get_buf s (Z.to_N h)); [|bsim_done HS].
    destruct (_ <=? Z.to_N st); bsim_done HS.
  - (* reverse *)
    destruct (h <? 0)%Z; [bsim_done HS|]. destruct (off <? 0)%Z; [bsim_done HS|].
    destruct (len <? 0)%Z; [bsim_done HS|]. destruct (len =? 0)%Z; [bsim_done HS|].
    rewrite <- (HS (Z.to_N h)). destruct (get_buf s (Z.to_N h)) as [d|] eqn:Hg; [|bsim_done HS].
    destruct (in_bounds _ _ _); [|bsim_done HS].
    cbn [fst snd]. split; [reflexivity|]. apply bsim_set; [exact HS|eapply get_buf_lt; exact Hg].
  - (* swap *)
    destruct (h <? 0)%Z; [bsim_done HS|]. destruct (i <? 0)%Z; [bsim_done HS|]. destruct (j <? 0)%Z; [bsim_done HS|].
    rewrite <- (HS (Z.to_N h)). destruct (get_buf s (Z.to_N h)) as [d|] eqn:Hg; [|bsim_done HS].
    unfold buf, byte, value in *.
    destruct (nth_N d (Z.to_N i)); [|bsim_done HS]. destruct (nth_N d (Z.to_N j)); [|bsim_done HS].
    cbn [fst snd]. split; [reflexivity|]. apply bsim_set; [exact HS|eapply get_buf_lt; exact Hg].
  - (* read file *)
    destruct (store_resource s []) as [s1 k] eqn:E1. destruct (store_resource s1 (firstn (Z.to_nat n) content)) as [s2 h] eqn:E2.
    cbn [fst snd]. destruct (store_resource_spec _ _ _ _ E1) as [Hn1 [Hs1 Ho1]]. destruct (store_resource_spec _ _ _ _ E2) as [Hn2 [Hs2 Ho2]].
    assert (Hhk : h <> k) by (intros ->; congruence).
    assert (Hfresh : sm_get m h = None) by (rewrite <- (HS h), <- (Ho1 h Hhk); exact Hn2).
    unfold sp_new. replace (Z.of_N h <? 0)%Z with false by lia. rewrite N2Z.id, Hfresh. cbn [fst snd].
    split; [reflexivity|]. intro j. cbn [sm_get]. destruct (h =? j) eqn:Ej.
    + assert (h = j) by lia. subst j. unfold get_buf. rewrite nth_N_upd_ne by congruence. exact Hs2.
    + destruct (N.eq_dec k j) as [<-|Hkj].
      * unfold get_buf. rewrite upd_N_same_len_nth, N.eqb_refl. cbn [andb].
        rewrite <- (HS k), Hn1.
        destruct (k <? N.of_nat (length s2)) eqn:El; [reflexivity|].
        replace (nth_N s2 k) with (@None (option buf)); [reflexivity|]. symmetry. apply nth_N_None. lia.
      * unfold get_buf at 1. rewrite nth_N_upd_ne by exact Hkj. fold (get_buf s2 j).
        rewrite Ho2 by lia. rewrite Ho1 by congruence. apply HS.
  - (* fs.close *) bsim_done HS.
  - (* net.close *) bsim_done HS.
  - (* non-int operand *) bsim_done HS.
Qed.

Lemma b_run_cons s o r :
  b_run s (o :: r) = (fst (b_run (fst (b_step s o)) r), snd (b_step s o) :: snd (b_run (fst (b_step s o)) r)).
Proof. cbn [b_run]. destruct (b_step s o) as [s1 x]. cbn [fst snd]. destruct (b_run s1 r) as [s2 xs]. reflexivity. Qed.

Lemma b_run_exec os : forall s, fst (b_run s os) = b_exec s os.
Proof. induction os as [|o r IH]; intro s; [reflexivity|]. rewrite b_run_cons. cbn [fst]. rewrite IH. reflexivity. Qed.

Lemma bspec_run_cons m o r x xs :
  bspec_run m (o :: r) (x :: xs) =
  (fst (bspec_run (fst (bspec_step m o x)) r xs), snd (bspec_step m o x) :: snd (bspec_run (fst (bspec_step m o x)) r xs)).
Proof. cbn [bspec_run]. destruct (bspec_step m o x) as [m1 y]. cbn [fst snd]. destruct (bspec_run m1 r xs) as [m2 ys]. reflexivity. Qed.

Lemma b_refines_history_lemma os : forall s m,
  BSim s m ->
  snd (bspec_run m os (snd (b_run s os))) = snd (b_run s os)
  /\ BSim (b_exec s os) (fst (bspec_run m os (snd (b_run s os)))).
Proof.
  induction os as [|o r IH]; intros s m HS; [cbn; auto|].
  destruct (b_refines_lemma s m o HS) as [Hr HS1].
  rewrite b_run_cons. cbn [fst snd]. rewrite bspec_run_cons. cbn [fst snd].
  destruct (IH _ _ HS1) as [Hr2 HS2]. cbn [b_exec fold_left]. fold (b_exec (fst (b_step s o)) r).
  split; [rewrite Hr, Hr2; reflexivity|exact HS2].
Qed.

(* b_step never answers BBad, hence (by refinement) the specification never objects *)
Lemma b_step_not_bad s o : snd (b_step s o) <> BBad.
Proof.
  destruct o as [n|a|h|h n|w k be h off|w sg be h off v|w be h off bits|sh so dh doff len|h off len v|h|h1 h2|bs|h off len|h off bs|h st sp nd|h off len|h i j|content n|h|h|];
    cbn [b_step]; try (destruct a); unfold write_at;
    repeat match goal with
           | |- context [if ?c then _ else _] => destruct c
           | |- context [match ?c with Some _ => _ | None => _ end] => destruct c
           | |- context [store_resource ?a ?b] => destruct (store_resource a b)
           | |- context [let '(_, _) := ?c in _] => destruct c
           end; cbn [snd]; try discriminate.
Qed.

(* ------------------------------------------------------------------ histories: a buffer nobody writes is stable *)
Lemma b_buffer_history_stable os : forall s k d,
  get_buf s k = Some d -> Forall (fun o => bop_writes o <> Some (Z.of_N k)) os ->
  get_buf (b_exec s os) k = Some d.
Proof.
  induction os as [|o r IH]; intros s k d Hg Hall; [exact Hg|].
  inversion Hall as [|? ? H1 Hr]; subst. cbn [b_exec fold_left]. fold (b_exec (fst (b_step s o)) r).
  apply IH; [|exact Hr]. apply b_isolation_lemma; assumption.
Qed.

Lemma b_read_depends s1 s2 w k be h off :
  get_buf s1 (Z.to_N h) = get_buf s2 (Z.to_N h) ->
  snd (b_step s1 (BRead w k be h off)) = snd (b_step s2 (BRead w k be h off)).
Proof.
  intro H. cbn [b_step]. rewrite H. cases_if'; reflexivity.
Qed.

(* what was written is what is read back, also after any later history that does not write that buffer
   (reads of it, operations on other buffers, allocations, frees, failing operations of every kind) *)
Lemma rw_roundtrip_history_lemma s w sg be h off v s1 os :
  b_step s (BWrite w sg be h off v) = (s1, BOkUnit) ->
  Forall (fun o => bop_writes o <> Some h) os ->
  snd (b_step (b_exec s1 os) (BRead w (if sg then 1 else 0) be h off)) = BOkWord (v_int v).
Proof.
  intros Hw Hall.
  pose proof (rw_roundtrip_lemma _ _ _ _ _ _ _ _ Hw) as Hr.
  assert (Hh : (0 <= h)%Z /\ exists d, get_buf s1 (Z.to_N h) = Some d).
  { cbn [b_step] in Hw. destruct (writer_range w sg be) as [[lo hi]|]; [|discriminate].
    destruct (h <? 0)%Z eqn:Eh; [discriminate|]. destruct (off <? 0)%Z; [discriminate|].
    destruct ((v <? lo) || (hi <? v))%Z; [discriminate|].
    destruct (write_frame_lemma _ _ _ _ _ Hw) as [d [d' [_ [Hg' _]]]]. split; [lia|eauto]. }
  destruct Hh as [Hh [d Hg]].
  assert (Hst : get_buf (b_exec s1 os) (Z.to_N h) = Some d).
  { apply b_buffer_history_stable; [exact Hg|]. rewrite Z2N.id by exact Hh. exact Hall. }
  rewrite (b_read_depends (b_exec s1 os) s1) by (rewrite Hst, Hg; reflexivity).
  rewrite Hr. reflexivity.
Qed.

Lemma option_Z_dec (a b : option Z) : {a = b} + {a <> b}.
Proof. decide equality. apply Z.eq_dec. Qed.

(* fixed size: only resize and free change the length of a buffer *)
Lemma write_at_length s h off bs k d :
  get_buf s k = Some d -> exists d', get_buf (fst (write_at s h off bs)) k = Some d' /\ length d' = length d.
Proof.
  intro Hg. unfold write_at. destruct (h <? 0)%Z eqn:Eh; [eauto|]. destruct (off <? 0)%Z; [eauto|].
  destruct (get_buf s (Z.to_N h)) as [d0|] eqn:Hg0; [|eauto].
  destruct (in_bounds _ _ _) eqn:Eb; [|eauto]. cbn [fst].
  destruct (N.eq_dec (Z.to_N h) k) as [<-|Hne].
  - rewrite Hg in Hg0. inversion Hg0; subst d0. exists (splice d (Z.to_N off) bs).
    split; [apply get_buf_set_eq; eapply get_buf_lt; exact Hg|].
    unfold splice. apply splice_length. unfold in_bounds in Eb. apply andb_true_iff in Eb as [_ Eb]. lia.
  - rewrite get_buf_set_ne by exact Hne. eauto.
Qed.

Lemma b_size_fixed_lemma s o k d :
  get_buf s k = Some d ->
  (forall n, o <> BResize (Z.of_N k) n) -> o <> BFree (AInt (Z.of_N k)) ->
  exists d', get_buf (fst (b_step s o)) k = Some d' /\ length d' = length d.
Proof.
  intros Hg Hnr Hnf.
  destruct (option_Z_dec (bop_writes o) (Some (Z.of_N k))) as [Hw|Hw];
    [|exists d; split; [apply b_isolation_lemma; assumption|reflexivity]].
  destruct o as [n|a|h|h n|w kd be h off|w sg be h off v|w be h off bits|sh so dh doff len|h off len v|h|h1 h2|bs|h off len|h off bs|h st sp nd|h off len|h i j|content n|h|h|];
    cbn [bop_writes] in Hw; try discriminate; cbn [b_step].
  - destruct a as [z| |]; try discriminate. inversion Hw; subst z. exfalso. apply Hnf. reflexivity.
  - inversion Hw; subst h. exfalso. apply (Hnr n). reflexivity.
  - destruct (writer_range w sg be) as [[lo hi]|]; [|eauto]. cases_if'; cbn [fst]; eauto. apply write_at_length. exact Hg.
  - cases_if'; cbn [fst]; eauto; apply write_at_length; exact Hg.
  - (* copy into k *)
    inversion Hw; subst dh. rewrite N2Z.id.
    destruct (sh <? 0)%Z; [eauto|]. destruct (so <? 0)%Z; [eauto|]. destruct (Z.of_N k <? 0)%Z; [eauto|].
    destruct (doff <? 0)%Z; [eauto|]. destruct (len <? 0)%Z; [eauto|]. destruct (len =? 0)%Z; [eauto|].
    destruct (get_buf s (Z.to_N sh)) as [src|]; [|eauto].
    destruct (in_bounds (Z.to_N len) (Z.to_N so) (N.of_nat (length src))) eqn:B1; cbn [negb]; [|eauto].
    rewrite Hg. destruct (in_bounds (Z.to_N len) (Z.to_N doff) (N.of_nat (length d))) eqn:B2; cbn [negb]; [|eauto].
    cbn [fst]. eexists. split; [apply get_buf_set_eq; eapply get_buf_lt; exact Hg|].
    unfold in_bounds in B1, B2. apply andb_true_iff in B1 as [_ B1]. apply andb_true_iff in B2 as [_ B2].
    unfold splice. apply splice_length. unfold slice. rewrite firstn_length, skipn_length. lia.
  - (* fill *)
    inversion Hw; subst h. rewrite N2Z.id.
    destruct (Z.of_N k <? 0)%Z; [eauto|]. destruct (off <? 0)%Z; [eauto|]. destruct (len <? 0)%Z eqn:El; [eauto|].
    destruct ((v <? FILL_MIN) || (FILL_MAX <? v))%Z; [eauto|]. destruct (len =? 0)%Z; [eauto|].
    rewrite Hg. destruct (in_bounds (Z.to_N len) (Z.to_N off) (N.of_nat (length d))) eqn:B; [|eauto].
    cbn [fst]. eexists. split; [apply get_buf_set_eq; eapply get_buf_lt; exact Hg|].
    unfold in_bounds in B. apply andb_true_iff in B as [_ B].
    unfold splice. apply splice_length. rewrite repeat_length. lia.
  - (* write_string *)
    pose proof (write_at_length s h off bs k d Hg) as [d' [H1 H2]].
    destruct (write_at s h off bs) as [s' r]. cbn [fst] in H1. destruct r; cbn [fst]; eauto.
  - (* reverse *)
    inversion Hw; subst h. rewrite N2Z.id.
    destruct (Z.of_N k <? 0)%Z; [eauto|]. destruct (off <? 0)%Z; [eauto|]. destruct (len <? 0)%Z; [eauto|].
    destruct (len =? 0)%Z; [eauto|].
    rewrite Hg. destruct (in_bounds (Z.to_N len) (Z.to_N off) (N.of_nat (length d))) eqn:B; [|eauto].
    cbn [fst]. eexists. split; [apply get_buf_set_eq; eapply get_buf_lt; exact Hg|].
    unfold in_bounds in B. apply andb_true_iff in B as [_ B].
    unfold splice. apply splice_length. rewrite rev_length. unfold slice. rewrite firstn_length, skipn_length. lia.
  - (* swap *)
    inversion Hw; subst h. rewrite N2Z.id.
    destruct (Z.of_N k <? 0)%Z; [eauto|]. destruct (i <? 0)%Z; [eauto|]. destruct (j <? 0)%Z; [eauto|].
    rewrite Hg. destruct (nth_N d (Z.to_N i)); [|eauto]. destruct (nth_N d (Z.to_N j)); [|eauto].
    cbn [fst]. eexists. split; [apply get_buf_set_eq; eapply get_buf_lt; exact Hg|]. rewrite !length_upd_N. reflexivity.
Qed.

(* ------------------------------------------------------------------ the whole manual-memory state *)
Definition MemInv (st : memstate) : Prop := Inv (fst st).
Definition MemSim (st : memstate) (sp : memspec) : Prop := Sim (fst st) (fst sp) /\ BSim (snd st) (snd sp).

Lemma mem_refines_lemma st sp o :
  MemInv st -> MemSim st sp ->
  MemInv (fst (mem_step st o))
  /\ snd (memspec_step sp o (snd (mem_step st o))) = snd (mem_step st o)
  /\ MemSim (fst (mem_step st o)) (fst (memspec_step sp o (snd (mem_step st o)))).
Proof.
  destruct st as [s b], sp as [p m]. unfold MemInv, MemSim. cbn [fst snd]. intros HI [HS HB].
  destruct o as [o|o]; cbn [mem_step memspec_step fst snd].
  - destruct (mh_refines_u s p o HI HS) as [HI' [Hr HS']].
    destruct (mh_step s o) as [s' r]. cbn [fst snd] in *.
    destruct (spec_step p o r) as [p' r']. cbn [fst snd] in *. subst r'. auto.
  - destruct (b_refines_lemma b m o HB) as [Hr HB'].
    destruct (b_step b o) as [b' r]. cbn [fst snd] in *.
    destruct (bspec_step m o r) as [m' r']. cbn [fst snd] in *. subst r'. auto.
Qed.

Lemma mem_run_cons st o r :
  mem_run st (o :: r) = (fst (mem_run (fst (mem_step st o)) r), snd (mem_step st o) :: snd (mem_run (fst (mem_step st o)) r)).
Proof. cbn [mem_run]. destruct (mem_step st o) as [s1 x]. cbn [fst snd]. destruct (mem_run s1 r) as [s2 xs]. reflexivity. Qed.

Lemma mem_run_exec os : forall st, fst (mem_run st os) = mem_exec st os.
Proof. induction os as [|o r IH]; intro st; [reflexivity|]. rewrite mem_run_cons. cbn [fst]. rewrite IH. reflexivity. Qed.

Lemma memspec_run_cons sp o r x xs :
  memspec_run sp (o :: r) (x :: xs) =
  (fst (memspec_run (fst (memspec_step sp o x)) r xs),
   snd (memspec_step sp o x) :: snd (memspec_run (fst (memspec_step sp o x)) r xs)).
Proof. cbn [memspec_run]. destruct (memspec_step sp o x) as [m1 y]. cbn [fst snd]. destruct (memspec_run m1 r xs) as [m2 ys]. reflexivity. Qed.

Lemma mem_refines_history_lemma os : forall st sp,
  MemInv st -> MemSim st sp ->
  MemInv (mem_exec st os)
  /\ snd (memspec_run sp os (snd (mem_run st os))) = snd (mem_run st os)
  /\ MemSim (mem_exec st os) (fst (memspec_run sp os (snd (mem_run st os)))).
Proof.
  induction os as [|o r IH]; intros st sp HI HS; [cbn; auto|].
  destruct (mem_refines_lemma st sp o HI HS) as [HI1 [Hr HS1]].
  rewrite mem_run_cons. cbn [fst snd]. rewrite memspec_run_cons. cbn [fst snd].
  destruct (IH _ _ HI1 HS1) as [HI2 [Hr2 HS2]]. cbn [mem_exec fold_left]. fold (mem_exec (fst (mem_step st o)) r).
  split; [exact HI2|]. split; [rewrite Hr, Hr2; reflexivity|exact HS2].
Qed.

Lemma mem_empty_ok : MemInv mem_empty /\ MemSim mem_empty memspec_empty.
Proof. split; [exact inv_empty|split; [exact sim_empty|exact bsim_empty]]. Qed.

(* the two halves never interfere *)
Lemma mem_independent st o :
  (forall m, o = OpM m -> snd (fst (mem_step st o)) = snd st)
  /\ (forall b, o = OpB b -> fst (fst (mem_step st o)) = fst st).
Proof.
  split; intros x ->; cbn [mem_step].
  - destruct (mh_step (fst st) x). reflexivity.
  - destruct (b_step (snd st) x). reflexivity.
Qed.

(* ------------------------------------------------------------------ negative offsets / lengths / indices *)
Lemma b_negative_operand_rejected_lemma s h :
  (forall w k be off, (off < 0)%Z -> b_step s (BRead w k be h off) = (s, BErr))
  /\ (forall w sg be off v, (off < 0)%Z -> b_step s (BWrite w sg be h off v) = (s, BErr))
  /\ (forall w be off bits, (off < 0)%Z -> b_step s (BWriteF w be h off bits) = (s, BErr))
  /\ (forall off len v, (off < 0 \/ len < 0)%Z -> b_step s (BFill h off len v) = (s, BErr))
  /\ (forall so dh doff len, (so < 0 \/ doff < 0 \/ len < 0)%Z -> b_step s (BCopy h so dh doff len) = (s, BErr))
  /\ (forall off len, (off < 0 \/ len < 0)%Z -> b_step s (BDecode h off len) = (s, BErr))
  /\ (forall off bs, (off < 0)%Z -> b_step s (BWriteString h off bs) = (s, BErr))
  /\ (forall st sp nd, (st < 0)%Z -> b_step s (BFind h st sp nd) = (s, BErr))
  /\ (forall off len, (off < 0 \/ len < 0)%Z -> b_step s (BReverse h off len) = (s, BErr))
  /\ (forall i j, (i < 0 \/ j < 0)%Z -> b_step s (BSwap h i j) = (s, BErr))
  /\ (forall n, (n <= 0)%Z -> b_step s (BAlloc n) = (s, BErr) /\ b_step s (BResize h n) = (s, BErr)).
Proof.
  assert (Hw : forall off bs, (off < 0)%Z -> write_at s h off bs = (s, BErr)).
  { intros off bs Ho. unfold write_at. destruct (h <? 0)%Z; [reflexivity|]. replace (off <? 0)%Z with true by lia. reflexivity. }
  repeat split; intros; cbn [b_step].
  - replace (off <? 0)%Z with true by lia. cases_if'; reflexivity.
  - destruct (writer_range w sg be) as [[lo hi]|]; [|reflexivity]. replace (off <? 0)%Z with true by lia. cases_if'; reflexivity.
  - cases_if'; try reflexivity; apply Hw; assumption.
  - destruct (h <? 0)%Z; [reflexivity|]. destruct (off <? 0)%Z eqn:E; [reflexivity|]. replace (len <? 0)%Z with true by lia. reflexivity.
  - destruct (h <? 0)%Z; [reflexivity|]. destruct (so <? 0)%Z eqn:E1; [reflexivity|]. destruct (dh <? 0)%Z; [reflexivity|].
    destruct (doff <? 0)%Z eqn:E2; [reflexivity|]. replace (len <? 0)%Z with true by lia. reflexivity.
  - destruct (h <? 0)%Z; [reflexivity|]. destruct (off <? 0)%Z eqn:E; [reflexivity|]. replace (len <? 0)%Z with true by lia. reflexivity.
  - rewrite Hw by assumption. reflexivity.
  - destruct (h <? 0)%Z; [reflexivity|]. replace (st <? 0)%Z with true by lia. reflexivity.
  - destruct (h <? 0)%Z; [reflexivity|]. destruct (off <? 0)%Z eqn:E; [reflexivity|]. replace (len <? 0)%Z with true by lia. reflexivity.
  - destruct (h <? 0)%Z; [reflexivity|]. destruct (i <? 0)%Z eqn:E; [reflexivity|]. replace (j <? 0)%Z with true by lia. reflexivity.
  - replace (n <=? 0)%Z with true by lia. reflexivity.
  - destruct (h <? 0)%Z; [reflexivity|]. replace (n <=? 0)%Z with true by lia. reflexivity.
Qed.

(* fs.close / net.close applied to any handle of this table leave every byte buffer as it was *)
Lemma foreign_close_harmless_lemma s h :
  b_step s (BFsClose h) = (s, BErr) /\ fst (b_step s (BNetClose h)) = s.
Proof. split; reflexivity. Qed.

(* ------------------------------------------------------------------ the charge of the whole state *)
Lemma mem_accounting_lemma st :
  MemInv st -> mem_charged st = 8 * live_total (allocs (fst st)) + btotal (snd st).
Proof. intro HI. unfold mem_charged. rewrite (accounting_lemma _ HI). reflexivity. Qed.

Lemma mem_error_keeps_charge st o :
  MemInv st ->
  (match snd (mem_step st o) with ResM r => is_err r = true | ResB r => r = BErr end) ->
  mem_charged (fst (mem_step st o)) = mem_charged st.
Proof.
  intros HI He. destruct st as [s b]. unfold MemInv in HI. cbn [fst] in HI.
  destruct o as [o|o]; cbn [mem_step fst snd] in *.
  - pose proof (mh_err_unchanged_u s o HI) as H. destruct (mh_step s o) as [s' r]. cbn [fst snd] in *.
    rewrite (H He). reflexivity.
  - pose proof (b_errors_change_nothing_lemma b o) as H. destruct (b_step b o) as [b' r]. cbn [fst snd] in *.
    rewrite (H He). reflexivity.
Qed.
