(* Statement and expression halves of the DCE simulation (see Proofs/DceSim.v). *)
From Coq Require Import String.
From Aelys Require Import Base.Tactics Model.Lang Model.Eval Model.Opt.Dce Proofs.EvalMono
  Proofs.ValueMap Proofs.FoldSim Proofs.FoldSimExpr Proofs.FoldEvalProofs Proofs.DceEval Proofs.DceSim.
Local Open Scope Z_scope.

Lemma good_Trce_nf (r : res (ctl * list (string * nat))) : good r -> nf (Trce DB r).
Proof. intros [G _]. destruct r as [[c e]|k|]; cbn; unfold nf; congruence. Qed.

Lemma TSD_eval_lit f d env st b : eval_expr (S f) d env st (EBool b) = (st, ROk (VBool b)).
Proof. reflexivity. Qed.

(* ------------------------------------------------------------------ equations (folded forms) *)
Lemma dt_expr_eq e : DT (SExpr e) = SExpr (DX e).  Proof. reflexivity. Qed.
Lemma dt_let_eq x m e : DT (SLet x m e) = SLet x m (DX e).  Proof. reflexivity. Qed.
Lemma dt_if_eq c t e : DT (SIf c t e) = SIf (if has_lam c then DX c else c) (DT t) (option_map DT e).  Proof. reflexivity. Qed.
Lemma dt_while_eq c b : DT (SWhile c b) = SWhile (if has_lam c then DX c else c) (DS b).  Proof. reflexivity. Qed.
Lemma dt_for_eq x lo hi incl step b : DT (SFor x lo hi incl step b) =
  SFor x (if has_lam lo then DX lo else lo) (if has_lam hi then DX hi else hi) incl
       (option_map (fun x => if has_lam x then DX x else x) step) (DS b).  Proof. reflexivity. Qed.
Lemma dt_foreach_eq x e b : DT (SForEach x e b) = SForEach x (if has_lam e then DX e else e) (DS b).  Proof. reflexivity. Qed.
Lemma dt_ret_eq e : DT (SRet e) = SRet (option_map (fun x => if has_lam x then DX x else x) e).  Proof. reflexivity. Qed.
Lemma ds_expr_eq e : DS (SExpr e) = SExpr (DX e).  Proof. reflexivity. Qed.
Lemma ds_let_eq x m e : DS (SLet x m e) = SLet x m (DX e).  Proof. reflexivity. Qed.
Lemma ds_if_eq c t e : DS (SIf c t e) =
  match const_bool c with
  | Some true => unwrap (DS t)
  | Some false => match e with Some e' => unwrap (DS e') | None => SBlock [] end
  | None => SIf (if has_lam c then DX c else c) (DS t) (option_map DS e)
  end.  Proof. reflexivity. Qed.
Lemma ds_while_eq c b : DS (SWhile c b) =
  match const_bool c with
  | Some false => SBlock []
  | _ => SWhile (if has_lam c then DX c else c) (DS b)
  end.  Proof. reflexivity. Qed.
Lemma ds_for_eq x lo hi incl step b : DS (SFor x lo hi incl step b) =
  SFor x (if has_lam lo then DX lo else lo) (if has_lam hi then DX hi else hi) incl
       (option_map (fun x => if has_lam x then DX x else x) step) (DS b).  Proof. reflexivity. Qed.
Lemma ds_foreach_eq x e b : DS (SForEach x e b) = SForEach x (if has_lam e then DX e else e) (DS b).  Proof. reflexivity. Qed.
Lemma ds_ret_eq e : DS (SRet e) = SRet (option_map (fun x => if has_lam x then DX x else x) e).  Proof. reflexivity. Qed.

Lemma dx_bin_eq op a b : DX (EBin op a b) = EBin op (DX a) (DX b).  Proof. reflexivity. Qed.
Lemma dx_un_eq op a : DX (EUn op a) = EUn op (DX a).  Proof. reflexivity. Qed.
Lemma dx_and_eq a b : DX (EAnd a b) = EAnd (DX a) (DX b).  Proof. reflexivity. Qed.
Lemma dx_or_eq a b : DX (EOr a b) = EOr (DX a) (DX b).  Proof. reflexivity. Qed.
Lemma dx_call_eq f args : DX (ECall f args) = ECall (DX f) (map DX args).  Proof. reflexivity. Qed.
Lemma dx_assign_eq x a : DX (EAssign x a) = EAssign x (DX a).  Proof. reflexivity. Qed.
Lemma dx_if_eq c a b : DX (EIf c a b) =
  match const_bool c with
  | Some true => DX a
  | Some false => DX b
  | None => EIf (DX c) (DX a) (DX b)
  end.  Proof. reflexivity. Qed.
Lemma dx_member_eq o m : DX (EMember o m) = EMember (DX o) m.  Proof. reflexivity. Qed.
Lemma dx_arr_eq es : DX (EArr es) = EArr (map DX es).  Proof. reflexivity. Qed.
Lemma dx_vec_eq es : DX (EVec es) = EVec (map DX es).  Proof. reflexivity. Qed.
Lemma dx_arrsized_eq n : DX (EArrSized n) = EArrSized (DX n).  Proof. reflexivity. Qed.
Lemma dx_idx_eq a i : DX (EIdx a i) = EIdx (DX a) (DX i).  Proof. reflexivity. Qed.
Lemma dx_idxset_eq a i v : DX (EIdxSet a i v) = EIdxSet (DX a) (DX i) (DX v).  Proof. reflexivity. Qed.

Ltac dteq := rewrite ?dt_expr_eq, ?dt_let_eq, ?dt_block_eq, ?dt_if_eq, ?dt_while_eq, ?dt_for_eq, ?dt_foreach_eq, ?dt_ret_eq, ?dt_fun_eq.
Ltac dseq := rewrite ?ds_expr_eq, ?ds_let_eq, ?ds_block_eq, ?ds_while_eq, ?ds_for_eq, ?ds_foreach_eq, ?ds_ret_eq, ?ds_fun_eq.

(* a function declaration creates the image of the closure the original creates *)
Lemma sfun_sim f d top env st name params body decos st' r :
  exec_stmt (S f) d top env st (SFun name params body decos) = (st', r) ->
  exec_stmt (S f) d top env (TSD st) (SFun name params (DB body) decos) = (TSD st', Trce DB r).
Proof.
  intro H. rewrite exec_stmt_S in H; rewrite exec_stmt_S; cbn beta iota zeta in H |- *.
  destruct top.
  - change (VClo name params (DB body) env) with (TD (VClo name params body env)).
    rewrite set_global_T. inversion H; subst. reflexivity.
  - rewrite alloc_cell_T' by reflexivity. destruct (alloc_cell st VNull) as [st1 l] eqn:A. cbn [fst snd].
    change (VClo name params (DB body) ((name, l) :: env)) with (TD (VClo name params body ((name, l) :: env))).
    rewrite set_cell_T. inversion H; subst. reflexivity.
Qed.

(* the last statement of a block keeps its shape *)
Lemma ds_tail_S f (IH : dsim f) : forall d top env st s st' r,
  exec_stmt (S f) d top env st s = (st', r) -> good r ->
  exec_stmt (S f) d top env (TSD st) (DT s) = (TSD st', Trce DB r).
Proof.
  intros d top env st s st' r H N.
  destruct s as [e|x m e|b|c t e|c b|x lo hi incl step b|x e b|e| | |name params body decos|k];
    dteq; try (apply sfun_sim; exact H);
    rewrite exec_stmt_S in H; rewrite exec_stmt_S; cbn beta iota zeta in H |- *.
  all: solve [dgo IH H N].
Qed.

(* a branch of an `if`, rewritten: same outcome (the evaluator refuses a declaration as a branch) *)
Lemma branch_sim f (IH : dsim f) d env st1 t st' (r : res (ctl * list (string * nat))) :
  (if declares t then (st1, RErr EUnsupported)
   else let (st2, r0) := exec_stmt f d false env st1 t in
        match r0 with
        | ROk (c2, _) => (st2, ROk (c2, env))
        | RErr k => (st2, RErr k)
        | RFuel => (st2, RFuel)
        end) = (st', r) -> good r ->
  (if declares (DS t) then (TSD st1, RErr EUnsupported)
   else let (st2, r0) := exec_stmt f d false env (TSD st1) (DS t) in
        match r0 with
        | ROk (c2, _) => (st2, ROk (c2, env))
        | RErr k => (st2, RErr k)
        | RFuel => (st2, RFuel)
        end) = (TSD st', Trce DB r).
Proof.
  intros H N.
  destruct (declares t) eqn:Dt; [inversion H; subst; exfalso; apply (proj2 N); reflexivity|].
  destruct (exec_stmt f d false env st1 t) as [s2 r2] eqn:E2.
  assert (G2 : good r2).
  { destruct r2 as [[c2 e2]|k|]; [apply good_ok | inversion H; subst; exact N | inversion H; subst; exfalso; apply (proj1 N); reflexivity]. }
  rewrite (dce_nondecl _ _ _ _ _ _ _ _ Dt E2 G2).
  rewrite (ds_stmt _ IH _ _ _ _ _ _ _ E2 G2).
  destruct r2 as [[c2 e2]|k|]; inversion H; subst; reflexivity.
Qed.

(* a constant `if`: the taken branch, unwrapped *)
Lemma const_branch_sim f (IH : dsim f) d top env st t st' (r : res (ctl * list (string * nat))) :
  (if declares t then (st, RErr EUnsupported)
   else let (st2, r0) := exec_stmt f d false env st t in
        match r0 with
        | ROk (c2, _) => (st2, ROk (c2, env))
        | RErr k => (st2, RErr k)
        | RFuel => (st2, RFuel)
        end) = (st', r) -> good r ->
  exec_stmt (S f) d top env (TSD st) (unwrap (DS t)) = (TSD st', Trce DB r).
Proof.
  intros H N.
  destruct (declares t) eqn:Dt; [inversion H; subst; exfalso; apply (proj2 N); reflexivity|].
  destruct (exec_stmt f d false env st t) as [s2 r2] eqn:E2.
  assert (G2 : good r2).
  { destruct r2 as [[c2 e2]|k|]; [apply good_ok | inversion H; subst; exact N | inversion H; subst; exfalso; apply (proj1 N); reflexivity]. }
  pose proof (ds_stmt _ IH _ _ _ _ _ _ _ E2 G2) as P.
  pose proof (dce_nondecl _ _ _ _ _ _ _ _ Dt E2 G2) as Dn.
  rewrite (unwrap_exec f d top env (TSD st) (DS t) _ _ Dn P (good_Trce_nf _ G2)).
  destruct r2 as [[c2 e2]|k|]; inversion H; subst; cbn [Trce]; try reflexivity.
  rewrite (nondecl_env _ _ _ _ _ _ _ _ _ Dt E2). reflexivity.
Qed.

Lemma ds_stmt_S f (IH : dsim f) : forall d top env st s st' r,
  exec_stmt (S f) d top env st s = (st', r) -> good r ->
  exec_stmt (S f) d top env (TSD st) (DS s) = (TSD st', Trce DB r).
Proof.
  intros d top env st s st' r H N.
  destruct s as [e|x m e|b|c t e|c b|x lo hi incl step b|x e b|e| | |name params body decos|k];
    dseq; try (apply sfun_sim; exact H).
  4: { (* SIf *)
    rewrite ds_if_eq. destruct (const_bool c) as [[|]|] eqn:CB.
    - (* if true *)
      apply const_bool_inv in CB; subst c.
      rewrite exec_stmt_S in H. cbn beta iota zeta in H.
      destruct f as [|f0]; [cbn in H; inversion H; subst; exfalso; apply (proj1 N); reflexivity|].
      rewrite TSD_eval_lit in H. cbn [truthy] in H. cbn beta iota zeta in H.
      eapply const_branch_sim; eassumption.
    - (* if false *)
      apply const_bool_inv in CB; subst c.
      rewrite exec_stmt_S in H. cbn beta iota zeta in H.
      destruct f as [|f0]; [cbn in H; inversion H; subst; exfalso; apply (proj1 N); reflexivity|].
      rewrite TSD_eval_lit in H. cbn [truthy] in H. cbn beta iota zeta in H.
      destruct e as [e'|].
      + eapply const_branch_sim; eassumption.
      + inversion H; subst. reflexivity.
    - (* the condition is evaluated *)
      rewrite exec_stmt_S in H; rewrite exec_stmt_S; cbn beta iota zeta in H |- *.
      destruct (eval_expr f d env st c) as [s1 r1] eqn:E1. destruct r1 as [vc|k|].
      + rewrite (ds_px _ IH _ _ _ _ _ _ E1 (good_ok _)). cbn [Tr]. rewrite truthy_T.
        destruct (truthy vc).
        * apply branch_sim; assumption.
        * destruct e as [es|]; cbn [option_map].
          -- apply branch_sim; assumption.
          -- inversion H; subst. reflexivity.
      + inversion H; subst. rewrite (ds_px _ IH _ _ _ _ _ _ E1 (good_err_cast _ N)). reflexivity.
      + inversion H; subst. exfalso; apply (proj1 N); reflexivity. }
  4: { (* SWhile *)
    destruct (const_bool c) as [[|]|] eqn:CB.
    1,3: rewrite exec_stmt_S in H; rewrite exec_stmt_S; cbn beta iota zeta in H |- *; solve [dgo IH H N].
    apply const_bool_inv in CB; subst c.
    rewrite exec_stmt_S in H. cbn beta iota zeta in H.
    destruct f as [|f0]; [cbn in H; inversion H; subst; exfalso; apply (proj1 N); reflexivity|].
    rewrite exec_while_S in H. cbn beta iota zeta in H.
    destruct f0 as [|f1]; [cbn in H; inversion H; subst; exfalso; apply (proj1 N); reflexivity|].
    rewrite TSD_eval_lit in H. cbn [truthy] in H. cbn beta iota zeta in H.
    inversion H; subst. reflexivity. }
  all: rewrite exec_stmt_S in H; rewrite exec_stmt_S; cbn beta iota zeta in H |- *.
  all: solve [dgo IH H N].
Qed.

Lemma drop_val_Trce r : drop_val (Trce DB r) = Trc DB (drop_val r).
Proof. destruct r as [[c e]|k|]; [destruct c|..]; reflexivity. Qed.

Definition generic_pos (mode : nat) (s : stmt) : Prop :=
  mode = O \/ (forall e, s <> SExpr e) /\ (forall c t e, s <> SIf c t (Some e)) /\ (mode = 2%nat -> forall b, s <> SBlock b).

Lemma generic_pos_dt mode s : generic_pos mode s -> generic_pos mode (DT s).
Proof.
  intros [->|(C1 & C2 & C3)]; [left; reflexivity|]. right.
  destruct s as [e|x m e|b|c t e|c b|x lo hi incl step b|x e b|e| | |name params body decos|k]; dteq;
    repeat split; intros; try discriminate.
  - exfalso. eapply C1; reflexivity.
  - exfalso. eapply (C3 H). reflexivity.
  - destruct e as [e|]; [exfalso; eapply C2; reflexivity | discriminate].
Qed.

(* the last statement of a list in a position where no result rule applies to it *)
Lemma single_generic_sim f (IH : dsim f) d top mode env st s st' r :
  generic_pos mode s ->
  exec_stmts (S f) d top mode env st [s] = (st', r) -> good r ->
  exec_stmts (S f) d top mode env (TSD st) [DT s] = (TSD st', Trc DB r).
Proof.
  intros C H N.
  rewrite (exec_stmts_single_generic f d top mode env st s C) in H.
  rewrite (exec_stmts_single_generic f d top mode env (TSD st) (DT s) (generic_pos_dt _ _ C)).
  destruct (exec_stmt f d top env st s) as [s1 r1] eqn:E. cbn [fst snd] in H. inversion H; subst.
  assert (G1 : good r1).
  { destruct r1 as [[c e]|k|]; [apply good_ok | exact (good_err_cast _ N) | exfalso; apply (proj1 N); reflexivity]. }
  rewrite (ds_tail _ IH _ _ _ _ _ _ _ E G1). cbn [fst snd]. rewrite drop_val_Trce. reflexivity.
Qed.

Lemma dl_nonempty s r : DL (s :: r) <> [].
Proof. destruct r; [rewrite dl_one | rewrite dl_cons]; discriminate. Qed.

Lemma ds_list_S f (IH : dsim f) : forall d top mode env st ss st' r,
  exec_stmts (S f) d top mode env st ss = (st', r) -> good r ->
  exec_stmts (S f) d top mode env (TSD st) (DL ss) = (TSD st', Trc DB r).
Proof.
  intros d top mode env st ss st' r H N.
  destruct ss as [|s ss]; [cbn [dce_list]; rewrite exec_stmts_S in H; rewrite exec_stmts_S; dgo IH H N|].
  destruct ss as [|s2 ss].
  - (* the last statement: its shape is kept, so the result rules see the same shape *)
    rewrite dl_one.
    destruct mode as [|mode]; [apply (single_generic_sim f IH); [left; reflexivity | assumption..]|].
    destruct s as [e|x m e|b|c t e|c b|x lo hi incl step b|x e b|e| | |name params body decos|k];
      try (apply (single_generic_sim f IH); [right; repeat split; intros; discriminate | assumption..]).
    + (* SExpr: its value is the result *)
      dteq. rewrite exec_stmts_S in H; rewrite exec_stmts_S. cbn beta iota zeta in H |- *. dgo IH H N.
    + (* SBlock: opened in result mode at top level only *)
      destruct mode as [|[|mode]];
        try (apply (single_generic_sim f IH); [right; repeat split; intros; try discriminate; congruence | assumption..]).
      dteq. rewrite exec_stmts_S in H; rewrite exec_stmts_S. cbn beta iota zeta in H |- *. dgo IH H N.
    + (* SIf: with an else, the branch taken gives the result *)
      destruct e as [e|]; [|apply (single_generic_sim f IH); [right; repeat split; intros; discriminate | assumption..]].
      dteq. cbn [option_map].
      assert (LHS : exec_stmts (S f) d top (S mode) env st [SIf c t (Some e)] =
                    (let (st1, r0) := eval_expr f d env st c in
                     match r0 with
                     | ROk vc => exec_branch f d env st1 (if truthy vc then t else e)
                     | RErr kk => (st1, RErr kk)
                     | RFuel => (st1, RFuel)
                     end)).
      { rewrite exec_stmts_S. destruct mode as [|[|mode]]; reflexivity. }
      rewrite LHS in H. clear LHS.
      assert (RHS : forall X, exec_stmts (S f) d top (S mode) env (TSD st) [SIf X (DT t) (Some (DT e))] =
                    (let (st1, r0) := eval_expr f d env (TSD st) X in
                     match r0 with
                     | ROk vc => exec_branch f d env st1 (if truthy vc then DT t else DT e)
                     | RErr kk => (st1, RErr kk)
                     | RFuel => (st1, RFuel)
                     end)).
      { intro X. rewrite exec_stmts_S. destruct mode as [|[|mode]]; reflexivity. }
      rewrite RHS. clear RHS.
      destruct (eval_expr f d env st c) as [s1 r1] eqn:E1. destruct r1 as [vc|k|].
      * rewrite (ds_px _ IH _ _ _ _ _ _ E1 (good_ok _)). cbn [Tr]. rewrite truthy_T.
        destruct (truthy vc); apply (ds_branch _ IH); assumption.
      * inversion H; subst. rewrite (ds_px _ IH _ _ _ _ _ _ E1 (good_err_cast _ N)). reflexivity.
      * inversion H; subst. exfalso; apply (proj1 N); reflexivity.
  - rewrite dl_cons. rewrite exec_stmts_cons in H.
    pose proof (dl_nonempty s2 ss) as NE.
    pose proof (fun e0 s0 s0' r0 => ds_list _ IH d top mode e0 s0 (s2 :: ss) s0' r0) as IHL.
    destruct (DL (s2 :: ss)) as [|c1 cl] eqn:EDL; [congruence|].
    rewrite exec_stmts_cons.
    destruct (exec_stmt f d top env st s) as [s1 r1] eqn:E.
    assert (G1 : good r1).
    { destruct r1 as [[c e]|k|]; [apply good_ok | inversion H; subst; exact (good_err_cast _ N) | inversion H; subst; exfalso; apply (proj1 N); reflexivity]. }
    rewrite (ds_stmt _ IH _ _ _ _ _ _ _ E G1).
    destruct r1 as [[c e]|k|]; cbn [Trce].
    + destruct c; cbn [Tc]; try (inversion H; subst; reflexivity).
      apply IHL; assumption.
    + inversion H; subst. reflexivity.
    + inversion H; subst. reflexivity.
Qed.

Lemma dt_not_block s : (forall b, s <> SBlock b) -> forall b, DT s <> SBlock b.
Proof. intros C b. destruct s; dteq; try discriminate. exfalso; eapply C; reflexivity. Qed.
Lemma dt_not_expr s : (forall e, s <> SExpr e) -> forall e, DT s <> SExpr e.
Proof. intros C e. destruct s; dteq; try discriminate. exfalso; eapply C; reflexivity. Qed.

Lemma ds_branch_S f (IH : dsim f) : forall d env st s st' r,
  exec_branch (S f) d env st s = (st', r) -> good r ->
  exec_branch (S f) d env (TSD st) (DT s) = (TSD st', Trc DB r).
Proof.
  intros d env st s st' r H N.
  assert (GEN : (forall b, s <> SBlock b) -> (forall e, s <> SExpr e) ->
                exec_branch (S f) d env (TSD st) (DT s) = (TSD st', Trc DB r)).
  { intros C1 C2.
    rewrite (exec_branch_generic f d env st s C1 C2) in H.
    rewrite (exec_branch_generic f d env (TSD st) (DT s) (dt_not_block s C1) (dt_not_expr s C2)).
    destruct (exec_stmt f d false env st s) as [s1 r1] eqn:E. cbn [fst snd] in H. inversion H; subst.
    assert (G1 : good r1).
    { destruct r1 as [[c e]|k|]; [apply good_ok | exact (good_err_cast _ N) | exfalso; apply (proj1 N); reflexivity]. }
    rewrite (ds_tail _ IH _ _ _ _ _ _ _ E G1). cbn [fst snd]. rewrite drop_val_Trce. reflexivity. }
  destruct s as [e|x m e|b|c t e|c b|x lo hi incl step b|x e b|e| | |name params body decos|k];
    try (apply GEN; intros; discriminate).
  - dteq. rewrite exec_branch_S in H; rewrite exec_branch_S; cbn beta iota zeta in H |- *; dgo IH H N.
  - dteq. rewrite exec_branch_S in H; rewrite exec_branch_S; cbn beta iota zeta in H |- *; dgo IH H N.
Qed.

(* ------------------------------------------------------------------ expressions *)
Lemma good_Tr_nf_d (r : res value) : good r -> nf (Tr DB r).
Proof. intros [G _]. destruct r; cbn; unfold nf; congruence. Qed.

(* a callee that only becomes a bare member access through a constant `if` cannot be evaluated
   inside the fragment *)
Lemma dx_member_bad : forall e o m, DX e = EMember o m -> is_member e = false ->
  forall f d env st st' (r : res value), eval_expr f d env st e = (st', r) -> bad r.
Proof.
  fix IH 1. intros e o m F NM f d env st st' r H.
  destruct e; try discriminate.
  rewrite dx_if_eq in F.
  destruct f as [|f1]; [cbn in H; inversion H; left; reflexivity|].
  rewrite eval_expr_S in H. cbn beta iota zeta in H.
  destruct (const_bool e1) as [[|]|] eqn:CB; [| |discriminate];
    apply const_bool_inv in CB; subst e1;
    (destruct f1 as [|f2]; [cbn in H; inversion H; left; reflexivity|]);
    rewrite TSD_eval_lit in H; cbn [truthy] in H; cbn beta iota zeta in H.
  - destruct (is_member e2) eqn:M2.
    + destruct e2; try discriminate. cbn in H. inversion H; right; reflexivity.
    + eapply (IH e2); eassumption.
  - destruct (is_member e3) eqn:M3.
    + destruct e3; try discriminate. cbn in H. inversion H; right; reflexivity.
    + eapply (IH e3); eassumption.
Qed.

Lemma bad_not_good {A} (r : res A) : bad r -> good r -> False.
Proof. intros [->| ->] [G1 G2]; congruence. Qed.

Lemma ds_expr_S f (IH : dsim f) : forall d env st e st' r,
  eval_expr (S f) d env st e = (st', r) -> good r ->
  eval_expr (S f) d env (TSD st) (DX e) = (TSD st', Tr DB r).
Proof.
  intros d env st e st' r H N.
  destruct e.
  1-6: cbn [dce_expr]; rewrite eval_expr_S in H; rewrite eval_expr_S; cbn beta iota zeta in H |- *; dgo IH H N.
  - rewrite dx_bin_eq. rewrite eval_expr_S in H; rewrite eval_expr_S; cbn beta iota zeta in H |- *; dgo IH H N.
  - rewrite dx_un_eq. rewrite eval_expr_S in H; rewrite eval_expr_S; cbn beta iota zeta in H |- *; dgo IH H N.
  - rewrite dx_and_eq. rewrite eval_expr_S in H; rewrite eval_expr_S; cbn beta iota zeta in H |- *; dgo IH H N.
  - rewrite dx_or_eq. rewrite eval_expr_S in H; rewrite eval_expr_S; cbn beta iota zeta in H |- *; dgo IH H N.
  - (* ECall *)
    rewrite dx_call_eq.
    destruct (is_member e) eqn:IsM.
    + destruct e; try discriminate. rewrite dx_member_eq.
      rewrite eval_expr_S in H; rewrite eval_expr_S; cbn beta iota zeta in H |- *. dgo IH H N.
    + assert (NM : forall o m, e <> EMember o m) by (intros o m ->; discriminate).
      rewrite (FoldEvalProofs.eval_call_general _ _ _ _ _ _ NM) in H.
      destruct (is_member (DX e)) eqn:IsM'.
      * destruct (DX e) eqn:FE; try discriminate.
        destruct (eval_expr f d env st e) as [s1 r1] eqn:E1.
        exfalso. apply (bad_not_good r1); [eapply dx_member_bad; eassumption|].
        destruct r1; [apply good_ok | inversion H; subst; exact N | inversion H; subst; exact N].
      * assert (NM' : forall o m, DX e <> EMember o m) by (intros o m Eq; rewrite Eq in IsM'; discriminate).
        rewrite (FoldEvalProofs.eval_call_general _ _ _ _ _ _ NM').
        cbn beta iota zeta in H |- *. dgo IH H N.
  - rewrite dx_assign_eq. rewrite eval_expr_S in H; rewrite eval_expr_S; cbn beta iota zeta in H |- *; dgo IH H N.
  - (* EIf *)
    rewrite dx_if_eq. destruct (const_bool e1) as [[|]|] eqn:CB.
    + apply const_bool_inv in CB; subst e1.
      rewrite eval_expr_S in H. cbn beta iota zeta in H.
      destruct f as [|f0]; [cbn in H; inversion H; subst; exfalso; apply (proj1 N); reflexivity|].
      rewrite TSD_eval_lit in H. cbn [truthy] in H. cbn beta iota zeta in H.
      apply (m_expr _ (mono_all (S f0))); [apply (ds_expr _ IH); assumption | apply good_Tr_nf_d; exact N].
    + apply const_bool_inv in CB; subst e1.
      rewrite eval_expr_S in H. cbn beta iota zeta in H.
      destruct f as [|f0]; [cbn in H; inversion H; subst; exfalso; apply (proj1 N); reflexivity|].
      rewrite TSD_eval_lit in H. cbn [truthy] in H. cbn beta iota zeta in H.
      apply (m_expr _ (mono_all (S f0))); [apply (ds_expr _ IH); assumption | apply good_Tr_nf_d; exact N].
    + rewrite eval_expr_S in H; rewrite eval_expr_S; cbn beta iota zeta in H |- *; dgo IH H N.
  - (* EFmt *) rewrite dx_fmt_eq. rewrite eval_expr_S in H; rewrite eval_expr_S; cbn beta iota zeta in H |- *; dgo IH H N.
  - (* ELam *) rewrite dx_lam_eq. rewrite eval_expr_S in H; rewrite eval_expr_S; cbn beta iota zeta in H |- *.
    inversion H; subst. reflexivity.
  - rewrite dx_member_eq. rewrite eval_expr_S in H; rewrite eval_expr_S; cbn beta iota zeta in H |- *; dgo IH H N.
  - rewrite dx_arr_eq. rewrite eval_expr_S in H; rewrite eval_expr_S; cbn beta iota zeta in H |- *; dgo IH H N.
  - rewrite dx_vec_eq. rewrite eval_expr_S in H; rewrite eval_expr_S; cbn beta iota zeta in H |- *; dgo IH H N.
  - rewrite dx_arrsized_eq. rewrite eval_expr_S in H; rewrite eval_expr_S; cbn beta iota zeta in H |- *; dgo IH H N.
  - rewrite dx_idx_eq. rewrite eval_expr_S in H; rewrite eval_expr_S; cbn beta iota zeta in H |- *; dgo IH H N.
  - rewrite dx_idxset_eq. rewrite eval_expr_S in H; rewrite eval_expr_S; cbn beta iota zeta in H |- *; dgo IH H N.
  - cbn [dce_expr]. rewrite eval_expr_S in H; rewrite eval_expr_S; cbn beta iota zeta in H |- *; dgo IH H N.
Qed.

(* ------------------------------------------------------------------ all fuels *)
Lemma dsim_S f : dsim f -> dsim (S f).
Proof.
  intro IH. constructor.
  - apply ds_expr_S; exact IH.
  - apply ds_id_S; exact IH.
  - apply ds_args_S; exact IH.
  - apply ds_args_id_S; exact IH.
  - apply ds_fmt_S; exact IH.
  - apply ds_fmt_id_S; exact IH.
  - apply ds_app_S; exact IH.
  - apply ds_stmt_S; exact IH.
  - apply ds_tail_S; exact IH.
  - apply ds_list_S; exact IH.
  - apply ds_branch_S; exact IH.
  - apply ds_while_S; exact IH.
  - apply ds_for_S; exact IH.
  - apply ds_foreach_S; exact IH.
Qed.

Theorem dsim_all : forall f, dsim f.
Proof. induction f; [exact dsim_O | apply dsim_S; assumption]. Qed.

Lemma TSD_empty : TSD empty_state = empty_state.
Proof. reflexivity. Qed.

(* whole programs: the variant proc = has_lam of the pass preserves every run inside the fragment *)
Theorem dce_program_preserves_haslam (fuel : nat) (p : program) :
  oc_class (run_program fuel p) <> OcFuel ->
  oc_class (run_program fuel p) <> OcErr EUnsupported ->
  run_program fuel (dce_program has_lam p) = run_program fuel p.
Proof.
  intros NFuel NUns. unfold run_program, dce_program in *.
  destruct (exec_stmts fuel 0 true 2 [] empty_state p) as [st' r] eqn:E.
  assert (N : good r).
  { split; intro Hr; subst r; [apply NFuel | apply NUns]; reflexivity. }
  pose proof (ds_block fuel (dsim_all fuel) _ _ _ _ _ _ _ _ E N) as P.
  rewrite TSD_empty in P. rewrite P.
  destruct r as [c|k|]; cbn [Trc]; [|reflexivity|reflexivity].
  destruct c; cbn [Tc]; rewrite ?to_str_T; reflexivity.
Qed.

(* the pass as implemented: the same theorem wherever it coincides with that variant, i.e.
   wherever the positions it leaves alone contain no lambda with something to rewrite *)
Theorem dce_program_preserves (fuel : nat) (p : program) :
  dce_program (fun _ => false) p = dce_program has_lam p ->
  oc_class (run_program fuel p) <> OcFuel ->
  oc_class (run_program fuel p) <> OcErr EUnsupported ->
  run_program fuel (dce_program (fun _ => false) p) = run_program fuel p.
Proof. intros -> A B. apply dce_program_preserves_haslam; assumption. Qed.
