(* C03 -- proofs about the root model (Model/GcRoots.v): VM::collect's root list is exactly the set
   of places through which the program can still reach an object, hence vm_collect keeps everything
   the program can reach. *)
From Aelys Require Import Base.Tactics Extracted.GcRootFields Model.Gc Model.GcRoots Proofs.GcProofs.
Local Open Scope N_scope.

Lemma In_ptrs : forall l p, In p (ptrs l) <-> In (Some p) l.
Proof.
  intros l p. unfold ptrs. rewrite in_flat_map. split.
  - intros [[q|] [Hin Hp]]; [destruct Hp as [<-|[]]; exact Hin|destruct Hp].
  - intro H. exists (Some p). split; [exact H|left; reflexivity].
Qed.

Lemma In_firstn_nth : forall {A} (a : nat) (l : list A) v,
  In v (firstn a l) <-> exists j, (j < a)%nat /\ nth_error l j = Some v.
Proof.
  intros A a. induction a as [|a IH]; intros l v.
  - cbn [firstn]. split; [intros []|intros (j & Hj & _); lia].
  - destruct l as [|x t]; cbn [firstn].
    + split; [intros []|intros (j & _ & Hn); destruct j; discriminate].
    + cbn [In]. rewrite IH. split.
      * intros [<-|(j & Hj & Hn)]; [exists 0%nat; split; [lia|reflexivity]|exists (S j); split; [lia|exact Hn]].
      * intros (j & Hj & Hn). destruct j as [|j]; cbn [nth_error] in Hn.
        -- left. injection Hn as ->. reflexivity.
        -- right. exists j. split; [lia|exact Hn].
Qed.

Lemma nth_skipn : forall {A} (b : nat) (l : list A) j, nth_error (skipn b l) j = nth_error l (b + j).
Proof.
  intros A b. induction b as [|b IH]; intros l j; [reflexivity|].
  destruct l as [|x t]; cbn [skipn]; [destruct j; reflexivity|]. rewrite IH. reflexivity.
Qed.

Lemma In_window : forall regs base n v,
  In v (window regs base n) <->
  exists k, base <= k /\ k < base + n /\ nth_error regs (N.to_nat k) = Some v.
Proof.
  intros regs base n v. unfold window. rewrite In_firstn_nth. split.
  - intros (j & Hj & Hn). rewrite nth_skipn in Hn. exists (base + N.of_nat j).
    split; [lia|]. split; [lia|].
    replace (N.to_nat (base + N.of_nat j)) with (N.to_nat base + j)%nat by lia. exact Hn.
  - intros (k & Hlo & Hhi & Hn). exists (N.to_nat (k - base)). split; [lia|].
    rewrite nth_skipn. replace (N.to_nat base + N.to_nat (k - base))%nat with (N.to_nat k) by lia. exact Hn.
Qed.

Lemma In_running_closures : forall fs c,
  In c (running_closures fs) <-> exists f, In f fs /\ fr_closure f = Some c.
Proof.
  intros fs c. unfold running_closures. rewrite in_flat_map. split.
  - intros (f & Hf & Hc). exists f. split; [exact Hf|].
    destruct (fr_closure f) as [c'|]; [destruct Hc as [<-|[]]; reflexivity|destruct Hc].
  - intros (f & Hf & Hc). exists f. split; [exact Hf|]. rewrite Hc. left. reflexivity.
Qed.

(* every place of the specification is enumerated by collect ... *)
Lemma frames_consistent_b_spec : forall s, frames_consistent_b s = true <-> frames_consistent s.
Proof.
  intro s. unfold frames_consistent_b, frames_consistent. rewrite forallb_forall. split.
  - intros H f Hf. apply N.eqb_eq. exact (H f Hf).
  - intros H f Hf. apply N.eqb_eq. exact (H f Hf).
Qed.

Lemma collect_roots_complete : forall s p, frames_consistent s -> holds_ref s p -> In p (collect_roots s).
Proof.
  intros s p Hcons H. unfold collect_roots. rewrite !in_app_iff.
  destruct H as [f k p Hf Hlo Hhi Hn | f Hf | f c Hf Hc | p Hp | p Hp | p Hp | p Hp | p Hp].
  - left. apply in_flat_map. exists f. split; [exact Hf|]. unfold frame_roots. apply in_or_app. left.
    apply In_ptrs. apply In_window. exists k. rewrite (Hcons f Hf). auto.
  - left. apply in_flat_map. exists f. split; [exact Hf|]. unfold frame_roots. apply in_or_app. right.
    left. reflexivity.
  - right. left. apply In_running_closures. exists f. auto.
  - right. right. left. exact Hp.
  - right. right. right. left. apply In_ptrs. exact Hp.
  - right. right. right. right. left. exact Hp.
  - right. right. right. right. right. left. exact Hp.
  - right. right. right. right. right. right. exact Hp.
Qed.

(* ... and collect roots nothing else *)
Lemma collect_roots_sound : forall s p, frames_consistent s -> In p (collect_roots s) -> holds_ref s p.
Proof.
  intros s p Hcons H. unfold collect_roots in H. rewrite !in_app_iff in H.
  destruct H as [H|[H|[H|[H|[H|[H|H]]]]]].
  - apply in_flat_map in H. destruct H as (f & Hf & H). unfold frame_roots in H.
    apply in_app_or in H. destruct H as [H|[<-|[]]].
    + apply In_ptrs in H. apply In_window in H. destruct H as (k & Hlo & Hhi & Hn).
      rewrite (Hcons f Hf) in Hhi. exact (hr_live_variable s f k p Hf Hlo Hhi Hn).
    + exact (hr_running_function s f Hf).
  - apply In_running_closures in H. destruct H as (f & Hf & Hc). exact (hr_running_closure s f p Hf Hc).
  - exact (hr_global s p H).
  - apply In_ptrs in H. exact (hr_global_by_index s p H).
  - exact (hr_manual_buffer s p H).
  - exact (hr_open_upvalue s p H).
  - exact (hr_current_upvalue s p H).
Qed.

Lemma program_reachable_iff : forall s h i, frames_consistent s ->
  (program_reachable s h i <-> reachable_spec h (collect_roots s) i).
Proof.
  intros s h i Hcons. unfold program_reachable, reachable_spec. split.
  - intros (r & Hr & Hre). revert Hre. apply reach_mono.
    intros x [<-|[]]. exact (collect_roots_complete s r Hcons Hr).
  - intro H. induction H as [r o Hin Hg | i o j o' _ IH Hg Hj Hg'].
    + exists r. split; [exact (collect_roots_sound s r Hcons Hin)|].
      apply (reach_root edges_spec h [r] r o); [left; reflexivity|exact Hg].
    + destruct IH as (r & Hr & Hre). exists r. split; [exact Hr|].
      exact (reach_step edges_spec h [r] i o j o' Hre Hg Hj Hg').
Qed.

Lemma holds_ref_cache_irrelevant : forall s c p,
  holds_ref (mkVm (v_registers s) (v_frames s) (v_globals s) (v_globals_by_index s)
                  (v_open_upvalues s) (v_current_upvalues s) c (v_manual s)) p <-> holds_ref s p.
Proof.
  intros s c p. split; intro H.
  - destruct H as [f k p Hf Hlo Hhi Hn | f Hf | f c' Hf Hc | p Hp | p Hp | p Hp | p Hp | p Hp]; cbn in *.
    + exact (hr_live_variable s f k p Hf Hlo Hhi Hn).
    + exact (hr_running_function s f Hf).
    + exact (hr_running_closure s f c' Hf Hc).
    + exact (hr_global s p Hp).
    + exact (hr_global_by_index s p Hp).
    + exact (hr_manual_buffer s p Hp).
    + exact (hr_open_upvalue s p Hp).
    + exact (hr_current_upvalue s p Hp).
  - destruct H as [f k p Hf Hlo Hhi Hn | f Hf | f c' Hf Hc | p Hp | p Hp | p Hp | p Hp | p Hp].
    + apply (hr_live_variable _ f k p); cbn; assumption.
    + apply (hr_running_function _ f); cbn; assumption.
    + apply (hr_running_closure _ f c'); cbn; assumption.
    + apply hr_global; cbn; assumption.
    + apply hr_global_by_index; cbn; assumption.
    + apply hr_manual_buffer; cbn; assumption.
    + apply hr_open_upvalue; cbn; assumption.
    + apply hr_current_upvalue; cbn; assumption.
Qed.

(* the collection as the VM runs it: everything the program can reach survives unchanged, exactly
   the rest is freed, the snapshots are gone, every place still refers to what it referred to *)
Lemma vm_collect_safe_lemma : forall s h, frames_consistent s ->
  exists s' h', vm_collect s h = Some (s', h')
    /\ (forall i o, program_reachable s h i -> get h i = Some o -> get h' i = Some o)
    /\ (forall i, ~ program_reachable s h i -> get h' i = None)
    /\ v_globals_cache s' = []
    /\ (forall p, holds_ref s' p <-> holds_ref s p)
    /\ (forall p o, holds_ref s' p -> get h p = Some o -> get h' p = Some o).
Proof.
  intros s h Hcons. unfold vm_collect.
  destruct (collect_safe_lemma h (collect_roots s)) as (h' & Hc & Hk & Hf). rewrite Hc.
  eexists. eexists. split; [reflexivity|]. split; [|split; [|split; [reflexivity|split]]].
  - intros i o Hp Hg. apply Hk; [apply program_reachable_iff; assumption|exact Hg].
  - intros i Hn. apply Hf. intro Hr. apply Hn. apply program_reachable_iff; assumption.
  - intro p. apply holds_ref_cache_irrelevant.
  - intros p o Hp Hg. apply holds_ref_cache_irrelevant in Hp. apply Hk; [|exact Hg].
    apply (reach_root edges_spec h (collect_roots s) p o); [exact (collect_roots_complete s p Hcons Hp)|exact Hg].
Qed.

(* why the premise is there (the shape of seeded change C03_r3_2: a frame built from a stale
   call-site cache entry records 0 registers): the string in the callee's register 1 is a live
   variable of the program and is freed *)
Lemma frame_count_premise_needed_lemma :
  exists s h i o s' h',
    ~ frames_consistent s /\ program_reachable s h i /\ get h i = Some o
    /\ vm_collect s h = Some (s', h') /\ get h' i = None.
Proof.
  exists (mkVm [None; Some 1; None] [mkFrame 0 1 0 None 1; mkFrame 1 0 0 None 2] [] [] [] [] [] []),
         (mkHeap [Some (OFunction 7 (FnC [] [])); Some (OString 8)] []), 1, (OString 8).
  eexists. eexists. split; [|split; [|split; [reflexivity|split; [vm_compute; reflexivity|vm_compute; reflexivity]]]].
  - intro H. specialize (H (mkFrame 1 0 0 None 2)). cbn in H.
    assert (Hx : 0 = 2) by (apply H; right; left; reflexivity). discriminate.
  - exists 1. split.
    + apply (hr_live_variable _ (mkFrame 1 0 0 None 2) 1 1); cbn; [right; left; reflexivity|lia|lia|reflexivity].
    + apply (reach_root edges_spec _ [1] 1 (OString 8)); [left; reflexivity|reflexivity].
Qed.

(* HISTORICAL (root list before /repo 474d1a4): a string whose only reference is a slot of a live
   manual buffer (store(h, 0, mk(..)) of the commit's failing input) was freed; now it is a root *)
Lemma manual_buffer_roots_refuted_lemma :
  exists s h i o h',
    holds_ref s i /\ get h i = Some o
    /\ collect h (collect_roots_no_manual s) = Some h' /\ get h' i = None
    /\ exists s2 h2, vm_collect s h = Some (s2, h2) /\ get h2 i = Some o.
Proof.
  exists (mkVm [None] [mkFrame 0 1 0 None 1] [] [] [] [] [] [1]),
         (mkHeap [Some (OFunction 7 (FnC [] [])); Some (OString 8)] []), 1, (OString 8).
  eexists. split; [apply hr_manual_buffer; left; reflexivity|].
  split; [reflexivity|]. split; [vm_compute; reflexivity|]. split; [vm_compute; reflexivity|].
  eexists. eexists. split; vm_compute; reflexivity.
Qed.

(* the historical root list lacked exactly the running closures *)
Lemma collect_roots_old_incl : forall s, incl (collect_roots_old s) (collect_roots s).
Proof.
  intros s p H. unfold collect_roots_old in H. unfold collect_roots. rewrite !in_app_iff in *.
  destruct H as [H|[H|[H|[H|H]]]]; auto 12.
Qed.

(* the tables regenerated from the Rust source agree with the model's tables (by computation) *)
Lemma reference_fields_agree_lemma :
  fields_agree vm_reference_fields collect_uses collect_clears = true
  /\ frame_fields_agree frame_reference_fields collect_frame_uses = true
  /\ pair_list_eqb safepoint_sites analysed_safepoints = true
  /\ str_list_eqb object_kinds model_kinds = true /\ str_list_eqb mark_arms model_kinds = true
  /\ mark_has_wildcard_arm = false.
Proof. vm_compute. repeat split; reflexivity. Qed.

(* a collection is invisible to the program: the part of the heap it can reach is the same set of
   indices holding the same objects, before and after *)
Lemma vm_collect_invisible_lemma : forall s h s' h', frames_consistent s ->
  vm_collect s h = Some (s', h') ->
  (forall i, program_reachable s' h' i <-> program_reachable s h i)
  /\ (forall i, program_reachable s h i -> get h' i = get h i).
Proof.
  intros s h s' h' Hcons Hc. unfold vm_collect in Hc.
  destruct (collect h (collect_roots s)) as [h2|] eqn:Hc2; [|discriminate].
  injection Hc as <- <-.
  destruct (reach_after_collect edges_code h (collect_roots s) h2 Hc2) as [Hiff Hsame].
  assert (Hcs : forall hh i, reachable_spec hh (collect_roots s) i <-> reachable_code hh (collect_roots s) i)
    by (intros hh i; symmetry; apply reach_code_iff_spec).
  split.
  - intro i. rewrite (program_reachable_iff s h i Hcons).
    rewrite program_reachable_iff by (intros f Hf; exact (Hcons f Hf)). unfold collect_roots at 1. cbn [v_registers v_frames v_globals
      v_globals_by_index v_open_upvalues v_current_upvalues v_manual]. fold (collect_roots s).
    rewrite !Hcs. apply Hiff.
  - intros i Hp. apply Hsame. apply Hcs. apply program_reachable_iff; assumption.
Qed.
