(* C03 -- HISTORICAL defect witness for the root list (repaired in /repo af27ef7).
   VM state and heap dumped by hx_gc (VM::verif_vm_state / verif_heap_audit) from
   corpus/C03/running_closure_unrooted.aelys at the 6th collection under schedule 2:0 (string
   concatenation inside the running closure, after `install` has replaced the global `cur`):
   the second frame runs closure 145 (function 143), which no register, global or upvalue list
   refers to any more. *)
From Aelys Require Import Base.Tactics Model.Gc Model.GcRoots Proofs.GcProofs Proofs.GcRootsProofs.
Local Open Scope N_scope.

Definition kf3_vm : vm :=
  (mkVm [Some 142;None;Some 139;None;Some 136;Some 137;None] [mkFrame 0 4 140 None 4;
    mkFrame 3 4 143 (Some 145) 4] [0;1;2;3;4;5;6;7;8;9;10;11;12;13;14;15;16;17;18;19;20;21;22;23;24;25;26;
    27;28;29;30;31;32;33;34;35;36;37;38;39;40;41;41;42;42;43;43;44;44;45;45;46;46;47;47;48;48;49;49;50;
    50;51;51;52;52;53;53;54;54;55;55;56;56;57;57;58;58;59;59;60;60;61;61;62;62;63;63;64;64;65;65;66;66;
    67;67;68;68;69;69;70;70;71;71;72;72;73;73;74;74;75;75;76;76;77;77;78;78;79;79;80;80;81;81;82;82;83;
    83;84;84;85;85;86;86;87;87;88;88;89;89;90;90;91;91;92;92;93;93;94;94;95;95;96;96;97;97;98;98;99;99;
    100;100;101;101;102;102;103;103;104;104;105;105;106;106;107;107;108;108;109;109;110;110;111;111;112;
    112;113;113;114;114;115;115;116;116;117;117;118;118;119;119;120;120;121;121;122;122;123;123;124;124;
    125;125;126;126;127;127;128;128;129;129;130;130;131;131;132;132;133;133;142;148] [None;
    Some 142] [] [] [142] []).

Definition kf3_heap : heap :=
  (mkHeap [Some (ONative 13509283684940209860);Some (ONative 9737378903717397781);
    Some (ONative 18227936132624449326);Some (ONative 1571217195385983569);
    Some (ONative 15111669948014007959);Some (ONative 7172093502191187162);
    Some (ONative 5707762368932373454);Some (ONative 14444658372121932959);
    Some (ONative 15935136057443253240);Some (ONative 16540541937526127394);
    Some (ONative 7750279410611710774);Some (ONative 8683004970961900140);
    Some (ONative 15003463457328334222);Some (ONative 4241260212348001425);
    Some (ONative 8494033495312668158);Some (ONative 14286376179009998525);
    Some (ONative 440451226006879421);Some (ONative 13907172199907811036);
    Some (ONative 14159924753772295211);Some (ONative 1844413041503193919);
    Some (ONative 14653347351833427285);Some (ONative 6900869069187923627);
    Some (ONative 537274665043383645);Some (ONative 2477762378926892602);
    Some (ONative 4070211616078770282);Some (ONative 2968301158811668066);
    Some (ONative 11879303996395703915);Some (ONative 1455837606744533145);
    Some (ONative 17014502053799828322);Some (ONative 11805585211167207987);
    Some (ONative 16309465883241036066);Some (ONative 3612878237593800329);
    Some (ONative 5285404073112211684);Some (ONative 8177314703795498009);
    Some (ONative 4069990533419035945);Some (ONative 18084454591975203711);
    Some (ONative 8434510916050849967);Some (ONative 10124950143411902177);
    Some (ONative 18060094446530547545);Some (ONative 11153035705702325802);
    Some (ONative 12880338467667642737);Some (ONative 16867903496272291335);
    Some (ONative 650359110692971873);Some (ONative 11242046420028896078);
    Some (ONative 1898735433878562304);Some (ONative 16408265130981122193);
    Some (ONative 16122496376309691466);Some (ONative 4858290098513345803);
    Some (ONative 5287688868451168918);Some (ONative 14150182697807684123);
    Some (ONative 770122110431278962);Some (ONative 16436076439679977445);
    Some (ONative 11926623263209764641);Some (ONative 4548979483739247488);
    Some (ONative 14050048217734802941);Some (ONative 12485526717373201007);
    Some (ONative 14963994371756023528);Some (ONative 8673008826229419879);
    Some (ONative 8435272594012011376);Some (ONative 6493910711256916401);
    Some (ONative 16788934744560591262);Some (ONative 32242829014114085);
    Some (ONative 2022915764622933041);Some (ONative 15805975610970741227);
    Some (ONative 1639684712300691716);Some (ONative 5727042970037452596);
    Some (ONative 9773058100582791821);Some (ONative 11967909615200991304);
    Some (ONative 12893591041362771601);Some (ONative 10981881428833893349);
    Some (ONative 12966964614216182821);Some (ONative 16193708830665351258);
    Some (ONative 11333705427263018429);Some (ONative 14430815062342466658);
    Some (ONative 17275109200030690675);Some (ONative 11374962044924723590);
    Some (ONative 3685103836695140581);Some (ONative 17120783918100392964);
    Some (ONative 11433861311908385282);Some (ONative 15257853981584999633);
    Some (ONative 10297051030454105119);Some (ONative 3850324302019194223);
    Some (ONative 4456105295564856102);Some (ONative 5299957630653298824);
    Some (ONative 4552645721187271663);Some (ONative 2180010065546982465);
    Some (ONative 4437813561292266824);Some (ONative 18217991794944218898);
    Some (ONative 15766850021109240334);Some (ONative 13019531371514506841);
    Some (ONative 14938125364361484372);Some (ONative 2892262359741914990);
    Some (ONative 11524014635779839061);Some (ONative 18413465085330473575);
    Some (ONative 10389822189304710754);Some (ONative 7469045728485816794);
    Some (ONative 253740924577865946);Some (ONative 7649041775320083832);
    Some (ONative 10755188043551112974);Some (ONative 6623282722014554802);
    Some (ONative 634196065943978199);Some (ONative 18005967379178435729);
    Some (ONative 16286808181176436002);Some (ONative 16169782611259951818);
    Some (ONative 3218074969925990807);Some (ONative 1983623816669398257);
    Some (ONative 11711487266903722880);Some (ONative 12532263991281620047);
    Some (ONative 147879816944262968);Some (ONative 11757426426696337019);
    Some (ONative 1067237907239375316);Some (ONative 1102694636469192488);
    Some (ONative 8312186751505067651);Some (ONative 13244288051098818971);
    Some (ONative 10121548583965841906);Some (ONative 3034396917394148643);
    Some (ONative 9402727119005581803);Some (ONative 11187843300909715136);
    Some (ONative 14777062668391334712);Some (ONative 3735113246723042650);
    Some (ONative 14229617097773535958);Some (ONative 14145134326024332099);
    Some (ONative 12478871320286301899);Some (ONative 16885475779295708650);
    Some (ONative 203168423046267774);Some (ONative 4937776211246381506);
    Some (ONative 7161620141473905864);Some (ONative 12064250792166765908);
    Some (ONative 3920919051825455090);Some (ONative 1168602006760644371);
    Some (ONative 10255543572155121126);Some (ONative 9876707088587155231);
    Some (ONative 12292383738046546460);Some (ONative 8140110927687362415);
    Some (OString 11132020437646885496);Some (OString 12638127826927718602);
    Some (OString 12638214688346347271);Some (OString 12638213588834719060);
    Some (OString 7904748769049806884);Some (OString 12638187200555641996);
    Some (OFunction 3675429961663064931 (FnC [139] [(FnC [134] []);(FnC [] [(FnC [135;136;137;
    138] [])])]));Some (OString 620367583241379781);
    Some (OFunction 5579227584846932330 (FnC [] [(FnC [135;136;137;138] [])]));
    Some (OFunction 14583630375626802810 (FnC [135;136;137;138] []));
    Some (OUpvalue 11429216439840675511 (Some 139));Some (OClosure 318168662622375866 143 [144]);
    Some (OFunction 14583630375626802810 (FnC [135;136;137;138] []));
    Some (OUpvalue 16634983750919487709 (Some 141));Some (OClosure 14630015557775108228 146 [147])] []).

Definition kf3_closure : obj := match get kf3_heap 145 with Some o => o | None => ONative 0 end.
Lemma kf3_get : get kf3_heap 145 = Some kf3_closure.
Proof. vm_compute. reflexivity. Qed.

Lemma kf3_program_reachable : program_reachable kf3_vm kf3_heap 145.
Proof.
  exists 145. split.
  - apply (hr_running_closure kf3_vm (mkFrame 3 4 143 (Some 145) 4) 145); [|reflexivity].
    cbn. right. left. reflexivity.
  - apply (reach_root edges_spec kf3_heap [145] 145 kf3_closure); [left; reflexivity|exact kf3_get].
Qed.

(* the root list before the repair freed the running closure ... *)
Lemma old_roots_running_closure_refuted_lemma :
  exists s h i o h',
    program_reachable s h i /\ get h i = Some o
    /\ collect h (collect_roots_old s) = Some h' /\ get h' i = None.
Proof.
  exists kf3_vm, kf3_heap, 145, kf3_closure. eexists.
  split; [exact kf3_program_reachable|]. split; [exact kf3_get|].
  split; [vm_compute; reflexivity|vm_compute; reflexivity].
Qed.

(* ... the root list as it is keeps it *)
Lemma kf3_now_survives :
  exists s' h', vm_collect kf3_vm kf3_heap = Some (s', h') /\ get h' 145 = Some kf3_closure.
Proof. eexists. eexists. split; [vm_compute; reflexivity|vm_compute; reflexivity]. Qed.
