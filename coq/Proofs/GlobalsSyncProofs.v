(* C14 -- proofs about the two-view globals model (Model/GlobalsSync.v). *)
From Aelys Require Import Base.Tactics Extracted.ReplShape Model.GlobalsSync.
Local Open Scope N_scope.

(* ------------------------------------------------------------------ basic facts *)
Lemma gnth_set_at_same : forall i x l, gnth (set_at i x l) i = x.
Proof. unfold gnth. induction i as [|i IH]; intros x [|h t]; cbn; auto; apply IH. Qed.

Lemma gnth_set_at_other : forall i j x l, i <> j -> gnth (set_at i x l) j = gnth l j.
Proof.
  unfold gnth. induction i as [|i IH]; intros [|j] x [|h t] H; cbn; try congruence; auto.
  - destruct j; reflexivity.
  - rewrite IH by congruence. destruct j; reflexivity.
Qed.

Lemma gnth_load_vec m names i :
  gnth (load_vec m names) i =
  match nth_error names i with Some (Some n) => glookup m n | _ => None end.
Proof.
  unfold gnth, load_vec. rewrite nth_error_map. destruct (nth_error names i) as [[n|]|]; reflexivity.
Qed.

Lemma gnth_app_l (a b : list val) i : (i < length a)%nat -> gnth (a ++ b) i = gnth a i.
Proof. intro H. unfold gnth. now rewrite nth_error_app1. Qed.

Lemma length_load_vec m names : length (load_vec m names) = length names.
Proof. unfold load_vec. apply map_length. Qed.

(* names: every name occupies at most one slot of a layout *)
Fixpoint name_in (n : N) (names : list (option N)) : bool :=
  match names with
  | [] => false
  | Some m :: r => (n =? m) || name_in n r
  | None :: r => name_in n r
  end.
Fixpoint nodupb (names : list (option N)) : bool :=
  match names with
  | [] => true
  | Some n :: r => negb (name_in n r) && nodupb r
  | None :: r => nodupb r
  end.

Lemma name_in_nth names n i : nth_error names i = Some (Some n) -> name_in n names = true.
Proof.
  revert i. induction names as [|[m|] r IH]; intros [|i] H; cbn in *; try discriminate.
  - inversion H; subst. now rewrite N.eqb_refl.
  - rewrite (IH i H). apply orb_true_r.
  - eauto.
Qed.

(* sync_from: names it does not mention keep their value *)
Lemma sync_from_other : forall names g m n, name_in n names = false ->
  glookup (sync_from names g m) n = glookup m n.
Proof.
  induction names as [|[k|] r IH]; intros g m n H; cbn in *; auto.
  - apply orb_false_iff in H as [H1 H2]. destruct g as [|v g']; auto.
    rewrite IH by exact H2. unfold glookup. cbn. now rewrite H1.
  - destruct g as [|v g']; auto.
Qed.

(* ... and a name at slot i (inside the vector) gets the vector's value *)
Lemma sync_from_at : forall names g m n i, nodupb names = true ->
  nth_error names i = Some (Some n) -> (i < length g)%nat ->
  glookup (sync_from names g m) n = gnth g i.
Proof.
  induction names as [|[k|] r IH]; intros g m n i ND Hn Hi; [destruct i; discriminate| |].
  - cbn in ND. apply andb_true_iff in ND as [ND1 ND2]. apply negb_true_iff in ND1.
    destruct g as [|v g']; [cbn in Hi; lia|]. destruct i as [|i].
    + cbn in Hn. inversion Hn; subst k. cbn [sync_from].
      rewrite sync_from_other by exact ND1. unfold glookup, gnth. cbn. now rewrite N.eqb_refl.
    + cbn [sync_from]. cbn in Hn, Hi. rewrite (IH g' _ n i ND2 Hn) by lia. reflexivity.
  - cbn in ND. destruct g as [|v g']; [cbn in Hi; lia|]. destruct i as [|i]; [discriminate|].
    cbn [sync_from]. cbn in Hn, Hi. rewrite (IH g' _ n i ND Hn) by lia. reflexivity.
Qed.

(* a name at a slot beyond the vector is not written *)
Lemma sync_from_beyond : forall names g m n i, nodupb names = true ->
  nth_error names i = Some (Some n) -> (length g <= i)%nat ->
  glookup (sync_from names g m) n = glookup m n.
Proof.
  induction names as [|[k|] r IH]; intros g m n i ND Hn Hi; [destruct i; discriminate| |].
  - cbn in ND. apply andb_true_iff in ND as [ND1 ND2]. apply negb_true_iff in ND1.
    destruct g as [|v g']; [reflexivity|]. destruct i as [|i]; [cbn in Hi; lia|].
    cbn [sync_from]. cbn in Hn, Hi. rewrite (IH g' _ n i ND2 Hn) by lia.
    unfold glookup. cbn. destruct (n =? k) eqn:E; [|reflexivity].
    apply N.eqb_eq in E. subst k. apply name_in_nth in Hn. congruence.
  - cbn in ND. destruct g as [|v g']; [reflexivity|]. destruct i as [|i]; [discriminate|].
    cbn [sync_from]. cbn in Hn, Hi. now rewrite (IH g' _ n i ND Hn) by lia.
Qed.

(* ------------------------------------------------------------------ coherence of the two views *)
(* the by-index view (over the slots it has) agrees with the by-name map on the layout's names *)
Definition coherent (st : gstate) (names : list (option N)) : Prop :=
  forall i n, nth_error names i = Some (Some n) -> (i < length (gidx st))%nat ->
    gnth (gidx st) i = glookup (gmap st) n.

Lemma sync_coherent st names : nodupb names = true -> coherent (sync_names st names) names.
Proof.
  intros ND i n Hn Hi. unfold sync_names, with_gmap in *. cbn [gidx gmap] in *.
  symmetry. now apply sync_from_at.
Qed.

Lemma execute_coherent st L : coherent (execute st L) (l_names L).
Proof.
  intros i n Hn Hi. unfold execute in *. cbn [gidx gmap register] in *.
  destruct (l_names L) as [|a r] eqn:E; [destruct i; discriminate|].
  assert (Hlt : (i < length (a :: r))%nat) by (apply nth_error_Some; congruence).
  rewrite gnth_app_l by (rewrite length_load_vec; exact Hlt).
  rewrite gnth_load_vec, Hn. reflexivity.
Qed.

Lemma run_ops_single st o obs fl :
  run_ops st [o] obs fl false =
  let '(st', ob, f, bad) := step_op st o in mkRes st' (obs ++ ob) (fl ++ f) bad.
Proof. cbn. destruct (step_op st o) as [[[st' ob] f] bad]. destruct o; reflexivity. Qed.

(* after an accepted input that ran to completion the two views agree on every name of the unit *)
Lemma views_coherent_after_success_lemma : forall st L muts body,
  nodupb (l_names L) = true ->
  let x := repl_input st true L muts body in
  r_failed x = false -> coherent (r_st x) (l_names L).
Proof.
  intros st L muts body ND x Hx. subst x. unfold repl_input in *.
  set (y := run_ops st ([OClearFrames; OMutability muts; OExecute L] ++ body ++ [OReturn]) [] [] false) in *.
  destruct (r_failed y) eqn:Fy.
  - congruence.
  - cbn [run_ops step_op r_st]. apply sync_coherent. exact ND.
Qed.

(* an input rejected at compile time: only the frame stack is cleared *)
Lemma rejected_input_lemma : forall st L muts body,
  let x := repl_input st false L muts body in
  gmap (r_st x) = gmap st /\ gidx (r_st x) = gidx st /\ cur (r_st x) = cur st /\
  snap (r_st x) = snap st /\ ltab (r_st x) = ltab st /\ gmut (r_st x) = gmut st /\
  frames (r_st x) = [] /\ r_obs x = [] /\ r_failed x = false.
Proof. intros. cbn. repeat split. Qed.

(* ------------------------------------------------------------------ invariant *)
Definition clean (st : gstate) : Prop :=
  forall i n, nth_error (names_of st (cur st)) i = Some (Some n) -> gnth (gidx st) i = glookup (gmap st) n.

(* every snapshot is what a by-name load would produce now; snapshots only exist while the
   by-index view has no unsynchronised writes *)
Definition snap_ok (st : gstate) : Prop :=
  (forall id vec, lookup id (snap st) = Some vec -> vec = load_vec (gmap st) (names_of st id)) /\
  (snap st <> [] -> clean st).

(* a name that is bound by name has a non-null slot in the current by-index view *)
Definition bound_visible (st : gstate) : Prop :=
  forall i n, nth_error (names_of st (cur st)) i = Some (Some n) ->
    glookup (gmap st) n <> None -> gnth (gidx st) i <> None.

Definition ginv (st : gstate) : Prop := snap_ok st /\ bound_visible st.

(* entry conditions of the operations (what the interpreter relies on) *)
Definition reg_ok (st : gstate) (L : layout) : Prop :=
  match lookup (l_id L) (ltab st) with
  | Some ns => ns = l_names L
  | None => lookup (l_id L) (snap st) = None /\ (l_id L <> cur st \/ l_names L = [])
  end.
(* the layout that is loaded has pairwise distinct names *)
Definition top_is_current (st : gstate) : Prop := nodupb (names_of st (cur st)) = true.

Definition op_ok (st : gstate) (o : op) : Prop :=
  match o with
  | OExecute L => reg_ok st L
  | OCall L => reg_ok st L /\ top_is_current st
  | OHostCall L _ => reg_ok st L
  | OReturn => top_is_current st
  | OSyncNames L => l_id L = cur st /\ names_of st (cur st) = l_names L /\ nodupb (l_names L) = true
  | _ => True
  end.

Definition next (st : gstate) (o : op) : gstate := fst (fst (fst (step_op st o))).

Fixpoint ops_ok (st : gstate) (ops : list op) : Prop :=
  match ops with
  | [] => True
  | o :: r => op_ok st o /\ ops_ok (next st o) r
  end.

Fixpoint final (st : gstate) (ops : list op) : gstate :=
  match ops with [] => st | o :: r => final (next st o) r end.

Definition bound (st : gstate) (n : N) : Prop := glookup (gmap st) n <> None.

(* ---- building blocks ---- *)
Lemma names_of_register st L id :
  reg_ok st L ->
  names_of (register st L) id = if id =? l_id L then (match lookup (l_id L) (ltab st) with Some ns => ns | None => l_names L end) else names_of st id.
Proof.
  intro R. unfold names_of, register, reg_ok in *. cbn [ltab].
  destruct (lookup (l_id L) (ltab st)) as [ns|] eqn:E.
  - destruct (id =? l_id L) eqn:Ei; [apply N.eqb_eq in Ei; subst; now rewrite E|reflexivity].
  - cbn [lookup]. destruct (id =? l_id L) eqn:Ei; [reflexivity|reflexivity].
Qed.

Lemma names_of_register_self st L : reg_ok st L -> names_of (register st L) (l_id L) = l_names L.
Proof.
  intro R. rewrite names_of_register by exact R. rewrite N.eqb_refl.
  unfold reg_ok in R. destruct (lookup (l_id L) (ltab st)); [exact R|reflexivity].
Qed.

Lemma names_of_register_snap st L id vec :
  reg_ok st L -> lookup id (snap st) = Some vec -> names_of (register st L) id = names_of st id.
Proof.
  intros R Hs. rewrite names_of_register by exact R.
  destruct (id =? l_id L) eqn:E; [|reflexivity]. apply N.eqb_eq in E. subst id.
  unfold reg_ok, names_of in *. destruct (lookup (l_id L) (ltab st)); [reflexivity|destruct R; congruence].
Qed.

Lemma names_of_register_cur st L : reg_ok st L -> names_of (register st L) (cur st) = names_of st (cur st).
Proof.
  intro R. rewrite names_of_register by exact R. destruct (cur st =? l_id L) eqn:E; [|reflexivity].
  apply N.eqb_eq in E. unfold names_of, reg_ok in *.
  destruct (lookup (l_id L) (ltab st)) as [ns|] eqn:El; [now rewrite E, El|].
  destruct R as [_ [R|R]]; [congruence|]. rewrite E, El. now rewrite R.
Qed.

Lemma ginv_register st L : reg_ok st L -> ginv st -> ginv (register st L).
Proof.
  intros R [[S1 S2] B].
  pose proof (names_of_register_cur st L R) as Hcur.
  split; [split|].
  - intros id vec Hs. cbn [snap register gmap] in *. rewrite (names_of_register_snap st L id vec R Hs). now apply S1.
  - intros Hne i n Hn. cbn [snap register] in Hne. specialize (S2 Hne).
    change (cur (register st L)) with (cur st) in Hn. rewrite Hcur in Hn. exact (S2 i n Hn).
  - intros i n Hn Hb. change (cur (register st L)) with (cur st) in Hn. rewrite Hcur in Hn. exact (B i n Hn Hb).
Qed.

(* sync with the current layout *)
Lemma ginv_sync st names :
  names_of st (cur st) = names -> nodupb names = true -> ginv st ->
  ginv (sync_names st names) /\ (forall n, bound st n -> bound (sync_names st names) n).
Proof.
  intros En ND [[S1 S2] B].
  assert (Look : forall n, glookup (gmap (sync_names st names)) n =
                 if name_in n names
                 then match (fix find (ns : list (option N)) (i : nat) : option nat :=
                               match ns with [] => None | Some m :: r => if n =? m then Some i else find r (S i) | None :: r => find r (S i) end) names 0%nat
                      with _ => glookup (gmap (sync_names st names)) n end
                 else glookup (gmap st) n).
  { intro n. destruct (name_in n names) eqn:E; [reflexivity|]. unfold sync_names, with_gmap. cbn [gmap]. now apply sync_from_other. }
  (* value of a name of the layout after the sync *)
  assert (At : forall i n, nth_error names i = Some (Some n) ->
               glookup (gmap (sync_names st names)) n = if (i <? length (gidx st))%nat then gnth (gidx st) i else glookup (gmap st) n).
  { intros i n Hn. unfold sync_names, with_gmap. cbn [gmap].
    destruct (i <? length (gidx st))%nat eqn:E.
    - apply Nat.ltb_lt in E. now apply sync_from_at.
    - apply Nat.ltb_ge in E. now apply (sync_from_beyond names (gidx st) (gmap st) n i). }
  assert (Bd : forall n, bound st n -> bound (sync_names st names) n).
  { intros n Hb. unfold bound in *. destruct (name_in n names) eqn:E.
    - assert (exists i, nth_error names i = Some (Some n)) as [i Hi].
      { clear -E. induction names as [|[m|] r IH]; cbn in E; [discriminate| |].
        - destruct (n =? m) eqn:Em; [apply N.eqb_eq in Em; subst; exists 0%nat; reflexivity|].
          cbn in E. destruct (IH E) as [i Hi]. exists (S i). exact Hi.
        - destruct (IH E) as [i Hi]. exists (S i). exact Hi. }
      rewrite (At i n Hi). destruct (i <? length (gidx st))%nat; [|exact Hb].
      apply (B i n); [rewrite En; exact Hi|exact Hb].
    - rewrite Look, E. exact Hb. }
  (* when the view is clean the sync rewrites the same values *)
  assert (Same : snap st <> [] -> forall n, glookup (gmap (sync_names st names)) n = glookup (gmap st) n).
  { intros Hne n. specialize (S2 Hne). destruct (name_in n names) eqn:E; [|rewrite Look, E; reflexivity].
    assert (exists i, nth_error names i = Some (Some n)) as [i Hi].
    { clear -E. induction names as [|[m|] r IH]; cbn in E; [discriminate| |].
      - destruct (n =? m) eqn:Em; [apply N.eqb_eq in Em; subst; exists 0%nat; reflexivity|].
        cbn in E. destruct (IH E) as [i Hi]. exists (S i). exact Hi.
      - destruct (IH E) as [i Hi]. exists (S i). exact Hi. }
    rewrite (At i n Hi). destruct (i <? length (gidx st))%nat; [|reflexivity].
    apply S2. rewrite En. exact Hi. }
  split; [|exact Bd]. split; [split|].
  - intros id vec Hs. cbn [snap sync_names with_gmap] in Hs.
    assert (Hne : snap st <> []) by (intro E; rewrite E in Hs; discriminate).
    rewrite (S1 id vec Hs). unfold load_vec. apply map_ext. intros [n|]; [|reflexivity].
    symmetry. apply Same. exact Hne.
  - intros Hne i n Hn. cbn [snap sync_names with_gmap] in Hne.
    change (names_of (sync_names st names) (cur (sync_names st names))) with (names_of st (cur st)) in Hn.
    change (gidx (sync_names st names)) with (gidx st).
    rewrite (Same Hne n). now apply (S2 Hne).
  - intros i n Hn Hb.
    change (names_of (sync_names st names) (cur (sync_names st names))) with (names_of st (cur st)) in Hn.
    change (gidx (sync_names st names)) with (gidx st).
    rewrite En in Hn. rewrite (At i n Hn) in Hb.
    destruct (i <? length (gidx st))%nat eqn:E; [exact Hb|].
    apply (B i n); [rewrite En; exact Hn|exact Hb].
Qed.

Lemma ginv_prepare st id : ginv st -> ginv (prepare st id) /\ gmap (prepare st id) = gmap st.
Proof.
  intros [[S1 S2] B]. unfold prepare.
  destruct (id =? cur st) eqn:Ec; [split; [split; [split|]; auto|reflexivity]|].
  destruct (names_of st id) as [|a r] eqn:En.
  - split; [|reflexivity]. split; [split|].
    + intros i vec Hs. cbn [snap gmap] in *. cbn [lookup] in Hs.
      change (names_of (mkG (gmap st) [] id ((id, []) :: snap st) (frames st) (ltab st) (gmut st)) i) with (names_of st i).
      destruct (i =? id) eqn:E; [apply N.eqb_eq in E; subst i; inversion Hs; now rewrite En|now apply S1].
    + intros _ i n Hn. cbn [cur] in Hn.
      change (names_of (mkG (gmap st) [] id ((id, []) :: snap st) (frames st) (ltab st) (gmut st)) id) with (names_of st id) in Hn.
      rewrite En in Hn. destruct i; discriminate.
    + intros i n Hn. cbn [cur] in Hn.
      change (names_of (mkG (gmap st) [] id ((id, []) :: snap st) (frames st) (ltab st) (gmut st)) id) with (names_of st id) in Hn.
      rewrite En in Hn. destruct i; discriminate.
  - destruct (lookup id (snap st)) as [vec|] eqn:Es.
    + pose proof (S1 id vec Es) as Hv. split; [|reflexivity]. split; [split|].
      * intros i v Hs. cbn [snap gmap] in *. now apply S1.
      * intros _ i n Hn. cbn [cur gidx gmap] in *.
        change (names_of (mkG (gmap st) vec id (snap st) (frames st) (ltab st) (gmut st)) id) with (names_of st id) in Hn.
        rewrite Hv, gnth_load_vec, Hn. reflexivity.
      * intros i n Hn Hb. cbn [cur gidx gmap] in *.
        change (names_of (mkG (gmap st) vec id (snap st) (frames st) (ltab st) (gmut st)) id) with (names_of st id) in Hn.
        rewrite Hv, gnth_load_vec, Hn. exact Hb.
    + rewrite <- En. set (vec := load_vec (gmap st) (names_of st id)). split; [|reflexivity]. split; [split|].
      * intros i v Hs. cbn [snap gmap] in *. cbn [lookup] in Hs.
        change (names_of (mkG (gmap st) vec id ((id, vec) :: snap st) (frames st) (ltab st) (gmut st)) i) with (names_of st i).
        destruct (i =? id) eqn:E; [apply N.eqb_eq in E; subst i; inversion Hs; reflexivity|now apply S1].
      * intros _ i n Hn. cbn [cur gidx gmap] in *.
        change (names_of (mkG (gmap st) vec id ((id, vec) :: snap st) (frames st) (ltab st) (gmut st)) id) with (names_of st id) in Hn.
        unfold vec. rewrite gnth_load_vec, Hn. reflexivity.
      * intros i n Hn Hb. cbn [cur gidx gmap] in *.
        change (names_of (mkG (gmap st) vec id ((id, vec) :: snap st) (frames st) (ltab st) (gmut st)) id) with (names_of st id) in Hn.
        unfold vec. rewrite gnth_load_vec, Hn. exact Hb.
Qed.

Lemma ginv_with_frames st f : ginv st -> ginv (with_frames st f).
Proof. intros [[S1 S2] B]. split; [split|]; auto. Qed.

Lemma ginv_sync_current st : top_is_current st -> ginv st ->
  ginv (sync_loaded st) /\ (forall n, bound st n -> bound (sync_loaded st) n).
Proof. intros T I. unfold sync_loaded, top_is_current in *. apply ginv_sync; auto. Qed.

(* ------------------------------------------------------------------ one operation *)
Lemma ginv_ext st st' :
  gmap st' = gmap st -> gidx st' = gidx st -> cur st' = cur st -> snap st' = snap st -> ltab st' = ltab st ->
  ginv st -> ginv st'.
Proof.
  intros E1 E2 E3 E4 E5 [[S1 S2] B].
  assert (N : forall id, names_of st' id = names_of st id) by (intro id; unfold names_of; now rewrite E5).
  split; [split|].
  - intros id vec Hs. rewrite E4 in Hs. rewrite E1, N. now apply S1.
  - intros Hne i n Hn. rewrite E4 in Hne. rewrite N, E3 in Hn. rewrite E2, E1. exact (S2 Hne i n Hn).
  - intros i n Hn Hb. rewrite N, E3 in Hn. rewrite E1 in Hb. rewrite E2. exact (B i n Hn Hb).
Qed.

Lemma top_is_current_register st L : reg_ok st L -> top_is_current st -> top_is_current (register st L).
Proof.
  intros R T. unfold top_is_current in *. change (cur (register st L)) with (cur st).
  now rewrite names_of_register_cur.
Qed.

Lemma ginv_clear_snap st g : ginv st ->
  (forall i n, nth_error (names_of st (cur st)) i = Some (Some n) -> glookup (gmap st) n <> None -> gnth g i <> None) ->
  ginv (mkG (gmap st) g (cur st) [] (frames st) (ltab st) (gmut st)).
Proof.
  intros _ H. split; [split|].
  - intros id vec Hs. cbn in Hs. discriminate.
  - intros Hne. cbn in Hne. congruence.
  - exact H.
Qed.

Lemma step_preserves st o : ginv st -> op_ok st o ->
  ginv (next st o) /\ (forall n, bound st n -> bound (next st o) n).
Proof.
  intros I G. unfold next.
  destruct o as [|L|i v|i k|i k|v|L| |L|ns|L c| |n| |]; cbn [step_op fst].
  - (* OClearFrames *) destruct REPL_CLEARS_FRAMES_FIRST; cbn [fst]; (split; [try exact I; now apply ginv_with_frames|auto]).
  - (* OExecute *)
    cbn [op_ok] in G. pose proof (ginv_register st L G I) as [[S1 S2] B].
    pose proof (names_of_register_self st L G) as Hn.
    split; [|auto]. unfold execute. split; [split|].
    + intros id vec Hs. cbn [snap gmap] in *. now apply S1.
    + intros _ i n Hi. cbn [cur gidx gmap] in *.
      change (names_of _ (l_id L)) with (names_of (register st L) (l_id L)) in Hi. rewrite Hn in Hi.
      destruct (l_names L) as [|a r] eqn:E; [destruct i; discriminate|].
      assert (Hlt : (i < length (a :: r))%nat) by (apply nth_error_Some; congruence).
      rewrite gnth_app_l by (rewrite length_load_vec; exact Hlt). rewrite gnth_load_vec, Hi. reflexivity.
    + intros i n Hi Hb. cbn [cur gidx gmap] in *.
      change (names_of _ (l_id L)) with (names_of (register st L) (l_id L)) in Hi. rewrite Hn in Hi.
      destruct (l_names L) as [|a r] eqn:E; [destruct i; discriminate|].
      assert (Hlt : (i < length (a :: r))%nat) by (apply nth_error_Some; congruence).
      rewrite gnth_app_l by (rewrite length_load_vec; exact Hlt). rewrite gnth_load_vec, Hi. exact Hb.
  - (* OSetIdx *)
    split; [|auto]. unfold set_idx. apply ginv_clear_snap; [exact I|].
    intros j n Hj Hb. destruct (Nat.eq_dec (N.to_nat i) j) as [E|E].
    + subst j. rewrite gnth_set_at_same. discriminate.
    + rewrite gnth_set_at_other by exact E. destruct I as [_ B]. now apply (B j n).
  - (* OAddIdx *)
    destruct (gnth (gidx st) (N.to_nat i)) as [z|] eqn:Ez; cbn [fst];
      [|destruct RUN_FAST_UNWINDS_ON_ERROR; (split; [try exact I; now apply ginv_with_frames|auto])].
    split; [|auto]. unfold set_idx. apply ginv_clear_snap; [exact I|].
    intros j n Hj Hb. destruct (Nat.eq_dec (N.to_nat i) j) as [E|E].
    + subst j. rewrite gnth_set_at_same. discriminate.
    + rewrite gnth_set_at_other by exact E. destruct I as [_ B]. now apply (B j n).
  - (* OPrintIdx *) destruct (gnth (gidx st) (N.to_nat i)); cbn; auto.
  - (* OPrintConst *) auto.
  - (* OCall *)
    cbn [op_ok] in G. destruct G as [R T].
    pose proof (ginv_register st L R I) as I1. pose proof (top_is_current_register st L R T) as T1.
    unfold call_enter. set (st1 := register st L) in *.
    destruct (negb (l_id L =? 0) && negb (l_id L =? cur st1)).
    + destruct (ginv_sync_current st1 T1 I1) as [I2 B2].
      destruct (ginv_prepare (sync_loaded st1) (l_id L) I2) as [I3 E3].
      split; [now apply ginv_with_frames|].
      intros n Hb. unfold bound in *. cbn [gmap with_frames]. rewrite E3. apply B2. exact Hb.
    + split; [now apply ginv_with_frames|auto].
  - (* OReturn *)
    cbn [op_ok] in G. unfold do_return. destruct (frames st) as [|f rest] eqn:Ef; cbn [fst]; [auto|].
    set (cg := match rest with c :: _ => f_gmap c | [] => 0 end).
    set (needs := negb (cg =? 0) && negb (cg =? cur st)).
    set (bsync := needs || RETURN_SYNCS_WHEN_LEAVING && match rest with [] => true | _ :: _ => false end).
    assert (H1 : ginv (if bsync then sync_loaded st else st) /\
                 (forall n, bound st n -> bound (if bsync then sync_loaded st else st) n)).
    { destruct bsync; [apply ginv_sync_current; auto|auto]. }
    destruct H1 as [I2 B2]. set (st1 := if bsync then sync_loaded st else st) in *.
    destruct rest as [|c rest']; cbn [fst].
    + split; [now apply ginv_with_frames|]. intros n Hb. now apply B2.
    + destruct needs.
      * destruct (ginv_prepare (with_frames st1 (c :: rest')) (f_fn c) (ginv_with_frames _ _ I2)) as [I3 E3].
        split; [exact I3|]. intros n Hb. unfold bound in *. rewrite E3. cbn [gmap with_frames]. now apply B2.
      * split; [now apply ginv_with_frames|]. intros n Hb. now apply B2.
  - (* OSyncNames *)
    cbn [op_ok] in G. destruct G as (_ & En & ND). apply ginv_sync; auto.
  - (* OMutability *) split; [|auto]. eapply ginv_ext; eauto.
  - (* OHostCall *)
    cbn [op_ok] in G. unfold host_enter.
    set (st0 := if HOST_CALL_CLEARS_FRAMES then with_frames st [] else st).
    assert (I0 : ginv st0) by (unfold st0; destruct HOST_CALL_CLEARS_FRAMES; [now apply ginv_with_frames|exact I]).
    assert (G0 : reg_ok st0 L) by (unfold st0; destruct HOST_CALL_CLEARS_FRAMES; exact G).
    assert (E0 : gmap st0 = gmap st) by (unfold st0; destruct HOST_CALL_CLEARS_FRAMES; reflexivity).
    pose proof (ginv_register st0 L G0 I0) as I1.
    destruct (ginv_prepare (register st0 L) (l_id L) I1) as [I3 E3].
    split; [now apply ginv_with_frames|]. intros n Hb. unfold bound in *. cbn [gmap with_frames]. rewrite E3.
    change (gmap (register st0 L)) with (gmap st0). rewrite E0. exact Hb.
  - (* OFail *) destruct RUN_FAST_UNWINDS_ON_ERROR; (split; [try exact I; now apply ginv_with_frames|auto]).
  - (* OReadMap *) auto.
  - (* OFrames *) auto.
  - (* OCollect *)
    split; [|auto]. apply ginv_clear_snap; [exact I|]. destruct I as [_ B]. exact B.
Qed.

Theorem ops_preserve : forall ops st, ginv st -> ops_ok st ops ->
  ginv (final st ops) /\ (forall n, bound st n -> bound (final st ops) n).
Proof.
  induction ops as [|o r IH]; intros st I G; [auto|].
  cbn [ops_ok final] in *. destruct G as [G1 G2].
  destruct (step_preserves st o I G1) as [I1 B1].
  destruct (IH _ I1 G2) as [I2 B2]. split; [exact I2|]. intros n Hb. apply B2, B1, Hb.
Qed.

Lemma ginit_inv : ginv ginit.
Proof.
  split; [split|].
  - intros id vec H. discriminate.
  - intro H. exfalso. now apply H.
  - intros i n H. destruct i; discriminate.
Qed.

(* ---- exported statements ---- *)
Lemma snapshot_cache_never_stale_lemma : forall ops st, ginv st -> ops_ok st ops ->
  forall id vec, lookup id (snap (final st ops)) = Some vec ->
    vec = load_vec (gmap (final st ops)) (names_of (final st ops) id).
Proof. intros ops st I G. destruct (ops_preserve ops st I G) as [[[S1 _] _] _]. exact S1. Qed.

Lemma earlier_names_survive_lemma : forall ops st, ginv st -> ops_ok st ops ->
  forall n, bound st n -> bound (final st ops) n.
Proof. intros ops st I G. destruct (ops_preserve ops st I G) as [_ B]. exact B. Qed.

(* ... and the next input sees them: after VM::execute the slot of a bound name is non-null *)
Lemma bound_name_loaded : forall st L i n, nth_error (l_names L) i = Some (Some n) -> bound st n ->
  gnth (gidx (execute st L)) i = glookup (gmap st) n /\ gnth (gidx (execute st L)) i <> None.
Proof.
  intros st L i n Hn Hb.
  assert (E : gnth (gidx (execute st L)) i = glookup (gmap st) n).
  { pose proof (execute_coherent st L i n Hn) as C. unfold execute in *. cbn [gidx gmap register] in *.
    destruct (l_names L) as [|a r] eqn:El; [destruct i; discriminate|].
    apply C. rewrite app_length, length_load_vec.
    assert ((i < length (a :: r))%nat) by (apply nth_error_Some; congruence). lia. }
  split; [exact E|]. rewrite E. exact Hb.
Qed.

(* ---- host calls and the frame stack ---- *)
Lemma host_call_clean_entry : forall st L c v, frames st = [] -> host_call_result st L c v = HostGets v.
Proof.
  intros st L c v Hf. unfold host_call_result, host_enter, do_return.
  set (st0 := if HOST_CALL_CLEARS_FRAMES then with_frames st [] else st).
  assert (Hf0 : frames st0 = []) by (unfold st0; destruct HOST_CALL_CLEARS_FRAMES; [reflexivity|exact Hf]).
  cbn [frames with_frames].
  assert (Fp : frames (prepare (register st0 L) (l_id L)) = []).
  { unfold prepare. destruct (l_id L =? cur (register st0 L)); [exact Hf0|].
    destruct (names_of (register st0 L) (l_id L)); [exact Hf0|].
    destruct (lookup (l_id L) (snap (register st0 L))); exact Hf0. }
  rewrite Fp. reflexivity.
Qed.

(* frames of the model's operations *)
Lemma frames_prepare st id : frames (prepare st id) = frames st.
Proof.
  unfold prepare. destruct (id =? cur st); [reflexivity|].
  destruct (names_of st id); [reflexivity|]. destruct (lookup id (snap st)); reflexivity.
Qed.
Lemma frames_sync_loaded st : frames (sync_loaded st) = frames st.
Proof. reflexivity. Qed.

Lemma frames_call_enter st L : frames (call_enter st L) = mkFrame (l_id L) (l_id L) false :: frames st.
Proof.
  unfold call_enter. cbn [frames with_frames]. f_equal.
  destruct (negb (l_id L =? 0) && negb (l_id L =? cur (register st L))); [|reflexivity].
  rewrite frames_prepare. reflexivity.
Qed.

Lemma frames_do_return st : frames (fst (do_return st)) = tl (frames st).
Proof.
  unfold do_return. destruct (frames st) as [|f rest] eqn:E; [cbn; now rewrite E|].
  destruct rest as [|c rest']; cbn [fst frames with_frames tl]; [reflexivity|].
  match goal with |- frames (if ?b then _ else _) = _ => destruct b end;
    [rewrite frames_prepare|]; reflexivity.
Qed.

Lemma frames_host_enter st L c : frames st = [] -> exists e, f_entry e = true /\ frames (host_enter st L c) = [e].
Proof.
  intro Hf. unfold host_enter. cbn [frames with_frames]. rewrite frames_prepare. cbn [frames register].
  assert (E : frames (if HOST_CALL_CLEARS_FRAMES then with_frames st [] else st) = [])
    by (destruct HOST_CALL_CLEARS_FRAMES; [reflexivity|exact Hf]).
  rewrite E. eexists. split; [|reflexivity]. reflexivity.
Qed.

Lemma unwinds : RUN_FAST_UNWINDS_ON_ERROR = true.
Proof. reflexivity. Qed.

(* a failed run is dropped from the frame stack, whatever it had pushed *)
Lemma unwind_drops_run : forall above e F, f_entry e = true ->
  Forall (fun f => f_entry f = false) above -> unwind (above ++ e :: F) = F.
Proof.
  induction above as [|a r IH]; intros e F He Ha; cbn.
  - now rewrite He.
  - inversion Ha as [|x y Hx Hy]; subst. rewrite Hx. now apply IH.
Qed.

(* a step (REPL input or host call) as a bracketed operation sequence: the run starts at depth 0
   with OExecute / OHostCall, calls and returns nest, and the step ends either after the matching
   Return or with a failure somewhere inside *)
Fixpoint balanced (depth : nat) (ops : list op) : bool :=
  match ops with
  | [] => Nat.eqb depth 0
  | OExecute _ :: r | OHostCall _ _ :: r => Nat.eqb depth 0 && balanced 1 r
  | OClearFrames :: r => Nat.eqb depth 0 && balanced 0 r
  | OCall _ :: r => negb (Nat.eqb depth 0) && balanced (S depth) r
  | OReturn :: r => negb (Nat.eqb depth 0) && balanced (pred depth) r
  | OFail :: _ => negb (Nat.eqb depth 0)
  | OAddIdx _ _ :: r => negb (Nat.eqb depth 0) && balanced depth r
  | _ :: r => balanced depth r
  end.

Definition shape (d : nat) (fs : list frame) : Prop :=
  match d with
  | O => fs = []
  | S k => exists above e, fs = above ++ [e] /\ f_entry e = true /\
                           Forall (fun f => f_entry f = false) above /\ length above = k
  end.

Lemma run_ops_failed_frames : forall ops st obs fl, frames (r_st (run_ops st ops obs fl true)) = frames st.
Proof.
  induction ops as [|o r IH]; intros st obs fl; [reflexivity|].
  cbn [run_ops]. destruct o; cbn [negb andb]; apply IH.
Qed.

Lemma shape_unwind d fs : shape (S d) fs -> unwind fs = [].
Proof. intros (above & e & -> & He & Ha & _). now apply unwind_drops_run. Qed.

Lemma balanced_run : forall ops d st obs fl, shape d (frames st) -> balanced d ops = true ->
  frames (r_st (run_ops st ops obs fl false)) = [].
Proof.
  induction ops as [|o r IH]; intros d st obs fl Sh B.
  - cbn in *. destruct d; [exact Sh|discriminate].
  - cbn [run_ops]. cbn [andb negb].
    destruct o as [|L|i v|i k|i k|v|L| |L|ns|L c| |n| |]; cbn [balanced] in B; cbn [step_op].
    + (* OClearFrames *) apply andb_true_iff in B as [B0 B]. apply Nat.eqb_eq in B0. subst d. cbn in Sh.
      apply (IH 0%nat); [|exact B]. destruct REPL_CLEARS_FRAMES_FIRST; cbn; [reflexivity|exact Sh].
    + (* OExecute *) apply andb_true_iff in B as [B0 B]. apply Nat.eqb_eq in B0. subst d. cbn in Sh.
      apply (IH 1%nat); [|exact B]. unfold execute. cbn [frames register]. rewrite Sh.
      exists [], (mkFrame (l_id L) (l_id L) true). repeat split; auto.
    + apply (IH d); [exact Sh|exact B].
    + (* OAddIdx *) apply andb_true_iff in B as [B0 B]. destruct d as [|d]; [discriminate|].
      destruct (gnth (gidx st) (N.to_nat i)).
      * apply (IH (S d)); [exact Sh|exact B].
      * cbn [orb]. rewrite run_ops_failed_frames. rewrite unwinds. cbn [frames with_frames]. eapply shape_unwind; eauto.
    + destruct (gnth (gidx st) (N.to_nat i)); apply (IH d); auto.
    + apply (IH d); auto.
    + (* OCall *) apply andb_true_iff in B as [B0 B]. destruct d as [|d]; [discriminate|].
      apply (IH (S (S d))); [|exact B]. rewrite frames_call_enter.
      destruct Sh as (above & e & E & He & Ha & Hl). rewrite E.
      exists (mkFrame (l_id L) (l_id L) false :: above), e. repeat split; auto. cbn. now rewrite Hl.
    + (* OReturn *) apply andb_true_iff in B as [B0 B]. destruct d as [|d]; [discriminate|].
      destruct (do_return st) as [st' lft] eqn:Dr.
      assert (Fr : frames st' = tl (frames st)) by (rewrite <- (frames_do_return st), Dr; reflexivity).
      apply (IH d); [|exact B]. rewrite Fr.
      destruct Sh as (above & e & E & He & Ha & Hl). rewrite E.
      destruct above as [|a above']; cbn in *.
      * subst d. reflexivity.
      * inversion Ha; subst. exists above', e. repeat split; auto.
    + apply (IH d); auto.
    + apply (IH d); auto.
    + (* OHostCall *) apply andb_true_iff in B as [B0 B]. apply Nat.eqb_eq in B0. subst d. cbn in Sh.
      apply (IH 1%nat); [|exact B]. destruct (frames_host_enter st L c Sh) as (e & He & Fe). rewrite Fe.
      exists [], e. repeat split; auto.
    + (* OFail *) destruct d as [|d]; [discriminate|]. cbn [orb]. rewrite run_ops_failed_frames, unwinds.
      cbn [frames with_frames]. eapply shape_unwind; eauto.
    + apply (IH d); auto.
    + apply (IH d); auto.
    + apply (IH d); auto.
Qed.

(* the state after a session of steps *)
Fixpoint session_state (st : gstate) (steps : list (list op)) : gstate :=
  match steps with [] => st | s :: r => session_state (r_st (run_ops st s [] [] false)) r end.

Lemma frames_empty_between_steps : forall steps st, frames st = [] ->
  forallb (balanced 0) steps = true -> frames (session_state st steps) = [].
Proof.
  induction steps as [|s r IH]; intros st Hf B; [exact Hf|].
  cbn in B. apply andb_true_iff in B as [B1 B2]. cbn [session_state]. apply IH; [|exact B2].
  apply (balanced_run s 0%nat); [exact Hf|exact B1].
Qed.

(* in a session -- whatever failed before: inputs, host calls, at any depth -- a host call returns
   what its callee returns *)
Lemma host_call_in_session : forall steps L c v, forallb (balanced 0) steps = true ->
  host_call_result (session_state ginit steps) L c v = HostGets v.
Proof.
  intros steps L c v B. apply host_call_clean_entry. now apply frames_empty_between_steps.
Qed.

Definition L_boom : layout := mkLayout 5 [Some 0; None].
Definition L_ok : layout := mkLayout 6 [None; Some 1].
Definition after_failed_host_call : gstate := r_st (run_ops ginit [OHostCall L_boom false; OFail] [] [] false).

(* the history that refuted the property before c94595b: a host call after a failed host call *)
Lemma host_call_after_failure :
  frames after_failed_host_call = [] /\
  host_call_result after_failed_host_call L_ok false 42 = HostGets 42.
Proof. vm_compute. split; reflexivity. Qed.

(* the history that lost a host call's writes before a3cbd29: two host calls bump a counter
   10 -> 13 -> 16, the next REPL input reads it *)
Definition L_bump : layout := mkLayout 7 [None; Some 3].       (* fn bump(x) { counter = counter + x; return counter } *)
Definition L_top1 : layout := mkLayout 8 [Some 3; Some 4].     (* let mut counter = 10; fn bump ... *)
Definition L_top2 : layout := mkLayout 9 [Some 3].             (* println(counter) *)
Definition host_write_session : list (list op) :=
  [ [OClearFrames; OMutability []; OExecute L_top1; OSetIdx 0 10; OSetIdx 1 2000000; OReturn; OSyncNames L_top1];
    [OHostCall L_bump false; OAddIdx 1 3; OPrintIdx 1 0; OReturn];
    [OHostCall L_bump true; OAddIdx 1 3; OPrintIdx 1 0; OReturn];
    [OClearFrames; OMutability []; OExecute L_top2; OPrintIdx 0 0; OReturn; OSyncNames L_top2] ].

Lemma host_write_kept :
  session_obs_noflags host_write_session = [[0; -7]; [0; -7; 13]; [0; -7; 16]; [0; -7; 16]]%Z /\
  forallb (balanced 0) host_write_session = true.
Proof. vm_compute. split; reflexivity. Qed.

Lemma former_counterexamples_fine :
  (frames after_failed_host_call = [] /\
   host_call_result after_failed_host_call L_ok false 42 = HostGets 42) /\
  (session_obs_noflags host_write_session = [[0; -7]; [0; -7; 13]; [0; -7; 16]; [0; -7; 16]]%Z /\
   forallb (balanced 0) host_write_session = true).
Proof. exact (conj host_call_after_failure host_write_kept). Qed.

(* non-vacuity: a session inside the entry conditions (two inputs, a cross-layout call that
   mutates a global, a failing input, a later input) *)
Definition L_f : layout := mkLayout 2 [None; Some 1].          (* fn f(x) { g = g + x; return g } *)
Definition L_in1 : layout := mkLayout 3 [Some 1; Some 2].      (* let mut g = 7; fn f ... *)
Definition L_in2 : layout := mkLayout 4 [Some 2; Some 1].      (* println(f(5)); println(g) *)
Definition L_apply : layout := mkLayout 0 [].                  (* fn apply(cb, x) { return cb(x) }: no globals *)
Definition good_ops : list op :=
  [OClearFrames; OMutability []; OExecute L_in1; OSetIdx 0 7; OSetIdx 1 2000001; OReturn; OSyncNames L_in1;
   OClearFrames; OMutability []; OExecute L_in2; OCall L_f; OAddIdx 1 5; OPrintIdx 1 0; OReturn; OPrintIdx 1 0; OReturn; OSyncNames L_in2;
   (* g = 20; apply(f, 2) through a function without globals; println(g) *)
   OClearFrames; OMutability []; OExecute L_in2; OSetIdx 1 20; OCall L_apply; OCall L_f; OAddIdx 1 2; OPrintIdx 1 0; OReturn; OReturn;
   OPrintIdx 1 0; OAddIdx 1 (-10); OReturn; OSyncNames L_in2;
   OClearFrames; OMutability []; OExecute L_in2; OCall L_f; OAddIdx 1 1; OFail;
   OClearFrames; OMutability []; OExecute L_in2; OPrintIdx 1 0; OReturn; OSyncNames L_in2].

(* decidable form of the entry conditions, for checking concrete sessions by computation *)
Fixpoint names_eqb (a b : list (option N)) : bool :=
  match a, b with
  | [], [] => true
  | Some x :: a', Some y :: b' => (x =? y) && names_eqb a' b'
  | None :: a', None :: b' => names_eqb a' b'
  | _, _ => false
  end.
Lemma names_eqb_eq a : forall b, names_eqb a b = true -> a = b.
Proof.
  induction a as [|[x|] a IH]; intros [|[y|] b] H; cbn in H; try discriminate; auto.
  - apply andb_true_iff in H as [H1 H2]. apply N.eqb_eq in H1. subst. f_equal. auto.
  - f_equal. auto.
Qed.
Definition reg_okb (st : gstate) (L : layout) : bool :=
  match lookup (l_id L) (ltab st) with
  | Some ns => names_eqb ns (l_names L)
  | None => (match lookup (l_id L) (snap st) with None => true | Some _ => false end)
            && (negb (l_id L =? cur st) || match l_names L with [] => true | _ => false end)
  end.
Definition top_is_currentb (st : gstate) : bool := nodupb (names_of st (cur st)).
Definition op_okb (st : gstate) (o : op) : bool :=
  match o with
  | OExecute L => reg_okb st L
  | OCall L => reg_okb st L && top_is_currentb st
  | OHostCall L _ => reg_okb st L
  | OReturn => top_is_currentb st
  | OSyncNames L => (l_id L =? cur st) && names_eqb (names_of st (cur st)) (l_names L) && nodupb (l_names L)
  | _ => true
  end.
Fixpoint ops_okb (st : gstate) (ops : list op) : bool :=
  match ops with [] => true | o :: r => op_okb st o && ops_okb (next st o) r end.

Lemma reg_okb_sound st L : reg_okb st L = true -> reg_ok st L.
Proof.
  unfold reg_okb, reg_ok. destruct (lookup (l_id L) (ltab st)); [apply names_eqb_eq|].
  intro H. apply andb_true_iff in H as [H1 H2]. destruct (lookup (l_id L) (snap st)); [discriminate|].
  split; [reflexivity|]. apply orb_true_iff in H2 as [H2|H2].
  - left. apply negb_true_iff in H2. now apply N.eqb_neq.
  - right. destruct (l_names L); [reflexivity|discriminate].
Qed.
Lemma top_is_currentb_sound st : top_is_currentb st = true -> top_is_current st.
Proof. auto. Qed.
Lemma ops_okb_sound : forall ops st, ops_okb st ops = true -> ops_ok st ops.
Proof.
  induction ops as [|o r IH]; intros st H; cbn [ops_okb ops_ok] in *; [exact I|].
  apply andb_true_iff in H as [H1 H2]. split; [|now apply IH].
  destruct o; cbn [op_okb op_ok] in *; auto using reg_okb_sound, top_is_currentb_sound.
  - apply andb_true_iff in H1 as [A B]. split; auto using reg_okb_sound, top_is_currentb_sound.
  - apply andb_true_iff in H1 as [A C]. apply andb_true_iff in A as [A B].
    apply N.eqb_eq in A. apply names_eqb_eq in B. auto.
Qed.

Lemma good_ops_ok : ops_ok ginit good_ops.
Proof. apply ops_okb_sound. vm_compute. reflexivity. Qed.

Lemma good_ops_obs :
  r_obs (run_ops ginit (firstn 17 good_ops) [] [] false) = [12; 12]%Z /\
  glookup (gmap (final ginit good_ops)) 1 = Some 12%Z /\ bound (final ginit (firstn 17 good_ops)) 1.
Proof. vm_compute. repeat split; discriminate. Qed.

(* the input `g = 20; println(apply(f, 2)); println(g); g = g - 10` where apply has no globals of its
   own (layout id 0) and f mutates g: the callee sees 20, the caller sees the callee's write, and
   after the input both views hold 12 *)
Lemma callback_through_function_without_globals :
  r_obs (run_ops ginit (firstn 31 good_ops) [] [] false) = [12; 12; 22; 22]%Z /\
  glookup (gmap (final ginit (firstn 31 good_ops))) 1 = Some 12%Z /\
  gnth (gidx (final ginit (firstn 31 good_ops))) 1 = Some 12%Z /\
  cur (final ginit (firstn 31 good_ops)) = 4 /\
  forallb (balanced 0) [firstn 7 good_ops; firstn 10 (skipn 7 good_ops); firstn 14 (skipn 17 good_ops)] = true.
Proof. vm_compute. repeat split; reflexivity. Qed.

