(* C17 -- lemmas about the type-lowering model (Model/AirTypes.v). *)
From Aelys Require Import Base.Tactics Model.AirLower Model.Mono Model.AirTypes Proofs.AirLowerProofs.
Local Open Scope N_scope.

Scheme ity_ind' := Induction for ity Sort Prop with itys_ind' := Induction for itys Sort Prop.
Combined Scheme ity_mutind from ity_ind', itys_ind'.

(* a type parameter in scope wins over a struct of the same name *)
Lemma type_param_shadows_struct tps structs n k :
  index_of n tps 0 = Some k -> lower_ty tps structs (IName n) = TParam (N.of_nat k).
Proof. intro H. cbn [lower_ty]. rewrite H. reflexivity. Qed.

(* every struct named by a lowered type is a declared struct *)
Lemma lower_ty_structs_exist tps structs :
  (forall t s, In s (struct_names (lower_ty tps structs t)) -> In s structs)
  /\ (forall l s, In s (struct_names_list (lower_tys tps structs l)) -> In s structs).
Proof.
  apply ity_mutind; cbn [lower_ty lower_tys struct_names struct_names_list]; intros; try contradiction.
  - destruct (index_of n tps 0); [cbn in H; contradiction|].
    destruct (memN n structs) eqn:E; cbn in H; [|contradiction].
    destruct H as [<-|[]]. apply memN_In. exact E.
  - apply H. exact H0.
  - apply in_app_or in H1 as [H1|H1]; [apply H|apply H0]; exact H1.
  - apply in_app_or in H1 as [H1|H1]; [apply H|apply H0]; exact H1.
Qed.

(* an in-scope type parameter never lowers to something that mentions a struct or i64 by accident:
   outside a generic function (no type parameter in scope) no Param is produced *)
Lemma lower_ty_no_param_without_tparams structs :
  (forall t, has_param (lower_ty [] structs t) = false)
  /\ (forall l, has_params (lower_tys [] structs l) = false).
Proof.
  apply ity_mutind; cbn [lower_ty lower_tys has_param has_params index_of]; intros; try reflexivity.
  - destruct (memN n structs); reflexivity.
  - exact H.
  - rewrite H, H0. reflexivity.
  - rewrite H, H0. reflexivity.
Qed.
