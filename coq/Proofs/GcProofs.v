(* C03 -- proofs about the mark/sweep model (Model/Gc.v). *)
From Aelys Require Import Base.Tactics Model.Gc.
Local Open Scope N_scope.

Lemma mem_In : forall i m, mem i m = true <-> In i m.
Proof.
  intros i m. unfold mem. rewrite existsb_exists. split.
  - intros [x [Hx He]]. apply N.eqb_eq in He. subst. exact Hx.
  - intro H. exists i. split; [exact H|apply N.eqb_refl].
Qed.

Lemma mem_false : forall i m, mem i m = false <-> ~ In i m.
Proof.
  intros i m. rewrite <- mem_In. destruct (mem i m).
  - split; [intro H; discriminate|intro H; exfalso; apply H; reflexivity].
  - split; [intros _ H; discriminate|intros _; reflexivity].
Qed.

Lemma mem_cons : forall i r m, mem i (r :: m) = (i =? r) || mem i m.
Proof. reflexivity. Qed.

(* ------------------------------------------------------------------------------------- *)
Section Closure.
Variable E : obj -> list N.
Variable h : heap.

Definition livep (i : N) : Prop := exists o, get h i = Some o.

Definition closed (m : list N) : Prop :=
  forall i o j o', In i m -> get h i = Some o -> In j (E o) -> get h j = Some o' -> In j m.

Definition inv (m wl : list N) : Prop :=
  forall i o j o', In i m -> get h i = Some o -> In j (E o) -> get h j = Some o' ->
                   In j m \/ In j wl.

Lemma reach_live : forall roots i, reach E h roots i -> livep i.
Proof. intros roots i H. destruct H; eexists; eassumption. Qed.

(* if every live root of S is reachable from S', so is everything reachable from S *)
Lemma reach_trans : forall S S' : list N,
  (forall r o, In r S -> get h r = Some o -> reach E h S' r) ->
  forall i, reach E h S i -> reach E h S' i.
Proof.
  intros S S' HS i H. induction H as [r o Hr Hg | i o j o' _ IH Hg Hj Hg'].
  - exact (HS r o Hr Hg).
  - exact (reach_step E h S' i o j o' IH Hg Hj Hg').
Qed.

Lemma reach_mono : forall S S' : list N, incl S S' -> forall i, reach E h S i -> reach E h S' i.
Proof.
  intros S S' Hi. apply reach_trans. intros r o Hr Hg. exact (reach_root E h S' r o (Hi r Hr) Hg).
Qed.

Lemma closed_contains_reach : forall roots m,
  closed m -> (forall r o, In r roots -> get h r = Some o -> In r m) ->
  forall i, reach E h roots i -> In i m.
Proof.
  intros roots m Hc Hr i H. induction H as [r o Hin Hg | i o j o' _ IH Hg Hj Hg'].
  - exact (Hr r o Hin Hg).
  - exact (Hc i o j o' IH Hg Hj Hg').
Qed.

(* the worklist invariant *)
Lemma mark_loop_spec : forall fuel m wl m',
  mark_loop E fuel h m wl = Some m' ->
  incl m m'
  /\ (forall r o, In r wl -> get h r = Some o -> In r m')
  /\ (inv m wl -> closed m')
  /\ (forall i, In i m' -> In i m \/ reach E h wl i)
  /\ ((forall i, In i m -> livep i) -> forall i, In i m' -> livep i).
Proof.
  induction fuel as [|k IH]; intros m wl m' H.
  - destruct wl as [|r wl']; cbn [mark_loop] in H; [|discriminate].
    injection H as <-. repeat split.
    + apply incl_refl.
    + intros r o [].
    + intros Hinv i o j o' Hi Hg Hj Hg'. destruct (Hinv i o j o' Hi Hg Hj Hg') as [?|[]]; assumption.
    + intros i Hi; left; exact Hi.
    + intros Hl i Hi; exact (Hl i Hi).
  - destruct wl as [|r wl']; cbn [mark_loop] in H.
    + injection H as <-. repeat split.
      * apply incl_refl.
      * intros r o [].
      * intros Hinv i o j o' Hi Hg Hj Hg'. destruct (Hinv i o j o' Hi Hg Hj Hg') as [?|[]]; assumption.
      * intros i Hi; left; exact Hi.
      * intros Hl i Hi; exact (Hl i Hi).
    + destruct (get h r) as [o|] eqn:Hgr.
      * destruct (mem r m) eqn:Hmem.
        -- (* already marked *)
           apply mem_In in Hmem.
           destruct (IH _ _ _ H) as (I1 & I2 & I3 & I4 & I5).
           repeat split.
           ++ exact I1.
           ++ intros r0 o0 [->|Hin] Hg0; [exact (I1 _ Hmem)|exact (I2 r0 o0 Hin Hg0)].
           ++ intros Hinv. apply I3. intros i o0 j o' Hi Hg Hj Hg'.
              destruct (Hinv i o0 j o' Hi Hg Hj Hg') as [?|[<-|?]]; auto.
           ++ intros i Hi. destruct (I4 i Hi) as [?|Hr]; [left; assumption|right].
              apply (reach_mono wl' (r :: wl')); [apply incl_tl, incl_refl|exact Hr].
           ++ exact I5.
        -- (* newly marked: push its edges *)
           destruct (IH _ _ _ H) as (I1 & I2 & I3 & I4 & I5).
           assert (Hrm' : In r m') by (apply I1; left; reflexivity).
           repeat split.
           ++ intros x Hx. apply I1. right. exact Hx.
           ++ intros r0 o0 [->|Hin] Hg0; [exact Hrm'|].
              apply (I2 r0 o0); [apply in_or_app; right; exact Hin|exact Hg0].
           ++ intros Hinv. apply I3. intros i o0 j o' Hi Hg Hj Hg'.
              destruct Hi as [<-|Hi].
              ** rewrite Hgr in Hg. injection Hg as <-. right. apply in_or_app. left.
                 apply in_rev in Hj. exact Hj.
              ** destruct (Hinv i o0 j o' Hi Hg Hj Hg') as [?|[<-|?]].
                 --- left; right; assumption.
                 --- left; left; reflexivity.
                 --- right; apply in_or_app; right; assumption.
           ++ intros i Hi. destruct (I4 i Hi) as [[<-|Hm]|Hr].
              ** right. apply (reach_root E h (r :: wl') r o); [left; reflexivity|exact Hgr].
              ** left; exact Hm.
              ** right. revert Hr. apply reach_trans. intros r0 o0 Hin Hg0.
                 apply in_app_or in Hin. destruct Hin as [Hin|Hin].
                 --- apply in_rev in Hin.
                     apply (reach_step E h (r :: wl') r o r0 o0); auto.
                     apply (reach_root E h (r :: wl') r o); [left; reflexivity|exact Hgr].
                 --- apply (reach_root E h (r :: wl') r0 o0); [right; exact Hin|exact Hg0].
           ++ intros Hl. apply I5. intros i [<-|Hi]; [exists o; exact Hgr|exact (Hl i Hi)].
      * (* dead or out of range: skipped *)
        destruct (IH _ _ _ H) as (I1 & I2 & I3 & I4 & I5).
        repeat split.
        -- exact I1.
        -- intros r0 o0 [->|Hin] Hg0; [rewrite Hgr in Hg0; discriminate|exact (I2 r0 o0 Hin Hg0)].
        -- intros Hinv. apply I3. intros i o0 j o' Hi Hg Hj Hg'.
           destruct (Hinv i o0 j o' Hi Hg Hj Hg') as [?|[<-|?]]; auto.
           rewrite Hgr in Hg'. discriminate.
        -- intros i Hi. destruct (I4 i Hi) as [?|Hr]; [left; assumption|right].
           apply (reach_mono wl' (r :: wl')); [apply incl_tl, incl_refl|exact Hr].
        -- exact I5.
Qed.

Lemma closed_inv : forall m wl, closed m -> inv m wl.
Proof. intros m wl Hc i o j o' Hi Hg Hj Hg'. left. exact (Hc i o j o' Hi Hg Hj Hg'). Qed.

Lemma mark_roots_spec : forall fuel roots m m',
  mark_roots E fuel h m roots = Some m' -> closed m ->
  incl m m' /\ closed m'
  /\ (forall r o, In r roots -> get h r = Some o -> In r m')
  /\ (forall i, In i m' -> In i m \/ reach E h roots i)
  /\ ((forall i, In i m -> livep i) -> forall i, In i m' -> livep i).
Proof.
  intros fuel roots. induction roots as [|r rs IH]; intros m m' H Hc; cbn [mark_roots] in H.
  - injection H as <-. repeat split; auto using incl_refl. intros r o [].
  - destruct (mark_loop E fuel h m [r]) as [m1|] eqn:H1; [|discriminate].
    destruct (mark_loop_spec _ _ _ _ H1) as (L1 & L2 & L3 & L4 & L5).
    specialize (L3 (closed_inv m [r] Hc)).
    destruct (IH _ _ H L3) as (I1 & I2 & I3 & I4 & I5).
    repeat split.
    + intros x Hx. apply I1, L1, Hx.
    + exact I2.
    + intros r0 o0 [->|Hin] Hg0.
      * apply I1. apply (L2 r0 o0); [left; reflexivity|exact Hg0].
      * exact (I3 r0 o0 Hin Hg0).
    + intros i Hi. destruct (I4 i Hi) as [Hm1|Hr].
      * destruct (L4 i Hm1) as [?|Hr]; [left; assumption|right].
        apply (reach_mono [r] (r :: rs)); [|exact Hr]. intros x [<-|[]]. left; reflexivity.
      * right. apply (reach_mono rs (r :: rs)); [apply incl_tl, incl_refl|exact Hr].
    + intros Hl. apply I5. apply L5. exact Hl.
Qed.

(* ---- termination: the fuel bound ------------------------------------------------------ *)
(* measure: edges of the still unmarked slots + length of the worklist; every iteration of
   the loop decreases it by exactly one or more *)
Fixpoint uedges_from (s : list (option obj)) (i : N) (m : list N) : nat :=
  match s with
  | [] => 0%nat
  | x :: t => ((if mem i m then 0 else slot_edges E x) + uedges_from t (N.succ i) m)%nat
  end.
Definition uedges (m : list N) : nat := uedges_from (slots h) 0 m.

Lemma uedges_from_le_total : forall s i m,
  (uedges_from s i m <= fold_right (fun x a => slot_edges E x + a) 0 s)%nat.
Proof.
  induction s as [|x t IH]; intros i m; cbn [uedges_from fold_right]; [lia|].
  specialize (IH (N.succ i) m). destruct (mem i m); lia.
Qed.

Lemma uedges_from_mono : forall s i r m, (uedges_from s i (r :: m) <= uedges_from s i m)%nat.
Proof.
  induction s as [|x t IH]; intros i r m; cbn [uedges_from]; [lia|].
  specialize (IH (N.succ i) r m). rewrite mem_cons.
  destruct (i =? r); destruct (mem i m); cbn [orb]; lia.
Qed.

Lemma uedges_from_mark : forall s n i o m,
  nth_error s n = Some (Some o) -> mem (i + N.of_nat n) m = false ->
  (uedges_from s i ((i + N.of_nat n)%N :: m) + length (E o) <= uedges_from s i m)%nat.
Proof.
  induction s as [|x t IH]; intros n i o m Hn Hm.
  - destruct n; discriminate.
  - destruct n as [|n]; cbn [nth_error] in Hn.
    + injection Hn as ->. replace (i + N.of_nat 0) with i in * by lia.
      cbn [uedges_from]. rewrite Hm. rewrite mem_cons, N.eqb_refl. cbn [orb slot_edges].
      pose proof (uedges_from_mono t (N.succ i) i m). lia.
    + replace (i + N.of_nat (S n)) with (N.succ i + N.of_nat n) in * by lia.
      cbn [uedges_from]. specialize (IH n (N.succ i) o m Hn Hm).
      rewrite mem_cons. destruct (i =? N.succ i + N.of_nat n); destruct (mem i m); cbn [orb]; lia.
Qed.

Lemma uedges_mark : forall r o m, get h r = Some o -> mem r m = false ->
  (uedges (r :: m) + length (E o) <= uedges m)%nat.
Proof.
  intros r o m Hg Hm. unfold get in Hg.
  destruct (nth_error (slots h) (N.to_nat r)) as [[o0|]|] eqn:Hn; try discriminate.
  injection Hg as ->.
  pose proof (uedges_from_mark (slots h) (N.to_nat r) 0 o m Hn) as H.
  replace (0 + N.of_nat (N.to_nat r)) with r in H by lia.
  exact (H Hm).
Qed.

Lemma mark_loop_fuel : forall fuel m wl,
  (uedges m + length wl <= fuel)%nat ->
  exists m', mark_loop E fuel h m wl = Some m' /\ (uedges m' <= uedges m)%nat.
Proof.
  induction fuel as [|k IH]; intros m wl Hf.
  - destruct wl as [|r wl']; cbn [length] in Hf; [|lia].
    exists m. split; [reflexivity|lia].
  - destruct wl as [|r wl']; cbn [mark_loop].
    + exists m. split; [reflexivity|lia].
    + cbn [length] in Hf. destruct (get h r) as [o|] eqn:Hgr.
      * destruct (mem r m) eqn:Hmem.
        -- apply IH. lia.
        -- pose proof (uedges_mark r o m Hgr Hmem) as Hu.
           destruct (IH (r :: m) (rev (E o) ++ wl')) as (m' & Hm' & Hle).
           { rewrite app_length, rev_length. lia. }
           exists m'. split; [exact Hm'|lia].
      * apply IH. lia.
Qed.

Lemma mark_roots_fuel : forall fuel roots m,
  (S (uedges m) <= fuel)%nat -> exists m', mark_roots E fuel h m roots = Some m'.
Proof.
  intros fuel roots. induction roots as [|r rs IH]; intros m Hf; cbn [mark_roots].
  - exists m. reflexivity.
  - destruct (mark_loop_fuel fuel m [r]) as (m1 & H1 & Hle); [cbn [length]; lia|].
    rewrite H1. apply IH. lia.
Qed.

Lemma fuel_bound_enough : (S (uedges []) <= fuel_bound E h)%nat.
Proof.
  unfold fuel_bound, uedges, total_edges.
  pose proof (uedges_from_le_total (slots h) 0 []). lia.
Qed.

(* marked set = closure of E from the roots; the bound #objects + #edges never runs out *)
Lemma mark_closure : forall roots,
  exists m, mark_roots E (fuel_bound E h) h [] roots = Some m
            /\ forall i, In i m <-> reach E h roots i.
Proof.
  intro roots.
  destruct (mark_roots_fuel (fuel_bound E h) roots [] fuel_bound_enough) as (m & Hm).
  exists m. split; [exact Hm|].
  assert (Hc0 : closed []) by (intros i o j o' []).
  destruct (mark_roots_spec _ _ _ _ Hm Hc0) as (_ & Hc & Hr & Hs & _).
  intro i. split.
  - intro Hi. destruct (Hs i Hi) as [[]|Hre]. exact Hre.
  - apply closed_contains_reach; assumption.
Qed.

(* any larger fuel gives the same answer: the result does not depend on the bound chosen *)
Lemma mark_closure_any_fuel : forall fuel roots m,
  mark_roots E fuel h [] roots = Some m -> forall i, In i m <-> reach E h roots i.
Proof.
  intros fuel roots m Hm.
  assert (Hc0 : closed []) by (intros i o j o' []).
  destruct (mark_roots_spec _ _ _ _ Hm Hc0) as (_ & Hc & Hr & Hs & _).
  intro i. split.
  - intro Hi. destruct (Hs i Hi) as [[]|Hre]. exact Hre.
  - apply closed_contains_reach; assumption.
Qed.

End Closure.

(* ---- sweep ----------------------------------------------------------------------------- *)
Lemma nth_sweep_slots : forall s i m n,
  nth_error (sweep_slots s i m) n =
  match nth_error s n with
  | Some (Some o) => if mem (i + N.of_nat n) m then Some (Some o) else Some None
  | Some None => Some None
  | None => None
  end.
Proof.
  induction s as [|x t IH]; intros i m n.
  - destruct n; reflexivity.
  - destruct n as [|n]; cbn [sweep_slots nth_error].
    + replace (i + N.of_nat 0) with i by lia. destruct x; [destruct (mem i m)|]; reflexivity.
    + rewrite IH. replace (N.succ i + N.of_nat n) with (i + N.of_nat (S n)) by lia. reflexivity.
Qed.

Lemma get_sweep : forall h m i, get (sweep h m) i = if mem i m then get h i else None.
Proof.
  intros h m i. unfold get, sweep. cbn [slots]. rewrite nth_sweep_slots.
  replace (0 + N.of_nat (N.to_nat i)) with i by lia.
  destruct (nth_error (slots h) (N.to_nat i)) as [[o|]|]; destruct (mem i m); reflexivity.
Qed.

Lemma sweep_slots_length : forall s i m, length (sweep_slots s i m) = length s.
Proof. induction s as [|x t IH]; intros i m; cbn [sweep_slots length]; [reflexivity|rewrite IH; reflexivity]. Qed.

Lemma freed_slots_spec : forall s i m x,
  In x (freed_slots s i m) <->
  exists n o, x = i + N.of_nat n /\ nth_error s n = Some (Some o) /\ mem x m = false.
Proof.
  induction s as [|y t IH]; intros i m x; cbn [freed_slots].
  - split; [intros []|intros (n & o & _ & Hn & _); destruct n; discriminate].
  - assert (Htail : In x (freed_slots t (N.succ i) m) <->
                    exists n o, x = i + N.of_nat (S n) /\ nth_error t n = Some (Some o) /\ mem x m = false).
    { rewrite IH. split; intros (n & o & Hx & Hn & Hm); exists n, o; repeat split; auto; lia. }
    split.
    + intro H.
      assert (Hcase : (exists o, y = Some o /\ mem i m = false /\ x = i) \/ In x (freed_slots t (N.succ i) m)).
      { destruct y as [o|]; [destruct (mem i m) eqn:Hm|]; auto.
        destruct H as [<-|H]; auto. left. exists o. auto. }
      destruct Hcase as [(o & -> & Hm & ->)|Ht].
      * exists 0%nat, o. repeat split; auto. lia.
      * apply Htail in Ht. destruct Ht as (n & o & Hx & Hn & Hm). exists (S n), o. auto.
    + intros (n & o & Hx & Hn & Hm). destruct n as [|n]; cbn [nth_error] in Hn.
      * injection Hn as ->. replace (i + N.of_nat 0) with i in Hx by lia. subst x.
        rewrite Hm. left. reflexivity.
      * assert (Ht : In x (freed_slots t (N.succ i) m)) by (apply Htail; exists n, o; auto).
        destruct y as [o0|]; [destruct (mem i m)|]; auto. right. exact Ht.
Qed.

(* the indices sweep pushes on the free list are exactly the live unmarked objects *)
Lemma sweep_free_spec : forall h m x,
  In x (free (sweep h m)) <-> In x (free h) \/ ((exists o, get h x = Some o) /\ ~ In x m).
Proof.
  intros h m x. unfold sweep. cbn [free]. rewrite in_app_iff, <- in_rev, freed_slots_spec.
  split.
  - intros [(n & o & Hx & Hn & Hm)|Hf]; [right|left; exact Hf].
    replace (0 + N.of_nat n) with (N.of_nat n) in Hx by lia. subst x. split.
    + exists o. unfold get. rewrite Nat2N.id, Hn. reflexivity.
    + apply mem_false. exact Hm.
  - intros [Hf|[[o Hg] Hm]]; [right; exact Hf|left].
    unfold get in Hg. destruct (nth_error (slots h) (N.to_nat x)) as [[o0|]|] eqn:Hn; try discriminate.
    exists (N.to_nat x), o0. repeat split; [lia|exact Hn|apply mem_false; exact Hm].
Qed.

(* ---- collect ---------------------------------------------------------------------------- *)
Lemma reach_incl_edges : forall (E E' : obj -> list N) h roots,
  (forall i o, get h i = Some o -> incl (E' o) (E o)) ->
  forall i, reach E' h roots i -> reach E h roots i.
Proof.
  intros E E' h roots Hsub i H. induction H as [r o Hr Hg | i o j o' _ IH Hg Hj Hg'].
  - exact (reach_root E h roots r o Hr Hg).
  - exact (reach_step E h roots i o j o' IH Hg (Hsub i o Hg j Hj) Hg').
Qed.

(* collect over any edge function: exactly the E-reachable objects survive, unchanged *)
Lemma collect_with_spec : forall E h roots,
  exists h', collect_with E h roots = Some h'
    /\ (forall i o, reach E h roots i -> get h i = Some o -> get h' i = Some o)
    /\ (forall i, ~ reach E h roots i -> get h' i = None).
Proof.
  intros E h roots. unfold collect_with.
  destruct (mark_closure E h roots) as (m & Hm & Hiff). rewrite Hm.
  eexists. split; [reflexivity|]. split.
  - intros i o Hr Hg. rewrite get_sweep.
    assert (Hin : In i m) by (apply Hiff; exact Hr).
    apply mem_In in Hin. rewrite Hin. exact Hg.
  - intros i Hn. rewrite get_sweep. destruct (mem i m) eqn:Hmem; [|reflexivity].
    exfalso. apply Hn, Hiff, mem_In, Hmem.
Qed.

(* conditional safety: a collector that follows at least the specification's edges is safe *)
Lemma collect_with_safe : forall E h roots,
  (forall i o, get h i = Some o -> incl (edges_spec o) (E o)) ->
  exists h', collect_with E h roots = Some h'
    /\ forall i o, reachable_spec h roots i -> get h i = Some o -> get h' i = Some o.
Proof.
  intros E h roots Hsub.
  destruct (collect_with_spec E h roots) as (h' & Hc & Hkeep & _).
  exists h'. split; [exact Hc|].
  intros i o Hr Hg. apply Hkeep; [|exact Hg].
  exact (reach_incl_edges E edges_spec h roots Hsub i Hr).
Qed.

(* the collector as it is follows exactly the specification's edges *)
Lemma edges_code_eq_spec : forall o, edges_code o = edges_spec o.
Proof. intros o. destruct o as [d|d f|d|d [p|]|d fn ups|d es|d es]; reflexivity. Qed.

Lemma reach_code_iff_spec : forall h roots i, reachable_code h roots i <-> reachable_spec h roots i.
Proof.
  intros h roots i. unfold reachable_code, reachable_spec. split.
  - apply reach_incl_edges. intros j o _. rewrite <- (edges_code_eq_spec o). apply incl_refl.
  - apply reach_incl_edges. intros j o _. rewrite (edges_code_eq_spec o). apply incl_refl.
Qed.

(* headline: unconditional *)
Lemma collect_safe_lemma : forall h roots,
  exists h', collect h roots = Some h'
    /\ (forall i o, reachable_spec h roots i -> get h i = Some o -> get h' i = Some o)
    /\ (forall i, ~ reachable_spec h roots i -> get h' i = None).
Proof.
  intros h roots. destruct (collect_with_spec edges_code h roots) as (h' & Hc & Hk & Hf).
  exists h'. split; [exact Hc|]. split.
  - intros i o Hr Hg. apply Hk; [apply reach_code_iff_spec; exact Hr|exact Hg].
  - intros i Hn. apply Hf. intro Hr. apply Hn. apply reach_code_iff_spec. exact Hr.
Qed.

(* the historical edge function never followed an edge the specification lacks, and differs from
   it only at function objects *)
Lemma edges_old_incl_spec : forall o, incl (edges_old o) (edges_spec o).
Proof.
  intros o. destruct o as [d|d f|d|d [p|]|d fn ups|d es|d es]; try apply incl_refl.
  destruct f as [own ns]. cbn [edges_old edges_spec fnc_own fnc_all]. apply incl_appl, incl_refl.
Qed.

Lemma edges_old_nonfunction : forall o, (forall d f, o <> OFunction d f) -> edges_old o = edges_spec o.
Proof.
  intros o H. destruct o as [d|d f|d|d [p|]|d fn ups|d es|d es]; try reflexivity.
  exfalso. exact (H d f eq_refl).
Qed.

(* ---- alloc after sweep: a freed slot is handed out again ------------------------------- *)
Lemma nth_set_slot_same : forall s n o, (n < length s)%nat -> nth_error (set_slot s n o) n = Some (Some o).
Proof.
  induction s as [|x t IH]; intros n o Hn; cbn [length] in Hn; [lia|].
  destruct n as [|n]; cbn [set_slot nth_error]; [reflexivity|apply IH; lia].
Qed.

Lemma nth_set_slot_other : forall s n k o, n <> k -> nth_error (set_slot s n o) k = nth_error s k.
Proof.
  induction s as [|x t IH]; intros n k o Hne; [destruct n; reflexivity|].
  destruct n as [|n]; destruct k as [|k]; cbn [set_slot nth_error]; try reflexivity; try lia.
  apply IH. lia.
Qed.

Lemma alloc_reuses_top : forall h i rest o,
  free h = i :: rest -> (N.to_nat i < length (slots h))%nat ->
  exists h2, alloc h o = (h2, i) /\ get h2 i = Some o /\ free h2 = rest
             /\ forall j, j <> i -> get h2 j = get h j.
Proof.
  intros h i rest o Hf Hlen. unfold alloc. rewrite Hf. eexists. split; [reflexivity|].
  unfold get. cbn [slots free]. split; [|split; [reflexivity|]].
  - rewrite nth_set_slot_same by exact Hlen. reflexivity.
  - intros j Hj. rewrite nth_set_slot_other; [reflexivity|]. intro He. apply Hj. lia.
Qed.

Lemma get_in_range : forall h i o, get h i = Some o -> (N.to_nat i < length (slots h))%nat.
Proof.
  intros h i o Hg. unfold get in Hg.
  destruct (nth_error (slots h) (N.to_nat i)) eqn:Hn; [|discriminate].
  apply nth_error_Some. rewrite Hn. discriminate.
Qed.

(* if the collector frees an object that something still points to, the very next allocation
   after the sweep that has it on top of the free list puts a different object under the
   dangling index -- nothing traps *)
Lemma free_list_aliasing_lemma : forall h m i rest o o',
  free (sweep h m) = i :: rest -> get h i = Some o -> ~ In i m ->
  get (sweep h m) i = None /\
  exists h2, alloc (sweep h m) o' = (h2, i) /\ get h2 i = Some o'.
Proof.
  intros h m i rest o o' Hf Hg Hm. split.
  - rewrite get_sweep. apply mem_false in Hm. rewrite Hm. reflexivity.
  - destruct (alloc_reuses_top (sweep h m) i rest o' Hf) as (h2 & Ha & Hg2 & _).
    + unfold sweep. cbn [slots]. rewrite sweep_slots_length. exact (get_in_range h i o Hg).
    + exists h2. split; assumption.
Qed.


(* ---- a collection is invisible on the reachable part ------------------------------------- *)
Lemma collect_with_marked : forall E h roots,
  exists m, collect_with E h roots = Some (sweep h m) /\ forall i, In i m <-> reach E h roots i.
Proof.
  intros E h roots. unfold collect_with.
  destruct (mark_closure E h roots) as (m & Hm & Hiff). rewrite Hm. exists m. split; [reflexivity|exact Hiff].
Qed.

(* reachability is the same relation in the heap after the collection, and every reachable
   object is the same object *)
Lemma reach_after_collect : forall E h roots h',
  collect_with E h roots = Some h' ->
  (forall i, reach E h' roots i <-> reach E h roots i)
  /\ (forall i, reach E h roots i -> get h' i = get h i).
Proof.
  intros E h roots h' Hc.
  destruct (collect_with_marked E h roots) as (m & Hc2 & Hiff). rewrite Hc in Hc2. injection Hc2 as ->.
  assert (Hkeep : forall i, reach E h roots i -> get (sweep h m) i = get h i).
  { intros i Hr. rewrite get_sweep. apply Hiff, mem_In in Hr. rewrite Hr. reflexivity. }
  assert (Hsome : forall i o, get (sweep h m) i = Some o -> get h i = Some o /\ reach E h roots i).
  { intros i o Hg. rewrite get_sweep in Hg. destruct (mem i m) eqn:Hm; [|discriminate].
    split; [exact Hg|]. apply Hiff, mem_In, Hm. }
  split; [|exact Hkeep].
  intro i. split.
  - intro H. induction H as [r o Hin Hg | i o j o' _ IH Hg Hj Hg'].
    + destruct (Hsome r o Hg) as [_ Hr]. exact Hr.
    + destruct (Hsome i o Hg) as [Hgi _]. destruct (Hsome j o' Hg') as [Hgj _].
      exact (reach_step E h roots i o j o' IH Hgi Hj Hgj).
  - intro H. induction H as [r o Hin Hg | i o j o' Hri IH Hg Hj Hg'].
    + apply (reach_root E (sweep h m) roots r o Hin). rewrite Hkeep; [exact Hg|].
      exact (reach_root E h roots r o Hin Hg).
    + assert (Hrj : reach E h roots j) by exact (reach_step E h roots i o j o' Hri Hg Hj Hg').
      apply (reach_step E (sweep h m) roots i o j o' IH); [rewrite (Hkeep i Hri); exact Hg|exact Hj|].
      rewrite (Hkeep j Hrj). exact Hg'.
Qed.

(* ---- free-list well-formedness: allocation never lands on a live object ------------------- *)
Definition heap_wf (h : heap) : Prop :=
  NoDup (free h) /\ forall x, In x (free h) -> get h x = None /\ (N.to_nat x < length (slots h))%nat.

Lemma freed_slots_lt : forall s i m x, In x (freed_slots s i m) -> i <= x /\ x < i + N.of_nat (length s).
Proof.
  intros s i m x H. apply freed_slots_spec in H. destruct H as (n & o & -> & Hn & _).
  assert (n < length s)%nat by (apply nth_error_Some; rewrite Hn; discriminate). lia.
Qed.

Lemma freed_slots_NoDup : forall s i m, NoDup (freed_slots s i m).
Proof.
  induction s as [|y t IH]; intros i m; cbn [freed_slots]; [constructor|].
  destruct y as [o|]; [destruct (mem i m)|]; try apply IH.
  constructor; [|apply IH]. intro Hin. apply freed_slots_lt in Hin. lia.
Qed.

Lemma NoDup_app_intro : forall {A} (a b : list A),
  NoDup a -> NoDup b -> (forall x, In x a -> In x b -> False) -> NoDup (a ++ b).
Proof.
  intros A a b Ha Hb Hd. induction Ha as [|x a Hx Ha IH]; [exact Hb|].
  cbn [app]. constructor.
  - intro Hin. apply in_app_or in Hin. destruct Hin as [Hin|Hin]; [exact (Hx Hin)|].
    exact (Hd x (or_introl eq_refl) Hin).
  - apply IH. intros y Hy. apply Hd. right. exact Hy.
Qed.

Lemma sweep_wf : forall h m, heap_wf h -> heap_wf (sweep h m).
Proof.
  intros h m [Hnd Hfree]. split.
  - unfold sweep. cbn [free]. apply NoDup_app_intro.
    + apply NoDup_rev. apply freed_slots_NoDup.
    + exact Hnd.
    + intros x Hx Hx'. apply in_rev in Hx. apply freed_slots_spec in Hx.
      destruct Hx as (n & o & Hxe & Hn & _). destruct (Hfree x Hx') as [Hg _].
      unfold get in Hg. replace (0 + N.of_nat n) with (N.of_nat n) in Hxe by lia. subst x.
      rewrite Nat2N.id, Hn in Hg. discriminate.
  - intros x Hx. split.
    + rewrite get_sweep. apply sweep_free_spec in Hx. destruct Hx as [Hx|[[o Hg] Hm]].
      * destruct (Hfree x Hx) as [Hg _]. rewrite Hg. destruct (mem x m); reflexivity.
      * apply mem_false in Hm. rewrite Hm. reflexivity.
    + unfold sweep. cbn [slots]. rewrite sweep_slots_length.
      apply sweep_free_spec in Hx. destruct Hx as [Hx|[[o Hg] _]].
      * apply (Hfree x Hx).
      * exact (get_in_range h x o Hg).
Qed.

Lemma get_app_new : forall (s : list (option obj)) (o : obj) (j : nat),
  nth_error (s ++ [Some o]) j = if Nat.eqb j (length s) then Some (Some o) else nth_error s j.
Proof.
  intros s o j. destruct (Nat.eqb j (length s)) eqn:He.
  - apply Nat.eqb_eq in He. subst j. rewrite nth_error_app2 by lia. rewrite Nat.sub_diag. reflexivity.
  - apply Nat.eqb_neq in He. destruct (Nat.lt_ge_cases j (length s)) as [Hlt|Hge].
    + rewrite nth_error_app1 by exact Hlt. reflexivity.
    + rewrite nth_error_app2 by lia. destruct (j - length s)%nat as [|k] eqn:Hk; [lia|].
      cbn [nth_error]. destruct k; cbn [nth_error]; symmetry; apply nth_error_None; lia.
Qed.

(* Heap::alloc on a well-formed heap: the slot handed out was empty, every other slot is
   untouched, the heap stays well-formed *)
Lemma alloc_preserves_live : forall h o h2 i,
  heap_wf h -> alloc h o = (h2, i) ->
  get h i = None /\ get h2 i = Some o /\ (forall j, j <> i -> get h2 j = get h j) /\ heap_wf h2.
Proof.
  intros h o h2 i [Hnd Hfree] Ha. unfold alloc in Ha. destruct (free h) as [|x rest] eqn:Hf.
  - injection Ha as <- <-. 
    assert (Hnone : get h (N.of_nat (length (slots h))) = None).
    { unfold get. rewrite Nat2N.id. 
      assert (Hn : nth_error (slots h) (length (slots h)) = None) by (apply nth_error_None; lia).
      rewrite Hn. reflexivity. }
    split; [exact Hnone|]. split; [|split].
    + unfold get. cbn [slots]. rewrite Nat2N.id, get_app_new, Nat.eqb_refl. reflexivity.
    + intros j Hj. unfold get. cbn [slots]. rewrite get_app_new.
      destruct (Nat.eqb (N.to_nat j) (length (slots h))) eqn:He; [|reflexivity].
      apply Nat.eqb_eq in He. exfalso. apply Hj. lia.
    + split; cbn [free]; [constructor|intros y []].
  - injection Ha as <- <-. destruct (Hfree x (or_introl eq_refl)) as [Hgx Hlen].
    inversion Hnd as [|? ? Hnotin Hnd']. subst.
    split; [exact Hgx|]. split; [|split].
    + unfold get. cbn [slots]. rewrite nth_set_slot_same by exact Hlen. reflexivity.
    + intros j Hj. unfold get. cbn [slots]. rewrite nth_set_slot_other; [reflexivity|]. intro He. apply Hj. lia.
    + split; cbn [free slots]; [exact Hnd'|].
      intros y Hy. destruct (Hfree y (or_intror Hy)) as [Hgy Hly]. split.
      * unfold get. cbn [slots]. rewrite nth_set_slot_other.
        -- exact Hgy.
        -- intro He. apply Hnotin. replace x with y by lia. exact Hy.
      * assert (Hl : length (set_slot (slots h) (N.to_nat x) o) = length (slots h)).
        { clear. generalize (N.to_nat x). induction (slots h) as [|a t IH]; intros n; [destruct n; reflexivity|].
          destruct n; cbn [set_slot length]; [reflexivity|rewrite IH; reflexivity]. }
        rewrite Hl. exact Hly.
Qed.
