(* Lemmas about Model/ManualHeap.v: invariant, refinement to the map-of-arrays specification,
   and its consequences (C09). *)
From Aelys Require Import Base.Tactics Extracted.ManualMem Model.ManualHeap.
Local Open Scope N_scope.

(* ------------------------------------------------------------------ lists indexed by N *)
Lemma nth_N_Some {A} (l : list A) i x :
  nth_N l i = Some x -> i < N.of_nat (length l) /\ nth_error l (N.to_nat i) = Some x.
Proof.
  unfold nth_N. destruct (i <? N.of_nat (length l)) eqn:E; [|discriminate].
  intro H. split; [lia|exact H].
Qed.

Lemma nth_N_None {A} (l : list A) i : nth_N l i = None <-> N.of_nat (length l) <= i.
Proof.
  unfold nth_N. destruct (i <? N.of_nat (length l)) eqn:E.
  - split; [|lia]. intro H. apply nth_error_None in H. lia.
  - split; [lia|reflexivity].
Qed.

Lemma nth_N_lt {A} (l : list A) i : i < N.of_nat (length l) -> exists x, nth_N l i = Some x.
Proof.
  intro H. destruct (nth_N l i) eqn:E; [eauto|]. apply nth_N_None in E. lia.
Qed.

Lemma length_upd {A} (l : list A) i x : length (upd l i x) = length l.
Proof. revert i; induction l as [|h t IH]; intros [|k]; cbn; auto. Qed.

Lemma nth_error_upd_eq {A} (l : list A) i x : (i < length l)%nat -> nth_error (upd l i x) i = Some x.
Proof.
  revert i; induction l as [|h t IH]; intros [|k] H; cbn in *; try lia; auto. apply IH. lia.
Qed.

Lemma nth_error_upd_ne {A} (l : list A) i j x : i <> j -> nth_error (upd l i x) j = nth_error l j.
Proof.
  revert i j; induction l as [|h t IH]; intros [|k] [|m] H; cbn; auto; try congruence.
Qed.

Lemma length_upd_N {A} (l : list A) i x : length (upd_N l i x) = length l.
Proof. apply length_upd. Qed.

Lemma nth_N_upd_eq {A} (l : list A) i x : i < N.of_nat (length l) -> nth_N (upd_N l i x) i = Some x.
Proof.
  intro H. unfold nth_N, upd_N. rewrite length_upd.
  destruct (i <? N.of_nat (length l)) eqn:E; [|lia]. apply nth_error_upd_eq. lia.
Qed.

Lemma nth_N_upd_ne {A} (l : list A) i j x : i <> j -> nth_N (upd_N l i x) j = nth_N l j.
Proof.
  intro H. unfold nth_N, upd_N. rewrite length_upd.
  destruct (j <? N.of_nat (length l)); [|reflexivity]. apply nth_error_upd_ne. lia.
Qed.

Lemma nth_N_app_l {A} (l m : list A) i : i < N.of_nat (length l) -> nth_N (l ++ m) i = nth_N l i.
Proof.
  intro H. unfold nth_N. rewrite app_length.
  destruct (i <? N.of_nat (length l + length m)) eqn:E1; destruct (i <? N.of_nat (length l)) eqn:E2; try lia.
  apply nth_error_app1. lia.
Qed.

Lemma nth_N_app_last {A} (l : list A) x : nth_N (l ++ [x]) (N.of_nat (length l)) = Some x.
Proof.
  unfold nth_N. rewrite app_length. cbn [length].
  destruct (N.of_nat (length l) <? N.of_nat (length l + 1)) eqn:E; [|lia].
  rewrite Nat2N.id, nth_error_app2 by lia. rewrite Nat.sub_diag. reflexivity.
Qed.

Lemma nth_N_app_beyond {A} (l : list A) x i : N.of_nat (length l) < i -> nth_N (l ++ [x]) i = None.
Proof. intro H. apply nth_N_None. rewrite app_length. cbn [length]. lia. Qed.

Lemma upd_N_same_len_nth {A} (l : list A) i x j :
  nth_N (upd_N l i x) j = if (i =? j) && (j <? N.of_nat (length l)) then Some x else nth_N l j.
Proof.
  destruct (N.eq_dec i j) as [->|Hne].
  - rewrite N.eqb_refl. cbn [andb]. destruct (j <? N.of_nat (length l)) eqn:E.
    + apply nth_N_upd_eq. lia.
    + assert (H : nth_N l j = None) by (apply nth_N_None; lia). rewrite H.
      apply nth_N_None. rewrite length_upd_N. lia.
  - replace (i =? j) with false by lia. cbn [andb]. apply nth_N_upd_ne. exact Hne.
Qed.

(* ------------------------------------------------------------------ live_total *)
Definition slot_w (sl : mslot) : N := if sl_freed sl then 0 else N.of_nat (length (sl_data sl)).

Lemma live_total_cons sl r : live_total (sl :: r) = slot_w sl + live_total r.
Proof. reflexivity. Qed.

Lemma live_total_app a b : live_total (a ++ b) = live_total a + live_total b.
Proof. induction a as [|x t IH]; [cbn; lia|]. cbn [app]. rewrite !live_total_cons, IH. lia. Qed.

Lemma live_total_upd l i old x :
  nth_error l i = Some old -> live_total (upd l i x) + slot_w old = live_total l + slot_w x.
Proof.
  revert i; induction l as [|h t IH]; intros [|k] H; cbn [nth_error] in H; try discriminate.
  - inversion H; subst. cbn [upd]. rewrite !live_total_cons. lia.
  - cbn [upd]. rewrite !live_total_cons. specialize (IH k H). lia.
Qed.

Lemma live_total_ge l i sl : nth_error l i = Some sl -> slot_w sl <= live_total l.
Proof.
  revert i; induction l as [|h t IH]; intros [|k] H; cbn [nth_error] in H; try discriminate.
  - inversion H; subst. rewrite live_total_cons. lia.
  - rewrite live_total_cons. specialize (IH k H). lia.
Qed.

(* ------------------------------------------------------------------ the invariant *)
Record Inv (s : mheap) : Prop := {
  inv_fl : forall i, In i (free_list s) -> exists sl, nth_N (allocs s) i = Some sl /\ sl_freed sl = true;
  inv_nodup : NoDup (free_list s);
  inv_bytes : bytes s = VALUE_SIZE * live_total (allocs s);
  inv_lt : bytes s < USIZE
}.

Lemma inv_empty : Inv mh_empty.
Proof. constructor; cbn; try (intros; contradiction); try constructor; try reflexivity. Qed.

(* the guard under which the raw ManualHeap::alloc cannot reach its checked_add failure: the
   charge after the allocation still fits a usize *)
Definition mh_fits (s : mheap) (o : mop) : Prop :=
  match o with MAlloc n => bytes s + n * VALUE_SIZE < USIZE | _ => True end.

Lemma vs8 : VALUE_SIZE = 8. Proof. reflexivity. Qed.

(* ------------------------------------------------------------------ step characterisations *)
Lemma mh_alloc_ok_spec s n :
  Inv s -> n <> 0 -> bytes s + n * VALUE_SIZE < USIZE ->
  exists h,
    mh_alloc s n = ({| allocs := match free_list s with
                                 | idx :: _ => upd_N (allocs s) idx {| sl_data := repeat VNULL (N.to_nat n); sl_freed := false |}
                                 | [] => allocs s ++ [{| sl_data := repeat VNULL (N.to_nat n); sl_freed := false |}]
                                 end;
                       free_list := tl (free_list s);
                       bytes := bytes s + n * VALUE_SIZE |}, ROkHandle h)
    /\ h = match free_list s with idx :: _ => idx | [] => N.of_nat (length (allocs s)) end
    /\ abs s h = None.
Proof.
  intros HI Hn Hfit. unfold mh_alloc, allocation_bytes.
  replace (n =? 0) with false by lia.
  replace (n * VALUE_SIZE <? USIZE) with true by lia.
  destruct (free_list s) as [|idx rest] eqn:Efl.
  - cbn [negb]. replace (bytes s + n * VALUE_SIZE <? USIZE) with true by lia.
    eexists; split; [reflexivity|]. split; [reflexivity|].
    unfold abs. replace (nth_N (allocs s) (N.of_nat (length (allocs s)))) with (@None mslot); [reflexivity|].
    symmetry. apply nth_N_None. lia.
  - destruct (inv_fl s HI idx) as [sl [Hsl Hfr]]; [rewrite Efl; left; reflexivity|].
    apply nth_N_Some in Hsl as Hlt. destruct Hlt as [Hlt _].
    replace (idx <? N.of_nat (length (allocs s))) with true by lia. cbn [negb].
    replace (bytes s + n * VALUE_SIZE <? USIZE) with true by lia.
    eexists; split; [reflexivity|]. split; [reflexivity|].
    unfold abs. rewrite Hsl, Hfr. reflexivity.
Qed.

Lemma repeat_len (n : N) : N.of_nat (length (repeat VNULL (N.to_nat n))) = n.
Proof. rewrite repeat_length. apply N2Nat.id. Qed.

Lemma inv_alloc s n s' h :
  Inv s -> n <> 0 -> bytes s + n * VALUE_SIZE < USIZE -> mh_alloc s n = (s', ROkHandle h) -> Inv s'.
Proof.
  intros HI Hn Hfit Hst.
  destruct (mh_alloc_ok_spec s n HI Hn Hfit) as [h0 [Heq [Hh Habs]]].
  rewrite Heq in Hst. inversion Hst; subst s' h; clear Hst Heq.
  set (slot := {| sl_data := repeat VNULL (N.to_nat n); sl_freed := false |}).
  assert (Hw : slot_w slot = n) by (unfold slot_w, slot; cbn; apply repeat_len).
  destruct (free_list s) as [|idx rest] eqn:Efl.
  - constructor; cbn [allocs free_list bytes tl].
    + intros i [].
    + constructor.
    + rewrite live_total_app. cbn [live_total]. fold (slot_w slot). rewrite Hw, (inv_bytes s HI). lia.
    + lia.
  - pose proof (inv_nodup s HI) as Hnd. rewrite Efl in Hnd. apply NoDup_cons_iff in Hnd as [Hnotin Hnd'].
    destruct (inv_fl s HI idx) as [sl [Hsl Hfr]]; [rewrite Efl; left; reflexivity|].
    apply nth_N_Some in Hsl as [Hlt Hne].
    constructor; cbn [allocs free_list bytes tl].
    + intros i Hi. destruct (inv_fl s HI i) as [sl' [Hsl' Hfr']]; [rewrite Efl; right; exact Hi|].
      exists sl'. split; [|exact Hfr']. rewrite nth_N_upd_ne; [exact Hsl'|]. intros ->. contradiction.
    + exact Hnd'.
    + pose proof (live_total_upd (allocs s) (N.to_nat idx) sl slot Hne) as Ht.
      unfold upd_N. assert (slot_w sl = 0) by (unfold slot_w; rewrite Hfr; reflexivity).
      rewrite Hw in Ht. rewrite (inv_bytes s HI). lia.
    + lia.
Qed.

Lemma mh_free_ok_spec s h sl :
  Inv s -> nth_N (allocs s) h = Some sl -> sl_freed sl = false ->
  mh_free s h = ({| allocs := upd_N (allocs s) h {| sl_data := []; sl_freed := true |};
                    free_list := h :: free_list s;
                    bytes := bytes s - N.of_nat (length (sl_data sl)) * VALUE_SIZE |}, ROkUnit)
  /\ N.of_nat (length (sl_data sl)) * VALUE_SIZE <= bytes s
  /\ N.of_nat (length (sl_data sl)) * VALUE_SIZE < USIZE.
Proof.
  intros HI Hsl Hfr.
  apply nth_N_Some in Hsl as Hx. destruct Hx as [Hlt Hne].
  pose proof (live_total_ge _ _ _ Hne) as Hge. unfold slot_w in Hge. rewrite Hfr in Hge.
  pose proof (inv_bytes s HI) as Hb. pose proof (inv_lt s HI) as Hl. rewrite vs8 in *.
  assert (H1 : N.of_nat (length (sl_data sl)) * 8 <= bytes s) by lia.
  split; [|split; lia].
  unfold mh_free. rewrite Hsl, Hfr. rewrite vs8.
  replace (N.of_nat (length (sl_data sl)) * 8 <? USIZE) with true by lia.
  unfold sat_sub. replace (bytes s <? N.of_nat (length (sl_data sl)) * 8) with false by lia. reflexivity.
Qed.

Lemma inv_free s h sl :
  Inv s -> nth_N (allocs s) h = Some sl -> sl_freed sl = false -> Inv (fst (mh_free s h)).
Proof.
  intros HI Hsl Hfr. destruct (mh_free_ok_spec s h sl HI Hsl Hfr) as [Heq [Hle Hlt]].
  rewrite Heq. cbn [fst]. apply nth_N_Some in Hsl as Hx. destruct Hx as [Hlt' Hne].
  constructor; cbn [allocs free_list bytes].
  - intros i [<-|Hi].
    + exists {| sl_data := []; sl_freed := true |}. split; [apply nth_N_upd_eq; exact Hlt'|reflexivity].
    + destruct (inv_fl s HI i Hi) as [sl' [Hsl' Hfr']].
      destruct (N.eq_dec h i) as [->|Hne'].
      * rewrite Hsl in Hsl'. inversion Hsl'; subst. congruence.
      * exists sl'. split; [|exact Hfr']. rewrite nth_N_upd_ne; assumption.
  - constructor; [|apply (inv_nodup s HI)].
    intro Hin. destruct (inv_fl s HI h Hin) as [sl' [Hsl' Hfr']]. rewrite Hsl in Hsl'. inversion Hsl'; subst. congruence.
  - pose proof (live_total_upd (allocs s) (N.to_nat h) sl {| sl_data := []; sl_freed := true |} Hne) as Ht.
    unfold slot_w in Ht at 1 2. rewrite Hfr in Ht. cbn [sl_freed] in Ht.
    unfold upd_N. pose proof (inv_bytes s HI). rewrite vs8 in *. lia.
  - pose proof (inv_lt s HI). lia.
Qed.

Lemma inv_store s h off v sl :
  Inv s -> nth_N (allocs s) h = Some sl -> sl_freed sl = false ->
  Inv {| allocs := upd_N (allocs s) h {| sl_data := upd_N (sl_data sl) off v; sl_freed := false |};
         free_list := free_list s; bytes := bytes s |}.
Proof.
  intros HI Hsl Hfr. apply nth_N_Some in Hsl as Hx. destruct Hx as [Hlt Hne].
  constructor; cbn [allocs free_list bytes].
  - intros i Hi. destruct (inv_fl s HI i Hi) as [sl' [Hsl' Hfr']].
    destruct (N.eq_dec h i) as [->|Hne'].
    + rewrite Hsl in Hsl'. inversion Hsl'; subst. congruence.
    + exists sl'. split; [|exact Hfr']. rewrite nth_N_upd_ne; assumption.
  - apply (inv_nodup s HI).
  - pose proof (live_total_upd (allocs s) (N.to_nat h) sl
                  {| sl_data := upd_N (sl_data sl) off v; sl_freed := false |} Hne) as Ht.
    unfold slot_w in Ht at 1 2. rewrite Hfr in Ht. cbn [sl_freed sl_data] in Ht. rewrite length_upd_N in Ht.
    unfold upd_N at 1. pose proof (inv_bytes s HI). lia.
  - apply (inv_lt s HI).
Qed.

(* every error leaves the state literally unchanged (under the guard for alloc) *)
Lemma mh_err_unchanged s o :
  Inv s -> mh_fits s o -> is_err (snd (mh_step s o)) = true -> fst (mh_step s o) = s.
Proof.
  intros HI Hfit He. destruct o as [n|h|h off|h off v|h]; cbn [mh_step] in *.
  - cbn [mh_fits] in Hfit. destruct (N.eq_dec n 0) as [->|Hn]; [reflexivity|].
    destruct (mh_alloc_ok_spec s n HI Hn Hfit) as [h0 [Heq _]]. rewrite Heq in He. discriminate.
  - unfold mh_free in *. destruct (nth_N (allocs s) h) as [sl|]; [|reflexivity].
    destruct (sl_freed sl); [reflexivity|discriminate].
  - reflexivity.
  - unfold mh_store in *. destruct (nth_N (allocs s) h) as [sl|]; [|reflexivity].
    destruct (sl_freed sl); [reflexivity|].
    destruct (N.of_nat (length (sl_data sl)) <=? off); [reflexivity|discriminate].
  - reflexivity.
Qed.

Lemma mh_step_inv s o : Inv s -> mh_fits s o -> Inv (fst (mh_step s o)).
Proof.
  intros HI Hfit. destruct o as [n|h|h off|h off v|h]; cbn [mh_step fst]; try exact HI.
  - cbn [mh_fits] in Hfit. destruct (N.eq_dec n 0) as [->|Hn]; [exact HI|].
    destruct (mh_alloc_ok_spec s n HI Hn Hfit) as [h0 [Heq _]].
    eapply inv_alloc; eauto. rewrite Heq. reflexivity.
  - destruct (nth_N (allocs s) h) as [sl|] eqn:Hsl.
    + destruct (sl_freed sl) eqn:Hfr.
      * unfold mh_free. rewrite Hsl, Hfr. exact HI.
      * eapply inv_free; eauto.
    + unfold mh_free. rewrite Hsl. exact HI.
  - unfold mh_store. destruct (nth_N (allocs s) h) as [sl|] eqn:Hsl; [|exact HI].
    destruct (sl_freed sl) eqn:Hfr; [exact HI|].
    destruct (N.of_nat (length (sl_data sl)) <=? off); [exact HI|].
    cbn [fst]. eapply inv_store; eauto.
Qed.

Lemma mh_never_panics s o : Inv s -> mh_fits s o -> snd (mh_step s o) <> RPanic.
Proof.
  intros HI Hfit. destruct o as [n|h|h off|h off v|h]; cbn [mh_step snd].
  - cbn [mh_fits] in Hfit. destruct (N.eq_dec n 0) as [->|Hn]; [cbn; discriminate|].
    destruct (mh_alloc_ok_spec s n HI Hn Hfit) as [h0 [Heq _]]. rewrite Heq. discriminate.
  - unfold mh_free. destruct (nth_N (allocs s) h) as [sl|]; [destruct (sl_freed sl)|]; discriminate.
  - unfold mh_load. destruct (nth_N (allocs s) h) as [sl|]; [destruct (sl_freed sl); [|destruct (nth_N (sl_data sl) off)]|]; discriminate.
  - unfold mh_store. destruct (nth_N (allocs s) h) as [sl|]; [destruct (sl_freed sl); [|destruct (N.of_nat (length (sl_data sl)) <=? off)]|]; discriminate.
  - unfold mh_size. destruct (nth_N (allocs s) h) as [sl|]; [destruct (sl_freed sl)|]; discriminate.
Qed.

(* ------------------------------------------------------------------ the specification side *)
Lemma sm_get_remove_eq m h : sm_get (sm_remove m h) h = None.
Proof.
  induction m as [|[k d] r IH]; [reflexivity|]. cbn [sm_remove].
  destruct (k =? h) eqn:E; [exact IH|]. cbn [sm_get]. rewrite E. exact IH.
Qed.

Lemma sm_get_remove_ne m h k : h <> k -> sm_get (sm_remove m h) k = sm_get m k.
Proof.
  intro Hne. induction m as [|[j d] r IH]; [reflexivity|]. cbn [sm_remove sm_get].
  destruct (j =? h) eqn:E.
  - replace (j =? k) with false by lia. exact IH.
  - cbn [sm_get]. rewrite IH. reflexivity.
Qed.

Lemma sm_get_set m h d k : sm_get (sm_set m h d) k = if h =? k then Some d else sm_get m k.
Proof.
  unfold sm_set. cbn [sm_get]. destruct (h =? k) eqn:E; [reflexivity|]. apply sm_get_remove_ne. lia.
Qed.

Definition keys (m : smap) : list N := map fst m.

Lemma sm_get_None_notin m h : sm_get m h = None <-> ~ In h (keys m).
Proof.
  induction m as [|[k d] r IH]; cbn [sm_get keys map fst In]; [tauto|].
  destruct (k =? h) eqn:E.
  - split; [discriminate|]. intro H. exfalso. apply H. left. lia.
  - rewrite IH. split; [intros H [H1|H1]; [lia|auto]|intros H H1; apply H; right; exact H1].
Qed.

Lemma keys_remove_subset m h k : In k (keys (sm_remove m h)) -> In k (keys m).
Proof.
  induction m as [|[j d] r IH]; [cbn; auto|]. cbn [sm_remove].
  destruct (j =? h); cbn [keys map fst In] in *; intro H; [right; auto|destruct H; auto].
Qed.

Lemma nodup_remove m h : NoDup (keys m) -> NoDup (keys (sm_remove m h)).
Proof.
  induction m as [|[j d] r IH]; [cbn; auto|]. cbn [keys map fst]. intro H. inversion H as [|? ? Hn Hr]; subst.
  cbn [sm_remove]. destruct (j =? h); [apply IH; exact Hr|].
  cbn [keys map fst]. constructor; [|apply IH; exact Hr]. intro Hin. apply Hn. eapply keys_remove_subset. exact Hin.
Qed.

Lemma sm_remove_absent m h : ~ In h (keys m) -> sm_remove m h = m.
Proof.
  induction m as [|[j d] r IH]; [reflexivity|]. cbn [keys map fst In sm_remove]. intro H.
  destruct (j =? h) eqn:E; [exfalso; apply H; left; lia|]. rewrite IH; [reflexivity|]. tauto.
Qed.

Lemma sm_total_remove m h d :
  NoDup (keys m) -> sm_get m h = Some d -> sm_total (sm_remove m h) + N.of_nat (length d) = sm_total m.
Proof.
  induction m as [|[j e] r IH]; [discriminate|]. cbn [keys map fst sm_get sm_remove sm_total].
  intros Hnd Hg. inversion Hnd as [|? ? Hn Hr]; subst.
  destruct (j =? h) eqn:E.
  - inversion Hg; subst. assert (j = h) by lia. subst. rewrite sm_remove_absent by exact Hn. lia.
  - cbn [sm_total]. specialize (IH Hr Hg). lia.
Qed.

(* the simulation relation *)
Record Sim (s : mheap) (sp : spec) : Prop := {
  sim_get : forall h, abs s h = sm_get (live sp) h;
  sim_issued : forall h, mem_N h (issued sp) = (h <? N.of_nat (length (allocs s)));
  sim_nodup : NoDup (keys (live sp));
  sim_total : sm_total (live sp) = live_total (allocs s)
}.

Lemma abs_nth s h :
  abs s h = match nth_N (allocs s) h with Some sl => if sl_freed sl then None else Some (sl_data sl) | None => None end.
Proof. reflexivity. Qed.

Lemma sim_empty : Sim mh_empty sp_empty.
Proof.
  constructor.
  - intro h. rewrite abs_nth. replace (nth_N (allocs mh_empty) h) with (@None mslot); [reflexivity|].
    symmetry. apply nth_N_None. cbn. lia.
  - intro h. cbn. lia.
  - constructor.
  - reflexivity.
Qed.


Lemma mem_N_cons h k l : mem_N h (k :: l) = (h =? k) || mem_N h l.
Proof. reflexivity. Qed.

(* one step of the implementation is one step of the specification *)
Lemma mh_refines_lemma s sp o :
  Inv s -> Sim s sp -> mh_fits s o ->
  Inv (fst (mh_step s o))
  /\ snd (spec_step sp o (snd (mh_step s o))) = snd (mh_step s o)
  /\ Sim (fst (mh_step s o)) (fst (spec_step sp o (snd (mh_step s o)))).
Proof.
  intros HI HS Hfit. split; [apply mh_step_inv; assumption|].
  destruct o as [n|h|h off|h off v|h]; cbn [mh_step spec_step].
  - (* alloc *)
    cbn [mh_fits] in Hfit. destruct (N.eq_dec n 0) as [->|Hn].
    { cbn. split; [reflexivity|exact HS]. }
    destruct (mh_alloc_ok_spec s n HI Hn Hfit) as [h0 [Heq [Hh Habs]]]. rewrite Heq. cbn [fst snd].
    replace (n =? 0) with false by lia. replace (USIZE <=? n * VALUE_SIZE) with false by lia. cbn [orb].
    assert (Hc3 : (USIZE <=? (sm_total (live sp) + n) * VALUE_SIZE) = false).
    { rewrite (sim_total s sp HS). pose proof (inv_bytes s HI) as Hb0. rewrite vs8 in *. lia. }
    rewrite Hc3.
    rewrite <- (sim_get s sp HS h0), Habs. cbn [fst snd]. split; [reflexivity|].
    set (slot := {| sl_data := repeat VNULL (N.to_nat n); sl_freed := false |}).
    assert (Hw : slot_w slot = n) by (unfold slot_w, slot; cbn; apply repeat_len).
    destruct (free_list s) as [|idx rest] eqn:Efl.
    + subst h0. constructor; cbn [allocs live issued].
      * intro k. rewrite abs_nth. cbn [allocs sm_get].
        destruct (N.lt_trichotomy k (N.of_nat (length (allocs s)))) as [Hlt|[->|Hgt]].
        -- rewrite nth_N_app_l by exact Hlt. replace (N.of_nat (length (allocs s)) =? k) with false by lia.
           rewrite <- (sim_get s sp HS k). reflexivity.
        -- rewrite nth_N_app_last, N.eqb_refl. reflexivity.
        -- rewrite nth_N_app_beyond by exact Hgt. replace (N.of_nat (length (allocs s)) =? k) with false by lia.
           rewrite <- (sim_get s sp HS k), abs_nth.
           replace (nth_N (allocs s) k) with (@None mslot); [reflexivity|]. symmetry. apply nth_N_None. lia.
      * intro k. rewrite mem_N_cons, (sim_issued s sp HS k), app_length. cbn [length]. lia.
      * cbn [keys map fst]. constructor; [|apply (sim_nodup s sp HS)].
        apply sm_get_None_notin. rewrite <- (sim_get s sp HS). exact Habs.
      * cbn [sm_total]. rewrite live_total_app. cbn [live_total]. fold (slot_w slot).
        rewrite Hw, repeat_len, (sim_total s sp HS). lia.
    + subst h0. destruct (inv_fl s HI idx) as [sl [Hsl Hfr]]; [rewrite Efl; left; reflexivity|].
      apply nth_N_Some in Hsl as Hx. destruct Hx as [Hlt Hne].
      constructor; cbn [allocs live issued].
      * intro k. rewrite abs_nth. cbn [allocs sm_get]. rewrite upd_N_same_len_nth.
        destruct (idx =? k) eqn:E.
        -- assert (idx = k) by lia. subst k. replace (idx <? N.of_nat (length (allocs s))) with true by lia. reflexivity.
        -- cbn [andb]. rewrite <- (sim_get s sp HS k). reflexivity.
      * intro k. rewrite mem_N_cons, (sim_issued s sp HS k), length_upd_N. lia.
      * cbn [keys map fst]. constructor; [|apply (sim_nodup s sp HS)].
        apply sm_get_None_notin. rewrite <- (sim_get s sp HS). exact Habs.
      * cbn [sm_total]. pose proof (live_total_upd (allocs s) (N.to_nat idx) sl slot Hne) as Ht.
        assert (slot_w sl = 0) by (unfold slot_w; rewrite Hfr; reflexivity).
        unfold upd_N. rewrite repeat_len, (sim_total s sp HS). lia.
  - (* free *)
    rewrite <- (sim_get s sp HS h), abs_nth.
    destruct (nth_N (allocs s) h) as [sl|] eqn:Hsl.
    + destruct (sl_freed sl) eqn:Hfr.
      * unfold mh_free. rewrite Hsl, Hfr. cbn [fst snd]. split; [|exact HS].
        unfold dead_kind. rewrite (sim_issued s sp HS h). apply nth_N_Some in Hsl as [Hlt _].
        replace (h <? N.of_nat (length (allocs s))) with true by lia. reflexivity.
      * destruct (mh_free_ok_spec s h sl HI Hsl Hfr) as [Heq _]. rewrite Heq. cbn [fst snd].
        split; [reflexivity|]. apply nth_N_Some in Hsl as Hx. destruct Hx as [Hlt Hne].
        constructor; cbn [allocs live issued].
        -- intro k. rewrite abs_nth. cbn [allocs]. rewrite upd_N_same_len_nth.
           destruct (h =? k) eqn:E.
           ++ assert (h = k) by lia. subst k. replace (h <? N.of_nat (length (allocs s))) with true by lia.
              cbn [andb sl_freed]. symmetry. apply sm_get_remove_eq.
           ++ cbn [andb]. rewrite sm_get_remove_ne by lia. rewrite <- (sim_get s sp HS k). reflexivity.
        -- intro k. rewrite (sim_issued s sp HS k), length_upd_N. reflexivity.
        -- apply nodup_remove. apply (sim_nodup s sp HS).
        -- assert (Hg : sm_get (live sp) h = Some (sl_data sl)).
           { rewrite <- (sim_get s sp HS h), abs_nth, Hsl, Hfr. reflexivity. }
           pose proof (sm_total_remove _ _ _ (sim_nodup s sp HS) Hg) as Hr.
           pose proof (live_total_upd (allocs s) (N.to_nat h) sl {| sl_data := []; sl_freed := true |} Hne) as Ht.
           unfold slot_w in Ht at 1 2. rewrite Hfr in Ht. cbn [sl_freed] in Ht.
           unfold upd_N. pose proof (sim_total s sp HS). lia.
    + unfold mh_free. rewrite Hsl. cbn [fst snd]. split; [|exact HS].
      unfold dead_kind. rewrite (sim_issued s sp HS h). apply nth_N_None in Hsl.
      replace (h <? N.of_nat (length (allocs s))) with false by lia. reflexivity.
  - (* load *)
    cbn [fst snd]. rewrite <- (sim_get s sp HS h), abs_nth. unfold mh_load.
    destruct (nth_N (allocs s) h) as [sl|] eqn:Hsl.
    + destruct (sl_freed sl) eqn:Hfr.
      * cbn [fst snd]. split; [|exact HS]. unfold dead_kind. rewrite (sim_issued s sp HS h).
        apply nth_N_Some in Hsl as [Hlt _]. replace (h <? N.of_nat (length (allocs s))) with true by lia. reflexivity.
      * cbn [fst snd]. split; [|exact HS]. destruct (nth_N (sl_data sl) off); reflexivity.
    + cbn [fst snd]. split; [|exact HS]. unfold dead_kind. rewrite (sim_issued s sp HS h). apply nth_N_None in Hsl.
      replace (h <? N.of_nat (length (allocs s))) with false by lia. reflexivity.
  - (* store *)
    rewrite <- (sim_get s sp HS h), abs_nth. unfold mh_store.
    destruct (nth_N (allocs s) h) as [sl|] eqn:Hsl.
    + destruct (sl_freed sl) eqn:Hfr.
      * cbn [fst snd]. split; [|exact HS]. unfold dead_kind. rewrite (sim_issued s sp HS h).
        apply nth_N_Some in Hsl as [Hlt _]. replace (h <? N.of_nat (length (allocs s))) with true by lia. reflexivity.
      * destruct (N.of_nat (length (sl_data sl)) <=? off) eqn:Eo.
        -- cbn [fst snd]. replace (off <? N.of_nat (length (sl_data sl))) with false by lia. cbn [fst snd]. split; [reflexivity|exact HS].
        -- cbn [fst snd]. replace (off <? N.of_nat (length (sl_data sl))) with true by lia. cbn [fst snd]. split; [reflexivity|].
           apply nth_N_Some in Hsl as Hx. destruct Hx as [Hlt Hne].
           constructor; cbn [allocs live issued].
           ++ intro k. rewrite abs_nth. cbn [allocs]. rewrite upd_N_same_len_nth, sm_get_set.
              destruct (h =? k) eqn:E.
              ** assert (h = k) by lia. subst k. replace (h <? N.of_nat (length (allocs s))) with true by lia. reflexivity.
              ** cbn [andb]. rewrite <- (sim_get s sp HS k). reflexivity.
           ++ intro k. rewrite (sim_issued s sp HS k), length_upd_N. reflexivity.
           ++ unfold sm_set. cbn [keys map fst]. constructor.
              ** apply sm_get_None_notin. apply sm_get_remove_eq.
              ** apply nodup_remove. apply (sim_nodup s sp HS).
           ++ assert (Hg : sm_get (live sp) h = Some (sl_data sl)).
              { rewrite <- (sim_get s sp HS h), abs_nth, Hsl, Hfr. reflexivity. }
              pose proof (sm_total_remove _ _ _ (sim_nodup s sp HS) Hg) as Hr.
              pose proof (live_total_upd (allocs s) (N.to_nat h) sl
                            {| sl_data := upd_N (sl_data sl) off v; sl_freed := false |} Hne) as Ht.
              unfold slot_w in Ht at 1 2. rewrite Hfr in Ht. cbn [sl_freed sl_data] in Ht. rewrite length_upd_N in Ht.
              unfold sm_set. cbn [sm_total]. rewrite length_upd_N. unfold upd_N in *.
              pose proof (sim_total s sp HS). lia.
    + cbn [fst snd]. split; [|exact HS]. unfold dead_kind. rewrite (sim_issued s sp HS h). apply nth_N_None in Hsl.
      replace (h <? N.of_nat (length (allocs s))) with false by lia. reflexivity.
  - (* size *)
    cbn [fst snd]. rewrite <- (sim_get s sp HS h), abs_nth. unfold mh_size.
    destruct (nth_N (allocs s) h) as [sl|] eqn:Hsl.
    + destruct (sl_freed sl) eqn:Hfr; cbn [fst snd]; (split; [|exact HS]); [|reflexivity].
      unfold dead_kind. rewrite (sim_issued s sp HS h).
      apply nth_N_Some in Hsl as [Hlt _]. replace (h <? N.of_nat (length (allocs s))) with true by lia. reflexivity.
    + cbn [fst snd]. split; [|exact HS]. unfold dead_kind. rewrite (sim_issued s sp HS h). apply nth_N_None in Hsl.
      replace (h <? N.of_nat (length (allocs s))) with false by lia. reflexivity.
Qed.

(* ------------------------------------------------------------------ no guard needed *)
(* Since the charge is checked before anything is touched, an allocation that does not fit is
   simply an InvalidSize error that changes nothing; every statement above therefore holds
   without [mh_fits]. *)
Lemma fits_dec s o : {mh_fits s o} + {~ mh_fits s o}.
Proof.
  destruct o as [n| | | |]; cbn [mh_fits]; try (left; exact I).
  destruct (bytes s + n * VALUE_SIZE <? USIZE) eqn:E; [left|right]; lia.
Qed.

Lemma nofit_step s o : ~ mh_fits s o -> mh_step s o = (s, RErr EInvalidSize).
Proof.
  destruct o as [n| | | |]; cbn [mh_fits]; try (intro H; exfalso; apply H; exact I).
  intro H. cbn [mh_step]. unfold mh_alloc, allocation_bytes.
  destruct (n =? 0); [reflexivity|]. destruct (n * VALUE_SIZE <? USIZE) eqn:E; [|reflexivity].
  replace (bytes s + n * VALUE_SIZE <? USIZE) with false by lia. reflexivity.
Qed.

Lemma nofit_spec s sp o r :
  Inv s -> Sim s sp -> ~ mh_fits s o -> spec_step sp o r = (sp, RErr EInvalidSize).
Proof.
  intros HI HS. destruct o as [n| | | |]; cbn [mh_fits]; try (intro H; exfalso; apply H; exact I).
  intro H. cbn [spec_step].
  assert (Hc : (n =? 0) || (USIZE <=? n * VALUE_SIZE) || (USIZE <=? (sm_total (live sp) + n) * VALUE_SIZE) = true).
  { rewrite (sim_total s sp HS). pose proof (inv_bytes s HI) as Hb0. rewrite vs8 in *.
    apply orb_true_iff. right. lia. }
  rewrite Hc. reflexivity.
Qed.

Lemma mh_err_unchanged_u s o : Inv s -> is_err (snd (mh_step s o)) = true -> fst (mh_step s o) = s.
Proof.
  intros HI He. destruct (fits_dec s o) as [Hf|Hf]; [apply mh_err_unchanged; assumption|].
  rewrite (nofit_step s o Hf). reflexivity.
Qed.

Lemma mh_step_inv_u s o : Inv s -> Inv (fst (mh_step s o)).
Proof.
  intro HI. destruct (fits_dec s o) as [Hf|Hf]; [apply mh_step_inv; assumption|].
  rewrite (nofit_step s o Hf). exact HI.
Qed.

Lemma mh_never_panics_u s o : Inv s -> snd (mh_step s o) <> RPanic.
Proof.
  intro HI. destruct (fits_dec s o) as [Hf|Hf]; [apply mh_never_panics; assumption|].
  rewrite (nofit_step s o Hf). discriminate.
Qed.

Lemma mh_refines_u s sp o :
  Inv s -> Sim s sp ->
  Inv (fst (mh_step s o))
  /\ snd (spec_step sp o (snd (mh_step s o))) = snd (mh_step s o)
  /\ Sim (fst (mh_step s o)) (fst (spec_step sp o (snd (mh_step s o)))).
Proof.
  intros HI HS. destruct (fits_dec s o) as [Hf|Hf]; [apply mh_refines_lemma; assumption|].
  rewrite (nofit_step s o Hf). cbn [fst snd]. rewrite (nofit_spec s sp o _ HI HS Hf). cbn [fst snd]. auto.
Qed.

(* ------------------------------------------------------------------ histories *)
Lemma mh_run_cons s o r :
  mh_run s (o :: r) = (fst (mh_run (fst (mh_step s o)) r), snd (mh_step s o) :: snd (mh_run (fst (mh_step s o)) r)).
Proof. cbn [mh_run]. destruct (mh_step s o) as [s1 x]. cbn [fst snd]. destruct (mh_run s1 r) as [s2 xs]. reflexivity. Qed.

Lemma mh_run_exec os : forall s, fst (mh_run s os) = mh_exec s os.
Proof.
  induction os as [|o r IH]; intro s; [reflexivity|]. rewrite mh_run_cons. cbn [fst]. rewrite IH. reflexivity.
Qed.

Lemma spec_run_cons sp o r x xs :
  spec_run sp (o :: r) (x :: xs) =
  (fst (spec_run (fst (spec_step sp o x)) r xs), snd (spec_step sp o x) :: snd (spec_run (fst (spec_step sp o x)) r xs)).
Proof. cbn [spec_run]. destruct (spec_step sp o x) as [sp1 y]. cbn [fst snd]. destruct (spec_run sp1 r xs) as [sp2 ys]. reflexivity. Qed.

Lemma mh_refines_history_lemma os : forall s sp,
  Inv s -> Sim s sp ->
  Inv (mh_exec s os)
  /\ snd (spec_run sp os (snd (mh_run s os))) = snd (mh_run s os)
  /\ Sim (mh_exec s os) (fst (spec_run sp os (snd (mh_run s os)))).
Proof.
  induction os as [|o r IH]; intros s sp HI HS.
  - cbn. auto.
  - destruct (mh_refines_u s sp o HI HS) as [HI1 [Hr HS1]].
    rewrite mh_run_cons. cbn [fst snd]. rewrite spec_run_cons. cbn [fst snd].
    destruct (IH _ _ HI1 HS1) as [HI2 [Hr2 HS2]].
    cbn [mh_exec fold_left]. fold (mh_exec (fst (mh_step s o)) r).
    split; [exact HI2|]. split; [rewrite Hr, Hr2; reflexivity|exact HS2].
Qed.

(* ------------------------------------------------------------------ consequences *)
Lemma load_cell s h off v : mh_load s h off = ROkVal v <-> cell s h off = Some v.
Proof.
  unfold mh_load, cell, abs. destruct (nth_N (allocs s) h) as [sl|]; [|split; discriminate].
  destruct (sl_freed sl); [split; discriminate|].
  destruct (nth_N (sl_data sl) off); split; intro H; inversion H; reflexivity.
Qed.

Lemma store_ok_inv s h off v s' :
  mh_store s h off v = (s', ROkUnit) ->
  exists sl, nth_N (allocs s) h = Some sl /\ sl_freed sl = false /\ off < N.of_nat (length (sl_data sl))
    /\ s' = {| allocs := upd_N (allocs s) h {| sl_data := upd_N (sl_data sl) off v; sl_freed := false |};
               free_list := free_list s; bytes := bytes s |}.
Proof.
  unfold mh_store. destruct (nth_N (allocs s) h) as [sl|] eqn:Hsl; [|discriminate].
  destruct (sl_freed sl) eqn:Hfr; [discriminate|].
  destruct (N.of_nat (length (sl_data sl)) <=? off) eqn:E; [discriminate|].
  intro H. inversion H. exists sl. repeat split; try assumption. lia.
Qed.

Lemma load_after_store_lemma s h off v s' :
  mh_store s h off v = (s', ROkUnit) -> mh_load s' h off = ROkVal v.
Proof.
  intro H. destruct (store_ok_inv _ _ _ _ _ H) as [sl [Hsl [Hfr [Hlt ->]]]].
  apply nth_N_Some in Hsl as [Hh _].
  unfold mh_load. cbn [allocs]. rewrite nth_N_upd_eq by exact Hh. cbn [sl_freed sl_data].
  rewrite nth_N_upd_eq by exact Hlt. reflexivity.
Qed.

(* an operation that does not name h and does not hand h out leaves h exactly as it was *)
Lemma abs_step_other s o h :
  Inv s -> mh_fits s o -> op_target o <> Some h -> snd (mh_step s o) <> ROkHandle h ->
  abs (fst (mh_step s o)) h = abs s h.
Proof.
  intros HI Hfit Ht Hr. destruct o as [n|k|k off|k off v|k]; cbn [mh_step fst snd op_target] in *; try reflexivity.
  - cbn [mh_fits] in Hfit. destruct (N.eq_dec n 0) as [->|Hn]; [reflexivity|].
    destruct (mh_alloc_ok_spec s n HI Hn Hfit) as [h0 [Heq [Hh Habs]]]. rewrite Heq in *. cbn [fst snd] in *.
    assert (Hne : h0 <> h) by congruence.
    rewrite !abs_nth. cbn [allocs]. destruct (free_list s) as [|idx rest].
    + subst h0. destruct (N.lt_trichotomy h (N.of_nat (length (allocs s)))) as [Hlt|[->|Hgt]].
      * rewrite nth_N_app_l by exact Hlt. reflexivity.
      * congruence.
      * rewrite nth_N_app_beyond by exact Hgt.
        replace (nth_N (allocs s) h) with (@None mslot); [reflexivity|]. symmetry. apply nth_N_None. lia.
    + subst h0. rewrite nth_N_upd_ne by exact Hne. reflexivity.
  - assert (Hne : k <> h) by congruence. unfold mh_free.
    destruct (nth_N (allocs s) k) as [sl|]; [|reflexivity]. destruct (sl_freed sl); [reflexivity|].
    cbn [fst]. rewrite !abs_nth. cbn [allocs]. rewrite nth_N_upd_ne by exact Hne. reflexivity.
  - assert (Hne : k <> h) by congruence. unfold mh_store.
    destruct (nth_N (allocs s) k) as [sl|]; [|reflexivity]. destruct (sl_freed sl); [reflexivity|].
    destruct (N.of_nat (length (sl_data sl)) <=? off); [reflexivity|].
    cbn [fst]. rewrite !abs_nth. cbn [allocs]. rewrite nth_N_upd_ne by exact Hne. reflexivity.
Qed.

Lemma alloc_result_fresh s n h :
  Inv s -> mh_fits s (MAlloc n) -> snd (mh_alloc s n) = ROkHandle h -> abs s h = None.
Proof.
  intros HI Hfit Hr. cbn [mh_fits] in Hfit. destruct (N.eq_dec n 0) as [->|Hn]; [cbn in Hr; discriminate|].
  destruct (mh_alloc_ok_spec s n HI Hn Hfit) as [h0 [Heq [_ Habs]]]. rewrite Heq in Hr. cbn in Hr. congruence.
Qed.

Lemma isolation_lemma s o h d :
  Inv s -> mh_fits s o -> abs s h = Some d -> op_target o <> Some h ->
  abs (fst (mh_step s o)) h = Some d.
Proof.
  intros HI Hfit Hd Ht. rewrite abs_step_other; auto.
  intro Hr. destruct o as [n|k|k off|k off v|k]; cbn [mh_step snd] in Hr.
  - rewrite (alloc_result_fresh s n h HI Hfit Hr) in Hd. discriminate.
  - unfold mh_free in Hr. destruct (nth_N (allocs s) k) as [sl|]; [destruct (sl_freed sl)|]; discriminate.
  - unfold mh_load in Hr. destruct (nth_N (allocs s) k) as [sl|]; [destruct (sl_freed sl); [|destruct (nth_N (sl_data sl) off)]|]; discriminate.
  - unfold mh_store in Hr. destruct (nth_N (allocs s) k) as [sl|]; [destruct (sl_freed sl); [|destruct (N.of_nat (length (sl_data sl)) <=? off)]|]; discriminate.
  - unfold mh_size in Hr. destruct (nth_N (allocs s) k) as [sl|]; [destruct (sl_freed sl)|]; discriminate.
Qed.

Lemma isolation_u s o h d :
  Inv s -> abs s h = Some d -> op_target o <> Some h -> abs (fst (mh_step s o)) h = Some d.
Proof.
  intros HI Hd Ht. destruct (fits_dec s o) as [Hf|Hf]; [apply isolation_lemma; assumption|].
  rewrite (nofit_step s o Hf). exact Hd.
Qed.

Lemma opt_N_dec (a b : option N) : {a = b} + {a <> b}.
Proof. decide equality. apply N.eq_dec. Qed.

(* a single cell survives everything except a store to that very cell and a free of its buffer *)
Lemma cell_step_stable s o h off v :
  Inv s -> mh_fits s o -> cell s h off = Some v ->
  o <> MFree h -> (forall w, o <> MStore h off w) ->
  cell (fst (mh_step s o)) h off = Some v.
Proof.
  intros HI Hfit Hc Hnf Hns. unfold cell in *. destruct (abs s h) as [d|] eqn:Hd; [|discriminate].
  destruct (opt_N_dec (op_target o) (Some h)) as [Ht|Ht].
  - destruct o as [n|k|k off'|k off' w|k]; cbn [op_target] in Ht; inversion Ht; subst k; cbn [mh_step fst].
    + congruence.
    + rewrite Hd. exact Hc.
    + unfold mh_store. rewrite abs_nth in Hd.
      destruct (nth_N (allocs s) h) as [sl|] eqn:Hsl; [|discriminate].
      destruct (sl_freed sl) eqn:Hfr; [discriminate|]. inversion Hd; subst d.
      destruct (N.of_nat (length (sl_data sl)) <=? off') eqn:E.
      * cbn [fst]. rewrite abs_nth, Hsl, Hfr. exact Hc.
      * cbn [fst]. rewrite abs_nth. cbn [allocs]. apply nth_N_Some in Hsl as [Hlt _].
        rewrite nth_N_upd_eq by exact Hlt. cbn [sl_freed sl_data].
        rewrite nth_N_upd_ne; [exact Hc|]. intros ->. apply (Hns w). reflexivity.
    + rewrite Hd. exact Hc.
  - rewrite (isolation_lemma s o h d HI Hfit Hd Ht). exact Hc.
Qed.

Lemma cell_step_stable_u s o h off v :
  Inv s -> cell s h off = Some v -> o <> MFree h -> (forall w, o <> MStore h off w) ->
  cell (fst (mh_step s o)) h off = Some v.
Proof.
  intros HI Hc H1 H2. destruct (fits_dec s o) as [Hf|Hf]; [apply cell_step_stable; assumption|].
  rewrite (nofit_step s o Hf). exact Hc.
Qed.

Definition leaves_cell (h off : N) (o : mop) : Prop := o <> MFree h /\ forall w, o <> MStore h off w.

Lemma cell_history_stable os : forall s h off v,
  Inv s -> cell s h off = Some v -> Forall (leaves_cell h off) os ->
  cell (mh_exec s os) h off = Some v.
Proof.
  induction os as [|o r IH]; intros s h off v HI Hc Hall; [exact Hc|].
  inversion Hall as [|? ? [H1 H2] Hr]; subst.
  cbn [mh_exec fold_left]. fold (mh_exec (fst (mh_step s o)) r).
  apply IH; auto. apply mh_step_inv_u; assumption. apply cell_step_stable_u; assumption.
Qed.

Lemma load_after_store_history s h off v s1 os :
  Inv s -> mh_store s h off v = (s1, ROkUnit) -> Forall (leaves_cell h off) os ->
  mh_load (mh_exec s1 os) h off = ROkVal v.
Proof.
  intros HI Hst Hall. apply load_cell. apply cell_history_stable; auto.
  - replace s1 with (fst (mh_step s (MStore h off v))) by (cbn [mh_step]; rewrite Hst; reflexivity).
    apply mh_step_inv; [exact HI|exact I].
  - apply load_cell. eapply load_after_store_lemma. exact Hst.
Qed.

(* stale and never-issued handles *)
Definition dead_err (s : mheap) (h : N) (stale : ekind) : mres :=
  RErr (if h <? N.of_nat (length (allocs s)) then stale else EInvalidHandle).

Lemma stale_handle_rejected_lemma s h :
  abs s h = None ->
  (forall off, mh_load s h off = dead_err s h EUseAfterFree)
  /\ (forall off v, mh_store s h off v = (s, dead_err s h EUseAfterFree))
  /\ mh_size s h = dead_err s h EUseAfterFree
  /\ mh_free s h = (s, dead_err s h EDoubleFree).
Proof.
  intro Ha. rewrite abs_nth in Ha. unfold mh_load, mh_store, mh_size, mh_free, dead_err.
  destruct (nth_N (allocs s) h) as [sl|] eqn:Hsl.
  - destruct (sl_freed sl) eqn:Hfr; [|discriminate]. apply nth_N_Some in Hsl as [Hlt _].
    replace (h <? N.of_nat (length (allocs s))) with true by lia. repeat split; reflexivity.
  - apply nth_N_None in Hsl. replace (h <? N.of_nat (length (allocs s))) with false by lia. repeat split; reflexivity.
Qed.

Lemma free_makes_stale s h s' :
  Inv s -> mh_free s h = (s', ROkUnit) -> abs s' h = None /\ h < N.of_nat (length (allocs s')).
Proof.
  intros HI H. unfold mh_free in H. destruct (nth_N (allocs s) h) as [sl|] eqn:Hsl; [|discriminate].
  destruct (sl_freed sl) eqn:Hfr; [discriminate|]. inversion H; subst s'; clear H.
  apply nth_N_Some in Hsl as [Hlt _]. rewrite abs_nth. cbn [allocs]. rewrite nth_N_upd_eq by exact Hlt.
  rewrite length_upd_N. split; [reflexivity|exact Hlt].
Qed.

Lemma stale_stays_stale s o h :
  Inv s -> mh_fits s o -> abs s h = None -> snd (mh_step s o) <> ROkHandle h ->
  abs (fst (mh_step s o)) h = None.
Proof.
  intros HI Hfit Ha Hr. destruct (opt_N_dec (op_target o) (Some h)) as [Ht|Ht].
  - destruct (stale_handle_rejected_lemma s h Ha) as [Hl [Hs [Hz Hf]]].
    destruct o as [n|k|k off|k off v|k]; cbn [op_target] in Ht; inversion Ht; subst k; cbn [mh_step fst]; try exact Ha.
    + rewrite Hf. exact Ha.
    + rewrite Hs. exact Ha.
  - rewrite abs_step_other; auto.
Qed.

Lemma stale_stays_stale_u s o h :
  Inv s -> abs s h = None -> snd (mh_step s o) <> ROkHandle h -> abs (fst (mh_step s o)) h = None.
Proof.
  intros HI Ha Hr. destruct (fits_dec s o) as [Hf|Hf]; [apply stale_stays_stale; assumption|].
  rewrite (nofit_step s o Hf). exact Ha.
Qed.

(* bounds *)
Lemma bounds_lemma s h d off :
  abs s h = Some d ->
  (off < N.of_nat (length d) -> exists v, nth_N d off = Some v /\ mh_load s h off = ROkVal v)
  /\ (N.of_nat (length d) <= off ->
      mh_load s h off = RErr EOutOfBounds /\ forall v, mh_store s h off v = (s, RErr EOutOfBounds)).
Proof.
  intro Ha. rewrite abs_nth in Ha. destruct (nth_N (allocs s) h) as [sl|] eqn:Hsl; [|discriminate].
  destruct (sl_freed sl) eqn:Hfr; [discriminate|]. inversion Ha; subst d. split.
  - intro Hlt. destruct (nth_N_lt (sl_data sl) off Hlt) as [v Hv]. exists v. split; [exact Hv|].
    unfold mh_load. rewrite Hsl, Hfr, Hv. reflexivity.
  - intro Hge. assert (Hn : nth_N (sl_data sl) off = None) by (apply nth_N_None; exact Hge). split.
    + unfold mh_load. rewrite Hsl, Hfr, Hn. reflexivity.
    + intro v. unfold mh_store. rewrite Hsl, Hfr. replace (N.of_nat (length (sl_data sl)) <=? off) with true by lia. reflexivity.
Qed.

(* accounting: the charge is 8 bytes per live slot and neither saturating operation of free triggers *)
Lemma accounting_lemma s : Inv s -> bytes s = 8 * live_total (allocs s).
Proof. intro HI. rewrite (inv_bytes s HI). reflexivity. Qed.

Lemma no_saturation_lemma s h d :
  Inv s -> abs s h = Some d ->
  8 * N.of_nat (length d) <= bytes s /\ 8 * N.of_nat (length d) < USIZE
  /\ bytes (fst (mh_free s h)) + 8 * N.of_nat (length d) = bytes s.
Proof.
  intros HI Ha. rewrite abs_nth in Ha. destruct (nth_N (allocs s) h) as [sl|] eqn:Hsl; [|discriminate].
  destruct (sl_freed sl) eqn:Hfr; [discriminate|]. inversion Ha; subst d.
  destruct (mh_free_ok_spec s h sl HI Hsl Hfr) as [Heq [Hle Hlt]]. rewrite Heq. cbn [fst bytes]. rewrite vs8 in *. lia.
Qed.

Lemma handle_reuse_lifo_lemma s h s1 n :
  Inv s -> mh_free s h = (s1, ROkUnit) -> n <> 0 -> bytes s1 + n * VALUE_SIZE < USIZE ->
  snd (mh_alloc s1 n) = ROkHandle h.
Proof.
  intros HI Hf Hn Hfit.
  assert (HI1 : Inv s1).
  { replace s1 with (fst (mh_step s (MFree h))) by (cbn [mh_step]; rewrite Hf; reflexivity). apply mh_step_inv; [exact HI|exact I]. }
  destruct (mh_alloc_ok_spec s1 n HI1 Hn Hfit) as [h0 [Heq [Hh _]]]. rewrite Heq. cbn [snd].
  unfold mh_free in Hf. destruct (nth_N (allocs s) h) as [sl|]; [|discriminate]. destruct (sl_freed sl); [discriminate|].
  inversion Hf; subst s1. cbn [free_list] in Hh. congruence.
Qed.

(* ------------------------------------------------------------------ the VM surfaces *)
Ltac cases_if :=
  repeat match goal with
         | |- context [if ?c then _ else _] => destruct c eqn:?
         end.

Lemma vm_manual_alloc_cases maxh gc s n :
  maxh < USIZE -> n <> 0 ->
  (vm_manual_alloc maxh gc s n = (s, RErr EOutOfMemory))
  \/ (vm_manual_alloc maxh gc s n = mh_alloc s n /\ bytes s + n * VALUE_SIZE < USIZE).
Proof.
  intros Hm Hn. unfold vm_manual_alloc. cases_if; auto. right. split; [reflexivity|]. lia.
Qed.

Lemma vm_manual_alloc_zero maxh gc s :
  fst (vm_manual_alloc maxh gc s 0) = s /\ is_err (snd (vm_manual_alloc maxh gc s 0)) = true.
Proof. unfold vm_manual_alloc. cases_if; cbn; auto. Qed.

Definition vm_case (sf : surface) (maxh gc : N) (s : mheap) (o : vop) : Prop :=
  (exists m, vop_raw o = Some m /\ mh_fits s m /\ vm_step sf maxh gc s o = mh_step s m)
  \/ (fst (vm_step sf maxh gc s o) = s /\ is_err (snd (vm_step sf maxh gc s o)) = true /\ vm_silent sf o = false)
  \/ (vm_step sf maxh gc s o = (s, ROkUnit) /\ vm_silent sf o = true /\ vop_raw o = None).

Lemma vm_step_cases sf maxh gc s o : maxh < USIZE -> vm_case sf maxh gc s o.
Proof.
  intro Hm. unfold vm_case.
  destruct o as [a|a|h o|h o v].
  - (* alloc *)
    destruct a as [z| |]; [|destruct sf; right; left; cbn; auto ..].
    destruct (Z_lt_le_dec 0 z) as [Hpos|Hnp].
    + assert (Hn : Z.to_N z <> 0) by lia.
      assert (Hst : vm_step sf maxh gc s (VAlloc (AInt z)) = vm_manual_alloc maxh gc s (Z.to_N z)).
      { destruct sf; cbn [vm_step]; [replace (z <=? 0)%Z with false by lia|replace (z <? 0)%Z with false by lia]; reflexivity. }
      destruct (vm_manual_alloc_cases maxh gc s (Z.to_N z) Hm Hn) as [He|[He Hfit]].
      * right; left. rewrite Hst, He. destruct sf; cbn; auto.
      * left. exists (MAlloc (Z.to_N z)). cbn [vop_raw]. replace (0 <? z)%Z with true by lia.
        split; [reflexivity|]. split; [exact Hfit|]. rewrite Hst, He. reflexivity.
    + right; left. destruct sf; cbn [vm_step vm_silent].
      * replace (z <=? 0)%Z with true by lia. cbn. auto.
      * destruct (z <? 0)%Z eqn:E; [cbn; auto|]. assert (z = 0%Z) by lia. subst z. cbn [Z.to_N].
        destruct (vm_manual_alloc_zero maxh gc s) as [H1 H2]. auto.
  - (* free *)
    destruct a as [z| |].
    + destruct (Z_lt_le_dec z 0) as [Hneg|Hnn].
      * destruct sf; cbn [vm_step vm_silent vop_raw]; replace (z <? 0)%Z with true by lia; replace (0 <=? z)%Z with false by lia.
        -- right; left. cbn. auto.
        -- right; right. auto.
      * left. exists (MFree (Z.to_N z)). cbn [vop_raw]. replace (0 <=? z)%Z with true by lia.
        split; [reflexivity|]. split; [exact I|].
        destruct sf; cbn [vm_step]; replace (z <? 0)%Z with false by lia; reflexivity.
    + destruct sf; right; right; cbn; auto.
    + destruct sf; right; left; cbn; auto.
  - (* load *)
    destruct h as [hz| |]; [|destruct sf; right; left; cbn; auto ..].
    destruct o as [oz| |]; [|destruct sf; right; left; cbn; auto ..].
    destruct (Z_lt_le_dec hz 0) as [Hneg|Hnn].
    { right; left. destruct sf; cbn [vm_step vm_silent]; replace (hz <? 0)%Z with true by lia; cbn; auto. }
    destruct (Z_lt_le_dec oz 0) as [Hneg'|Hnn'].
    { right; left. destruct sf; cbn [vm_step vm_silent]; replace (hz <? 0)%Z with false by lia;
        replace (oz <? 0)%Z with true by lia; cbn; auto. }
    left. exists (MLoad (Z.to_N hz) (Z.to_N oz)). cbn [vop_raw].
    replace (0 <=? hz)%Z with true by lia. replace (0 <=? oz)%Z with true by lia. cbn [andb].
    split; [reflexivity|]. split; [exact I|].
    destruct sf; cbn [vm_step mh_step]; replace (hz <? 0)%Z with false by lia; replace (oz <? 0)%Z with false by lia; reflexivity.
  - (* store *)
    destruct h as [hz| |]; [|destruct sf; right; left; cbn; auto ..].
    destruct o as [oz| |]; [|destruct sf; right; left; cbn; auto ..].
    destruct (Z_lt_le_dec hz 0) as [Hneg|Hnn].
    { right; left. destruct sf; cbn [vm_step vm_silent]; replace (hz <? 0)%Z with true by lia; cbn; auto. }
    destruct (Z_lt_le_dec oz 0) as [Hneg'|Hnn'].
    { right; left. destruct sf; cbn [vm_step vm_silent]; replace (hz <? 0)%Z with false by lia;
        replace (oz <? 0)%Z with true by lia; cbn; auto. }
    left. exists (MStore (Z.to_N hz) (Z.to_N oz) v). cbn [vop_raw].
    replace (0 <=? hz)%Z with true by lia. replace (0 <=? oz)%Z with true by lia. cbn [andb].
    split; [reflexivity|]. split; [exact I|].
    destruct sf; cbn [vm_step mh_step]; replace (hz <? 0)%Z with false by lia; replace (oz <? 0)%Z with false by lia; reflexivity.
Qed.

Lemma vm_step_inv sf maxh gc s o : maxh < USIZE -> Inv s -> Inv (fst (vm_step sf maxh gc s o)).
Proof.
  intros Hm HI. destruct (vm_step_cases sf maxh gc s o Hm) as [[m [_ [Hfit ->]]]|[[-> _]|[-> _]]].
  - apply mh_step_inv; assumption.
  - exact HI.
  - exact HI.
Qed.

Lemma vm_errors_change_nothing_lemma sf maxh gc s o :
  maxh < USIZE -> Inv s -> is_err (snd (vm_step sf maxh gc s o)) = true -> fst (vm_step sf maxh gc s o) = s.
Proof.
  intros Hm HI He. destruct (vm_step_cases sf maxh gc s o Hm) as [[m [_ [Hfit Heq]]]|[[H _]|[-> _]]].
  - rewrite Heq in *. apply mh_err_unchanged; assumption.
  - exact H.
  - reflexivity.
Qed.

(* operands that cannot name a buffer (negative, non-int, zero size) are errors -- except where the
   surface swallows them *)
Lemma vm_malformed_rejected_lemma sf maxh gc s o :
  maxh < USIZE -> vop_raw o = None -> vm_silent sf o = false ->
  is_err (snd (vm_step sf maxh gc s o)) = true /\ fst (vm_step sf maxh gc s o) = s.
Proof.
  intros Hm Hr Hs. destruct (vm_step_cases sf maxh gc s o Hm) as [[m [Hm' _]]|[[H1 [H2 _]]|[_ [H _]]]].
  - congruence.
  - auto.
  - congruence.
Qed.

(* full refinement for the surfaces: every step is an error that changes nothing, a silent no-op,
   or exactly one raw ManualHeap step that the specification allows *)
Lemma vm_refines_lemma sf maxh gc s sp o :
  maxh < USIZE -> Inv s -> Sim s sp ->
  Inv (fst (vm_step sf maxh gc s o)) /\
  match vop_raw o with
  | Some m =>
      (vm_step sf maxh gc s o = (s, RErr EOutOfMemory))
      \/ (snd (spec_step sp m (snd (vm_step sf maxh gc s o))) = snd (vm_step sf maxh gc s o)
          /\ Sim (fst (vm_step sf maxh gc s o)) (fst (spec_step sp m (snd (vm_step sf maxh gc s o)))))
  | None => fst (vm_step sf maxh gc s o) = s
  end.
Proof.
  intros Hm HI HS. split; [apply vm_step_inv; assumption|].
  destruct (vm_step_cases sf maxh gc s o Hm) as [[m [Hr [Hfit Heq]]]|[[H1 [H2 H3]]|[H1 [H2 H3]]]].
  - rewrite Hr, Heq. right. destruct (mh_refines_lemma s sp m HI HS Hfit) as [_ [Ha Hb]]. auto.
  - destruct (vop_raw o) as [m|] eqn:Hr; [|exact H1].
    (* raw op exists but the surface refused: only alloc over the limit *)
    destruct o as [a|a|h o|h o v]; cbn [vop_raw] in Hr.
    + destruct a as [z| |]; try discriminate. destruct (0 <? z)%Z eqn:Ez; [|discriminate].
      assert (Hn : Z.to_N z <> 0) by lia.
      assert (Hst : vm_step sf maxh gc s (VAlloc (AInt z)) = vm_manual_alloc maxh gc s (Z.to_N z)).
      { destruct sf; cbn [vm_step]; [replace (z <=? 0)%Z with false by lia|replace (z <? 0)%Z with false by lia]; reflexivity. }
      destruct (vm_manual_alloc_cases maxh gc s (Z.to_N z) Hm Hn) as [He|[He Hfit]].
      * left. rewrite Hst. exact He.
      * exfalso. rewrite Hst, He in H2. inversion Hr; subst m.
        destruct (mh_alloc_ok_spec s (Z.to_N z) HI Hn Hfit) as [h0 [Heq _]]. rewrite Heq in H2. discriminate.
    + destruct a as [z| |]; try discriminate. destruct (0 <=? z)%Z eqn:Ez; [|discriminate]. inversion Hr; subst m.
      right. assert (Hst : vm_step sf maxh gc s (VFree (AInt z)) = mh_step s (MFree (Z.to_N z))).
      { destruct sf; cbn [vm_step mh_step]; replace (z <? 0)%Z with false by lia; reflexivity. }
      rewrite Hst. destruct (mh_refines_lemma s sp (MFree (Z.to_N z)) HI HS I) as [_ [Ha Hb]]. auto.
    + destruct h as [hz| |]; try discriminate. destruct o as [oz| |]; try discriminate.
      destruct ((0 <=? hz) && (0 <=? oz))%Z eqn:Ez; [|discriminate]. inversion Hr; subst m.
      right. assert (Hst : vm_step sf maxh gc s (VLoad (AInt hz) (AInt oz)) = mh_step s (MLoad (Z.to_N hz) (Z.to_N oz))).
      { destruct sf; cbn [vm_step mh_step]; replace (hz <? 0)%Z with false by lia; replace (oz <? 0)%Z with false by lia; reflexivity. }
      rewrite Hst. destruct (mh_refines_lemma s sp (MLoad (Z.to_N hz) (Z.to_N oz)) HI HS I) as [_ [Ha Hb]]. auto.
    + destruct h as [hz| |]; try discriminate. destruct o as [oz| |]; try discriminate.
      destruct ((0 <=? hz) && (0 <=? oz))%Z eqn:Ez; [|discriminate]. inversion Hr; subst m.
      right. assert (Hst : vm_step sf maxh gc s (VStore (AInt hz) (AInt oz) v) = mh_step s (MStore (Z.to_N hz) (Z.to_N oz) v)).
      { destruct sf; cbn [vm_step mh_step]; replace (hz <? 0)%Z with false by lia; replace (oz <? 0)%Z with false by lia; reflexivity. }
      rewrite Hst. destruct (mh_refines_lemma s sp (MStore (Z.to_N hz) (Z.to_N oz) v) HI HS I) as [_ [Ha Hb]]. auto.
  - rewrite H3, H1. reflexivity.
Qed.

Lemma vm_run_inv sf maxh os : forall s, maxh < USIZE -> Inv s -> Inv (fst (vm_run sf maxh s os)).
Proof.
  induction os as [|[gc o] r IH]; intros s Hm HI; [exact HI|].
  cbn [vm_run]. destruct (vm_step sf maxh gc s o) as [s1 x] eqn:E.
  specialize (IH s1 Hm). destruct (vm_run sf maxh s1 r) as [s2 xs]. cbn [fst] in *. apply IH.
  replace s1 with (fst (vm_step sf maxh gc s o)) by (rewrite E; reflexivity). apply vm_step_inv; assumption.
Qed.

(* ------------------------------------------------------------------ HISTORICAL: the pre-fix allocation *)
(* Before /repo commit f05dd1f ManualHeap::alloc installed the slot and popped the free list BEFORE
   its checked_add on the charge.  [mh_alloc_prefix] is that OLD definition, kept only to record
   why the repair was needed: the old code was not error-atomic (abstract witness: 2^63 bytes
   live, a further 2^63-byte request).  Nothing in Props/C09.v is about this definition. *)
Definition mh_alloc_prefix (s : mheap) (n : N) : mheap * mres :=
  if n =? 0 then (s, RErr EInvalidSize) else
  match allocation_bytes n with
  | None => (s, RErr EInvalidSize)
  | Some b =>
      let slot := {| sl_data := repeat VNULL (N.to_nat n); sl_freed := false |} in
      let '(al, fl, h, ok) :=
        match free_list s with
        | idx :: rest => (upd_N (allocs s) idx slot, rest, idx, idx <? N.of_nat (length (allocs s)))
        | [] => (allocs s ++ [slot], [], N.of_nat (length (allocs s)), true)
        end in
      if negb ok then (s, RPanic) else
      if bytes s + b <? USIZE
      then ({| allocs := al; free_list := fl; bytes := bytes s + b |}, ROkHandle h)
      else ({| allocs := al; free_list := fl; bytes := bytes s |}, RErr EInvalidSize)
  end.

Definition BIG : N := 1152921504606846976.      (* 2^60 slots = 2^63 bytes *)
Definition big_heap : mheap :=
  {| allocs := [{| sl_data := repeat VNULL (N.to_nat BIG); sl_freed := false |}]; free_list := [];
     bytes := 9223372036854775808 |}.

Lemma big_heap_inv : Inv big_heap.
Proof.
  constructor.
  - intros i [].
  - constructor.
  - unfold big_heap. cbn [bytes allocs live_total sl_freed sl_data]. rewrite repeat_len. reflexivity.
  - reflexivity.
Qed.

Lemma prefix_alloc_not_error_atomic :
  exists s n, Inv s /\ is_err (snd (mh_alloc_prefix s n)) = true /\ fst (mh_alloc_prefix s n) <> s.
Proof.
  exists big_heap, BIG. split; [exact big_heap_inv|].
  assert (E : mh_alloc_prefix big_heap BIG =
              ({| allocs := allocs big_heap ++ [{| sl_data := repeat VNULL (N.to_nat BIG); sl_freed := false |}];
                  free_list := []; bytes := bytes big_heap |}, RErr EInvalidSize)).
  { unfold mh_alloc_prefix, allocation_bytes. change (BIG =? 0) with false. cbv iota.
    change (BIG * VALUE_SIZE <? USIZE) with true. cbv iota. cbn [free_list big_heap negb]. cbv iota.
    change (bytes big_heap + BIG * VALUE_SIZE <? USIZE) with false. reflexivity. }
  rewrite E. cbn [fst snd is_err]. split; [reflexivity|]. intro H.
  apply (f_equal (fun x => length (allocs x))) in H. cbn [allocs big_heap] in H.
  rewrite app_length in H. cbn [length] in H. lia.
Qed.

(* the repaired allocation on the same state: an error that changes nothing *)
Lemma big_heap_alloc_now : mh_alloc big_heap BIG = (big_heap, RErr EInvalidSize).
Proof. exact (nofit_step big_heap (MAlloc BIG) ltac:(cbn [mh_fits bytes big_heap]; unfold BIG, VALUE_SIZE, USIZE; lia)). Qed.

(* ------------------------------------------------------------------ fixed size *)
Lemma size_step_fixed s o h d :
  Inv s -> abs s h = Some d -> o <> MFree h ->
  exists d', abs (fst (mh_step s o)) h = Some d' /\ length d' = length d.
Proof.
  intros HI Ha Hnf. destruct (opt_N_dec (op_target o) (Some h)) as [Ht|Ht];
    [|exists d; split; [apply isolation_u; assumption|reflexivity]].
  destruct o as [n|k|k off|k off v|k]; cbn [op_target] in Ht; inversion Ht; subst k; cbn [mh_step fst]; eauto.
  - congruence.
  - unfold mh_store. rewrite abs_nth in Ha. destruct (nth_N (allocs s) h) as [sl|] eqn:Hsl; [|discriminate].
    destruct (sl_freed sl) eqn:Hfr; [discriminate|]. inversion Ha; subst d.
    destruct (N.of_nat (length (sl_data sl)) <=? off).
    + cbn [fst]. exists (sl_data sl). rewrite abs_nth, Hsl, Hfr. auto.
    + cbn [fst]. exists (upd_N (sl_data sl) off v). rewrite abs_nth. cbn [allocs].
      apply nth_N_Some in Hsl as [Hlt _]. rewrite nth_N_upd_eq by exact Hlt. cbn [sl_freed sl_data].
      split; [reflexivity|apply length_upd_N].
Qed.

Lemma size_history_fixed os : forall s h d,
  Inv s -> abs s h = Some d -> Forall (fun o => o <> MFree h) os ->
  mh_size (mh_exec s os) h = ROkSize (N.of_nat (length d)).
Proof.
  induction os as [|o r IH]; intros s h d HI Ha Hall.
  - cbn [mh_exec fold_left]. unfold mh_size. rewrite abs_nth in Ha.
    destruct (nth_N (allocs s) h) as [sl|]; [|discriminate]. destruct (sl_freed sl); [discriminate|].
    inversion Ha. reflexivity.
  - inversion Hall as [|? ? H1 Hr]; subst. cbn [mh_exec fold_left]. fold (mh_exec (fst (mh_step s o)) r).
    destruct (size_step_fixed s o h d HI Ha H1) as [d' [Ha' Hl]]. rewrite <- Hl.
    apply IH; [apply mh_step_inv_u; exact HI|exact Ha'|exact Hr].
Qed.

(* ------------------------------------------------------------------ dead handles, for all histories *)
(* After ANY history from the empty heap: a handle that the abstract map does not hold is rejected by
   every access -- UseAfterFree / DoubleFree when it was ever issued (freed and not re-issued),
   InvalidHandle when it never was -- and the rejected access changes nothing. *)
Lemma dead_handle_all_histories os h :
  let s := mh_exec mh_empty os in
  let sp := fst (spec_run sp_empty os (snd (mh_run mh_empty os))) in
  sm_get (live sp) h = None ->
  let k1 := if mem_N h (issued sp) then EUseAfterFree else EInvalidHandle in
  let k2 := if mem_N h (issued sp) then EDoubleFree else EInvalidHandle in
  (forall off, mh_step s (MLoad h off) = (s, RErr k1))
  /\ (forall off v, mh_step s (MStore h off v) = (s, RErr k1))
  /\ mh_step s (MSize h) = (s, RErr k1)
  /\ mh_step s (MFree h) = (s, RErr k2).
Proof.
  intros s sp Hd k1 k2.
  destruct (mh_refines_history_lemma os mh_empty sp_empty inv_empty sim_empty) as [HI [_ HS]].
  fold s in HI, HS. fold sp in HS.
  assert (Ha : abs s h = None) by (rewrite (sim_get _ _ HS h); exact Hd).
  destruct (stale_handle_rejected_lemma s h Ha) as [Hl [Hst [Hz Hf]]].
  unfold k1, k2, dead_err in *. rewrite (sim_issued _ _ HS h). cbn [mh_step].
  repeat split; intros; rewrite ?Hl, ?Hst, ?Hz, ?Hf; reflexivity.
Qed.

(* ------------------------------------------------------------------ the surfaces as driven by the extracted tables *)
From Aelys Require Import Extracted.MemChecks Model.MemTab.

Lemma vm_step_tab_eq sf maxh gc s o : vm_step_tab sf maxh gc s o = vm_step sf maxh gc s o.
Proof.
  destruct sf; destruct o as [a|a|h off|h off v];
    repeat match goal with x : varg |- _ => destruct x as [?z| |] end;
    cbv beta iota zeta delta [vm_step_tab checks_for assoc_N builtin_checks opcode_checks general_opcode opnum
                              run_checks run_check cerr ekind_of_code args_of nth_error N.to_nat Pos.to_nat Pos.iter_op Nat.add
                              N.eqb Pos.eqb map fst snd];
    cbn [vm_step];
    repeat match goal with |- context [if ?c then _ else _] => destruct c eqn:? end;
    try reflexivity; try lia.
Qed.

Lemma source_tables_ok_lemma : source_tables_ok = true.
Proof. vm_compute. reflexivity. Qed.

(* ------------------------------------------------------------------ the surfaces: refinement over histories *)
Lemma mh_step_no_oom s m : snd (mh_step s m) <> RErr EOutOfMemory.
Proof.
  destruct m as [n|h|h off|h off v|h]; cbn [mh_step snd].
  - unfold mh_alloc. destruct (n =? 0); [cbn; discriminate|]. destruct (allocation_bytes n); [|cbn; discriminate].
    destruct (negb (bytes s + n0 <? USIZE)); [cbn; discriminate|].
    destruct (free_list s) as [|idx rest]; [cbn; discriminate|].
    destruct (idx <? N.of_nat (length (allocs s))); cbn; discriminate.
  - unfold mh_free. destruct (nth_N (allocs s) h) as [sl|]; [destruct (sl_freed sl)|]; cbn; discriminate.
  - unfold mh_load. destruct (nth_N (allocs s) h) as [sl|]; [destruct (sl_freed sl); [|destruct (nth_N (sl_data sl) off)]|]; discriminate.
  - unfold mh_store. destruct (nth_N (allocs s) h) as [sl|]; [destruct (sl_freed sl); [|destruct (N.of_nat (length (sl_data sl)) <=? off)]|]; cbn; discriminate.
  - unfold mh_size. destruct (nth_N (allocs s) h) as [sl|]; [destruct (sl_freed sl)|]; discriminate.
Qed.

Lemma vm_spec_refines_lemma sf maxh gc s sp o :
  maxh < USIZE -> Inv s -> Sim s sp ->
  Inv (fst (vm_step sf maxh gc s o))
  /\ snd (vspec_step sf sp o (snd (vm_step sf maxh gc s o))) = snd (vm_step sf maxh gc s o)
  /\ Sim (fst (vm_step sf maxh gc s o)) (fst (vspec_step sf sp o (snd (vm_step sf maxh gc s o)))).
Proof.
  intros Hm HI HS. split; [apply vm_step_inv; assumption|].
  unfold vspec_step.
  destruct (vm_step_cases sf maxh gc s o Hm) as [[m [Hr [Hfit Heq]]]|[[H1 [H2 H3]]|[H1 [H2 H3]]]].
  - (* a raw step *)
    rewrite Hr, Heq. destruct (mh_refines_lemma s sp m HI HS Hfit) as [_ [Ha Hb]].
    pose proof (mh_step_no_oom s m) as Hno.
    destruct m as [n|h|h off|h off v|h]; auto.
    destruct (snd (mh_step s (MAlloc n))) as [| | | |e|] eqn:Er; auto.
    destruct e; auto. congruence.
  - (* an error that changes nothing *)
    destruct (vop_raw o) as [m|] eqn:Hr.
    + (* the operands were fine: only the heap limit can have refused, and only an allocation *)
      destruct (vm_refines_lemma sf maxh gc s sp o Hm HI HS) as [_ Hv]. rewrite Hr in Hv.
      destruct Hv as [Hoom|[Ha Hb]].
      * rewrite Hoom. cbn [fst snd].
        assert (Hal : exists n, m = MAlloc n).
        { destruct o as [a|a|h off|h off v]; cbn [vop_raw] in Hr.
          - destruct a as [z| |]; try discriminate. destruct (0 <? z)%Z; inversion Hr. eauto.
          - exfalso. destruct a as [z| |]; try discriminate. destruct (0 <=? z)%Z eqn:Ez; [|discriminate].
            assert (Hst : vm_step sf maxh gc s (VFree (AInt z)) = mh_step s (MFree (Z.to_N z)))
              by (destruct sf; cbn [vm_step mh_step]; replace (z <? 0)%Z with false by lia; reflexivity).
            rewrite Hst in Hoom. apply (mh_step_no_oom s (MFree (Z.to_N z))). rewrite Hoom. reflexivity.
          - exfalso. destruct h as [hz| |]; try discriminate. destruct off as [oz| |]; try discriminate.
            destruct ((0 <=? hz) && (0 <=? oz))%Z eqn:Ez; [|discriminate].
            assert (Hst : vm_step sf maxh gc s (VLoad (AInt hz) (AInt oz)) = mh_step s (MLoad (Z.to_N hz) (Z.to_N oz)))
              by (destruct sf; cbn [vm_step mh_step]; replace (hz <? 0)%Z with false by lia; replace (oz <? 0)%Z with false by lia; reflexivity).
            rewrite Hst in Hoom. apply (mh_step_no_oom s (MLoad (Z.to_N hz) (Z.to_N oz))). rewrite Hoom. reflexivity.
          - exfalso. destruct h as [hz| |]; try discriminate. destruct off as [oz| |]; try discriminate.
            destruct ((0 <=? hz) && (0 <=? oz))%Z eqn:Ez; [|discriminate].
            assert (Hst : vm_step sf maxh gc s (VStore (AInt hz) (AInt oz) v) = mh_step s (MStore (Z.to_N hz) (Z.to_N oz) v))
              by (destruct sf; cbn [vm_step mh_step]; replace (hz <? 0)%Z with false by lia; replace (oz <? 0)%Z with false by lia; reflexivity).
            rewrite Hst in Hoom. apply (mh_step_no_oom s (MStore (Z.to_N hz) (Z.to_N oz) v)). rewrite Hoom. reflexivity. }
        destruct Hal as [n ->]. cbn [fst snd]. auto.
      * destruct m as [n|h|h off|h off v|h]; auto.
        destruct (snd (vm_step sf maxh gc s o)) as [| | | |e|] eqn:Er; auto.
        destruct e; auto.
        (* result OOM while the specification was consulted: it answers RPanic for that hint, contradiction *)
        exfalso. cbn [spec_step] in Ha. destruct ((n =? 0) || (USIZE <=? n * VALUE_SIZE) || (USIZE <=? (sm_total (live sp) + n) * VALUE_SIZE)); cbn in Ha; discriminate.
    + rewrite H3. cbn [fst snd]. rewrite H1. split; [|exact HS].
      destruct (snd (vm_step sf maxh gc s o)); try discriminate. reflexivity.
  - (* a silent no-op *)
    rewrite H3, H2, H1. cbn [fst snd]. auto.
Qed.

Lemma vm_run_cons sf maxh s gc o r :
  vm_run sf maxh s ((gc, o) :: r) =
  (fst (vm_run sf maxh (fst (vm_step sf maxh gc s o)) r),
   snd (vm_step sf maxh gc s o) :: snd (vm_run sf maxh (fst (vm_step sf maxh gc s o)) r)).
Proof. cbn [vm_run]. destruct (vm_step sf maxh gc s o) as [s1 x]. cbn [fst snd]. destruct (vm_run sf maxh s1 r) as [s2 xs]. reflexivity. Qed.

Lemma vspec_run_cons sf sp gc o r x xs :
  vspec_run sf sp ((gc, o) :: r) (x :: xs) =
  (fst (vspec_run sf (fst (vspec_step sf sp o x)) r xs),
   snd (vspec_step sf sp o x) :: snd (vspec_run sf (fst (vspec_step sf sp o x)) r xs)).
Proof. cbn [vspec_run]. destruct (vspec_step sf sp o x) as [m1 y]. cbn [fst snd]. destruct (vspec_run sf m1 r xs) as [m2 ys]. reflexivity. Qed.

Lemma vm_refines_history_lemma sf maxh os : forall s sp,
  maxh < USIZE -> Inv s -> Sim s sp ->
  Inv (fst (vm_run sf maxh s os))
  /\ snd (vspec_run sf sp os (snd (vm_run sf maxh s os))) = snd (vm_run sf maxh s os)
  /\ Sim (fst (vm_run sf maxh s os)) (fst (vspec_run sf sp os (snd (vm_run sf maxh s os)))).
Proof.
  induction os as [|[gc o] r IH]; intros s sp Hm HI HS; [cbn; auto|].
  destruct (vm_spec_refines_lemma sf maxh gc s sp o Hm HI HS) as [HI1 [Hr HS1]].
  rewrite vm_run_cons. cbn [fst snd]. rewrite vspec_run_cons. cbn [fst snd].
  destruct (IH _ _ Hm HI1 HS1) as [HI2 [Hr2 HS2]].
  split; [exact HI2|]. split; [rewrite Hr, Hr2; reflexivity|exact HS2].
Qed.
