(* C10 -- proofs about Model/HeapAccount.v *)
From Coq Require Import NArith Bool List String Lia.
From Aelys Require Import Extracted.HeapEstimator Model.HeapAccount.
Import ListNotations.
Local Open Scope N_scope.

Section AccountingProofs.
  Variable tbl : list (N * string * N).
  Hypothesis Htbl : no_unaccounted_state tbl = true.

  Lemma dep_class_le1 k : dep_class tbl k <= 1.
  Proof.
    unfold dep_class. destruct (find _ tbl) as [r|] eqn:F; [|lia].
    apply find_some in F. destruct F as [Hin _].
    unfold no_unaccounted_state in Htbl. rewrite forallb_forall in Htbl.
    specialize (Htbl r Hin). apply N.leb_le in Htbl. exact Htbl.
  Qed.

  Lemma est_bump_ge o d : est tbl o <= est tbl (bump o d).
  Proof. unfold est, bump. cbn [o_kind o_fixed o_state]. destruct (dep_class tbl (o_kind o) =? 0); lia. Qed.

  Lemma est_bump_fixed o d : dep_class tbl (o_kind o) = 0 -> est tbl (bump o d) = est tbl o.
  Proof. intro H. unfold est, bump. cbn [o_kind o_fixed o_state]. rewrite H. reflexivity. Qed.

  Lemma total_upd l : forall i d o, nth_error l i = Some o ->
    total tbl (upd i d l) + est tbl o = total tbl l + est tbl (bump o d).
  Proof.
    induction l as [|a r IH]; intros i d o H.
    - destruct i; discriminate.
    - destruct i as [|j]; cbn [nth_error] in H.
      + injection H as ->. cbn [upd total]. lia.
      + cbn [upd total]. specialize (IH j d o H). lia.
  Qed.

  (* sweep: whatever precedes the swept list in the counter stays; the rest becomes the sum over the survivors *)
  Lemma sweep_objs_total l : forall keep extra,
    let '(l', b') := sweep_objs tbl keep l (extra + total tbl l) in
    b' = extra + total tbl l' /\ total tbl l' <= total tbl l.
  Proof.
    induction l as [|o r IH]; intros keep extra; cbn [sweep_objs total].
    - split; lia.
    - destruct (match keep with [] => true | k :: _ => k end).
      + specialize (IH (tl keep) (extra + est tbl o)).
        replace (extra + (est tbl o + total tbl r)) with (extra + est tbl o + total tbl r) by lia.
        destruct (sweep_objs tbl (tl keep) r (extra + est tbl o + total tbl r)) as [l' b'].
        destruct IH as [A B]. cbn [total]. split; lia.
      + specialize (IH (tl keep) extra).
        replace (extra + (est tbl o + total tbl r) - est tbl o) with (extra + total tbl r) by lia.
        destruct (sweep_objs tbl (tl keep) r (extra + total tbl r)) as [l' b'].
        destruct IH as [A B]. split; lia.
  Qed.

  Definition acc_ok (limit : N) (h : hp) : Prop := hbytes h = total tbl (objs h) /\ hbytes h <= limit.

  Lemma hstep_ok limit h s : acc_ok limit h -> acc_ok limit (hstep_run tbl limit h s).
  Proof.
    intros [Hb Hl]. destruct s as [o | i d | keep]; cbn [hstep_run].
    - destruct (hbytes h + est tbl o <=? limit) eqn:E; [|split; assumption].
      apply N.leb_le in E. split; cbn [objs hbytes total]; lia.
    - destruct (nth_error (objs h) i) as [o|] eqn:Hn; [|split; assumption].
      pose proof (total_upd (objs h) i d o Hn) as T. pose proof (est_bump_ge o d) as G.
      destruct (dep_class tbl (o_kind o) =? 1) eqn:E1.
      + destruct (hbytes h + (est tbl (bump o d) - est tbl o) <=? limit) eqn:E; [|split; assumption].
        apply N.leb_le in E. split; cbn [objs hbytes]; lia.
      + apply N.eqb_neq in E1. pose proof (dep_class_le1 (o_kind o)) as L.
        assert (Z0 : dep_class tbl (o_kind o) = 0) by lia.
        rewrite (est_bump_fixed o d Z0) in T. split; cbn [objs hbytes]; lia.
    - pose proof (sweep_objs_total (objs h) keep 0) as S. cbn [N.add] in S. rewrite <- Hb in S.
      destruct (sweep_objs tbl keep (objs h) (hbytes h)) as [l b]. destruct S as [A B].
      split; cbn [objs hbytes]; lia.
  Qed.

  Lemma hrun_ok limit steps : acc_ok limit (hrun tbl limit steps).
  Proof.
    unfold hrun. assert (H0 : acc_ok limit (mkHp [] 0)) by (split; cbn; lia).
    revert H0. generalize (mkHp [] 0). induction steps as [|s r IH]; intros h H; cbn [fold_left]; [exact H|].
    apply IH. apply hstep_ok. exact H.
  Qed.

  (* a collection that keeps nothing brings the counter back to zero: sweep subtracted exactly what alloc and
     account_growth had added *)
  Lemma sweep_all_zero limit steps :
    hbytes (hstep_run tbl limit (hrun tbl limit steps) (HSweep (repeat false (List.length (objs (hrun tbl limit steps)))))) = 0.
  Proof.
    pose proof (hrun_ok limit steps) as [Hb _]. cbn [hstep_run].
    set (h := hrun tbl limit steps) in *. clearbody h.
    assert (K : forall l b, b = total tbl l -> sweep_objs tbl (repeat false (List.length l)) l b = ([], 0)).
    { induction l as [|o r IH]; intros b E; cbn [sweep_objs List.length repeat tl total] in *; [subst; reflexivity|].
      rewrite (IH (b - est tbl o)) by lia. reflexivity. }
    rewrite (K (objs h) (hbytes h) Hb). reflexivity.
  Qed.
End AccountingProofs.

(* the table regenerated from Heap::estimate_object_size has no arm of class 2 *)
Lemma estimator_arms_accounted : no_unaccounted_state estimator_arms = true.
Proof. vm_compute. reflexivity. Qed.

Lemma accounting_exact_extracted limit steps :
  hbytes (hrun estimator_arms limit steps) = total estimator_arms (objs (hrun estimator_arms limit steps)) /\
  total estimator_arms (objs (hrun estimator_arms limit steps)) <= limit /\
  hbytes (hstep_run estimator_arms limit (hrun estimator_arms limit steps)
            (HSweep (repeat false (List.length (objs (hrun estimator_arms limit steps)))))) = 0.
Proof.
  pose proof (hrun_ok estimator_arms estimator_arms_accounted limit steps) as [A B].
  split; [exact A|]. split; [lia|]. apply (sweep_all_zero estimator_arms estimator_arms_accounted).
Qed.

(* with an arm that reads unaccounted state the counter drifts below what the heap holds *)
Lemma unaccounted_state_drifts :
  let h := hrun drift_table 1000 drift_steps in
  objs h = [mkO 5 100 0] /\ total drift_table (objs h) = 100 /\ hbytes h = 92.
Proof. vm_compute. repeat split; reflexivity. Qed.
