(* Fuel monotonicity of the definitional evaluator: once any of its ten mutually recursive
   functions returns an answer other than out-of-fuel, it returns the same answer (and state)
   with any larger fuel.  One mutual induction, driven by one-step unfolding lemmas and a
   tactic that transports each sub-evaluation through the induction hypothesis. *)
From Coq Require Import String.
From Aelys Require Import Base.Tactics Model.Lang Model.Eval.
Local Open Scope Z_scope.
Lemma eval_expr_S f d env st e : eval_expr (S f) d env st e =
  ltac:(let t := eval cbn [eval_expr] in (eval_expr (S f) d env st e) in exact t).
Proof. reflexivity. Qed.
Lemma eval_expr_O d env st e : eval_expr O d env st e = (st, RFuel).
Proof. reflexivity. Qed.
Lemma eval_args_S f d env st es : eval_args (S f) d env st es =
  ltac:(let t := eval cbn [eval_args] in (eval_args (S f) d env st es) in exact t).
Proof. reflexivity. Qed.
Lemma eval_args_O d env st es : eval_args O d env st es = (st, RFuel).
Proof. reflexivity. Qed.
Lemma eval_fmt_S f d env st ps : eval_fmt (S f) d env st ps =
  ltac:(let t := eval cbn [eval_fmt] in (eval_fmt (S f) d env st ps) in exact t).
Proof. reflexivity. Qed.
Lemma eval_fmt_O d env st ps : eval_fmt O d env st ps = (st, RFuel).
Proof. reflexivity. Qed.
Lemma apply_fun_S f d st vf vs : apply_fun (S f) d st vf vs =
  ltac:(let t := eval cbn [apply_fun] in (apply_fun (S f) d st vf vs) in exact t).
Proof. reflexivity. Qed.
Lemma apply_fun_O d st vf vs : apply_fun O d st vf vs = (st, RFuel).
Proof. reflexivity. Qed.
Lemma exec_stmt_S f d top env st s : exec_stmt (S f) d top env st s =
  ltac:(let t := eval cbn [exec_stmt] in (exec_stmt (S f) d top env st s) in exact t).
Proof. reflexivity. Qed.
Lemma exec_stmt_O d top env st s : exec_stmt O d top env st s = (st, RFuel).
Proof. reflexivity. Qed.
Lemma exec_stmts_S f d top mode env st ss : exec_stmts (S f) d top mode env st ss =
  ltac:(let t := eval cbn [exec_stmts] in (exec_stmts (S f) d top mode env st ss) in exact t).
Proof. reflexivity. Qed.
Lemma exec_stmts_O d top mode env st ss : exec_stmts O d top mode env st ss = (st, RFuel).
Proof. reflexivity. Qed.
Lemma exec_branch_S f d env st s : exec_branch (S f) d env st s =
  ltac:(let t := eval cbn [exec_branch] in (exec_branch (S f) d env st s) in exact t).
Proof. reflexivity. Qed.
Lemma exec_branch_O d env st s : exec_branch O d env st s = (st, RFuel).
Proof. reflexivity. Qed.
Lemma exec_while_S f d env st c b : exec_while (S f) d env st c b =
  ltac:(let t := eval cbn [exec_while] in (exec_while (S f) d env st c b) in exact t).
Proof. reflexivity. Qed.
Lemma exec_while_O d env st c b : exec_while O d env st c b = (st, RFuel).
Proof. reflexivity. Qed.
Lemma exec_for_S f d env st x i hi incl step b : exec_for (S f) d env st x i hi incl step b =
  ltac:(let t := eval cbn [exec_for] in (exec_for (S f) d env st x i hi incl step b) in exact t).
Proof. reflexivity. Qed.
Lemma exec_for_O d env st x i hi incl step b : exec_for O d env st x i hi incl step b = (st, RFuel).
Proof. reflexivity. Qed.
Lemma exec_foreach_S f d env st x items b : exec_foreach (S f) d env st x items b =
  ltac:(let t := eval cbn [exec_foreach] in (exec_foreach (S f) d env st x items b) in exact t).
Proof. reflexivity. Qed.
Lemma exec_foreach_O d env st x items b : exec_foreach O d env st x items b = (st, RFuel).
Proof. reflexivity. Qed.


Definition nf {A} (r : res A) : Prop := r <> RFuel.

Record mono (f : nat) : Prop := {
  m_expr : forall d env st e st' r, eval_expr f d env st e = (st', r) -> nf r -> eval_expr (S f) d env st e = (st', r);
  m_args : forall d env st es st' r, eval_args f d env st es = (st', r) -> nf r -> eval_args (S f) d env st es = (st', r);
  m_fmt : forall d env st ps st' r, eval_fmt f d env st ps = (st', r) -> nf r -> eval_fmt (S f) d env st ps = (st', r);
  m_app : forall d st vf vs st' r, apply_fun f d st vf vs = (st', r) -> nf r -> apply_fun (S f) d st vf vs = (st', r);
  m_stmt : forall d top env st s st' r, exec_stmt f d top env st s = (st', r) -> nf r -> exec_stmt (S f) d top env st s = (st', r);
  m_stmts : forall d top mode env st ss st' r, exec_stmts f d top mode env st ss = (st', r) -> nf r -> exec_stmts (S f) d top mode env st ss = (st', r);
  m_branch : forall d env st s st' r, exec_branch f d env st s = (st', r) -> nf r -> exec_branch (S f) d env st s = (st', r);
  m_while : forall d env st c b st' r, exec_while f d env st c b = (st', r) -> nf r -> exec_while (S f) d env st c b = (st', r);
  m_for : forall d env st x i hi incl step b st' r, exec_for f d env st x i hi incl step b = (st', r) -> nf r -> exec_for (S f) d env st x i hi incl step b = (st', r);
  m_foreach : forall d env st x items b st' r, exec_foreach f d env st x items b = (st', r) -> nf r -> exec_foreach (S f) d env st x items b = (st', r)
}.

Lemma nf_ok {A} (a : A) : nf (ROk a). Proof. discriminate. Qed.
Lemma nf_err {A} k : nf (@RErr A k). Proof. discriminate. Qed.

(* finish: H is an equation between pairs, goal the same pair *)
Ltac fin H :=
  first [ exact H
        | lazymatch type of H with
          | (_, _) = (_, _) => inversion H; subst; unfold nf in *; first [ reflexivity | exfalso; congruence ]
          end ].

(* destruct the first closed sub-call in H, transport it to the goal by the IH *)
Ltac sub IH H :=
  lazymatch type of H with
  | context [eval_expr ?f ?a0 ?a1 ?a2 ?a3] =>
      let E := fresh "E" in let s1 := fresh "st" in let r1 := fresh "r" in
      destruct (eval_expr f a0 a1 a2 a3) as [s1 r1] eqn:E; destruct r1;
      [ rewrite (m_expr _ IH _ _ _ _ _ _ E (nf_ok _)); clear E
      | rewrite (m_expr _ IH _ _ _ _ _ _ E (nf_err _)); clear E
      | clear E ]
  | context [eval_args ?f ?a0 ?a1 ?a2 ?a3] =>
      let E := fresh "E" in let s1 := fresh "st" in let r1 := fresh "r" in
      destruct (eval_args f a0 a1 a2 a3) as [s1 r1] eqn:E; destruct r1;
      [ rewrite (m_args _ IH _ _ _ _ _ _ E (nf_ok _)); clear E
      | rewrite (m_args _ IH _ _ _ _ _ _ E (nf_err _)); clear E
      | clear E ]
  | context [eval_fmt ?f ?a0 ?a1 ?a2 ?a3] =>
      let E := fresh "E" in let s1 := fresh "st" in let r1 := fresh "r" in
      destruct (eval_fmt f a0 a1 a2 a3) as [s1 r1] eqn:E; destruct r1;
      [ rewrite (m_fmt _ IH _ _ _ _ _ _ E (nf_ok _)); clear E
      | rewrite (m_fmt _ IH _ _ _ _ _ _ E (nf_err _)); clear E
      | clear E ]
  | context [apply_fun ?f ?a0 ?a1 ?a2 ?a3] =>
      let E := fresh "E" in let s1 := fresh "st" in let r1 := fresh "r" in
      destruct (apply_fun f a0 a1 a2 a3) as [s1 r1] eqn:E; destruct r1;
      [ rewrite (m_app _ IH _ _ _ _ _ _ E (nf_ok _)); clear E
      | rewrite (m_app _ IH _ _ _ _ _ _ E (nf_err _)); clear E
      | clear E ]
  | context [exec_stmt ?f ?a0 ?a1 ?a2 ?a3 ?a4] =>
      let E := fresh "E" in let s1 := fresh "st" in let r1 := fresh "r" in
      destruct (exec_stmt f a0 a1 a2 a3 a4) as [s1 r1] eqn:E; destruct r1;
      [ rewrite (m_stmt _ IH _ _ _ _ _ _ _ E (nf_ok _)); clear E
      | rewrite (m_stmt _ IH _ _ _ _ _ _ _ E (nf_err _)); clear E
      | clear E ]
  | context [exec_stmts ?f ?a0 ?a1 ?a2 ?a3 ?a4 ?a5] =>
      let E := fresh "E" in let s1 := fresh "st" in let r1 := fresh "r" in
      destruct (exec_stmts f a0 a1 a2 a3 a4 a5) as [s1 r1] eqn:E; destruct r1;
      [ rewrite (m_stmts _ IH _ _ _ _ _ _ _ _ E (nf_ok _)); clear E
      | rewrite (m_stmts _ IH _ _ _ _ _ _ _ _ E (nf_err _)); clear E
      | clear E ]
  | context [exec_branch ?f ?a0 ?a1 ?a2 ?a3] =>
      let E := fresh "E" in let s1 := fresh "st" in let r1 := fresh "r" in
      destruct (exec_branch f a0 a1 a2 a3) as [s1 r1] eqn:E; destruct r1;
      [ rewrite (m_branch _ IH _ _ _ _ _ _ E (nf_ok _)); clear E
      | rewrite (m_branch _ IH _ _ _ _ _ _ E (nf_err _)); clear E
      | clear E ]
  | context [exec_while ?f ?a0 ?a1 ?a2 ?a3 ?a4] =>
      let E := fresh "E" in let s1 := fresh "st" in let r1 := fresh "r" in
      destruct (exec_while f a0 a1 a2 a3 a4) as [s1 r1] eqn:E; destruct r1;
      [ rewrite (m_while _ IH _ _ _ _ _ _ _ E (nf_ok _)); clear E
      | rewrite (m_while _ IH _ _ _ _ _ _ _ E (nf_err _)); clear E
      | clear E ]
  | context [exec_for ?f ?a0 ?a1 ?a2 ?a3 ?a4 ?a5 ?a6 ?a7 ?a8] =>
      let E := fresh "E" in let s1 := fresh "st" in let r1 := fresh "r" in
      destruct (exec_for f a0 a1 a2 a3 a4 a5 a6 a7 a8) as [s1 r1] eqn:E; destruct r1;
      [ rewrite (m_for _ IH _ _ _ _ _ _ _ _ _ _ _ E (nf_ok _)); clear E
      | rewrite (m_for _ IH _ _ _ _ _ _ _ _ _ _ _ E (nf_err _)); clear E
      | clear E ]
  | context [exec_foreach ?f ?a0 ?a1 ?a2 ?a3 ?a4 ?a5] =>
      let E := fresh "E" in let s1 := fresh "st" in let r1 := fresh "r" in
      destruct (exec_foreach f a0 a1 a2 a3 a4 a5) as [s1 r1] eqn:E; destruct r1;
      [ rewrite (m_foreach _ IH _ _ _ _ _ _ _ _ E (nf_ok _)); clear E
      | rewrite (m_foreach _ IH _ _ _ _ _ _ _ _ E (nf_err _)); clear E
      | clear E ]
  end; cbn beta iota zeta in H |- *.

(* case-split on a non-call scrutinee that blocks reduction in H *)
Ltac split_scrut H :=
  lazymatch type of H with
  | context [if ?c then _ else _] => destruct c eqn:?
  | context [let (_, _) := alloc_cell ?s ?v in _] => destruct (alloc_cell s v) eqn:?
  | context [let (_, _) := alloc_obj ?s ?v in _] => destruct (alloc_obj s v) eqn:?
  | context [let (_, _) := bind_params ?a ?b ?c ?d in _] => destruct (bind_params a b c d) eqn:?
  | context [match ?x with _ => _ end] => is_var x; destruct x
  end; cbn beta iota zeta in H |- *.

Ltac go IH H := repeat (first [ fin H | sub IH H | split_scrut H ]).

Lemma mono_O : mono O.
Proof.
  constructor; intros;
    match goal with H : _ = (_, ?r), N : nf ?r |- _ => cbn in H; inversion H; subst; exfalso; apply N; reflexivity end.
Qed.



Lemma mono_S f : mono f -> mono (S f).
Proof.
  intro IH. constructor.
  - intros d env st e st' r H N. rewrite eval_expr_S in H. rewrite eval_expr_S. go IH H.
  - intros d env st es st' r H N. rewrite eval_args_S in H. rewrite eval_args_S. go IH H.
  - intros d env st ps st' r H N. rewrite eval_fmt_S in H. rewrite eval_fmt_S. go IH H.
  - intros d st vf vs st' r H N. rewrite apply_fun_S in H. rewrite apply_fun_S. go IH H.
  - intros d top env st s st' r H N. rewrite exec_stmt_S in H. rewrite exec_stmt_S. go IH H.
  - intros d top mode env st ss st' r H N. rewrite exec_stmts_S in H. rewrite exec_stmts_S. go IH H.
  - intros d env st s st' r H N. rewrite exec_branch_S in H. rewrite exec_branch_S. go IH H.
  - intros d env st c b st' r H N. rewrite exec_while_S in H. rewrite exec_while_S. go IH H.
  - intros d env st x i hi incl step b st' r H N. rewrite exec_for_S in H. rewrite exec_for_S. go IH H.
  - intros d env st x items b st' r H N. rewrite exec_foreach_S in H. rewrite exec_foreach_S. go IH H.
Qed.

Theorem mono_all : forall f, mono f.
Proof. induction f; [exact mono_O | apply mono_S; assumption]. Qed.

Lemma mono_le_expr f f' d env st e st' r :
  (f <= f')%nat -> eval_expr f d env st e = (st', r) -> nf r -> eval_expr f' d env st e = (st', r).
Proof.
  intro L. induction L as [|f' L IH]; intros H N; [exact H|].
  apply (m_expr _ (mono_all f')); [apply IH; assumption | exact N].
Qed.
Lemma mono_le_stmts f f' d top mode env st ss st' r :
  (f <= f')%nat -> exec_stmts f d top mode env st ss = (st', r) -> nf r -> exec_stmts f' d top mode env st ss = (st', r).
Proof.
  intro L. induction L as [|f' L IH]; intros H N; [exact H|].
  apply (m_stmts _ (mono_all f')); [apply IH; assumption | exact N].
Qed.
